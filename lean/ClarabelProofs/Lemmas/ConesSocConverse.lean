/-
  Second-order cone (C13): exactly when `update_scaling` reports failure, the algebraic form of
  `combined_ds_shift`, and the sparse-expanded KKT data `(u, v, d, η²)` restated on the SOC
  model's own fields (so that `Lemmas/KktExpansion.lean` applies to it).
-/
import ClarabelProofs.Lemmas.ConesSocScaling
import ClarabelProofs.Lemmas.KktExpansion
import ClarabelModel.Cones.PsdTriangle

namespace Clarabel.Soc

/-- `_sqrt_soc_residual` vanishes exactly when the residual is not positive -/
theorem isZero_sqrtSocResidual_iff (x0 : ℝ) (x1 : List ℝ) :
    isZero (sqrtSocResidual x0 x1) = true ↔ ¬ 0 < socResidual x0 x1 := by
  constructor
  · intro h hpos
    have := (sqrtSocResidual_of_pos x0 x1 hpos).ne'
    exact this ((isZero_real _).mp h)
  · intro h
    rw [isZero_real]
    unfold sqrtSocResidual
    simp only [h, if_false]

/-- [R] **converse of `updateScalingCore_succeeds`**: `update_scaling` returns `false` exactly
when the residual of `z` or of `s` is not positive, or — both being positive — when
`s₀z₀ + ⟨s₁,z₁⟩ + √res(s)·√res(z) ≤ 0` (then the un-normalised `w` is not interior; this
happens only if `s` and `z` lie in opposite nappes of the double cone). -/
theorem updateScalingCore_false_iff (K : Cone ℝ) (s0 : ℝ) (s1 : List ℝ) (z0 : ℝ) (z1 : List ℝ)
    (hlen : s1.length = z1.length) :
    (updateScalingCore K s0 s1 z0 z1).1 = false ↔
      (¬ 0 < socResidual z0 z1 ∨ ¬ 0 < socResidual s0 s1 ∨
        s0 * z0 + dotL s1 z1 + sqrtSocResidual s0 s1 * sqrtSocResidual z0 z1 ≤ 0) := by
  by_cases hz : 0 < socResidual z0 z1
  swap
  · have hzz : isZero (sqrtSocResidual z0 z1) = true := (isZero_sqrtSocResidual_iff _ _).mpr hz
    unfold updateScalingCore
    simp [hzz, hz]
  by_cases hs : 0 < socResidual s0 s1
  swap
  · have hsz : isZero (sqrtSocResidual s0 s1) = true := (isZero_sqrtSocResidual_iff _ _).mpr hs
    unfold updateScalingCore
    simp [hsz, hs]
  have hzz : isZero (sqrtSocResidual z0 z1) = false := by
    rw [← Bool.not_eq_true, isZero_sqrtSocResidual_iff]; exact not_not.mpr hz
  have hsz : isZero (sqrtSocResidual s0 s1) = false := by
    rw [← Bool.not_eq_true, isZero_sqrtSocResidual_iff]; exact not_not.mpr hs
  obtain ⟨hss, hss2⟩ := sqrtSocResidual_pos s0 s1 hsz
  obtain ⟨hzs, hzs2⟩ := sqrtSocResidual_pos z0 z1 hzz
  have hres := wb_residual s0 s1 z0 z1 _ _ hlen hss hzs hss2 hzs2
  have hprod : 0 < sqrtSocResidual s0 s1 * sqrtSocResidual z0 z1 := mul_pos hss hzs
  have key : (¬ 0 < 2 + 2 * (s0 * z0 + dotL s1 z1) / (sqrtSocResidual s0 s1 * sqrtSocResidual z0 z1))
      ↔ s0 * z0 + dotL s1 z1 + sqrtSocResidual s0 s1 * sqrtSocResidual z0 z1 ≤ 0 := by
    rw [not_lt]
    have e : 2 + 2 * (s0 * z0 + dotL s1 z1) / (sqrtSocResidual s0 s1 * sqrtSocResidual z0 z1)
        = 2 * (s0 * z0 + dotL s1 z1 + sqrtSocResidual s0 s1 * sqrtSocResidual z0 z1)
          / (sqrtSocResidual s0 s1 * sqrtSocResidual z0 z1) := by
      field_simp
      ring
    rw [e, div_nonpos_iff]
    constructor
    · rintro (⟨_, h2⟩ | ⟨h1, _⟩)
      · exact absurd h2 (not_le.mpr hprod)
      · linarith
    · intro h
      exact Or.inr ⟨by linarith, hprod.le⟩
  simp only [hz, hs, not_true_eq_false, false_or]
  rw [← key, ← hres, ← isZero_sqrtSocResidual_iff]
  unfold updateScalingCore scalingW
  simp only [hzz, hsz, Bool.or_self, Bool.false_eq_true, if_false]
  cases hw : isZero (sqrtSocResidual (s0 * (1 / sqrtSocResidual s0 s1) + z0 / sqrtSocResidual z0 z1)
      (List.zipWith (fun wi zi => -(1 / sqrtSocResidual z0 z1) * zi + 1 * wi)
        (s1.map (fun si => si * (1 / sqrtSocResidual s0 s1))) z1))
  · simp
  · simp

/-- positive residual and non-negative head entry means interior -/
theorem interior_of_residual_pos {x0 : ℝ} {x1 : List ℝ} (h0 : 0 ≤ x0) (h : 0 < socResidual x0 x1) :
    Interior x0 x1 := by
  rw [socResidual_eq] at h
  have hd := dotL_self_nonneg x1
  refine ⟨?_, by linarith⟩
  rcases h0.lt_or_eq with h1 | h1
  · exact h1
  · rw [← h1] at h; nlinarith

/-- [R] on the half-spaces `s₀ ≥ 0`, `z₀ ≥ 0` (every point of the cone, and every iterate of the
solver up to rounding): `update_scaling` returns `false` **iff** one of the two residuals
`s₀² − ‖s₁‖²`, `z₀² − ‖z₁‖²` is not positive, i.e. iff `(s,z)` is not a pair of interior points. -/
theorem updateScalingCore_false_iff_halfspace (K : Cone ℝ) (s0 : ℝ) (s1 : List ℝ) (z0 : ℝ)
    (z1 : List ℝ) (hlen : s1.length = z1.length) (hs0 : 0 ≤ s0) (hz0 : 0 ≤ z0) :
    ((updateScalingCore K s0 s1 z0 z1).1 = false ↔
      (¬ 0 < socResidual s0 s1 ∨ ¬ 0 < socResidual z0 z1)) ∧
    ((updateScalingCore K s0 s1 z0 z1).1 = false ↔ ¬ (Interior s0 s1 ∧ Interior z0 z1)) := by
  have h1 : (updateScalingCore K s0 s1 z0 z1).1 = false ↔
      (¬ 0 < socResidual s0 s1 ∨ ¬ 0 < socResidual z0 z1) := by
    constructor
    · intro hf
      by_contra hcon
      rw [not_or, not_not, not_not] at hcon
      have := updateScalingCore_succeeds K s0 s1 z0 z1 (interior_of_residual_pos hs0 hcon.1)
        (interior_of_residual_pos hz0 hcon.2) hlen
      rw [hf] at this; cases this
    · intro h
      rw [updateScalingCore_false_iff K s0 s1 z0 z1 hlen]
      rcases h with h | h
      · exact Or.inr (Or.inl h)
      · exact Or.inl h
  refine ⟨h1, h1.trans ?_⟩
  constructor
  · rintro (h | h) ⟨hs, hz⟩
    · exact h (by rw [socResidual_eq]; linarith [hs.2])
    · exact h (by rw [socResidual_eq]; linarith [hz.2])
  · intro h
    by_contra hcon
    rw [not_or, not_not, not_not] at hcon
    exact h ⟨interior_of_residual_pos hs0 hcon.1, interior_of_residual_pos hz0 hcon.2⟩

/-! ## the sparse-expanded form `(u, v, d, η²)` -/

open Lemmas.KktExpansion in
/-- the list dot product as the `Fin`-indexed sum of `Lemmas/KktExpansion.lean` -/
theorem dotL_self_eq_dot (l : List ℝ) :
    dotL l l = Lemmas.KktExpansion.dot (fun i : Fin l.length => l[i]) (fun i : Fin l.length => l[i]) := by
  induction l with
  | nil => simp [Lemmas.KktExpansion.dot]
  | cons a t ih =>
    rw [dotL_cons, ih]
    simp [Lemmas.KktExpansion.dot, Fin.sum_univ_succ]

/-- the scalars of `scalingSparse`: `(d, u0, u1, v1)` -/
noncomputable def sparseScalars (w0 : ℝ) (w1 : List ℝ) : ℝ × ℝ × ℝ × ℝ :=
  let wsq := w0 * w0 + dotL w1 w1
  let d := (1 / 2) * wsq⁻¹
  let u0 := Real.sqrt (wsq - d)
  (d, u0, 2 * w0 / u0, Real.sqrt (2 * (2 + wsq⁻¹) / (2 * wsq - wsq⁻¹)))

/-- the sparse data the model stores, in terms of `sparseScalars` -/
theorem scalingSparse_eq (w0 : ℝ) (w1 : List ℝ) :
    (scalingSparse w0 w1).d = (sparseScalars w0 w1).1 ∧
    (scalingSparse w0 w1).u
      = join (sparseScalars w0 w1).2.1 (w1.map (fun wi => (sparseScalars w0 w1).2.2.1 * wi)) ∧
    (scalingSparse w0 w1).v = join 0 (w1.map (fun wi => (sparseScalars w0 w1).2.2.2 * wi)) := by
  have h2 : (two : ℝ) = 2 := by norm_num [two]
  have hh : (half : ℝ) = 1 / 2 := by norm_num [half]
  simp only [scalingSparse, sparseScalars, sumsqL_eq, h2, hh, real_sqrt_eq, one_div, mul_zero,
    add_zero]
  exact ⟨trivial, trivial, trivial⟩

/-- [R] the three scalar facts that make the rank-2 expansion exact (imported from
`Lemmas/KktExpansion.lean`: `soc_sparse_real` + `SocSparse.key`), on the model's own scalars:
`d + u0² = 2w0² − 1`, `u0·u1 = 2w0`, `u1² − v1² = 2`, for a normalised `w`. -/
theorem sparseScalars_key (w0 : ℝ) (w1 : List ℝ) (hw : w0 ^ 2 - dotL w1 w1 = 1) :
    (sparseScalars w0 w1).1 + (sparseScalars w0 w1).2.1 * (sparseScalars w0 w1).2.1
        = 2 * w0 * w0 - 1 ∧
    (sparseScalars w0 w1).2.1 * (sparseScalars w0 w1).2.2.1 = 2 * w0 ∧
    (sparseScalars w0 w1).2.2.1 * (sparseScalars w0 w1).2.2.1
      - (sparseScalars w0 w1).2.2.2 * (sparseScalars w0 w1).2.2.2 = 2 := by
  have unit : w0 * w0 - Lemmas.KktExpansion.dot (fun i : Fin w1.length => w1[i])
      (fun i : Fin w1.length => w1[i]) = 1 := by
    rw [← dotL_self_eq_dot]; linarith [hw, sq w0]
  have := (Lemmas.KktExpansion.soc_sparse_real w0 (fun i : Fin w1.length => w1[i]) unit).key
    (two_ne_zero)
  simpa only [sparseScalars, ← dotL_self_eq_dot] using this

/-- `⟨u, x⟩` and `⟨v, x⟩` for the sparse vectors -/
theorem dot_sparse_vec (c0 c1 : ℝ) (w1 : List ℝ) (x0 : ℝ) (x1 : List ℝ) :
    Vec.dot (join c0 (w1.map (fun wi => c1 * wi))) (join x0 x1) = c0 * x0 + c1 * dotL w1 x1 := by
  rw [vecdot_join]
  congr 1
  have : w1.map (fun wi => c1 * wi) = w1.map (fun wi => wi * c1) := by
    apply List.map_congr_left; intro a _; ring
  rw [this, dotL_map_mul]

/-- [R] **same operator, sparse-expanded (SOC) block**: with `D = diag(d, 1, …, 1)` and the
vectors `u`, `v` that `update_scaling` stores in `sparse_data`, `η²(D + uuᵀ − vvᵀ)x` is exactly
`mul_Hs x`, for every normalised `w`. (`η²D` is what `get_Hs` writes on the diagonal, `η²`, `u`,
`v` are what the KKT assembly places in the two extra rows/columns.) -/
theorem sparse_rank2_eq_mulHs (w0 : ℝ) (w1 : List ℝ) (eta x0 : ℝ) (x1 : List ℝ)
    (hw : w0 ^ 2 - dotL w1 w1 = 1) (hx : x1.length = w1.length) :
    let sp := scalingSparse w0 w1
    let sc := sparseScalars w0 w1
    let ux := Vec.dot sp.u (join x0 x1)
    let vx := Vec.dot sp.v (join x0 x1)
    mulHsCore x0 x1 w0 w1 eta =
      (eta * eta * sp.d * x0 + eta * eta * (sc.2.1 * ux - 0 * vx),
       List.zipWith (fun wi xi => eta * eta * xi
          + eta * eta * ((sc.2.2.1 * wi) * ux - (sc.2.2.2 * wi) * vx)) w1 x1) := by
  intro sp sc ux vx
  obtain ⟨hd, hu, hv⟩ := scalingSparse_eq w0 w1
  obtain ⟨k1, k2, k3⟩ := sparseScalars_key w0 w1 hw
  have hux : ux = sc.2.1 * x0 + sc.2.2.1 * dotL w1 x1 := by
    show Vec.dot (scalingSparse w0 w1).u _ = _
    rw [hu, dot_sparse_vec]
  have hvx : vx = sc.2.2.2 * dotL w1 x1 := by
    show Vec.dot (scalingSparse w0 w1).v _ = _
    rw [hv, dot_sparse_vec]; ring
  rw [mulHsCore_eq x0 x1 w0 w1 eta hx, hux, hvx]
  show _ = (eta * eta * (scalingSparse w0 w1).d * x0 + _, _)
  rw [hd]
  refine Prod.ext ?_ ?_
  · show eta ^ 2 * (2 * (w0 * x0 + dotL w1 x1) * w0 - x0) = _
    linear_combination (-(eta ^ 2 * x0)) * k1 - (eta ^ 2 * dotL w1 x1) * k2
  · apply List.ext_getElem
    · simp
    · intro i h1 h2
      have hi : i < w1.length := by
        simp only [List.length_zipWith, hx, min_self] at h1; exact h1
      simp only [List.getElem_zipWith]
      linear_combination (-(eta ^ 2 * w1[i] * x0)) * k2 - (eta ^ 2 * w1[i] * dotL w1 x1) * k3

/-- [R] the Schur-complement form: eliminating the two auxiliary variables `a`, `b` of the
expanded KKT block `[−η²D, −η²v, −η²u ; −η²vᵀ, −η², 0 ; −η²uᵀ, 0, η²]` (rows 2 and 3 with zero
right-hand side) leaves `−mul_Hs x` in the first block row. -/
theorem sparse_schur_eq_mulHs (w0 : ℝ) (w1 : List ℝ) (eta x0 : ℝ) (x1 : List ℝ) (a b : ℝ)
    (hw : w0 ^ 2 - dotL w1 w1 = 1) (hx : x1.length = w1.length) (he : eta ≠ 0)
    (hv : -(eta * eta) * Vec.dot (scalingSparse w0 w1).v (join x0 x1) + -(eta * eta) * a = 0)
    (hu : -(eta * eta) * Vec.dot (scalingSparse w0 w1).u (join x0 x1) + (eta * eta) * b = 0) :
    let sp := scalingSparse w0 w1
    let sc := sparseScalars w0 w1
    (-(eta * eta * sp.d) * x0 + (-(eta * eta) * 0) * a + (-(eta * eta) * sc.2.1) * b,
      List.zipWith (fun wi xi => -(eta * eta) * xi + (-(eta * eta) * (sc.2.2.2 * wi)) * a
        + (-(eta * eta) * (sc.2.2.1 * wi)) * b) w1 x1)
      = (-(mulHsCore x0 x1 w0 w1 eta).1, (mulHsCore x0 x1 w0 w1 eta).2.map (fun v => -v)) := by
  intro sp sc
  have hee : eta * eta ≠ 0 := mul_ne_zero he he
  have ha : a = -Vec.dot (scalingSparse w0 w1).v (join x0 x1) := by
    have : (eta * eta) * (a + Vec.dot (scalingSparse w0 w1).v (join x0 x1)) = 0 := by
      linear_combination -hv
    rcases mul_eq_zero.mp this with h | h
    · exact absurd h hee
    · linarith
  have hb : b = Vec.dot (scalingSparse w0 w1).u (join x0 x1) := by
    have : (eta * eta) * (b - Vec.dot (scalingSparse w0 w1).u (join x0 x1)) = 0 := by
      linear_combination hu
    rcases mul_eq_zero.mp this with h | h
    · exact absurd h hee
    · linarith
  have key := sparse_rank2_eq_mulHs w0 w1 eta x0 x1 hw hx
  simp only at key
  rw [key, ha, hb]
  refine Prod.ext ?_ ?_
  · show _ = -(_ + _)
    ring
  · apply List.ext_getElem
    · simp
    · intro i h1 h2
      simp only [List.getElem_zipWith, List.getElem_map]
      ring

/-- on success the sparse data left behind is `scalingSparse` of the stored normalised `w` -/
theorem updateScalingCore_sparse (K K' : Cone ℝ) (s0 : ℝ) (s1 : List ℝ) (z0 : ℝ) (z1 : List ℝ)
    (sp0 : Sparse ℝ) (hsp : K.sparse = some sp0)
    (h : updateScalingCore K s0 s1 z0 z1 = (true, K')) :
    ∃ w0 w1, K'.w = join w0 w1 ∧ w0 ^ 2 - dotL w1 w1 = 1 ∧ 0 < w0 ∧
      K'.sparse = some (scalingSparse w0 w1) := by
  unfold updateScalingCore at h
  simp only at h
  split at h
  · simp at h
  · split at h
    · simp at h
    · rename_i w0 w1 ws hW
      simp only [Prod.mk.injEq, true_and] at h
      subst h
      obtain ⟨h1, h2⟩ := scalingW_normalised _ _ _ _ _ _ _ _ _ hW
      exact ⟨w0, w1, rfl, h1, h2, by simp [hsp]⟩

/-! ## `combined_ds_shift` on the array-level wrappers -/

theorem split_join (a : ℝ) (l : List ℝ) : split (join a l) = .ok (a, l) := by
  simp [split, join]; rfl

theorem size_join (a : ℝ) (l : List ℝ) : (join a l).size = l.length + 1 := by
  simp [join]

/-- [R] `combined_ds_shift` of the second-order cone: `step_z ← WΔz`, `step_s ← W⁻¹Δs`
(`W` symmetric), `shift = (W⁻¹Δs) ∘ (WΔz) − σμ·e` with `e = (1, 0, …, 0)`. -/
theorem combinedDsShift_eq (K : Cone ℝ) (w0 : ℝ) (w1 : List ℝ) (hw : K.w = join w0 w1)
    (hdim : K.dim = w1.length + 1) (z0 : ℝ) (z1 : List ℝ) (s0 : ℝ) (s1 : List ℝ)
    (hz : z1.length = w1.length) (hs : s1.length = w1.length) (sm : ℝ) :
    let wz := mulWCore z0 z1 z0 z1 1 0 w0 w1 K.eta
    let ws := mulWinvCore s0 s1 s0 s1 1 0 w0 w1 K.eta
    let c := circOpCore ws.1 ws.2 wz.1 wz.2
    combinedDsShift K (join z0 z1) (join s0 s1) sm
      = .ok (join (c.1 + -sm) c.2, join wz.1 wz.2, join ws.1 ws.2) := by
  intro wz ws c
  have lwz : wz.2.length = w1.length := by simp [wz, mulWCore, hz]
  have lws : ws.2.length = w1.length := by simp [ws, mulWinvCore, hs]
  have e1 : mulW K (join z0 z1) (join z0 z1) 1 0 = .ok (join wz.1 wz.2) := by
    simp only [mulW, hw, split_join, size_join, hdim, hz, ne_eq, not_true_eq_false, or_self,
      if_false, bind, Except.bind, pure, Except.pure]
    rfl
  have e2 : mulWinv K (join s0 s1) (join s0 s1) 1 0 = .ok (join ws.1 ws.2) := by
    simp only [mulWinv, hw, split_join, size_join, hdim, hs, ne_eq, not_true_eq_false, or_self,
      if_false, bind, Except.bind, pure, Except.pure]
    rfl
  have e3 : circOp (join ws.1 ws.2) (join wz.1 wz.2) = .ok (join c.1 c.2) := by
    simp only [circOp, split_join, size_join, lwz, lws, ne_eq, not_true_eq_false, if_false, bind,
      Except.bind, pure, Except.pure]
    rfl
  have e4 : scaledUnitShift (join c.1 c.2) (-sm) = .ok (join (c.1 + -sm) c.2) := by
    simp only [scaledUnitShift, split_join, bind, Except.bind, pure, Except.pure]
  simp only [combinedDsShift, e1, e2, e3, e4, bind, Except.bind, pure, Except.pure]

/-! ## the dense block of a small cone (`dim ≤ 4`) -/

/-- [R] **same operator, dense SOC block** (`dim ≤ 4`, no sparse expansion): the packed upper
triangle `get_Hs` writes, read as a symmetric matrix and applied to `x`, is `mul_Hs x`. -/
theorem getHs_dense_eq_mulHs (K : Cone ℝ) (w0 : ℝ) (w1 : List ℝ) (x0 : ℝ) (x1 : List ℝ)
    (hsp : K.sparse = none) (hw : K.w = join w0 w1) (hdim : K.dim = w1.length + 1)
    (h2 : 2 ≤ K.dim) (h4 : K.dim ≤ 4) (hx : x1.length = w1.length) :
    ∃ H, getHs K = .ok H ∧ PsdTri.symPackedMulVec K.dim H (join x0 x1)
      = join (mulHsCore x0 x1 w0 w1 K.eta).1 (mulHsCore x0 x1 w0 w1 K.eta).2 := by
  have hs := Real.mul_self_sqrt (show (0:ℝ) ≤ 2 by norm_num)
  match w1, x1, hx with
  | [], _, _ => simp at hdim; omega
  | [a], [p], _ =>
    have hd : K.dim = 2 := by simpa using hdim
    refine ⟨_, by
      simp only [getHs, hsp, hw, split_join, hd, bind, Except.bind, pure, Except.pure]
      simp [getE, join, two_real, List.range', List.forIn_cons, bind, Except.bind, pure, Except.pure]
      rfl, ?_⟩
    simp [hd, PsdTri.symPackedMulVec, PsdTri.sumN, List.range_succ, PsdIndex.triangularNumber, join,
      mulHsCore, Vec.dot, two_real]
    refine ⟨?_, ?_⟩
    · linear_combination (w0 * w0 * (K.eta * K.eta) * x0) * hs
    · ring
  | [a, b], [p, q], _ =>
    have hd : K.dim = 3 := by simpa using hdim
    refine ⟨_, by
      simp only [getHs, hsp, hw, split_join, hd, bind, Except.bind, pure, Except.pure]
      simp [getE, join, two_real, List.range', List.forIn_cons, bind, Except.bind, pure, Except.pure]
      rfl, ?_⟩
    simp [hd, PsdTri.symPackedMulVec, PsdTri.sumN, List.range_succ, PsdIndex.triangularNumber, join,
      mulHsCore, Vec.dot, two_real]
    refine ⟨?_, ?_, ?_⟩
    · linear_combination (w0 * w0 * (K.eta * K.eta) * x0) * hs
    · ring
    · ring
  | [a, b, c], [p, q, r], _ =>
    have hd : K.dim = 4 := by simpa using hdim
    refine ⟨_, by
      simp only [getHs, hsp, hw, split_join, hd, bind, Except.bind, pure, Except.pure]
      simp [getE, join, two_real, List.range', List.forIn_cons, bind, Except.bind, pure, Except.pure]
      rfl, ?_⟩
    simp [hd, PsdTri.symPackedMulVec, PsdTri.sumN, List.range_succ, PsdIndex.triangularNumber, join,
      mulHsCore, Vec.dot, two_real]
    refine ⟨?_, ?_, ?_, ?_⟩
    · linear_combination (w0 * w0 * (K.eta * K.eta) * x0) * hs
    · ring
    · ring
    · ring
  | (_ :: _ :: _ :: _ :: _), _, _ => simp at hdim; omega

end Clarabel.Soc
