/-
  C10 under *arbitrary* `equilibrate_min_scaling` / `equilibrate_max_scaling`
  (`DefaultSettings::validate` checks neither bound):

  * positivity: with `0 < min`, `0 < max` (in any order) every `dᵢ`, `eᵢ`, `c` stays positive
    through every pass of the loop (`clip(w, min/d, max/d)` returns one of three positive
    numbers);
  * bounds without `min ≤ 1 ≤ max`: with `0 < min ≤ max` ONE pass puts every `dᵢ`, `eᵢ` into
    `[min, max]` whatever they were before (`d·clip(w, min/d, max/d) ∈ [min, max]` for every
    `d > 0`); the cost scaling `c` is either still `1` or in `[min, max]`;
  * all-zero rows / columns: after at least one pass the scaling is exactly `clip(1, min, max)`
    — `1` iff `min ≤ 1 ≤ max`.
-/
import ClarabelProofs.Lemmas.Equil
import ClarabelProofs.Lemmas.EquilZero
import ClarabelProofs.Lemmas.EquilBounds

namespace Clarabel.Equil
variable {α : Type} [Field α] [LinearOrder α] [IsStrictOrderedRing α] [FloatLike α] [LawfulFloatLike α]

/-! ### clip -/

omit [FloatLike α] [LawfulFloatLike α] in
theorem clip_pos (w lo hi : α) (hlo : 0 < lo) (hhi : 0 < hi) : 0 < Vec.clip w lo hi := by
  unfold Vec.clip
  split
  · exact hlo
  · rename_i h1
    split
    · exact hhi
    · exact lt_of_lt_of_le hlo (not_lt.mp h1)

omit [FloatLike α] [LawfulFloatLike α] in
/-- for every `d > 0`: `d · clip(w, lo/d, hi/d) ∈ [lo, hi]` (needs `lo ≤ hi`, not `lo ≤ d ≤ hi`) -/
theorem mul_clip_mem' (d w lo hi : α) (hd : 0 < d) (hlh : lo ≤ hi) :
    lo ≤ d * Vec.clip w (lo / d) (hi / d) ∧ d * Vec.clip w (lo / d) (hi / d) ≤ hi := by
  have hle : lo / d ≤ hi / d := div_le_div_of_nonneg_right hlh hd.le
  obtain ⟨h1, h2⟩ := clip_mem w (lo / d) (hi / d) hle
  constructor
  · calc lo = d * (lo / d) := by field_simp
      _ ≤ d * Vec.clip w (lo / d) (hi / d) := mul_le_mul_of_nonneg_left h1 hd.le
  · calc d * Vec.clip w (lo / d) (hi / d) ≤ d * (hi / d) := mul_le_mul_of_nonneg_left h2 hd.le
      _ = hi := by field_simp

omit [FloatLike α] [LawfulFloatLike α] in
/-- with `lo > hi` the clipped product is `lo` or `hi`: at least one bound is violated -/
theorem mul_clip_inverted (d w lo hi : α) (hd : 0 < d) (hlh : hi < lo) :
    d * Vec.clip w (lo / d) (hi / d) = lo ∨ d * Vec.clip w (lo / d) (hi / d) = hi := by
  have hlt : hi / d < lo / d := div_lt_div_of_pos_right hlh hd
  unfold Vec.clip
  split
  · left; field_simp
  · rename_i h1
    rw [if_pos (lt_of_lt_of_le hlt (not_lt.mp h1))]
    right; field_simp

omit [FloatLike α] [LawfulFloatLike α] in
theorem getD_clipWork (w c : Array α) (lo hi : α) (j : Nat) (hw : j < w.size) (hc : j < c.size) :
    (clipWork w c lo hi).getD j 1 = Vec.clip (w.getD j 1) (lo / c.getD j 1) (hi / c.getD j 1) := by
  simp [clipWork, Array.getD, hw, hc]

omit [FloatLike α] [LawfulFloatLike α] in
theorem getD_clipWork_out (w c : Array α) (lo hi : α) (j : Nat) (hw : ¬ j < w.size) :
    (clipWork w c lo hi).getD j 1 = 1 := by
  simp [clipWork, Array.getD, hw]

/-! ### positivity -/

/-- all entries positive -/
def PosV (x : Array α) : Prop := ∀ j, j < x.size → 0 < x.getD j 1

omit [FloatLike α] [LawfulFloatLike α] in
theorem posV_hadamard_clipWork (lo hi : α) (hlo : 0 < lo) (hhi : 0 < hi) (d w : Array α) (h : PosV d) :
    PosV (hadamardInPlace d (clipWork w d lo hi)) := by
  intro j hj
  rw [size_hadamardInPlace] at hj
  rw [getD_hadamardInPlace _ _ _ _ hj]
  have hd := h j hj
  by_cases hw : j < w.size
  · rw [getD_clipWork _ _ _ _ _ hw hj]
    exact mul_pos hd (clip_pos _ _ _ (div_pos hlo hd) (div_pos hhi hd))
  · rw [getD_clipWork_out _ _ _ _ _ hw, mul_one]; exact hd

omit [FloatLike α] [LawfulFloatLike α] in
theorem allIn_hadamard_clipWork' (lo hi : α) (hlh : lo ≤ hi) (d w : Array α) (h : PosV d)
    (hsz : d.size ≤ w.size) : AllIn lo hi (hadamardInPlace d (clipWork w d lo hi)) := by
  intro j hj
  rw [size_hadamardInPlace] at hj
  rw [getD_hadamardInPlace _ _ _ _ hj, getD_clipWork _ _ _ _ _ (by omega) hj]
  exact mul_clip_mem' _ _ _ _ (h j hj) hlh

/-- `d`, `e`, `c` positive, work vectors as long as the scalings -/
structure Pos (dt : ProblemData α) : Prop where
  d : PosV dt.equilibration.d
  e : PosV dt.equilibration.e
  c : 0 < dt.equilibration.c
  szd : dt.equilibration.dinv.size = dt.equilibration.d.size
  sze : dt.equilibration.einv.size = dt.equilibration.e.size

/-- the cost scaling of one pass: unchanged, or multiplied by a factor clipped to
`[min/c, max/c]` -/
theorem ruizStep_c (s : Settings α) (dt : ProblemData α) :
    (ruizStep s dt).equilibration.c = dt.equilibration.c ∨
    ∃ w, (ruizStep s dt).equilibration.c =
      dt.equilibration.c * Vec.clip w (s.minScaling / dt.equilibration.c) (s.maxScaling / dt.equilibration.c) := by
  unfold ruizStep applyCost costScaling
  simp only []
  split
  · rename_i ct hct
    split at hct
    · simp only [Option.some.injEq] at hct
      subst hct
      exact Or.inr ⟨_, rfl⟩
    · simp at hct
  · left; rfl

theorem Pos.ruizStep {dt : ProblemData α} (h : Pos dt) (s : Settings α) (hlo : 0 < s.minScaling)
    (hhi : 0 < s.maxScaling) : Pos (ruizStep s dt) := by
  refine ⟨?_, ?_, ?_, ?_, ?_⟩
  · rw [ruizStep_d]; exact posV_hadamard_clipWork _ _ hlo hhi _ _ h.d
  · rw [ruizStep_e]; exact posV_hadamard_clipWork _ _ hlo hhi _ _ h.e
  · rcases ruizStep_c s dt with hc | ⟨w, hc⟩
    · rw [hc]; exact h.c
    · rw [hc]; exact mul_pos h.c (clip_pos _ _ _ (div_pos hlo h.c) (div_pos hhi h.c))
  · rw [ruizStep_dinv_size, ruizStep_d, size_hadamardInPlace]; exact h.szd
  · rw [ruizStep_einv, (size_stepScalings s dt).2, ruizStep_e, size_hadamardInPlace]; exact h.sze

theorem Pos.ruizLoop {dt : ProblemData α} (h : Pos dt) (s : Settings α) (hlo : 0 < s.minScaling)
    (hhi : 0 < s.maxScaling) (k : Nat) : Pos (ruizLoop s k dt) := by
  induction k generalizing dt with
  | zero => exact h
  | succ k ih => exact ih (h.ruizStep s hlo hhi)

theorem Pos.fresh (dt : ProblemData α) (hfresh : dt.equilibration = EquilData.new dt.n dt.m) : Pos dt := by
  refine ⟨?_, ?_, ?_, ?_, ?_⟩
  · intro j hj
    simp [hfresh, EquilData.new, Array.getD] at hj ⊢
  · intro j hj
    simp [hfresh, EquilData.new, Array.getD] at hj ⊢
  · simp [hfresh, EquilData.new]
  · simp [hfresh, EquilData.new]
  · simp [hfresh, EquilData.new]

/-! ### bounds from `0 < min ≤ max` alone -/

/-- `c` has not been touched yet or lies in `[lo, hi]` -/
def COk (lo hi : α) (dt : ProblemData α) : Prop :=
  dt.equilibration.c = 1 ∨ (lo ≤ dt.equilibration.c ∧ dt.equilibration.c ≤ hi)

/-- ONE pass puts all `dᵢ`, `eᵢ` into `[min, max]`, from any positive state -/
theorem allIn_ruizStep {dt : ProblemData α} (h : Pos dt) (s : Settings α)
    (hlh : s.minScaling ≤ s.maxScaling) :
    AllIn s.minScaling s.maxScaling (ruizStep s dt).equilibration.d ∧
    AllIn s.minScaling s.maxScaling (ruizStep s dt).equilibration.e := by
  constructor
  · rw [ruizStep_d]
    exact allIn_hadamard_clipWork' _ _ hlh _ _ h.d (by simp [Vec.rsqrt, unzero, size_colNormsNoReset, size_colNormsSym, h.szd])
  · rw [ruizStep_e]
    exact allIn_hadamard_clipWork' _ _ hlh _ _ h.e (by simp [Vec.rsqrt, unzero, size_rowNorms, h.sze])

theorem COk.ruizStep {dt : ProblemData α} (hp : Pos dt) (s : Settings α)
    (hlh : s.minScaling ≤ s.maxScaling) (h : COk s.minScaling s.maxScaling dt) :
    COk s.minScaling s.maxScaling (ruizStep s dt) := by
  rcases ruizStep_c s dt with hc | ⟨w, hc⟩
  · unfold COk; rw [hc]; exact h
  · right; rw [hc]; exact mul_clip_mem' _ _ _ _ hp.c hlh

theorem COk.ruizLoop {dt : ProblemData α} (hp : Pos dt) (s : Settings α) (hlo : 0 < s.minScaling)
    (hlh : s.minScaling ≤ s.maxScaling) (h : COk s.minScaling s.maxScaling dt) (k : Nat) :
    COk s.minScaling s.maxScaling (ruizLoop s k dt) := by
  induction k generalizing dt with
  | zero => exact h
  | succ k ih =>
    exact ih (hp.ruizStep s hlo (lt_of_lt_of_le hlo hlh)) (h.ruizStep hp s hlh)

/-- after at least one pass all `dᵢ`, `eᵢ` are in `[min, max]` -/
theorem allIn_ruizLoop_succ {dt : ProblemData α} (hp : Pos dt) (s : Settings α) (hlo : 0 < s.minScaling)
    (hlh : s.minScaling ≤ s.maxScaling) (k : Nat) :
    AllIn s.minScaling s.maxScaling (ruizLoop s (k + 1) dt).equilibration.d ∧
    AllIn s.minScaling s.maxScaling (ruizLoop s (k + 1) dt).equilibration.e := by
  induction k generalizing dt with
  | zero => exact allIn_ruizStep hp s hlh
  | succ k ih => exact ih (hp.ruizStep s hlo (lt_of_lt_of_le hlo hlh))

/-! ### all-zero rows / columns under arbitrary bounds -/

omit [LawfulFloatLike α] in
/-- the step of an index whose norm is zero: `clip(1, lo/eᵢ, hi/eᵢ)` -/
theorem clipWork_zero_norm' (w e : Array α) (lo hi : α) (i : Nat) (hsqrt : sqrt (1:α) = 1)
    (hw : w.getD i 0 = 0) (hiw : i < w.size) (hie : i < e.size) :
    (clipWork (Vec.rsqrt (unzero w)) e lo hi).getD i 1 = Vec.clip 1 (lo / e.getD i 1) (hi / e.getD i 1) := by
  have hw' : w[i] = 0 := by simpa [Array.getD, hiw] using hw
  rw [getD_clipWork _ _ _ _ _ (by simpa [Vec.rsqrt, unzero] using hiw) hie]
  congr 1
  simp [Vec.rsqrt, unzero, Array.getD, hiw, hw', hsqrt]

omit [FloatLike α] [LawfulFloatLike α] in
/-- the fixed point: starting from `1` or from `v = clip(1, lo, hi)`, one more clipped step of
size 1 gives `v` -/
theorem clip_one_fix (lo hi : α) (hlo : 0 < lo) (hlh : lo ≤ hi) (x : α)
    (hx : x = 1 ∨ x = Vec.clip 1 lo hi) :
    x * Vec.clip 1 (lo / x) (hi / x) = Vec.clip 1 lo hi := by
  rcases hx with rfl | rfl
  · simp
  · have hhi : 0 < hi := lt_of_lt_of_le hlo hlh
    unfold Vec.clip
    by_cases h1 : 1 < lo
    · simp only [h1, ↓reduceIte]
      rw [div_self hlo.ne', if_neg (lt_irrefl _),
        if_neg (not_lt.mpr ((one_le_div hlo).mpr hlh)), mul_one]
    · simp only [h1, ↓reduceIte]
      by_cases h2 : hi < 1
      · simp only [h2, ↓reduceIte]
        rw [div_self hhi.ne', if_neg (not_lt.mpr ((div_le_one hhi).mpr hlh)), if_neg (lt_irrefl _), mul_one]
      · simp only [h2, ↓reduceIte, div_one, one_mul, h1]

/-- the value an all-zero row / column ends with: `clip(1, min, max)` -/
def restScale (s : Settings α) : α := Vec.clip 1 s.minScaling s.maxScaling

omit [FloatLike α] [LawfulFloatLike α] in
/-- "left unscaled" holds exactly when `min ≤ 1 ≤ max` -/
theorem restScale_eq_one_iff (s : Settings α) :
    restScale s = 1 ↔ (s.minScaling ≤ 1 ∧ 1 ≤ s.maxScaling) := by
  unfold restScale Vec.clip
  by_cases h1 : 1 < s.minScaling
  · simp only [h1, ↓reduceIte]
    exact ⟨fun h => absurd h (ne_of_gt h1), fun h => absurd h1 (not_lt.mpr h.1)⟩
  · simp only [h1, ↓reduceIte]
    by_cases h2 : s.maxScaling < 1
    · simp only [h2, ↓reduceIte]
      exact ⟨fun h => absurd h (ne_of_lt h2), fun h => absurd h2 (not_lt.mpr h.2)⟩
    · simp only [h2, ↓reduceIte, true_iff]
      exact ⟨not_lt.mp h1, not_lt.mp h2⟩

/-- an all-zero row `i` of `A` whose scaling is `1` or already `clip(1,min,max)` -/
structure ZRowG (s : Settings α) (i : Nat) (dt : ProblemData α) : Prop where
  zero : RowZero dt.A i
  ie : i < dt.equilibration.e.size
  iw : i < dt.equilibration.einv.size
  val : dt.equilibration.e.getD i 1 = 1 ∨ dt.equilibration.e.getD i 1 = restScale s

theorem ZRowG.step_val {s : Settings α} {i : Nat} {dt : ProblemData α} (h : ZRowG s i dt)
    (hsqrt : sqrt (1:α) = 1) (hlo : 0 < s.minScaling) (hlh : s.minScaling ≤ s.maxScaling) :
    (ruizStep s dt).equilibration.e.getD i 1 = restScale s := by
  have hsz : (rowNorms dt.A dt.equilibration.einv).size = dt.equilibration.einv.size := size_rowNorms _ _
  have key := clipWork_zero_norm' (rowNorms dt.A dt.equilibration.einv) dt.equilibration.e
    s.minScaling s.maxScaling i hsqrt (rowNorms_zero _ _ _ h.zero) (by rw [hsz]; exact h.iw) h.ie
  rw [ruizStep_e, getD_hadamardInPlace _ _ _ _ h.ie]
  have : (stepScalings s dt).2.getD i 1 =
      Vec.clip 1 (s.minScaling / dt.equilibration.e.getD i 1) (s.maxScaling / dt.equilibration.e.getD i 1) := by
    simpa [stepScalings, kktColNorms] using key
  rw [this]
  exact clip_one_fix _ _ hlo hlh _ h.val

theorem ZRowG.ruizStep {s : Settings α} {i : Nat} {dt : ProblemData α} (h : ZRowG s i dt)
    (hsqrt : sqrt (1:α) = 1) (hlo : 0 < s.minScaling) (hlh : s.minScaling ≤ s.maxScaling) :
    ZRowG s i (ruizStep s dt) := by
  refine ⟨?_, ?_, ?_, Or.inr (h.step_val hsqrt hlo hlh)⟩
  · rw [ruizStep_A]
    exact ((rowZero_iff _ _).mp h.zero).lrscale _ _
  · rw [ruizStep_e, size_hadamardInPlace]; exact h.ie
  · rw [ruizStep_einv, (size_stepScalings s dt).2]; exact h.iw

theorem ZRowG.ruizLoop_succ {s : Settings α} {i : Nat} {dt : ProblemData α} (h : ZRowG s i dt)
    (hsqrt : sqrt (1:α) = 1) (hlo : 0 < s.minScaling) (hlh : s.minScaling ≤ s.maxScaling) (k : Nat) :
    (ruizLoop s (k + 1) dt).equilibration.e.getD i 1 = restScale s ∧
      i < (ruizLoop s (k + 1) dt).equilibration.e.size := by
  induction k generalizing dt with
  | zero =>
    exact ⟨h.step_val hsqrt hlo hlh, (h.ruizStep hsqrt hlo hlh).ie⟩
  | succ k ih => exact ih (h.ruizStep hsqrt hlo hlh)

/-- an all-zero column `j` of `[P; A]` whose scaling is `1` or already `clip(1,min,max)` -/
structure ZColG (s : Settings α) (j : Nat) (dt : ProblemData α) : Prop where
  zeroA : ZeroWhere dt.A (fun _ c => c = j)
  zeroP : ZeroWhere dt.P (fun r c => r = j ∨ c = j)
  jd : j < dt.equilibration.d.size
  jw : j < dt.equilibration.dinv.size
  val : dt.equilibration.d.getD j 1 = 1 ∨ dt.equilibration.d.getD j 1 = restScale s

theorem ZColG.step_val {s : Settings α} {j : Nat} {dt : ProblemData α} (h : ZColG s j dt)
    (hsqrt : sqrt (1:α) = 1) (hlo : 0 < s.minScaling) (hlh : s.minScaling ≤ s.maxScaling) :
    (ruizStep s dt).equilibration.d.getD j 1 = restScale s := by
  have hsz : (kktColNorms dt.P dt.A dt.equilibration.dinv dt.equilibration.einv).1.size =
      dt.equilibration.dinv.size := by
    simp [kktColNorms, size_colNormsNoReset, size_colNormsSym]
  have key := clipWork_zero_norm' (kktColNorms dt.P dt.A dt.equilibration.dinv dt.equilibration.einv).1
    dt.equilibration.d s.minScaling s.maxScaling j hsqrt (kktColNorms_zero _ _ _ _ _ h.zeroP h.zeroA)
    (by rw [hsz]; exact h.jw) h.jd
  rw [ruizStep_d, getD_hadamardInPlace _ _ _ _ h.jd]
  have : (stepScalings s dt).1.getD j 1 =
      Vec.clip 1 (s.minScaling / dt.equilibration.d.getD j 1) (s.maxScaling / dt.equilibration.d.getD j 1) := by
    simpa [stepScalings] using key
  rw [this]
  exact clip_one_fix _ _ hlo hlh _ h.val

theorem ZColG.ruizStep {s : Settings α} {j : Nat} {dt : ProblemData α} (h : ZColG s j dt)
    (hsqrt : sqrt (1:α) = 1) (hlo : 0 < s.minScaling) (hlh : s.minScaling ≤ s.maxScaling) :
    ZColG s j (ruizStep s dt) := by
  refine ⟨?_, ?_, ?_, ?_, Or.inr (h.step_val hsqrt hlo hlh)⟩
  · rw [ruizStep_A]
    exact h.zeroA.lrscale _ _
  · have hl := h.zeroP.lrscale (stepScalings s dt).1 (stepScalings s dt).1
    rcases ruizStep_P s dt with hP | ⟨ct, hP⟩
    · rw [hP]; exact hl
    · rw [hP]; exact hl.scaleMat ct
  · rw [ruizStep_d, size_hadamardInPlace]; exact h.jd
  · rw [ruizStep_dinv_size]; exact h.jw

theorem ZColG.ruizLoop_succ {s : Settings α} {j : Nat} {dt : ProblemData α} (h : ZColG s j dt)
    (hsqrt : sqrt (1:α) = 1) (hlo : 0 < s.minScaling) (hlh : s.minScaling ≤ s.maxScaling) (k : Nat) :
    (ruizLoop s (k + 1) dt).equilibration.d.getD j 1 = restScale s := by
  induction k generalizing dt with
  | zero => exact h.step_val hsqrt hlo hlh
  | succ k ih => exact ih (h.ruizStep hsqrt hlo hlh)

/-! ### `q = 0`: the cost scaling is never touched -/

theorem normInf_zero (x : Array α) (h : ∀ v ∈ x.toList, v = 0) : Vec.normInf x = 0 := by
  have key : ∀ (l : List α), (∀ v ∈ l, v = 0) → ∀ acc : α, acc = 0 →
      l.foldl (fun acc v => if FloatLike.isNaN acc then acc
        else if FloatLike.isNaN v then v else fmax acc (fabs v)) acc = 0 := by
    intro l
    induction l with
    | nil => intro _ acc h; exact h
    | cons a t ih =>
      intro h acc hacc
      rw [List.foldl_cons]
      apply ih (fun v hv => h v (by simp [hv]))
      rw [hacc, h a (by simp)]
      simp [LawfulFloatLike.isNaN_eq, LawfulFloatLike.fmax_eq, LawfulFloatLike.fabs_eq]
  exact key _ h 0 rfl

/-- `q = 0` and `c = 1` -/
structure QZero (dt : ProblemData α) : Prop where
  q : ∀ v ∈ dt.q.toList, v = 0
  c : dt.equilibration.c = 1

theorem QZero.ruizStep {dt : ProblemData α} (h : QZero dt) (s : Settings α) : QZero (ruizStep s dt) := by
  have hq1 : ∀ v ∈ (applyScaling dt (some (stepScalings s dt).1) (stepScalings s dt).2).q.toList, v = 0 := by
    intro v hv
    simp only [applyScaling, scaleData] at hv
    obtain ⟨i, hi, rfl⟩ := List.mem_iff_getElem.mp hv
    have hi' : i < dt.q.size := by simpa [hadamardInPlace] using hi
    have : dt.q[i] = 0 := h.q _ (by simp)
    simp [hadamardInPlace, this]
  have hcs : (costScaling s (applyScaling dt (some (stepScalings s dt).1) (stepScalings s dt).2)).2 = none := by
    unfold costScaling
    simp only [normInf_zero _ hq1]
    simp
  have hstep : Equil.ruizStep s dt = Equil.applyCost (applyScaling dt (some (stepScalings s dt).1) (stepScalings s dt).2)
      (costScaling s (applyScaling dt (some (stepScalings s dt).1) (stepScalings s dt).2)).1 none := by
    unfold Equil.ruizStep
    simp only []
    rw [hcs]
  rw [hstep]
  exact ⟨hq1, h.c⟩

theorem QZero.ruizLoop {dt : ProblemData α} (h : QZero dt) (s : Settings α) (k : Nat) :
    QZero (ruizLoop s k dt) := by
  induction k generalizing dt with
  | zero => exact h
  | succ k ih => exact ih (h.ruizStep s)

end Clarabel.Equil
