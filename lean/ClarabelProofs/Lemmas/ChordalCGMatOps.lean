/-
  Clique-graph merge strategy: the two matrix operations `CscMatrix::set_entry` and
  `CscMatrix::dropzeros` (model `IMat.setEntry`, `IMat.dropzeros` of
  `ClarabelModel/Chordal/MergeCG.lean`) on the integer edge-weight matrix.

  * bridging lemmas between `IMat.entry`, `IMat.edges` and the stored indices of a `Good` matrix;
  * `dropzeros_spec : DropzerosSpec`, `setEntry_spec : SetEntrySpec` (the specifications are
    stated in `ChordalCGDefs.lean`).
-/
import ClarabelProofs.Lemmas.ChordalCGDefs
namespace Clarabel.Chordal
open Clarabel

/-- [S] a column index beyond the matrix holds no entry -/
theorem IMat.entry_none_of_ge {E : IMat} (h : E.WFE) {c : Nat} (hc : E.n ≤ c) (r : Nat) :
    E.entry r c = none := by
  have h0 : E.colptr.getD (c + 1) 0 = 0 := by
    have := h.cpsize
    simp [Array.getD_eq_getD_getElem?, Array.getElem?_eq_none (show E.colptr.size ≤ c + 1 by omega)]
  have he : E.colRows c = #[] := by
    unfold IMat.colRows
    rw [h0]
    apply Array.ext'
    simp
  unfold IMat.entry
  rw [he]
  simp

/-- [S] an entry exists only inside the matrix -/
theorem IMat.col_lt_of_entry {E : IMat} (h : E.WFE) {r c : Nat}
    (he : (E.entry r c).isSome = true) : c < E.n := by
  by_contra hc
  rw [IMat.entry_none_of_ge h (by omega)] at he
  simp at he

/-- [S] the stored entry `k` is found by `entry` at its own coordinates -/
theorem IMat.Good.entry_of_index {E : IMat} (h : E.Good) {k : Nat} (hk : k < E.rowval.size) :
    E.entry (E.rowval.getD k 0) (E.colIdx.getD k 0) = some (E.nzval.getD k 0) :=
  (entry_eq_some_iff h.wfe h.lower (colIdx_spec h.wfe hk).1 _).mpr ⟨k, hk, rfl, rfl, rfl⟩

/-- [S] the edge list consists of the positions with a stored entry -/
theorem IMat.Good.mem_edges {E : IMat} (h : E.Good) (r c : Nat) :
    (r, c) ∈ E.edges ↔ (E.entry r c).isSome = true := by
  simp only [IMat.edges, List.mem_map, List.mem_range, Prod.mk.injEq]
  constructor
  · rintro ⟨k, hk, rfl, rfl⟩
    rw [h.entry_of_index hk]; rfl
  · intro he
    have hc := IMat.col_lt_of_entry h.wfe he
    obtain ⟨v, hv⟩ := Option.isSome_iff_exists.mp he
    obtain ⟨k, hk, h1, h2, _⟩ := (entry_eq_some_iff h.wfe h.lower hc v).mp hv
    exact ⟨k, hk, h2, h1⟩

/-- [S] no edge is listed twice -/
theorem IMat.Good.edges_nodup {E : IMat} (h : E.Good) : E.edges.Nodup := by
  unfold IMat.edges
  refine List.Nodup.map_on ?_ List.nodup_range
  intro k hk k' hk' he
  simp only [List.mem_range] at hk hk'
  simp only [Prod.mk.injEq] at he
  exact h.lower.nodup k k' hk hk' he.2 he.1

/-- [S] one edge per stored entry -/
theorem IMat.edges_length (E : IMat) : E.edges.length = E.rowval.size := by
  simp [IMat.edges]

/-- [S] stored entries are strictly below the diagonal and inside the matrix -/
theorem IMat.Good.entry_lt {E : IMat} (h : E.Good) {r c : Nat}
    (he : (E.entry r c).isSome = true) : c < r ∧ r < E.n := by
  have hc := IMat.col_lt_of_entry h.wfe he
  obtain ⟨v, hv⟩ := Option.isSome_iff_exists.mp he
  obtain ⟨k, hk, h1, h2, _⟩ := (entry_eq_some_iff h.wfe h.lower hc v).mp hv
  have := h.lower.lower k hk
  have := h.wfe.rows k hk
  omega

/-- [S] `no stored value is 0`, by index and by coordinates -/
theorem IMat.Good.nz_iff {E : IMat} (h : E.Good) :
    (∀ k, k < E.nzval.size → E.nzval.getD k 0 ≠ 0) ↔ (∀ r c v, E.entry r c = some v → v ≠ 0) := by
  constructor
  · intro hnz r c v hv
    have hc := IMat.col_lt_of_entry h.wfe (by rw [hv]; rfl)
    obtain ⟨k, hk, _, _, h3⟩ := (entry_eq_some_iff h.wfe h.lower hc v).mp hv
    rw [← h3]
    exact hnz k (by rw [h.wfe.nnz_val]; exact hk)
  · intro hv k hk
    rw [h.wfe.nnz_val] at hk
    exact hv _ _ _ (h.entry_of_index hk)

/-- [S] the rows of a sorted column increase strictly over any distance -/
theorem IMat.Sorted.lt {E : IMat} (hs : E.Sorted) {c : Nat} (hc : c < E.n) :
    ∀ d k, E.colptr.getD c 0 ≤ k → k + d + 1 < E.colptr.getD (c + 1) 0 →
      E.rowval.getD k 0 < E.rowval.getD (k + d + 1) 0 := by
  intro d
  induction d with
  | zero => intro k h1 h2; exact hs.sorted c hc k h1 h2
  | succ d ih =>
    intro k h1 h2
    have := ih k h1 (by omega)
    have := hs.sorted c hc (k + d + 1) (by omega) h2
    rw [show k + (d + 1) + 1 = k + d + 1 + 1 by omega]
    omega

/-- [S] the same, between two positions of a column -/
theorem IMat.Sorted.lt' {E : IMat} (hs : E.Sorted) {c : Nat} (hc : c < E.n) {k k' : Nat}
    (h1 : E.colptr.getD c 0 ≤ k) (h2 : k < k') (h3 : k' < E.colptr.getD (c + 1) 0) :
    E.rowval.getD k 0 < E.rowval.getD k' 0 := by
  have := hs.lt hc (k' - k - 1) k h1 (by omega)
  rwa [show k + (k' - k - 1) + 1 = k' by omega] at this

/-- [S] `Good` from the column-wise description: well-formed, square, every stored row of column
`c` is below the diagonal, columns sorted -/
theorem IMat.good_of {E : IMat} (hw : E.WFE) (sq : E.m = E.n)
    (low : ∀ c, c < E.n → ∀ k, E.colptr.getD c 0 ≤ k → k < E.colptr.getD (c + 1) 0 →
      c < E.rowval.getD k 0)
    (hs : E.Sorted) : E.Good := by
  refine ⟨hw, ⟨sq, ?_, ?_⟩, hs⟩
  · intro k hk
    obtain ⟨h1, h2, h3⟩ := colIdx_spec hw hk
    exact low _ h1 k h2 h3
  · intro k k' hk hk' hc hr
    obtain ⟨h1, h2, h3⟩ := colIdx_spec hw hk
    obtain ⟨h1', h2', h3'⟩ := colIdx_spec hw hk'
    rw [← hc] at h2' h3'
    by_contra hne
    rcases Nat.lt_or_gt_of_ne hne with hlt | hgt
    · have := hs.lt' h1 h2 hlt h3'; omega
    · have := hs.lt' h1 h2' hgt h3; omega

/-- [S] the column-wise description of a `Good` matrix -/
theorem IMat.Good.low {E : IMat} (h : E.Good) {c : Nat} (hc : c < E.n) {k : Nat}
    (h1 : E.colptr.getD c 0 ≤ k) (h2 : k < E.colptr.getD (c + 1) 0) :
    c < E.rowval.getD k 0 ∧ E.rowval.getD k 0 < E.n ∧ k < E.rowval.size := by
  have h3 := colptr_mono h.wfe E.n (Nat.le_refl _) (c + 1) (by omega)
  rw [h.wfe.nnz_row] at h3
  have hk : k < E.rowval.size := by omega
  have := h.lower.lower k hk
  rw [(colIdx_eq_iff h.wfe hk hc).mpr ⟨h1, h2⟩] at this
  exact ⟨this, h.wfe.rows k hk, hk⟩

/-- [S] `entry` by the positions of the column -/
theorem IMat.Good.entry_iff {E : IMat} (h : E.Good) {c : Nat} (hc : c < E.n) (r : Nat) (v : Int) :
    E.entry r c = some v ↔ ∃ k, E.colptr.getD c 0 ≤ k ∧ k < E.colptr.getD (c + 1) 0 ∧
      E.rowval.getD k 0 = r ∧ E.nzval.getD k 0 = v := by
  rw [entry_eq_some_iff h.wfe h.lower hc]
  constructor
  · rintro ⟨k, hk, h1, h2, h3⟩
    obtain ⟨a, b⟩ := (colIdx_eq_iff h.wfe hk hc).mp h1
    exact ⟨k, a, b, h2, h3⟩
  · rintro ⟨k, a, b, h2, h3⟩
    have hk := (h.low hc a b).2.2
    exact ⟨k, hk, (colIdx_eq_iff h.wfe hk hc).mpr ⟨a, b⟩, h2, h3⟩

/-- [S] two options with the same `some`-values are equal -/
theorem MatOps.option_ext_some {β : Type} {a b : Option β} (h : ∀ v, a = some v ↔ b = some v) : a = b := by
  cases a with
  | none =>
    cases b with
    | none => rfl
    | some y => exact ((h y).mpr rfl)
  | some x => exact ((h x).mp rfl).symm

/-- [S] a counted loop in `MErr` that never exits early, by an invariant -/
theorem MatOps.forIn_range'_inv {β : Type} (f : Nat → β → MErr (ForInStep β)) (Inv : Nat → β → Prop)
    (len : Nat) : ∀ (a : Nat) (init : β), Inv a init →
      (∀ i b, a ≤ i → i < a + len → Inv i b → ∃ b', f i b = .ok (.yield b') ∧ Inv (i + 1) b') →
      ∃ b', forIn (List.range' a len) init f = .ok b' ∧ Inv (a + len) b' := by
  induction len with
  | zero => intro a init h0 _; exact ⟨init, by simp [pure, Except.pure], h0⟩
  | succ len ih =>
    intro a init h0 hstep
    obtain ⟨b1, e1, i1⟩ := hstep a init (Nat.le_refl _) (by omega) h0
    obtain ⟨b2, e2, i2⟩ := ih (a + 1) b1 i1 (fun i b h1 h2 => hstep i b (by omega) (by omega))
    refine ⟨b2, ?_, by rwa [show a + (len + 1) = a + 1 + len by omega]⟩
    rw [List.range'_succ, List.forIn_cons, e1]
    exact e2

/-! ## the positions `dropzeros` keeps -/

/-- [S] an in-range `getD` on a list -/
theorem MatOps.lgetD_eq_getElem {β : Type} (l : List β) (d : β) {j : Nat} (h : j < l.length) :
    l.getD j d = l[j] := by
  simp [List.getD_eq_getElem?_getD, h]

/-- the positions `< k` holding a non-zero value, in increasing order -/
def nzIdx (nz : Array Int) (k : Nat) : List Nat :=
  (List.range k).filter (fun i => nz.getD i 0 != 0)

/-- [S] one more position -/
theorem nzIdx_succ (nz : Array Int) (k : Nat) :
    nzIdx nz (k + 1) = nzIdx nz k ++ (if nz.getD k 0 != 0 then [k] else []) := by
  unfold nzIdx
  rw [List.range_succ, List.filter_append]
  by_cases h : (nz.getD k 0 != 0) = true
  · simp only [h, List.filter_cons, if_true, List.filter_nil]
  · simp only [h, List.filter_cons, if_false, List.filter_nil, Bool.false_eq_true]

/-- [S] membership -/
theorem mem_nzIdx (nz : Array Int) (k i : Nat) : i ∈ nzIdx nz k ↔ i < k ∧ nz.getD i 0 ≠ 0 := by
  simp [nzIdx]

/-- [S] the kept positions below `k` are a prefix of the kept positions below `k' ≥ k` -/
theorem nzIdx_split (nz : Array Int) {k k' : Nat} (h : k ≤ k') :
    nzIdx nz k' = nzIdx nz k ++ (List.range' k (k' - k)).filter (fun i => nz.getD i 0 != 0) := by
  unfold nzIdx
  rw [← List.filter_append, List.range_eq_range', List.range_eq_range']
  congr 1
  have := List.range'_append (s := 0) (m := k) (n := k' - k) (step := 1)
  simp only [Nat.one_mul, Nat.zero_add] at this
  rw [this]
  congr 1
  omega

/-- [S] the kept positions increase strictly -/
theorem nzIdx_pairwise (nz : Array Int) (k : Nat) : (nzIdx nz k).Pairwise (· < ·) :=
  List.Pairwise.filter _ List.pairwise_lt_range

/-- [S] counting is monotone -/
theorem nzIdx_length_mono (nz : Array Int) {k k' : Nat} (h : k ≤ k') :
    (nzIdx nz k).length ≤ (nzIdx nz k').length := by
  rw [nzIdx_split nz h, List.length_append]; omega

/-- [S] at most `k` positions -/
theorem nzIdx_length_le (nz : Array Int) (k : Nat) : (nzIdx nz k).length ≤ k := by
  unfold nzIdx
  have := List.length_filter_le (fun i => nz.getD i 0 != 0) (List.range k)
  simpa using this

/-- [S] the `j`-th kept position is the same in every long enough prefix -/
theorem nzIdx_getD_prefix (nz : Array Int) {k N : Nat} (h : k ≤ N) {j : Nat}
    (hj : j < (nzIdx nz k).length) : (nzIdx nz N).getD j 0 = (nzIdx nz k).getD j 0 := by
  rw [nzIdx_split nz h]
  simp only [List.getD_eq_getElem?_getD]
  rw [List.getElem?_append_left hj]

/-- [S] every kept position is a non-zero position -/
theorem nzIdx_getD_mem (nz : Array Int) (N : Nat) {j : Nat} (hj : j < (nzIdx nz N).length) :
    (nzIdx nz N).getD j 0 < N ∧ nz.getD ((nzIdx nz N).getD j 0) 0 ≠ 0 := by
  have : (nzIdx nz N).getD j 0 ∈ nzIdx nz N := by
    rw [MatOps.lgetD_eq_getElem _ _ hj]; exact List.getElem_mem hj
  exact (mem_nzIdx nz N _).mp this

/-- [S] every non-zero position is kept -/
theorem nzIdx_surj (nz : Array Int) (N : Nat) {i : Nat} (hi : i < N) (hz : nz.getD i 0 ≠ 0) :
    ∃ j, j < (nzIdx nz N).length ∧ (nzIdx nz N).getD j 0 = i := by
  have : i ∈ nzIdx nz N := (mem_nzIdx nz N i).mpr ⟨hi, hz⟩
  obtain ⟨j, hj, e⟩ := List.mem_iff_getElem.mp this
  exact ⟨j, hj, by rw [MatOps.lgetD_eq_getElem _ _ hj]; exact e⟩

/-- [S] the `j`-th kept position increases with `j` -/
theorem nzIdx_getD_lt (nz : Array Int) (N : Nat) {j j' : Nat} (h : j < j')
    (hj : j' < (nzIdx nz N).length) : (nzIdx nz N).getD j 0 < (nzIdx nz N).getD j' 0 := by
  rw [MatOps.lgetD_eq_getElem _ _ hj, MatOps.lgetD_eq_getElem _ _ (by omega)]
  exact List.pairwise_iff_getElem.mp (nzIdx_pairwise nz N) j j' (by omega) hj h

/-- [S] the kept positions below `k` are counted by the prefix -/
theorem nzIdx_lt_iff (nz : Array Int) {k N : Nat} (h : k ≤ N) {j : Nat}
    (hj : j < (nzIdx nz N).length) :
    j < (nzIdx nz k).length ↔ (nzIdx nz N).getD j 0 < k := by
  constructor
  · intro hjk
    rw [nzIdx_getD_prefix nz h hjk]
    exact (nzIdx_getD_mem nz k hjk).1
  · intro hlt
    by_contra hge
    have hsp := nzIdx_split nz h
    have hmem : (nzIdx nz N).getD j 0 ∈
        (List.range' k (N - k)).filter (fun i => nz.getD i 0 != 0) := by
      have hj' := hj
      rw [hsp, List.length_append] at hj'
      rw [MatOps.lgetD_eq_getElem _ _ hj]
      simp only [hsp]
      rw [List.getElem_append_right (by omega)]
      exact List.getElem_mem _
    simp only [List.mem_filter, List.mem_range'_1] at hmem
    omega

/-! ## `dropzeros`: the loops -/

/-- the body of the inner loop of `dropzeros`; state `(writeidx, rowval, nzval)` -/
def dzInnerStep (readidx : Nat) (s : Nat × Array Nat × Array Int) :
    MErr (ForInStep (Nat × Array Nat × Array Int)) := do
  let val ← getE s.2.2 readidx "dropzeros"
  let row ← getE s.2.1 readidx "dropzeros"
  if val != 0 then
    if s.1 != readidx then
      let nzval ← setE s.2.2 s.1 val "dropzeros"
      let rowval ← setE s.2.1 s.1 row "dropzeros"
      pure (.yield (s.1 + 1, rowval, nzval))
    else pure (.yield (s.1 + 1, s.2.1, s.2.2))
  else pure (.yield (s.1, s.2.1, s.2.2))

/-- the body of the outer loop of `dropzeros`; state `(writeidx, first, colptr, rowval, nzval)` -/
def dzOuterStep (col : Nat) (s : Nat × Nat × Array Nat × Array Nat × Array Int) :
    MErr (ForInStep (Nat × Nat × Array Nat × Array Nat × Array Int)) := do
  let last ← getE s.2.2.1 (col + 1) "dropzeros"
  let s1 ← forIn (List.range' s.2.1 (last - s.2.1)) (s.1, s.2.2.2.1, s.2.2.2.2) dzInnerStep
  let first ← getE s.2.2.1 (col + 1) "dropzeros"
  let colptr ← setE s.2.2.1 (col + 1) s1.1 "dropzeros"
  pure (.yield (s1.1, first, colptr, s1.2.1, s1.2.2))

/-- [S] `dropzeros` with its loops as `forIn` over lists (no hypotheses) -/
theorem dropzeros_eq_forIn (A : IMat) :
    A.dropzeros = (do
      let s ← forIn (List.range' 0 A.n) (0, 0, A.colptr, A.rowval, A.nzval) dzOuterStep
      pure { A with colptr := s.2.2.1, rowval := resizeVec s.2.2.2.1 s.1 0,
                    nzval := resizeVec s.2.2.2.2 s.1 0 }) := by
  unfold IMat.dropzeros
  simp only [Std.Legacy.Range.forIn_eq_forIn_range', Std.Legacy.Range.size, Nat.sub_zero,
    Nat.add_sub_cancel, Nat.div_one]
  rfl

/-- the invariant of the inner loop of `dropzeros` at read position `i`: the first `writeidx`
slots hold the non-zero entries seen so far, everything from `writeidx` on is untouched -/
structure DzInner (rv : Array Nat) (nz : Array Int) (i : Nat) (s : Nat × Array Nat × Array Int) :
    Prop where
  rsz : s.2.1.size = rv.size
  zsz : s.2.2.size = nz.size
  w : s.1 = (nzIdx nz i).length
  tail : ∀ j, s.1 ≤ j → s.2.1.getD j 0 = rv.getD j 0 ∧ s.2.2.getD j 0 = nz.getD j 0
  head : ∀ j, j < s.1 → s.2.1.getD j 0 = rv.getD ((nzIdx nz i).getD j 0) 0 ∧
    s.2.2.getD j 0 = nz.getD ((nzIdx nz i).getD j 0) 0

/-- [S] `getD` after `setIfInBounds` -/
theorem MatOps.getD_setIfInBounds {β : Type} (xs : Array β) (i j : Nat) (v d : β) :
    (xs.setIfInBounds i v).getD j d = if i = j ∧ i < xs.size then v else xs.getD j d := by
  simp only [Array.getD_eq_getD_getElem?, Array.getElem?_setIfInBounds]
  by_cases h : i = j
  · subst h
    by_cases h2 : i < xs.size <;> simp [h2]
  · simp [h]

/-- [S] one pass of the inner loop of `dropzeros` -/
theorem dzInnerStep_inv {rv : Array Nat} {nz : Array Int} (hsz : nz.size = rv.size) {i : Nat}
    (hi : i < rv.size) {s : Nat × Array Nat × Array Int} (h : DzInner rv nz i s) :
    ∃ s', dzInnerStep i s = .ok (.yield s') ∧ DzInner rv nz (i + 1) s' := by
  obtain ⟨w, rv', nz'⟩ := s
  obtain ⟨rsz, zsz, hw, tail, head⟩ := h
  simp only at rsz zsz hw tail head
  have hwi : w ≤ i := by rw [hw]; exact nzIdx_length_le nz i
  obtain ⟨t1, t2⟩ := tail i hwi
  have hsucc := nzIdx_succ nz i
  simp only [dzInnerStep, Kr.getE_ok nz' i _ 0 (by omega), Kr.getE_ok rv' i _ 0 (by omega), bind,
    Except.bind, t1, t2]
  by_cases hz : (nz.getD i 0 != 0) = true
  · simp only [hz, if_true] at hsucc ⊢
    have hlen : (nzIdx nz (i + 1)).length = w + 1 := by rw [hsucc, List.length_append, ← hw]; rfl
    have hget : ∀ j, j < w → (nzIdx nz (i + 1)).getD j 0 = (nzIdx nz i).getD j 0 := by
      intro j hj
      rw [hsucc]
      simp only [List.getD_eq_getElem?_getD]
      rw [List.getElem?_append_left (by omega)]
    have hgetw : (nzIdx nz (i + 1)).getD w 0 = i := by
      rw [hsucc]
      simp only [List.getD_eq_getElem?_getD]
      rw [List.getElem?_append_right (by omega)]
      simp [hw]
    by_cases hne : (w != i) = true
    · simp only [hne, if_true, Kr.setE_ok nz' w _ _ (by omega), Kr.setE_ok rv' w _ _ (by omega),
        pure, Except.pure]
      refine ⟨_, rfl, ⟨by simpa using rsz, by simpa using zsz, hlen.symm, ?_, ?_⟩⟩
      · intro j hj
        simp only at hj ⊢
        rw [MatOps.getD_setIfInBounds, MatOps.getD_setIfInBounds, if_neg (by omega), if_neg (by omega)]
        exact tail j (by omega)
      · intro j hj
        simp only at hj ⊢
        rw [MatOps.getD_setIfInBounds, MatOps.getD_setIfInBounds]
        by_cases e : w = j
        · subst e
          rw [if_pos ⟨rfl, by omega⟩, if_pos ⟨rfl, by omega⟩, hgetw]
          exact ⟨rfl, rfl⟩
        · rw [if_neg (by omega), if_neg (by omega), hget j (by omega)]
          exact head j (by omega)
    · have hwi' : w = i := by simpa using hne
      simp only [hne, if_false, pure, Except.pure, Bool.false_eq_true]
      refine ⟨_, rfl, ⟨rsz, zsz, hlen.symm, ?_, ?_⟩⟩
      · intro j hj
        exact tail j (by simp only at hj; omega)
      · intro j hj
        simp only at hj ⊢
        by_cases e : w = j
        · subst e
          rw [hgetw, ← hwi']
          exact tail w (Nat.le_refl _)
        · rw [hget j (by omega)]
          exact head j (by omega)
  · simp only [hz, if_false, Bool.false_eq_true, List.append_nil] at hsucc ⊢
    simp only [pure, Except.pure]
    refine ⟨_, rfl, ⟨rsz, zsz, by rw [hsucc]; exact hw, tail, ?_⟩⟩
    rw [hsucc]
    exact head

/-- the invariant of the outer loop of `dropzeros` before column `col` -/
structure DzOuter (E : IMat) (col : Nat) (s : Nat × Nat × Array Nat × Array Nat × Array Int) :
    Prop where
  inner : DzInner E.rowval E.nzval (E.colptr.getD col 0) (s.1, s.2.2.2.1, s.2.2.2.2)
  first : s.2.1 = E.colptr.getD col 0
  cpsz : s.2.2.1.size = E.n + 1
  hi : ∀ j, col < j → s.2.2.1.getD j 0 = E.colptr.getD j 0
  lo : ∀ j, j ≤ col → s.2.2.1.getD j 0 = (nzIdx E.nzval (E.colptr.getD j 0)).length

/-- [S] one pass of the outer loop of `dropzeros` -/
theorem dzOuterStep_inv {E : IMat} (h : E.WFE) {col : Nat} (hc : col < E.n)
    {s : Nat × Nat × Array Nat × Array Nat × Array Int} (hs : DzOuter E col s) :
    ∃ s', dzOuterStep col s = .ok (.yield s') ∧ DzOuter E (col + 1) s' := by
  obtain ⟨w, f, cp', rv', nz'⟩ := s
  obtain ⟨inner, first, cpsz, hi, lo⟩ := hs
  simp only at inner first cpsz hi lo
  have hm := h.mono col hc
  have h2 := colptr_mono h E.n (Nat.le_refl _) (col + 1) (by omega)
  rw [h.nnz_row] at h2
  have hlast := hi (col + 1) (by omega)
  obtain ⟨s1, e1, inv1⟩ := MatOps.forIn_range'_inv dzInnerStep (DzInner E.rowval E.nzval)
    (E.colptr.getD (col + 1) 0 - f) f (w, rv', nz') (by rw [first]; exact inner)
    (fun i b h1 h2' hb => dzInnerStep_inv h.nnz_val (by omega) hb)
  rw [show f + (E.colptr.getD (col + 1) 0 - f) = E.colptr.getD (col + 1) 0 by omega] at inv1
  simp only [dzOuterStep, Kr.getE_ok cp' (col + 1) _ 0 (by omega), bind, Except.bind, hlast, e1,
    Kr.setE_ok cp' (col + 1) _ _ (by omega), pure, Except.pure]
  refine ⟨_, rfl, ⟨inv1, rfl, by simpa using cpsz, ?_, ?_⟩⟩
  · intro j hj
    simp only
    rw [MatOps.getD_setIfInBounds, if_neg (by omega)]
    exact hi j (by omega)
  · intro j hj
    simp only
    rw [MatOps.getD_setIfInBounds]
    by_cases e : col + 1 = j
    · subst e
      rw [if_pos ⟨rfl, by omega⟩]
      exact inv1.w
    · rw [if_neg (by omega)]
      exact lo j (by omega)

/-- [S] `resizeVec` to a shorter length keeps the prefix -/
theorem resizeVec_le {β : Type} (xs : Array β) (k : Nat) (z : β) (h : k ≤ xs.size) :
    (resizeVec xs k z).size = k ∧ ∀ j, j < k → ∀ d, (resizeVec xs k z).getD j d = xs.getD j d := by
  unfold resizeVec
  rw [if_pos h]
  refine ⟨by simp; omega, ?_⟩
  intro j hj d
  simp only [Array.getD_eq_getD_getElem?, Array.getElem?_extract]
  rw [if_pos (by omega)]
  simp

/-- [S] CLOSED FORM OF `dropzeros` on a well-formed matrix: no panic; with `keep` the list of
positions holding a non-zero value, the new arrays are the old ones read at `keep`, and the new
`colptr[j]` counts the kept positions below the old `colptr[j]` -/
theorem dropzeros_closed {E : IMat} (h : E.WFE) :
    ∃ E', E.dropzeros = .ok E' ∧ E'.m = E.m ∧ E'.n = E.n ∧ E'.colptr.size = E.n + 1 ∧
      (∀ j, j ≤ E.n → E'.colptr.getD j 0 = (nzIdx E.nzval (E.colptr.getD j 0)).length) ∧
      E'.rowval.size = (nzIdx E.nzval E.rowval.size).length ∧
      E'.nzval.size = (nzIdx E.nzval E.rowval.size).length ∧
      (∀ j, j < (nzIdx E.nzval E.rowval.size).length →
        E'.rowval.getD j 0 = E.rowval.getD ((nzIdx E.nzval E.rowval.size).getD j 0) 0 ∧
        E'.nzval.getD j 0 = E.nzval.getD ((nzIdx E.nzval E.rowval.size).getD j 0) 0) := by
  have init : DzOuter E 0 (0, 0, E.colptr, E.rowval, E.nzval) := by
    refine ⟨⟨rfl, rfl, ?_, fun j _ => ⟨rfl, rfl⟩, fun j hj => by simp only at hj; omega⟩,
      h.cp0.symm, h.cpsize, fun j _ => rfl, ?_⟩
    · simp [h.cp0, nzIdx]
    · intro j hj
      have : j = 0 := by omega
      subst this
      simp [h.cp0, nzIdx]
  obtain ⟨s, e, inv⟩ := MatOps.forIn_range'_inv dzOuterStep (DzOuter E) E.n 0 _ init
    (fun i b _ h2 hb => dzOuterStep_inv h (by omega) hb)
  rw [Nat.zero_add] at inv
  obtain ⟨w, f, cp', rv', nz'⟩ := s
  obtain ⟨⟨rsz, zsz, hw, tail, head⟩, first, cpsz, hi, lo⟩ := inv
  simp only [h.nnz_row] at rsz zsz hw tail head first cpsz hi lo
  have hwle : w ≤ E.rowval.size := by rw [hw]; exact nzIdx_length_le _ _
  obtain ⟨r1, r2⟩ := resizeVec_le rv' w 0 (by omega)
  obtain ⟨z1, z2⟩ := resizeVec_le nz' w 0 (by have := h.nnz_val; omega)
  rw [dropzeros_eq_forIn, e]
  refine ⟨_, rfl, rfl, rfl, cpsz, lo, by rw [← hw]; exact r1, by rw [← hw]; exact z1, ?_⟩
  intro j hj
  simp only
  rw [← hw] at hj
  rw [r2 j hj, z2 j hj]
  exact head j hj

/-- [S] `filter` on an option, by its `some`-values -/
theorem MatOps.filter_ne_zero_eq_some (o : Option Int) (v : Int) :
    o.filter (fun v => v != 0) = some v ↔ o = some v ∧ v ≠ 0 := by
  cases o with
  | none => simp
  | some x =>
    simp only [Option.filter_some, Option.some.injEq]
    by_cases hx : (x != 0) = true
    · simp only [hx, if_true, Option.some.injEq]
      constructor
      · rintro rfl; exact ⟨rfl, by simpa using hx⟩
      · rintro ⟨rfl, _⟩; rfl
    · simp only [hx, if_false, reduceCtorEq, false_iff, Bool.false_eq_true]
      rintro ⟨rfl, h⟩
      exact hx (by simpa using h)

/-- [S] `dropzeros` on a `Good` matrix: no panic, `Good` is kept, exactly the entries with value
`0` disappear -/
theorem dropzeros_spec : DropzerosSpec := by
  intro E hg
  have h := hg.wfe
  obtain ⟨E', e, hm, hn, cpsz, hcp, rsz, zsz, hval⟩ := dropzeros_closed h
  have hNn : E.colptr.getD E.n 0 = E.rowval.size := h.nnz_row
  have hcpN : ∀ c, c ≤ E.n → E.colptr.getD c 0 ≤ E.rowval.size := by
    intro c hc
    have := colptr_mono h E.n (Nat.le_refl _) c hc
    omega
  -- position `j` of the new matrix lies in column `c` iff the position it came from does
  have hcol : ∀ c, c < E.n → ∀ j, j < (nzIdx E.nzval E.rowval.size).length →
      ((E'.colptr.getD c 0 ≤ j ∧ j < E'.colptr.getD (c + 1) 0) ↔
        (E.colptr.getD c 0 ≤ (nzIdx E.nzval E.rowval.size).getD j 0 ∧
          (nzIdx E.nzval E.rowval.size).getD j 0 < E.colptr.getD (c + 1) 0)) := by
    intro c hc j hj
    rw [hcp c (by omega), hcp (c + 1) (by omega)]
    have a := nzIdx_lt_iff E.nzval (hcpN c (by omega)) hj
    have b := nzIdx_lt_iff E.nzval (hcpN (c + 1) (by omega)) hj
    omega
  have hlen : ∀ c, c ≤ E.n → E'.colptr.getD c 0 ≤ (nzIdx E.nzval E.rowval.size).length := by
    intro c hc
    rw [hcp c hc]
    exact nzIdx_length_mono _ (hcpN c hc)
  have hg' : E'.Good := by
    have hw' : E'.WFE := by
      refine ⟨by rw [hn]; exact cpsz, ?_, ?_, ?_, by rw [zsz, rsz], ?_⟩
      · rw [hcp 0 (by omega), h.cp0]; rfl
      · intro c hc
        rw [hn] at hc
        rw [hcp c (by omega), hcp (c + 1) (by omega)]
        exact nzIdx_length_mono _ (h.mono c hc)
      · rw [hn, hcp E.n (Nat.le_refl _), hNn, rsz]
      · intro k hk
        rw [rsz] at hk
        rw [(hval k hk).1, hn]
        exact h.rows _ (nzIdx_getD_mem _ _ hk).1
    refine IMat.good_of hw' (by rw [hm, hn]; exact hg.lower.sq) ?_ ⟨?_⟩
    · intro c hc k h1 h2
      rw [hn] at hc
      have hk : k < (nzIdx E.nzval E.rowval.size).length := by
        have := hlen (c + 1) (by omega); omega
      obtain ⟨a, b⟩ := (hcol c hc k hk).mp ⟨h1, h2⟩
      rw [(hval k hk).1]
      exact (hg.low hc a b).1
    · intro c hc k h1 h2
      rw [hn] at hc
      have hk : k + 1 < (nzIdx E.nzval E.rowval.size).length := by
        have := hlen (c + 1) (by omega); omega
      obtain ⟨a, _⟩ := (hcol c hc k (by omega)).mp ⟨h1, by omega⟩
      obtain ⟨_, b⟩ := (hcol c hc (k + 1) hk).mp ⟨by omega, h2⟩
      rw [(hval k (by omega)).1, (hval (k + 1) hk).1]
      exact hg.sorted.lt' hc a (nzIdx_getD_lt _ _ (Nat.lt_succ_self k) hk) b
  refine ⟨E', e, hg', hm, hn, ?_⟩
  intro r c
  apply MatOps.option_ext_some
  intro v
  rw [MatOps.filter_ne_zero_eq_some]
  by_cases hc : c < E.n
  · rw [hg'.entry_iff (by rw [hn]; exact hc), hg.entry_iff hc]
    constructor
    · rintro ⟨k, h1, h2, h3, h4⟩
      have hk : k < (nzIdx E.nzval E.rowval.size).length := by
        have := hlen (c + 1) (by omega); omega
      obtain ⟨a, b⟩ := (hcol c hc k hk).mp ⟨h1, h2⟩
      rw [(hval k hk).1] at h3
      rw [(hval k hk).2] at h4
      exact ⟨⟨_, a, b, h3, h4⟩, by rw [← h4]; exact (nzIdx_getD_mem _ _ hk).2⟩
    · rintro ⟨⟨k, h1, h2, h3, h4⟩, hv⟩
      obtain ⟨j, hj, ej⟩ := nzIdx_surj E.nzval E.rowval.size (hg.low hc h1 h2).2.2
        (by rw [h4]; exact hv)
      obtain ⟨a, b⟩ := (hcol c hc j hj).mpr (by rw [ej]; exact ⟨h1, h2⟩)
      refine ⟨j, a, b, ?_, ?_⟩
      · rw [(hval j hj).1, ej]; exact h3
      · rw [(hval j hj).2, ej]; exact h4
  · rw [IMat.entry_none_of_ge hg'.wfe (by rw [hn]; omega), IMat.entry_none_of_ge h (by omega)]
    simp

/-! ## `set_entry`: rebuilding the column pointers -/

/-- the body of the loop of `colptr_to_colcount` -/
def ccStep (i : Nat) (cp : Array Nat) : MErr (ForInStep (Array Nat)) := do
  let a ← getE cp (i + 1) "colptr_to_colcount"
  let b ← getE cp i "colptr_to_colcount"
  if a < b then throw (.panic "colptr_to_colcount: underflow")
  let cp ← setE cp i (a - b) "colptr_to_colcount"
  pure (.yield cp)

/-- [S] `colptr_to_colcount` with its loop as `forIn` over a list (no hypotheses) -/
theorem colptrToColcount_eq_forIn (n : Nat) (colptr : Array Nat) :
    IMat.colptrToColcount n colptr = (do
      let cp ← forIn (List.range' 0 n) colptr ccStep
      setE cp n 0 "colptr_to_colcount") := by
  unfold IMat.colptrToColcount
  simp only [Std.Legacy.Range.forIn_eq_forIn_range', Std.Legacy.Range.size, Nat.sub_zero,
    Nat.add_sub_cancel, Nat.div_one]
  rfl

/-- [S] `colptr_to_colcount` on monotone column pointers: the column counts, then a `0` -/
theorem colptrToColcount_ok {n : Nat} {cp : Array Nat} (hsz : cp.size = n + 1)
    (hmono : ∀ c, c < n → cp.getD c 0 ≤ cp.getD (c + 1) 0) :
    ∃ cnt, IMat.colptrToColcount n cp = .ok cnt ∧ cnt.size = n + 1 ∧
      (∀ j, j < n → cnt.getD j 0 = cp.getD (j + 1) 0 - cp.getD j 0) ∧ cnt.getD n 0 = 0 := by
  obtain ⟨s, e, hs, hlo, hhi⟩ := MatOps.forIn_range'_inv ccStep
    (fun i s => s.size = n + 1 ∧ (∀ j, j < i → s.getD j 0 = cp.getD (j + 1) 0 - cp.getD j 0) ∧
      (∀ j, i ≤ j → s.getD j 0 = cp.getD j 0)) n 0 cp
    ⟨hsz, fun j hj => by omega, fun j _ => rfl⟩
    (by
      intro i s _ hi ⟨h1, h2, h3⟩
      have hm := hmono i (by omega)
      simp only [ccStep, Kr.getE_ok s (i + 1) _ 0 (by omega), Kr.getE_ok s i _ 0 (by omega), bind,
        Except.bind, h3 (i + 1) (by omega), h3 i (Nat.le_refl _), Nat.not_lt.mpr hm, if_false,
        Kr.setE_ok s i _ _ (by omega), pure, Except.pure]
      refine ⟨_, rfl, by simpa using h1, ?_, ?_⟩
      · intro j hj
        rw [MatOps.getD_setIfInBounds]
        by_cases e : i = j
        · subst e; rw [if_pos ⟨rfl, by omega⟩]
        · rw [if_neg (by omega)]; exact h2 j (by omega)
      · intro j hj
        rw [MatOps.getD_setIfInBounds, if_neg (by omega)]
        exact h3 j (by omega))
  rw [Nat.zero_add] at hlo
  rw [colptrToColcount_eq_forIn, e]
  simp only [bind, Except.bind, Kr.setE_ok s n _ _ (by omega)]
  refine ⟨_, rfl, by simpa using hs, ?_, ?_⟩
  · intro j hj
    rw [MatOps.getD_setIfInBounds, if_neg (by omega)]
    exact hlo j hj
  · rw [MatOps.getD_setIfInBounds, if_pos ⟨rfl, by omega⟩]

/-- [S] the fold of `colcount_to_colptr` writes the running sums -/
theorem colcount_foldl (l : List Nat) : ∀ (acc : Array Nat) (s : Nat),
    ((l.foldl (fun (a : Array Nat × Nat) count => (a.1.push a.2, a.2 + count)) (acc, s)).1.size
      = acc.size + l.length) ∧
    (∀ j, j < acc.size →
      (l.foldl (fun (a : Array Nat × Nat) count => (a.1.push a.2, a.2 + count)) (acc, s)).1.getD j 0
        = acc.getD j 0) ∧
    (∀ j, j < l.length →
      (l.foldl (fun (a : Array Nat × Nat) count => (a.1.push a.2, a.2 + count)) (acc, s)).1.getD
        (acc.size + j) 0 = s + (l.take j).sum) := by
  induction l with
  | nil => intro acc s; exact ⟨rfl, fun _ _ => rfl, fun j hj => by simp at hj⟩
  | cons x l ih =>
    intro acc s
    obtain ⟨h1, h2, h3⟩ := ih (acc.push s) (s + x)
    simp only [List.foldl_cons]
    refine ⟨by rw [h1]; simp; omega, ?_, ?_⟩
    · intro j hj
      rw [h2 j (by simp; omega)]
      simp [Array.getD_eq_getD_getElem?, Array.getElem?_push, show j ≠ acc.size by omega]
    · intro j hj
      cases j with
      | zero =>
        rw [h2 _ (by simp)]
        simp [Array.getD_eq_getD_getElem?]
      | succ j =>
        have := h3 j (by simpa using hj)
        rw [Array.size_push, show acc.size + 1 + j = acc.size + (j + 1) by omega] at this
        rw [this]
        simp [List.take_succ_cons, Nat.add_assoc]

/-- [S] `colcount_to_colptr`: entry `j` is the sum of the first `j` counts -/
theorem colcountToColptr_ok (cnt : Array Nat) :
    (IMat.colcountToColptr cnt).size = cnt.size ∧
      ∀ j, j < cnt.size → (IMat.colcountToColptr cnt).getD j 0 = (cnt.toList.take j).sum := by
  unfold IMat.colcountToColptr
  rw [← Array.foldl_toList]
  obtain ⟨h1, _, h3⟩ := colcount_foldl cnt.toList #[] 0
  refine ⟨by simpa using h1, ?_⟩
  intro j hj
  have := h3 j (by simpa using hj)
  simpa using this

/-- [S] the column pointers after inserting one entry into column `col`: those beyond `col` move
up by one -/
theorem colptr_rebuild {n col : Nat} {cp cnt : Array Nat} (hcol : col < n) (hsz : cp.size = n + 1)
    (hcp0 : cp.getD 0 0 = 0) (hmono : ∀ c, c < n → cp.getD c 0 ≤ cp.getD (c + 1) 0)
    (hcs : cnt.size = n + 1)
    (hcnt : ∀ j, j < n → cnt.getD j 0 = cp.getD (j + 1) 0 - cp.getD j 0) :
    (IMat.colcountToColptr (cnt.setIfInBounds col (cnt.getD col 0 + 1))).size = n + 1 ∧
    ∀ j, j ≤ n → (IMat.colcountToColptr (cnt.setIfInBounds col (cnt.getD col 0 + 1))).getD j 0 =
      cp.getD j 0 + (if col < j then 1 else 0) := by
  obtain ⟨h1, h2⟩ := colcountToColptr_ok (cnt.setIfInBounds col (cnt.getD col 0 + 1))
  rw [Array.size_setIfInBounds] at h1 h2
  refine ⟨by rw [h1, hcs], ?_⟩
  intro j hj
  rw [h2 j (by omega)]
  clear h2
  induction j with
  | zero => simp [hcp0]
  | succ j ih =>
    have ih := ih (by omega)
    have hm := hmono j (by omega)
    have hget : (cnt.setIfInBounds col (cnt.getD col 0 + 1)).toList[j]? =
        some (cp.getD (j + 1) 0 - cp.getD j 0 + (if col = j then 1 else 0)) := by
      have hj' : j < (cnt.setIfInBounds col (cnt.getD col 0 + 1)).size := by
        rw [Array.size_setIfInBounds]; omega
      have := MatOps.getD_setIfInBounds cnt col j (cnt.getD col 0 + 1) 0
      rw [Array.getElem?_toList, Array.getElem?_eq_getElem hj']
      rw [Array.getD_eq_getD_getElem?, Array.getElem?_eq_getElem hj', Option.getD_some] at this
      rw [this]
      by_cases e : col = j
      · subst e; rw [if_pos ⟨rfl, by omega⟩, hcnt col (by omega)]; simp
      · rw [if_neg (by omega), hcnt j (by omega)]; simp [e]
    rw [List.take_add_one, hget, List.sum_append, ih]
    simp only [Option.toList_some, List.sum_cons, List.sum_nil, Nat.add_zero]
    by_cases e1 : col < j
    · rw [if_pos e1, if_neg (by omega), if_pos (by omega)]; omega
    · rw [if_neg e1]
      by_cases e2 : col = j
      · rw [if_pos e2, if_pos (by omega)]; omega
      · rw [if_neg e2, if_neg (by omega)]; omega

/-! ## `set_entry`: the search and the insertion -/

/-- [S] `takeWhile`: the prefix satisfies the predicate, the next element does not -/
theorem MatOps.takeWhile_length_spec (p : Nat → Bool) : ∀ l : List Nat,
    (l.takeWhile p).length ≤ l.length ∧
    (∀ j, j < (l.takeWhile p).length → p (l.getD j 0) = true) ∧
    ((l.takeWhile p).length < l.length → p (l.getD (l.takeWhile p).length 0) = false) := by
  intro l
  induction l with
  | nil => simp
  | cons x l ih =>
    obtain ⟨h1, h2, h3⟩ := ih
    by_cases hx : p x = true
    · simp only [List.takeWhile_cons, hx, if_true, List.length_cons]
      refine ⟨by omega, ?_, ?_⟩
      · intro j hj
        cases j with
        | zero => simpa using hx
        | succ j => simpa using h2 j (by omega)
      · intro hlt
        simpa using h3 (by omega)
    · simp only [List.takeWhile_cons, hx, if_false, List.length_nil, Bool.false_eq_true]
      refine ⟨by simp, fun j hj => by omega, fun _ => by simpa using hx⟩

/-- [S] `partition_point`: the prefix satisfies the predicate, the next element does not -/
theorem partitionPoint_spec (xs : Array Nat) (p : Nat → Bool) :
    partitionPoint xs p ≤ xs.size ∧
    (∀ j, j < partitionPoint xs p → p (xs.getD j 0) = true) ∧
    (partitionPoint xs p < xs.size → p (xs.getD (partitionPoint xs p) 0) = false) := by
  have e : ∀ j, xs.getD j 0 = xs.toList.getD j 0 := by
    intro j; simp [Array.getD_eq_getD_getElem?, List.getD_eq_getElem?_getD]
  obtain ⟨h1, h2, h3⟩ := MatOps.takeWhile_length_spec p xs.toList
  unfold partitionPoint
  refine ⟨by simpa using h1, ?_, ?_⟩
  · intro j hj; rw [e]; exact h2 j hj
  · intro hlt; rw [e]; exact h3 (by simpa using hlt)

/-- [S] `Vec::insert` at an in-range position -/
theorem insertVec_ok {β : Type} (xs : Array β) (k : Nat) (v : β) (site : String)
    (hk : k ≤ xs.size) :
    ∃ ys, insertVec xs k v site = .ok ys ∧ ys.size = xs.size + 1 ∧
      ∀ j d, ys.getD j d = if j < k then xs.getD j d else if j = k then v else xs.getD (j - 1) d := by
  unfold insertVec
  rw [if_neg (by omega)]
  refine ⟨_, rfl, by simp; omega, ?_⟩
  intro j d
  simp only [Array.getD_eq_getD_getElem?]
  by_cases h1 : j < k
  · rw [if_pos h1, Array.getElem?_append_left (by simp; omega), Array.getElem?_push_lt (by simp; omega)]
    simp only [Array.getElem_extract, Nat.zero_add, Option.getD_some]
    rw [Array.getElem?_eq_getElem (by omega), Option.getD_some]
  · rw [if_neg h1]
    by_cases h2 : j = k
    · subst h2
      rw [if_pos rfl, Array.getElem?_append_left (by simp; omega)]
      have : (xs.extract 0 j).size = j := by simp; omega
      rw [Array.getElem?_push, if_pos this.symm, Option.getD_some]
    · rw [if_neg h2, Array.getElem?_append_right (by simp; omega)]
      have : ((xs.extract 0 k).push v).size = k + 1 := by simp; omega
      rw [this, Array.getElem?_extract]
      by_cases h3 : j - 1 < xs.size
      · rw [if_pos (by omega), show k + (j - (k + 1)) = j - 1 by omega]
      · rw [if_neg (by omega), Array.getElem?_eq_none (by omega)]

/-- [S] THE BINARY SEARCH OF `set_entry` on a sorted column: `partition_point` splits the column
into the rows `< row` and the rows `≥ row` -/
theorem setEntry_search {E : IMat} (hg : E.Good) {col : Nat} (hc : col < E.n) (row i : Nat)
    (hi : i = partitionPoint (E.colRows col) (fun x => decide (x < row))) :
    (E.colRows col).size = E.colptr.getD (col + 1) 0 - E.colptr.getD col 0 ∧
    E.colptr.getD col 0 + i ≤ E.colptr.getD (col + 1) 0 ∧
    E.colptr.getD (col + 1) 0 ≤ E.rowval.size ∧
    (∀ k, E.colptr.getD col 0 ≤ k → k < E.colptr.getD col 0 + i → E.rowval.getD k 0 < row) ∧
    (∀ k, E.colptr.getD col 0 + i ≤ k → k < E.colptr.getD (col + 1) 0 → row ≤ E.rowval.getD k 0) ∧
    (i < (E.colRows col).size →
      (E.colRows col).getD i 0 = E.rowval.getD (E.colptr.getD col 0 + i) 0) := by
  have h := hg.wfe
  obtain ⟨h1, h2, h3⟩ := partitionPoint_spec (E.colRows col) (fun x => decide (x < row))
  rw [← hi] at h1 h2 h3
  have hs := colRows_size h hc
  have hm := h.mono col hc
  have hN := colptr_mono h E.n (Nat.le_refl _) (col + 1) (by omega)
  rw [h.nnz_row] at hN
  refine ⟨hs, by omega, hN, ?_, ?_, fun hlt => colRows_getD h hc hlt⟩
  · intro k hk1 hk2
    have := h2 (k - E.colptr.getD col 0) (by omega)
    rw [colRows_getD h hc (by omega), show E.colptr.getD col 0 + (k - E.colptr.getD col 0) = k by omega]
      at this
    simpa using this
  · intro k hk1 hk2
    have := h3 (by omega)
    rw [colRows_getD h hc (by omega)] at this
    have h4 : row ≤ E.rowval.getD (E.colptr.getD col 0 + i) 0 := by simpa using this
    by_cases e : k = E.colptr.getD col 0 + i
    · rw [e]; exact h4
    · have := hg.sorted.lt' hc (k := E.colptr.getD col 0 + i) (k' := k) (by omega) (by omega) hk2
      omega

/-- [S] CLOSED FORM OF `set_entry` at an in-range position of a `Good` matrix: no panic; with
`p` the position of the first stored row `≥ row` of the column, either the entry is there and its
value is overwritten, or it is not there and nothing happens (`v = 0`), or it is not there and
`(row, v)` is inserted at `p`, the column pointers beyond `col` moving up by one -/
theorem setEntry_closed {E : IMat} (hg : E.Good) {row col : Nat} (hc : col < E.n) (hr : row < E.n)
    (v : Int) :
    ∃ p, E.colptr.getD col 0 ≤ p ∧ p ≤ E.colptr.getD (col + 1) 0 ∧
      E.colptr.getD (col + 1) 0 ≤ E.rowval.size ∧
      (∀ k, E.colptr.getD col 0 ≤ k → k < p → E.rowval.getD k 0 < row) ∧
      (∀ k, p ≤ k → k < E.colptr.getD (col + 1) 0 → row ≤ E.rowval.getD k 0) ∧
      ((p < E.colptr.getD (col + 1) 0 ∧ E.rowval.getD p 0 = row ∧
          E.setEntry row col v = .ok { E with nzval := E.nzval.setIfInBounds p v }) ∨
       ((p < E.colptr.getD (col + 1) 0 → E.rowval.getD p 0 ≠ row) ∧ v = 0 ∧
          E.setEntry row col v = .ok E) ∨
       ((p < E.colptr.getD (col + 1) 0 → E.rowval.getD p 0 ≠ row) ∧ v ≠ 0 ∧
          ∃ E', E.setEntry row col v = .ok E' ∧ E'.m = E.m ∧ E'.n = E.n ∧
            E'.colptr.size = E.n + 1 ∧
            (∀ j, j ≤ E.n → E'.colptr.getD j 0 = E.colptr.getD j 0 + (if col < j then 1 else 0)) ∧
            E'.rowval.size = E.rowval.size + 1 ∧ E'.nzval.size = E.rowval.size + 1 ∧
            (∀ j, E'.rowval.getD j 0 =
              if j < p then E.rowval.getD j 0 else if j = p then row else E.rowval.getD (j - 1) 0) ∧
            (∀ j, E'.nzval.getD j 0 =
              if j < p then E.nzval.getD j 0 else if j = p then v else E.nzval.getD (j - 1) 0))) := by
  have h := hg.wfe
  obtain ⟨hs, h1, hN, h2, h3, h4⟩ := setEntry_search hg hc row _ rfl
  have hm := h.mono col hc
  have hcond : (!(decide (row < E.m) && decide (col < E.n))) = false := by
    simp [hg.lower.sq, hr, hc]
  refine ⟨E.colptr.getD col 0 + partitionPoint (E.colRows col) (fun x => decide (x < row)),
    by omega, h1, hN, h2, h3, ?_⟩
  unfold IMat.setEntry
  simp only [hcond, Bool.false_eq_true, if_false, column_ok h hc, bind, Except.bind]
  generalize partitionPoint (E.colRows col) (fun x => decide (x < row)) = i at *
  by_cases hfound : (i == (E.colRows col).size ||
      (E.colRows col).getD i 0 != row) = true
  · have hnf : E.colptr.getD col 0 + i < E.colptr.getD (col + 1) 0 →
        E.rowval.getD (E.colptr.getD col 0 + i) 0 ≠ row := by
      intro hlt
      rw [← h4 (by omega)]
      simp only [Bool.or_eq_true, beq_iff_eq, bne_iff_ne, ne_eq] at hfound
      rcases hfound with e | e
      · omega
      · exact e
    simp only [hfound, if_true]
    by_cases hv : (v == 0) = true
    · simp only [hv, if_true]
      exact .inr (.inl ⟨hnf, by simpa using hv, rfl⟩)
    · simp only [hv, if_false, Bool.false_eq_true]
      refine .inr (.inr ⟨hnf, by simpa using hv, ?_⟩)
      obtain ⟨rv', e1, r1, r2⟩ := insertVec_ok E.rowval (E.colptr.getD col 0 + i) row
        "set_entry: insert" (by omega)
      obtain ⟨nz', e2, z1, z2⟩ := insertVec_ok E.nzval (E.colptr.getD col 0 + i) v
        "set_entry: insert" (by rw [h.nnz_val]; omega)
      obtain ⟨cnt, e3, c1, c2, c3⟩ := colptrToColcount_ok h.cpsize h.mono
      obtain ⟨b1, b2⟩ := colptr_rebuild hc h.cpsize h.cp0 h.mono c1 c2
      simp only [e1, e2, e3, Kr.getE_ok cnt col _ 0 (by omega), Kr.setE_ok cnt col _ _ (by omega),
        pure, Except.pure]
      exact ⟨_, rfl, rfl, rfl, b1, b2, r1, by rw [z1, h.nnz_val], fun j => r2 j 0, fun j => z2 j 0⟩
  · simp only [hfound, if_false, Bool.false_eq_true]
    simp only [Bool.or_eq_true, beq_iff_eq, bne_iff_ne, ne_eq, not_or, not_not] at hfound
    have hlt : i < (E.colRows col).size := by omega
    refine .inl ⟨by omega, by rw [← h4 hlt]; exact hfound.2, ?_⟩
    rw [Kr.setE_ok E.nzval _ _ _ (by rw [h.nnz_val]; omega)]
    rfl

/-- [S] a position lies in one column only -/
theorem IMat.WFE.col_unique {E : IMat} (h : E.WFE) {c c' k : Nat} (hc : c < E.n) (hc' : c' < E.n)
    (h1 : E.colptr.getD c 0 ≤ k) (h2 : k < E.colptr.getD (c + 1) 0)
    (h1' : E.colptr.getD c' 0 ≤ k) (h2' : k < E.colptr.getD (c' + 1) 0) : c = c' := by
  have hN := colptr_mono h E.n (Nat.le_refl _) (c + 1) (by omega)
  rw [h.nnz_row] at hN
  have hk : k < E.rowval.size := by omega
  rw [← (colIdx_eq_iff h hk hc).mpr ⟨h1, h2⟩, ← (colIdx_eq_iff h hk hc').mpr ⟨h1', h2'⟩]

/-- [S] `set_entry`, first case: the entry is stored at `p` and its value is overwritten -/
theorem setEntry_overwrite {E : IMat} (hg : E.Good) {row col p : Nat} (hc : col < E.n) (v : Int)
    (hp1 : E.colptr.getD col 0 ≤ p) (hp2 : p < E.colptr.getD (col + 1) 0)
    (hrow : E.rowval.getD p 0 = row) :
    ({ E with nzval := E.nzval.setIfInBounds p v } : IMat).Good ∧
    ∀ r c, ({ E with nzval := E.nzval.setIfInBounds p v } : IMat).entry r c =
      if r = row ∧ c = col then
        (if v = 0 then (E.entry row col).map (fun _ => (0 : Int)) else some v)
      else E.entry r c := by
  have h := hg.wfe
  have hg' : ({ E with nzval := E.nzval.setIfInBounds p v } : IMat).Good :=
    ⟨⟨h.cpsize, h.cp0, h.mono, h.nnz_row, by simpa using h.nnz_val, h.rows⟩,
      ⟨hg.lower.sq, hg.lower.lower, hg.lower.nodup⟩, ⟨hg.sorted.sorted⟩⟩
  refine ⟨hg', ?_⟩
  have hpN := (hg.low hc hp1 hp2).2.2
  have hold : E.entry row col = some (E.nzval.getD p 0) :=
    (hg.entry_iff hc row _).mpr ⟨p, hp1, hp2, hrow, rfl⟩
  intro r c
  apply MatOps.option_ext_some
  intro v'
  by_cases hcn : c < E.n
  · rw [hg'.entry_iff hcn]
    simp only
    by_cases hrc : r = row ∧ c = col
    · obtain ⟨rfl, rfl⟩ := hrc
      rw [if_pos ⟨rfl, rfl⟩, hold]
      have hrhs : (if v = 0 then (some (E.nzval.getD p 0)).map (fun _ => (0 : Int)) else some v)
          = some v := by
        by_cases hv : v = 0
        · rw [if_pos hv, hv]; rfl
        · rw [if_neg hv]
      rw [hrhs]
      constructor
      · rintro ⟨k, k1, k2, k3, k4⟩
        have hkp : k = p := by
          by_contra hne
          rcases Nat.lt_or_gt_of_ne hne with hlt | hgt
          · have := hg.sorted.lt' hc k1 hlt hp2; omega
          · have := hg.sorted.lt' hc hp1 hgt k2; omega
        subst hkp
        rw [MatOps.getD_setIfInBounds, if_pos ⟨rfl, by rw [h.nnz_val]; exact hpN⟩] at k4
        rw [k4]
      · intro hv
        refine ⟨p, hp1, hp2, hrow, ?_⟩
        rw [MatOps.getD_setIfInBounds, if_pos ⟨rfl, by rw [h.nnz_val]; exact hpN⟩]
        exact (Option.some.inj hv)
    · rw [if_neg hrc, hg.entry_iff hcn]
      have hkp : ∀ k, E.colptr.getD c 0 ≤ k → k < E.colptr.getD (c + 1) 0 →
          E.rowval.getD k 0 = r → p ≠ k := by
        intro k k1 k2 k3 e
        subst e
        exact hrc ⟨by rw [← k3, hrow], h.col_unique hcn hc k1 k2 hp1 hp2⟩
      constructor
      · rintro ⟨k, k1, k2, k3, k4⟩
        rw [MatOps.getD_setIfInBounds, if_neg (fun e => hkp k k1 k2 k3 e.1)] at k4
        exact ⟨k, k1, k2, k3, k4⟩
      · rintro ⟨k, k1, k2, k3, k4⟩
        refine ⟨k, k1, k2, k3, ?_⟩
        rw [MatOps.getD_setIfInBounds, if_neg (fun e => hkp k k1 k2 k3 e.1)]
        exact k4
  · rw [IMat.entry_none_of_ge hg'.wfe (by simp only; omega), if_neg (by omega),
      IMat.entry_none_of_ge h (by omega)]

/-- [S] `set_entry`, third case: `(row, v)` is not stored and is inserted at `p`, the position of
the first row `> row` of column `col` -/
theorem setEntry_insert {E E' : IMat} (hg : E.Good) {row col p : Nat} (hcr : col < row)
    (hr : row < E.n) (v : Int)
    (hp1 : E.colptr.getD col 0 ≤ p) (hp2 : p ≤ E.colptr.getD (col + 1) 0)
    (hlo : ∀ k, E.colptr.getD col 0 ≤ k → k < p → E.rowval.getD k 0 < row)
    (hhi : ∀ k, p ≤ k → k < E.colptr.getD (col + 1) 0 → row < E.rowval.getD k 0)
    (hm : E'.m = E.m) (hn : E'.n = E.n) (cpsz : E'.colptr.size = E.n + 1)
    (hcp : ∀ j, j ≤ E.n → E'.colptr.getD j 0 = E.colptr.getD j 0 + (if col < j then 1 else 0))
    (rsz : E'.rowval.size = E.rowval.size + 1) (zsz : E'.nzval.size = E.rowval.size + 1)
    (hrv : ∀ j, E'.rowval.getD j 0 =
      if j < p then E.rowval.getD j 0 else if j = p then row else E.rowval.getD (j - 1) 0)
    (hnz : ∀ j, E'.nzval.getD j 0 =
      if j < p then E.nzval.getD j 0 else if j = p then v else E.nzval.getD (j - 1) 0) :
    E'.Good ∧ ∀ r c, E'.entry r c = if r = row ∧ c = col then some v else E.entry r c := by
  have h := hg.wfe
  have hc : col < E.n := by omega
  have hcpN : ∀ c, c ≤ E.n → E.colptr.getD c 0 ≤ E.rowval.size := by
    intro c hc
    have := colptr_mono h E.n (Nat.le_refl _) c hc
    rw [h.nnz_row] at this
    exact this
  have hpN := hcpN (col + 1) (by omega)
  -- position `j` of the new matrix lies in column `c` iff it is the new entry or comes from a
  -- position of column `c`
  have hcol : ∀ c, c < E.n → ∀ j, ((E'.colptr.getD c 0 ≤ j ∧ j < E'.colptr.getD (c + 1) 0) ↔
      ((j < p ∧ E.colptr.getD c 0 ≤ j ∧ j < E.colptr.getD (c + 1) 0) ∨ (j = p ∧ c = col) ∨
        (p < j ∧ E.colptr.getD c 0 ≤ j - 1 ∧ j - 1 < E.colptr.getD (c + 1) 0))) := by
    intro c hc' j
    rw [hcp c (by omega), hcp (c + 1) (by omega)]
    have hmc := h.mono c hc'
    rcases Nat.lt_trichotomy c col with hlt | heq | hgt
    · have := colptr_mono h col (by omega) (c + 1) (by omega)
      rw [if_neg (by omega), if_neg (by omega)]
      omega
    · subst heq
      rw [if_neg (by omega), if_pos (by omega)]
      omega
    · have := colptr_mono h c (by omega) (col + 1) (by omega)
      rw [if_pos (by omega), if_pos (by omega)]
      omega
  have hw' : E'.WFE := by
    refine ⟨by rw [hn]; exact cpsz, ?_, ?_, ?_, by rw [zsz, rsz], ?_⟩
    · rw [hcp 0 (by omega), h.cp0]; rfl
    · intro c hc'
      rw [hn] at hc'
      rw [hcp c (by omega), hcp (c + 1) (by omega)]
      have := h.mono c hc'
      by_cases e : col < c
      · rw [if_pos e, if_pos (by omega)]; omega
      · rw [if_neg e]; omega
    · rw [hn, hcp E.n (Nat.le_refl _), h.nnz_row, rsz, if_pos hc]
    · intro k hk
      rw [rsz] at hk
      rw [hrv k, hn]
      by_cases e1 : k < p
      · rw [if_pos e1]; exact h.rows k (by omega)
      · rw [if_neg e1]
        by_cases e2 : k = p
        · rw [if_pos e2]; exact hr
        · rw [if_neg e2]; exact h.rows (k - 1) (by omega)
  have hg' : E'.Good := by
    refine IMat.good_of hw' (by rw [hm, hn]; exact hg.lower.sq) ?_ ⟨?_⟩
    · intro c hc' k k1 k2
      rw [hn] at hc'
      rw [hrv k]
      rcases (hcol c hc' k).mp ⟨k1, k2⟩ with ⟨a, b, d⟩ | ⟨a, b⟩ | ⟨a, b, d⟩
      · rw [if_pos a]; exact (hg.low hc' b d).1
      · rw [if_neg (by omega), if_pos a, b]; exact hcr
      · rw [if_neg (by omega), if_neg (by omega)]; exact (hg.low hc' b d).1
    · intro c hc' k k1 k2
      rw [hn] at hc'
      have hmc : E'.colptr.getD c 0 ≤ E'.colptr.getD (c + 1) 0 := hw'.mono c (by rw [hn]; exact hc')
      have A := (hcol c hc' k).mp ⟨k1, by omega⟩
      have B := (hcol c hc' (k + 1)).mp ⟨by omega, k2⟩
      rw [hrv k, hrv (k + 1)]
      rcases Nat.lt_trichotomy (k + 1) p with hlt | heq | hgt
      · rw [if_pos (by omega), if_pos hlt]
        rcases A with ⟨_, b, _⟩ | ⟨a, _⟩ | ⟨a, _, _⟩
        · rcases B with ⟨_, _, d⟩ | ⟨a, _⟩ | ⟨a, _, _⟩
          · exact hg.sorted.sorted c hc' k b d
          · omega
          · omega
        · omega
        · omega
      · rw [if_pos (by omega), if_neg (by omega), if_pos heq]
        rcases B with ⟨a, _, _⟩ | ⟨_, b⟩ | ⟨a, _, _⟩
        · omega
        · subst b
          rcases A with ⟨_, b, _⟩ | ⟨a, _⟩ | ⟨a, _, _⟩
          · exact hlo k b (by omega)
          · omega
          · omega
        · omega
      · rw [if_neg (show ¬ k < p by omega), if_neg (show ¬ k + 1 < p by omega)]
        by_cases e : k = p
        · rw [if_pos e, if_neg (by omega)]
          rcases A with ⟨a, _, _⟩ | ⟨_, b⟩ | ⟨a, _, _⟩
          · omega
          · subst b
            rcases B with ⟨a, _, _⟩ | ⟨a, _⟩ | ⟨_, _, d⟩
            · omega
            · omega
            · exact hhi (k + 1 - 1) (by omega) d
          · omega
        · rw [if_neg e, if_neg (by omega)]
          rcases A with ⟨a, _, _⟩ | ⟨a, _⟩ | ⟨_, b, _⟩
          · omega
          · omega
          · rcases B with ⟨a, _, _⟩ | ⟨a, _⟩ | ⟨_, _, d⟩
            · omega
            · omega
            · have := hg.sorted.sorted c hc' (k - 1) b (by omega)
              rwa [show k - 1 + 1 = k + 1 - 1 by omega] at this
  refine ⟨hg', ?_⟩
  intro r c
  apply MatOps.option_ext_some
  intro v'
  by_cases hcn : c < E.n
  · rw [hg'.entry_iff (by rw [hn]; exact hcn)]
    by_cases hrc : r = row ∧ c = col
    · obtain ⟨rfl, rfl⟩ := hrc
      rw [if_pos ⟨rfl, rfl⟩]
      constructor
      · rintro ⟨k, k1, k2, k3, k4⟩
        rw [hrv k] at k3
        rw [hnz k] at k4
        rcases (hcol c hcn k).mp ⟨k1, k2⟩ with ⟨a, b, d⟩ | ⟨a, _⟩ | ⟨a, b, d⟩
        · rw [if_pos a] at k3
          have := hlo k b a; omega
        · rw [if_neg (by omega), if_pos a] at k4
          rw [k4]
        · rw [if_neg (by omega), if_neg (by omega)] at k3
          have := hhi (k - 1) (by omega) d; omega
      · intro hv
        have := Option.some.inj hv
        subst this
        obtain ⟨a, b⟩ := (hcol c hcn p).mpr (.inr (.inl ⟨rfl, rfl⟩))
        refine ⟨p, a, b, ?_, ?_⟩
        · rw [hrv p, if_neg (by omega), if_pos rfl]
        · rw [hnz p, if_neg (by omega), if_pos rfl]
    · rw [if_neg hrc, hg.entry_iff hcn]
      constructor
      · rintro ⟨k, k1, k2, k3, k4⟩
        rw [hrv k] at k3
        rw [hnz k] at k4
        rcases (hcol c hcn k).mp ⟨k1, k2⟩ with ⟨a, b, d⟩ | ⟨a, b⟩ | ⟨a, b, d⟩
        · rw [if_pos a] at k3 k4
          exact ⟨k, b, d, k3, k4⟩
        · rw [if_neg (by omega), if_pos a] at k3
          exact absurd ⟨k3.symm, b⟩ hrc
        · rw [if_neg (by omega), if_neg (by omega)] at k3 k4
          exact ⟨k - 1, b, d, k3, k4⟩
      · rintro ⟨k, k1, k2, k3, k4⟩
        by_cases e : k < p
        · obtain ⟨a, b⟩ := (hcol c hcn k).mpr (.inl ⟨e, k1, k2⟩)
          refine ⟨k, a, b, ?_, ?_⟩
          · rw [hrv k, if_pos e]; exact k3
          · rw [hnz k, if_pos e]; exact k4
        · obtain ⟨a, b⟩ := (hcol c hcn (k + 1)).mpr (.inr (.inr ⟨by omega, by
            rw [Nat.add_sub_cancel]; exact k1, by rw [Nat.add_sub_cancel]; exact k2⟩))
          refine ⟨k + 1, a, b, ?_, ?_⟩
          · rw [hrv (k + 1), if_neg (by omega), if_neg (by omega), Nat.add_sub_cancel]; exact k3
          · rw [hnz (k + 1), if_neg (by omega), if_neg (by omega), Nat.add_sub_cancel]; exact k4
  · rw [IMat.entry_none_of_ge hg'.wfe (by rw [hn]; omega), if_neg (by omega),
      IMat.entry_none_of_ge h (by omega)]

/-- [S] `set_entry` at a strictly lower, in-range position of a `Good` matrix: no panic, `Good` is
kept, exactly the addressed entry changes — a non-zero value is written or inserted, a zero is
written over an existing entry but never inserted -/
theorem setEntry_spec : SetEntrySpec := by
  intro E hg row col hcr hr v
  have hc : col < E.n := by omega
  obtain ⟨p, hp1, hp2, hpN, hlo, hhi, hcase⟩ := setEntry_closed hg hc hr v
  -- when `row` is not stored at `p`, the rows from `p` on are strictly larger
  have hstrict : (p < E.colptr.getD (col + 1) 0 → E.rowval.getD p 0 ≠ row) →
      ∀ k, p ≤ k → k < E.colptr.getD (col + 1) 0 → row < E.rowval.getD k 0 := by
    intro hnf k k1 k2
    have a := hhi p (Nat.le_refl _) (by omega)
    have b := hnf (by omega)
    by_cases e : k = p
    · subst e; omega
    · have := hg.sorted.lt' hc hp1 (show p < k by omega) k2
      omega
  rcases hcase with ⟨hlt, hrow, e⟩ | ⟨hnf, hv, e⟩ | ⟨hnf, hv, E', e, hm, hn, cpsz, hcp, rsz, zsz, hrv, hnz⟩
  · obtain ⟨g, he⟩ := setEntry_overwrite hg hc v hp1 hlt hrow
    exact ⟨_, e, g, rfl, rfl, he⟩
  · refine ⟨E, e, hg, rfl, rfl, ?_⟩
    intro r c
    by_cases hrc : r = row ∧ c = col
    · obtain ⟨rfl, rfl⟩ := hrc
      rw [if_pos ⟨rfl, rfl⟩, if_pos hv]
      cases hent : E.entry r c with
      | none => rfl
      | some x =>
        obtain ⟨k, k1, k2, k3, _⟩ := (hg.entry_iff hc r x).mp hent
        by_cases e' : k < p
        · have := hlo k k1 e'; omega
        · have := hstrict hnf k (by omega) k2; omega
    · rw [if_neg hrc]
  · obtain ⟨g, he⟩ := setEntry_insert hg hcr hr v hp1 hp2 hlo (hstrict hnf) hm hn cpsz hcp rsz zsz
      hrv hnz
    refine ⟨E', e, g, hm, hn, ?_⟩
    intro r c
    rw [he r c, if_neg hv]

/-! ## non-vacuity -/

/-- [S] the triangle `KrEx.tri` (edges `(1,0)`, `(2,0)`, `(2,1)`) is a `Good` matrix -/
theorem KrEx.tri_good : KrEx.tri.Good := by
  refine ⟨KrEx.tri_wfe, KrEx.tri_lower, ⟨?_⟩⟩
  intro c hc k h1 h2
  have hc4 : c < 4 := hc
  have e0 : KrEx.tri.colptr.getD 0 0 = 0 := rfl
  have e1 : KrEx.tri.colptr.getD 1 0 = 2 := rfl
  have e2 : KrEx.tri.colptr.getD 2 0 = 3 := rfl
  have e3 : KrEx.tri.colptr.getD 3 0 = 3 := rfl
  have e4 : KrEx.tri.colptr.getD 4 0 = 3 := rfl
  have hk : c = 0 ∧ k = 0 := by
    rcases c with _ | _ | _ | _ | c
    · rw [e0] at h1; rw [e1] at h2; omega
    · rw [e1] at h1; rw [e2] at h2; omega
    · rw [e2] at h1; rw [e3] at h2; omega
    · rw [e3] at h1; rw [e4] at h2; omega
    · omega
  obtain ⟨rfl, rfl⟩ := hk
  decide

example : ∃ E', KrEx.tri.setEntry 2 1 0 = .ok E' ∧ E'.Good ∧ E'.entry 2 1 = some 0 ∧
    E'.entry 2 0 = KrEx.tri.entry 2 0 := by
  obtain ⟨E', e, g, _, _, he⟩ := setEntry_spec KrEx.tri KrEx.tri_good 2 1 (by omega)
    (show 2 < 4 by omega) 0
  refine ⟨E', e, g, ?_, ?_⟩
  · rw [he 2 1, if_pos ⟨rfl, rfl⟩, if_pos rfl,
      (KrEx.tri_good.entry_iff (show 1 < 4 by omega) 2 1).mpr ⟨2, by decide, by decide, rfl, rfl⟩]
    rfl
  · rw [he 2 0, if_neg (by omega)]

example : ∃ E', KrEx.tri.dropzeros = .ok E' ∧ E'.Good ∧
    ∀ r c, E'.entry r c = (KrEx.tri.entry r c).filter (fun v => v != 0) := by
  obtain ⟨E', e, g, _, _, he⟩ := dropzeros_spec KrEx.tri KrEx.tri_good
  exact ⟨E', e, g, he⟩

end Clarabel.Chordal
