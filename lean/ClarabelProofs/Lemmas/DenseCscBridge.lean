/-
  C16: the bridge between the two matrix models, "dense ∘ csc = csc ∘ dense".

  `ofCsc M` is the dense (column major) matrix a CSC matrix denotes: the table of
  `Csc.toDense M`.  For every operation that exists on both sides the dense operation applied
  to `ofCsc M` returns `ofCsc` of the CSC operation's result, as an equality of `Dense α`
  (resp. `MErr (Dense α)`, `MErr (Array α)`) values.

  The lemmas here take what the CSC spec theorem of the operation says about the result
  (shape + `toDense`) as explicit hypotheses (`Props/C16.lean`, which proves those specs,
  imports this file); the wrappers in `Props/C16.lean` discharge them, so that the only
  hypotheses left there are `Canonical M` and the size conditions.  `transpose` needs no
  hypothesis at all.
-/
import ClarabelProofs.Lemmas.DensePack
import ClarabelProofs.Lemmas.CscReduce

namespace Clarabel.Dense
open Clarabel

variable {α : Type}

/-! ### the dense matrix of a CSC matrix -/

/-- the dense matrix a CSC matrix denotes (column major table of `toDense`) -/
def ofCsc [Add α] [OfNat α 0] (M : Csc α) : Dense α :=
  ⟨M.m, M.n, tab M.m M.n (fun i j => M.toDense i j)⟩

@[simp] theorem ofCsc_m [Add α] [OfNat α 0] (M : Csc α) : (ofCsc M).m = M.m := rfl
@[simp] theorem ofCsc_n [Add α] [OfNat α 0] (M : Csc α) : (ofCsc M).n = M.n := rfl

theorem ofCsc_wf [Add α] [OfNat α 0] (M : Csc α) : WF (ofCsc M) := by
  simp [WF, ofCsc]

theorem ofCsc_at [Add α] [OfNat α 0] (M : Csc α) {i j : Nat} (hi : i < M.m) (hj : j < M.n) :
    at? (ofCsc M) i j = some (M.toDense i j) :=
  tab_at M.m M.n (fun i j => M.toDense i j) hi hj

theorem ofCsc_getD [Add α] [OfNat α 0] (M : Csc α) {i j : Nat} (hi : i < M.m) (hj : j < M.n) :
    (ofCsc M).data.getD (i + (ofCsc M).m * j) 0 = M.toDense i j := by
  have h := ofCsc_at M hi hj
  simp only [at?] at h
  rw [Array.getD_eq_getD_getElem?, h]
  rfl

/-- two well-formed dense matrices of the same shape with the same in-range entries are equal -/
theorem ext_at (A B : Dense α) (hA : WF A) (hB : WF B) (hm : A.m = B.m) (hn : A.n = B.n)
    (h : ∀ i j, i < A.m → j < A.n → at? A i j = at? B i j) : A = B := by
  obtain ⟨m, n, d⟩ := A
  obtain ⟨m', n', d'⟩ := B
  simp only at hm hn
  subst hm hn
  simp only [WF] at hA hB
  simp only [Dense.mk.injEq, true_and]
  apply Array.ext
  · rw [hA, hB]
  · intro k h1 h2
    have hk : k < m * n := by rw [← hA]; exact h1
    have hi : k % m < m := mod_lt_of_lt_mul hk
    have hj : k / m < n := div_lt_of_lt_mul' hk
    have e := h (k % m) (k / m) hi hj
    simp only [at?, Nat.mod_add_div] at e
    rw [Array.getElem?_eq_getElem h1, Array.getElem?_eq_getElem h2] at e
    exact Option.some.inj e

/-- a well-formed dense matrix whose in-range entries are the `toDense` values of `M` is
`ofCsc M` -/
theorem eq_ofCsc [Add α] [OfNat α 0] (A : Dense α) (M : Csc α) (hA : WF A) (hm : A.m = M.m)
    (hn : A.n = M.n) (h : ∀ i j, i < M.m → j < M.n → at? A i j = some (M.toDense i j)) :
    A = ofCsc M := by
  apply ext_at A (ofCsc M) hA (ofCsc_wf M) hm hn
  intro i j hi hj
  rw [h i j (by omega) (by omega), ofCsc_at M (by omega) (by omega)]

/-- same shape + same `toDense` on the in-range indices ⇒ same dense matrix -/
theorem ofCsc_congr [Add α] [OfNat α 0] (M N : Csc α) (hm : M.m = N.m) (hn : M.n = N.n)
    (h : ∀ i j, i < M.m → j < M.n → M.toDense i j = N.toDense i j) : ofCsc M = ofCsc N := by
  apply eq_ofCsc (ofCsc M) N (ofCsc_wf M) hm hn
  intro i j hi hj
  rw [ofCsc_at M (by omega) (by omega), h i j (by omega) (by omega)]

/-! ### transpose -/

/-- the dense meaning of the CSC `transpose` (the statement of `C16.transpose_dense`, proved
here again because `Props/C16.lean` imports this file) -/
theorem csc_transpose_toDense [Add α] [OfNat α 0] (M : Csc α) (i j : Nat) (hi : i < M.m)
    (hj : j < M.n) : M.transpose.toDense j i = M.toDense i j := by
  rw [Csc.toDense_eq_foldl_colVals, Csc.toDense_eq_foldl_colVals]
  unfold Csc.transpose
  rw [Csc.col_ofCols _ _ _ i (by simpa using hi)]
  simp only [List.getElem_map, List.getElem_range]
  rw [Csc.colVals_flatten, List.map_map]
  rw [Csc.flatten_map_range_single M.n j _ hj]
  · simp only [Function.comp]
    unfold Csc.colVals
    rw [List.filter_map, List.map_map]
    have : ((M.col j).filter (fun e => e.1 == i)).filter
        ((fun e : Nat × α => e.1 == j) ∘ fun e => (j, e.2))
        = (M.col j).filter (fun e => e.1 == i) := by
      rw [List.filter_eq_self]; intro a _; simp
    rw [this]
    rfl
  · intro k _ hkj
    simp only [Function.comp]
    apply Csc.colVals_eq_nil_of_not_mem
    intro e he
    simp only [List.mem_map] at he
    obtain ⟨_, _, rfl⟩ := he
    exact hkj

/-- the materialised dense transpose of `ofCsc M` is `ofCsc` of the CSC transpose -/
theorem transpose_ofCsc [Add α] [OfNat α 0] (M : Csc α) :
    transpose (ofCsc M) = ofCsc M.transpose := by
  have hwf : WF (transpose (ofCsc M)) := by simp [WF, transpose]
  apply eq_ofCsc (transpose (ofCsc M)) M.transpose hwf rfl rfl
  intro i j hi hj
  have hi' : i < M.n := hi
  have hj' : j < M.m := hj
  rw [transpose_at (ofCsc M) (ofCsc_wf M) hi' hj', ofCsc_at M hj' hi',
    csc_transpose_toDense M j i hj' hi']

/-- the `t()` view of `ofCsc M` reads the entries of the CSC transpose -/
theorem get_T_ofCsc [Add α] [OfNat α 0] (M : Csc α) {i j : Nat} (hi : i < M.m) (hj : j < M.n) :
    get .T (ofCsc M) j i = .ok (M.transpose.toDense j i) := by
  rw [get_T, get_eq_ok_iff, atV?_N, ofCsc_at M hi hj, csc_transpose_toDense M i j hi hj]

/-! ### scalings -/

theorem scale_ofCsc [Add α] [Mul α] [OfNat α 0] (M : Csc α) (c : α)
    (hd : ∀ i j, i < M.m → j < M.n → (M.scale c).toDense i j = M.toDense i j * c) :
    scale (ofCsc M) c = ofCsc (M.scale c) := by
  obtain ⟨h1, h2, h3, h4⟩ := scale_spec (ofCsc M) c
  have hwf : WF (scale (ofCsc M) c) := by
    unfold WF; rw [h3, h1, h2]; exact ofCsc_wf M
  apply eq_ofCsc (scale (ofCsc M) c) (M.scale c) hwf rfl rfl
  intro i j hi hj
  have hi' : i < M.m := hi
  have hj' : j < M.n := hj
  rw [h4, ofCsc_at M hi' hj', hd i j hi' hj']
  rfl

theorem negate_ofCsc [Add α] [Neg α] [OfNat α 0] (M : Csc α)
    (hd : ∀ i j, i < M.m → j < M.n → M.negate.toDense i j = - M.toDense i j) :
    negate (ofCsc M) = ofCsc M.negate := by
  obtain ⟨h1, h2, h3, h4⟩ := negate_spec (ofCsc M)
  have hwf : WF (negate (ofCsc M)) := by
    unfold WF; rw [h3, h1, h2]; exact ofCsc_wf M
  apply eq_ofCsc (negate (ofCsc M)) M.negate hwf rfl rfl
  intro i j hi hj
  have hi' : i < M.m := hi
  have hj' : j < M.n := hj
  rw [h4, ofCsc_at M hi' hj', hd i j hi' hj']
  rfl

theorem lscale_ofCsc [Add α] [Mul α] [OfNat α 0] (M R : Csc α) (l : Array α)
    (hl : l.size = M.m) (hRm : R.m = M.m) (hRn : R.n = M.n)
    (hRd : ∀ i j, i < M.m → j < M.n → R.toDense i j = M.toDense i j * l.getD i 0) :
    lscale (ofCsc M) l = .ok (ofCsc R) := by
  obtain ⟨D, hD, hm, hn, hwf, hat⟩ := lscale_spec (ofCsc M) l (ofCsc_wf M) hl
  rw [hD]
  congr 1
  apply eq_ofCsc D R hwf (by rw [hm, hRm]; rfl) (by rw [hn, hRn]; rfl)
  intro i j hi hj
  have hi' : i < M.m := by omega
  have hj' : j < M.n := by omega
  rw [hat i j hi' hj', ofCsc_at M hi' hj', hRd i j hi' hj', Option.map_some]
  have : l.getD i 0 = l[i]'(by omega) := by
    rw [Array.getD_eq_getD_getElem?, Array.getElem?_eq_getElem (by omega)]; rfl
  rw [this]

theorem rscale_ofCsc [Add α] [Mul α] [OfNat α 0] (M R : Csc α) (r : Array α)
    (hr : r.size = M.n) (hRm : R.m = M.m) (hRn : R.n = M.n)
    (hRd : ∀ i j, i < M.m → j < M.n → R.toDense i j = M.toDense i j * r.getD j 0) :
    rscale (ofCsc M) r = .ok (ofCsc R) := by
  obtain ⟨D, hD, hm, hn, hwf, hat⟩ := rscale_spec (ofCsc M) r (ofCsc_wf M) hr
  rw [hD]
  congr 1
  apply eq_ofCsc D R hwf (by rw [hm, hRm]; rfl) (by rw [hn, hRn]; rfl)
  intro i j hi hj
  have hi' : i < M.m := by omega
  have hj' : j < M.n := by omega
  rw [hat i j hi' hj', ofCsc_at M hi' hj', hRd i j hi' hj', Option.map_some]
  have : r.getD j 0 = r[j]'(by omega) := by
    rw [Array.getD_eq_getD_getElem?, Array.getElem?_eq_getElem (by omega)]; rfl
  rw [this]

/-- `hRd` is stated in the dense operation order `a·(l[i]·r[j])`; over a commutative ring this
is the CSC spec's `l i · M i j · r j` -/
theorem lrscale_ofCsc [Add α] [Mul α] [OfNat α 0] (M R : Csc α) (l r : Array α)
    (hl : l.size = M.m) (hr : r.size = M.n) (hRm : R.m = M.m) (hRn : R.n = M.n)
    (hRd : ∀ i j, i < M.m → j < M.n →
      R.toDense i j = M.toDense i j * (l.getD i 0 * r.getD j 0)) :
    lrscale (ofCsc M) l r = .ok (ofCsc R) := by
  obtain ⟨D, hD, hm, hn, hwf, hat⟩ := lrscale_spec (ofCsc M) l r (ofCsc_wf M) hl hr
  rw [hD]
  congr 1
  apply eq_ofCsc D R hwf (by rw [hm, hRm]; rfl) (by rw [hn, hRn]; rfl)
  intro i j hi hj
  have hi' : i < M.m := by omega
  have hj' : j < M.n := by omega
  rw [hat i j hi' hj', ofCsc_at M hi' hj', hRd i j hi' hj', Option.map_some]
  have h1 : l.getD i 0 = l[i]'(by omega) := by
    rw [Array.getD_eq_getD_getElem?, Array.getElem?_eq_getElem (by omega)]; rfl
  have h2 : r.getD j 0 = r[j]'(by omega) := by
    rw [Array.getD_eq_getD_getElem?, Array.getElem?_eq_getElem (by omega)]; rfl
  rw [h1, h2]

/-! ### column / row sums -/

/-- an array is determined by its size and its in-range `getElem?` values -/
theorem array_ext_getElem? (v w : Array α) (n : Nat) (hv : v.size = n) (hw : w.size = n)
    (h : ∀ j, j < n → v[j]? = w[j]?) : v = w := by
  apply Array.ext (by rw [hv, hw])
  intro k h1 h2
  have e := h k (by omega)
  rw [Array.getElem?_eq_getElem h1, Array.getElem?_eq_getElem h2] at e
  exact Option.some.inj e

theorem colSums_ofCsc [AddCommMonoid α] (M : Csc α) (s v : Array α) (hs : s.size = M.n)
    (hv : M.colSums s = .ok v) (hsz : v.size = M.n)
    (hvd : ∀ j, j < M.n → v[j]? = some (∑ i ∈ Finset.range M.m, M.toDense i j)) :
    colSums (ofCsc M) s = M.colSums s := by
  obtain ⟨w, hw, hwsz, hwd⟩ := colSums_spec (ofCsc M) s (ofCsc_wf M) hs
  rw [hw, hv]
  congr 1
  apply array_ext_getElem? w v M.n hwsz hsz
  intro j hj
  rw [hwd j hj, hvd j hj]
  congr 1
  apply Finset.sum_congr rfl
  intro i hi
  exact ofCsc_getD M (Finset.mem_range.mp hi) hj

theorem rowSums_ofCsc [AddCommMonoid α] (M : Csc α) (s v : Array α) (hs : s.size = M.m)
    (hv : M.rowSums s = .ok v) (hsz : v.size = M.m)
    (hvd : ∀ i, i < M.m → v[i]? = some (∑ j ∈ Finset.range M.n, M.toDense i j)) :
    rowSums (ofCsc M) s = M.rowSums s := by
  obtain ⟨w, hw, hwsz, hwd⟩ := rowSums_spec (ofCsc M) s (ofCsc_wf M) hs
  rw [hw, hv]
  congr 1
  apply array_ext_getElem? w v M.m hwsz hsz
  intro i hi
  rw [hwd i hi, hvd i hi]
  congr 1
  apply Finset.sum_congr rfl
  intro j hj
  exact ofCsc_getD M hi (Finset.mem_range.mp hj)

/-! ### concatenation -/

theorem hcat_ofCsc [Add α] [OfNat α 0] (A B R : Csc α) (hm : A.m = B.m)
    (hRm : R.m = A.m) (hRn : R.n = A.n + B.n)
    (hl : ∀ i j, i < A.m → j < A.n → R.toDense i j = A.toDense i j)
    (hr : ∀ i j, i < A.m → j < B.n → R.toDense i (A.n + j) = B.toDense i j) :
    hcat (ofCsc A) (ofCsc B) = .ok (ofCsc R) := by
  obtain ⟨D, hD, hDm, hDn, hwf, h1, h2⟩ :=
    hcat_spec (ofCsc A) (ofCsc B) (ofCsc_wf A) (ofCsc_wf B) hm
  rw [hD]
  congr 1
  apply eq_ofCsc D R hwf (by rw [hDm, hRm]; rfl) (by rw [hDn, hRn]; rfl)
  intro i j hi hj
  have hi' : i < A.m := by omega
  by_cases hjA : j < A.n
  · rw [h1 i j hi' hjA, ofCsc_at A hi' hjA, hl i j hi' hjA]
  · obtain ⟨j', rfl⟩ : ∃ j', j = A.n + j' := ⟨j - A.n, by omega⟩
    have hj' : j' < B.n := by omega
    have := h2 i j' hi' hj'
    simp only [ofCsc_n] at this
    rw [this, ofCsc_at B (by omega) hj', hr i j' hi' hj']

theorem vcat_ofCsc [Add α] [OfNat α 0] (A B R : Csc α) (hn : A.n = B.n)
    (hRm : R.m = A.m + B.m) (hRn : R.n = A.n)
    (ht : ∀ i j, i < A.m → j < A.n → R.toDense i j = A.toDense i j)
    (hb : ∀ i j, i < B.m → j < A.n → R.toDense (A.m + i) j = B.toDense i j) :
    vcat (ofCsc A) (ofCsc B) = .ok (ofCsc R) := by
  obtain ⟨D, hD, hDm, hDn, hwf, h1, h2⟩ :=
    vcat_spec (ofCsc A) (ofCsc B) (ofCsc_wf A) (ofCsc_wf B) hn
  rw [hD]
  congr 1
  apply eq_ofCsc D R hwf (by rw [hDm, hRm]; rfl) (by rw [hDn, hRn]; rfl)
  intro i j hi hj
  have hj' : j < A.n := by omega
  by_cases hiA : i < A.m
  · rw [h1 i j hiA hj', ofCsc_at A hiA hj', ht i j hiA hj']
  · obtain ⟨i', rfl⟩ : ∃ i', i = A.m + i' := ⟨i - A.m, by omega⟩
    have hi' : i' < B.m := by omega
    have := h2 i' j hi' hj'
    simp only [ofCsc_m] at this
    rw [this, ofCsc_at B hi' (by omega), hb i' j hi' hj']

/-! ### maxima (for the norm bridges) -/

/-- the maximum of `v0` and a list only depends on the members above `v0` -/
theorem IsMaxOf_unique [LinearOrder α] {r r' v0 : α} {l l' : List α}
    (h : Csc.IsMaxOf r v0 l) (h' : Csc.IsMaxOf r' v0 l')
    (hl : ∀ a ∈ l, a ≤ v0 ∨ a ∈ l') (hl' : ∀ a ∈ l', a ≤ v0 ∨ a ∈ l) : r = r' := by
  obtain ⟨h1, h2, h3⟩ := h
  obtain ⟨h1', h2', h3'⟩ := h'
  apply le_antisymm
  · rcases h3 with e | e
    · rw [e]; exact h1'
    · rcases hl r e with e' | e'
      · exact le_trans e' h1'
      · exact h2' r e'
  · rcases h3' with e | e
    · rw [e]; exact h1
    · rcases hl' r' e with e' | e'
      · exact le_trans e' h1
      · exact h2 r' e'

end Clarabel.Dense
