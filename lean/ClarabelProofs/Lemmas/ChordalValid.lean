/-
  `validCliqueTreeB` (`ClarabelModel/Chordal/Valid.lean`, the executable validity checker
  that the driver `cm_c17` runs on the model's clique tree for every analysis case) decides
  the Prop-level statement `ValidCliqueTree`: ordering a permutation, consistent sizes, and
  either the single-clique case or a clique tree with partitioning consecutive supernodes,
  one root (last in post-order), parents later in post-order, separator = clique ∩ parent
  clique, children = inverse of parents, running intersection, block dimensions and coverage
  of the sparsity pattern.  The clauses are those of the harness oracle `check_clique_tree`.
-/
import ClarabelModel.Chordal.Valid
import ClarabelProofs.Lemmas.ChordalPostOrder
import ClarabelProofs.Lemmas.ChordalReorder
import Mathlib.Data.List.Nodup
import Mathlib.Data.List.Range
import Mathlib.Data.List.Perm.Basic

namespace Clarabel.Chordal
open SuperNodeTree

/-! ### list helpers -/

/-- [S] `nodupB` decides `List.Nodup` -/
theorem nodupB_iff (l : List Nat) : nodupB l = true ↔ l.Nodup := by
  induction l with
  | nil => simp [nodupB]
  | cons a l ih => simp [nodupB, ih, List.nodup_cons]

/-- [S] a list is `range n` up to order iff it has `n` distinct entries below `n` -/
theorem perm_range_iff (l : List Nat) (n : Nat) :
    l.Perm (List.range n) ↔ (l.length = n ∧ (∀ x ∈ l, x < n) ∧ l.Nodup) := by
  constructor
  · intro h
    refine ⟨by simpa using h.length_eq, fun x hx => List.mem_range.1 (h.subset hx), ?_⟩
    exact h.nodup_iff.2 List.nodup_range
  · rintro ⟨hl, hlt, hnd⟩
    exact perm_range_of_nodup_lt hnd hlt (by omega)

private theorem sort_pairwise (s : VSet) : s.sort.toList.Pairwise (fun a b => a ≤ b) := by
  have h := List.pairwise_mergeSort (le := fun a b : Nat => decide (a ≤ b))
    (by intro a b c; simp only [decide_eq_true_eq]; omega)
    (by intro a b; simp only [Bool.or_eq_true, decide_eq_true_eq]; omega) s.toList
  unfold VSet.sort
  simpa using h

/-- [S] sorting yields the ascending list `r` iff the set is `r` up to order -/
theorem sort_eq_iff_perm (s : VSet) (r : List Nat) (hr : r.Pairwise (fun a b => a ≤ b)) :
    s.sort.toList = r ↔ s.toList.Perm r := by
  constructor
  · intro h
    exact h ▸ (VSet.sort_perm s).symm
  · intro h
    exact List.Perm.eq_of_pairwise (le := fun a b => a ≤ b)
      (fun a b _ _ h1 h2 => Nat.le_antisymm h1 h2) (sort_pairwise s) hr ((VSet.sort_perm s).trans h)

private theorem range'_pairwise_le (a m : Nat) : (List.range' a m).Pairwise (fun x y => x ≤ y) :=
  (List.pairwise_lt_range' (s := a) (n := m)).imp (fun h => Nat.le_of_lt h)

private theorem range_pairwise_le (n : Nat) : (List.range n).Pairwise (fun x y => x ≤ y) := by
  rw [List.range_eq_range']
  exact range'_pairwise_le 0 n

/-- [S] exactly one index below `k` passes the test `p` -/
theorem filter_range_length_one_iff (k : Nat) (p : Nat → Bool) :
    ((List.range k).filter p).length = 1 ↔ ∃! c, c < k ∧ p c = true := by
  constructor
  · intro h
    obtain ⟨a, ha⟩ := List.length_eq_one_iff.1 h
    have hm : ∀ c, c ∈ (List.range k).filter p ↔ c = a := by
      intro c
      rw [ha]
      simp
    refine ⟨a, ?_, ?_⟩
    · have h1 := (hm a).2 rfl
      rw [List.mem_filter, List.mem_range] at h1
      exact h1
    · intro c hc
      exact (hm c).1 (List.mem_filter.2 ⟨List.mem_range.2 hc.1, hc.2⟩)
  · rintro ⟨a, ⟨hak, hpa⟩, huniq⟩
    have hnd : ((List.range k).filter p).Nodup := List.Nodup.filter _ List.nodup_range
    have hall : ∀ c ∈ (List.range k).filter p, c = a := by
      intro c hc
      have h1 := List.mem_filter.1 hc
      exact huniq c ⟨List.mem_range.1 h1.1, h1.2⟩
    have hmem : a ∈ (List.range k).filter p := List.mem_filter.2 ⟨List.mem_range.2 hak, hpa⟩
    revert hnd hall hmem
    generalize (List.range k).filter p = L
    intro hnd hall hmem
    match L, hnd, hall, hmem with
    | [], _, _, hmem => simp at hmem
    | [_], _, _, _ => rfl
    | x :: y :: r, hnd, hall, _ =>
      have hx := hall x (by simp)
      have hy := hall y (by simp)
      subst hx
      subst hy
      simp at hnd

/-- [S] position test in a repetition-free list -/
theorem idxOf_lt_iff {l : List Nat} (hnd : l.Nodup) {c p : Nat} (hc : c ∈ l) :
    (p ∈ l ∧ l.idxOf c < l.idxOf p) ↔ ∃ i j : Nat, i < j ∧ l[i]? = some c ∧ l[j]? = some p := by
  constructor
  · rintro ⟨hp, hlt⟩
    have hcl := List.idxOf_lt_length_of_mem hc
    have hpl := List.idxOf_lt_length_of_mem hp
    refine ⟨l.idxOf c, l.idxOf p, hlt, ?_, ?_⟩
    · rw [List.getElem?_eq_getElem hcl, List.getElem_idxOf hcl]
    · rw [List.getElem?_eq_getElem hpl, List.getElem_idxOf hpl]
  · rintro ⟨i, j, hij, hi, hj⟩
    obtain ⟨hil, hi'⟩ := List.getElem?_eq_some_iff.1 hi
    obtain ⟨hjl, hj'⟩ := List.getElem?_eq_some_iff.1 hj
    refine ⟨hj' ▸ List.getElem_mem hjl, ?_⟩
    have h1 : l.idxOf c = i := by rw [← hi']; exact hnd.idxOf_getElem i hil
    have h2 : l.idxOf p = j := by rw [← hj']; exact hnd.idxOf_getElem j hjl
    omega

/-! ### the Prop-level statement -/

/-- facts checked in every case: the ordering is a permutation, the sizes are consistent -/
structure ValidCommon (n : Nat) (t : SuperNodeTree) (ordering : Array Nat) : Prop where
  ordering_perm : ordering.toList.Perm (List.range n)
  ncliques_ne_zero : t.nCliques ≠ 0
  separators_size : t.separators.size = t.snode.size
  parent_size : t.snodeParent.size = t.snode.size
  post_size : t.snodePost.size = t.nCliques

/-- everything was merged into one clique: its supernode is the whole vertex set -/
structure ValidSingle (n : Nat) (t : SuperNodeTree) : Prop where
  index : t.postAt 0 < t.snode.size
  all_vertices : (t.sn (t.postAt 0)).toList.Perm (List.range n)

/-- a proper clique tree (`k = t.snode.size` stored cliques, the live ones are listed in
    `snodePost`, `t.root` is the last listed one) -/
structure ValidMulti (n : Nat) (edges : List (Nat × Nat)) (t : SuperNodeTree) (ordering : Array Nat) :
    Prop where
  /-- `snodePost` lists clique indices without repetition -/
  post_nodup : t.snodePost.toList.Nodup
  post_lt : ∀ c ∈ t.snodePost.toList, c < t.snode.size
  /-- dead cliques are empty, live supernodes are not -/
  live_nonempty : ∀ c, c < t.snode.size → c ∈ t.snodePost.toList → (t.sn c).toList ≠ []
  dead_empty : ∀ c, c < t.snode.size → c ∉ t.snodePost.toList →
    (t.sn c).toList = [] ∧ (t.sp c).toList = []
  /-- the supernodes are the consecutive ranges in post-order and cover `0..n` -/
  consecutive : ∀ i, i < t.nCliques →
    (t.sn (t.postAt i)).toList.Perm (List.range' (t.offset i) (t.sn (t.postAt i)).size)
  cover : t.offset t.nCliques = n
  /-- supernode and separator are disjoint, repetition-free and in range -/
  clique_nodup : ∀ c, c < t.snode.size → (t.cliqueL c).Nodup
  clique_lt : ∀ c, c < t.snode.size → ∀ v ∈ t.cliqueL c, v < n
  /-- exactly one live clique has no parent; it is the last one of the post-order -/
  one_root : ∃! r, r < t.snode.size ∧ r ∈ t.snodePost.toList ∧ t.par r = noParent
  root_last : t.root < t.snode.size ∧ t.root ∈ t.snodePost.toList ∧ t.par t.root = noParent
  /-- every other live clique has a live parent later in the post-order -/
  parent_live_later : ∀ c, c < t.snode.size → c ∈ t.snodePost.toList → c ≠ t.root →
    t.par c < t.snode.size ∧
      ∃ i j : Nat, i < j ∧ t.snodePost.toList[i]? = some c ∧ t.snodePost.toList[j]? = some (t.par c)
  /-- separator = clique ∩ parent clique -/
  separator_inter : ∀ c, c < t.snode.size → c ∈ t.snodePost.toList → c ≠ t.root →
    ∀ v, v ∈ (t.sp c).toList ↔ (v ∈ t.cliqueL c ∧ v ∈ t.cliqueL (t.par c))
  root_separator : (t.sp t.root).toList = []
  /-- children lists = inverse of the parent array on live cliques (when populated) -/
  children : t.snodeChildren.size = t.snode.size →
    ∀ c, c < t.snode.size → c ∈ t.snodePost.toList →
      ∀ d, d ∈ (t.ch c).toList ↔ (d < t.snode.size ∧ d ∈ t.snodePost.toList ∧ t.par d = c)
  /-- running intersection: every vertex enters the tree at exactly one clique -/
  running : ∀ v, v < n → ∃! c, c < t.snode.size ∧ c ∈ t.snodePost.toList ∧ v ∈ t.cliqueL c ∧
    (c = t.root ∨ v ∉ t.cliqueL (t.par c))
  /-- block dimensions -/
  nblk : ∃ nb, t.nblk = some nb ∧ nb.size = t.nCliques ∧
    ∀ i, i < t.nCliques → nb.getD i 0 = (t.cliqueL (t.postAt i)).length
  /-- every pattern entry (original coordinates) lies in the block of a live clique -/
  coverage : ∀ e ∈ edges, ∃ c, c < t.snode.size ∧ c ∈ t.snodePost.toList ∧
    (∃ a ∈ t.cliqueL c, ordering[a]? = some e.1) ∧ (∃ b ∈ t.cliqueL c, ordering[b]? = some e.2)

/-- validity of the clique tree `t` with `ordering` for the pattern `edges` on `n` vertices -/
structure ValidCliqueTree (n : Nat) (edges : List (Nat × Nat)) (t : SuperNodeTree) (ordering : Array Nat) :
    Prop where
  common : ValidCommon n t ordering
  split : (t.nCliques = 1 ∧ ValidSingle n t) ∨ (t.nCliques ≠ 1 ∧ ValidMulti n edges t ordering)

/-! ### clause by clause -/

theorem liveB_iff (t : SuperNodeTree) (c : Nat) : t.liveB c = true ↔ c ∈ t.snodePost.toList := by
  simp [liveB]

/-- [S] clause `ordering-perm` -/
theorem clOrderingPerm_iff (n : Nat) (ordering : Array Nat) :
    clOrderingPerm n ordering = true ↔ ordering.toList.Perm (List.range n) := by
  rw [perm_range_iff]
  unfold clOrderingPerm
  simp only [Bool.and_eq_true, beq_iff_eq, List.all_eq_true, decide_eq_true_eq, nodupB_iff,
    Array.length_toList, and_assoc]

/-- [S] clause `sizes` -/
theorem clSizes_iff (t : SuperNodeTree) :
    clSizes t = true ↔ (t.nCliques ≠ 0 ∧ t.separators.size = t.snode.size ∧
      t.snodeParent.size = t.snode.size ∧ t.snodePost.size = t.nCliques) := by
  simp [clSizes, and_assoc]

/-- [S] clause `single-index` -/
theorem clSingleIndex_iff (t : SuperNodeTree) : clSingleIndex t = true ↔ t.postAt 0 < t.snode.size := by
  simp [clSingleIndex]

/-- [S] clause `single-all-vertices` -/
theorem clSingleAll_iff (n : Nat) (t : SuperNodeTree) :
    clSingleAll n t = true ↔ (t.sn (t.postAt 0)).toList.Perm (List.range n) := by
  unfold clSingleAll
  rw [beq_iff_eq, sort_eq_iff_perm _ _ (range_pairwise_le n)]

/-- [S] clause `post-distinct` -/
theorem clPostDistinct_iff (t : SuperNodeTree) :
    clPostDistinct t = true ↔
      (t.snodePost.toList.Nodup ∧ ∀ c ∈ t.snodePost.toList, c < t.snode.size) := by
  unfold clPostDistinct
  simp only [Bool.and_eq_true, List.all_eq_true, decide_eq_true_eq, nodupB_iff]

/-- [S] clause `dead-empty` -/
theorem clDeadEmpty_iff (t : SuperNodeTree) :
    clDeadEmpty t = true ↔
      ((∀ c, c < t.snode.size → c ∈ t.snodePost.toList → (t.sn c).toList ≠ []) ∧
       (∀ c, c < t.snode.size → c ∉ t.snodePost.toList → (t.sn c).toList = [] ∧ (t.sp c).toList = [])) := by
  unfold clDeadEmpty
  rw [List.all_eq_true]
  constructor
  · intro h
    refine ⟨fun c hc hl => ?_, fun c hc hl => ?_⟩
    · have h1 := h c (List.mem_range.2 hc)
      rw [if_pos ((liveB_iff t c).2 hl)] at h1
      intro he
      simp [← Array.toList_eq_nil_iff, he] at h1
    · have h1 := h c (List.mem_range.2 hc)
      have hnl : ¬ t.liveB c = true := fun hh => hl ((liveB_iff t c).1 hh)
      rw [if_neg hnl] at h1
      simpa [Array.isEmpty_iff, ← Array.toList_eq_nil_iff] using h1
  · rintro ⟨h1, h2⟩ c hc
    have hc := List.mem_range.1 hc
    by_cases hl : t.liveB c = true
    · rw [if_pos hl]
      have := h1 c hc ((liveB_iff t c).1 hl)
      simpa [Array.isEmpty_iff, ← Array.toList_eq_nil_iff] using this
    · rw [if_neg hl]
      have := h2 c hc (fun hh => hl ((liveB_iff t c).2 hh))
      simpa [Array.isEmpty_iff, ← Array.toList_eq_nil_iff] using this

/-- [S] clause `snode-consecutive` -/
theorem clConsecutive_iff (t : SuperNodeTree) :
    clConsecutive t = true ↔ ∀ i, i < t.nCliques →
      (t.sn (t.postAt i)).toList.Perm (List.range' (t.offset i) (t.sn (t.postAt i)).size) := by
  unfold clConsecutive
  rw [List.all_eq_true]
  constructor
  · intro h i hi
    have h1 := h i (List.mem_range.2 hi)
    rw [beq_iff_eq, sort_eq_iff_perm _ _ (range'_pairwise_le _ _)] at h1
    exact h1
  · intro h i hi
    rw [beq_iff_eq, sort_eq_iff_perm _ _ (range'_pairwise_le _ _)]
    exact h i (List.mem_range.1 hi)

/-- [S] clause `snode-cover` -/
theorem clCoverAll_iff (n : Nat) (t : SuperNodeTree) :
    clCoverAll n t = true ↔ t.offset t.nCliques = n := by
  simp [clCoverAll]

/-- [S] clause `clique-disjoint-range` -/
theorem clCliques_iff (n : Nat) (t : SuperNodeTree) :
    clCliques n t = true ↔
      ((∀ c, c < t.snode.size → (t.cliqueL c).Nodup) ∧
       (∀ c, c < t.snode.size → ∀ v ∈ t.cliqueL c, v < n)) := by
  unfold clCliques
  rw [List.all_eq_true]
  simp only [List.mem_range, Bool.and_eq_true, nodupB_iff, List.all_eq_true, decide_eq_true_eq]
  exact ⟨fun h => ⟨fun c hc => (h c hc).1, fun c hc => (h c hc).2⟩,
         fun h c hc => ⟨h.1 c hc, h.2 c hc⟩⟩

/-- [S] clause `one-root` -/
theorem clOneRoot_iff (t : SuperNodeTree) :
    clOneRoot t = true ↔ ∃! r, r < t.snode.size ∧ r ∈ t.snodePost.toList ∧ t.par r = noParent := by
  unfold clOneRoot rootsL
  rw [beq_iff_eq, filter_range_length_one_iff]
  simp only [Bool.and_eq_true, liveB_iff, beq_iff_eq]

/-- [S] clause `root-last` -/
theorem clRootLast_iff (t : SuperNodeTree) :
    clRootLast t = true ↔
      (t.root < t.snode.size ∧ t.root ∈ t.snodePost.toList ∧ t.par t.root = noParent) := by
  unfold clRootLast rootsL
  rw [List.contains_iff_mem, List.mem_filter, List.mem_range]
  simp only [Bool.and_eq_true, liveB_iff, beq_iff_eq]

/-- [S] clause `parent-live-later` (positions compared with `idxOf`; needs the post-order to be repetition-free) -/
theorem clParents_iff (t : SuperNodeTree) (hnd : t.snodePost.toList.Nodup) :
    clParents t = true ↔
      ∀ c, c < t.snode.size → c ∈ t.snodePost.toList → c ≠ t.root →
        t.par c < t.snode.size ∧
          ∃ i j : Nat, i < j ∧ t.snodePost.toList[i]? = some c ∧ t.snodePost.toList[j]? = some (t.par c) := by
  unfold clParents
  rw [List.all_eq_true]
  constructor
  · intro h c hc hl hr
    have h1 := h c (List.mem_range.2 hc)
    simp only [Bool.or_eq_true, Bool.not_eq_true', Bool.and_eq_true, decide_eq_true_eq, beq_iff_eq,
      liveB_iff] at h1
    rcases h1 with (h1 | h1) | h1
    · exact absurd ((liveB_iff t c).2 hl) (by simp [h1])
    · exact absurd h1 hr
    · exact ⟨h1.1.1, (idxOf_lt_iff hnd hl).1 ⟨h1.1.2, h1.2⟩⟩
  · intro h c hc
    have hc := List.mem_range.1 hc
    simp only [Bool.or_eq_true, Bool.not_eq_true', Bool.and_eq_true, decide_eq_true_eq, beq_iff_eq,
      liveB_iff]
    by_cases hl : c ∈ t.snodePost.toList
    · by_cases hr : c = t.root
      · exact Or.inl (Or.inr hr)
      · obtain ⟨hp, hex⟩ := h c hc hl hr
        have := (idxOf_lt_iff hnd hl).2 hex
        exact Or.inr ⟨⟨hp, this.1⟩, this.2⟩
    · refine Or.inl (Or.inl ?_)
      cases hb : t.liveB c with
      | false => rfl
      | true => exact absurd ((liveB_iff t c).1 hb) hl

/-- [S] clause `separator-intersection` -/
theorem clSeparators_iff (t : SuperNodeTree) :
    clSeparators t = true ↔
      ∀ c, c < t.snode.size → c ∈ t.snodePost.toList → c ≠ t.root →
        ∀ v, v ∈ (t.sp c).toList ↔ (v ∈ t.cliqueL c ∧ v ∈ t.cliqueL (t.par c)) := by
  unfold clSeparators
  rw [List.all_eq_true]
  simp only [List.mem_range, Bool.or_eq_true, Bool.not_eq_true', Bool.and_eq_true, beq_iff_eq,
    List.all_eq_true, List.contains_iff_mem]
  constructor
  · intro h c hc hl hr v
    rcases h c hc with (h1 | h1) | h1
    · exact absurd ((liveB_iff t c).2 hl) (by simp [h1])
    · exact absurd h1 hr
    · constructor
      · intro hv
        exact h1.1 v hv
      · rintro ⟨hv1, hv2⟩
        rcases h1.2 v hv1 with h3 | h3
        · exact absurd hv2 (by simpa using h3)
        · exact h3
  · intro h c hc
    by_cases hl : c ∈ t.snodePost.toList
    · by_cases hr : c = t.root
      · exact Or.inl (Or.inr hr)
      · refine Or.inr ⟨fun v hv => (h c hc hl hr v).1 hv, fun v hv => ?_⟩
        by_cases hp : v ∈ t.cliqueL (t.par c)
        · exact Or.inr ((h c hc hl hr v).2 ⟨hv, hp⟩)
        · exact Or.inl (by simpa using hp)
    · refine Or.inl (Or.inl ?_)
      cases hb : t.liveB c with
      | false => rfl
      | true => exact absurd ((liveB_iff t c).1 hb) hl

/-- [S] clause `root-separator` -/
theorem clRootSep_iff (t : SuperNodeTree) : clRootSep t = true ↔ (t.sp t.root).toList = [] := by
  simp [clRootSep, Array.isEmpty_iff, ← Array.toList_eq_nil_iff]

/-- [S] clause `children` -/
theorem clChildren_iff (t : SuperNodeTree) :
    clChildren t = true ↔
      (t.snodeChildren.size = t.snode.size →
        ∀ c, c < t.snode.size → c ∈ t.snodePost.toList →
          ∀ d, d ∈ (t.ch c).toList ↔ (d < t.snode.size ∧ d ∈ t.snodePost.toList ∧ t.par d = c)) := by
  unfold clChildren
  simp only [Bool.or_eq_true, bne_iff_ne, ne_eq, List.all_eq_true, List.mem_range, Bool.not_eq_true',
    Bool.and_eq_true, decide_eq_true_eq, beq_iff_eq, List.contains_iff_mem]
  constructor
  · intro h hsz c hc hl d
    rcases h with h | h
    · exact absurd hsz h
    · rcases h c hc with h1 | h1
      · exact absurd ((liveB_iff t c).2 hl) (by simp [h1])
      · constructor
        · intro hd
          have := h1.1 d hd
          exact ⟨this.1.1, (liveB_iff t d).1 this.1.2, this.2⟩
        · rintro ⟨hd, hdl, hdp⟩
          rcases h1.2 d hd with h3 | h3
          · have h4 : (t.par d == c && t.liveB d) = true := by
              simp [(liveB_iff t d).2 hdl, hdp]
            rw [h3] at h4
            exact absurd h4 (by simp)
          · exact h3
  · intro h
    by_cases hsz : t.snodeChildren.size = t.snode.size
    · refine Or.inr (fun c hc => ?_)
      by_cases hl : c ∈ t.snodePost.toList
      · refine Or.inr ⟨fun d hd => ?_, fun d hd => ?_⟩
        · have := (h hsz c hc hl d).1 hd
          exact ⟨⟨this.1, (liveB_iff t d).2 this.2.1⟩, this.2.2⟩
        · cases hq : (t.par d == c && t.liveB d) with
          | true =>
            simp only [Bool.and_eq_true, beq_iff_eq] at hq
            exact Or.inr ((h hsz c hc hl d).2 ⟨hd, (liveB_iff t d).1 hq.2, hq.1⟩)
          | false => exact Or.inl rfl
      · refine Or.inl ?_
        cases hb : t.liveB c with
        | false => rfl
        | true => exact absurd ((liveB_iff t c).1 hb) hl
    · exact Or.inl hsz

/-- [S] clause `running-intersection` -/
theorem clRunning_iff (n : Nat) (t : SuperNodeTree) :
    clRunning n t = true ↔
      ∀ v, v < n → ∃! c, c < t.snode.size ∧ c ∈ t.snodePost.toList ∧ v ∈ t.cliqueL c ∧
        (c = t.root ∨ v ∉ t.cliqueL (t.par c)) := by
  unfold clRunning topsL
  rw [List.all_eq_true]
  simp only [List.mem_range, beq_iff_eq, filter_range_length_one_iff, Bool.and_eq_true, liveB_iff,
    List.contains_iff_mem, Bool.or_eq_true, Bool.not_eq_true', and_assoc]
  have key : ∀ v c, (c < t.snode.size ∧ v ∈ t.cliqueL c ∧ c ∈ t.snodePost.toList ∧
        (c = t.root ∨ (t.cliqueL (t.par c)).contains v = false)) ↔
      (c < t.snode.size ∧ c ∈ t.snodePost.toList ∧ v ∈ t.cliqueL c ∧
        (c = t.root ∨ v ∉ t.cliqueL (t.par c))) := by
    intro v c
    have e : (t.cliqueL (t.par c)).contains v = false ↔ v ∉ t.cliqueL (t.par c) := by simp
    rw [e]
    exact ⟨fun h => ⟨h.1, h.2.2.1, h.2.1, h.2.2.2⟩, fun h => ⟨h.1, h.2.2.1, h.2.1, h.2.2.2⟩⟩
  simp only [key]

/-- [S] clause `nblk` -/
theorem clNblk_iff (t : SuperNodeTree) :
    clNblk t = true ↔
      ∃ nb, t.nblk = some nb ∧ nb.size = t.nCliques ∧
        ∀ i, i < t.nCliques → nb.getD i 0 = (t.cliqueL (t.postAt i)).length := by
  unfold clNblk
  cases hnb : t.nblk with
  | none => simp
  | some nb =>
    simp only [Bool.and_eq_true, beq_iff_eq, List.all_eq_true, List.mem_range, Option.some.injEq,
      exists_eq_left']

/-- [S] clause `coverage` -/
theorem clCoverage_iff (edges : List (Nat × Nat)) (t : SuperNodeTree) (ordering : Array Nat) :
    clCoverage edges t ordering = true ↔
      ∀ e ∈ edges, ∃ c, c < t.snode.size ∧ c ∈ t.snodePost.toList ∧
        (∃ a ∈ t.cliqueL c, ordering[a]? = some e.1) ∧ (∃ b ∈ t.cliqueL c, ordering[b]? = some e.2) := by
  unfold clCoverage
  simp only [List.all_eq_true, List.any_eq_true, List.mem_range, Bool.and_eq_true, liveB_iff,
    beq_iff_eq, and_assoc]
  constructor
  · intro h e he
    obtain ⟨c, h1, h2, h3, h4⟩ := h e he
    exact ⟨c, h1, h4, h2, h3⟩
  · intro h e he
    obtain ⟨c, h1, h2, h3, h4⟩ := h e he
    exact ⟨c, h1, h3, h4, h2⟩

/-! ### assembly -/

/-- [S] the checker accepts iff every clause of the applicable case holds -/
theorem validCliqueTreeB_iff_clauses (n : Nat) (edges : List (Nat × Nat)) (t : SuperNodeTree)
    (ordering : Array Nat) :
    validCliqueTreeB n edges t ordering = true ↔
      ∀ p ∈ validClauses n edges t ordering, p.2 = true := by
  unfold validCliqueTreeB validCliqueTreeWhy
  rw [Option.isNone_map, Option.isNone_iff_eq_none, List.find?_eq_none]
  simp

/-- [S] `validCliqueTreeB` is `validCliqueTreeWhy = none` -/
theorem validCliqueTreeB_eq_why (n : Nat) (edges : List (Nat × Nat)) (t : SuperNodeTree)
    (ordering : Array Nat) :
    validCliqueTreeB n edges t ordering = (validCliqueTreeWhy n edges t ordering == none) := by
  unfold validCliqueTreeB
  cases validCliqueTreeWhy n edges t ordering <;> rfl

/-- [S] the common clauses -/
theorem validCommon_iff (n : Nat) (t : SuperNodeTree) (ordering : Array Nat) :
    (∀ p ∈ clausesCommon n t ordering, p.2 = true) ↔ ValidCommon n t ordering := by
  simp only [clausesCommon, List.mem_cons, List.not_mem_nil, or_false, forall_eq_or_imp, forall_eq,
    clOrderingPerm_iff, clSizes_iff]
  exact ⟨fun ⟨h1, h2, h3, h4, h5⟩ => ⟨h1, h2, h3, h4, h5⟩,
         fun h => ⟨h.1, h.2, h.3, h.4, h.5⟩⟩

/-- [S] the clauses of the single-clique case -/
theorem validSingle_iff (n : Nat) (t : SuperNodeTree) :
    (∀ p ∈ clausesSingle n t, p.2 = true) ↔ ValidSingle n t := by
  simp only [clausesSingle, List.mem_cons, List.not_mem_nil, or_false, forall_eq_or_imp, forall_eq,
    clSingleIndex_iff, clSingleAll_iff]
  exact ⟨fun ⟨h1, h2⟩ => ⟨h1, h2⟩, fun h => ⟨h.1, h.2⟩⟩

/-- [S] the clauses of the proper-tree case -/
theorem validMulti_iff (n : Nat) (edges : List (Nat × Nat)) (t : SuperNodeTree) (ordering : Array Nat) :
    (∀ p ∈ clausesMulti n edges t ordering, p.2 = true) ↔ ValidMulti n edges t ordering := by
  simp only [clausesMulti, List.mem_cons, List.not_mem_nil, or_false, forall_eq_or_imp, forall_eq,
    clPostDistinct_iff, clDeadEmpty_iff, clConsecutive_iff, clCoverAll_iff, clCliques_iff,
    clOneRoot_iff, clRootLast_iff, clSeparators_iff, clRootSep_iff, clChildren_iff, clRunning_iff,
    clNblk_iff, clCoverage_iff]
  constructor
  · rintro ⟨⟨h1, h2⟩, ⟨h3, h4⟩, h5, h6, ⟨h7, h8⟩, h9, h10, h11, h12, h13, h14, h15, h16, h17⟩
    exact ⟨h1, h2, h3, h4, h5, h6, h7, h8, h9, h10, (clParents_iff t h1).1 h11, h12, h13, h14, h15,
      h16, h17⟩
  · intro h
    exact ⟨⟨h.1, h.2⟩, ⟨h.3, h.4⟩, h.5, h.6, ⟨h.7, h.8⟩, h.9, h.10, (clParents_iff t h.1).2 h.11,
      h.12, h.13, h.14, h.15, h.16, h.17⟩

/-- [S] **the executable checker decides validity of the clique tree** -/
theorem validCliqueTreeB_iff (n : Nat) (edges : List (Nat × Nat)) (t : SuperNodeTree)
    (ordering : Array Nat) :
    validCliqueTreeB n edges t ordering = true ↔ ValidCliqueTree n edges t ordering := by
  rw [validCliqueTreeB_iff_clauses]
  unfold validClauses
  rw [List.forall_mem_append, validCommon_iff]
  by_cases h1 : t.nCliques = 1
  · rw [if_pos (by simp [h1]), validSingle_iff]
    exact ⟨fun h => ⟨h.1, Or.inl ⟨h1, h.2⟩⟩,
           fun h => ⟨h.common, h.split.elim (fun hh => hh.2) (fun hh => absurd h1 hh.1)⟩⟩
  · rw [if_neg (by simp [h1]), validMulti_iff]
    exact ⟨fun h => ⟨h.1, Or.inr ⟨h1, h.2⟩⟩,
           fun h => ⟨h.common, h.split.elim (fun hh => absurd hh.1 h1) (fun hh => hh.2)⟩⟩

/-- [S] a rejected tree comes with the name of a clause that fails -/
theorem validCliqueTreeWhy_some (n : Nat) (edges : List (Nat × Nat)) (t : SuperNodeTree)
    (ordering : Array Nat) (w : String) (h : validCliqueTreeWhy n edges t ordering = some w) :
    (w, false) ∈ validClauses n edges t ordering := by
  unfold validCliqueTreeWhy at h
  obtain ⟨p, hp, hw⟩ := Option.map_eq_some_iff.1 h
  have h1 := List.find?_some hp
  have h2 := List.mem_of_find?_eq_some hp
  have h3 : p.2 = false := by simpa using h1
  have : p = (w, false) := by
    cases p
    simp_all
  exact this ▸ h2

/-- [S] the coverage clause in the oracle's form: with `inv` the inverse of the permutation
    `ordering` (`inv i = ordering.idxOf i`), "some vertex of the clique stands for `i`" is
    `inv i ∈ clique` -/
theorem coverage_inv (ordering : Array Nat) (hnd : ordering.toList.Nodup) (i : Nat)
    (hi : i ∈ ordering.toList) (cl : List Nat) :
    (∃ a ∈ cl, ordering[a]? = some i) ↔ ordering.toList.idxOf i ∈ cl := by
  constructor
  · rintro ⟨a, ha, hai⟩
    rw [← Array.getElem?_toList] at hai
    obtain ⟨hal, hai'⟩ := List.getElem?_eq_some_iff.1 hai
    have : ordering.toList.idxOf i = a := by rw [← hai']; exact hnd.idxOf_getElem a hal
    exact this ▸ ha
  · intro h
    have hl := List.idxOf_lt_length_of_mem hi
    refine ⟨_, h, ?_⟩
    rw [← Array.getElem?_toList, List.getElem?_eq_getElem hl, List.getElem_idxOf hl]

/-! ### consequences of validity -/

theorem offset_succ_le (t : SuperNodeTree) (i : Nat) : t.offset i ≤ t.offset (i + 1) := by
  unfold offset
  rw [List.take_add_one]
  simp

/-- [S] the next offset adds the size of the supernode -/
theorem offset_succ (t : SuperNodeTree) (i : Nat) (hi : i < t.snodePost.size) :
    t.offset (i + 1) = t.offset i + (t.sn (t.postAt i)).size := by
  unfold offset postAt
  rw [List.take_add_one]
  have : t.snodePost.toList[i]? = some (t.snodePost.getD i 0) := by
    simp [Array.getD, hi]
  simp [this]

/-- [S] offsets are monotone -/
theorem offset_mono (t : SuperNodeTree) {i j : Nat} (h : i ≤ j) : t.offset i ≤ t.offset j := by
  induction j with
  | zero => simp_all
  | succ j ih =>
    rcases Nat.lt_or_ge i (j + 1) with h1 | h1
    · exact Nat.le_trans (ih (by omega)) (offset_succ_le t j)
    · have : i = j + 1 := by omega
      subst this; exact Nat.le_refl _

/-- [S] a number below an offset lies in one of the blocks before it -/
theorem offset_exists_block (t : SuperNodeTree) (v : Nat) :
    ∀ m, v < t.offset m → ∃ i, i < m ∧ t.offset i ≤ v ∧ v < t.offset (i + 1) := by
  intro m
  induction m with
  | zero => intro h; simp [offset] at h
  | succ m ih =>
    intro h
    by_cases h1 : v < t.offset m
    · obtain ⟨i, hi, h2⟩ := ih h1
      exact ⟨i, by omega, h2⟩
    · exact ⟨m, by omega, by omega, h⟩

/-- [S] membership in the supernode of the `i`-th clique of the post-order -/
theorem ValidMulti.mem_snode_iff {n : Nat} {edges : List (Nat × Nat)} {t : SuperNodeTree}
    {ordering : Array Nat} (hc : ValidCommon n t ordering) (h : ValidMulti n edges t ordering)
    {i : Nat} (hi : i < t.nCliques) (v : Nat) :
    v ∈ (t.sn (t.postAt i)).toList ↔ (t.offset i ≤ v ∧ v < t.offset (i + 1)) := by
  rw [(h.consecutive i hi).mem_iff, List.mem_range', offset_succ t i (by rw [hc.post_size]; exact hi)]
  constructor
  · rintro ⟨k, hk, rfl⟩
    omega
  · intro hv
    exact ⟨v - t.offset i, by omega, by omega⟩

/-- [S] the supernodes of the live cliques partition the vertices `0..n` -/
theorem ValidMulti.snode_partition {n : Nat} {edges : List (Nat × Nat)} {t : SuperNodeTree}
    {ordering : Array Nat} (hc : ValidCommon n t ordering) (h : ValidMulti n edges t ordering)
    (v : Nat) (hv : v < n) :
    ∃! c, c ∈ t.snodePost.toList ∧ v ∈ (t.sn c).toList := by
  have hlen : t.snodePost.toList.length = t.nCliques := by
    rw [Array.length_toList]; exact hc.post_size
  have hat : ∀ i, i < t.nCliques → t.snodePost.toList[i]? = some (t.postAt i) := by
    intro i hi
    have : i < t.snodePost.size := by rw [hc.post_size]; exact hi
    simp [postAt, Array.getD, this]
  obtain ⟨i, hi, hlo, hhi⟩ := offset_exists_block t v t.nCliques (by rw [h.cover]; exact hv)
  refine ⟨t.postAt i, ⟨List.mem_of_getElem? (hat i hi), (h.mem_snode_iff hc hi v).2 ⟨hlo, hhi⟩⟩, ?_⟩
  rintro c ⟨hcl, hcv⟩
  obtain ⟨j, hj, hjc⟩ := List.getElem_of_mem hcl
  have hj' : j < t.nCliques := hlen ▸ hj
  have hcj : c = t.postAt j := by
    have := hat j hj'
    rw [List.getElem?_eq_getElem hj, hjc] at this
    exact Option.some.inj this
  subst hcj
  obtain ⟨hlo', hhi'⟩ := (h.mem_snode_iff hc hj' v).1 hcv
  rcases Nat.lt_trichotomy i j with hij | hij | hij
  · have := offset_mono t (show i + 1 ≤ j by omega); omega
  · rw [hij]
  · have := offset_mono t (show j + 1 ≤ i by omega); omega

/-- `c` climbs to `top` along parent pointers through cliques that all contain `v` -/
inductive ClimbsIn (t : SuperNodeTree) (v top : Nat) : Nat → Prop
  | top : v ∈ t.cliqueL top → ClimbsIn t v top top
  | step {c : Nat} : v ∈ t.cliqueL c → ClimbsIn t v top (t.par c) → ClimbsIn t v top c

/-- [S] running intersection in its connected-subtree form: the cliques that contain a vertex
`v` all climb, through cliques containing `v`, to one and the same clique `top` -/
theorem ValidMulti.running_connected {n : Nat} {edges : List (Nat × Nat)} {t : SuperNodeTree}
    {ordering : Array Nat} (h : ValidMulti n edges t ordering) (v : Nat) (hv : v < n) :
    ∃ top, top ∈ t.snodePost.toList ∧ v ∈ t.cliqueL top ∧
      (top = t.root ∨ v ∉ t.cliqueL (t.par top)) ∧
      ∀ c, c ∈ t.snodePost.toList → v ∈ t.cliqueL c → ClimbsIn t v top c := by
  obtain ⟨top, ⟨_, htl, htv, htt⟩, huniq⟩ := h.running v hv
  refine ⟨top, htl, htv, htt, ?_⟩
  have key : ∀ m c, c ∈ t.snodePost.toList → v ∈ t.cliqueL c →
      t.snodePost.toList.length - t.snodePost.toList.idxOf c ≤ m → ClimbsIn t v top c := by
    intro m
    induction m with
    | zero =>
      intro c hcl _ hm
      have := List.idxOf_lt_length_of_mem hcl
      omega
    | succ m ih =>
      intro c hcl hcv hm
      by_cases hct : c = top
      · subst hct
        exact ClimbsIn.top hcv
      · have hck := h.post_lt c hcl
        have hnot : ¬ (c = t.root ∨ v ∉ t.cliqueL (t.par c)) :=
          fun hh => hct (huniq c ⟨hck, hcl, hcv, hh⟩)
        have hcr : c ≠ t.root := fun hh => hnot (Or.inl hh)
        have hpv : v ∈ t.cliqueL (t.par c) := by
          by_contra hh
          exact hnot (Or.inr hh)
        obtain ⟨_, hex⟩ := h.parent_live_later c hck hcl hcr
        obtain ⟨hpl, hlt⟩ := (idxOf_lt_iff h.post_nodup hcl).2 hex
        have := List.idxOf_lt_length_of_mem hpl
        exact ClimbsIn.step hcv (ih (t.par c) hpl hpv (by omega))
  intro c hcl hcv
  exact key _ c hcl hcv (Nat.le_refl _)

/-! ### non-vacuity: a valid and an invalid tree -/

/-- The clique tree of the path graph `0 – 1 – 2` (pattern entries `(0,1)`, `(1,2)`) exactly
as the model produces it: `find_graph` returns `L = {n := 3, colptr := #[0,1,2,2],
rowval := #[2,2]}`, AMD ordering `#[2,0,1]`, and `sparsityPatternNewAll L #[2,0,1] "none"`
evaluates to `.ok (exValidTree, #[0,2,1])`
(`echo "analysis n=3 colptr=0,1,2,2 rowval=2,2 ordering=2,0,1 merge=none ei=0,1 ej=1,2" | cm_c17`):
cliques `{1,2}` (root) and `{0 | 2}`, i.e. `{2,1}` and `{0,1}` in original coordinates. -/
def exValidTree : SuperNodeTree :=
  { snode := #[#[1, 2], #[0]], snodePost := #[1, 0], snodeParent := #[noParent, 0],
    snodeChildren := #[#[1], #[]], post := #[0, 1, 2], separators := #[#[], #[2]],
    nblk := some #[2, 2], nCliques := 2 }

/-- the checker accepts the model's tree of the path graph -/
theorem exValidTree_ok : validCliqueTreeB 3 [(0, 1), (1, 2)] exValidTree #[0, 2, 1] = true := by
  have hc : clConsecutive exValidTree = true := by rw [clConsecutive_iff]; decide
  rw [validCliqueTreeB_iff_clauses]
  unfold validClauses
  rw [if_neg (by decide)]
  simp only [clausesCommon, clausesMulti, List.cons_append, List.nil_append, List.mem_cons,
    List.not_mem_nil, or_false, forall_eq_or_imp, forall_eq]
  repeat' apply And.intro
  all_goals first | exact hc | decide

/-- `ValidCliqueTree` is inhabited (non-vacuity of `validCliqueTreeB_iff`, direction →) -/
example : ValidCliqueTree 3 [(0, 1), (1, 2)] exValidTree #[0, 2, 1] :=
  (validCliqueTreeB_iff _ _ _ _).1 exValidTree_ok

/-- the same tree with a wrong separator on the root: clique `{1,2,0}`, child clique `{0,2}`,
so that the child's separator `{2}` is not clique ∩ parent clique `= {0,2}` -/
def exBadSeparatorTree : SuperNodeTree := { exValidTree with separators := #[#[0], #[2]] }

/-- the checker rejects it and names the clause -/
example : validCliqueTreeWhy 3 [(0, 1), (1, 2)] exBadSeparatorTree #[0, 2, 1] =
    some "separator-intersection" := by
  have hc : clConsecutive exBadSeparatorTree = true := by rw [clConsecutive_iff]; decide
  have e1 : clOrderingPerm 3 #[0, 2, 1] = true := by decide
  have e2 : clSizes exBadSeparatorTree = true := by decide
  have e3 : clPostDistinct exBadSeparatorTree = true := by decide
  have e4 : clDeadEmpty exBadSeparatorTree = true := by decide
  have e5 : clCoverAll 3 exBadSeparatorTree = true := by decide
  have e6 : clCliques 3 exBadSeparatorTree = true := by decide
  have e7 : clOneRoot exBadSeparatorTree = true := by decide
  have e8 : clRootLast exBadSeparatorTree = true := by decide
  have e9 : clParents exBadSeparatorTree = true := by decide
  have e10 : clSeparators exBadSeparatorTree = false := by decide
  have hn : (exBadSeparatorTree.nCliques == 1) = false := by decide
  simp [validCliqueTreeWhy, validClauses, clausesCommon, clausesMulti, hc, e1, e2, e3, e4, e5, e6,
    e7, e8, e9, e10, hn]

theorem exBadSeparatorTree_rejected :
    validCliqueTreeB 3 [(0, 1), (1, 2)] exBadSeparatorTree #[0, 2, 1] = false := by
  have e10 : clSeparators exBadSeparatorTree = false := by decide
  have hn : (exBadSeparatorTree.nCliques == 1) = false := by decide
  cases hB : validCliqueTreeB 3 [(0, 1), (1, 2)] exBadSeparatorTree #[0, 2, 1] with
  | false => rfl
  | true =>
    have h := (validCliqueTreeB_iff_clauses _ _ _ _).1 hB
      ("separator-intersection", clSeparators exBadSeparatorTree)
      (by simp [validClauses, clausesMulti, hn])
    rw [e10] at h
    exact absurd h (by decide)

/-- ... hence it is not a valid clique tree (direction ← of `validCliqueTreeB_iff`) -/
example : ¬ ValidCliqueTree 3 [(0, 1), (1, 2)] exBadSeparatorTree #[0, 2, 1] := fun h => by
  have := (validCliqueTreeB_iff _ _ _ _).2 h
  rw [exBadSeparatorTree_rejected] at this
  exact absurd this (by decide)

/-- the valid example is a proper clique tree (two cliques) ... -/
theorem exValidTree_multi : ValidCommon 3 exValidTree #[0, 2, 1] ∧
    ValidMulti 3 [(0, 1), (1, 2)] exValidTree #[0, 2, 1] := by
  have h := (validCliqueTreeB_iff _ _ _ _).1 exValidTree_ok
  refine ⟨h.common, h.split.elim (fun hh => ?_) (fun hh => hh.2)⟩
  exact absurd hh.1 (by decide)

/-- ... so the hypotheses of `snode_partition` / `running_connected` can be met -/
example : ∃! c, c ∈ exValidTree.snodePost.toList ∧ 2 ∈ (exValidTree.sn c).toList :=
  exValidTree_multi.2.snode_partition exValidTree_multi.1 2 (by decide)

example : ∃ top, top ∈ exValidTree.snodePost.toList ∧ 2 ∈ exValidTree.cliqueL top ∧
    (top = exValidTree.root ∨ 2 ∉ exValidTree.cliqueL (exValidTree.par top)) ∧
    ∀ c, c ∈ exValidTree.snodePost.toList → 2 ∈ exValidTree.cliqueL c → ClimbsIn exValidTree 2 top c :=
  exValidTree_multi.2.running_connected 2 (by decide)

end Clarabel.Chordal
