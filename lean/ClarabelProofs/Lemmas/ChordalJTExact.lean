/-
  Clique-graph merge strategy, EXACTNESS OF THE CLIQUE GRAPH SURVIVES A PERMISSIBLE MERGE
  (`JT.ExactContractSpec` of `ChordalCGExactDefs.lean`).  Abstract graph theory on lists; nothing
  here depends on the model.

  A clique family `cl` on the duplicate-free index list `L` has a junction tree `J`; `adj` is
  symmetric and EXACTLY the separating-pair relation `JT.SepPair cl L` (the reduced clique graph);
  `a — b` is an edge of `adj` and the merge is permissible (`JT.Perm`).  Then the contracted adjacency
  `JT.contractAdj adj a b` is exactly the separating-pair relation of the merged family
  `JT.mergeCl cl a b` on `L.erase b`.

  Vocabulary of this file (`S = C_a ∩ C_b`):
  * `JT.lvl cl x y`          : the set `C_x ∩ C_y` as a predicate;
  * `JT.HLinkS cl L T p q`   : the link relation "at level `T`" (`HLink cl L a b = HLinkS cl L (lvl cl a b)`),
                               `JT.Ch cl L T` its reflexive-transitive closure;
  * `JT.Kiso cl L u w`       : `u` is ISOLATED AT LEVEL `C_u ∩ C_w`: a clique `p ≠ u` that contains
                               `C_u ∩ C_w` meets `C_u` inside `C_w`;
  * `JT.Sides cl L u w A`    : the two sides `A` / `¬ A` of a junction tree through `u — w`, with the
                               crossing property, and both ends isolated.

  Theorems:
  * `JT.perm_iso`            : a permissible merge along a separating pair isolates `a` (maximiser
                               argument on `|C_a ∩ C_n|`);
  * `JT.sides_exist`         : the sides of a junction tree through a separating pair (exchange lemma
                               `swap_spec` + `not_conn_removed`) and the CROSSING LEMMA;
  * `JT.ch_ren`              : chains of the old family map to chains of the merged family;
  * `JT.ch_back`             : chains of the merged family lift to chains of the old family (ending in
                               `a` or in `b` when they reach the merged clique);
  * `JT.ch_merge_other`, `JT.ch_merge_a` : the resulting equivalences, at ANY level;
  * `JT.Sides.caseII`        : at a clique `x` on the side of `u`:
                               `SepPair x u ∨ SepPair x w ↔` no chain at level `C_x ∩ C_u` to `u` or `w`;
  * `JT.exact_contract`      : **`JT.ExactContractSpec`**.
  All theorems here are class [S].
-/
import ClarabelProofs.Lemmas.ChordalCGExactDefs

namespace Clarabel.Chordal
open Clarabel

namespace JT

/-! ## links and chains at a level given as a predicate -/

/-- the set `C_x ∩ C_y` -/
def lvl (cl : Nat → Nat → Bool) (x y : Nat) : Nat → Prop := fun v => cl x v = true ∧ cl y v = true

/-- `p ≠ q` are cliques of `L` that both contain the set `T` and meet in a vertex outside `T` -/
def HLinkS (cl : Nat → Nat → Bool) (L : List Nat) (T : Nat → Prop) (p q : Nat) : Prop :=
  p ∈ L ∧ q ∈ L ∧ p ≠ q ∧ (∀ v, T v → cl p v = true ∧ cl q v = true) ∧
  ∃ v, cl p v = true ∧ cl q v = true ∧ ¬ T v

/-- a chain of links at level `T` -/
abbrev Ch (cl : Nat → Nat → Bool) (L : List Nat) (T : Nat → Prop) : Nat → Nat → Prop :=
  Relation.ReflTransGen (HLinkS cl L T)

/-- [S] monotonicity of the reflexive-transitive closure -/
theorem rtg_mono {r r' : Nat → Nat → Prop} (h : ∀ p q, r p q → r' p q) {x y : Nat}
    (hc : Relation.ReflTransGen r x y) : Relation.ReflTransGen r' x y := by
  induction hc with
  | refl => exact .refl
  | tail _ hbc ih => exact Relation.ReflTransGen.tail ih (h _ _ hbc)

/-- [S] the link relation of a pair is the link relation at the level of the pair -/
theorem hlink_iff {cl : Nat → Nat → Bool} {L : List Nat} {a b p q : Nat} :
    HLink cl L a b p q ↔ HLinkS cl L (lvl cl a b) p q := by
  constructor
  · rintro ⟨h1, h2, h3, h4, v, h5, h6, h7⟩
    exact ⟨h1, h2, h3, fun v hv => h4 v hv.1 hv.2, v, h5, h6, h7⟩
  · rintro ⟨h1, h2, h3, h4, v, h5, h6, h7⟩
    exact ⟨h1, h2, h3, fun v h1 h2 => h4 v ⟨h1, h2⟩, v, h5, h6, h7⟩

/-- [S] a separating pair: no chain at the level of the pair joins its ends -/
theorem sepPair_iff {cl : Nat → Nat → Bool} {L : List Nat} {a b : Nat} :
    SepPair cl L a b ↔ ¬ Ch cl L (lvl cl a b) a b := by
  unfold SepPair Ch
  exact not_congr ⟨rtg_mono (fun p q h => hlink_iff.1 h), rtg_mono (fun p q h => hlink_iff.2 h)⟩

/-- [S] the level of a link can be replaced by an equal set -/
theorem hlinkS_congr {cl : Nat → Nat → Bool} {L : List Nat} {T T' : Nat → Prop}
    (hT : ∀ v, T v ↔ T' v) {p q : Nat} (h : HLinkS cl L T p q) : HLinkS cl L T' p q := by
  obtain ⟨h1, h2, h3, h4, v, h5, h6, h7⟩ := h
  exact ⟨h1, h2, h3, fun v hv => h4 v ((hT v).2 hv), v, h5, h6, fun hv => h7 ((hT v).2 hv)⟩

/-- [S] the level of a chain can be replaced by an equal set -/
theorem ch_congr {cl : Nat → Nat → Bool} {L : List Nat} {T T' : Nat → Prop}
    (hT : ∀ v, T v ↔ T' v) {x y : Nat} (h : Ch cl L T x y) : Ch cl L T' x y :=
  rtg_mono (fun _ _ hl => hlinkS_congr hT hl) h

/-- [S] links at a level are symmetric -/
theorem hlinkS_symm {cl : Nat → Nat → Bool} {L : List Nat} {T : Nat → Prop} {p q : Nat}
    (h : HLinkS cl L T p q) : HLinkS cl L T q p := by
  obtain ⟨h1, h2, h3, h4, v, h5, h6, h7⟩ := h
  exact ⟨h2, h1, fun hc => h3 hc.symm, fun v hv => ⟨(h4 v hv).2, (h4 v hv).1⟩, v, h6, h5, h7⟩

/-- [S] chains at a level can be reversed -/
theorem ch_symm {cl : Nat → Nat → Bool} {L : List Nat} {T : Nat → Prop} {x y : Nat}
    (h : Ch cl L T x y) : Ch cl L T y x :=
  rtg_symm (fun _ _ hl => hlinkS_symm hl) h

/-- [S] the level of a pair does not depend on its order -/
theorem lvl_comm (cl : Nat → Nat → Bool) (x y v : Nat) : lvl cl x y v ↔ lvl cl y x v :=
  and_comm

/-- [S] `SepPair` is symmetric in its pair -/
theorem sepPair_symm {cl : Nat → Nat → Bool} {L : List Nat} {a b : Nat} (h : SepPair cl L a b) :
    SepPair cl L b a := by
  rw [sepPair_iff] at h ⊢
  exact fun hc => h (ch_congr (lvl_comm cl b a) (ch_symm hc))

/-- [S] a chain that starts inside a set and ends outside has a link leaving the set -/
theorem rtg_cross {r : Nat → Nat → Prop} {A : Nat → Prop} {x z : Nat}
    (h : Relation.ReflTransGen r x z) (hx : A x) (hz : ¬ A z) : ∃ p q, r p q ∧ A p ∧ ¬ A q := by
  induction h with
  | refl => exact absurd hx hz
  | @tail p q _ hpq ih =>
    by_cases hp : A p
    · exact ⟨p, q, hpq, hp, hz⟩
    · exact ih hp

/-! ## counting: a strict version of `length_filter_mono`, and maximisers in a list -/

/-- [S] a filter that accepts everything another one accepts, and one element more, is strictly
longer -/
theorem length_filter_strict {β : Type} (p q : β → Bool) : ∀ l : List β,
    (∀ x ∈ l, p x = true → q x = true) → (∃ x ∈ l, p x = false ∧ q x = true) →
    (l.filter p).length < (l.filter q).length := by
  intro l
  induction l with
  | nil => rintro _ ⟨x, hx, _⟩; simp at hx
  | cons y l ih =>
    intro hm hex
    obtain ⟨x, hx, hpx, hqx⟩ := hex
    have hm' : ∀ x ∈ l, p x = true → q x = true := fun x hx => hm x (List.mem_cons_of_mem _ hx)
    have hle := length_filter_mono p q l hm'
    rcases List.mem_cons.1 hx with hxy | hx
    · rw [hxy] at hpx hqx
      rw [List.filter_cons_of_neg (by simp [hpx]), List.filter_cons_of_pos hqx]
      simp only [List.length_cons]; omega
    · have hlt := ih hm' ⟨x, hx, hpx, hqx⟩
      by_cases hy : p y = true
      · rw [List.filter_cons_of_pos hy, List.filter_cons_of_pos (hm y List.mem_cons_self hy)]
        simp only [List.length_cons]; omega
      · rw [List.filter_cons_of_neg hy]
        by_cases hqy : q y = true
        · rw [List.filter_cons_of_pos hqy]; simp only [List.length_cons]; omega
        · rw [List.filter_cons_of_neg hqy]; exact hlt

/-- [S] among the members of a list that satisfy `P` (if there is one) some member maximises `f` -/
theorem exists_max (P : Nat → Prop) (f : Nat → Nat) : ∀ l : List Nat, (∃ n ∈ l, P n) →
    ∃ n ∈ l, P n ∧ ∀ p ∈ l, P p → f p ≤ f n := by
  intro l
  induction l with
  | nil => rintro ⟨n, hn, _⟩; simp at hn
  | cons y l ih =>
    intro hex
    by_cases hl : ∃ n ∈ l, P n
    · obtain ⟨n, hn, hPn, hmax⟩ := ih hl
      by_cases hy : P y ∧ f n < f y
      · refine ⟨y, List.mem_cons_self, hy.1, fun p hp hPp => ?_⟩
        rcases List.mem_cons.1 hp with rfl | hp
        · exact Nat.le_refl _
        · have := hmax p hp hPp; omega
      · refine ⟨n, List.mem_cons_of_mem _ hn, hPn, fun p hp hPp => ?_⟩
        rcases List.mem_cons.1 hp with hpy | hp
        · rw [hpy] at hPp ⊢
          by_contra hlt
          exact hy ⟨hPp, by omega⟩
        · exact hmax p hp hPp
    · obtain ⟨n, hn, hPn⟩ := hex
      rcases List.mem_cons.1 hn with hny | hn
      · rw [hny] at hPn
        refine ⟨y, List.mem_cons_self, hPn, fun p hp hPp => ?_⟩
        rcases List.mem_cons.1 hp with rfl | hp
        · exact Nat.le_refl _
        · exact absurd ⟨p, hp, hPp⟩ hl
      · exact absurd ⟨n, hn, hPn⟩ hl

/-! ## (2) permissibility isolates the ends of the merged edge -/

/-- `u` is ISOLATED AT LEVEL `C_u ∩ C_w`: a clique `p ≠ u` that contains `C_u ∩ C_w` meets `C_u`
inside `C_w` (hence inside `C_u ∩ C_w`) -/
def Kiso (cl : Nat → Nat → Bool) (L : List Nat) (u w : Nat) : Prop :=
  ∀ p ∈ L, p ≠ u → (∀ v, cl u v = true → cl w v = true → cl p v = true) →
    ∀ v, cl p v = true → cl u v = true → cl w v = true

/-- the offenders against `Kiso cl L a b` -/
def PSet (cl : Nat → Nat → Bool) (a b p : Nat) : Prop :=
  p ≠ a ∧ (∀ v, cl a v = true → cl b v = true → cl p v = true) ∧
  ∃ v, cl a v = true ∧ cl p v = true ∧ ¬ cl b v = true

/-- [S] an offender `n` with the largest `|C_a ∩ C_n|` forms a separating pair with `a` -/
theorem iso_max_sep {cl : Nat → Nat → Bool} {L : List Nat} {nv : Nat}
    (hnv : ∀ c ∈ L, ∀ v, cl c v = true → v < nv) {a b n : Nat} (ha : a ∈ L)
    (hP : PSet cl a b n)
    (hmax : ∀ p ∈ L, PSet cl a b p → w cl nv (a, p) ≤ w cl nv (a, n)) : SepPair cl L a n := by
  rw [sepPair_iff]
  intro hch
  obtain ⟨hna, hSn, _⟩ := hP
  rcases Relation.ReflTransGen.cases_head hch with h | ⟨q, hlink, _⟩
  · exact hna h.symm
  · obtain ⟨_, hq, haq, hcont, v, hva, hvq, hvT⟩ := hlink
    have hPq : PSet cl a b q :=
      ⟨fun h => haq h.symm, fun v h1 h2 => (hcont v ⟨h1, hSn v h1 h2⟩).2, v, hva, hvq,
        fun hvb => hvT ⟨hva, hSn v hva hvb⟩⟩
    have hle := hmax q hq hPq
    have hnv' : cl n v = false := by
      cases h : cl n v
      · rfl
      · exact absurd ⟨hva, h⟩ hvT
    have hlt : w cl nv (a, n) < w cl nv (a, q) := by
      unfold w
      refine length_filter_strict _ _ _ (fun u _ hu => ?_)
        ⟨v, List.mem_range.2 (hnv a ha v hva), ?_, ?_⟩
      · simp only [both, Bool.and_eq_true] at hu ⊢
        exact hcont u hu
      · simp [both, hnv']
      · simp [both, hva, hvq]
    omega

/-- [S] an offender is not `b` and meets `C_b` inside `C_a` (else `a ~ n ~ b` is a chain at level
`C_a ∩ C_b`) -/
theorem iso_nb {cl : Nat → Nat → Bool} {L : List Nat} {a b n : Nat} (ha : a ∈ L) (hb : b ∈ L)
    (hn : n ∈ L) (hsep : SepPair cl L a b) (hP : PSet cl a b n) :
    n ≠ b ∧ ∀ v, cl n v = true → cl b v = true → cl a v = true := by
  obtain ⟨hna, hSn, v0, hv0a, hv0n, hv0b⟩ := hP
  have hnb : n ≠ b := by
    intro h
    rw [h] at hv0n
    exact hv0b hv0n
  refine ⟨hnb, fun v hvn hvb => ?_⟩
  by_contra hva
  rw [sepPair_iff] at hsep
  have l1 : HLinkS cl L (lvl cl a b) a n :=
    ⟨ha, hn, fun h => hna h.symm, fun v hv => ⟨hv.1, hSn v hv.1 hv.2⟩, v0, hv0a, hv0n,
      fun h => hv0b h.2⟩
  have l2 : HLinkS cl L (lvl cl a b) n b :=
    ⟨hn, hb, hnb, fun v hv => ⟨hSn v hv.1 hv.2, hv.2⟩, v, hvn, hvb, fun h => hva h.1⟩
  exact hsep (Relation.ReflTransGen.tail (Relation.ReflTransGen.single l1) l2)

/-- [S] an offender forms a separating pair with `b` -/
theorem iso_sep_nb {cl : Nat → Nat → Bool} {L : List Nat} {a b n : Nat} (ha : a ∈ L)
    (hn : n ∈ L) (hsep : SepPair cl L a b) (hP : PSet cl a b n)
    (hnb : ∀ v, cl n v = true → cl b v = true → cl a v = true) : SepPair cl L n b := by
  obtain ⟨hna, hSn, v0, hv0a, hv0n, hv0b⟩ := hP
  rw [sepPair_iff] at hsep ⊢
  intro hch
  have l1 : HLinkS cl L (lvl cl a b) a n :=
    ⟨ha, hn, fun h => hna h.symm, fun v hv => ⟨hv.1, hSn v hv.1 hv.2⟩, v0, hv0a, hv0n,
      fun h => hv0b h.2⟩
  have hcg : ∀ v, lvl cl n b v ↔ lvl cl a b v := fun v =>
    ⟨fun hv => ⟨hnb v hv.1 hv.2, hv.2⟩, fun hv => ⟨hSn v hv.1 hv.2, hv.2⟩⟩
  exact hsep (Relation.ReflTransGen.head l1 (ch_congr hcg hch))

/-- [S] permissibility does not depend on the order of the pair -/
theorem perm_symm {cl : Nat → Nat → Bool} {L : List Nat} {adj : Nat → Nat → Prop} {a b : Nat}
    (h : Perm cl L adj a b) : Perm cl L adj b a :=
  fun n hn hnb hna h1 h2 v => (h n hn hna hnb h2 h1 v).symm

/-- [S] **A PERMISSIBLE MERGE ALONG A SEPARATING PAIR ISOLATES `a` AT LEVEL `C_a ∩ C_b`** (K1; K2 is
the same statement for `(b, a)`) -/
theorem perm_iso {cl : Nat → Nat → Bool} {L : List Nat} {nv : Nat}
    (hnv : ∀ c ∈ L, ∀ v, cl c v = true → v < nv) {adj : Nat → Nat → Prop}
    (hsym : ∀ x y, adj x y → adj y x) (hex : Exact cl L adj) {a b : Nat} (ha : a ∈ L)
    (hb : b ∈ L) (hsep : SepPair cl L a b) (hperm : Perm cl L adj a b) : Kiso cl L a b := by
  intro p hp hpa hSp v hvp hva
  by_contra hvb
  have hex1 : ∃ n ∈ L, PSet cl a b n := ⟨p, hp, hpa, hSp, v, hva, hvp, hvb⟩
  obtain ⟨n, hn, hPn, hmax⟩ := exists_max (PSet cl a b) (fun p => w cl nv (a, p)) L hex1
  have hsep_an := iso_max_sep hnv ha hPn hmax
  obtain ⟨hnb, hnb'⟩ := iso_nb ha hb hn hsep hPn
  have hsep_nb := iso_sep_nb ha hn hsep hPn hnb'
  have hadj_an : adj a n := (hex a ha n hn (Ne.symm hPn.1)).2 hsep_an
  have hadj_bn : adj b n := hsym _ _ ((hex n hn b hb hnb).2 hsep_nb)
  have hpm := hperm n hn hPn.1 hnb hadj_an hadj_bn
  obtain ⟨_, _, v0, h1, h2, h3⟩ := hPn
  exact h3 ((hpm v0).1 ⟨h1, h2⟩).1

/-! ## (1) the sides of a junction tree through `a — b` -/

/-- [S] **THE SIDES OF A JUNCTION TREE THROUGH A SEPARATING PAIR, AND THE CROSSING LEMMA**: there is a
set `A` of cliques with `a ∈ A`, `b ∉ A` such that two cliques on different sides only share vertices
of `C_a ∩ C_b` -/
theorem sides_exist {cl : Nat → Nat → Bool} {L : List Nat} (hL : L.Nodup) (nv : Nat)
    (hnv : ∀ c ∈ L, ∀ v, cl c v = true → v < nv) {J : List (Nat × Nat)}
    (hJ : ForestFrom [] J) (hJL : ∀ e ∈ J, e.1 ∈ L ∧ e.2 ∈ L) (hrip : RIP cl L J)
    {a b : Nat} (ha : a ∈ L) (hb : b ∈ L) (hab : a ≠ b) (hsep : SepPair cl L a b) :
    ∃ A : Nat → Prop, A a ∧ ¬ A b ∧ ∀ x ∈ L, ∀ y ∈ L, A x → ¬ A y →
      ∀ v, cl x v = true → cl y v = true → cl a v = true ∧ cl b v = true := by
  obtain ⟨J1, hF, hsub, hrip1, hmem⟩ := swap_spec hL nv hnv hJ hJL hrip ha hb hab hsep
  have hJ1L : ∀ e ∈ J1, e.1 ∈ L ∧ e.2 ∈ L := by
    intro e he
    rcases hsub e he with h | h
    · exact hJL e h
    · rw [h]; exact ⟨ha, hb⟩
  refine ⟨fun x => Conn (J1.filter (fun e => !isEdge a b e)) x a, Conn.refl _ _,
    fun h => not_conn_removed hL hF hJ1L (.inl hmem) h.symm, ?_⟩
  intro x hx y hy hAx hAy v hxv hyv
  by_contra hS
  apply hAy
  have hc : Conn (JT.atV cl v J1) x y := hrip1 v x hx y hy hxv hyv
  have hc' : Conn (J1.filter (fun e => !isEdge a b e)) x y := by
    refine hc.mono (fun e he => ?_)
    obtain ⟨h1, h2, h3⟩ := mem_at.1 he
    refine List.mem_filter.2 ⟨h1, ?_⟩
    by_contra hedge
    have hedge' : isEdge a b e = true := by simpa using hedge
    rcases (isEdge_iff a b e).1 hedge' with rfl | rfl
    · exact hS ⟨h2, h3⟩
    · exact hS ⟨h3, h2⟩
  exact hc'.symm.trans hAx

/-- the two sides `A` / `¬ A` of a junction tree through the separating pair `u — w`, with both ends
isolated at level `C_u ∩ C_w` -/
structure Sides (cl : Nat → Nat → Bool) (L : List Nat) (u w : Nat) (A : Nat → Prop) : Prop where
  hu : u ∈ L
  hw : w ∈ L
  huw : u ≠ w
  Au : A u
  Aw : ¬ A w
  cross : ∀ x ∈ L, ∀ y ∈ L, A x → ¬ A y →
    ∀ v, cl x v = true → cl y v = true → cl u v = true ∧ cl w v = true
  sep : ¬ Ch cl L (lvl cl u w) u w
  Ku : Kiso cl L u w
  Kw : Kiso cl L w u

/-- [S] the mirror image: `w — u` with the complementary side -/
theorem Sides.flip {cl : Nat → Nat → Bool} {L : List Nat} {u w : Nat} {A : Nat → Prop}
    (h : Sides cl L u w A) : Sides cl L w u (fun z => ¬ A z) where
  hu := h.hw
  hw := h.hu
  huw := h.huw.symm
  Au := h.Aw
  Aw := fun hn => hn h.Au
  cross := fun x hx y hy hAx hAy v hxv hyv =>
    have c := h.cross y hy x hx (Classical.not_not.1 hAy) hAx v hyv hxv
    ⟨c.2, c.1⟩
  sep := fun hc => h.sep (ch_congr (lvl_comm cl w u) (ch_symm hc))
  Ku := h.Kw
  Kw := h.Ku

/-- [S] a clique on the side of `u` meets `C_w` inside `C_u` -/
theorem Sides.inA {cl : Nat → Nat → Bool} {L : List Nat} {u w : Nat} {A : Nat → Prop}
    (h : Sides cl L u w A) {x : Nat} (hx : x ∈ L) (hA : A x) :
    ∀ v, cl x v = true → cl w v = true → cl u v = true :=
  fun v h1 h2 => (h.cross x hx w h.hw hA h.Aw v h1 h2).1

/-- [S] RESOLVING A LINK TO THE MERGED CLIQUE: a clique `p` on the side of `u` that is linked at level
`T` to `C_u ∪ C_w` is linked at level `T` to `C_u` -/
theorem Sides.resolve {cl : Nat → Nat → Bool} {L : List Nat} {u w : Nat} {A : Nat → Prop}
    (h : Sides cl L u w A) {T : Nat → Prop} {p : Nat} (hp : p ∈ L) (hpu : p ≠ u) (hA : A p)
    (hTp : ∀ v, T v → cl p v = true) (hTm : ∀ v, T v → cl u v = true ∨ cl w v = true)
    {v : Nat} (hvp : cl p v = true) (hvm : cl u v = true ∨ cl w v = true) (hvT : ¬ T v) :
    (∀ v, T v → cl u v = true) ∧ HLinkS cl L T p u := by
  have key : ∀ v, cl p v = true → (cl u v = true ∨ cl w v = true) → cl u v = true :=
    fun v h1 h2 => h2.elim id (fun h2 => h.inA hp hA v h1 h2)
  exact ⟨fun v hv => key v (hTp v hv) (hTm v hv), hp, h.hu, hpu,
    fun v hv => ⟨hTp v hv, key v (hTp v hv) (hTm v hv)⟩, v, hvp, key v hvp hvm, hvT⟩

/-- [S] BRIDGING `u — w`: at a level `T ⊆ C_u ∩ C_w`, a chain that reaches `u` extends along any link
leaving `w` (either `u ~ w` is itself a link at level `T`, or `T = C_u ∩ C_w` and the isolated `w`
has no link at all) -/
theorem Sides.bridge {cl : Nat → Nat → Bool} {L : List Nat} {u w : Nat} {A : Nat → Prop}
    (h : Sides cl L u w A) {T : Nat → Prop} {x q : Nat} (hTu : ∀ v, T v → cl u v = true)
    (hTw : ∀ v, T v → cl w v = true) (hR : Ch cl L T x u) (hl : HLinkS cl L T w q) :
    Ch cl L T x q := by
  by_cases hs : ∃ s, cl u s = true ∧ cl w s = true ∧ ¬ T s
  · obtain ⟨s, hsu, hsw, hsT⟩ := hs
    have luw : HLinkS cl L T u w :=
      ⟨h.hu, h.hw, h.huw, fun v hv => ⟨hTu v hv, hTw v hv⟩, s, hsu, hsw, hsT⟩
    exact Relation.ReflTransGen.tail (Relation.ReflTransGen.tail hR luw) hl
  · exfalso
    have hST : ∀ v, cl u v = true → cl w v = true → T v := by
      intro v h1 h2
      by_contra h3
      exact hs ⟨v, h1, h2, h3⟩
    obtain ⟨_, hq, hwq, hcont, v, hvw, hvq, hvT⟩ := hl
    have hvu : cl u v = true :=
      h.Kw q hq (fun hc => hwq hc.symm) (fun v h1 h2 => (hcont v (hST v h2 h1)).2) v hvq hvw
    exact hvT (hST v hvu hvw)

/-! ## (3a) transport of chains between the old and the merged family -/

/-- [S] membership in the merged clique -/
theorem mergeCl_iff_a {cl : Nat → Nat → Bool} {a b c v : Nat} (hc : c = a) :
    mergeCl cl a b c v = true ↔ cl a v = true ∨ cl b v = true := by
  subst hc
  rw [mergeCl_a, Bool.or_eq_true]

/-- [S] membership in the other cliques of the merged family -/
theorem mergeCl_iff_other {cl : Nat → Nat → Bool} {a b c v : Nat} (hca : c ≠ a) (hcb : c ≠ b) :
    mergeCl cl a b c v = true ↔ cl c v = true := by
  rw [mergeCl_other hca hcb]

/-- [S] the renaming `b ↦ a` maps a link of the old family to a link of the merged family, or
collapses it -/
theorem hlinkS_ren {cl : Nat → Nat → Bool} {L : List Nat} {a b : Nat} (hL : L.Nodup) (ha : a ∈ L)
    (hab : a ≠ b) {T : Nat → Prop} {p q : Nat} (h : HLinkS cl L T p q) :
    ren a b p = ren a b q ∨
      HLinkS (mergeCl cl a b) (L.erase b) T (ren a b p) (ren a b q) := by
  obtain ⟨hp, hq, _, hcont, v, hvp, hvq, hvT⟩ := h
  by_cases heq : ren a b p = ren a b q
  · exact .inl heq
  · exact .inr ⟨hL.mem_erase_iff.2 ⟨ren_ne hab _, ren_mem ha hp⟩,
      hL.mem_erase_iff.2 ⟨ren_ne hab _, ren_mem ha hq⟩, heq,
      fun v hv => ⟨mergeCl_ren (hcont v hv).1, mergeCl_ren (hcont v hv).2⟩,
      v, mergeCl_ren hvp, mergeCl_ren hvq, hvT⟩

/-- [S] FORWARD: the renaming `b ↦ a` maps chains of the old family to chains of the merged family
(at any level) -/
theorem ch_ren {cl : Nat → Nat → Bool} {L : List Nat} {a b : Nat} (hL : L.Nodup) (ha : a ∈ L)
    (hab : a ≠ b) {T : Nat → Prop} {x y : Nat} (h : Ch cl L T x y) :
    Ch (mergeCl cl a b) (L.erase b) T (ren a b x) (ren a b y) := by
  induction h with
  | refl => exact .refl
  | tail _ hpq ih =>
    rcases hlinkS_ren hL ha hab hpq with heq | hl
    · rw [← heq]; exact ih
    · exact Relation.ReflTransGen.tail ih hl

/-- the invariant of the backward transport: a clique `z ≠ a` reached in the merged family is reached
in the old family; if the merged clique is reached, `a` or `b` is reached in the old family (and
contains the level) -/
def QInv (cl : Nat → Nat → Bool) (L : List Nat) (a b : Nat) (T : Nat → Prop) (x z : Nat) : Prop :=
  (z ≠ a → Ch cl L T x z) ∧
  (z = a → ((∀ v, T v → cl a v = true) ∧ Ch cl L T x a) ∨
            ((∀ v, T v → cl b v = true) ∧ Ch cl L T x b))

/-- [S] the invariant along a link between two cliques other than the merged one -/
theorem qinv_step_oo {cl : Nat → Nat → Bool} {L : List Nat} {a b : Nat} (hL : L.Nodup)
    {T : Nat → Prop} {x p q : Nat} (hQ : QInv cl L a b T x p)
    (hl : HLinkS (mergeCl cl a b) (L.erase b) T p q) (hpa : p ≠ a) (hqa : q ≠ a) :
    QInv cl L a b T x q := by
  obtain ⟨hp', hq', hpq, hcont, v, hvp, hvq, hvT⟩ := hl
  obtain ⟨hpb, hp⟩ := hL.mem_erase_iff.1 hp'
  obtain ⟨hqb, hq⟩ := hL.mem_erase_iff.1 hq'
  have hlk : HLinkS cl L T p q :=
    ⟨hp, hq, hpq, fun v hv => ⟨(mergeCl_iff_other hpa hpb).1 (hcont v hv).1,
      (mergeCl_iff_other hqa hqb).1 (hcont v hv).2⟩, v, (mergeCl_iff_other hpa hpb).1 hvp,
      (mergeCl_iff_other hqa hqb).1 hvq, hvT⟩
  exact ⟨fun _ => Relation.ReflTransGen.tail (hQ.1 hpa) hlk, fun h' => absurd h' hqa⟩

/-- [S] the invariant along a link that enters the merged clique -/
theorem qinv_step_om {cl : Nat → Nat → Bool} {L : List Nat} {a b : Nat} {A : Nat → Prop}
    (hL : L.Nodup) (h : Sides cl L a b A) {T : Nat → Prop} {x p q : Nat}
    (hQ : QInv cl L a b T x p) (hl : HLinkS (mergeCl cl a b) (L.erase b) T p q) (hpa : p ≠ a)
    (hqa : q = a) : QInv cl L a b T x q := by
  obtain ⟨hp', _, _, hcont, v, hvp, hvq, hvT⟩ := hl
  obtain ⟨hpb, hp⟩ := hL.mem_erase_iff.1 hp'
  have hRp := hQ.1 hpa
  have hTp : ∀ v, T v → cl p v = true := fun v hv => (mergeCl_iff_other hpa hpb).1 (hcont v hv).1
  have hTm : ∀ v, T v → cl a v = true ∨ cl b v = true :=
    fun v hv => (mergeCl_iff_a hqa).1 (hcont v hv).2
  have hvp' : cl p v = true := (mergeCl_iff_other hpa hpb).1 hvp
  have hvm : cl a v = true ∨ cl b v = true := (mergeCl_iff_a hqa).1 hvq
  refine ⟨fun h' => absurd hqa h', fun _ => ?_⟩
  by_cases hAp : A p
  · obtain ⟨hTa, hlk⟩ := h.resolve hp hpa hAp hTp hTm hvp' hvm hvT
    exact .inl ⟨hTa, Relation.ReflTransGen.tail hRp hlk⟩
  · obtain ⟨hTb, hlk⟩ := h.flip.resolve hp hpb hAp hTp (fun v hv => (hTm v hv).symm) hvp'
      hvm.symm hvT
    exact .inr ⟨hTb, Relation.ReflTransGen.tail hRp hlk⟩

/-- [S] the invariant along a link that leaves the merged clique -/
theorem qinv_step_mo {cl : Nat → Nat → Bool} {L : List Nat} {a b : Nat} {A : Nat → Prop}
    (hL : L.Nodup) (h : Sides cl L a b A) {T : Nat → Prop} {x p q : Nat}
    (hQ : QInv cl L a b T x p) (hl : HLinkS (mergeCl cl a b) (L.erase b) T p q) (hpa : p = a)
    (hqa : q ≠ a) : QInv cl L a b T x q := by
  obtain ⟨_, hq', _, hcont, v, hvp, hvq, hvT⟩ := hl
  obtain ⟨hqb, hq⟩ := hL.mem_erase_iff.1 hq'
  have hTq : ∀ v, T v → cl q v = true := fun v hv => (mergeCl_iff_other hqa hqb).1 (hcont v hv).2
  have hTm : ∀ v, T v → cl a v = true ∨ cl b v = true :=
    fun v hv => (mergeCl_iff_a hpa).1 (hcont v hv).1
  have hvq' : cl q v = true := (mergeCl_iff_other hqa hqb).1 hvq
  have hvm : cl a v = true ∨ cl b v = true := (mergeCl_iff_a hpa).1 hvp
  refine ⟨fun _ => ?_, fun h' => absurd h' hqa⟩
  by_cases hAq : A q
  · obtain ⟨hTa, hlk⟩ := h.resolve hq hqa hAq hTq hTm hvq' hvm hvT
    rcases hQ.2 hpa with ⟨_, hR⟩ | ⟨hTb, hR⟩
    · exact Relation.ReflTransGen.tail hR (hlinkS_symm hlk)
    · exact h.flip.bridge hTb hTa hR (hlinkS_symm hlk)
  · obtain ⟨hTb, hlk⟩ := h.flip.resolve hq hqb hAq hTq (fun v hv => (hTm v hv).symm) hvq'
      hvm.symm hvT
    rcases hQ.2 hpa with ⟨hTa, hR⟩ | ⟨_, hR⟩
    · exact h.bridge hTa hTb hR (hlinkS_symm hlk)
    · exact Relation.ReflTransGen.tail hR (hlinkS_symm hlk)

/-- [S] the invariant is kept by every link of the merged family -/
theorem qinv_step {cl : Nat → Nat → Bool} {L : List Nat} {a b : Nat} {A : Nat → Prop}
    (hL : L.Nodup) (h : Sides cl L a b A) {T : Nat → Prop} {x p q : Nat}
    (hQ : QInv cl L a b T x p) (hl : HLinkS (mergeCl cl a b) (L.erase b) T p q) :
    QInv cl L a b T x q := by
  by_cases hpa : p = a
  · have hqa : q ≠ a := fun h' => hl.2.2.1 (hpa.trans h'.symm)
    exact qinv_step_mo hL h hQ hl hpa hqa
  · by_cases hqa : q = a
    · exact qinv_step_om hL h hQ hl hpa hqa
    · exact qinv_step_oo hL hQ hl hpa hqa

/-- [S] BACKWARD: a chain of the merged family (at any level) from `x ≠ a` lifts to a chain of the old
family; when it reaches the merged clique the lift ends in `a` or in `b` -/
theorem ch_back {cl : Nat → Nat → Bool} {L : List Nat} {a b : Nat} {A : Nat → Prop}
    (hL : L.Nodup) (h : Sides cl L a b A) {T : Nat → Prop} {x z : Nat} (hxa : x ≠ a)
    (hc : Ch (mergeCl cl a b) (L.erase b) T x z) : QInv cl L a b T x z := by
  induction hc with
  | refl => exact ⟨fun _ => .refl, fun h' => absurd h' hxa⟩
  | tail _ hpq ih => exact qinv_step hL h ih hpq

/-- [S] chains between cliques other than `a`, `b` are the same in both families, at any level -/
theorem ch_merge_other {cl : Nat → Nat → Bool} {L : List Nat} {a b : Nat} {A : Nat → Prop}
    (hL : L.Nodup) (h : Sides cl L a b A) (T : Nat → Prop) {x z : Nat} (hxa : x ≠ a)
    (hxb : x ≠ b) (hza : z ≠ a) (hzb : z ≠ b) :
    Ch (mergeCl cl a b) (L.erase b) T x z ↔ Ch cl L T x z := by
  constructor
  · exact fun hc => (ch_back hL h hxa hc).1 hza
  · intro hc
    have := ch_ren (a := a) (b := b) hL h.hu h.huw hc
    rwa [ren_of_ne hxb, ren_of_ne hzb] at this

/-- [S] the merged clique is reached in the merged family iff `a` or `b` is reached in the old family,
at any level -/
theorem ch_merge_a {cl : Nat → Nat → Bool} {L : List Nat} {a b : Nat} {A : Nat → Prop}
    (hL : L.Nodup) (h : Sides cl L a b A) (T : Nat → Prop) {x : Nat} (hxa : x ≠ a)
    (hxb : x ≠ b) :
    Ch (mergeCl cl a b) (L.erase b) T x a ↔ (Ch cl L T x a ∨ Ch cl L T x b) := by
  constructor
  · intro hc
    rcases (ch_back hL h hxa hc).2 rfl with ⟨_, hR⟩ | ⟨_, hR⟩
    · exact .inl hR
    · exact .inr hR
  · rintro (hc | hc)
    · have := ch_ren (a := a) (b := b) hL h.hu h.huw hc
      rwa [ren_of_ne hxb, ren_of_ne h.huw] at this
    · have := ch_ren (a := a) (b := b) hL h.hu h.huw hc
      rwa [ren_of_ne hxb, ren_b] at this

/-! ## (3b) CASE II in the old family, for an abstract side -/

/-- [S] at a clique `x` on the side of `u`: if `(x, w)` is a separating pair, so is `(x, u)` -/
theorem Sides.sep_w_u {cl : Nat → Nat → Bool} {L : List Nat} {u w : Nat} {A : Nat → Prop}
    (h : Sides cl L u w A) {x : Nat} (hx : x ∈ L) (hxu : x ≠ u) (hA : A x)
    (hs : SepPair cl L x w) : SepPair cl L x u := by
  rw [sepPair_iff] at hs ⊢
  intro hch
  have hUS : ∀ v, cl x v = true → cl w v = true → cl u v = true := h.inA hx hA
  by_cases hex : ∃ s, cl u s = true ∧ cl w s = true ∧ ¬ cl x s = true
  · obtain ⟨s, hsu, hsw, hsx⟩ := hex
    have luw : HLinkS cl L (lvl cl x w) u w :=
      ⟨h.hu, h.hw, h.huw, fun v hv => ⟨hUS v hv.1 hv.2, hv.2⟩, s, hsu, hsw, fun hv => hsx hv.1⟩
    have hsub : ∀ v, cl x v = true → cl u v = true → cl w v = true := by
      intro v hvx hvu
      by_contra hvw
      have lxu : HLinkS cl L (lvl cl x w) x u :=
        ⟨hx, h.hu, hxu, fun v hv => ⟨hv.1, hUS v hv.1 hv.2⟩, v, hvx, hvu, fun hv => hvw hv.2⟩
      exact hs (Relation.ReflTransGen.tail (Relation.ReflTransGen.single lxu) luw)
    have hcg : ∀ v, lvl cl x u v ↔ lvl cl x w v := fun v =>
      ⟨fun hv => ⟨hv.1, hsub v hv.1 hv.2⟩, fun hv => ⟨hv.1, hUS v hv.1 hv.2⟩⟩
    exact hs (Relation.ReflTransGen.tail (ch_congr hcg hch) luw)
  · have hSx : ∀ v, cl u v = true → cl w v = true → cl x v = true := by
      intro v h1 h2
      by_contra h3
      exact hex ⟨v, h1, h2, h3⟩
    rcases Relation.ReflTransGen.cases_tail hch with heq | ⟨p, _, hl⟩
    · exact hxu heq.symm
    · obtain ⟨hp, _, hpu, hcont, v, hvp, hvu, hvT⟩ := hl
      have hSp : ∀ v, cl u v = true → cl w v = true → cl p v = true :=
        fun v h1 h2 => (hcont v ⟨hSx v h1 h2, h1⟩).1
      have hvw : cl w v = true := h.Ku p hp hpu hSp v hvp hvu
      exact hvT ⟨hSx v hvu hvw, hvu⟩

/-- [S] at a clique `x` on the side of `u` with `(x, u)` separating: no chain at level `C_x ∩ C_u`
reaches `w` (it would cross the tree edge through a link inside `C_u ∩ C_w`, which makes `w ~ u` a
link at that level) -/
theorem Sides.no_chain_w {cl : Nat → Nat → Bool} {L : List Nat} {u w : Nat} {A : Nat → Prop}
    (h : Sides cl L u w A) {x : Nat} (hA : A x) (hs : ¬ Ch cl L (lvl cl x u) x u) :
    ¬ Ch cl L (lvl cl x u) x w := by
  intro hch
  obtain ⟨p, q, hl, hAp, hAq⟩ := rtg_cross hch hA h.Aw
  obtain ⟨hp, hq, _, hcont, v, hvp, hvq, hvT⟩ := hl
  have hS := h.cross p hp q hq hAp hAq
  have lwu : HLinkS cl L (lvl cl x u) w u :=
    ⟨h.hw, h.hu, h.huw.symm,
      fun v hv => ⟨(hS v (hcont v hv).1 (hcont v hv).2).2, (hS v (hcont v hv).1 (hcont v hv).2).1⟩,
      v, (hS v hvp hvq).2, (hS v hvp hvq).1, hvT⟩
  exact hs (Relation.ReflTransGen.tail hch lwu)

/-- [S] CASE II in the old family: at a clique `x` on the side of `u`, one of `(x, u)`, `(x, w)` is
separating iff no chain at level `C_x ∩ C_u` leads from `x` to `u` or to `w` -/
theorem Sides.caseII {cl : Nat → Nat → Bool} {L : List Nat} {u w : Nat} {A : Nat → Prop}
    (h : Sides cl L u w A) {x : Nat} (hx : x ∈ L) (hxu : x ≠ u) (hA : A x) :
    (SepPair cl L x u ∨ SepPair cl L x w) ↔
      (¬ Ch cl L (lvl cl x u) x u ∧ ¬ Ch cl L (lvl cl x u) x w) := by
  constructor
  · intro hor
    have h1 : SepPair cl L x u := hor.elim id (h.sep_w_u hx hxu hA)
    exact ⟨sepPair_iff.1 h1, h.no_chain_w hA (sepPair_iff.1 h1)⟩
  · exact fun hn => .inl (sepPair_iff.2 hn.1)

/-! ## (3c) the three cases of the equivalence -/

/-- [S] the level of `(x, merged clique)` is `C_x ∩ C_u` when `x` is on the side of `u` -/
theorem Sides.lvl_merged {cl : Nat → Nat → Bool} {L : List Nat} {u w : Nat} {A : Nat → Prop}
    (h : Sides cl L u w A) {x : Nat} (hx : x ∈ L) (hA : A x) (v : Nat) :
    (cl x v = true ∧ (cl u v = true ∨ cl w v = true)) ↔ lvl cl x u v :=
  ⟨fun hv => ⟨hv.1, hv.2.elim id (h.inA hx hA v hv.1)⟩, fun hv => ⟨hv.1, .inl hv.2⟩⟩

/-- [S] CASE II: for `x` other than `a`, `b`: one of `(x, a)`, `(x, b)` is a separating pair of the
old family iff `(x, merged clique)` is a separating pair of the merged family -/
theorem exact_at_a {cl : Nat → Nat → Bool} {L : List Nat} {a b : Nat} {A : Nat → Prop}
    (hL : L.Nodup) (h : Sides cl L a b A) {x : Nat} (hx : x ∈ L) (hxa : x ≠ a) (hxb : x ≠ b) :
    (SepPair cl L x a ∨ SepPair cl L x b) ↔ SepPair (mergeCl cl a b) (L.erase b) x a := by
  rw [sepPair_iff (cl := mergeCl cl a b)]
  have hm : ∀ v, lvl (mergeCl cl a b) x a v ↔ (cl x v = true ∧ (cl a v = true ∨ cl b v = true)) :=
    fun v => and_congr (mergeCl_iff_other hxa hxb) (mergeCl_iff_a rfl)
  by_cases hA : A x
  · have hlv : ∀ v, lvl (mergeCl cl a b) x a v ↔ lvl cl x a v :=
      fun v => (hm v).trans (h.lvl_merged hx hA v)
    rw [h.caseII hx hxa hA]
    have key := ch_merge_a hL h (lvl cl x a) hxa hxb
    constructor
    · rintro ⟨h1, h2⟩ hch
      rcases key.1 (ch_congr hlv hch) with h' | h'
      · exact h1 h'
      · exact h2 h'
    · intro hn
      exact ⟨fun h' => hn (ch_congr (fun v => (hlv v).symm) (key.2 (.inl h'))),
        fun h' => hn (ch_congr (fun v => (hlv v).symm) (key.2 (.inr h')))⟩
  · have hlv : ∀ v, lvl (mergeCl cl a b) x a v ↔ lvl cl x b v :=
      fun v => ((hm v).trans (and_congr Iff.rfl or_comm)).trans (h.flip.lvl_merged hx hA v)
    rw [or_comm, h.flip.caseII hx hxb hA]
    have key := ch_merge_a hL h (lvl cl x b) hxa hxb
    constructor
    · rintro ⟨h1, h2⟩ hch
      rcases key.1 (ch_congr hlv hch) with h' | h'
      · exact h2 h'
      · exact h1 h'
    · intro hn
      exact ⟨fun h' => hn (ch_congr (fun v => (hlv v).symm) (key.2 (.inr h'))),
        fun h' => hn (ch_congr (fun v => (hlv v).symm) (key.2 (.inl h')))⟩

/-- [S] CASE I: for `x`, `y` other than `a`, `b`: `(x, y)` is a separating pair of the old family iff
it is one of the merged family -/
theorem exact_other {cl : Nat → Nat → Bool} {L : List Nat} {a b : Nat} {A : Nat → Prop}
    (hL : L.Nodup) (h : Sides cl L a b A) {x y : Nat} (hxa : x ≠ a) (hxb : x ≠ b) (hya : y ≠ a)
    (hyb : y ≠ b) : SepPair cl L x y ↔ SepPair (mergeCl cl a b) (L.erase b) x y := by
  rw [sepPair_iff, sepPair_iff]
  have hlv : ∀ v, lvl (mergeCl cl a b) x y v ↔ lvl cl x y v :=
    fun v => and_congr (mergeCl_iff_other hxa hxb) (mergeCl_iff_other hya hyb)
  have key := ch_merge_other hL h (lvl cl x y) hxa hxb hya hyb
  refine not_congr ⟨fun hc => ch_congr (fun v => (hlv v).symm) (key.2 hc),
    fun hc => key.1 (ch_congr hlv hc)⟩

/-- [S] the contracted adjacency is symmetric -/
theorem contractAdj_symm {adj : Nat → Nat → Prop} (hsym : ∀ x y, adj x y → adj y x) {a b x y : Nat}
    (h : contractAdj adj a b x y) : contractAdj adj a b y x := by
  obtain ⟨h1, h2, h3⟩ := h
  refine ⟨h2, h1, ?_⟩
  rcases h3 with h | ⟨h, h', h''⟩ | ⟨h, h', h''⟩
  · exact .inl (hsym _ _ h)
  · exact .inr (.inr ⟨h, h', h''⟩)
  · exact .inr (.inl ⟨h, h', h''⟩)

/-- [S] the contracted adjacency between cliques other than `a`, `b` -/
theorem contractAdj_other {adj : Nat → Nat → Prop} {a b x y : Nat} (hxa : x ≠ a) (hxb : x ≠ b)
    (hya : y ≠ a) (hyb : y ≠ b) : contractAdj adj a b x y ↔ adj x y := by
  constructor
  · rintro ⟨_, _, h | ⟨h, _⟩ | ⟨h, _⟩⟩
    · exact h
    · exact absurd h hxa
    · exact absurd h hya
  · exact fun h => ⟨hxb, hyb, .inl h⟩

/-- [S] the contracted adjacency towards the merged clique -/
theorem contractAdj_a {adj : Nat → Nat → Prop} {a b x : Nat} (hab : a ≠ b) (hxa : x ≠ a)
    (hxb : x ≠ b) : contractAdj adj a b x a ↔ (adj x a ∨ adj b x) := by
  constructor
  · rintro ⟨_, _, h | ⟨h, _⟩ | ⟨_, h, _⟩⟩
    · exact .inl h
    · exact absurd h hxa
    · exact .inr h
  · rintro (h | h)
    · exact ⟨hxb, hab, .inl h⟩
    · exact ⟨hxb, hab, .inr (.inr ⟨rfl, h, hxa⟩)⟩

/-- [S] exactness at a pair `(x, merged clique)` -/
theorem exact_caseII {cl : Nat → Nat → Bool} {L : List Nat} {a b : Nat} {A : Nat → Prop}
    {adj : Nat → Nat → Prop} (hL : L.Nodup) (h : Sides cl L a b A)
    (hsym : ∀ x y, adj x y → adj y x) (hex : Exact cl L adj) {x : Nat} (hx : x ∈ L)
    (hxa : x ≠ a) (hxb : x ≠ b) :
    contractAdj adj a b x a ↔ SepPair (mergeCl cl a b) (L.erase b) x a := by
  rw [contractAdj_a h.huw hxa hxb, ← exact_at_a hL h hx hxa hxb]
  have h1 : adj x a ↔ SepPair cl L x a := hex x hx a h.hu hxa
  have h2 : adj b x ↔ SepPair cl L x b :=
    ⟨fun hb => (hex x hx b h.hw hxb).1 (hsym _ _ hb), fun hs => hsym _ _ ((hex x hx b h.hw hxb).2 hs)⟩
  exact or_congr h1 h2

/-- [S] **EXACTNESS SURVIVES A PERMISSIBLE MERGE** (`JT.ExactContractSpec`): if the family has a
junction tree, `adj` is symmetric and exactly the separating-pair relation, `a — b` is an edge of
`adj` and the merge is permissible, the contracted adjacency is exactly the separating-pair relation
of the merged family -/
theorem exact_contract : ExactContractSpec := by
  intro cl L nv J adj a b hL hnv hJ hJL hrip hsym hex ha hb hab hadj hperm
  have hsep : SepPair cl L a b := (hex a ha b hb hab).1 hadj
  obtain ⟨A, hAa, hAb, hcross⟩ := sides_exist hL nv hnv hJ hJL hrip ha hb hab hsep
  have hK1 : Kiso cl L a b := perm_iso hnv hsym hex ha hb hsep hperm
  have hK2 : Kiso cl L b a := perm_iso hnv hsym hex hb ha (sepPair_symm hsep) (perm_symm hperm)
  have hS : Sides cl L a b A := ⟨ha, hb, hab, hAa, hAb, hcross, sepPair_iff.1 hsep, hK1, hK2⟩
  intro x hx' y hy' hxy
  obtain ⟨hxb, hx⟩ := hL.mem_erase_iff.1 hx'
  obtain ⟨hyb, hy⟩ := hL.mem_erase_iff.1 hy'
  by_cases hxa : x = a
  · have hya : y ≠ a := fun h => hxy (hxa.trans h.symm)
    rw [hxa]
    have := exact_caseII hL hS hsym hex hy hya hyb
    exact ⟨fun h => sepPair_symm (this.1 (contractAdj_symm hsym h)),
      fun h => contractAdj_symm hsym (this.2 (sepPair_symm h))⟩
  · by_cases hya : y = a
    · rw [hya]
      exact exact_caseII hL hS hsym hex hx hxa hxb
    · rw [contractAdj_other hxa hxb hya hyb, ← exact_other hL hS hxa hxb hya hyb]
      exact hex x hx y hy hxy

/-! ## non-vacuity: the star `{0,1}`, `{0,2}`, `{0,3}` of `ChordalJTSwap.lean` -/

namespace Ex

/-- every pair of different cliques of the star is adjacent -/
def adjStar : Nat → Nat → Prop := fun x y => x ≠ y ∧ x < 3 ∧ y < 3

/-- [S] every pair of different cliques of the star is a separating pair: there is no link at all,
since two different cliques only share the vertex `0`, which lies in every clique -/
theorem star_sep_all {x y : Nat} (hxy : x ≠ y) : SepPair star [0, 1, 2] x y := by
  intro h
  rcases Relation.ReflTransGen.cases_head h with h | ⟨c, h, _⟩
  · exact hxy h
  · obtain ⟨_, _, hpq, _, v, hp, hq, hno⟩ := h
    have hv := star_common hpq hp hq
    subst hv
    exact hno ⟨by simp [star], by simp [star]⟩

/-- [S] the complete graph is the reduced clique graph of the star -/
theorem star_exact : Exact star [0, 1, 2] adjStar := by
  intro x hx y hy hxy
  have hx' : x < 3 := by simp only [List.mem_cons, List.not_mem_nil, or_false] at hx; omega
  have hy' : y < 3 := by simp only [List.mem_cons, List.not_mem_nil, or_false] at hy; omega
  exact ⟨fun _ => star_sep_all hxy, fun _ => ⟨hxy, hx', hy'⟩⟩

/-- [S] merging `1` into `0` is permissible in the star -/
theorem star_perm : Perm star [0, 1, 2] adjStar 0 1 := by
  intro n hn h0 h1 _ _ v
  have hn2 : n = 2 := by simp only [List.mem_cons, List.not_mem_nil, or_false] at hn; omega
  subst hn2
  simp only [star, Bool.or_eq_true, beq_iff_eq]
  omega

/-- non-vacuity of `exact_contract`: after merging `{0,2}` into `{0,1}` in the star, the contracted
complete graph is exactly the reduced clique graph of `{0,1,2}` (at `0`), `{0,3}` (at `2`) -/
example : Exact (mergeCl star 0 1) ([0, 1, 2].erase 1) (contractAdj adjStar 0 1) :=
  exact_contract star [0, 1, 2] 4 Jstar adjStar 0 1 (by decide)
    (by
      intro c hc v hv
      simp only [List.mem_cons, List.not_mem_nil, or_false] at hc
      simp only [star, Bool.or_eq_true, beq_iff_eq] at hv
      omega)
    Jstar_forest (by decide) Jstar_rip
    (fun x y h => ⟨fun e => h.1 e.symm, h.2.2, h.2.1⟩) star_exact (by decide) (by decide)
    (by decide) ⟨by decide, by decide, by decide⟩ star_perm

/-- the conclusion is not empty: the two remaining cliques are adjacent and form a separating pair -/
example : contractAdj adjStar 0 1 2 0 ∧ SepPair (mergeCl star 0 1) ([0, 1, 2].erase 1) 2 0 := by
  have hE : Exact (mergeCl star 0 1) ([0, 1, 2].erase 1) (contractAdj adjStar 0 1) :=
    exact_contract star [0, 1, 2] 4 Jstar adjStar 0 1 (by decide)
      (by
        intro c hc v hv
        simp only [List.mem_cons, List.not_mem_nil, or_false] at hc
        simp only [star, Bool.or_eq_true, beq_iff_eq] at hv
        omega)
      Jstar_forest (by decide) Jstar_rip
      (fun x y h => ⟨fun e => h.1 e.symm, h.2.2, h.2.1⟩) star_exact (by decide) (by decide)
      (by decide) ⟨by decide, by decide, by decide⟩ star_perm
  have hadj : contractAdj adjStar 0 1 2 0 :=
    ⟨by decide, by decide, .inl ⟨by decide, by decide, by decide⟩⟩
  exact ⟨hadj, (hE 2 (by decide) 0 (by decide) (by decide)).1 hadj⟩

end Ex

end JT

end Clarabel.Chordal
