/-
  The symmetric dense meaning of the assembled KKT matrix AFTER `update` (model
  `Kkt.updateValues` on the maps that `assemble_kkt_matrix` produced), block by block:

  * `p_block_values`   : the primal block is the symmetric meaning of `P`'s upper triangle
                         (filled-in diagonal zeros included);
  * `hs_values`        : rows × rows of a cone: `−` its Hs block (`coneH`: diagonal, or packed upper
                         triangle), for every cone kind;
  * `soc_values`       : sparse second-order cone: `−η²v`, `−η²u` columns, `−η²`, `+η²` diagonal;
  * `genpow_values`    : generalised power cone: `−√μ q`, `−√μ r`, `−√μ p` columns, `−1, −1, +1`.

  `coneH`, `coneV`, `coneE`: the blocks `H`, `V`, `e` (= `ep`) of `listKkt` as explicit functions of
  the scaling data.
-/
import ClarabelModel.Kkt
import ClarabelProofs.Lemmas.KktSymOfEntries

set_option linter.unusedSectionVars false
set_option linter.unusedVariables false

namespace Clarabel.Lemmas.KktSymOfValues
open Clarabel Clarabel.Csc Clarabel.Kkt Clarabel.Qdldl
open Clarabel.Lemmas.KktPlace Clarabel.Lemmas.KktSlots Clarabel.Lemmas.KktFillMaps
open Clarabel.Lemmas.KktTotal Clarabel.Lemmas.KktFinal Clarabel.Lemmas.KktIntended
open Clarabel.Lemmas.KktSpec Clarabel.Lemmas.KktSymOfIdx Clarabel.Lemmas.KktSymOfEntries
open Clarabel.Lemmas.KktInertiaCones Clarabel.Lemmas.KktSigns
open Clarabel.Lemmas.KktUpdateAsm Clarabel.Lemmas.KktUpdateSchur
open Clarabel.Lemmas.KktFillRun (nSparse)
open Clarabel.Lemmas.KktSorted (Canon IsTriu missingDiag)
open Clarabel.Lemmas.KktDistinct (pre pre_succ_le pre_le_total)

-- ====================================================================================
-- the blocks of `listKkt` as functions of the scaling data
-- ====================================================================================

section defs
variable {α : Type} [Field α] [FloatLike α]

/-- position of `(a, b)` in a packed upper triangle (column-major): `max(max+1)/2 + min` -/
def packIdx (a b : Nat) : Nat := max a b * (max a b + 1) / 2 + min a b

theorem packIdx_comm (a b : Nat) : packIdx a b = packIdx b a := by
  unfold packIdx; rw [Nat.max_comm, Nat.min_comm]

theorem packIdx_le {a b : Nat} (h : a ≤ b) : packIdx a b = b * (b + 1) / 2 + a := by
  unfold packIdx; rw [Nat.max_eq_right h, Nat.min_eq_left h]

/-- the Hs block of a cone as a symmetric matrix: the vector that `get_Hs` reports is the diagonal
(`Hs_is_diagonal`) or the packed upper triangle -/
def coneH (s : ConeSpec) (b : Array α) (a a' : Nat) : α :=
  if s.hsIsDiagonal = true then (if a = a' then b.getD a 0 else 0) else b.getD (packIdx a a') 0

theorem coneH_symm (s : ConeSpec) (b : Array α) (a a' : Nat) : coneH s b a a' = coneH s b a' a := by
  unfold coneH
  split
  · by_cases h : a = a'
    · subst h; rfl
    · rw [if_neg h, if_neg (fun h' => h h'.symm)]
  · rw [packIdx_comm]

/-- minus the stored `j`-th MINUS auxiliary column of a sparse expansion, at row `a` of the cone:
`η²·v` (second-order cone), `√μ·q` on the first `dim1` rows and `√μ·r` on the others (generalised
power cone) -/
def coneV (c : ConeScaling α) (j a : Nat) : α :=
  match c with
  | .socSparse _ η _ v _ => η * η * v.getD a 0
  | .genpow μ _ q r d1 _ =>
      if j = 0 then (if a < d1.size then sqrt μ * q.getD a 0 else 0)
      else (if d1.size ≤ a then sqrt μ * r.getD (a - d1.size) 0 else 0)
  | _ => 0

/-- the modulus of the auxiliary diagonal of a sparse expansion: `η²` (second-order cone: `−η²` on
the `v` variable, `+η²` on the `u` variable), `1` (generalised power cone: `−1, −1, +1`) -/
def coneE (c : ConeScaling α) : α :=
  match c with
  | .socSparse _ η _ _ _ => η * η
  | .genpow .. => 1
  | _ => 0

/-- the expansion vectors have the lengths `update_scaling` gives them -/
def VecFits : ConeScaling α → Prop
  | .socSparse dim _ u v _ => u.size = dim ∧ v.size = dim
  | .genpow _ p q r d1 _ => p.size = d1.size + r.size ∧ q.size = d1.size
  | _ => True

end defs

-- ====================================================================================
-- values after `update`
-- ====================================================================================

section values
variable {α : Type} [Field α] [LinearOrder α] [IsStrictOrderedRing α] [FloatLike α]
variable {P A : Csc α} {cones : List ConeSpec} {K : Csc α} {map : LDLDataMap}
  {sched : List (Entry α)} {Kc : Csc α} {nd : Nat}

/-- the symmetric meaning at the coordinate of an index-map slot is the value found there -/
theorem slot_value {N : Nat} (hpat : PatOK K N) (nz' : Array α) {idx : Array Nat} {k r c : Nat}
    {v0 : α} (hs : SlotIs K idx[k]? r c v0) (hrc : r ≤ c) (hk : k < idx.size) {val : α}
    (hv : nz'[idx[k]'hk]? = some val) :
    symOf ({ K with nzval := nz' } : Csc α) r c = val := by
  obtain ⟨d, hd, hE⟩ := hs
  rw [Array.getElem?_eq_getElem hk] at hd
  cases hd
  obtain ⟨hc, hr, _⟩ := entryAt_inCol hE
  rw [symOf_slot hpat nz' hc hr hrc]
  simp [Array.getD_eq_getD_getElem?, hv]

theorem pre_numel_le (hin : KktInputs P A cones) {preS postS : List ConeSpec} {cn : ConeSpec}
    (hdec : cones = preS ++ cn :: postS) : (preS.map ConeSpec.numel).sum + cn.numel ≤ A.m := by
  rw [← hin.m_eq, hdec]
  simp only [List.map_append, List.map_cons, List.sum_append, List.sum_cons]
  omega

/-- [F] **rows × rows of a cone after `update`: minus its Hs block**, for every cone kind (at the
coordinates where the pattern stores an entry: all of the upper triangle for a dense block, the
diagonal for a diagonal block) -/
theorem hs_values (R : AsmRun P A cones .triu K map sched Kc nd) (hin : KktInputs P A cones)
    {preS postS : List ConeSpec} {cn : ConeSpec} (hdec : cones = preS ++ cn :: postS)
    (nz nz' : Array α) (pre' post : List (ConeScaling α)) (sc : ConeScaling α)
    (hfits : LayoutFits pre' preS) (hfit1 : ScalingFits sc cn)
    (hup : updateValues nz map (pre' ++ sc :: post) = .ok nz') :
    ∃ b, getHs sc = .ok b ∧ b.size = cn.blockLen ∧
      ∀ a a', a ≤ a' → a' < cn.numel → (cn.hsIsDiagonal = true → a = a') →
        symOf ({ K with nzval := nz' } : Csc α) (A.n + (preS.map ConeSpec.numel).sum + a)
          (A.n + (preS.map ConeSpec.numel).sum + a') = -(coneH cn b a a') := by
  obtain ⟨hpat, _, _⟩ := asm_patOK R hin
  obtain ⟨hnd, hdisjH, hdisj, hndall⟩ := R.maps_distinct hin.m_eq
  have M := R.maps hin.P_canon hin.P_triu hin.P_square hin.A_canon hin.n_eq hin.m_eq
  obtain ⟨blocks, _, _, hblocks, _⟩ := updateValues_inv hup
  obtain ⟨bpre, hpre⟩ := mapM_prefix_ok getHs pre' _ blocks hblocks
  have hoff := layout_sizes hfits hpre
  obtain ⟨b, hb, hblock⟩ := updateValues_Hs_block nz nz' map pre' post sc bpre hnd hdisjH hup hpre
  have hbsz := fits_size hfit1 hb
  have hHsz : map.Hsblocks.size = (preS.map ConeSpec.blockLen).sum + cn.blockLen
      + (postS.map ConeSpec.blockLen).sum := by
    rw [R.sizes.2.2.1, Clarabel.Lemmas.KktLength.hsblocksLen_eq_sum, hdec]
    simp only [List.map_append, List.map_cons, List.sum_append, List.sum_cons]
    omega
  refine ⟨b, hb, hbsz, ?_⟩
  intro a a' haa ha' hdiag
  by_cases hd : cn.hsIsDiagonal = true
  · obtain rfl := hdiag hd
    have hbl : cn.blockLen = cn.numel := by unfold ConeSpec.blockLen; simp [hd]
    have hs := M.hs_diag preS cn postS hdec hd a ha'
    rw [← hoff] at hs
    have hk2 : (bpre.map Array.size).sum + a < map.Hsblocks.size := by rw [hoff, hHsz]; omega
    rw [slot_value hpat nz' hs (Nat.le_refl _) hk2 (hblock a (by omega) hk2)]
    have ha : a < b.size := by omega
    simp [coneH, hd, Array.getD_eq_getD_getElem?, ha]
  · have hbl : cn.blockLen = cn.numel * (cn.numel + 1) / 2 := by unfold ConeSpec.blockLen; simp [hd]
    have hs := M.hs_dense preS cn postS hdec (by simpa using hd) a' a ha' haa
    rw [← hoff] at hs
    have hlt := tri_lt ha' haa
    have hk2 : (bpre.map Array.size).sum + (a' * (a' + 1) / 2 + a) < map.Hsblocks.size := by
      rw [hoff, hHsz]; omega
    have hs' : SlotIs K map.Hsblocks[(bpre.map Array.size).sum + (a' * (a' + 1) / 2 + a)]?
        (A.n + (preS.map ConeSpec.numel).sum + a) (A.n + (preS.map ConeSpec.numel).sum + a') 0 := hs
    rw [slot_value hpat nz' hs' (by omega) hk2 (hblock _ (by omega) hk2)]
    have hk : a' * (a' + 1) / 2 + a < b.size := by omega
    simp [coneH, hd, packIdx_le haa, Array.getD_eq_getD_getElem?, hk]

/-- [F] **the expansion entries of a sparse second-order cone after `update`**: column `pcol`
holds `−η²·v`, column `pcol + 1` holds `−η²·u`, the auxiliary diagonal is `−η², +η²`. -/
theorem soc_values (R : AsmRun P A cones .triu K map sched Kc nd) (hin : KktInputs P A cones)
    {preS postS : List ConeSpec} {d : Nat} (hdec : cones = preS ++ ConeSpec.soc d :: postS)
    (hbig : d > socNoExpansionMaxSize)
    (nz nz' : Array α) (pre' post : List (ConeScaling α)) {η dd : α} {u v : Array α}
    (hfits : LayoutFits pre' preS)
    (hup : updateValues nz map (pre' ++ .socSparse d η u v dd :: post) = .ok nz')
    (husz : u.size = d) (hvsz : v.size = d) :
    (∀ k, k < d → symOf ({ K with nzval := nz' } : Csc α) (A.n + (preS.map ConeSpec.numel).sum + k)
        (A.m + A.n + (preS.map conePdim).sum) = -(η * η * v.getD k 0)) ∧
    (∀ k, k < d → symOf ({ K with nzval := nz' } : Csc α) (A.n + (preS.map ConeSpec.numel).sum + k)
        (A.m + A.n + (preS.map conePdim).sum + 1) = -(η * η * u.getD k 0)) ∧
    symOf ({ K with nzval := nz' } : Csc α) (A.m + A.n + (preS.map conePdim).sum)
        (A.m + A.n + (preS.map conePdim).sum) = -(η * η) ∧
    symOf ({ K with nzval := nz' } : Csc α) (A.m + A.n + (preS.map conePdim).sum + 1)
        (A.m + A.n + (preS.map conePdim).sum + 1) = η * η := by
  obtain ⟨hpat, _, _⟩ := asm_patOK R hin
  obtain ⟨hnd, hdisjH, hdisj, hndall⟩ := R.maps_distinct hin.m_eq
  have M := R.maps hin.P_canon hin.P_triu hin.P_square hin.A_canon hin.n_eq hin.m_eq
  obtain ⟨mu, mv, mD, hm, hmu, hmv, hmD, sv, su, sD⟩ := M.soc preS d postS hdec hbig
  have hc := filter_sparse_getElem pre' post (.socSparse d η u v dd) rfl
  rw [layout_nSparse hfits] at hc
  have hndm : (SparseMap.soc mu mv mD).indices.Nodup := hndall _ (by
    obtain ⟨hlt, he⟩ := Array.getElem?_eq_some_iff.mp hm
    rw [← he]
    exact Array.getElem_mem_toList hlt)
  obtain ⟨c1, c2, c3, c4⟩ := updateValues_sparse_entries_soc nz nz' map _ hdisj hup hc hm hndm
    (by omega) (by omega) hmD
  have hrows := pre_numel_le hin hdec
  simp only [ConeSpec.numel] at hrows
  refine ⟨fun k hk => ?_, fun k hk => ?_, ?_, ?_⟩
  · have hkv : k < v.size := by omega
    have hs : SlotIs K mv[k]? (A.n + (preS.map ConeSpec.numel).sum + k)
        (A.m + A.n + (preS.map conePdim).sum) 0 := sv k hk
    rw [slot_value hpat nz' hs (by omega) (by omega) (c2 k (by omega))]
    simp [Array.getD_eq_getD_getElem?, hkv]
    ring
  · have hku : k < u.size := by omega
    have hs : SlotIs K mu[k]? (A.n + (preS.map ConeSpec.numel).sum + k)
        (A.m + A.n + (preS.map conePdim).sum + 1) 0 := su k hk
    rw [slot_value hpat nz' hs (by omega) (by omega) (c1 k (by omega))]
    simp [Array.getD_eq_getD_getElem?, hku]
    ring
  · exact slot_value hpat nz' (sD 0 (by omega)) (Nat.le_refl _) (by omega) c3
  · exact slot_value hpat nz' (sD 1 (by omega)) (Nat.le_refl _) (by omega) c4

/-- [F] **the expansion entries of a generalised power cone after `update`**: column `pcol` holds
`−√μ·q` (first `dim1` rows), column `pcol + 1` holds `−√μ·r` (last `dim2` rows), column `pcol + 2`
holds `−√μ·p`, the auxiliary diagonal is `−1, −1, +1`. -/
theorem genpow_values (R : AsmRun P A cones .triu K map sched Kc nd) (hin : KktInputs P A cones)
    {preS postS : List ConeSpec} {μ d2 : α} {p q r d1 : Array α}
    (hdec : cones = preS ++ ConeSpec.genpow d1.size r.size :: postS)
    (nz nz' : Array α) (pre' post : List (ConeScaling α))
    (hfits : LayoutFits pre' preS)
    (hup : updateValues nz map (pre' ++ .genpow μ p q r d1 d2 :: post) = .ok nz')
    (hpsz : p.size = d1.size + r.size) (hqsz : q.size = d1.size) :
    (∀ k, k < d1.size → symOf ({ K with nzval := nz' } : Csc α)
        (A.n + (preS.map ConeSpec.numel).sum + k)
        (A.m + A.n + (preS.map conePdim).sum) = -(sqrt μ * q.getD k 0)) ∧
    (∀ k, k < r.size → symOf ({ K with nzval := nz' } : Csc α)
        (A.n + (preS.map ConeSpec.numel).sum + d1.size + k)
        (A.m + A.n + (preS.map conePdim).sum + 1) = -(sqrt μ * r.getD k 0)) ∧
    (∀ k, k < d1.size + r.size → symOf ({ K with nzval := nz' } : Csc α)
        (A.n + (preS.map ConeSpec.numel).sum + k)
        (A.m + A.n + (preS.map conePdim).sum + 2) = -(sqrt μ * p.getD k 0)) ∧
    symOf ({ K with nzval := nz' } : Csc α) (A.m + A.n + (preS.map conePdim).sum)
        (A.m + A.n + (preS.map conePdim).sum) = -1 ∧
    symOf ({ K with nzval := nz' } : Csc α) (A.m + A.n + (preS.map conePdim).sum + 1)
        (A.m + A.n + (preS.map conePdim).sum + 1) = -1 ∧
    symOf ({ K with nzval := nz' } : Csc α) (A.m + A.n + (preS.map conePdim).sum + 2)
        (A.m + A.n + (preS.map conePdim).sum + 2) = 1 := by
  obtain ⟨hpat, _, _⟩ := asm_patOK R hin
  obtain ⟨hnd, hdisjH, hdisj, hndall⟩ := R.maps_distinct hin.m_eq
  have M := R.maps hin.P_canon hin.P_triu hin.P_square hin.A_canon hin.n_eq hin.m_eq
  obtain ⟨mp, mq, mr, mD, hm, hmp, hmq, hmr, hmD, sq, sr, sp, sD⟩ :=
    M.genpow preS d1.size r.size postS hdec
  have hc := filter_sparse_getElem pre' post (.genpow μ p q r d1 d2) rfl
  rw [layout_nSparse hfits] at hc
  have hndm : (SparseMap.genpow mp mq mr mD).indices.Nodup := hndall _ (by
    obtain ⟨hlt, he⟩ := Array.getElem?_eq_some_iff.mp hm
    rw [← he]
    exact Array.getElem_mem_toList hlt)
  obtain ⟨c1, c2, c3, c4, c5, c6⟩ := updateValues_sparse_entries_genpow nz nz' map _ hdisj hup hc hm
    hndm (by omega) (by omega) (by omega) hmD
  have hrows := pre_numel_le hin hdec
  simp only [ConeSpec.numel] at hrows
  refine ⟨fun k hk => ?_, fun k hk => ?_, fun k hk => ?_, ?_, ?_, ?_⟩
  · have hkq : k < q.size := by omega
    have hs : SlotIs K mq[k]? (A.n + (preS.map ConeSpec.numel).sum + k)
        (A.m + A.n + (preS.map conePdim).sum) 0 := sq k hk
    rw [slot_value hpat nz' hs (by omega) (by omega) (c1 k (by omega))]
    simp [Array.getD_eq_getD_getElem?, hkq]
    ring
  · have hkr : k < r.size := hk
    have hs : SlotIs K mr[k]? (A.n + (preS.map ConeSpec.numel).sum + d1.size + k)
        (A.m + A.n + (preS.map conePdim).sum + 1) 0 := sr k hk
    rw [slot_value hpat nz' hs (by omega) (by omega) (c2 k (by omega))]
    simp [Array.getD_eq_getD_getElem?, hkr]
    ring
  · have hkp : k < p.size := by omega
    have hs : SlotIs K mp[k]? (A.n + (preS.map ConeSpec.numel).sum + k)
        (A.m + A.n + (preS.map conePdim).sum + 2) 0 := sp k hk
    rw [slot_value hpat nz' hs (by omega) (by omega) (c3 k (by omega))]
    simp [Array.getD_eq_getD_getElem?, hkp]
    ring
  · exact slot_value hpat nz' (sD 0 (by omega)) (Nat.le_refl _) (by omega) c4
  · exact slot_value hpat nz' (sD 1 (by omega)) (Nat.le_refl _) (by omega) c5
  · exact slot_value hpat nz' (sD 2 (by omega)) (Nat.le_refl _) (by omega) c6

/-- the stored column of a cone entry lies in or beyond the cone's rows -/
theorem inCone_col_ge {c : ConeSpec} {row pcol r col : Nat}
    (h : InCone .triu c row pcol r col) (hp : row ≤ pcol) : row ≤ col := by
  cases h <;> (try simp only [tri]) <;> omega

/-- `P` stores no position twice -/
theorem canon_noDup {M : Csc α} (h : Canon M) : NoDupCols M.colptr M.rowval := by
  apply noDupCols_of_sorted
  intro k t h1 h2
  have hk : k < M.n := by
    by_contra hk
    have : M.colptr.getD (k + 1) 0 = 0 := by
      rw [Array.getD_eq_getD_getElem?, Array.getElem?_eq_none (by rw [h.colptr_size]; omega)]; rfl
    omega
  have := h.rows_sorted k hk t (by simpa [Array.getElem!_eq_getD] using h1)
    (by simpa [Array.getElem!_eq_getD] using h2)
  simpa [Array.getElem!_eq_getD] using this

/-- an intended entry in a primal column is an entry of `P` or a filled-in diagonal zero -/
theorem intended_primal (hin : KktInputs P A cones) {x x' : Nat} {v : α}
    (h : Intended P A cones .triu x x' v) (hx' : x' < A.n) :
    (∃ j, P.colptr.getD x' 0 ≤ j ∧ j < P.colptr.getD (x' + 1) 0 ∧ P.rowval.getD j 0 = x) ∨ v = 0 := by
  cases h with
  | pEntry i j r v hi h1 h2 hr hv =>
    left
    refine ⟨j, h1, h2, ?_⟩
    show P.rowval.getD j 0 = r
    simp [Array.getD_eq_getD_getElem?, hr]
  | pDiag _ _ _ => right; rfl
  | aEntry i j r v hi h1 h2 hr hv =>
    exfalso
    simp only [tri] at hx'
    omega
  | cone pre' cn post _ _ hdec hic =>
    exfalso
    have h1 := pre_numel_le hin hdec
    have := inCone_col_ge hic (by omega)
    omega

/-- [F] **the primal block after `update` is the symmetric meaning of `P`'s upper triangle**: the
entries of `P` are carried over unchanged, the filled-in diagonal positions hold `0`, nothing else
is stored there. -/
theorem p_block_values (R : AsmRun P A cones .triu K map sched Kc nd) (hin : KktInputs P A cones)
    (scal : List (ConeScaling α)) (nz' : Array α)
    (hup : updateValues K.nzval map scal = .ok nz') {x x' : Nat} (hxx : x ≤ x') (hx' : x' < A.n) :
    symOf ({ K with nzval := nz' } : Csc α) x x' = symOf P x x' := by
  obtain ⟨hpat, _, _⟩ := asm_patOK R hin
  have hpat' : PatOK ({ K with nzval := nz' } : Csc α) (kktDim A cones) := hpat.with_nzval nz'
  have hPnd := canon_noDup hin.P_canon
  have hxP : x' < P.n := by rw [hin.n_eq]; exact hx'
  have hsymP : symOf P x x' = denseOf P.colptr P.rowval P.nzval x x' := by
    unfold symOf; rw [Nat.min_eq_left hxx, Nat.max_eq_right hxx]
  rw [hsymP]
  by_cases hst : ∃ j, P.colptr.getD x' 0 ≤ j ∧ j < P.colptr.getD (x' + 1) 0 ∧ P.rowval.getD j 0 = x
  · obtain ⟨j, h1, h2, h3⟩ := hst
    have hjlt : j < P.rowval.size := by
      have := hin.P_canon.colptr_le_last (x' + 1) (by omega)
      have e : P.colptr[x' + 1]! = P.colptr.getD (x' + 1) 0 := by simp [Array.getElem!_eq_getD]
      omega
    have hjz : j < P.nzval.size := by rw [hin.P_canon.nzval_size]; exact hjlt
    rw [← h3, denseOf_stored P.colptr P.rowval P.nzval hPnd x' j h1 h2, h3]
    have hr : P.rowval[j]? = some x := by
      rw [Array.getElem?_eq_getElem hjlt]
      simp [Array.getD_eq_getD_getElem?, hjlt] at h3
      rw [h3]
    have hv : P.nzval[j]? = some (P.nzval.getD j 0) := by
      simp [Array.getD_eq_getD_getElem?, hjz]
    obtain ⟨_, hPm, _⟩ := assemble_update_PA hin R.ok scal nz' hup
    obtain ⟨d, _, hE⟩ := hPm x' j x _ hxP h1 h2 hr hv
    have hE' : EntryAt ({ K with nzval := nz' } : Csc α) d x x' (P.nzval.getD j 0) := hE
    obtain ⟨hc, hrr, hvv⟩ := entryAt_inCol hE'
    rw [symOf_slot hpat nz' hc hrr hxx]
    exact hvv
  · rw [denseOf_not_stored _ _ _ _ _ hst]
    by_cases hk : ∃ t, InCol K t x' ∧ K.rowval.getD t 0 = x
    · obtain ⟨t, ht, htr⟩ := hk
      obtain ⟨v0, hI, hv0⟩ := intended_of_inCol R hin ht
      rw [htr] at hI
      rw [symOf_slot hpat nz' ht htr hxx]
      -- the stored entry is a filled-in diagonal zero
      have hzero : v0 = 0 := by
        rcases intended_primal hin hI hx' with h | h
        · exact absurd h hst
        · exact h
      subst hzero
      obtain ⟨d', hs, hE⟩ := intended_slot R hI
      obtain ⟨hc', hr', hv'⟩ := entryAt_inCol hE
      have htd : t = d' := hpat.nodup x' t d' ht.1 ht.2 hc'.1 hc'.2 (by rw [htr, hr'])
      subst htd
      obtain ⟨f1, f2⟩ := Clarabel.Lemmas.KktDistinct.pa_positions_free R hin.m_eq
        (show SlotU .triu (colcountToColptr Kc).colptr sched (some t) x x' 0 from hs)
        (by omega) (by omega)
      obtain ⟨hnd, hdisjH, _, _⟩ := R.maps_distinct hin.m_eq
      obtain ⟨_, _, _, hframe, _⟩ := updateValues_frame_and_Hs K.nzval nz' map scal hnd hdisjH hup
      have := hframe t f1 f2
      simp only [Array.getD_eq_getD_getElem?, this]
      simpa [Array.getD_eq_getD_getElem?] using hv'
    · exact symOf_empty nz' hxx (fun t ht htr => hk ⟨t, ht, htr⟩)

end values

end Clarabel.Lemmas.KktSymOfValues
