/-
  Panic-freedom of the whole-solver model (C04) — composite-cone operations, part B:
  `combined_ds_shift`, `Δs_from_Δz_offset`, `step_length`, `_shift_to_cone_interior` are total
  (`.ok _`) on cone objects sized as `make_cone` builds them (`ConesFull`) and vectors of the
  composite cone's dimension.

  All structural ([S]).
-/
import ClarabelProofs.Lemmas.SolverModelNoPanicDefs

namespace Clarabel.Solver
open Clarabel Info Residuals

set_option linter.unusedSectionVars false
set_option linter.unusedVariables false

variable {α : Type}
variable [Add α] [Sub α] [Mul α] [Div α] [Neg α] [OfNat α 0] [OfNat α 1] [OfNat α 2]
  [OfNat α 100] [OfNat α 1000] [LT α] [DecidableLT α] [LE α] [DecidableLE α] [BEq α] [FloatLike α]

/-! Helper lemmas live in the sub-namespace `ConesB` (so that they cannot clash with the helpers of
the other stage files); the four interface theorems are stated in `Clarabel.Solver` at the end. -/
namespace ConesB

/-! ### generic helpers -/

/-- [S] `x >>= f` is `.ok` when `x` is and `f` is on the value of `x` -/
theorem bind_ok_exists {β γ : Type} {x : MErr β} {f : β → MErr γ} (hx : ∃ a, x = .ok a)
    (hf : ∀ a, x = .ok a → ∃ c, f a = .ok c) : ∃ c, (x >>= f) = .ok c := by
  obtain ⟨a, ha⟩ := hx
  rw [bind_ok_of ha]
  exact hf a ha

/-- [S] totality analogue of `mapM_zip_out`: a per-cone map over `(cone, slices)` is `.ok` when
the per-cone function is `.ok` on every related pair -/
theorem mapM_zip_ok {γ β : Type} (R : ConeSt α → γ → Prop) (P : ConeSt α → Prop)
    (f : ConeSt α × γ → MErr β)
    (hf : ∀ c p, P c → R c p → ∃ o, f (c, p) = .ok o) :
    ∀ {cones : List (ConeSt α)} {ps : List γ}, ListRel R cones ps → (∀ c ∈ cones, P c) →
      ∃ outs, (cones.zip ps).mapM f = .ok outs := by
  intro cones ps h
  induction h with
  | nil => intro _; exact ⟨[], rfl⟩
  | @cons c p cs ps' hcp _ ih =>
    intro hP
    obtain ⟨o, ho⟩ := hf c p (hP c (List.mem_cons_self ..)) hcp
    obtain ⟨os, hos⟩ := ih (fun c' hc' => hP c' (List.mem_cons_of_mem _ hc'))
    refine ⟨o :: os, ?_⟩
    simp only [List.zip_cons_cons, List.mapM_cons]
    rw [ho, hos]
    rfl

/-- [S] the members of a zip of related lists are related pairs -/
theorem listRel_mem_zip {β γ : Type} {R : β → γ → Prop} {cs : List β} {ps : List γ}
    (h : ListRel R cs ps) : ∀ p ∈ cs.zip ps, p.1 ∈ cs ∧ R p.1 p.2 := by
  induction h with
  | nil => intro p hp; cases hp
  | @cons a b l l' hab _ ih =>
    intro p hp
    rw [List.zip_cons_cons, List.mem_cons] at hp
    cases hp with
    | inl e => subst e; exact ⟨List.mem_cons_self .., hab⟩
    | inr e => exact ⟨List.mem_cons_of_mem _ (ih p e).1, (ih p e).2⟩

/-! ### second-order cone kernels are total on non-empty, equally sized slices -/

/-- [S] `x[0]`, `x[1..]` are in range on a non-empty slice -/
theorem soc_split_total {x : Array α} (h : 1 ≤ x.size) : ∃ x0 x1, Soc.split x = .ok (x0, x1) := by
  unfold Soc.split
  cases hx : x.toList with
  | nil =>
    have := congrArg List.length hx
    rw [Array.length_toList] at this
    simp only [List.length_nil] at this
    omega
  | cons a l => exact ⟨a, l, rfl⟩

theorem soc_mulW_ok {K : Soc.Cone α} {y x : Array α} (a b : α) (hw : K.w.size = K.dim) (hd : 1 ≤ K.dim)
    (hy : y.size = K.dim) (hx : x.size = K.dim) : ∃ o, Soc.mulW K y x a b = .ok o := by
  obtain ⟨w0, w1, hw'⟩ := soc_split_total (x := K.w) (by omega)
  obtain ⟨x0, x1, hx'⟩ := soc_split_total (x := x) (by omega)
  obtain ⟨y0, y1, hy'⟩ := soc_split_total (x := y) (by omega)
  unfold Soc.mulW
  rw [bind_ok_of hw']; dsimp only
  rw [bind_ok_of hx']; dsimp only
  rw [bind_ok_of hy']; dsimp only
  rw [if_neg (by omega)]
  exact ⟨_, rfl⟩

theorem soc_mulWinv_ok {K : Soc.Cone α} {y x : Array α} (a b : α) (hw : K.w.size = K.dim) (hd : 1 ≤ K.dim)
    (hy : y.size = K.dim) (hx : x.size = K.dim) : ∃ o, Soc.mulWinv K y x a b = .ok o := by
  obtain ⟨w0, w1, hw'⟩ := soc_split_total (x := K.w) (by omega)
  obtain ⟨x0, x1, hx'⟩ := soc_split_total (x := x) (by omega)
  obtain ⟨y0, y1, hy'⟩ := soc_split_total (x := y) (by omega)
  unfold Soc.mulWinv
  rw [bind_ok_of hw']; dsimp only
  rw [bind_ok_of hx']; dsimp only
  rw [bind_ok_of hy']; dsimp only
  rw [if_neg (by omega)]
  exact ⟨_, rfl⟩

theorem soc_circOp_ok {y z : Array α} (h : y.size = z.size) (hd : 1 ≤ y.size) :
    ∃ o, Soc.circOp y z = .ok o := by
  obtain ⟨y0, y1, hy'⟩ := soc_split_total (x := y) hd
  obtain ⟨z0, z1, hz'⟩ := soc_split_total (x := z) (by omega)
  unfold Soc.circOp
  rw [bind_ok_of hy']; dsimp only
  rw [bind_ok_of hz']; dsimp only
  rw [if_neg (by omega)]
  exact ⟨_, rfl⟩

theorem soc_scaledUnitShift_ok {z : Array α} (a : α) (hd : 1 ≤ z.size) :
    ∃ o, Soc.scaledUnitShift z a = .ok o := by
  obtain ⟨z0, z1, hz'⟩ := soc_split_total (x := z) hd
  unfold Soc.scaledUnitShift
  rw [bind_ok_of hz']
  exact ⟨_, rfl⟩

theorem soc_combinedDsShift_ok {K : Soc.Cone α} {stepZ stepS : Array α} (σμ : α) (hw : K.w.size = K.dim)
    (hd : 1 ≤ K.dim) (hz : stepZ.size = K.dim) (hs : stepS.size = K.dim) :
    ∃ o, Soc.combinedDsShift K stepZ stepS σμ = .ok o := by
  obtain ⟨wz, hwz⟩ := soc_mulW_ok (K := K) (y := stepZ) (x := stepZ) 1 0 hw hd hz hz
  obtain ⟨ws, hws⟩ := soc_mulWinv_ok (K := K) (y := stepS) (x := stepS) 1 0 hw hd hs hs
  have e1 := soc_mulW_size hw hwz
  have e2 := soc_mulWinv_size hw hws
  obtain ⟨sh, hsh⟩ := soc_circOp_ok (y := ws) (z := wz) (by omega) (by omega)
  have e3 := soc_circOp_size hsh
  obtain ⟨sh2, hsh2⟩ := soc_scaledUnitShift_ok (z := sh) (-σμ) (by omega)
  unfold Soc.combinedDsShift
  rw [bind_ok_of hwz, bind_ok_of hws, bind_ok_of hsh, bind_ok_of hsh2]
  exact ⟨_, rfl⟩

theorem soc_guard_ok {c : Bool} (h : c = true) : Soc.sizeGuard c = .ok () := by subst h; rfl

theorem soc_dsFromDzOffset_ok {K : Soc.Cone α} {ds z : Array α} (hw : K.w.size = K.dim)
    (hl : K.lam.size = K.dim) (hd : 1 ≤ K.dim) (hds : ds.size = K.dim) (hz : z.size = K.dim) :
    ∃ o, Soc.dsFromDzOffset K ds z = .ok o := by
  obtain ⟨z0, z1, hz'⟩ := soc_split_total (x := z) (by omega)
  obtain ⟨l0, l1, hl'⟩ := soc_split_total (x := K.lam) (by omega)
  obtain ⟨d0, d1, hd'⟩ := soc_split_total (x := ds) (by omega)
  obtain ⟨w0, w1, hw'⟩ := soc_split_total (x := K.w) (by omega)
  unfold Soc.dsFromDzOffset
  rw [bind_ok_of hz']; dsimp only
  rw [bind_ok_of hl']; dsimp only
  rw [bind_ok_of hd']; dsimp only
  rw [bind_ok_of hw']; dsimp only
  rw [soc_guard_ok (by simp only [Bool.and_eq_true, beq_iff_eq]; exact ⟨hds, hz⟩)]
  exact ⟨_, rfl⟩

/-! ### nonnegative cone kernels are total on equally sized slices -/

theorem nn_guard_ok {c : Bool} (h : c = true) : Nonneg.sizeGuard c = .ok () := by subst h; rfl

theorem nn_mulW_ok {K : Nonneg.Cone α} {y x : Array α} (a b : α) (h1 : y.size = x.size)
    (h2 : y.size = K.w.size) : ∃ o, Nonneg.mulW K y x a b = .ok o := by
  unfold Nonneg.mulW
  rw [if_neg (by omega), if_neg (by omega)]
  exact ⟨_, rfl⟩

theorem nn_mulWinv_ok {K : Nonneg.Cone α} {y x : Array α} (a b : α) (h1 : y.size = x.size)
    (h2 : y.size = K.w.size) : ∃ o, Nonneg.mulWinv K y x a b = .ok o := by
  unfold Nonneg.mulWinv
  rw [if_neg (by omega), if_neg (by omega)]
  exact ⟨_, rfl⟩

theorem nn_circOp_ok {y z : Array α} (h : y.size = z.size) : ∃ o, Nonneg.circOp y z = .ok o := by
  unfold Nonneg.circOp
  rw [nn_guard_ok (by simp only [beq_iff_eq]; exact h)]
  exact ⟨_, rfl⟩

theorem nn_combinedDsShift_ok {K : Nonneg.Cone α} {stepZ stepS : Array α} (σμ : α)
    (hz : stepZ.size = K.w.size) (hs : stepS.size = K.w.size) :
    ∃ o, Nonneg.combinedDsShift K stepZ stepS σμ = .ok o := by
  obtain ⟨wz, hwz⟩ := nn_mulW_ok (K := K) (y := stepZ) (x := stepZ) 1 0 rfl hz
  obtain ⟨ws, hws⟩ := nn_mulWinv_ok (K := K) (y := stepS) (x := stepS) 1 0 rfl hs
  have e1 := nn_mulW_size hwz
  have e2 := nn_mulWinv_size hws
  obtain ⟨sh, hsh⟩ := nn_circOp_ok (y := ws) (z := wz) (by omega)
  unfold Nonneg.combinedDsShift
  rw [bind_ok_of hwz, bind_ok_of hws, bind_ok_of hsh]
  exact ⟨_, rfl⟩

theorem nn_dsFromDzOffset_ok {ds z : Array α} (h : ds.size = z.size) :
    ∃ o, Nonneg.dsFromDzOffset ds z = .ok o := by
  unfold Nonneg.dsFromDzOffset
  rw [nn_guard_ok (by simp only [beq_iff_eq]; exact h)]
  exact ⟨_, rfl⟩

/-! ### `Δs_from_Δz_offset` -/

/-- [S] `CompositeCone::Δs_from_Δz_offset` is total on full cones and vectors of the cone's dimension -/
theorem dsFromDzOffset_ok {cones : List (ConeSt α)} {out ds z : Array α} (h : ConesFull cones)
    (h1 : out.size = numelAll cones) (h2 : ds.size = numelAll cones) (h3 : z.size = numelAll cones) :
    ∃ o, dsFromDzOffset cones out ds z = .ok o := by
  obtain ⟨os, hos⟩ := cutE_ok (cones := cones) (v := out) "Δs_from_Δz_offset out" (by omega)
  obtain ⟨dss, hdss⟩ := cutE_ok (cones := cones) (v := ds) "Δs_from_Δz_offset ds" (by omega)
  obtain ⟨zs, hzs⟩ := cutE_ok (cones := cones) (v := z) "Δs_from_Δz_offset z" (by omega)
  have hrel := (cutE_spec hos).1.zip ((cutE_spec hdss).1.zip (cutE_spec hzs).1)
  unfold dsFromDzOffset
  rw [bind_ok_of hos, bind_ok_of hdss, bind_ok_of hzs]
  refine bind_ok_exists (mapM_zip_ok _ ConeFull _ ?_ hrel h) (fun _ _ => ⟨_, rfl⟩)
  intro c p hc hp
  obtain ⟨hp1, hp2, hp3⟩ := hp
  cases c with
  | zero d => exact ⟨_, rfl⟩
  | nonneg K => exact nn_dsFromDzOffset_ok (hp2.trans hp3.symm)
  | soc K =>
    obtain ⟨g1, g2, g3, _⟩ := hc
    exact soc_dsFromDzOffset_ok g2 g3 (by omega) hp2 hp3

/-! ### `combined_ds_shift` -/

/-- [S] `CompositeCone::combined_ds_shift` is total on full cones and vectors of the cone's dimension -/
theorem combinedDsShift_ok {cones : List (ConeSt α)} {shift stepZ stepS : Array α} (σμ : α) (h : ConesFull cones)
    (h1 : shift.size = numelAll cones) (h2 : stepZ.size = numelAll cones) (h3 : stepS.size = numelAll cones) :
    ∃ o, combinedDsShift cones shift stepZ stepS σμ = .ok o := by
  obtain ⟨shs, hshs⟩ := cutE_ok (cones := cones) (v := shift) "combined_ds_shift shift" (by omega)
  obtain ⟨zs, hzs⟩ := cutE_ok (cones := cones) (v := stepZ) "combined_ds_shift step_z" (by omega)
  obtain ⟨ss, hss⟩ := cutE_ok (cones := cones) (v := stepS) "combined_ds_shift step_s" (by omega)
  have hrel := (cutE_spec hshs).1.zip ((cutE_spec hzs).1.zip (cutE_spec hss).1)
  unfold combinedDsShift
  rw [bind_ok_of hshs, bind_ok_of hzs, bind_ok_of hss]
  refine bind_ok_exists (mapM_zip_ok _ ConeFull _ ?_ hrel h) (fun _ _ => ⟨_, rfl⟩)
  intro c p hc hp
  obtain ⟨hp1, hp2, hp3⟩ := hp
  cases c with
  | zero d => exact ⟨_, rfl⟩
  | nonneg K => exact nn_combinedDsShift_ok σμ hp2 hp3
  | soc K =>
    obtain ⟨g1, g2, g3, _⟩ := hc
    exact soc_combinedDsShift_ok σμ g2 (by omega) hp2 hp3

/-! ### `_shift_to_cone_interior` -/

/-- [S] a monadic map is `.ok` when the function is on every member -/
theorem mapM_ok {β γ : Type} (f : β → MErr γ) : ∀ (l : List β), (∀ p ∈ l, ∃ o, f p = .ok o) →
    ∃ outs, l.mapM f = .ok outs := by
  intro l
  induction l with
  | nil => intro _; exact ⟨[], rfl⟩
  | cons p ps ih =>
    intro hl
    obtain ⟨o, ho⟩ := hl p (List.mem_cons_self ..)
    obtain ⟨os, hos⟩ := ih (fun q hq => hl q (List.mem_cons_of_mem _ hq))
    refine ⟨o :: os, ?_⟩
    simp only [List.mapM_cons]
    rw [ho, hos]
    rfl

/-- [S] a monadic left fold is `.ok` when the step function is on every member (any accumulator) -/
theorem foldlM_ok {σ β : Type} (f : σ → β → MErr σ) : ∀ (l : List β),
    (∀ p ∈ l, ∀ acc, ∃ r, f acc p = .ok r) → ∀ acc, ∃ r, l.foldlM f acc = .ok r := by
  intro l
  induction l with
  | nil => intro _ acc; exact ⟨acc, rfl⟩
  | cons p ps ih =>
    intro hl acc
    obtain ⟨r, hr⟩ := hl p (List.mem_cons_self ..) acc
    rw [List.foldlM_cons, bind_ok_of hr]
    exact ih (fun q hq => hl q (List.mem_cons_of_mem _ hq)) r

/-- a slice of the composite cone on which margins and shifts cannot panic: second-order slices are
non-empty, PSD cones do not occur -/
def PartOK (p : Composite.Spec × Array α) : Prop :=
  match p.1 with
  | .soc _ => 1 ≤ p.2.size
  | .psd _ => False
  | _ => True

theorem compSpec_numel (c : ConeSt α) : c.compSpec.numel = c.numel := by
  cases c <;> rfl

/-- [S] `&z[rng_cones[i]]` (list form) is in range, and the slices are `PartOK` -/
theorem cutL_ok : ∀ (cones : List (ConeSt α)) (l : List α), ConesFull cones → numelAll cones ≤ l.length →
    ∃ parts, Composite.cutL (cones.map ConeSt.compSpec) l = .ok parts ∧ ∀ p ∈ parts, PartOK p := by
  intro cones
  induction cones with
  | nil => intro l _ _; exact ⟨[], rfl, fun p hp => by cases hp⟩
  | cons c rest ih =>
    intro l hf hl
    rw [numelAll_cons] at hl
    obtain ⟨tl, htl, hok⟩ := ih (l.drop c.numel) hf.tail (by rw [List.length_drop]; omega)
    refine ⟨(c.compSpec, (l.take c.numel).toArray) :: tl, ?_, ?_⟩
    · simp only [List.map_cons, Composite.cutL, compSpec_numel]
      rw [if_neg (by omega), bind_ok_of htl]
      rfl
    · intro p hp
      rw [List.mem_cons] at hp
      cases hp with
      | inr e => exact hok p e
      | inl e =>
        subst e
        have hc := hf.head
        cases c with
        | zero d => trivial
        | nonneg K => trivial
        | soc K =>
          show 1 ≤ (List.take K.dim l).toArray.size
          have : K.dim ≤ l.length := by
            have : (ConeSt.soc K).numel = K.dim := rfl
            omega
          rw [List.size_toArray, List.length_take]
          have := hc.1
          omega

theorem soc_margins_ok {z : Array α} (hd : 1 ≤ z.size) : ∃ r, Soc.margins z = .ok r := by
  obtain ⟨z0, z1, hz'⟩ := soc_split_total (x := z) hd
  unfold Soc.margins
  rw [bind_ok_of hz']
  exact ⟨_, rfl⟩

theorem margins1_ok {p : Composite.Spec × Array α} (h : PartOK p) : ∃ r, Composite.margins1 p.1 p.2 = .ok r := by
  obtain ⟨sp, z⟩ := p
  cases sp with
  | zero n => exact ⟨_, rfl⟩
  | nonneg n => exact ⟨_, rfl⟩
  | soc n =>
    have hd : 1 ≤ z.size := h
    show ∃ r, (Soc.margins z >>= fun (x : α × α) => match x with | (a, b) => pure (some a, b)) = .ok r
    exact bind_ok_exists (soc_margins_ok hd) (fun ⟨a, b⟩ _ => ⟨_, rfl⟩)
  | psd n => exact h.elim

theorem shift1_ok (a : α) (primal : Bool) {p : Composite.Spec × Array α} (h : PartOK p) :
    ∃ r, Composite.shift1 a primal p.1 p.2 = .ok r := by
  obtain ⟨sp, z⟩ := p
  cases sp with
  | zero n => exact ⟨_, rfl⟩
  | nonneg n => exact ⟨_, rfl⟩
  | soc n => exact soc_scaledUnitShift_ok a h
  | psd n => exact h.elim

/-- [S] `CompositeCone::margins` is total -/
theorem compMargins_ok {cones : List (ConeSt α)} {z : Array α} (h : ConesFull cones)
    (hz : numelAll cones ≤ z.size) : ∃ r, Composite.margins (cones.map ConeSt.compSpec) z = .ok r := by
  obtain ⟨parts, hparts, hok⟩ := cutL_ok cones z.toList h (by rw [Array.length_toList]; exact hz)
  unfold Composite.margins Composite.cut
  rw [bind_ok_of hparts]
  refine foldlM_ok _ parts ?_ _
  intro p hp acc
  exact bind_ok_exists (margins1_ok (hok p hp)) (fun ⟨ai, bi⟩ _ => ⟨_, rfl⟩)

/-- [S] `CompositeCone::scaled_unit_shift` is total -/
theorem compScaledUnitShift_ok {cones : List (ConeSt α)} {z : Array α} (a : α) (primal : Bool)
    (h : ConesFull cones) (hz : numelAll cones ≤ z.size) :
    ∃ z', Composite.scaledUnitShift (cones.map ConeSt.compSpec) z a primal = .ok z' := by
  obtain ⟨parts, hparts, hok⟩ := cutL_ok cones z.toList h (by rw [Array.length_toList]; exact hz)
  unfold Composite.scaledUnitShift Composite.cut
  rw [bind_ok_of hparts]
  refine bind_ok_exists (mapM_ok _ parts ?_) (fun _ _ => ⟨_, rfl⟩)
  intro p hp
  exact shift1_ok a primal (hok p hp)

/-- [S] `_shift_to_cone_interior` is total on full cones and a vector of the cone's dimension -/
theorem shiftToConeInterior_ok {cones : List (ConeSt α)} {z : Array α} (primal : Bool) (h : ConesFull cones)
    (hz : z.size = numelAll cones) :
    ∃ z', Composite.shiftToConeInterior (cones.map ConeSt.compSpec) z primal = .ok z' := by
  obtain ⟨⟨mm, pm⟩, hm⟩ := compMargins_ok (z := z) h (by omega)
  unfold Composite.shiftToConeInterior
  rw [bind_ok_of hm]
  dsimp only
  cases mm with
  | none => exact compScaledUnitShift_ok _ _ h (by omega)
  | some m =>
    dsimp only
    split
    · obtain ⟨z1, hz1⟩ := compScaledUnitShift_ok (z := z) (-m) primal h (by omega)
      rw [bind_ok_of hz1]
      exact compScaledUnitShift_ok _ _ h (by rw [scaledUnitShift_size hz1]; omega)
    · split
      · exact compScaledUnitShift_ok _ _ h (by omega)
      · exact compScaledUnitShift_ok _ _ h (by omega)

/-! ### `step_length` -/

theorem nn_stepLength_ok {dz ds z s : Array α} (amax : α) (h1 : z.size = s.size) (h2 : dz.size = z.size)
    (h3 : ds.size = s.size) : ∃ r, Nonneg.stepLength dz ds z s amax = .ok r := by
  unfold Nonneg.stepLength
  rw [if_neg (by omega), if_neg (by omega), if_neg (by omega)]
  exact ⟨_, rfl⟩

/-- [S] the only panic of `_step_length_soc_component` is `c < 0` -/
theorem soc_stepLengthQuad_ok (a b c amax : α) (hc : ¬ (c < 0)) :
    ∃ r, Soc.stepLengthQuad a b c amax = .ok r := by
  unfold Soc.stepLengthQuad
  dsimp only
  rw [if_neg hc]
  split
  · exact ⟨_, rfl⟩
  · split
    · exact ⟨_, rfl⟩
    · split
      · exact ⟨_, rfl⟩
      · exact ⟨_, rfl⟩

theorem soc_stepLengthComponent_ok (hf : FmaxOK α) {x y : Array α} (amax : α) (hx : 1 ≤ x.size)
    (hy : 1 ≤ y.size) : ∃ r, Soc.stepLengthComponent x y amax = .ok r := by
  obtain ⟨x0, x1, hx'⟩ := soc_split_total (x := x) hx
  obtain ⟨y0, y1, hy'⟩ := soc_split_total (x := y) hy
  unfold Soc.stepLengthComponent
  rw [bind_ok_of hx']; dsimp only
  rw [bind_ok_of hy']; dsimp only
  unfold Soc.stepLengthComponentCore
  exact soc_stepLengthQuad_ok _ _ _ _ (hf _)

theorem soc_stepLength_ok (hf : FmaxOK α) {dz ds z s : Array α} (amax : α) (h1 : 1 ≤ dz.size)
    (h2 : 1 ≤ ds.size) (h3 : 1 ≤ z.size) (h4 : 1 ≤ s.size) :
    ∃ r, Soc.stepLength dz ds z s amax = .ok r := by
  unfold Soc.stepLength
  refine bind_ok_exists (soc_stepLengthComponent_ok hf amax h3 h1) (fun _ _ => ?_)
  exact bind_ok_exists (soc_stepLengthComponent_ok hf amax h4 h2) (fun _ _ => ⟨_, rfl⟩)

/-- [S] the closure `innerfcn` is total when every cone's `step_length` is -/
theorem inner_ok (fns : List (Composite.ConeFn α)) (symcond : Bool)
    (h : ∀ c ∈ fns, ∀ a, ∃ r, c.stepLength a = .ok r) (a : α) :
    ∃ r, Composite.inner fns symcond a = .ok r := by
  unfold Composite.inner
  refine foldlM_ok _ fns ?_ a
  intro c hc acc
  dsimp only
  split
  · exact ⟨_, rfl⟩
  · exact bind_ok_exists (h c hc acc) (fun ⟨az, as⟩ _ => ⟨_, rfl⟩)

/-- [S] the composite `step_length` (C15 model) is total when every cone's `step_length` is -/
theorem compStepLength_ok (fns : List (Composite.ConeFn α)) (msf amax : α)
    (h : ∀ c ∈ fns, ∀ a, ∃ r, c.stepLength a = .ok r) :
    ∃ r, Composite.stepLength fns msf amax = .ok r := by
  unfold Composite.stepLength
  obtain ⟨a1, h1⟩ := inner_ok fns true h amax
  dsimp only
  rw [bind_ok_of h1]
  exact bind_ok_exists (inner_ok fns false h _) (fun _ _ => ⟨_, rfl⟩)

/-- [S] the closures handed to the composite `step_length` exist and never fail -/
theorem stepFns_ok {cones : List (ConeSt α)} {dz ds z s : Array α} (hf : FmaxOK α) (h : ConesFull cones)
    (h1 : dz.size = numelAll cones) (h2 : ds.size = numelAll cones) (h3 : z.size = numelAll cones)
    (h4 : s.size = numelAll cones) :
    ∃ fns, stepFns cones dz ds z s = .ok fns ∧ ∀ c ∈ fns, ∀ a, ∃ r, c.stepLength a = .ok r := by
  obtain ⟨dzs, hdzs⟩ := cutE_ok (cones := cones) (v := dz) "step_length dz" (by omega)
  obtain ⟨dss, hdss⟩ := cutE_ok (cones := cones) (v := ds) "step_length ds" (by omega)
  obtain ⟨zs, hzs⟩ := cutE_ok (cones := cones) (v := z) "step_length z" (by omega)
  obtain ⟨ss, hss⟩ := cutE_ok (cones := cones) (v := s) "step_length s" (by omega)
  have hrel := (cutE_spec hdzs).1.zip ((cutE_spec hdss).1.zip ((cutE_spec hzs).1.zip (cutE_spec hss).1))
  unfold stepFns
  rw [bind_ok_of hdzs, bind_ok_of hdss, bind_ok_of hzs, bind_ok_of hss]
  refine ⟨_, rfl, ?_⟩
  intro c hc a
  rw [List.mem_map] at hc
  obtain ⟨p, hp, rfl⟩ := hc
  obtain ⟨hmem, q1, q2, q3, q4⟩ := listRel_mem_zip hrel p hp
  have hfull := h _ hmem
  obtain ⟨c, p1, p2, p3, p4⟩ := p
  dsimp only at q1 q2 q3 q4 hfull ⊢
  cases c with
  | zero d => exact ⟨_, rfl⟩
  | nonneg K => exact nn_stepLength_ok a (q3.trans q4.symm) (q1.trans q3.symm) (q2.trans q4.symm)
  | soc K =>
    have hd : 2 ≤ K.dim := hfull.1
    have e : (ConeSt.soc K).numel = K.dim := rfl
    exact soc_stepLength_ok hf a (by omega) (by omega) (by omega) (by omega)

/-- [S] `CompositeCone::step_length` is total on full cones and vectors of the cone's dimension -/
theorem stepLength_ok {cones : List (ConeSt α)} {dz ds z s : Array α} (msf amax : α) (hf : FmaxOK α) (h : ConesFull cones)
    (h1 : dz.size = numelAll cones) (h2 : ds.size = numelAll cones) (h3 : z.size = numelAll cones) (h4 : s.size = numelAll cones) :
    ∃ r, stepLength cones dz ds z s msf amax = .ok r := by
  obtain ⟨fns, hfns, hall⟩ := stepFns_ok hf h h1 h2 h3 h4
  unfold stepLength
  rw [bind_ok_of hfns]
  exact compStepLength_ok fns msf amax hall

end ConesB

/-! ### the interface theorems of this stage -/

/-- [S] `CompositeCone::combined_ds_shift` is total on full cones and vectors of the cone's dimension -/
theorem combinedDsShift_ok {cones : List (ConeSt α)} {shift stepZ stepS : Array α} (σμ : α) (h : ConesFull cones)
    (h1 : shift.size = numelAll cones) (h2 : stepZ.size = numelAll cones) (h3 : stepS.size = numelAll cones) :
    ∃ o, combinedDsShift cones shift stepZ stepS σμ = .ok o :=
  ConesB.combinedDsShift_ok σμ h h1 h2 h3

/-- [S] `CompositeCone::Δs_from_Δz_offset` is total on full cones and vectors of the cone's dimension -/
theorem dsFromDzOffset_ok {cones : List (ConeSt α)} {out ds z : Array α} (h : ConesFull cones)
    (h1 : out.size = numelAll cones) (h2 : ds.size = numelAll cones) (h3 : z.size = numelAll cones) :
    ∃ o, dsFromDzOffset cones out ds z = .ok o :=
  ConesB.dsFromDzOffset_ok h h1 h2 h3

/-- [S] `CompositeCone::step_length` is total on full cones and vectors of the cone's dimension
(`FmaxOK`: `max(0, r) < 0` never holds, which excludes the "starting point of line search not in
SOC" panic) -/
theorem stepLength_ok {cones : List (ConeSt α)} {dz ds z s : Array α} (msf amax : α) (hf : FmaxOK α) (h : ConesFull cones)
    (h1 : dz.size = numelAll cones) (h2 : ds.size = numelAll cones) (h3 : z.size = numelAll cones) (h4 : s.size = numelAll cones) :
    ∃ r, stepLength cones dz ds z s msf amax = .ok r :=
  ConesB.stepLength_ok msf amax hf h h1 h2 h3 h4

/-- [S] `_shift_to_cone_interior` is total on full cones and a vector of the cone's dimension -/
theorem shiftToConeInterior_ok {cones : List (ConeSt α)} {z : Array α} (primal : Bool) (h : ConesFull cones)
    (hz : z.size = numelAll cones) :
    ∃ z', Composite.shiftToConeInterior (cones.map ConeSt.compSpec) z primal = .ok z' :=
  ConesB.shiftToConeInterior_ok primal h hz

/-! ### non-vacuity: one cone of each kind, sized as `make_cone` builds it -/

example : ConesFull (α := α)
    [.zero 1, .nonneg ⟨#[1], #[1]⟩, .soc ⟨2, #[1, 0], #[1, 0], 1, none⟩] := by
  intro c hc
  simp only [List.mem_cons, List.not_mem_nil, or_false] at hc
  rcases hc with rfl | rfl | rfl
  · trivial
  · rfl
  · exact ⟨Nat.le_refl _, rfl, rfl, rfl, fun sp hsp => by cases hsp⟩

end Clarabel.Solver
