/-
  Helper lemmas for C16: the column view of `ofCols`, canonical encodings as a statement
  about column lists.
-/
import ClarabelModel.Csc
import Mathlib.Algebra.BigOperators.Group.List.Lemmas

namespace Clarabel.C16
open Clarabel Csc

variable {α : Type}

/-- no adjacent pair of the list satisfies `bad` -/
def NoBadAdjacent (bad : Nat → Nat → Prop) : List Nat → Prop
  | a :: b :: rest => ¬ bad a b ∧ NoBadAdjacent bad (b :: rest)
  | _ => True

/-- The column-wise part of "canonical encoding": consistent lengths, `colptr` monotone with
last entry `nnz`, row indices strictly increasing inside every column and all `< m`.
`colptr[0] = 0` is not a field of this structure (it is constructed anonymously in many
places); the honest notion of a canonical encoding — the one `check_format` accepts since
/repo 190e6c4 — is `Canonical0` below, which adds it.  Before that fix the code accepted
every `Canonical` encoding, including those whose first `colptr[0]` stored entries belong to
no column. -/
structure Canonical (M : Csc α) : Prop where
  len_eq : M.rowval.size = M.nzval.size
  colptr_size : M.colptr.size = M.n + 1
  colptr_last : M.colptr.getD M.n 0 = M.rowval.size
  colptr_mono : NoBadAdjacent (fun a b => a > b) M.colptr.toList
  rows_sorted : ∀ j, j < M.n → NoBadAdjacent (fun a b => a ≥ b) (M.colRows j)
  rows_bound : ∀ r ∈ M.rowval.toList, r < M.m

/-- The canonical encodings: `Canonical` and the first column starts at the first stored
entry.  `check_format` accepts exactly these (`C16.check_format_iff`). -/
structure Canonical0 (M : Csc α) : Prop where
  canon : Canonical M
  colptr_zero : M.colptr.getD 0 0 = 0

end Clarabel.C16

namespace Clarabel.Csc
open Clarabel.C16

variable {α : Type}

theorem anyAdjacent_false_iff (bad : Nat → Nat → Bool) (l : List Nat) :
    anyAdjacent bad l = false ↔ NoBadAdjacent (fun a b => bad a b = true) l := by
  induction l with
  | nil => simp [anyAdjacent, NoBadAdjacent]
  | cons a t ih =>
    cases t with
    | nil => simp [anyAdjacent, NoBadAdjacent]
    | cons b rest =>
      simp only [anyAdjacent, NoBadAdjacent, Bool.or_eq_false_iff]
      rw [ih]
      simp

/-- adjacency form ↔ index form -/
theorem noBadAdjacent_iff_getElem (bad : Nat → Nat → Prop) (l : List Nat) :
    NoBadAdjacent bad l ↔ ∀ k (h : k + 1 < l.length), ¬ bad l[k] l[k+1] := by
  induction l with
  | nil => simp [NoBadAdjacent]
  | cons a t ih =>
    cases t with
    | nil => simp [NoBadAdjacent]
    | cons b rest =>
      simp only [NoBadAdjacent, ih]
      constructor
      · rintro ⟨h0, h⟩ k hk
        cases k with
        | zero => simpa using h0
        | succ k => exact h k (by simpa using hk)
      · intro h
        refine ⟨by simpa using h 0 (by simp), fun k hk => ?_⟩
        exact h (k + 1) (by simpa using hk)

/-- strictly increasing adjacent pairs ↔ pairwise `<` -/
theorem noBadAdjacent_ge_iff_pairwise (l : List Nat) :
    NoBadAdjacent (fun a b => a ≥ b) l ↔ l.Pairwise (· < ·) := by
  induction l with
  | nil => simp [NoBadAdjacent]
  | cons a t ih =>
    cases t with
    | nil => simp [NoBadAdjacent]
    | cons b rest =>
      simp only [NoBadAdjacent, ih, List.pairwise_cons]
      constructor
      · rintro ⟨hab, hb, hrest⟩
        refine ⟨fun x hx => ?_, hb, hrest⟩
        rcases List.mem_cons.mp hx with rfl | hx
        · omega
        · have := hb x hx; omega
      · rintro ⟨ha, hb, hrest⟩
        exact ⟨by have := ha b (by simp); omega, hb, hrest⟩

/-- the `colptr` construction of `ofCols` -/
def prefixSums (counts : List Nat) : Array Nat :=
  counts.foldl (fun (acc : Array Nat) c => acc.push (acc.back! + c)) #[0]

theorem prefixSums_spec (counts : List Nat) :
    (prefixSums counts).size = counts.length + 1 ∧
    ∀ k, k ≤ counts.length → (prefixSums counts).getD k 0 = (counts.take k).sum := by
  induction counts using List.reverseRecOn with
  | nil =>
    refine ⟨rfl, fun k hk => ?_⟩
    have : k = 0 := by simpa using hk
    subst this; rfl
  | append_singleton init c ih =>
    obtain ⟨hsz, hget⟩ := ih
    have hfold : prefixSums (init ++ [c]) =
        (prefixSums init).push ((prefixSums init).back! + c) := by
      simp [prefixSums, List.foldl_append]
    have hback : (prefixSums init).back! = init.sum := by
      have := hget init.length (le_refl _)
      rw [List.take_length] at this
      rw [← this, Array.back!_eq_back?, Array.back?_eq_getElem?]
      simp [hsz, Array.getD_eq_getD_getElem?]
    refine ⟨by simp [hfold, hsz], fun k hk => ?_⟩
    rw [hfold]
    simp only [List.length_append, List.length_singleton] at hk
    by_cases hk' : k ≤ init.length
    · have : k < (prefixSums init).size := by omega
      rw [Array.getD_eq_getD_getElem?, Array.getElem?_push_lt this]
      have h2 := hget k hk'
      rw [Array.getD_eq_getD_getElem?, Array.getElem?_eq_getElem this] at h2
      simp only [Option.getD_some] at h2 ⊢
      rw [h2, List.take_append_of_le_length hk']
    · have hk2 : k = init.length + 1 := by omega
      subst hk2
      have : (init ++ [c]).take (init.length + 1) = init ++ [c] := by
        rw [List.take_of_length_le]; simp
      rw [this, Array.getD_eq_getD_getElem?]
      have : init.length + 1 = (prefixSums init).size := by omega
      rw [this, Array.getElem?_push_size]
      simp [hback]


theorem ofCols_colptr (m n : Nat) (cols : List (List (Nat × α))) :
    (ofCols m n cols).colptr = prefixSums (cols.map List.length) := rfl

@[simp] theorem ofCols_m (m n : Nat) (cols : List (List (Nat × α))) : (ofCols m n cols).m = m := rfl
@[simp] theorem ofCols_n (m n : Nat) (cols : List (List (Nat × α))) : (ofCols m n cols).n = n := rfl

theorem ofCols_rowval (m n : Nat) (cols : List (List (Nat × α))) :
    (ofCols m n cols).rowval = (cols.flatten.map (·.1)).toArray := rfl
theorem ofCols_nzval (m n : Nat) (cols : List (List (Nat × α))) :
    (ofCols m n cols).nzval = (cols.flatten.map (·.2)).toArray := rfl

theorem ofCols_colptr_getD (m n : Nat) (cols : List (List (Nat × α))) (k : Nat)
    (hk : k ≤ cols.length) :
    (ofCols m n cols).colptr.getD k 0 = ((cols.map List.length).take k).sum := by
  rw [ofCols_colptr]
  exact (prefixSums_spec _).2 k (by simpa using hk)

/-- the column view of `ofCols` gives the columns back -/
theorem col_ofCols (m n : Nat) (cols : List (List (Nat × α))) (j : Nat) (hj : j < cols.length) :
    (ofCols m n cols).col j = cols[j] := by
  unfold col
  rw [ofCols_colptr_getD m n cols j (by omega), ofCols_colptr_getD m n cols (j + 1) (by omega)]
  simp only [ofCols_rowval, ofCols_nzval, Array.toList_extract, List.extract_eq_drop_take']
  have key := List.drop_take_succ_flatten_eq_getElem cols j hj
  simp only [← List.map_take, ← List.map_drop] at key ⊢
  rw [key]
  exact (List.zip_of_prod rfl rfl).symm

theorem colRows_eq_map_col (M : Csc α) (h : M.rowval.size = M.nzval.size) (j : Nat) :
    M.colRows j = (M.col j).map (·.1) := by
  unfold colRows col
  rw [List.map_fst_zip]
  simp only [Array.toList_extract, List.extract_eq_drop_take', List.length_drop, List.length_take,
    Array.length_toList]
  omega

theorem colRows_ofCols (m n : Nat) (cols : List (List (Nat × α))) (j : Nat) (hj : j < cols.length) :
    (ofCols m n cols).colRows j = cols[j].map (·.1) := by
  rw [colRows_eq_map_col _ (by simp only [ofCols_rowval, ofCols_nzval, List.size_toArray,
    List.length_map]), col_ofCols m n cols j hj]


/-- a column list in canonical order (rows strictly increasing) and range -/
def ColOK (m : Nat) (c : List (Nat × α)) : Prop :=
  (c.map (·.1)).Pairwise (· < ·) ∧ ∀ e ∈ c, e.1 < m

theorem toList_getElem_eq_getD (a : Array Nat) (k : Nat) (h : k < a.size) :
    a.toList[k]'(by simpa using h) = a.getD k 0 := by
  rw [Array.getD_eq_getD_getElem?, Array.getElem?_eq_getElem h]
  simp

theorem take_sum_mono (l : List Nat) (k : Nat) : (l.take k).sum ≤ (l.take (k + 1)).sum := by
  induction l generalizing k with
  | nil => simp
  | cons a t ih =>
    cases k with
    | zero => simp
    | succ k => simpa using ih k

theorem canonical_ofCols (m n : Nat) (cols : List (List (Nat × α))) (hlen : cols.length = n)
    (h : ∀ c ∈ cols, ColOK m c) : Canonical (ofCols m n cols) := by
  have hspec := prefixSums_spec (cols.map List.length)
  refine ⟨?_, ?_, ?_, ?_, ?_, ?_⟩
  · simp only [ofCols_rowval, ofCols_nzval, List.size_toArray, List.length_map]
  · rw [ofCols_colptr, hspec.1]; simp [hlen]
  · rw [ofCols_n, ofCols_colptr_getD m n cols n (by omega), ofCols_rowval]
    simp only [List.size_toArray, List.length_map, List.length_flatten]
    rw [List.take_of_length_le (by simp [hlen])]
  · rw [noBadAdjacent_iff_getElem]
    intro k hk
    have hsz : (ofCols m n cols).colptr.size = cols.length + 1 := by
      rw [ofCols_colptr, hspec.1]; simp
    simp only [Array.length_toList] at hk
    rw [toList_getElem_eq_getD _ k (by omega), toList_getElem_eq_getD _ (k + 1) hk, ofCols_colptr_getD m n cols k (by omega), ofCols_colptr_getD m n cols (k+1) (by omega)]
    have := take_sum_mono (cols.map List.length) k
    omega
  · intro j hj
    rw [ofCols_n] at hj
    rw [colRows_ofCols m n cols j (by omega), noBadAdjacent_ge_iff_pairwise]
    exact (h _ (List.getElem_mem _)).1
  · intro r hr
    rw [ofCols_rowval] at hr
    simp only [List.mem_map, List.mem_flatten] at hr
    obtain ⟨e, ⟨c, hc, hec⟩, rfl⟩ := hr
    exact (h c hc).2 e hec

theorem mem_col_rowval (M : Csc α) (j : Nat) (e : Nat × α) (he : e ∈ M.col j) :
    e.1 ∈ M.rowval.toList := by
  unfold col at he
  have := (List.of_mem_zip he).1
  simp only [Array.toList_extract, List.extract_eq_drop_take'] at this
  exact List.mem_of_mem_take (List.mem_of_mem_drop this)

theorem colOK_of_canonical {M : Csc α} (hM : Canonical M) (j : Nat) (hj : j < M.n) :
    ColOK M.m (M.col j) := by
  refine ⟨?_, fun e he => hM.rows_bound _ (mem_col_rowval M j e he)⟩
  rw [← colRows_eq_map_col M hM.len_eq, ← noBadAdjacent_ge_iff_pairwise]
  exact hM.rows_sorted j hj


/-! ### values stored at a position -/

/-- the values stored in column list `c` at row `i`, in storage order -/
def colVals (c : List (Nat × α)) (i : Nat) : List α := (c.filter (fun e => e.1 == i)).map (·.2)

theorem toDense_eq_foldl_colVals [Add α] [OfNat α 0] (M : Csc α) (i j : Nat) :
    M.toDense i j = (colVals (M.col j) i).foldl (· + ·) 0 := by
  unfold toDense colVals
  rw [List.foldl_map]

@[simp] theorem colVals_nil (i : Nat) : colVals ([] : List (Nat × α)) i = [] := rfl

theorem colVals_cons (e : Nat × α) (c : List (Nat × α)) (i : Nat) :
    colVals (e :: c) i = if e.1 = i then e.2 :: colVals c i else colVals c i := by
  unfold colVals
  by_cases h : e.1 = i <;> simp [List.filter_cons, h]

theorem colVals_append (c d : List (Nat × α)) (i : Nat) :
    colVals (c ++ d) i = colVals c i ++ colVals d i := by
  simp [colVals]

theorem colVals_eq_nil_of_not_mem (c : List (Nat × α)) (i : Nat) (h : ∀ e ∈ c, e.1 ≠ i) :
    colVals c i = [] := by
  unfold colVals
  rw [List.map_eq_nil_iff, List.filter_eq_nil_iff]
  intro e he
  simpa using h e he

/-- relabelling the rows of the kept entries by a map that is injective on them -/
theorem colVals_map_filter (c : List (Nat × α)) (p : Nat → Bool) (f : Nat → Nat) (i : Nat)
    (hp : p i = true) (hinj : ∀ e ∈ c, p e.1 = true → (f e.1 = f i ↔ e.1 = i)) :
    colVals ((c.filter (fun e => p e.1)).map (fun e => (f e.1, e.2))) (f i) = colVals c i := by
  induction c with
  | nil => rfl
  | cons e t ih =>
    have ih' := ih (fun e' he' => hinj e' (List.mem_cons_of_mem _ he'))
    by_cases hpe : p e.1 = true
    · have := hinj e (by simp) hpe
      simp only [List.filter_cons, hpe, ↓reduceIte, List.map_cons, colVals_cons, this, ih']
    · have hne : e.1 ≠ i := by
        rintro rfl; exact hpe hp
      have hpe' : p e.1 = false := by simpa using hpe
      rw [List.filter_cons, hpe', colVals_cons, if_neg hne]
      simpa using ih'

/-- filtering on a predicate that holds at row `i` does not change the values at `i` -/
theorem colVals_filter (c : List (Nat × α)) (p : Nat → Bool) (i : Nat) :
    colVals (c.filter (fun e => p e.1)) i = if p i = true then colVals c i else [] := by
  induction c with
  | nil => simp
  | cons e t ih =>
    by_cases hpe : p e.1 = true
    · simp only [List.filter_cons, hpe, ↓reduceIte, colVals_cons, ih]
      by_cases hi : e.1 = i
      · subst hi; simp [hpe]
      · simp [hi]
    · have hpe' : p e.1 = false := by simpa using hpe
      rw [List.filter_cons, hpe', colVals_cons]
      simp only [Bool.false_eq_true, ↓reduceIte, ih]
      by_cases hi : e.1 = i
      · subst hi; simp [hpe']
      · simp [hi]

/-- in a sorted column the entries satisfying a downward-closed row predicate are a prefix -/
theorem take_filter_length_of_sorted (c : List (Nat × α)) (p : Nat → Bool)
    (hs : (c.map (·.1)).Pairwise (· < ·)) (hdown : ∀ a b, a < b → p b = true → p a = true) :
    c.take ((c.filter (fun e => p e.1)).length) = c.filter (fun e => p e.1) := by
  induction c with
  | nil => rfl
  | cons e t ih =>
    simp only [List.map_cons, List.pairwise_cons] at hs
    by_cases hpe : p e.1 = true
    · simp only [List.filter_cons, hpe, ↓reduceIte, List.length_cons, List.take_succ_cons, ih hs.2]
    · have : t.filter (fun e => p e.1) = [] := by
        rw [List.filter_eq_nil_iff]
        intro x hx hpx
        exact hpe (hdown _ _ (hs.1 x.1 (List.mem_map_of_mem hx)) hpx)
      simp [List.filter_cons, hpe, this]


/-! ### `rankBefore` (reduced row numbering of `select_rows`) -/

theorem rankBefore_lt_of_lt (keep : Array Bool) (i i' : Nat) (h : i < i') (hi' : i' ≤ keep.size)
    (hk : keep.getD i false = true) : rankBefore keep i < rankBefore keep i' := by
  unfold rankBefore
  have hi : i < keep.toList.length := by simp; omega
  have hsplit : keep.toList.take i' = keep.toList.take i ++ (keep.toList.drop i).take (i' - i) := by
    have : i' = i + (i' - i) := by omega
    conv_lhs => rw [this, List.take_add]
  have hdrop : keep.toList.drop i = keep.toList[i] :: keep.toList.drop (i + 1) :=
    List.drop_eq_getElem_cons hi
  have hget : keep.toList[i] = true := by
    have : keep.getD i false = keep.toList[i] := by
      rw [Array.getD_eq_getD_getElem?, Array.getElem?_eq_getElem (by simpa using hi)]
      simp
    rw [← this, hk]
  have hpos : i' - i = (i' - i - 1) + 1 := by omega
  rw [hsplit, hdrop, hpos, List.take_succ_cons, List.filter_append, List.length_append, hget]
  simp

theorem rankBefore_inj (keep : Array Bool) (a b : Nat) (ha : a < keep.size) (hb : b < keep.size)
    (hka : keep.getD a false = true) (hkb : keep.getD b false = true) :
    rankBefore keep a = rankBefore keep b ↔ a = b := by
  constructor
  · intro h
    rcases Nat.lt_trichotomy a b with hlt | heq | hgt
    · have := rankBefore_lt_of_lt keep a b hlt (by omega) hka; omega
    · exact heq
    · have := rankBefore_lt_of_lt keep b a hgt (by omega) hkb; omega
  · rintro rfl; rfl

theorem rankBefore_lt_count (keep : Array Bool) (i : Nat) (hi : i < keep.size)
    (hk : keep.getD i false = true) : rankBefore keep i < (keep.toList.filter id).length := by
  have := rankBefore_lt_of_lt keep i keep.size hi (le_refl _) hk
  unfold rankBefore at this ⊢
  rwa [List.take_of_length_le (l := keep.toList) (i := keep.size) (by simp)] at this

/-- every reduced row number is the rank of a kept row -/
theorem rankBefore_surj (keep : Array Bool) (r : Nat) (hr : r < (keep.toList.filter id).length) :
    ∃ i, i < keep.size ∧ keep.getD i false = true ∧ rankBefore keep i = r := by
  unfold rankBefore
  have key : ∀ (l : List Bool) (r : Nat), r < (l.filter id).length →
      ∃ i, i < l.length ∧ l[i]? = some true ∧ ((l.take i).filter id).length = r := by
    intro l
    induction l with
    | nil => intro r hr; simp at hr
    | cons b t ih =>
      intro r hr
      cases b with
      | false =>
        obtain ⟨i, hi, hget, hcnt⟩ := ih r (by simpa using hr)
        exact ⟨i + 1, by simpa using hi, by simpa using hget, by simpa using hcnt⟩
      | true =>
        cases r with
        | zero => exact ⟨0, by simp, by simp, by simp⟩
        | succ r =>
          obtain ⟨i, hi, hget, hcnt⟩ := ih r (by simpa using hr)
          exact ⟨i + 1, by simpa using hi, by simpa using hget, by simpa using hcnt⟩
  obtain ⟨i, hi, hget, hcnt⟩ := key keep.toList r hr
  refine ⟨i, by simpa using hi, ?_, hcnt⟩
  rw [Array.getD_eq_getD_getElem?]
  simp only [Array.getElem?_toList] at hget
  rw [hget]; rfl


/-! ### flatten helpers -/

theorem colVals_flatten (L : List (List (Nat × α))) (i : Nat) :
    colVals L.flatten i = (L.map (fun c => colVals c i)).flatten := by
  induction L with
  | nil => rfl
  | cons c t ih => simp [colVals_append, ih]

theorem flatten_map_range_nil {β : Type} (n : Nat) (g : Nat → List β) (h : ∀ k, k < n → g k = []) :
    ((List.range n).map g).flatten = [] := by
  rw [List.flatten_eq_nil_iff]
  intro l hl
  simp only [List.mem_map, List.mem_range] at hl
  obtain ⟨k, hk, rfl⟩ := hl
  exact h k hk

theorem flatten_map_range_single {β : Type} (n j : Nat) (g : Nat → List β) (hj : j < n)
    (hg : ∀ k, k < n → k ≠ j → g k = []) : ((List.range n).map g).flatten = g j := by
  induction n with
  | zero => omega
  | succ n ih =>
    rw [List.range_succ, List.map_append, List.flatten_append]
    simp only [List.map_cons, List.map_nil, List.flatten_cons, List.flatten_nil, List.append_nil]
    by_cases hjn : j = n
    · subst hjn
      rw [flatten_map_range_nil j g (fun k hk => hg k (by omega) (by omega))]
      rfl
    · rw [ih (by omega) (fun k hk hkj => hg k (by omega) hkj), hg n (by omega) (by omega)]
      simp

theorem filter_row_length_le_one (c : List (Nat × α)) (i : Nat)
    (hs : (c.map (·.1)).Pairwise (· < ·)) : (c.filter (fun e => e.1 == i)).length ≤ 1 := by
  have hsub : ((c.filter (fun e => e.1 == i)).map (·.1)).Pairwise (· < ·) :=
    hs.sublist (List.filter_sublist.map _)
  match hf : c.filter (fun e => e.1 == i) with
  | [] => rw [hf]; simp
  | [_] => rw [hf]; simp
  | x :: y :: rest =>
    exfalso
    rw [hf] at hsub
    simp only [List.map_cons, List.pairwise_cons, List.mem_cons, forall_eq_or_imp] at hsub
    have hx : x ∈ c.filter (fun e => e.1 == i) := by rw [hf]; simp
    have hy : y ∈ c.filter (fun e => e.1 == i) := by rw [hf]; simp
    simp only [List.mem_filter, beq_iff_eq] at hx hy
    have := hsub.1.1
    omega

theorem colOK_filter (m : Nat) (c : List (Nat × α)) (p : Nat × α → Bool) (h : ColOK m c) :
    ColOK m (c.filter p) :=
  ⟨h.1.sublist (List.filter_sublist.map _), fun e he => h.2 e (List.mem_filter.mp he).1⟩

end Clarabel.Csc
