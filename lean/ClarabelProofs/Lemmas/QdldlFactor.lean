/-
  C12: `_factor_inner` on arbitrary patterns, structural part (valid for every scalar type,
  in particular `Float`).

  With `etree / Lnz` the elimination tree and column counts of the pattern (`FCtx`, discharged by
  `etree_spec`), every iteration `k` of `_factor_inner`
  * collects exactly the pattern of row `k` of the symbolic factor (`Lpat`), in an order in which
    no column comes before one of its descendants (topological for the triangular solve),
  * appends row `k` to exactly those columns, inside the column's slot `Lp[c] .. Lp[c+1]`,
  * leaves the work arrays `y_markers / y_vals` cleared,
  and the only possible error is `ZeroPivot`.  The value part lives in `QdldlFactorVal.lean`.
-/
import ClarabelModel.Qdldl
import ClarabelProofs.Lemmas.QdldlEtree
import ClarabelProofs.Lemmas.QdldlPermSym
import ClarabelProofs.Lemmas.CscBasic

namespace Clarabel.Qdldl

/-- the fixed data of a factorisation: a valid upper-triangular pattern together with its
elimination tree and column counts -/
structure FCtx (n : Nat) (Ap Ai : Array Nat) (etree : Array (Option Nat)) (Lnz : Array Nat) : Prop where
  hn : 0 < n
  tri : TriuCsc n Ap Ai
  esz : etree.size = n
  lsz : Lnz.size = n
  esome : ∀ c, c < n → ∀ p, etree.getD c none = some p →
    c < p ∧ p < n ∧ Lpat (Apat Ap Ai) p c ∧ ∀ r, Lpat (Apat Ap Ai) r c → p ≤ r
  enone : ∀ c, c < n → etree.getD c none = none → ∀ r, ¬ Lpat (Apat Ap Ai) r c
  cnt : ∀ c, c < n → Lnz.getD c 0 = (Lrows (Apat Ap Ai) n c).length

theorem Apat_lt_n {n : Nat} {Ap Ai : Array Nat} (hA : TriuCsc n Ap Ai) {i k : Nat}
    (h : Apat Ap Ai i k) : k < n := by
  obtain ⟨t, _, ht, _⟩ := h
  by_contra hk
  have : Ap.getD (k + 1) 0 = 0 := by
    rw [Array.getD_eq_getD_getElem?, Array.getElem?_eq_none (by rw [hA.ap_size]; omega)]; rfl
  omega

theorem Lpat_lt_n {n : Nat} {Ap Ai : Array Nat} (hA : TriuCsc n Ap Ai) {k i : Nat}
    (h : Lpat (Apat Ap Ai) k i) : k < n := by
  induction h with
  | base _ h => exact Apat_lt_n hA h
  | fill _ _ _ _ _ ih => exact ih

/-- the output of `_etree` is a valid context -/
theorem FCtx.of_etree {n : Nat} {Ap Ai : Array Nat} (hn : 0 < n) (hA : TriuCsc n Ap Ai)
    {es : EtreeState} (h : EtreeInv (Apat Ap Ai) n n es) : FCtx n Ap Ai es.etree es.Lnz := by
  obtain ⟨_, hls, hes, _, hsome, hnone, hcnt⟩ := h
  refine ⟨hn, hA, hes, hls, hsome, ?_, hcnt⟩
  intro c hc hq r hL
  exact hnone c hc hq r (Lpat_lt_n hA hL) hL

section path
variable {n : Nat} {Ap Ai : Array Nat} {etree : Array (Option Nat)} {Lnz : Array Nat}

/-- members of a set closed under "parent below `k`" absorb every row `< k` of their columns -/
theorem FCtx.closed (C : FCtx n Ap Ai etree Lnz) (k : Nat) (hk : k ≤ n) (S : Nat → Prop)
    (hS : ∀ c, S c → c < k)
    (hcl : ∀ c, S c → ∀ p, etree.getD c none = some p → p < k → S p) :
    ∀ a b, S b → Lpat (Apat Ap Ai) a b → a < k → S a := by
  apply Lpat.closure S k
  intro b hb a hL ha
  have hbn : b < n := by have := hS b hb; omega
  cases hq : etree.getD b none with
  | none => exact absurd hL (C.enone b hbn hq a)
  | some p =>
    obtain ⟨_, _, hLp, hmin⟩ := C.esome b hbn p hq
    have := hmin a hL
    exact ⟨p, this, hLp, hcl b hb p hq (by omega)⟩

/-- the walk up the elimination tree in `_factor_inner` -/
theorem elimPath_spec (C : FCtx n Ap Ai etree Lnz) (k : Nat) (hk : k ≤ n) :
    ∀ fuel next (markers : Array Bool) buf, markers.size = n →
      (match next with | none => 0 | some nx => k - nx) < fuel →
      (∀ nx, next = some nx → nx < k → Lpat (Apat Ap Ai) k nx) →
      ∃ path markers', elimPath etree k fuel next markers buf = .ok (buf ++ path, markers') ∧
        markers'.size = n ∧
        (∀ c, markers'.getD c false = true ↔ (markers.getD c false = true ∨ c ∈ path)) ∧
        (∀ c ∈ path, c < k ∧ markers.getD c false = false ∧ Lpat (Apat Ap Ai) k c) ∧
        path.Pairwise (· < ·) ∧
        (∀ nx, next = some nx → nx < k → nx ∈ path ∨ markers.getD nx false = true) ∧
        (∀ c ∈ path, ∀ p, etree.getD c none = some p → p < k →
          p ∈ path ∨ markers.getD p false = true) ∧
        (∀ c ∈ path, ∃ nx, next = some nx ∧ nx ≤ c) := by
  intro fuel
  induction fuel with
  | zero => intro next markers buf _ hf; omega
  | succ fuel ih =>
    intro next markers buf hms hf hnext
    cases next with
    | none =>
      refine ⟨[], markers, by simp [elimPath, pure, Except.pure], hms, by simp, by simp, by simp,
        by simp, by simp, by simp⟩
    | some nx =>
      by_cases hnk : nx < k
      · have hm : nx < markers.size := by omega
        have he : nx < etree.size := by rw [C.esz]; omega
        by_cases hused : markers.getD nx false = true
        · refine ⟨[], markers, ?_, hms, by simp, by simp, by simp, ?_, by simp, by simp⟩
          · simp only [elimPath, hnk, ↓reduceIte, getE_getD _ _ _ false hm, bind, Except.bind, hused,
              pure, Except.pure, List.append_nil]
          · intro nx' h _; cases h; exact Or.inr hused
        · have hun : markers.getD nx false = false := by simpa using hused
          have hLnx : Lpat (Apat Ap Ai) k nx := hnext nx rfl hnk
          have hms1 : (markers.set nx true hm).size = n := by simpa using hms
          obtain ⟨path, markers', hrun, hsz, hmk, hmem, hpw, hhead, hclos, hlow⟩ :=
            ih (etree.getD nx none) (markers.set nx true hm) (buf ++ [nx]) hms1 (by
              cases hq : etree.getD nx none with
              | none => simp only at hf ⊢; omega
              | some p =>
                have := (C.esome nx (by omega) p hq).1
                simp only at hf ⊢; omega) (by
              intro p hq hpk
              obtain ⟨h1, _, h3, _⟩ := C.esome nx (by omega) p hq
              exact Lpat.fill h1 hpk h3 hLnx)
          have hmset : ∀ c, (markers.set nx true hm).getD c false =
              if c = nx then true else markers.getD c false := fun c => getD_set' _ _ _ _ _ _
          refine ⟨nx :: path, markers', ?_, hsz, ?_, ?_, ?_, ?_, ?_, ?_⟩
          · simp only [elimPath, hnk, ↓reduceIte, getE_getD _ _ _ false hm, bind, Except.bind, hun,
              setE_ok _ _ _ _ hm, getE_getD _ _ _ none he, Bool.false_eq_true]
            rw [hrun]; simp
          · intro c
            rw [hmk c, hmset c]
            by_cases hc : c = nx
            · subst hc; simp
            · simp [hc]
          · intro c hc
            rcases List.mem_cons.mp hc with h | h
            · rw [h]; exact ⟨hnk, hun, hLnx⟩
            · obtain ⟨h1, h2, h3⟩ := hmem c h
              rw [hmset c] at h2
              refine ⟨h1, ?_, h3⟩
              by_cases hc' : c = nx
              · subst hc'; exact hun
              · simpa [hc'] using h2
          · rw [List.pairwise_cons]
            refine ⟨?_, hpw⟩
            intro c hc
            obtain ⟨p, hp, hpc⟩ := hlow c hc
            have := (C.esome nx (by omega) p hp).1
            omega
          · intro nx' h _; cases h; exact Or.inl (by simp)
          · intro c hc p hp hpk
            rcases List.mem_cons.mp hc with h | h
            · rw [h] at hp
              rcases hhead p hp hpk with h' | h'
              · exact Or.inl (List.mem_cons_of_mem _ h')
              · rw [hmset p] at h'
                by_cases hpn : p = nx
                · subst hpn; exact Or.inl (by simp)
                · right; simpa [hpn] using h'
            · rcases hclos c h p hp hpk with h' | h'
              · exact Or.inl (List.mem_cons_of_mem _ h')
              · rw [hmset p] at h'
                by_cases hpn : p = nx
                · subst hpn; exact Or.inl (by simp)
                · right; simpa [hpn] using h'
          · intro c hc
            rcases List.mem_cons.mp hc with h | h
            · exact ⟨nx, rfl, by omega⟩
            · obtain ⟨p, hp, hpc⟩ := hlow c h
              have := (C.esome nx (by omega) p hp).1
              exact ⟨nx, rfl, by omega⟩
      · refine ⟨[], markers, ?_, hms, by simp, by simp, by simp, ?_, by simp, by simp⟩
        · simp only [elimPath, hnk, ↓reduceIte, pure, Except.pure, List.append_nil]
        · intro nx' h h'; cases h; exact absurd h' hnk

end path

theorem nodup_length_le (l : List Nat) (k : Nat) (hnd : l.Nodup) (h : ∀ x ∈ l, x < k) :
    l.length ≤ k := by
  have := List.Subperm.length_le
    (List.subperm_of_subset hnd (fun x hx => List.mem_range.mpr (h x hx)))
  simpa using this

section pattern
variable {α : Type} [Add α] [Sub α] [Mul α] [Div α] [Neg α] [OfNat α 0] [OfNat α 1] [LT α]
  [DecidableLT α] [BEq α] [FloatLike α]
variable {n : Nat} {Ap Ai : Array Nat} {etree : Array (Option Nat)} {Lnz : Array Nat}

/-- `(Ap, Ai, Ax)` stores the upper triangle of the dense symmetric `a` (entry `(i, k)`, `i ≤ k`,
is `a i k`; entries that are not stored are zero) -/
structure Represents (n : Nat) (Ap Ai : Array Nat) (Ax : Array α) (a : Nat → Nat → α) : Prop where
  axs : Ax.size = Ai.size
  stored : ∀ k, k < n → ∀ t, Ap.getD k 0 ≤ t → t < Ap.getD (k + 1) 0 → Ax.getD t 0 = a (Ai.getD t 0) k
  zero : ∀ i k, (¬ ∃ t, Ap.getD k 0 ≤ t ∧ t < Ap.getD (k + 1) 0 ∧ Ai.getD t 0 = i) → a i k = 0

/-- invariant of the first loop of iteration `k` (`pre`: the processed positions of column `k`) -/
structure Pat1 (Ap Ai : Array Nat) (etree : Array (Option Nat)) (a : Nat → Nat → α) (n k : Nat)
    (s0 : FState α) (pre : List Nat) (sy : FState α × List Nat) : Prop where
  fLp : sy.1.Lp = s0.Lp
  fLi : sy.1.Li = s0.Li
  fLx : sy.1.Lx = s0.Lx
  fDinv : sy.1.Dinv = s0.Dinv
  fnc : sy.1.nextColspace = s0.nextColspace
  frc : sy.1.regularizeCount = s0.regularizeCount
  fpos : sy.1.positive = s0.positive
  dsz : sy.1.D.size = n
  yvsz : sy.1.yVals.size = n
  msz : sy.1.yMarkers.size = n
  dother : ∀ c, c ≠ k → sy.1.D.getD c 0 = s0.D.getD c 0
  dk1 : (∃ i ∈ pre, Ai.getD i 0 = k) → sy.1.D.getD k 0 = a k k
  dk0 : (¬ ∃ i ∈ pre, Ai.getD i 0 = k) → sy.1.D.getD k 0 = s0.D.getD k 0
  yv1 : ∀ x, x < n → x ≠ k → (∃ i ∈ pre, Ai.getD i 0 = x) → sy.1.yVals.getD x 0 = a x k
  yv0 : ∀ x, x < n → (x = k ∨ ¬ ∃ i ∈ pre, Ai.getD i 0 = x) → sy.1.yVals.getD x 0 = s0.yVals.getD x 0
  mrk : ∀ c, c < n → (sy.1.yMarkers.getD c false = true ↔ c ∈ sy.2)
  mem : ∀ c ∈ sy.2, c < k ∧ Lpat (Apat Ap Ai) k c
  nd : sy.2.Nodup
  clos : ∀ c ∈ sy.2, ∀ p, etree.getD c none = some p → p < k → p ∈ sy.2
  ord : sy.2.reverse.Pairwise (fun c x => ¬ Lpat (Apat Ap Ai) c x)
  done : ∀ i ∈ pre, Ai.getD i 0 ≠ k → Ai.getD i 0 ∈ sy.2

theorem rowPattern_spec (C : FCtx n Ap Ai etree Lnz) (Ax : Array α) (a : Nat → Nat → α)
    (hR : Represents n Ap Ai Ax a) (k : Nat) (hk : k < n) (s0 : FState α) (pre : List Nat)
    (sy : FState α × List Nat) (hP : Pat1 Ap Ai etree a n k s0 pre sy)
    (i : Nat) (hi1 : Ap.getD k 0 ≤ i) (hi2 : i < Ap.getD (k + 1) 0) :
    ∃ sy', rowPattern n Ai Ax etree k sy i = .ok sy' ∧ Pat1 Ap Ai etree a n k s0 (pre ++ [i]) sy' := by
  obtain ⟨s, yIdx⟩ := sy
  have hiA : i < Ai.size := by have := C.tri.ap_bound (k + 1) (by omega); omega
  have hiX : i < Ax.size := by rw [hR.axs]; exact hiA
  have hbk : Ai.getD i 0 ≤ k := C.tri.rows k hk i hi1 hi2
  have hax : Ax.getD i 0 = a (Ai.getD i 0) k := hR.stored k hk i hi1 hi2
  have hex : ∀ x, (∃ j ∈ pre ++ [i], Ai.getD j 0 = x) ↔ ((∃ j ∈ pre, Ai.getD j 0 = x) ∨ Ai.getD i 0 = x) := by
    intro x
    constructor
    · rintro ⟨j, hj, hjx⟩
      rcases List.mem_append.mp hj with h | h
      · exact Or.inl ⟨j, h, hjx⟩
      · have : j = i := by simpa using h
        subst this; exact Or.inr hjx
    · rintro (⟨j, hj, hjx⟩ | h)
      · exact ⟨j, List.mem_append_left _ hj, hjx⟩
      · exact ⟨i, by simp, h⟩
  by_cases hb : Ai.getD i 0 = k
  · -- the diagonal entry
    have hkD : k < s.D.size := by have := hP.dsz; simp only at this; omega
    have hbeq : (Ai.getD i 0 == k) = true := by simpa using hb
    refine ⟨({ s with D := s.D.set k (Ax.getD i 0) hkD }, yIdx), ?_, ?_⟩
    · simp only [rowPattern, getE_getD _ _ _ 0 hiA, getE_getD _ _ _ 0 hiX, bind, Except.bind, hbeq,
        ↓reduceIte, setE_ok _ _ _ _ hkD, pure, Except.pure]
    · refine { hP with dsz := ?_, dother := ?_, dk1 := ?_, dk0 := ?_, yv1 := ?_, yv0 := ?_, done := ?_ }
      · simpa using hP.dsz
      · intro c hc
        show (s.D.set k (Ax.getD i 0) hkD).getD c 0 = _
        rw [getD_set', if_neg hc]; exact hP.dother c hc
      · intro _
        show (s.D.set k (Ax.getD i 0) hkD).getD k 0 = _
        rw [getD_set', if_pos rfl, hax, hb]
      · intro h; exact absurd ((hex k).mpr (Or.inr hb)) h
      · intro x hx hxk h
        rcases (hex x).mp h with h' | h'
        · exact hP.yv1 x hx hxk h'
        · exact absurd (h'.symm.trans hb) hxk
      · intro x hx h
        apply hP.yv0 x hx
        rcases h with h | h
        · exact Or.inl h
        · exact Or.inr (fun h' => h ((hex x).mpr (Or.inl h')))
      · intro j hj hjk
        rcases List.mem_append.mp hj with h | h
        · exact hP.done j h hjk
        · have : j = i := by simpa using h
          subst this; exact absurd hb hjk
  · -- an off-diagonal entry
    have hbk' : Ai.getD i 0 < k := by omega
    have hbn : Ai.getD i 0 < n := by omega
    have hbeq : (Ai.getD i 0 == k) = false := by simpa using hb
    have hyv : Ai.getD i 0 < s.yVals.size := by have := hP.yvsz; simp only at this; omega
    have hmk : Ai.getD i 0 < s.yMarkers.size := by have := hP.msz; simp only at this; omega
    have hLb : Lpat (Apat Ap Ai) k (Ai.getD i 0) := Lpat.base hbk' ⟨i, hi1, hi2, rfl⟩
    -- the parts of the invariant that do not depend on the marker branch
    have hyv1 : ∀ x, x < n → x ≠ k → (∃ j ∈ pre ++ [i], Ai.getD j 0 = x) →
        (s.yVals.set (Ai.getD i 0) (Ax.getD i 0) hyv).getD x 0 = a x k := by
      intro x hx hxk h
      rw [getD_set']
      by_cases hxb : x = Ai.getD i 0
      · rw [if_pos hxb, hax, hxb]
      · rw [if_neg hxb]
        rcases (hex x).mp h with h' | h'
        · exact hP.yv1 x hx hxk h'
        · exact absurd h'.symm hxb
    have hyv0 : ∀ x, x < n → (x = k ∨ ¬ ∃ j ∈ pre ++ [i], Ai.getD j 0 = x) →
        (s.yVals.set (Ai.getD i 0) (Ax.getD i 0) hyv).getD x 0 = s0.yVals.getD x 0 := by
      intro x hx h
      have hxb : x ≠ Ai.getD i 0 := by
        rcases h with h | h
        · omega
        · intro e; exact h ((hex x).mpr (Or.inr e.symm))
      rw [getD_set', if_neg hxb]
      apply hP.yv0 x hx
      rcases h with h | h
      · exact Or.inl h
      · exact Or.inr (fun h' => h ((hex x).mpr (Or.inl h')))
    have hdk1 : (∃ j ∈ pre ++ [i], Ai.getD j 0 = k) → s.D.getD k 0 = a k k := by
      intro h
      rcases (hex k).mp h with h' | h'
      · exact hP.dk1 h'
      · exact absurd h' hb
    have hdk0 : (¬ ∃ j ∈ pre ++ [i], Ai.getD j 0 = k) → s.D.getD k 0 = s0.D.getD k 0 :=
      fun h => hP.dk0 (fun h' => h ((hex k).mpr (Or.inl h')))
    by_cases hused : s.yMarkers.getD (Ai.getD i 0) false = true
    · refine ⟨({ s with yVals := s.yVals.set (Ai.getD i 0) (Ax.getD i 0) hyv }, yIdx), ?_, ?_⟩
      · simp only [rowPattern, getE_getD _ _ _ 0 hiA, getE_getD _ _ _ 0 hiX, bind, Except.bind, hbeq,
          setE_ok _ _ _ _ hyv, getE_getD _ _ _ false hmk, hused, ↓reduceIte, pure, Except.pure,
          Bool.false_eq_true]
      · refine { hP with yvsz := ?_, dk1 := hdk1, dk0 := hdk0, yv1 := hyv1, yv0 := hyv0, done := ?_ }
        · simpa using hP.yvsz
        · intro j hj hjk
          rcases List.mem_append.mp hj with h | h
          · exact hP.done j h hjk
          · have : j = i := by simpa using h
            subst this; exact (hP.mrk _ hbn).mp hused
    · have hun : s.yMarkers.getD (Ai.getD i 0) false = false := by simpa using hused
      have hbe : Ai.getD i 0 < etree.size := by rw [C.esz]; exact hbn
      have hnotin : Ai.getD i 0 ∉ yIdx := fun h => hused ((hP.mrk _ hbn).mpr h)
      have hms1 : (s.yMarkers.set (Ai.getD i 0) true hmk).size = n := by simpa using hP.msz
      have hmset : ∀ c, (s.yMarkers.set (Ai.getD i 0) true hmk).getD c false =
          if c = Ai.getD i 0 then true else s.yMarkers.getD c false := fun c => getD_set' _ _ _ _ _ _
      obtain ⟨path, markers', hrun, hsz, hmk', hmem, hpw, hhead, hclos, hlow⟩ :=
        elimPath_spec C k (by omega) (n + 1) (etree.getD (Ai.getD i 0) none)
          (s.yMarkers.set (Ai.getD i 0) true hmk) [Ai.getD i 0] hms1 (by
            cases hq : etree.getD (Ai.getD i 0) none with
            | none => simp only; omega
            | some p => simp only; omega) (by
            intro p hq hpk
            obtain ⟨h1, _, h3, _⟩ := C.esome _ hbn p hq
            exact Lpat.fill h1 hpk h3 hLb)
      -- facts about the new segment `bidx :: path`
      have hseg_lt : ∀ c ∈ path, Ai.getD i 0 < c := by
        intro c hc
        obtain ⟨p, hp, hpc⟩ := hlow c hc
        have := (C.esome _ hbn p hp).1; omega
      have hseg_notin : ∀ c ∈ Ai.getD i 0 :: path, c ∉ yIdx := by
        intro c hc hcy
        rcases List.mem_cons.mp hc with h | h
        · rw [h] at hcy; exact hnotin hcy
        · have h2 := (hmem c h).2.1
          rw [hmset c, if_neg (by have := hseg_lt c h; omega)] at h2
          have := (hP.mrk c (by have := (hmem c h).1; omega)).mpr hcy
          rw [h2] at this; cases this
      have hseg_mem : ∀ c ∈ Ai.getD i 0 :: path, c < k ∧ Lpat (Apat Ap Ai) k c := by
        intro c hc
        rcases List.mem_cons.mp hc with h | h
        · rw [h]; exact ⟨hbk', hLb⟩
        · exact ⟨(hmem c h).1, (hmem c h).2.2⟩
      have hseg_pw : (Ai.getD i 0 :: path).Pairwise (· < ·) := by
        rw [List.pairwise_cons]; exact ⟨hseg_lt, hpw⟩
      have hnd' : (yIdx ++ (Ai.getD i 0 :: path).reverse).Nodup := by
        rw [List.nodup_append]
        refine ⟨hP.nd, ?_, ?_⟩
        · rw [List.nodup_reverse]
          exact hseg_pw.imp (fun h => Nat.ne_of_lt h)
        · intro x hx y hy e
          subst e
          exact hseg_notin x (List.mem_reverse.mp hy) hx
      have hlen : ¬ (yIdx.length + ([Ai.getD i 0] ++ path).length > n) := by
        have := nodup_length_le _ k hnd' (by
          intro x hx
          rcases List.mem_append.mp hx with h | h
          · exact (hP.mem x h).1
          · exact (hseg_mem x (List.mem_reverse.mp h)).1)
        simp only [List.length_append, List.length_reverse, List.length_cons, List.length_nil] at this ⊢
        omega
      refine ⟨({ s with yVals := s.yVals.set (Ai.getD i 0) (Ax.getD i 0) hyv, yMarkers := markers' },
        yIdx ++ ([Ai.getD i 0] ++ path).reverse), ?_, ?_⟩
      · simp only [rowPattern, getE_getD _ _ _ 0 hiA, getE_getD _ _ _ 0 hiX, bind, Except.bind, hbeq,
          setE_ok _ _ _ _ hyv, getE_getD _ _ _ false hmk, hun, setE_ok _ _ _ _ hmk,
          getE_getD _ _ _ none hbe, hrun, hlen, ↓reduceIte, pure, Except.pure, Bool.false_eq_true]
      · have hyIdx' : yIdx ++ ([Ai.getD i 0] ++ path).reverse = yIdx ++ (Ai.getD i 0 :: path).reverse := rfl
        rw [hyIdx']
        have hin : ∀ c, c ∈ yIdx ++ (Ai.getD i 0 :: path).reverse ↔
            (c ∈ yIdx ∨ c = Ai.getD i 0 ∨ c ∈ path) := by
          intro c; simp only [List.mem_append, List.mem_reverse, List.mem_cons]
        have hmark_old : ∀ p, p < n → (s.yMarkers.set (Ai.getD i 0) true hmk).getD p false = true →
            p ∈ yIdx ∨ p = Ai.getD i 0 := by
          intro p hp h
          rw [hmset p] at h
          by_cases hpb : p = Ai.getD i 0
          · exact Or.inr hpb
          · rw [if_neg hpb] at h; exact Or.inl ((hP.mrk p hp).mp h)
        refine { hP with
          yvsz := ?_, msz := hsz, dk1 := hdk1, dk0 := hdk0, yv1 := hyv1, yv0 := hyv0,
          mrk := ?_, mem := ?_, nd := hnd', clos := ?_, ord := ?_, done := ?_ }
        · simpa using hP.yvsz
        · intro c hc
          show markers'.getD c false = true ↔ _
          rw [hmk' c, hmset c, hin c]
          by_cases hcb : c = Ai.getD i 0
          · simp [hcb]
          · rw [if_neg hcb]
            have := hP.mrk c hc
            simp only at this
            rw [this]
            constructor
            · rintro (h | h)
              · exact Or.inl h
              · exact Or.inr (Or.inr h)
            · rintro (h | h | h)
              · exact Or.inl h
              · exact absurd h hcb
              · exact Or.inr h
        · intro c hc
          rcases List.mem_append.mp hc with h | h
          · exact hP.mem c h
          · exact hseg_mem c (List.mem_reverse.mp h)
        · intro c hc p hp hpk
          rw [hin p]
          rcases (hin c).mp hc with h | h | h
          · exact Or.inl (hP.clos c h p hp hpk)
          · rw [h] at hp
            rcases hhead p hp hpk with h' | h'
            · exact Or.inr (Or.inr h')
            · rcases hmark_old p (by omega) h' with h'' | h''
              · exact Or.inl h''
              · exact Or.inr (Or.inl h'')
          · rcases hclos c h p hp hpk with h' | h'
            · exact Or.inr (Or.inr h')
            · rcases hmark_old p (by omega) h' with h'' | h''
              · exact Or.inl h''
              · exact Or.inr (Or.inl h'')
        · rw [List.reverse_append, List.reverse_reverse, List.pairwise_append]
          refine ⟨hseg_pw.imp (fun h hL => by have := hL.lt; omega), hP.ord, ?_⟩
          intro x hx y hy hL
          have hy' : y ∈ yIdx := List.mem_reverse.mp hy
          have := C.closed k (by omega) (· ∈ yIdx) (fun c hc => (hP.mem c hc).1) hP.clos x y hy' hL
            (hseg_mem x hx).1
          exact hseg_notin x hx this
        · intro j hj hjk
          rw [hin]
          rcases List.mem_append.mp hj with h | h
          · exact Or.inl (hP.done j h hjk)
          · have : j = i := by simpa using h
            subst this; exact Or.inr (Or.inl rfl)

/-- a monadic fold whose steps succeed with a pure result is the pure fold -/
theorem foldlM_eq_ok_foldl {σ β : Type} (f : σ → β → MErr σ) (g : σ → β → σ) (Q : σ → Prop)
    (l : List β) (s : σ) (hQ : Q s)
    (h : ∀ s x, x ∈ l → Q s → f s x = .ok (g s x) ∧ Q (g s x)) :
    l.foldlM f s = .ok (l.foldl g s) := by
  induction l generalizing s with
  | nil => rfl
  | cons x t ih =>
    obtain ⟨h1, h2⟩ := h s x (by simp) hQ
    rw [List.foldlM_cons, h1, List.foldl_cons]
    exact ih (g s x) h2 (fun s' y hy hs' => h s' y (List.mem_cons_of_mem _ hy) hs')

theorem getD_setIfInBounds {β : Type} (xs : Array β) (i : Nat) (v : β) (c : Nat) (d : β) :
    (xs.setIfInBounds i v).getD c d = if c = i ∧ i < xs.size then v else xs.getD c d := by
  by_cases h : i < xs.size
  · have : xs.setIfInBounds i v = xs.set i v h := by simp [Array.setIfInBounds, h]
    rw [this, getD_set']
    by_cases hc : c = i <;> simp [hc, h]
  · have : xs.setIfInBounds i v = xs := by simp [Array.setIfInBounds, h]
    rw [this]; simp [h]

theorem set_eq_setIfInBounds {β : Type} (xs : Array β) (i : Nat) (v : β) (h : i < xs.size) :
    xs.set i v h = xs.setIfInBounds i v := by simp [Array.setIfInBounds, h]

/-- the inner loop of the second loop: `y_vals[Li[j]] -= Lx[j] * yc` over the stored column -/
def colSubP (Li : Array Nat) (Lx : Array α) (yc : α) (js : List Nat) (yv : Array α) : Array α :=
  js.foldl (fun yv j =>
    yv.setIfInBounds (Li.getD j 0) (yv.getD (Li.getD j 0) 0 - Lx.getD j 0 * yc)) yv

theorem colSubP_size (Li : Array Nat) (Lx : Array α) (yc : α) (js : List Nat) (yv : Array α) :
    (colSubP Li Lx yc js yv).size = yv.size := by
  unfold colSubP
  induction js generalizing yv with
  | nil => rfl
  | cons j t ih => rw [List.foldl_cons, ih]; simp

theorem colSubP_other (Li : Array Nat) (Lx : Array α) (yc : α) (js : List Nat) (yv : Array α)
    (x : Nat) (hx : ∀ j ∈ js, Li.getD j 0 ≠ x) :
    (colSubP Li Lx yc js yv).getD x 0 = yv.getD x 0 := by
  unfold colSubP
  induction js generalizing yv with
  | nil => rfl
  | cons j t ih =>
    rw [List.foldl_cons, ih _ (fun j' hj' => hx j' (List.mem_cons_of_mem _ hj')), getD_setIfInBounds,
      if_neg (fun h => hx j (by simp) h.1.symm)]

/-- one iteration of the second loop, as a pure function -/
def rowElimP (k : Nat) (s : FState α) (c : Nat) : FState α :=
  let tmp := s.nextColspace.getD c 0
  let f := s.Lp.getD c 0
  let yc := s.yVals.getD c 0
  let l := yc * s.Dinv.getD c 0
  { s with
    yVals := (colSubP s.Li s.Lx yc (List.range' f (tmp - f)) s.yVals).setIfInBounds c 0
    Lx := s.Lx.setIfInBounds tmp l
    D := s.D.setIfInBounds k (s.D.getD k 0 - yc * l)
    Li := s.Li.setIfInBounds tmp k
    nextColspace := s.nextColspace.setIfInBounds c (tmp + 1)
    yMarkers := s.yMarkers.setIfInBounds c false }

/-- `rowEliminate` (numeric mode) succeeds with `rowElimP` when all its indices are in range -/
theorem rowEliminate_eq (k : Nat) (s : FState α) (c : Nat)
    (hc1 : c < s.nextColspace.size) (hc2 : c < s.yVals.size) (hc3 : c < s.Lp.size)
    (hc4 : c < s.Dinv.size) (hc5 : c < s.yMarkers.size) (hk : k < s.D.size)
    (hf : s.Lp.getD c 0 ≤ s.nextColspace.getD c 0)
    (ht1 : s.nextColspace.getD c 0 < s.Li.size) (ht2 : s.nextColspace.getD c 0 < s.Lx.size)
    (hrows : ∀ j, s.Lp.getD c 0 ≤ j → j < s.nextColspace.getD c 0 → s.Li.getD j 0 < s.yVals.size) :
    rowEliminate false k s c = .ok (rowElimP k s c) := by
  have hcond : (!(decide (s.Lp.getD c 0 ≤ s.nextColspace.getD c 0) &&
      decide (s.nextColspace.getD c 0 ≤ s.Lx.size) && decide (s.nextColspace.getD c 0 ≤ s.Li.size))) = false := by
    rw [decide_eq_true hf, decide_eq_true (Nat.le_of_lt ht2), decide_eq_true (Nat.le_of_lt ht1)]; rfl
  have hfold := foldlM_eq_ok_foldl
    (fun (yv : Array α) j => do
      let lij ← getE s.Li j "_factor_inner: Li[j]"
      let lxj ← getE s.Lx j "_factor_inner: Lx[j]"
      let cur ← getE yv lij "_factor_inner: y_vals[Lij] (unchecked)"
      setE yv lij (cur - lxj * s.yVals.getD c 0) "_factor_inner: y_vals[Lij] (unchecked)")
    (fun yv j => yv.setIfInBounds (s.Li.getD j 0) (yv.getD (s.Li.getD j 0) 0 - s.Lx.getD j 0 * s.yVals.getD c 0))
    (fun yv => yv.size = s.yVals.size)
    (List.range' (s.Lp.getD c 0) (s.nextColspace.getD c 0 - s.Lp.getD c 0)) s.yVals rfl (by
      intro yv j hj hyv
      rw [List.mem_range'_1] at hj
      have h1 : j < s.Li.size := by omega
      have h2 : j < s.Lx.size := by omega
      have h3 : s.Li.getD j 0 < yv.size := by rw [hyv]; exact hrows j hj.1 (by omega)
      refine ⟨?_, by simpa using hyv⟩
      simp only [getE_getD _ _ _ 0 h1, getE_getD _ _ _ 0 h2, getE_getD _ _ _ 0 h3, setE_ok _ _ _ _ h3,
        bind, Except.bind, set_eq_setIfInBounds])
  simp only [bind, Except.bind] at hfold
  have hys : c < (List.foldl (fun (yv : Array α) j =>
      yv.setIfInBounds (s.Li.getD j 0) (yv.getD (s.Li.getD j 0) 0 - s.Lx.getD j 0 * s.yVals.getD c 0))
      s.yVals (List.range' (s.Lp.getD c 0) (s.nextColspace.getD c 0 - s.Lp.getD c 0))).size := by
    have := colSubP_size s.Li s.Lx (s.yVals.getD c 0)
      (List.range' (s.Lp.getD c 0) (s.nextColspace.getD c 0 - s.Lp.getD c 0)) s.yVals
    unfold colSubP at this
    rw [this]; exact hc2
  unfold rowEliminate rowElimP colSubP
  simp only [getE_getD _ _ _ 0 hc1, getE_getD _ _ _ 0 hc2, getE_getD _ _ _ 0 hc3, getE_getD _ _ _ 0 hc4,
    getE_getD _ _ _ 0 hk, bind, Except.bind, Bool.not_false, ↓reduceIte, hcond, Bool.false_eq_true,
    hfold, setE_ok _ _ _ _ ht2, setE_ok _ _ _ _ hk, setE_ok _ _ _ _ ht1, setE_ok _ _ _ _ hc1,
    setE_ok _ _ _ _ hc5, setE_ok _ _ _ _ hys, pure, Except.pure, set_eq_setIfInBounds]

/-! ### column slots -/

/-- `Lp[c]` -/
def LpOf (Lnz : Array Nat) (c : Nat) : Nat := (cumsum Lnz).getD c 0

theorem LpOf_succ (Lnz : Array Nat) (c : Nat) (hc : c < Lnz.size) :
    LpOf Lnz (c + 1) = LpOf Lnz c + Lnz.getD c 0 := (cumsum_spec Lnz).2.2 c hc

theorem LpOf_mono (Lnz : Array Nat) (c c' : Nat) (h : c ≤ c') (hc' : c' ≤ Lnz.size) :
    LpOf Lnz c ≤ LpOf Lnz c' := cumsum_mono Lnz c c' h hc'

theorem Llen_mono (A : Nat → Nat → Prop) (c k k' : Nat) (h : k ≤ k') :
    (Lrows A k c).length ≤ (Lrows A k' c).length := by
  induction k' with
  | zero => have : k = 0 := by omega
            subst this; exact Nat.le_refl _
  | succ m ih =>
    by_cases hk : k = m + 1
    · subst hk; exact Nat.le_refl _
    · have := ih (by omega)
      rw [Lrows_length_succ]; omega

theorem Llen_lt (A : Nat → Nat → Prop) (c k k' : Nat) (hL : Lpat A k c) (h : k < k') :
    (Lrows A k c).length < (Lrows A k' c).length := by
  have h1 := Llen_mono A c (k + 1) k' h
  rw [Lrows_length_succ, if_pos hL] at h1
  omega

theorem Lrows_getElem?_succ (A : Nat → Nat → Prop) (k c t r : Nat)
    (h : (Lrows A (k + 1) c)[t]? = some r) :
    (t < (Lrows A k c).length ∧ (Lrows A k c)[t]? = some r) ∨
      (t = (Lrows A k c).length ∧ r = k ∧ Lpat A k c) := by
  rw [Lrows_succ, List.getElem?_append] at h
  split at h
  · rename_i hlt; exact Or.inl ⟨hlt, h⟩
  · rename_i hge
    right
    by_cases hL : Lpat A k c
    · rw [if_pos hL] at h
      have : t - (Lrows A k c).length = 0 := by
        by_contra hne
        rw [List.getElem?_eq_none (by simp; omega)] at h; cases h
      rw [this] at h
      simp only [List.getElem?_cons_zero, Option.some.injEq] at h
      exact ⟨by omega, h.symm, hL⟩
    · rw [if_neg hL] at h; simp at h

section slots
variable (C : FCtx n Ap Ai etree Lnz)
include C

theorem slot_lt (c t : Nat) (hc : c < n) (ht : t < (Lrows (Apat Ap Ai) n c).length) :
    LpOf Lnz c + t < LpOf Lnz (c + 1) := by
  rw [LpOf_succ Lnz c (by rw [C.lsz]; exact hc), C.cnt c hc]; omega

theorem slot_lt_n (c t : Nat) (hc : c < n) (ht : t < (Lrows (Apat Ap Ai) n c).length) :
    LpOf Lnz c + t < LpOf Lnz n := by
  have h1 := slot_lt C c t hc ht
  have h2 := LpOf_mono Lnz (c + 1) n (by omega) (by rw [C.lsz])
  omega

theorem slot_ne (c c' t t' : Nat) (hc : c < n) (hc' : c' < n) (hne : c ≠ c')
    (ht : t < (Lrows (Apat Ap Ai) n c).length) (ht' : t' < (Lrows (Apat Ap Ai) n c').length) :
    LpOf Lnz c + t ≠ LpOf Lnz c' + t' := by
  have h1 := slot_lt C c t hc ht
  have h2 := slot_lt C c' t' hc' ht'
  rcases Nat.lt_or_ge c c' with h | h
  · have := LpOf_mono Lnz (c + 1) c' (by omega) (by rw [C.lsz]; omega)
    omega
  · have := LpOf_mono Lnz (c' + 1) c (by omega) (by rw [C.lsz]; omega)
    omega

end slots

/-! ### the second loop of iteration `k` -/

/-- what the first loop establishes about the row pattern, in elimination order -/
structure OrdOK (Ap Ai : Array Nat) (k : Nat) (ord : List Nat) : Prop where
  mem : ∀ c ∈ ord, c < k ∧ Lpat (Apat Ap Ai) k c
  nd : ord.Nodup
  topo : ord.Pairwise (fun c x => ¬ Lpat (Apat Ap Ai) c x)
  complete : ∀ c, Lpat (Apat Ap Ai) k c → c ∈ ord

/-- invariant of the second loop (`pre`: the columns already eliminated; `s1`: the state after
the first loop) -/
structure Mid (Ap Ai : Array Nat) (Lnz : Array Nat) (n k LiSz : Nat) (ord : List Nat)
    (s1 : FState α) (pre : List Nat) (s : FState α) : Prop where
  lp : s.Lp = cumsum Lnz
  fDinv : s.Dinv = s1.Dinv
  frc : s.regularizeCount = s1.regularizeCount
  fpos : s.positive = s1.positive
  lisz : s.Li.size = LiSz
  lxsz : s.Lx.size = LiSz
  dsz : s.D.size = n
  disz : s.Dinv.size = n
  msz : s.yMarkers.size = n
  ncsz : s.nextColspace.size = n
  yvsz : s.yVals.size = n
  mrk : ∀ x, x < n → (s.yMarkers.getD x false = true ↔ (x ∈ ord ∧ x ∉ pre))
  nc : ∀ x, x < n → s.nextColspace.getD x 0 =
    LpOf Lnz x + (Lrows (Apat Ap Ai) k x).length + (if x ∈ pre then 1 else 0)
  li_old : ∀ x, x < n → ∀ t r, (Lrows (Apat Ap Ai) k x)[t]? = some r → s.Li.getD (LpOf Lnz x + t) 0 = r
  li_new : ∀ x ∈ pre, s.Li.getD (LpOf Lnz x + (Lrows (Apat Ap Ai) k x).length) 0 = k
  lx_old : ∀ x, x < n → ∀ t, t < (Lrows (Apat Ap Ai) k x).length →
    s.Lx.getD (LpOf Lnz x + t) 0 = s1.Lx.getD (LpOf Lnz x + t) 0
  dother : ∀ x, x ≠ k → s.D.getD x 0 = s1.D.getD x 0
  yvz : ∀ x, x < n → (x ∉ ord ∨ x ∈ pre) → s.yVals.getD x 0 = 0

/-- facts used by every step of the second loop -/
theorem mid_facts (C : FCtx n Ap Ai etree Lnz) (LiSz : Nat) (hLi : LpOf Lnz n ≤ LiSz) (k : Nat)
    (hk : k < n) (ord : List Nat) (hO : OrdOK Ap Ai k ord) (s1 : FState α) (pre : List Nat) (c : Nat)
    (post : List Nat) (hord : ord = pre ++ c :: post) (s : FState α)
    (hM : Mid Ap Ai Lnz n k LiSz ord s1 pre s) :
    c < n ∧ c < k ∧ Lpat (Apat Ap Ai) k c ∧ c ∉ pre ∧
    s.Lp.getD c 0 = LpOf Lnz c ∧
    s.nextColspace.getD c 0 = LpOf Lnz c + (Lrows (Apat Ap Ai) k c).length ∧
    (Lrows (Apat Ap Ai) k c).length < (Lrows (Apat Ap Ai) n c).length ∧
    LpOf Lnz c + (Lrows (Apat Ap Ai) k c).length < LiSz ∧
    (∀ j, LpOf Lnz c ≤ j → j < LpOf Lnz c + (Lrows (Apat Ap Ai) k c).length →
      s.Li.getD j 0 < k ∧ Lpat (Apat Ap Ai) (s.Li.getD j 0) c ∧ s.Li.getD j 0 ∈ ord ∧
        s.Li.getD j 0 ∉ pre ∧ s.Li.getD j 0 ≠ c) := by
  have hcord : c ∈ ord := by rw [hord]; simp
  obtain ⟨hck, hLc⟩ := hO.mem c hcord
  have hcn : c < n := by omega
  have hcpre : c ∉ pre := by
    have := hO.nd
    rw [hord, List.nodup_append] at this
    intro h
    exact this.2.2 c h c (by simp) rfl
  have hlen := Llen_lt (Apat Ap Ai) c k n hLc hk
  have hnc := hM.nc c hcn
  rw [if_neg hcpre, Nat.add_zero] at hnc
  refine ⟨hcn, hck, hLc, hcpre, by rw [hM.lp]; rfl, hnc, hlen, ?_, ?_⟩
  · have := slot_lt_n C c _ hcn hlen; omega
  · intro j hj1 hj2
    obtain ⟨t, rfl⟩ : ∃ t, j = LpOf Lnz c + t := ⟨j - LpOf Lnz c, by omega⟩
    have ht : t < (Lrows (Apat Ap Ai) k c).length := by omega
    have hget : (Lrows (Apat Ap Ai) k c)[t]? = some (Lrows (Apat Ap Ai) k c)[t] := by simp [ht]
    rw [hM.li_old c hcn t _ hget]
    have hmemr := (mem_Lrows (Apat Ap Ai) k c _).mp (List.getElem_mem ht)
    have hLr := hmemr.2
    have hcr := hLr.lt
    have hkr : Lpat (Apat Ap Ai) k (Lrows (Apat Ap Ai) k c)[t] := Lpat.fill hcr hmemr.1 hLr hLc
    refine ⟨hmemr.1, hLr, hO.complete _ hkr, ?_, by omega⟩
    intro hpre
    have := hO.topo
    rw [hord, List.pairwise_append] at this
    exact this.2.2 _ hpre c (by simp) hLr

theorem mid_step (C : FCtx n Ap Ai etree Lnz) (LiSz : Nat) (hLi : LpOf Lnz n ≤ LiSz) (k : Nat)
    (hk : k < n) (ord : List Nat) (hO : OrdOK Ap Ai k ord) (s1 : FState α) (pre : List Nat) (c : Nat)
    (post : List Nat) (hord : ord = pre ++ c :: post) (s : FState α)
    (hM : Mid Ap Ai Lnz n k LiSz ord s1 pre s) :
    rowEliminate false k s c = .ok (rowElimP k s c) ∧
      Mid Ap Ai Lnz n k LiSz ord s1 (pre ++ [c]) (rowElimP k s c) := by
  obtain ⟨hcn, hck, hLc, hcpre, hlpc, hncc, hlen, hslot, hrows⟩ :=
    mid_facts C LiSz hLi k hk ord hO s1 pre c post hord s hM
  have hcord : c ∈ ord := by rw [hord]; simp
  constructor
  · apply rowEliminate_eq
    · rw [hM.ncsz]; exact hcn
    · rw [hM.yvsz]; exact hcn
    · rw [hM.lp, (cumsum_spec Lnz).1, C.lsz]; omega
    · rw [hM.disz]; exact hcn
    · rw [hM.msz]; exact hcn
    · rw [hM.dsz]; exact hk
    · rw [hlpc, hncc]; omega
    · rw [hncc, hM.lisz]; exact hslot
    · rw [hncc, hM.lxsz]; exact hslot
    · intro j hj1 hj2
      rw [hlpc] at hj1; rw [hncc] at hj2
      rw [hM.yvsz]; have := (hrows j hj1 hj2).1; omega
  · -- a position of an old entry, or of the new entry of an earlier column, is not the new slot
    have hne_old : ∀ x, x < n → ∀ t, t < (Lrows (Apat Ap Ai) k x).length →
        LpOf Lnz x + t ≠ s.nextColspace.getD c 0 := by
      intro x hx t ht
      rw [hncc]
      by_cases hxc : x = c
      · subst hxc; omega
      · exact slot_ne C x c t _ hx hcn hxc
          (Nat.lt_of_lt_of_le ht (Llen_mono _ _ _ _ (by omega))) hlen
    have hmem_app : ∀ x, x ∈ pre ++ [c] ↔ (x ∈ pre ∨ x = c) := by intro x; simp
    constructor
    · exact hM.lp
    · exact hM.fDinv
    · exact hM.frc
    · exact hM.fpos
    · show (s.Li.setIfInBounds _ _).size = LiSz
      simpa using hM.lisz
    · show (s.Lx.setIfInBounds _ _).size = LiSz
      simpa using hM.lxsz
    · show (s.D.setIfInBounds _ _).size = n
      simpa using hM.dsz
    · exact hM.disz
    · show (s.yMarkers.setIfInBounds _ _).size = n
      simpa using hM.msz
    · show (s.nextColspace.setIfInBounds _ _).size = n
      simpa using hM.ncsz
    · show ((colSubP _ _ _ _ _).setIfInBounds _ _).size = n
      rw [Array.size_setIfInBounds, colSubP_size]; exact hM.yvsz
    · intro x hx
      show (s.yMarkers.setIfInBounds c false).getD x false = true ↔ _
      rw [getD_setIfInBounds, hmem_app]
      by_cases hxc : x = c
      · subst hxc
        rw [if_pos ⟨rfl, by rw [hM.msz]; exact hx⟩]
        simp
      · rw [if_neg (fun h => hxc h.1), hM.mrk x hx]
        simp [hxc]
    · intro x hx
      show (s.nextColspace.setIfInBounds c (s.nextColspace.getD c 0 + 1)).getD x 0 = _
      rw [getD_setIfInBounds]
      by_cases hxc : x = c
      · subst hxc
        rw [if_pos ⟨rfl, by rw [hM.ncsz]; exact hx⟩, hncc, if_pos (by simp)]
      · rw [if_neg (fun h => hxc h.1), hM.nc x hx]
        have : (x ∈ pre ++ [c]) ↔ x ∈ pre := by rw [hmem_app]; simp [hxc]
        simp only [this]
    · intro x hx t r hr
      show (s.Li.setIfInBounds (s.nextColspace.getD c 0) k).getD (LpOf Lnz x + t) 0 = r
      have ht : t < (Lrows (Apat Ap Ai) k x).length := by
        rcases Nat.lt_or_ge t (Lrows (Apat Ap Ai) k x).length with h | h
        · exact h
        · rw [List.getElem?_eq_none h] at hr; cases hr
      rw [getD_setIfInBounds, if_neg (fun h => hne_old x hx t ht h.1)]
      exact hM.li_old x hx t r hr
    · intro x hxp
      show (s.Li.setIfInBounds (s.nextColspace.getD c 0) k).getD _ 0 = k
      rw [getD_setIfInBounds]
      rcases (hmem_app x).mp hxp with h | h
      · have hxord : x ∈ ord := by rw [hord]; simp [h]
        obtain ⟨hxk, hLx⟩ := hO.mem x hxord
        have hxc : x ≠ c := fun e => hcpre (e ▸ h)
        rw [if_neg]
        · exact hM.li_new x h
        · intro h'
          rw [hncc] at h'
          exact slot_ne C x c _ _ (by omega) hcn hxc (Llen_lt _ _ _ _ hLx hk) hlen h'.1
      · subst h
        rw [if_pos ⟨by rw [hncc], by rw [hM.lisz, hncc]; exact hslot⟩]
    · intro x hx t ht
      show (s.Lx.setIfInBounds (s.nextColspace.getD c 0) _).getD (LpOf Lnz x + t) 0 = _
      rw [getD_setIfInBounds, if_neg (fun h => hne_old x hx t ht h.1)]
      exact hM.lx_old x hx t ht
    · intro x hx
      show (s.D.setIfInBounds k _).getD x 0 = _
      rw [getD_setIfInBounds, if_neg (fun h => hx h.1)]
      exact hM.dother x hx
    · intro x hx hcase
      show ((colSubP s.Li s.Lx (s.yVals.getD c 0)
        (List.range' (s.Lp.getD c 0) (s.nextColspace.getD c 0 - s.Lp.getD c 0)) s.yVals).setIfInBounds c 0).getD x 0 = 0
      rw [getD_setIfInBounds]
      by_cases hxc : x = c
      · subst hxc
        rw [if_pos ⟨rfl, by rw [colSubP_size, hM.yvsz]; exact hx⟩]
      · rw [if_neg (fun h => hxc h.1), colSubP_other]
        · apply hM.yvz x hx
          rcases hcase with h | h
          · exact Or.inl h
          · rcases (hmem_app x).mp h with h' | h'
            · exact Or.inr h'
            · exact absurd h' hxc
        · intro j hj
          rw [List.mem_range'_1, hlpc, hncc] at hj
          obtain ⟨_, _, hro, hrp, _⟩ := hrows j hj.1 (by omega)
          intro e
          rcases hcase with h | h
          · exact h (e ▸ hro)
          · rcases (hmem_app x).mp h with h' | h'
            · exact hrp (e ▸ h')
            · exact hxc h'

/-! ### one iteration of the main loop -/

theorem foldl_list_inv {β σ : Type} (g : σ → β → σ) (P : List β → σ → Prop) (l : List β)
    (s0 : σ) (h0 : P [] s0)
    (hstep : ∀ pre x post, l = pre ++ x :: post → ∀ s, P pre s → P (pre ++ [x]) (g s x)) :
    P l (l.foldl g s0) := by
  have key : ∀ post pre s, l = pre ++ post → P pre s → P l (post.foldl g s) := by
    intro post
    induction post with
    | nil => intro pre s hl hP; rw [hl]; simpa using hP
    | cons x t ih =>
      intro pre s hl hP
      rw [List.foldl_cons]
      exact ih (pre ++ [x]) (g s x) (by rw [hl]; simp) (hstep pre x t hl s hP)
  exact key l [] s0 rfl h0

/-- invariant of the main loop of `_factor_inner` at the start of iteration `k` -/
structure RowInv (Ap Ai : Array Nat) (Lnz : Array Nat) (n k LiSz : Nat) (s : FState α) : Prop where
  lp : s.Lp = cumsum Lnz
  lisz : s.Li.size = LiSz
  lxsz : s.Lx.size = LiSz
  dsz : s.D.size = n
  disz : s.Dinv.size = n
  msz : s.yMarkers.size = n
  ncsz : s.nextColspace.size = n
  yvsz : s.yVals.size = n
  mrk0 : ∀ c, c < n → s.yMarkers.getD c false = false
  yv0 : ∀ c, c < n → s.yVals.getD c 0 = 0
  nc : ∀ c, c < n → s.nextColspace.getD c 0 = LpOf Lnz c + (Lrows (Apat Ap Ai) k c).length
  li : ∀ c, c < n → ∀ t r, (Lrows (Apat Ap Ai) k c)[t]? = some r → s.Li.getD (LpOf Lnz c + t) 0 = r
  dz : ∀ c, k ≤ c → c < n → s.D.getD c 0 = 0

/-- the two loops of iteration `k`: the first one computes the row pattern `yIdx` (state `s1`),
the second one is the pure fold of `rowElimP` over `yIdx` reversed -/
theorem factorRow_eq' (C : FCtx n Ap Ai etree Lnz) (Ax : Array α) (a : Nat → Nat → α)
    (hR : Represents n Ap Ai Ax a) (LiSz : Nat) (hLi : LpOf Lnz n ≤ LiSz) (rp : RegParams α)
    (k : Nat) (hk : k < n) (s : FState α) (hI : RowInv Ap Ai Lnz n k LiSz s) :
    ∃ s1 yIdx, OrdOK Ap Ai k yIdx.reverse ∧
      Pat1 Ap Ai etree a n k s (List.range' (Ap.getD k 0) (Ap.getD (k + 1) 0 - Ap.getD k 0)) (s1, yIdx) ∧
      Mid Ap Ai Lnz n k LiSz yIdx.reverse s1 [] s1 ∧
      Mid Ap Ai Lnz n k LiSz yIdx.reverse s1 yIdx.reverse (yIdx.reverse.foldl (rowElimP k) s1) ∧
      factorRow n Ap Ai Ax etree false rp s k =
        finishPivot rp k (yIdx.reverse.foldl (rowElimP k) s1) ∧
      (List.range' (Ap.getD k 0) (Ap.getD (k + 1) 0 - Ap.getD k 0)).foldlM (rowPattern n Ai Ax etree k) (s, []) =
        .ok (s1, yIdx) := by
  have h1 : k < Ap.size := by rw [C.tri.ap_size]; omega
  have h2 : k + 1 < Ap.size := by rw [C.tri.ap_size]; omega
  -- first loop
  obtain ⟨⟨s1, yIdx⟩, hrun1, hP⟩ := foldlM_list_inv (rowPattern n Ai Ax etree k)
    (fun pre sy => Pat1 Ap Ai etree a n k s pre sy)
    (List.range' (Ap.getD k 0) (Ap.getD (k + 1) 0 - Ap.getD k 0)) (s, [])
    { fLp := rfl, fLi := rfl, fLx := rfl, fDinv := rfl, fnc := rfl, frc := rfl, fpos := rfl,
      dsz := hI.dsz, yvsz := hI.yvsz, msz := hI.msz, dother := fun _ _ => rfl,
      dk1 := by rintro ⟨i, hi, _⟩; simp at hi
      dk0 := fun _ => rfl
      yv1 := by rintro x _ _ ⟨i, hi, _⟩; simp at hi
      yv0 := fun _ _ _ => rfl
      mrk := by intro c hc; simp [hI.mrk0 c hc]
      mem := by simp, nd := by simp, clos := by simp, ord := by simp, done := by simp }
    (by
      intro pre i post hl sy hsy
      have hi : i ∈ List.range' (Ap.getD k 0) (Ap.getD (k + 1) 0 - Ap.getD k 0) := by rw [hl]; simp
      rw [List.mem_range'_1] at hi
      exact rowPattern_spec C Ax a hR k hk s pre sy hsy i hi.1 (by omega))
  have hO : OrdOK Ap Ai k yIdx.reverse := by
    refine ⟨fun c hc => hP.mem c (List.mem_reverse.mp hc), List.nodup_reverse.mpr hP.nd, hP.ord, ?_⟩
    intro c hc
    rw [List.mem_reverse]
    revert c
    apply Lpat.complete (· ∈ yIdx) k
    · rintro i hik ⟨t, ht1, ht2, ht3⟩
      have := hP.done t (by rw [List.mem_range'_1]; omega) (by omega)
      rw [ht3] at this; exact this
    · exact C.closed k (by omega) (· ∈ yIdx) (fun c hc => (hP.mem c hc).1) hP.clos
  have hM0 : Mid Ap Ai Lnz n k LiSz yIdx.reverse s1 [] s1 := by
    have e1 := hP.fLp; have e2 := hP.fLi; have e3 := hP.fLx; have e4 := hP.fDinv; have e5 := hP.fnc
    simp only at e1 e2 e3 e4 e5
    refine { lp := by rw [e1]; exact hI.lp, fDinv := rfl, frc := rfl, fpos := rfl,
             lisz := by rw [e2]; exact hI.lisz, lxsz := by rw [e3]; exact hI.lxsz,
             dsz := hP.dsz, disz := by rw [e4]; exact hI.disz, msz := hP.msz,
             ncsz := by rw [e5]; exact hI.ncsz, yvsz := hP.yvsz, mrk := ?_, nc := ?_, li_old := ?_,
             li_new := by simp, lx_old := fun _ _ _ _ => rfl, dother := fun _ _ => rfl, yvz := ?_ }
    · intro x hx
      have := hP.mrk x hx
      simp only at this
      rw [this]; simp
    · intro x hx; rw [e5, hI.nc x hx]; simp
    · intro x hx t r hr; rw [e2]; exact hI.li x hx t r hr
    · intro x hx hcase
      have hxo : x ∉ yIdx := by
        rcases hcase with h | h
        · exact fun h' => h (List.mem_reverse.mpr h')
        · simp at h
      have := hP.yv0 x hx (by
        by_cases hxk : x = k
        · exact Or.inl hxk
        · right
          rintro ⟨i, hi, hix⟩
          have := hP.done i hi (by rw [hix]; exact hxk)
          rw [hix] at this; exact hxo this)
      simp only at this
      rw [this]; exact hI.yv0 x hx
  -- second loop
  obtain ⟨s2, hrun2, hs2, hM2⟩ := foldlM_list_inv (rowEliminate false k)
    (fun pre s' => s' = pre.foldl (rowElimP k) s1 ∧ Mid Ap Ai Lnz n k LiSz yIdx.reverse s1 pre s')
    yIdx.reverse s1 ⟨rfl, hM0⟩ (by
      intro pre c post hl s' ⟨hs', hM'⟩
      obtain ⟨hr, hM''⟩ := mid_step C LiSz hLi k hk yIdx.reverse hO s1 pre c post hl s' hM'
      refine ⟨_, hr, ?_, hM''⟩
      rw [List.foldl_append, ← hs']; rfl)
  subst hs2
  refine ⟨s1, yIdx, hO, hP, hM0, hM2, ?_, hrun1⟩
  simp only [factorRow, getE_getD _ _ _ 0 h1, getE_getD _ _ _ 0 h2, bind, Except.bind, hrun1, hrun2,
    Bool.not_false, ↓reduceIte]

theorem factorRow_eq (C : FCtx n Ap Ai etree Lnz) (Ax : Array α) (a : Nat → Nat → α)
    (hR : Represents n Ap Ai Ax a) (LiSz : Nat) (hLi : LpOf Lnz n ≤ LiSz) (rp : RegParams α)
    (k : Nat) (hk : k < n) (s : FState α) (hI : RowInv Ap Ai Lnz n k LiSz s) :
    ∃ s1 yIdx, OrdOK Ap Ai k yIdx.reverse ∧
      Pat1 Ap Ai etree a n k s (List.range' (Ap.getD k 0) (Ap.getD (k + 1) 0 - Ap.getD k 0)) (s1, yIdx) ∧
      Mid Ap Ai Lnz n k LiSz yIdx.reverse s1 [] s1 ∧
      Mid Ap Ai Lnz n k LiSz yIdx.reverse s1 yIdx.reverse (yIdx.reverse.foldl (rowElimP k) s1) ∧
      factorRow n Ap Ai Ax etree false rp s k =
        finishPivot rp k (yIdx.reverse.foldl (rowElimP k) s1) := by
  obtain ⟨s1, yIdx, h1, h2, h3, h4, h5, _⟩ := factorRow_eq' C Ax a hR LiSz hLi rp k hk s hI
  exact ⟨s1, yIdx, h1, h2, h3, h4, h5⟩

/-- `finishPivot` as an equation (the tail of every iteration) -/
theorem finishPivot_eq (rp : RegParams α) (k : Nat) (s : FState α)
    (hD : k < s.D.size) (hS : rp.enable = true → k < rp.Dsigns.size) (hI : k < s.Dinv.size) :
    finishPivot rp k s =
      (let r := regularizePivot rp.enable rp.eps rp.delta (rp.Dsigns.getD k 0) (s.D.getD k 0)
       if (r.1 == (0 : α)) = true then .error errZeroPivot
       else .ok { s with
         D := s.D.setIfInBounds k r.1, Dinv := s.Dinv.setIfInBounds k ((1 : α) / r.1),
         regularizeCount := s.regularizeCount + (if r.2 then 1 else 0),
         positive := s.positive + (if (0 : α) < r.1 then 1 else 0) }) := by
  unfold finishPivot
  rw [getE_getD _ _ _ 0 hD]
  generalize s.D.getD k 0 = dk
  cases hen : rp.enable
  · simp only [setE, hD, hI, regularizePivot, bind, Except.bind, pure, Except.pure,
      Bool.false_eq_true, ↓reduceIte, ↓reduceDIte, Array.setIfInBounds, throw, throwThe,
      MonadExceptOf.throw]
    by_cases hz : (dk == (0 : α)) = true
    · simp [hz]
    · simp only [hz, Bool.false_eq_true, ↓reduceIte, Nat.add_zero]
      by_cases hp : (0 : α) < dk <;> simp [hp]
  · have hS' := hS hen
    rw [getE_getD _ _ _ 0 hS']
    generalize rp.Dsigns.getD k 0 = sg
    simp only [setE, hD, hI, bind, Except.bind, pure,
      Except.pure, ↓reduceIte, ↓reduceDIte, Array.setIfInBounds, throw, throwThe, MonadExceptOf.throw]
    generalize regularizePivot true rp.eps rp.delta sg dk = r
    obtain ⟨r1, r2⟩ := r
    by_cases hz : (r1 == (0 : α)) = true
    · simp [hz]
    · simp only [hz, Bool.false_eq_true, ↓reduceIte]
      cases r2 <;> by_cases hp : (0 : α) < r1 <;> simp [hp]

/-- the state after the two loops and the pivot step satisfies the invariant of the next row -/
theorem rowInv_next (LiSz : Nat) (k : Nat) (hk : k < n) (s : FState α)
    (hI : RowInv Ap Ai Lnz n k LiSz s) (s1 : FState α) (yIdx pos : List Nat)
    (hO : OrdOK Ap Ai k yIdx.reverse) (hP : Pat1 Ap Ai etree a n k s pos (s1, yIdx))
    (s2 : FState α) (hM : Mid Ap Ai Lnz n k LiSz yIdx.reverse s1 yIdx.reverse s2)
    (d di : α) (rc ps : Nat) :
    RowInv Ap Ai Lnz n (k + 1) LiSz
      { s2 with D := s2.D.setIfInBounds k d, Dinv := s2.Dinv.setIfInBounds k di,
                regularizeCount := rc, positive := ps } := by
  refine { lp := hM.lp, lisz := hM.lisz, lxsz := hM.lxsz, dsz := ?_, disz := ?_, msz := hM.msz,
           ncsz := hM.ncsz, yvsz := hM.yvsz, mrk0 := ?_, yv0 := ?_, nc := ?_, li := ?_, dz := ?_ }
  · show (s2.D.setIfInBounds k d).size = n
    simpa using hM.dsz
  · show (s2.Dinv.setIfInBounds k di).size = n
    simpa using hM.disz
  · intro c hc
    have := hM.mrk c hc
    cases h : s2.yMarkers.getD c false with
    | false => rfl
    | true => exact absurd (this.mp h).1 (this.mp h).2
  · intro c hc
    apply hM.yvz c hc
    by_cases h : c ∈ yIdx.reverse
    · exact Or.inr h
    · exact Or.inl h
  · intro c hc
    show s2.nextColspace.getD c 0 = _
    rw [hM.nc c hc, Lrows_length_succ]
    have : c ∈ yIdx.reverse ↔ Lpat (Apat Ap Ai) k c :=
      ⟨fun h => (hO.mem c h).2, hO.complete c⟩
    by_cases hL : Lpat (Apat Ap Ai) k c
    · rw [if_pos (this.mpr hL), if_pos hL]; omega
    · rw [if_neg (fun h => hL (this.mp h)), if_neg hL]; omega
  · intro c hc t r hr
    show s2.Li.getD _ 0 = r
    rcases Lrows_getElem?_succ _ _ _ _ _ hr with ⟨_, h⟩ | ⟨ht, hr', hL⟩
    · exact hM.li_old c hc t r h
    · rw [ht, hr']; exact hM.li_new c (hO.complete c hL)
  · intro c hkc hc
    show (s2.D.setIfInBounds k d).getD c 0 = 0
    rw [getD_setIfInBounds, if_neg (fun h => by omega), hM.dother c (by omega)]
    have := hP.dother c (by omega)
    simp only at this
    rw [this]; exact hI.dz c (by omega) hc

/-! ### the main loop -/

/-- invariant rule for a loop whose steps may fail: what holds if the loop succeeds -/
theorem foldlM_range_inv_ok {β : Type} (f : β → Nat → MErr β) (P : Nat → β → Prop) (n : Nat) (x0 : β)
    (h0 : P 0 x0) (hstep : ∀ i, i < n → ∀ x x', P i x → f x i = .ok x' → P (i + 1) x') :
    ∀ xn, (List.range n).foldlM f x0 = .ok xn → P n xn := by
  induction n with
  | zero => intro xn h; cases h; exact h0
  | succ m ih =>
    intro xn h
    rw [List.range_succ, List.foldlM_append] at h
    cases hm : (List.range m).foldlM f x0 with
    | error e => rw [hm] at h; cases h
    | ok xm =>
      rw [hm] at h
      have hP := ih (fun i hi x x' hx hf => hstep i (by omega) x x' hx hf) xm hm
      simp only [bind, Except.bind, List.foldlM_cons, List.foldlM_nil, pure, Except.pure] at h
      cases hf : f xm m with
      | error e => rw [hf] at h; simp at h
      | ok x' =>
        rw [hf] at h
        have : x' = xn := by simpa using h
        subst this
        exact hstep m (by omega) xm x' hP hf

/-- invariant rule for a loop whose steps may fail with one specific error -/
theorem foldlM_range_inv_err {β : Type} (f : β → Nat → MErr β) (P : Nat → β → Prop) (e : ModelErr)
    (n : Nat) (x0 : β) (h0 : P 0 x0)
    (hstep : ∀ i, i < n → ∀ x, P i x → f x i = .error e ∨ ∃ x', f x i = .ok x' ∧ P (i + 1) x') :
    (List.range n).foldlM f x0 = .error e ∨ ∃ xn, (List.range n).foldlM f x0 = .ok xn ∧ P n xn := by
  induction n with
  | zero => exact Or.inr ⟨x0, rfl, h0⟩
  | succ m ih =>
    rw [List.range_succ, List.foldlM_append]
    rcases ih (fun i hi x hx => hstep i (by omega) x hx) with h | ⟨xm, hm, hP⟩
    · left; rw [h]; rfl
    · rw [hm]
      rcases hstep m (by omega) xm hP with h | ⟨x', hx', hP'⟩
      · left; simp [bind, Except.bind, h]
      · right; exact ⟨x', by simp [bind, Except.bind, hx', pure, Except.pure], hP'⟩

theorem replicate_setIfInBounds_self {β : Type} (n i : Nat) (z : β) :
    (Array.replicate n z).setIfInBounds i z = Array.replicate n z := by
  apply Array.ext
  · simp
  · intro j h1 h2
    simp [Array.getElem_setIfInBounds]

/-- the state on which the first pivot step of `_factor_inner` runs -/
def initState (Lnz : Array Nat) (n : Nat) (Li : Array Nat) (Lx Dinv : Array α) (d0 : α) : FState α :=
  { Lp := cumsum Lnz, Li := Li, Lx := Lx, D := (Array.replicate n (0 : α)).setIfInBounds 0 d0,
    Dinv := Dinv, yMarkers := Array.replicate n false, nextColspace := (cumsum Lnz).extract 0 n,
    yVals := Array.replicate n 0, regularizeCount := 0, positive := 0 }

/-- the result of a successful pivot step -/
def pivotState (rp : RegParams α) (k : Nat) (s : FState α) : FState α :=
  let r := regularizePivot rp.enable rp.eps rp.delta (rp.Dsigns.getD k 0) (s.D.getD k 0)
  { s with
    D := s.D.setIfInBounds k r.1, Dinv := s.Dinv.setIfInBounds k ((1 : α) / r.1),
    regularizeCount := s.regularizeCount + (if r.2 then 1 else 0),
    positive := s.positive + (if (0 : α) < r.1 then 1 else 0) }

theorem finishPivot_cases (rp : RegParams α) (k : Nat) (s : FState α)
    (hD : k < s.D.size) (hS : rp.enable = true → k < rp.Dsigns.size) (hI : k < s.Dinv.size) :
    finishPivot rp k s = .error errZeroPivot ∨
      (finishPivot rp k s = .ok (pivotState rp k s) ∧
        ((regularizePivot rp.enable rp.eps rp.delta (rp.Dsigns.getD k 0) (s.D.getD k 0)).1 == (0 : α)) = false) := by
  rw [finishPivot_eq rp k s hD hS hI]
  by_cases hz : ((regularizePivot rp.enable rp.eps rp.delta (rp.Dsigns.getD k 0) (s.D.getD k 0)).1 == (0 : α)) = true
  · left; simp only [hz, ↓reduceIte]
  · right
    simp only [hz, Bool.false_eq_true, ↓reduceIte]
    exact ⟨rfl, by simpa using hz⟩

/-- `_factor_inner` = first pivot step on `initState`, then the rows `1 … n-1`; the incoming `D`
is never read -/
theorem factorInner_unfold (C : FCtx n Ap Ai etree Lnz) (Ax : Array α) (a : Nat → Nat → α)
    (hR : Represents n Ap Ai Ax a) (Li : Array Nat) (Lx D Dinv : Array α)
    (hDs : D.size = n) (hDi : Dinv.size = n) (rp : RegParams α) :
    factorInner n Ap Ai Ax Li Lx D Dinv Lnz etree false rp =
      (finishPivot rp 0 (initState Lnz n Li Lx Dinv (a 0 0))) >>= fun s =>
        (List.range (n - 1)).foldlM (fun s i => factorRow n Ap Ai Ax etree false rp s (1 + i)) s := by
  have hn := C.hn
  have hsizes : (Lnz.size != n || D.size != n || Dinv.size != n || etree.size != n) = false := by
    simp [C.lsz, hDs, hDi, C.esz]
  have h0 : 0 < Ap.size := by rw [C.tri.ap_size]; omega
  have h1 : 1 < Ap.size := by rw [C.tri.ap_size]; omega
  have hrep0 : 0 < (Array.replicate n (0 : α)).size := by simpa using hn
  have e01 : Ap.getD (0 + 1) 0 = Ap.getD 1 0 := rfl
  have hn0 : (n == 0) = false := by rw [beq_eq_false_iff_ne]; omega
  unfold factorInner
  by_cases hlt : Ap.getD 0 0 < Ap.getD 1 0
  · have hb := C.tri.ap_bound 1 (by omega)
    have hx : Ap.getD 0 0 < Ax.size := by rw [hR.axs]; omega
    have hrow := C.tri.rows 0 hn (Ap.getD 0 0) (Nat.le_refl _) hlt
    have hval := hR.stored 0 hn (Ap.getD 0 0) (Nat.le_refl _) hlt
    have : Ai.getD (Ap.getD 0 0) 0 = 0 := by omega
    rw [this] at hval
    simp only [hsizes, hn0, Bool.false_eq_true, ↓reduceIte, Bool.not_false, getE_getD _ _ _ 0 h0,
      getE_getD _ _ _ 0 h1, bind, Except.bind, pure, Except.pure, hlt, getE_getD _ _ _ 0 hx,
      setE_ok _ _ _ _ hrep0, hval, set_eq_setIfInBounds, initState, List.range'_eq_map_range,
      List.foldlM_map]
  · have hz : a 0 0 = 0 := hR.zero 0 0 (by rintro ⟨t, h1, h2, _⟩; omega)
    simp only [hsizes, hn0, Bool.false_eq_true, ↓reduceIte, Bool.not_false, getE_getD _ _ _ 0 h0,
      getE_getD _ _ _ 0 h1, bind, Except.bind, pure, Except.pure, hlt, hz, replicate_setIfInBounds_self,
      initState, List.range'_eq_map_range, List.foldlM_map]

/-- the structural invariant after the first pivot step -/
theorem rowInv_init (C : FCtx n Ap Ai etree Lnz) (Li : Array Nat) (Lx Dinv : Array α)
    (hLx : Lx.size = Li.size) (hDi : Dinv.size = n) (rp : RegParams α) (d0 : α) :
    RowInv Ap Ai Lnz n 1 Li.size (pivotState rp 0 (initState Lnz n Li Lx Dinv d0)) := by
  have hn := C.hn
  have hl1 : ∀ c, Lrows (Apat Ap Ai) 1 c = [] := by
    intro c
    rw [Lrows_succ]
    have : ¬ Lpat (Apat Ap Ai) 0 c := fun h => by have := h.lt; omega
    simp [this, Lrows]
  refine { lp := rfl, lisz := rfl, lxsz := hLx, dsz := ?_, disz := ?_, msz := by simp [pivotState, initState],
           ncsz := ?_, yvsz := by simp [pivotState, initState], mrk0 := ?_, yv0 := ?_, nc := ?_,
           li := ?_, dz := ?_ }
  · show (((Array.replicate n (0 : α)).setIfInBounds 0 d0).setIfInBounds 0 _).size = n
    simp
  · show (Dinv.setIfInBounds 0 _).size = n
    simpa using hDi
  · show ((cumsum Lnz).extract 0 n).size = n
    simp [(cumsum_spec Lnz).1, C.lsz]
  · intro c hc
    show (Array.replicate n false).getD c false = false
    simp [Array.getD_eq_getD_getElem?, hc]
  · intro c hc
    show (Array.replicate n (0 : α)).getD c 0 = 0
    simp [Array.getD_eq_getD_getElem?, hc]
  · intro c hc
    show ((cumsum Lnz).extract 0 n).getD c 0 = _
    rw [hl1]
    simp only [List.length_nil, Nat.add_zero, LpOf, Array.getD_eq_getD_getElem?]
    congr 1
    rw [Array.getElem?_extract]
    simp [hc]
  · intro c hc t r hr
    rw [hl1] at hr; simp at hr
  · intro c hc1 hc
    show (((Array.replicate n (0 : α)).setIfInBounds 0 d0).setIfInBounds 0 _).getD c 0 = 0
    rw [getD_setIfInBounds, if_neg (fun h => by omega), getD_setIfInBounds, if_neg (fun h => by omega)]
    simp [Array.getD_eq_getD_getElem?, hc]

/-- data of one successful iteration `k` of the main loop, as handed to a value invariant -/
structure RowData (Ap Ai : Array Nat) (etree : Array (Option Nat)) (Lnz : Array Nat) (a : Nat → Nat → α)
    (n LiSz : Nat) (rp : RegParams α) (k : Nat) (s s' : FState α) : Prop where
  ex : ∃ s1 yIdx, OrdOK Ap Ai k yIdx.reverse ∧
    Pat1 Ap Ai etree a n k s (List.range' (Ap.getD k 0) (Ap.getD (k + 1) 0 - Ap.getD k 0)) (s1, yIdx) ∧
    Mid Ap Ai Lnz n k LiSz yIdx.reverse s1 [] s1 ∧
    Mid Ap Ai Lnz n k LiSz yIdx.reverse s1 yIdx.reverse (yIdx.reverse.foldl (rowElimP k) s1) ∧
    s' = pivotState rp k (yIdx.reverse.foldl (rowElimP k) s1) ∧
    ((regularizePivot rp.enable rp.eps rp.delta (rp.Dsigns.getD k 0)
      ((yIdx.reverse.foldl (rowElimP k) s1).D.getD k 0)).1 == (0 : α)) = false

/-- **the main loop of `_factor_inner`** with an arbitrary additional invariant `V`: the run fails
only with `ZeroPivot`; if it succeeds the structural invariant `RowInv n` and `V n` hold. -/
theorem factorInner_loop (C : FCtx n Ap Ai etree Lnz) (Ax : Array α) (a : Nat → Nat → α)
    (hR : Represents n Ap Ai Ax a) (Li : Array Nat) (Lx D Dinv : Array α)
    (hLi : LpOf Lnz n ≤ Li.size) (hLx : Lx.size = Li.size) (hDs : D.size = n) (hDi : Dinv.size = n)
    (rp : RegParams α) (hsg : rp.enable = true → n ≤ rp.Dsigns.size)
    (V : Nat → FState α → Prop)
    (hV1 : ((regularizePivot rp.enable rp.eps rp.delta (rp.Dsigns.getD 0 0) (a 0 0)).1 == (0 : α)) = false →
      V 1 (pivotState rp 0 (initState Lnz n Li Lx Dinv (a 0 0))))
    (hVstep : ∀ k s s', 1 ≤ k → k < n → RowInv Ap Ai Lnz n k Li.size s → V k s →
      RowData Ap Ai etree Lnz a n Li.size rp k s s' → V (k + 1) s') :
    (factorInner n Ap Ai Ax Li Lx D Dinv Lnz etree false rp = .error errZeroPivot ∨
      ∃ s, factorInner n Ap Ai Ax Li Lx D Dinv Lnz etree false rp = .ok s) ∧
    ∀ s, factorInner n Ap Ai Ax Li Lx D Dinv Lnz etree false rp = .ok s →
      RowInv Ap Ai Lnz n n Li.size s ∧ V n s := by
  have hn := C.hn
  have hsizes : (Lnz.size != n || D.size != n || Dinv.size != n || etree.size != n) = false := by
    simp [C.lsz, hDs, hDi, C.esz]
  have h0 : 0 < Ap.size := by rw [C.tri.ap_size]; omega
  have h1 : 1 < Ap.size := by rw [C.tri.ap_size]; omega
  have hrep0 : 0 < (Array.replicate n (0 : α)).size := by simpa using hn
  have hunfold := factorInner_unfold C Ax a hR Li Lx D Dinv hDs hDi rp
  have hinitD : (initState Lnz n Li Lx Dinv (a 0 0)).D.getD 0 0 = a 0 0 := by
    show ((Array.replicate n (0 : α)).setIfInBounds 0 (a 0 0)).getD 0 0 = a 0 0
    rw [getD_setIfInBounds, if_pos ⟨rfl, hrep0⟩]
  have hI1 := rowInv_init C Li Lx Dinv hLx hDi rp (a 0 0)
  have hsz0 : 0 < (initState Lnz n Li Lx Dinv (a 0 0)).D.size := by
    show 0 < ((Array.replicate n (0 : α)).setIfInBounds 0 (a 0 0)).size
    simpa using hn
  have hpiv0 := finishPivot_cases rp 0 (initState Lnz n Li Lx Dinv (a 0 0)) hsz0
    (fun h => by have := hsg h; omega) (by show 0 < Dinv.size; omega)
  rw [hinitD] at hpiv0
  -- one iteration of the loop
  have hrow : ∀ i, i < n - 1 → ∀ s, RowInv Ap Ai Lnz n (1 + i) Li.size s →
      factorRow n Ap Ai Ax etree false rp s (1 + i) = .error errZeroPivot ∨
      ∃ s', factorRow n Ap Ai Ax etree false rp s (1 + i) = .ok s' ∧
        RowInv Ap Ai Lnz n (1 + i + 1) Li.size s' ∧
        RowData Ap Ai etree Lnz a n Li.size rp (1 + i) s s' := by
    intro i hi s hI
    obtain ⟨s1, yIdx, hO, hP, hM0, hM2, hrun⟩ :=
      factorRow_eq C Ax a hR Li.size hLi rp (1 + i) (by omega) s hI
    rw [hrun]
    rcases finishPivot_cases rp (1 + i) (yIdx.reverse.foldl (rowElimP (1 + i)) s1)
      (by rw [hM2.dsz]; omega) (fun h => by have := hsg h; omega) (by rw [hM2.disz]; omega) with h | ⟨h, hz⟩
    · exact Or.inl h
    · right
      refine ⟨_, h, ?_, ⟨s1, yIdx, hO, hP, hM0, hM2, rfl, hz⟩⟩
      exact rowInv_next (a := a) (etree := etree) Li.size (1 + i) (by omega) s hI s1 yIdx _ hO hP _ hM2 _ _ _ _
  constructor
  · -- totality
    rw [hunfold]
    rcases hpiv0 with h | ⟨h, _⟩
    · left; rw [h]; rfl
    · rw [h]
      simp only [bind, Except.bind]
      rcases foldlM_range_inv_err (fun s i => factorRow n Ap Ai Ax etree false rp s (1 + i))
        (fun i s => RowInv Ap Ai Lnz n (1 + i) Li.size s) errZeroPivot (n - 1) _ hI1 (by
          intro i hi s hs
          rcases hrow i hi s hs with h | ⟨s', h1, h2, _⟩
          · exact Or.inl h
          · exact Or.inr ⟨s', h1, by rw [show 1 + (i + 1) = 1 + i + 1 by omega]; exact h2⟩) with h | ⟨s, h, _⟩
      · exact Or.inl h
      · exact Or.inr ⟨s, h⟩
  · intro s hs
    rw [hunfold] at hs
    rcases hpiv0 with h | ⟨h, hz⟩
    · rw [h] at hs; cases hs
    · rw [h] at hs
      simp only [bind, Except.bind] at hs
      have := foldlM_range_inv_ok (fun s i => factorRow n Ap Ai Ax etree false rp s (1 + i))
        (fun i s => RowInv Ap Ai Lnz n (1 + i) Li.size s ∧ V (1 + i) s) (n - 1) _ ⟨hI1, hV1 hz⟩ (by
          intro i hi x x' ⟨hx, hv⟩ hf
          rcases hrow i hi x hx with h | ⟨s', h1, h2, h3⟩
          · rw [h] at hf; cases hf
          · rw [h1] at hf
            have e : s' = x' := by simpa using hf
            subst e
            rw [show 1 + (i + 1) = 1 + i + 1 by omega]
            exact ⟨h2, hVstep (1 + i) x s' (by omega) (by omega) hx hv h3⟩) s hs
      rw [show 1 + (n - 1) = n by omega] at this
      exact this

/-- the structural part alone (every scalar type, in particular `Float`): `_factor_inner` fails
only with `ZeroPivot`, and after a successful run the invariant `RowInv n` holds -/
theorem factorInner_struct (C : FCtx n Ap Ai etree Lnz) (Ax : Array α) (a : Nat → Nat → α)
    (hR : Represents n Ap Ai Ax a) (Li : Array Nat) (Lx D Dinv : Array α)
    (hLi : LpOf Lnz n ≤ Li.size) (hLx : Lx.size = Li.size) (hDs : D.size = n) (hDi : Dinv.size = n)
    (rp : RegParams α) (hsg : rp.enable = true → n ≤ rp.Dsigns.size) :
    (factorInner n Ap Ai Ax Li Lx D Dinv Lnz etree false rp = .error errZeroPivot ∨
      ∃ s, factorInner n Ap Ai Ax Li Lx D Dinv Lnz etree false rp = .ok s) ∧
    ∀ s, factorInner n Ap Ai Ax Li Lx D Dinv Lnz etree false rp = .ok s →
      RowInv Ap Ai Lnz n n Li.size s := by
  have := factorInner_loop C Ax a hR Li Lx D Dinv hLi hLx hDs hDi rp hsg (fun _ _ => True)
    (fun _ => trivial) (fun _ _ _ _ _ _ _ _ => trivial)
  exact ⟨this.1, fun s hs => (this.2 s hs).1⟩

open Classical in
/-- the dense upper triangle stored by `(Ap, Ai, Ax)` -/
noncomputable def denseOf (Ap Ai : Array Nat) (Ax : Array α) (i k : Nat) : α :=
  if h : ∃ t, Ap.getD k 0 ≤ t ∧ t < Ap.getD (k + 1) 0 ∧ Ai.getD t 0 = i then Ax.getD (choose h) 0 else 0

/-- a CSC matrix without repeated entries represents its dense meaning -/
theorem represents_denseOf (n : Nat) (Ap Ai : Array Nat) (Ax : Array α) (hax : Ax.size = Ai.size)
    (hnd : ∀ k t t', Ap.getD k 0 ≤ t → t < Ap.getD (k + 1) 0 → Ap.getD k 0 ≤ t' → t' < Ap.getD (k + 1) 0 →
      Ai.getD t 0 = Ai.getD t' 0 → t = t') :
    Represents n Ap Ai Ax (denseOf Ap Ai Ax) := by
  refine ⟨hax, ?_, ?_⟩
  · intro k _ t ht1 ht2
    have h : ∃ t', Ap.getD k 0 ≤ t' ∧ t' < Ap.getD (k + 1) 0 ∧ Ai.getD t' 0 = Ai.getD t 0 := ⟨t, ht1, ht2, rfl⟩
    unfold denseOf
    rw [dif_pos h]
    obtain ⟨h1, h2, h3⟩ := Classical.choose_spec h
    rw [hnd k _ t h1 h2 ht1 ht2 h3]
  · intro i k h
    unfold denseOf
    rw [dif_neg h]

end pattern

/-- `check_structure` and the CSC format checks give the hypotheses of the factorisation theorems -/
theorem TriuCsc.of_checks {α : Type} (A : Csc α) (hw : wellFormed A = true)
    (hc : checkStructure A = .ok ()) : TriuCsc A.n A.colptr A.rowval := by
  unfold wellFormed at hw
  simp only [Bool.and_eq_true, beq_iff_eq, Bool.not_eq_true'] at hw
  obtain ⟨⟨⟨⟨hsz, _⟩, hmono⟩, hlast⟩, _⟩ := hw
  have htri : A.isTriu = true := by
    unfold checkStructure at hc
    split at hc
    · cases hc
    · split at hc
      · cases hc
      · rename_i h; simpa using h
  rw [Csc.anyAdjacent_false_iff, Csc.noBadAdjacent_iff_getElem] at hmono
  have hstep : ∀ k, k < A.n → A.colptr.getD k 0 ≤ A.colptr.getD (k + 1) 0 := by
    intro k hk
    have h1 : k + 1 < A.colptr.toList.length := by simp [hsz]; omega
    have := hmono k h1
    have e1 : A.colptr.getD k 0 = A.colptr.toList[k] := by
      have : k < A.colptr.size := by omega
      simp [Array.getD_eq_getD_getElem?, this]
    have e2 : A.colptr.getD (k + 1) 0 = A.colptr.toList[k + 1] := by
      have : k + 1 < A.colptr.size := by omega
      simp [Array.getD_eq_getD_getElem?, this]
    rw [e1, e2]
    simpa using this
  have hle : ∀ k, k ≤ A.n → A.colptr.getD k 0 ≤ A.colptr.getD A.n 0 := by
    intro k hk
    obtain ⟨d, hd⟩ : ∃ d, A.n = k + d := ⟨A.n - k, by omega⟩
    clear hk
    induction d generalizing k with
    | zero => rw [hd]; exact Nat.le_refl _
    | succ d ih =>
      have h1 := hstep k (by omega)
      have h2 := ih (k + 1) (by omega)
      omega
  refine ⟨hsz, hstep, fun k hk => by rw [← hlast]; exact hle k hk, ?_⟩
  intro k hk t ht1 ht2
  unfold Csc.isTriu at htri
  rw [List.all_eq_true] at htri
  have := htri k (List.mem_range.mpr hk)
  rw [List.all_eq_true] at this
  have hts : t < A.rowval.size := by
    have := hle (k + 1) (by omega); omega
  have hmem : A.rowval.getD t 0 ∈ A.colRows k := by
    unfold Csc.colRows
    rw [Array.mem_toList_iff, Array.mem_extract_iff_getElem]
    refine ⟨t - A.colptr.getD k 0, by omega, ?_⟩
    have e : A.colptr.getD k 0 + (t - A.colptr.getD k 0) = t := by omega
    have e2 : A.rowval.getD t 0 = A.rowval[t] := by simp [Array.getD_eq_getD_getElem?, hts]
    rw [e2]
    congr 1
  simpa using this _ hmem

end Clarabel.Qdldl
