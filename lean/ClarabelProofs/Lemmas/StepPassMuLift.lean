/-
  C06, round 7 — the blockwise LIFT of the per-cone Nesterov–Todd identities
  (`StepPassMuBlocks.lean`) over the composite cone of the whole-solver model
  (`ClarabelModel/Solver/Cones.lean`), scalar ℝ:

  * list forms of the composite `Δs_from_Δz_offset`, `affine_ds`, `combined_ds_shift`
    (`offL`, `adsL`, `shiftL`; `dsFromDzOffset_eq_list`, `affineDs_eq_list`,
    `combinedDsShift_eq_list`), in the style of `mulHs_eq_list` (`StepPassHs.lean`);
  * `ConesInterior cones s z` (the iterate is interior, block by block; `s = 0` on zero-cone rows),
    `NTCones cones' s z` (the cone states are the Nesterov–Todd scalings at `(s, z)`), and
    `ntCones_of_update`: that is what a successful composite `update_scaling` leaves;
  * the four identities on the composite arrays: `mulHsL_nt` (`Hs z = s`), `offL_dot`
    (`z·Δs_from_Δz_offset(d) = ⟨e, d⟩`), `adsL_dot` (`⟨e, affine_ds⟩ = s·z`), `shiftL_dot`
    (`⟨e, shift⟩ = Δs·Δz − ν σμ`), `e = coneIdL cones`.
-/
import ClarabelProofs.Lemmas.StepPassMuBlocks
import ClarabelProofs.Lemmas.ConesSocConverse

namespace Clarabel.Solver
open Clarabel Clarabel.Lemmas

set_option linter.unusedVariables false

/-! ## generic: per-cone maps over the slices of one / three vectors -/

/-- the per-cone results of a function of one slice -/
def parts1 {β : Type} (g : ConeSt ℝ → List ℝ → β) : List (ConeSt ℝ) → List ℝ → List β
  | [], _ => []
  | c :: cs, a => g c (a.take c.numel) :: parts1 g cs (a.drop c.numel)

/-- the per-cone results of a function of three slices -/
def parts3 {β : Type} (g : ConeSt ℝ → List ℝ → List ℝ → List ℝ → β) :
    List (ConeSt ℝ) → List ℝ → List ℝ → List ℝ → List β
  | [], _, _, _ => []
  | c :: cs, a, b, d => g c (a.take c.numel) (b.take c.numel) (d.take c.numel)
      :: parts3 g cs (a.drop c.numel) (b.drop c.numel) (d.drop c.numel)

theorem mapM_parts1 {β : Type} {f : ConeSt ℝ × Array ℝ → MErr β} {g : ConeSt ℝ → List ℝ → β}
    (hf : ∀ c a, ConeFull c → a.length = c.numel → f (c, a.toArray) = .ok (g c a)) :
    ∀ (cones : List (ConeSt ℝ)), ConesFull cones → ∀ a : List ℝ, a.length = numelAll cones →
      (cones.zip (Bridge.cutList cones a)).mapM f = .ok (parts1 g cones a)
  | [], _, _, _ => rfl
  | c :: cs, hc, a, ha => by
    rw [numelAll_cons] at ha
    simp only [Bridge.cutList, parts1, List.zip_cons_cons, List.mapM_cons]
    rw [hf c _ hc.head (by rw [List.length_take]; omega),
      mapM_parts1 hf cs hc.tail _ (by rw [List.length_drop]; omega)]
    rfl

theorem mapM_parts3 {β : Type} {f : ConeSt ℝ × Array ℝ × Array ℝ × Array ℝ → MErr β}
    {g : ConeSt ℝ → List ℝ → List ℝ → List ℝ → β}
    (hf : ∀ c a b d, ConeFull c → a.length = c.numel → b.length = c.numel → d.length = c.numel →
      f (c, a.toArray, b.toArray, d.toArray) = .ok (g c a b d)) :
    ∀ (cones : List (ConeSt ℝ)), ConesFull cones → ∀ a b d : List ℝ, a.length = numelAll cones →
      b.length = numelAll cones → d.length = numelAll cones →
      (cones.zip ((Bridge.cutList cones a).zip ((Bridge.cutList cones b).zip (Bridge.cutList cones d)))).mapM f
        = .ok (parts3 g cones a b d)
  | [], _, _, _, _, _, _, _ => rfl
  | c :: cs, hc, a, b, d, ha, hb, hd => by
    rw [numelAll_cons] at ha hb hd
    simp only [Bridge.cutList, parts3, List.zip_cons_cons, List.mapM_cons]
    rw [hf c _ _ _ hc.head (by rw [List.length_take]; omega) (by rw [List.length_take]; omega)
        (by rw [List.length_take]; omega),
      mapM_parts3 hf cs hc.tail _ _ _ (by rw [List.length_drop]; omega) (by rw [List.length_drop]; omega)
        (by rw [List.length_drop]; omega)]
    rfl

theorem parts3_map {β γ : Type} (h : β → γ) (g : ConeSt ℝ → List ℝ → List ℝ → List ℝ → β) :
    ∀ (cones : List (ConeSt ℝ)) (a b d : List ℝ),
      (parts3 g cones a b d).map h = parts3 (fun c a b d => h (g c a b d)) cones a b d
  | [], _, _, _ => rfl
  | c :: cs, a, b, d => by
    simp only [parts3, List.map_cons]
    rw [parts3_map h g cs]

/-- `pasteBack` on a vector of exactly the cones' total length -/
theorem pasteBack_sized (cones : List (ConeSt ℝ)) (v : Array ℝ) (parts : List (Array ℝ))
    (hv : v.size = numelAll cones) : pasteBack cones v parts = parts.foldl (· ++ ·) #[] := by
  unfold pasteBack
  rw [hv]
  simp

/-! ## the composite functions in list form -/

/-- the identity element of the composite cone -/
def coneIdL : List (ConeSt ℝ) → List ℝ
  | [] => []
  | c :: cs => coneId1L c ++ coneIdL cs

/-- the identity element of the composite cone as a vector: `0` on zero-cone rows, `1` on the rows
of a nonnegative cone, `(1, 0, …, 0)` on the rows of each second-order cone -/
def coneIdFn (cones : List (ConeSt ℝ)) (m : ℕ) : Fin m → ℝ := fun i => (coneIdL cones).getD i 0

/-- the composite `Δs_from_Δz_offset(ds, z)` on lists -/
noncomputable def offL : List (ConeSt ℝ) → List ℝ → List ℝ → List ℝ
  | [], _, _ => []
  | c :: cs, d, z => off1L c (d.take c.numel) (z.take c.numel) ++ offL cs (d.drop c.numel) (z.drop c.numel)

/-- the composite `affine_ds` on lists -/
noncomputable def adsL : List (ConeSt ℝ) → List ℝ
  | [] => []
  | c :: cs => ads1L c ++ adsL cs

/-- the `shift` output of the composite `combined_ds_shift(step_z, step_s, σμ)` on lists -/
noncomputable def shiftL : List (ConeSt ℝ) → List ℝ → List ℝ → ℝ → List ℝ
  | [], _, _, _ => []
  | c :: cs, dz, ds, σμ => (shift1L c (dz.take c.numel) (ds.take c.numel) σμ).1
      ++ shiftL cs (dz.drop c.numel) (ds.drop c.numel) σμ

theorem coneIdL_length : ∀ (cones : List (ConeSt ℝ)), ConesFull cones →
    (coneIdL cones).length = numelAll cones
  | [], _ => rfl
  | c :: cs, hc => by
    rw [coneIdL, numelAll_cons, List.length_append, coneId1L_length c hc.head, coneIdL_length cs hc.tail]

/-! ### lengths of the per-cone results -/

theorem array_eq_join (a : Array ℝ) (h : 1 ≤ a.size) :
    ∃ x0 x1, a = Soc.join x0 x1 ∧ a.toList = x0 :: x1 ∧ a.size = x1.length + 1 := by
  cases hx : a.toList with
  | nil =>
    have : a.size = 0 := by rw [← Array.length_toList, hx]; rfl
    omega
  | cons x0 x1 =>
    refine ⟨x0, x1, ?_, rfl, ?_⟩
    · unfold Soc.join
      rw [← hx, Array.toArray_toList]
    · rw [← Array.length_toList, hx]; rfl

theorem list_eq_cons (l : List ℝ) {n : Nat} (h : l.length = n) (hn : 1 ≤ n) :
    ∃ x0 x1, l = x0 :: x1 ∧ x1.length + 1 = n := by
  cases l with
  | nil => simp at h; omega
  | cons a t => exact ⟨a, t, rfl, by simpa using h⟩

theorem off1L_length (c : ConeSt ℝ) (hc : ConeFull c) (d z : List ℝ) (hd : d.length = c.numel)
    (hz : z.length = c.numel) : (off1L c d z).length = c.numel := by
  cases c with
  | zero n => simpa [off1L] using hd
  | nonneg K =>
    have hd' : d.length = K.w.size := hd
    have hz' : z.length = K.w.size := hz
    show (List.zipWith _ d z).length = K.w.size
    simp [hd', hz']
  | soc K =>
    obtain ⟨h2, hw, hl, -⟩ := hc
    have hd' : d.length = K.dim := hd
    have hz' : z.length = K.dim := hz
    obtain ⟨w0, w1, -, hwt, hws⟩ := array_eq_join K.w (by omega)
    obtain ⟨l0, l1, -, hlt, hls⟩ := array_eq_join K.lam (by omega)
    obtain ⟨d0, d1, rfl, hd1⟩ := list_eq_cons d hd' (by omega)
    obtain ⟨z0, z1, rfl, hz1⟩ := list_eq_cons z hz' (by omega)
    show (off1L (.soc K) (d0 :: d1) (z0 :: z1)).length = K.dim
    unfold off1L
    simp only [hwt, hlt, Soc.dsFromDzOffsetCore, List.length_cons, List.length_map, List.length_zipWith,
      List.length_zip]
    omega

theorem ads1L_length (c : ConeSt ℝ) (hc : ConeFull c) : (ads1L c).length = c.numel := by
  cases c with
  | zero n => simp [ads1L, ConeSt.numel]
  | nonneg K =>
    have : K.lam.size = K.w.size := hc
    show (K.lam.toList.map _).length = K.w.size
    simp [this]
  | soc K =>
    obtain ⟨h2, hw, hl, -⟩ := hc
    obtain ⟨l0, l1, -, hlt, hls⟩ := array_eq_join K.lam (by omega)
    show (ads1L (.soc K)).length = K.dim
    unfold ads1L
    simp only [hlt, Soc.circOpCore, List.length_cons, List.length_zipWith]
    omega

theorem shift1L_length (c : ConeSt ℝ) (hc : ConeFull c) (dz ds : List ℝ) (σμ : ℝ)
    (hdz : dz.length = c.numel) (hds : ds.length = c.numel) :
    (shift1L c dz ds σμ).1.length = c.numel := by
  cases c with
  | zero n => simpa [shift1L] using hdz
  | nonneg K =>
    have hd' : dz.length = K.w.size := hdz
    have hz' : ds.length = K.w.size := hds
    show (List.zipWith _ _ _).length = K.w.size
    simp [hd', hz']
  | soc K =>
    obtain ⟨h2, hw, hl, -⟩ := hc
    have hd' : dz.length = K.dim := hdz
    have hz' : ds.length = K.dim := hds
    obtain ⟨w0, w1, -, hwt, hws⟩ := array_eq_join K.w (by omega)
    obtain ⟨d0, d1, rfl, hd1⟩ := list_eq_cons dz hd' (by omega)
    obtain ⟨z0, z1, rfl, hz1⟩ := list_eq_cons ds hz' (by omega)
    show (shift1L (.soc K) (d0 :: d1) (z0 :: z1) σμ).1.length = K.dim
    unfold shift1L
    simp only [hwt, Soc.circOpCore, Soc.mulWCore, Soc.mulWinvCore, List.length_cons,
      List.length_zipWith]
    omega

theorem offL_length : ∀ (cones : List (ConeSt ℝ)), ConesFull cones → ∀ d z : List ℝ,
    d.length = numelAll cones → z.length = numelAll cones → (offL cones d z).length = numelAll cones
  | [], _, _, _, _, _ => rfl
  | c :: cs, hc, d, z, hd, hz => by
    rw [numelAll_cons] at hd hz ⊢
    rw [offL, List.length_append, off1L_length c hc.head _ _ (by rw [List.length_take]; omega)
      (by rw [List.length_take]; omega),
      offL_length cs hc.tail _ _ (by rw [List.length_drop]; omega) (by rw [List.length_drop]; omega)]

theorem adsL_length : ∀ (cones : List (ConeSt ℝ)), ConesFull cones → (adsL cones).length = numelAll cones
  | [], _ => rfl
  | c :: cs, hc => by
    rw [adsL, numelAll_cons, List.length_append, ads1L_length c hc.head, adsL_length cs hc.tail]

theorem shiftL_length (σμ : ℝ) : ∀ (cones : List (ConeSt ℝ)), ConesFull cones → ∀ dz ds : List ℝ,
    dz.length = numelAll cones → ds.length = numelAll cones →
    (shiftL cones dz ds σμ).length = numelAll cones
  | [], _, _, _, _, _ => rfl
  | c :: cs, hc, d, z, hd, hz => by
    rw [numelAll_cons] at hd hz ⊢
    rw [shiftL, List.length_append, shift1L_length c hc.head _ _ σμ (by rw [List.length_take]; omega)
      (by rw [List.length_take]; omega),
      shiftL_length σμ cs hc.tail _ _ (by rw [List.length_drop]; omega) (by rw [List.length_drop]; omega)]

/-! ### the model's per-cone functions are the list functions -/

theorem map_zero_eq (a b : List ℝ) (h : a.length = b.length) :
    a.map (fun _ => (0 : ℝ)) = b.map (fun _ => (0 : ℝ)) := by
  apply List.ext_getElem
  · simp [h]
  · intro i h1 h2; simp

theorem soc_dsFromDzOffset_list (K : Soc.Cone ℝ) (hc : ConeFull (.soc K)) (d z : List ℝ)
    (hd : d.length = K.dim) (hz : z.length = K.dim) :
    Soc.dsFromDzOffset K d.toArray z.toArray = .ok (off1L (.soc K) d z).toArray := by
  obtain ⟨h2, hw, hl, -⟩ := hc
  obtain ⟨w0, w1, hwj, hwt, hws⟩ := array_eq_join K.w (by omega)
  obtain ⟨l0, l1, hlj, hlt, hls⟩ := array_eq_join K.lam (by omega)
  obtain ⟨d0, d1, rfl, hd1⟩ := list_eq_cons d hd (by omega)
  obtain ⟨z0, z1, rfl, hz1⟩ := list_eq_cons z hz (by omega)
  have g : ((d0 :: d1).toArray.size == K.dim && (z0 :: z1).toArray.size == K.dim) = true := by
    simp only [List.size_toArray, List.length_cons, Bool.and_eq_true, beq_iff_eq]
    omega
  unfold Soc.dsFromDzOffset off1L
  rw [bind_ok_of (show Soc.split (z0 :: z1).toArray = .ok (z0, z1) from rfl)]
  dsimp only
  rw [hlj, bind_ok_of (Soc.split_join l0 l1)]
  dsimp only
  rw [bind_ok_of (show Soc.split (d0 :: d1).toArray = .ok (d0, d1) from rfl)]
  dsimp only
  rw [hwj, bind_ok_of (Soc.split_join w0 w1)]
  dsimp only
  rw [g]
  rfl

theorem soc_affineDs_list (K : Soc.Cone ℝ) (hc : ConeFull (.soc K)) :
    Soc.affineDs K = .ok (ads1L (.soc K)).toArray := by
  obtain ⟨h2, hw, hl, -⟩ := hc
  obtain ⟨l0, l1, hlj, hlt, hls⟩ := array_eq_join K.lam (by omega)
  unfold Soc.affineDs Soc.circOp ads1L
  simp only [hlt]
  rw [hlj, bind_ok_of (Soc.split_join l0 l1)]
  dsimp only
  rw [bind_ok_of (Soc.split_join l0 l1)]
  dsimp only
  rw [if_neg (by simp)]
  rfl

theorem soc_combinedDsShift_list (K : Soc.Cone ℝ) (hc : ConeFull (.soc K)) (dz ds : List ℝ) (σμ : ℝ)
    (hdz : dz.length = K.dim) (hds : ds.length = K.dim) :
    Soc.combinedDsShift K dz.toArray ds.toArray σμ
      = .ok ((shift1L (.soc K) dz ds σμ).1.toArray, (shift1L (.soc K) dz ds σμ).2.1.toArray,
          (shift1L (.soc K) dz ds σμ).2.2.toArray) := by
  obtain ⟨h2, hw, hl, -⟩ := hc
  obtain ⟨w0, w1, hwj, hwt, hws⟩ := array_eq_join K.w (by omega)
  obtain ⟨z0, z1, rfl, hz1⟩ := list_eq_cons dz hdz (by omega)
  obtain ⟨s0, s1, rfl, hs1⟩ := list_eq_cons ds hds (by omega)
  have := Soc.combinedDsShift_eq K w0 w1 hwj (by omega) z0 z1 s0 s1 (by omega) (by omega) σμ
  simp only at this
  show Soc.combinedDsShift K (Soc.join z0 z1) (Soc.join s0 s1) σμ = _
  rw [this]
  unfold shift1L
  simp only [hwt]
  rfl

theorem nn_combinedDsShift_list (K : Nonneg.Cone ℝ) (dz ds : List ℝ) (σμ : ℝ)
    (hdz : dz.length = K.w.size) (hds : ds.length = K.w.size) :
    Nonneg.combinedDsShift K dz.toArray ds.toArray σμ
      = .ok ((shift1L (.nonneg K) dz ds σμ).1.toArray, (shift1L (.nonneg K) dz ds σμ).2.1.toArray,
          (shift1L (.nonneg K) dz ds σμ).2.2.toArray) := by
  have e1 : Nonneg.mulW K dz.toArray dz.toArray 1 0
      = .ok (List.zipWith (fun x w => x * w) dz K.w.toList).toArray := by
    unfold Nonneg.mulW
    rw [if_neg (by simp), if_neg (by simp [hdz])]
    show Except.ok _ = _
    congr 1
    apply Array.ext'
    apply List.ext_getElem
    · simp [hdz]
    · intro i h1 h2; simp
  have e2 : Nonneg.mulWinv K ds.toArray ds.toArray 1 0
      = .ok (List.zipWith (fun x w => x / w) ds K.w.toList).toArray := by
    unfold Nonneg.mulWinv
    rw [if_neg (by simp), if_neg (by simp [hds])]
    show Except.ok _ = _
    congr 1
    apply Array.ext'
    apply List.ext_getElem
    · simp [hds]
    · intro i h1 h2; simp
  unfold Nonneg.combinedDsShift
  rw [bind_ok_of e1, bind_ok_of e2]
  unfold Nonneg.circOp Nonneg.sizeGuard
  have g : ((List.zipWith (fun x w => x / w) ds K.w.toList).toArray.size
      == (List.zipWith (fun x w => x * w) dz K.w.toList).toArray.size) = true := by
    simp [hdz, hds]
  rw [g]
  show Except.ok _ = _
  unfold shift1L Nonneg.scaledUnitShift Vec.translate
  congr 2
  apply Array.ext'
  apply List.ext_getElem
  · simp
  · intro i h1 h2; simp

/-! ### the composite functions are the list functions on sized input -/

theorem parts3_off_fold : ∀ (cones : List (ConeSt ℝ)) (o d z : List ℝ),
    (parts3 (fun c _ d z => (off1L c d z).toArray) cones o d z).foldl (· ++ ·) #[]
      = (offL cones d z).toArray
  | [], _, _, _ => rfl
  | c :: cs, o, d, z => by
    simp only [parts3, offL, List.foldl_cons]
    rw [foldl_append_acc, parts3_off_fold cs]
    simp

theorem parts1_ads_fold : ∀ (cones : List (ConeSt ℝ)) (a : List ℝ),
    (parts1 (fun c _ => (ads1L c).toArray) cones a).foldl (· ++ ·) #[] = (adsL cones).toArray
  | [], _ => rfl
  | c :: cs, a => by
    simp only [parts1, adsL, List.foldl_cons]
    rw [foldl_append_acc, parts1_ads_fold cs]
    simp

theorem parts3_shift_fold (σμ : ℝ) : ∀ (cones : List (ConeSt ℝ)) (o dz ds : List ℝ),
    (parts3 (fun c _ dz ds => (shift1L c dz ds σμ).1.toArray) cones o dz ds).foldl (· ++ ·) #[]
      = (shiftL cones dz ds σμ).toArray
  | [], _, _, _ => rfl
  | c :: cs, o, dz, ds => by
    simp only [parts3, shiftL, List.foldl_cons]
    rw [foldl_append_acc, parts3_shift_fold σμ cs]
    simp

/-- **the composite `Δs_from_Δz_offset` on sized input** is total, forgets the previous content of
its output and is the list-level `offL` -/
theorem dsFromDzOffset_eq_list {cones : List (ConeSt ℝ)} (hc : ConesFull cones) (out ds z : Array ℝ)
    (ho : out.size = numelAll cones) (hd : ds.size = numelAll cones) (hz : z.size = numelAll cones) :
    dsFromDzOffset cones out ds z = .ok (offL cones ds.toList z.toList).toArray := by
  obtain ⟨os, hos⟩ := cutE_ok (cones := cones) (v := out) "Δs_from_Δz_offset out" (by omega)
  obtain ⟨dss, hdss⟩ := cutE_ok (cones := cones) (v := ds) "Δs_from_Δz_offset ds" (by omega)
  obtain ⟨zs, hzs⟩ := cutE_ok (cones := cones) (v := z) "Δs_from_Δz_offset z" (by omega)
  unfold dsFromDzOffset
  rw [bind_ok_of hos, bind_ok_of hdss, bind_ok_of hzs, Bridge.cutE_eq hos, Bridge.cutE_eq hdss,
    Bridge.cutE_eq hzs]
  rw [bind_ok_of (mapM_parts3 (f := _) (g := fun c _ d z => (off1L c d z).toArray) ?_ cones hc
    out.toList ds.toList z.toList (by rw [Array.length_toList]; exact ho)
    (by rw [Array.length_toList]; exact hd) (by rw [Array.length_toList]; exact hz))]
  · show Except.ok (pasteBack cones out _) = _
    rw [pasteBack_sized cones out _ ho, parts3_off_fold]
  · intro c o d z hcf ho hd hz
    cases c with
    | zero n =>
      show Except.ok (Zero.dsFromDzOffset o.toArray) = _
      unfold Zero.dsFromDzOffset off1L
      rw [List.map_toArray, map_zero_eq o d (ho.trans hd.symm)]
    | nonneg K =>
      show Nonneg.dsFromDzOffset d.toArray z.toArray = _
      unfold Nonneg.dsFromDzOffset Nonneg.sizeGuard off1L
      have e : (d.toArray.size == z.toArray.size) = true := by simp [hd, hz]
      rw [e]
      show Except.ok _ = _
      congr 1
      apply Array.ext'
      simp
    | soc K => exact soc_dsFromDzOffset_list K hcf d z hd hz

/-- **the composite `affine_ds` on sized input** is total, forgets the previous content of its
output and is the list-level `adsL` (`λ ∘ λ` cone by cone) -/
theorem affineDs_eq_list {cones : List (ConeSt ℝ)} (hc : ConesFull cones) (ds : Array ℝ)
    (hd : ds.size = numelAll cones) : affineDs cones ds = .ok (adsL cones).toArray := by
  obtain ⟨ps, hps⟩ := cutE_ok (cones := cones) (v := ds) "affine_ds" (by omega)
  unfold affineDs mapCones
  rw [bind_ok_of hps, Bridge.cutE_eq hps]
  rw [bind_ok_of (mapM_parts1 (f := _) (g := fun c _ => (ads1L c).toArray) ?_ cones hc ds.toList
    (by rw [Array.length_toList]; exact hd))]
  · show Except.ok (pasteBack cones ds _) = _
    rw [pasteBack_sized cones ds _ hd, parts1_ads_fold]
  · intro c a hcf ha
    cases c with
    | zero n =>
      show Except.ok (Zero.affineDs a.toArray) = _
      unfold Zero.affineDs ads1L
      have ha' : a.length = n := ha
      rw [List.map_toArray]
      congr 2
      apply List.ext_getElem
      · simp [ha']
      · intro i h1 h2; simp
    | nonneg K =>
      have hl : K.lam.size = K.w.size := hcf
      have ha' : a.length = K.w.size := ha
      show Nonneg.affineDs K a.toArray.size = _
      unfold Nonneg.affineDs ads1L
      rw [if_neg (by simp [hl, ha'])]
      show Except.ok _ = _
      congr 1
      apply Array.ext'
      simp
    | soc K =>
      have ha' : a.length = K.dim := ha
      show (Soc.affineDs K >>= fun r => if r.size != a.toArray.size then _ else pure r) = _
      rw [bind_ok_of (soc_affineDs_list K hcf)]
      have hlen := ads1L_length (.soc K) hcf
      have hlen' : (ads1L (.soc K)).length = K.dim := hlen
      rw [if_neg (by simp [hlen', ha'])]
      rfl

/-- **the `shift` output of the composite `combined_ds_shift` on sized input** is the list-level
`shiftL`, whatever the previous content of the `shift` buffer -/
theorem combinedDsShift_eq_list {cones : List (ConeSt ℝ)} (hc : ConesFull cones)
    (shift stepZ stepS : Array ℝ) (σμ : ℝ) (hsh : shift.size = numelAll cones)
    (hz : stepZ.size = numelAll cones) (hs : stepS.size = numelAll cones) :
    ∃ r, combinedDsShift cones shift stepZ stepS σμ = .ok r
      ∧ r.1 = (shiftL cones stepZ.toList stepS.toList σμ).toArray := by
  obtain ⟨shs, hshs⟩ := cutE_ok (cones := cones) (v := shift) "combined_ds_shift shift" (by omega)
  obtain ⟨zs, hzs⟩ := cutE_ok (cones := cones) (v := stepZ) "combined_ds_shift step_z" (by omega)
  obtain ⟨ss, hss⟩ := cutE_ok (cones := cones) (v := stepS) "combined_ds_shift step_s" (by omega)
  unfold combinedDsShift
  rw [bind_ok_of hshs, bind_ok_of hzs, bind_ok_of hss, Bridge.cutE_eq hshs, Bridge.cutE_eq hzs,
    Bridge.cutE_eq hss]
  rw [bind_ok_of (mapM_parts3 (f := _)
    (g := fun c _ dz ds => ((shift1L c dz ds σμ).1.toArray, (shift1L c dz ds σμ).2.1.toArray,
      (shift1L c dz ds σμ).2.2.toArray)) ?_ cones hc
    shift.toList stepZ.toList stepS.toList (by rw [Array.length_toList]; exact hsh)
    (by rw [Array.length_toList]; exact hz) (by rw [Array.length_toList]; exact hs))]
  · refine ⟨_, rfl, ?_⟩
    show pasteBack cones shift _ = _
    rw [pasteBack_sized cones shift _ hsh, parts3_map, parts3_shift_fold]
  · intro c o dz ds hcf ho hdz hds
    cases c with
    | zero n =>
      show Except.ok (Zero.combinedDsShift o.toArray, dz.toArray, ds.toArray) = _
      unfold Zero.combinedDsShift shift1L
      rw [List.map_toArray, map_zero_eq o dz (ho.trans hdz.symm)]
    | nonneg K => exact nn_combinedDsShift_list K dz ds σμ hdz hds
    | soc K => exact soc_combinedDsShift_list K hcf dz ds σμ hdz hds

/-! ## interior iterates and the cones after `update_scaling` -/

/-- **the iterate `(s, z)` is interior for the composite cone**, block by block along the cone
layout: `s = 0` on the rows of a zero cone (`z` free), `s, z > 0` on the rows of a nonnegative cone,
`s, z` strictly inside each second-order cone -/
def ConesInterior : List (ConeSt ℝ) → List ℝ → List ℝ → Prop
  | [], _, _ => True
  | c :: cs, s, z => BlockInterior c (s.take c.numel) (z.take c.numel)
      ∧ ConesInterior cs (s.drop c.numel) (z.drop c.numel)

/-- every cone state is the Nesterov–Todd scaling at its rows of `(s, z)` -/
def NTCones : List (ConeSt ℝ) → List ℝ → List ℝ → Prop
  | [], _, _ => True
  | c :: cs, s, z => NTBlock c (s.take c.numel) (z.take c.numel)
      ∧ NTCones cs (s.drop c.numel) (z.drop c.numel)

/-- `v` vanishes on the rows of the zero cones -/
def ZeroConeRows : List (ConeSt ℝ) → List ℝ → Prop
  | [], _ => True
  | c :: cs, v => (∀ n, c = .zero n → ∀ x ∈ v.take c.numel, x = 0) ∧ ZeroConeRows cs (v.drop c.numel)

theorem degreeAll_cons (c : ConeSt ℝ) (cs : List (ConeSt ℝ)) :
    degreeAll (c :: cs) = c.degree + degreeAll cs := by
  unfold degreeAll
  simp only [List.map_cons, List.foldl_cons, Nat.zero_add]
  generalize cs.map ConeSt.degree = l
  have : ∀ (l : List Nat) (a : Nat), l.foldl (· + ·) a = a + l.foldl (· + ·) 0 := by
    intro l
    induction l with
    | nil => intro a; rfl
    | cons b t ih => intro a; simp only [List.foldl_cons, Nat.zero_add]; rw [ih (a + b), ih b]; omega
  exact this l _

theorem ConesFull.cons {c : ConeSt ℝ} {cs : List (ConeSt ℝ)} (h1 : ConeFull c) (h2 : ConesFull cs) :
    ConesFull (c :: cs) := by
  intro c' hc'
  rcases List.mem_cons.mp hc' with e | e
  · rw [e]; exact h1
  · exact h2 c' e

/-- the cone-by-cone recursion of `CompositeCone::update_scaling` on an interior iterate -/
theorem ntCones_of_go : ∀ (cones cones' : List (ConeSt ℝ)) (s z : List ℝ), ConesFull cones →
    s.length = numelAll cones → z.length = numelAll cones → ConesInterior cones s z →
    updateScaling.go cones (Bridge.cutList cones s) (Bridge.cutList cones z) = .ok (true, cones') →
    NTCones cones' s z ∧ ConesFull cones' ∧ numelAll cones' = numelAll cones
      ∧ degreeAll cones' = degreeAll cones
  | [], cones', s, z, _, _, _, _, h => by
    unfold updateScaling.go at h
    cases h
    exact ⟨trivial, (fun c hc => by cases hc), rfl, rfl⟩
  | c :: cs, cones', s, z, hc, hs, hz, hint, h => by
    rw [numelAll_cons] at hs hz
    simp only [Bridge.cutList] at h
    unfold updateScaling.go at h
    obtain ⟨⟨ok, c1⟩, h1, h⟩ := bind_ok_inv h
    dsimp only at h
    cases ok with
    | false => cases h
    | true =>
      simp only [Bool.not_true, Bool.false_eq_true, ↓reduceIte] at h
      obtain ⟨⟨ok2, cs2⟩, h2, h⟩ := bind_ok_inv h
      cases h
      obtain ⟨nb, nf, nn, nd⟩ := ntBlock_of_update hc.head (by rw [List.length_take]; omega)
        (by rw [List.length_take]; omega) hint.1 h1
      obtain ⟨ib, ifl, inn, idg⟩ := ntCones_of_go cs cs2 _ _ hc.tail (by rw [List.length_drop]; omega)
        (by rw [List.length_drop]; omega) hint.2 h2
      refine ⟨?_, ConesFull.cons nf ifl, ?_, ?_⟩
      · show NTBlock c1 (s.take c1.numel) (z.take c1.numel) ∧ NTCones cs2 (s.drop c1.numel) (z.drop c1.numel)
        rw [nn]
        exact ⟨nb, ib⟩
      · rw [numelAll_cons, numelAll_cons, nn, inn]
      · rw [degreeAll_cons, degreeAll_cons, nd, idg]

/-- **what a successful composite `update_scaling` at an interior iterate leaves**: every cone
state is the Nesterov–Todd scaling at its rows of `(s, z)` -/
theorem ntCones_of_update {cones cones' : List (ConeSt ℝ)} {s z : Array ℝ} (hc : ConesFull cones)
    (hs : s.size = numelAll cones) (hz : z.size = numelAll cones)
    (hint : ConesInterior cones s.toList z.toList)
    (h : updateScaling cones s z = .ok (true, cones')) :
    NTCones cones' s.toList z.toList ∧ ConesFull cones' ∧ numelAll cones' = numelAll cones
      ∧ degreeAll cones' = degreeAll cones := by
  unfold updateScaling at h
  obtain ⟨ss, hss, h⟩ := bind_ok_inv h
  obtain ⟨zs, hzs, h⟩ := bind_ok_inv h
  rw [Bridge.cutE_eq hss, Bridge.cutE_eq hzs] at h
  exact ntCones_of_go cones cones' _ _ hc (by rw [Array.length_toList]; exact hs)
    (by rw [Array.length_toList]; exact hz) hint h

/-! ## the four identities on the composite arrays -/

/-- **(b) `Hs z = s`** on the composite, at the Nesterov–Todd scaling of `(s, z)` -/
theorem mulHsL_nt : ∀ (cones : List (ConeSt ℝ)) (s z : List ℝ), NTCones cones s z →
    s.length = numelAll cones → mulHsL cones z = s
  | [], s, z, _, hs => by
    have : s = [] := List.eq_nil_of_length_eq_zero hs
    rw [this]; rfl
  | c :: cs, s, z, h, hs => by
    rw [numelAll_cons] at hs
    rw [mulHsL, hs1L_nt h.1, mulHsL_nt cs _ _ h.2 (by rw [List.length_drop]; omega),
      List.take_append_drop]

/-- **(c) `z · Δs_from_Δz_offset(d, z) = ⟨e, d⟩`** on the composite -/
theorem offL_dot : ∀ (cones : List (ConeSt ℝ)) (s z d : List ℝ), NTCones cones s z → ConesFull cones →
    z.length = numelAll cones → d.length = numelAll cones →
    hsDotL z (offL cones d z) = hsDotL (coneIdL cones) d
  | [], s, z, d, _, _, _, _ => by simp [offL, coneIdL, hsDotL_nil_left, hsDotL_nil_right]
  | c :: cs, s, z, d, h, hc, hz, hd => by
    rw [numelAll_cons] at hz hd
    have hz1 : (z.take c.numel).length = c.numel := by rw [List.length_take]; omega
    have hd1 : (d.take c.numel).length = c.numel := by rw [List.length_take]; omega
    rw [offL, coneIdL, hsDotL_split c.numel z _ _ (off1L_length c hc.head _ _ hd1 hz1) (by omega),
      hsDotL_comm (coneId1L c ++ coneIdL cs) d,
      hsDotL_split c.numel d _ _ (coneId1L_length c hc.head) (by omega),
      off1L_dot h.1 _ hd1, offL_dot cs _ _ _ h.2 hc.tail (by rw [List.length_drop]; omega)
        (by rw [List.length_drop]; omega),
      hsDotL_comm (d.take c.numel), hsDotL_comm (d.drop c.numel)]

/-- **(d) `⟨e, affine_ds⟩ = s · z`** on the composite -/
theorem adsL_dot : ∀ (cones : List (ConeSt ℝ)) (s z : List ℝ), NTCones cones s z → ConesFull cones →
    s.length = numelAll cones → z.length = numelAll cones →
    hsDotL (coneIdL cones) (adsL cones) = hsDotL s z
  | [], s, z, _, _, hs, _ => by
    have : s = [] := List.eq_nil_of_length_eq_zero hs
    rw [this]; simp [adsL, coneIdL, hsDotL_nil_left]
  | c :: cs, s, z, h, hc, hs, hz => by
    rw [numelAll_cons] at hs hz
    have hs1 : (s.take c.numel).length = c.numel := by rw [List.length_take]; omega
    have hz1 : (z.take c.numel).length = c.numel := by rw [List.length_take]; omega
    rw [adsL, coneIdL, hsDotL_append _ _ _ _ ((coneId1L_length c hc.head).trans (ads1L_length c hc.head).symm),
      ads1L_dot h.1, adsL_dot cs _ _ h.2 hc.tail (by rw [List.length_drop]; omega)
        (by rw [List.length_drop]; omega)]
    conv_rhs => rw [← List.take_append_drop c.numel s, ← List.take_append_drop c.numel z]
    rw [hsDotL_append _ _ _ _ (hs1.trans hz1.symm)]

/-- **(e) `⟨e, shift⟩ = Δs · Δz − ν σμ`** on the composite, `ν = degreeAll cones`, for a `Δs` that
vanishes on the zero-cone rows (there the shift is `0` and `e = 0`) -/
theorem shiftL_dot (σμ : ℝ) : ∀ (cones : List (ConeSt ℝ)) (s z dz ds : List ℝ), NTCones cones s z →
    ConesFull cones → dz.length = numelAll cones → ds.length = numelAll cones → ZeroConeRows cones ds →
    hsDotL (coneIdL cones) (shiftL cones dz ds σμ) = hsDotL ds dz - (degreeAll cones : ℝ) * σμ
  | [], s, z, dz, ds, _, _, hdz, _, _ => by
    have : dz = [] := List.eq_nil_of_length_eq_zero hdz
    rw [this]; simp [shiftL, coneIdL, hsDotL_nil_right, degreeAll]
  | c :: cs, s, z, dz, ds, h, hc, hdz, hds, hzr => by
    rw [numelAll_cons] at hdz hds
    have hz1 : (dz.take c.numel).length = c.numel := by rw [List.length_take]; omega
    have hs1 : (ds.take c.numel).length = c.numel := by rw [List.length_take]; omega
    rw [shiftL, coneIdL, hsDotL_append _ _ _ _
        ((coneId1L_length c hc.head).trans (shift1L_length c hc.head _ _ σμ hz1 hs1).symm),
      shift1L_dot h.1 _ _ σμ hz1 hs1 hzr.1,
      shiftL_dot σμ cs _ _ _ _ h.2 hc.tail (by rw [List.length_drop]; omega)
        (by rw [List.length_drop]; omega) hzr.2, degreeAll_cons]
    conv_rhs => rw [← List.take_append_drop c.numel ds, ← List.take_append_drop c.numel dz]
    rw [hsDotL_append _ _ _ _ (hs1.trans hz1.symm)]
    push_cast
    ring

/-! ## `update_scaling` does not fail at an interior iterate -/

theorem soc_updateScaling_list (K : Soc.Cone ℝ) (s0 : ℝ) (s1 : List ℝ) (z0 : ℝ) (z1 : List ℝ)
    (hs : (s0 :: s1).length = K.dim) (hz : (z0 :: z1).length = K.dim) :
    Soc.updateScaling K (s0 :: s1).toArray (z0 :: z1).toArray
      = .ok (Soc.updateScalingCore K s0 s1 z0 z1) := by
  have hzs : Soc.split (z0 :: z1).toArray = .ok (z0, z1) := rfl
  have hss : Soc.split (s0 :: s1).toArray = .ok (s0, s1) := rfl
  unfold Soc.updateScaling
  rw [bind_ok_of hzs]
  dsimp only
  rw [bind_ok_of hss]
  dsimp only
  rw [if_neg (by simpa using hs), if_neg (by simpa using hz)]
  rfl

/-- `update_scaling` of one cone returns `true` on interior rows (zero and nonnegative cones always
do; second-order cone: C13 `soc_update_succeeds`) -/
theorem updateScaling1_interior_true {c : ConeSt ℝ} {s z : List ℝ} (hc : ConeFull c)
    (hs : s.length = c.numel) (hz : z.length = c.numel) (hint : BlockInterior c s z) :
    ∃ c', updateScaling1 c s.toArray z.toArray = .ok (true, c') := by
  obtain ⟨⟨ok, c'⟩, hr, -⟩ := updateScaling1_full (s := s.toArray) (z := z.toArray) hc
    (by simpa using hs) (by simpa using hz)
  refine ⟨c', ?_⟩
  rw [hr]
  suffices ok = true by rw [this]
  cases c with
  | zero d => cases hr; rfl
  | nonneg K =>
    unfold updateScaling1 at hr
    dsimp only at hr
    obtain ⟨K', hK, h⟩ := bind_ok_inv hr
    cases h
    rfl
  | soc K =>
    obtain ⟨s0, s1, z0, z1, rfl, rfl, hsi, hzi⟩ := hint
    have hs' : (s0 :: s1).length = K.dim := hs
    have hz' : (z0 :: z1).length = K.dim := hz
    unfold updateScaling1 at hr
    dsimp only at hr
    rw [bind_ok_of (soc_updateScaling_list K s0 s1 z0 z1 hs' hz')] at hr
    have h1 : (Soc.updateScalingCore K s0 s1 z0 z1).1 = ok := by
      have := Except.ok.inj hr
      exact congrArg Prod.fst this
    rw [← h1]
    exact Soc.updateScalingCore_succeeds K s0 s1 z0 z1 hsi hzi (by
      simp only [List.length_cons] at hs' hz'; omega)

theorem updateScaling_go_interior_true : ∀ (cones : List (ConeSt ℝ)) (s z : List ℝ), ConesFull cones →
    s.length = numelAll cones → z.length = numelAll cones → ConesInterior cones s z →
    ∃ cones', updateScaling.go cones (Bridge.cutList cones s) (Bridge.cutList cones z) = .ok (true, cones')
  | [], s, z, _, _, _, _ => ⟨[], by unfold updateScaling.go; rfl⟩
  | c :: cs, s, z, hc, hs, hz, hint => by
    rw [numelAll_cons] at hs hz
    obtain ⟨c1, h1⟩ := updateScaling1_interior_true hc.head (s := s.take c.numel) (z := z.take c.numel)
      (by rw [List.length_take]; omega) (by rw [List.length_take]; omega) hint.1
    obtain ⟨cs2, h2⟩ := updateScaling_go_interior_true cs (s.drop c.numel) (z.drop c.numel) hc.tail
      (by rw [List.length_drop]; omega) (by rw [List.length_drop]; omega) hint.2
    refine ⟨c1 :: cs2, ?_⟩
    simp only [Bridge.cutList]
    unfold updateScaling.go
    rw [bind_ok_of h1]
    dsimp only [Bool.not_true, Bool.false_eq_true, ↓reduceIte]
    rw [bind_ok_of h2]
    rfl

/-- **the composite `update_scaling` succeeds at every interior iterate**: the
`is_scaling_success = false` exit of a pass is not taken there -/
theorem updateScaling_interior_true {cones : List (ConeSt ℝ)} {s z : Array ℝ} (hc : ConesFull cones)
    (hs : s.size = numelAll cones) (hz : z.size = numelAll cones)
    (hint : ConesInterior cones s.toList z.toList) :
    ∃ cones', updateScaling cones s z = .ok (true, cones') := by
  obtain ⟨ss, hss⟩ := cutE_ok (cones := cones) (v := s) "update_scaling s" (by omega)
  obtain ⟨zs, hzs⟩ := cutE_ok (cones := cones) (v := z) "update_scaling z" (by omega)
  obtain ⟨cones', h⟩ := updateScaling_go_interior_true cones s.toList z.toList hc
    (by rw [Array.length_toList]; exact hs) (by rw [Array.length_toList]; exact hz) hint
  refine ⟨cones', ?_⟩
  unfold updateScaling
  rw [bind_ok_of hss, bind_ok_of hzs, Bridge.cutE_eq hss, Bridge.cutE_eq hzs]
  exact h

end Clarabel.Solver
