/-
  Composition on the whole-solver model WITH NONSYMMETRIC CONES — the predicate "the iterate is strictly
  inside the cone" on the model's own flat vectors, for zero / nonnegative / second-order / exponential /
  power / generalised power cones (interface of the bridge files `SolverNSBridgeStep.lean`,
  `SolverNSBridgeInit.lean`, `SolverNSBridgeMem.lean` and of `SolverNSFullCompose.lean`).  Scalar type ℝ.

  The per-cone predicates are those of C07's StepK theorems (`StepK.Blk.InteriorG`): entries `> 0`
  (nonnegative cone), `Soc.Interior` (second-order cone), C14's `Exp{Dual,Primal}Interior`,
  `Pow{Dual,Primal}Interior` with `0 < a < 1`, `StepK.GenPowInterior` (positive exponents summing to
  one, C14's `GenPow{Dual,Primal}Interior`).
-/
import ClarabelProofs.Lemmas.SolverNSFullDefs
import ClarabelProofs.Lemmas.StepKAllCones

namespace Clarabel.SolverNS
open Clarabel Residuals

/-- `(z, s)` of one cone's rows lies strictly inside `K* × K` (the rows as lists) -/
def BlkIntN : ConeT ℝ → List ℝ → List ℝ → Prop
  | .zero _, _, _ => True
  | .nonneg _, z, s => z.length = s.length ∧ (∀ v ∈ z, 0 < v) ∧ (∀ v ∈ s, 0 < v)
  | .soc _, z, s => ∃ z0 z1 s0 s1, z = z0 :: z1 ∧ s = s0 :: s1 ∧ Soc.Interior z0 z1 ∧ Soc.Interior s0 s1
  | .exp, z, s => ∃ z0 z1 z2 s0 s1 s2, z = [z0, z1, z2] ∧ s = [s0, s1, s2] ∧
      C14.ExpDualInterior z0 z1 z2 ∧ C14.ExpPrimalInterior s0 s1 s2
  | .pow a, z, s => 0 < a ∧ a < 1 ∧ ∃ z0 z1 z2 s0 s1 s2, z = [z0, z1, z2] ∧ s = [s0, s1, s2] ∧
      C14.PowDualInterior a z0 z1 z2 ∧ C14.PowPrimalInterior a s0 s1 s2
  | .genpow al _, z, s => StepK.GenPowInterior al z.toArray s.toArray
  | .psd _, _, _ => False

/-- block-wise strict interior of the flat `(z, s)` cut along the cone layout -/
def IntRowsN : List (ConeT ℝ) → List ℝ → List ℝ → Prop
  | [], _, _ => True
  | t :: rest, z, s => BlkIntN t (z.take t.nvars) (s.take t.nvars) ∧
      IntRowsN rest (z.drop t.nvars) (s.drop t.nvars)

/-- rows of the layout -/
def rowsN (l : List (ConeT ℝ)) : Nat := (l.map ConeT.nvars).sum

/-- **the iterate is strictly inside the cone**: `τ, κ > 0`, `z` and `s` have exactly the rows of the
cone layout, and on every cone's rows `(z, s)` is in the interior of `K* × K` -/
def InteriorN (l : List (ConeT ℝ)) (v : Vars ℝ) : Prop :=
  0 < v.τ ∧ 0 < v.κ ∧ v.z.size = rowsN l ∧ v.s.size = rowsN l ∧ IntRowsN l v.z.toList v.s.toList

theorem InteriorN.pos {l : List (ConeT ℝ)} {v : Vars ℝ} (h : InteriorN l v) : 0 < v.τ ∧ 0 < v.κ :=
  ⟨h.1, h.2.1⟩

end Clarabel.SolverNS
