/-
  The reduced clique graph of the clique-graph merge strategy
  (`ClarabelModel/Chordal/MergeCG.lean`, Rust `src/solver/chordal/merge/clique_graph.rs`):
  `compute_reduced_clique_graph`, `separator_graph`, `find_components`, `DFS_hashtable`,
  `is_unconnected`, `inter_equal` (Habib–Stacho construction).

  1. `forIn_inv`: the loop rule (invariant indexed by the visited prefix); `HMap` basics;
  2. `separatorGraph_ok`: no panic; the keys of `H` are the given cliques, every listed neighbour
     `b` of `a` is a given clique with `inter_equal(snd[a], snd[b], separator) = false`;
  3. `dfs_ok`: `DFS_hashtable` never runs out of fuel (fuel ≥ number of unvisited keys), marks only
     more, covers what it marks, and everything it collects is reachable from the start vertex;
     `findComponents_ok`: no panic, every clique is in a component, every component has a root;
  4. `isUnconnected_ok`, `rcInner_ok`, `rcOuter_ok`, `rcPairs_ok`, `rcSep_ok`: one separator of the
     outer loop; `reduced_ok : ReducedOkSpec`;
  5. `interEqual_true`: `inter_equal` answers `true` when the intersection IS the third set
     (duplicate-free sets; the counting argument is `countP_inter`);
  6. `TreeEdgeHyp.*`: no edge of the separator graph crosses the two sides, so no component does;
     `reduced_tree_edge : ReducedTreeEdgeSpec`.
  All theorems here are class [S].  Helper names live in the namespace `Clarabel.Chordal.CGR`.
-/
import ClarabelProofs.Lemmas.ChordalCGDefs
namespace Clarabel.Chordal
open Clarabel
namespace CGR

/-- [S] THE LOOP RULE used throughout this file: a `for` loop over a list in `MErr` whose body never
panics and never breaks, with an invariant `P pre s` that may mention the part `pre` of the list
already visited -/
theorem forIn_inv {α σ : Type} (l : List α) (f : α → σ → MErr (ForInStep σ))
    (P : List α → σ → Prop)
    (hstep : ∀ pre a post, l = pre ++ a :: post → ∀ s, P pre s →
      ∃ s', f a s = .ok (.yield s') ∧ P (pre ++ [a]) s') :
    ∀ s, P [] s → ∃ s', forIn l s f = .ok s' ∧ P l s' := by
  have key : ∀ post pre, l = pre ++ post → ∀ s, P pre s →
      ∃ s', forIn post s f = .ok s' ∧ P l s' := by
    intro post
    induction post with
    | nil =>
      intro pre hl s hs
      refine ⟨s, rfl, ?_⟩
      rw [hl, List.append_nil]; exact hs
    | cons a post ih =>
      intro pre hl s hs
      obtain ⟨s', h1, h2⟩ := hstep pre a post hl s hs
      obtain ⟨s'', h3, h4⟩ := ih (pre ++ [a]) (by rw [hl]; simp) s' h2
      refine ⟨s'', ?_, h4⟩
      rw [List.forIn_cons, h1]
      exact h3
  intro s hs
  exact key l [] rfl s hs

/-- [S] a new hash map has no key -/
theorem get?_empty {β : Type} (cap k : Nat) : (HMap.empty cap : HMap β).get? k = none := by
  unfold HMap.get? HMap.empty
  by_cases h : k < cap
  · simp [h]
  · simp [h]

/-- [S] `insert` then `get`: the inserted key is bound to the new value, every other key is unchanged -/
theorem get?_insert {β : Type} (h : HMap β) (k : Nat) (v : β) (k' : Nat) :
    (h.insert k v).get? k' = if k' = k then some v else h.get? k' := by
  unfold HMap.get? HMap.insert
  by_cases hk : k < h.slots.size
  · simp only [hk, if_true]
    by_cases e : k' = k
    · subst e; simp [hk]
    · simp only [e, if_false]
      rw [Array.getElem?_setIfInBounds_ne (Ne.symm e)]
  · simp only [hk, if_false]
    by_cases e : k' = k
    · subst e
      simp only [if_true]
      have : ((h.slots ++ Array.replicate (k' - h.slots.size) none).push (some v))[k']? = some (some v) := by
        rw [Array.getElem?_push]
        simp; omega
      rw [this]
    · simp only [e, if_false]
      rw [Array.getElem?_push]
      have hs : (h.slots ++ Array.replicate (k - h.slots.size) (none : Option β)).size = k := by
        simp; omega
      simp only [hs, e, if_false]
      rw [Array.getElem?_append]
      by_cases h2 : k' < h.slots.size
      · simp [h2]
      · simp only [h2, if_false]
        have : h.slots[k']? = none := by simp; omega
        rw [this]
        by_cases h3 : k' - h.slots.size < k - h.slots.size
        · simp [h3]
        · simp [h3]

/-- the body of the inner loop of `separator_graph` -/
def sgInner (cliqueInd : Array Nat) (separator : VSet) (snd : Array VSet) (i j : Nat)
    (H : HMap (Array Nat)) : MErr (ForInStep (HMap (Array Nat))) := do
  let ca ← getE cliqueInd i "separator_graph"
  let cb ← getE cliqueInd j "separator_graph"
  let sa ← getE snd ca "separator_graph"
  let sb ← getE snd cb "separator_graph"
  if (!interEqual sa sb separator) = true then
      if H.containsKey ca = true then do
        let l ← H.getP ca "separator_graph"
        if (H.insert ca (l.push cb)).containsKey cb = true then do
            let l1 ← (H.insert ca (l.push cb)).getP cb "separator_graph"
            pure (ForInStep.yield ((H.insert ca (l.push cb)).insert cb (l1.push ca)))
          else pure (ForInStep.yield ((H.insert ca (l.push cb)).insert cb #[ca]))
      else
        if (H.insert ca #[cb]).containsKey cb = true then do
          let l ← (H.insert ca #[cb]).getP cb "separator_graph"
          pure (ForInStep.yield ((H.insert ca #[cb]).insert cb (l.push ca)))
        else pure (ForInStep.yield ((H.insert ca #[cb]).insert cb #[ca]))
    else pure (ForInStep.yield H)

/-- the body of the outer loop of `separator_graph` -/
def sgOuter (cliqueInd : Array Nat) (separator : VSet) (snd : Array VSet) (i : Nat)
    (H : HMap (Array Nat)) : MErr (ForInStep (HMap (Array Nat))) := do
  let H ← forIn (List.range' (i + 1) (cliqueInd.size - (i + 1))) H (sgInner cliqueInd separator snd i)
  pure (ForInStep.yield H)

/-- the body of the last loop of `separator_graph` -/
def sgFill (v : Nat) (H : HMap (Array Nat)) : MErr (ForInStep (HMap (Array Nat))) :=
  if (!H.containsKey v) = true then pure (ForInStep.yield (H.insert v #[]))
  else pure (ForInStep.yield H)

/-- [S] `separator_graph` with its loops as `forIn` over lists (no hypotheses) -/
theorem separatorGraph_eq_forIn (cliqueInd : Array Nat) (separator : VSet) (snd : Array VSet) :
    separatorGraph cliqueInd separator snd = (do
      let H ← forIn (List.range' 0 cliqueInd.size) (HMap.empty snd.size) (sgOuter cliqueInd separator snd)
      let H ← forIn cliqueInd.toList H sgFill
      pure H) := by
  unfold separatorGraph
  simp only [Std.Legacy.Range.forIn_eq_forIn_range', Std.Legacy.Range.size, Nat.sub_zero,
    Nat.add_sub_cancel, Nat.div_one, ← Array.forIn_toList, bind_pure]
  rfl


/-- an admissible edge of the separator graph -/
def SGEdge (K : List Nat) (separator : VSet) (snd : Array VSet) (a b : Nat) : Prop :=
  a ∈ K ∧ b ∈ K ∧ (interEqual (snd.getD a #[]) (snd.getD b #[]) separator = false ∨
    interEqual (snd.getD b #[]) (snd.getD a #[]) separator = false)

/-- invariant of the loops of `separator_graph` -/
def SGInv (K : List Nat) (separator : VSet) (snd : Array VSet) (H : HMap (Array Nat)) : Prop :=
  (∀ k, H.containsKey k = true → k ∈ K) ∧
  (∀ a nb, H.get? a = some nb → ∀ b ∈ nb.toList, SGEdge K separator snd a b)

/-- [S] `contains_key` after `insert` -/
theorem containsKey_insert {β : Type} (h : HMap β) (k : Nat) (v : β) (k' : Nat) :
    (h.insert k v).containsKey k' = (decide (k' = k) || h.containsKey k') := by
  unfold HMap.containsKey
  rw [get?_insert]
  by_cases e : k' = k <;> simp [e]

/-- [S] binding a given clique to a list of admissible neighbours keeps the invariant -/
theorem SGInv.insert {K : List Nat} {separator : VSet} {snd : Array VSet} {H : HMap (Array Nat)}
    (h : SGInv K separator snd H) {a : Nat} (ha : a ∈ K) {nb : Array Nat}
    (hnb : ∀ b ∈ nb.toList, SGEdge K separator snd a b) : SGInv K separator snd (H.insert a nb) := by
  constructor
  · intro k hk
    rw [containsKey_insert] at hk
    by_cases e : k = a
    · exact e ▸ ha
    · simp only [e, decide_false, Bool.false_or] at hk
      exact h.1 k hk
  · intro x nb' hx b hb
    rw [get?_insert] at hx
    by_cases e : x = a
    · simp only [e, if_true, Option.some.injEq] at hx
      subst hx; subst e
      exact hnb b hb
    · simp only [e, if_false] at hx
      exact h.2 x nb' hx b hb

/-- [S] `contains_key` of an absent key -/
theorem containsKey_none {β : Type} {h : HMap β} {k : Nat} (hg : h.get? k = none) :
    h.containsKey k = false := by
  unfold HMap.containsKey; rw [hg]; rfl

/-- [S] `contains_key` of a present key -/
theorem containsKey_some {β : Type} {h : HMap β} {k : Nat} {v : β} (hg : h.get? k = some v) :
    h.containsKey k = true := by
  unfold HMap.containsKey; rw [hg]; rfl

/-- [S] `h[&k]` on a present key does not panic -/
theorem getP_some {β : Type} {h : HMap β} {k : Nat} {v : β} (hg : h.get? k = some v) (s : String) :
    h.getP k s = .ok v := by
  unfold HMap.getP; rw [hg]; rfl

/-- [S] `contains_key` means the key is bound -/
theorem containsKey_iff {β : Type} (h : HMap β) (k : Nat) :
    h.containsKey k = true ↔ ∃ v, h.get? k = some v := by
  unfold HMap.containsKey
  cases h.get? k <;> simp

/-- [S] the `else` branch of `separator_graph` (first neighbour of `a`) keeps the invariant -/
theorem SGInv.add_none {K : List Nat} {separator : VSet} {snd : Array VSet} {H : HMap (Array Nat)}
    (h : SGInv K separator snd H) {a b : Nat} (hab : SGEdge K separator snd a b) :
    SGInv K separator snd (H.insert a #[b]) := by
  refine h.insert hab.1 ?_
  intro x hx
  have : x = b := by simpa using hx
  exact this ▸ hab

/-- [S] the `then` branch of `separator_graph` (one more neighbour of `a`) keeps the invariant -/
theorem SGInv.add_some {K : List Nat} {separator : VSet} {snd : Array VSet} {H : HMap (Array Nat)}
    (h : SGInv K separator snd H) {a b : Nat} (hab : SGEdge K separator snd a b) {l : Array Nat}
    (hg : H.get? a = some l) : SGInv K separator snd (H.insert a (l.push b)) := by
  refine h.insert hab.1 ?_
  intro x hx
  simp only [Array.toList_push, List.mem_append, List.mem_singleton] at hx
  rcases hx with hx | rfl
  · exact h.2 a l hg x hx
  · exact hab

/-- [S] an in-range element is a member -/
theorem getD_mem_toList {β : Type} (xs : Array β) (i : Nat) (d : β) (h : i < xs.size) :
    xs.getD i d ∈ xs.toList := by
  simp [Array.getD, h]

/-- [S] one pass of the inner loop of `separator_graph` does not panic and keeps the invariant -/
theorem sgInner_ok {cliqueInd : Array Nat} {separator : VSet} {snd : Array VSet}
    (hlt : ∀ c ∈ cliqueInd.toList, c < snd.size) {i j : Nat} (hi : i < cliqueInd.size)
    (hj : j < cliqueInd.size) {H : HMap (Array Nat)} (h : SGInv cliqueInd.toList separator snd H) :
    ∃ H', sgInner cliqueInd separator snd i j H = .ok (.yield H') ∧
      SGInv cliqueInd.toList separator snd H' := by
  have ma := getD_mem_toList cliqueInd i 0 hi
  have mb := getD_mem_toList cliqueInd j 0 hj
  unfold sgInner
  simp only [Kr.getE_ok cliqueInd i _ 0 hi, Kr.getE_ok cliqueInd j _ 0 hj,
    Kr.getE_ok snd _ _ #[] (hlt _ ma), Kr.getE_ok snd _ _ #[] (hlt _ mb), bind, Except.bind]
  generalize cliqueInd.getD i 0 = ca at *
  generalize cliqueInd.getD j 0 = cb at *
  cases hie : interEqual (snd.getD ca #[]) (snd.getD cb #[]) separator with
  | true => exact ⟨H, by simp [pure, Except.pure], h⟩
  | false =>
    have e1 : SGEdge cliqueInd.toList separator snd ca cb := ⟨ma, mb, Or.inl hie⟩
    have e2 : SGEdge cliqueInd.toList separator snd cb ca := ⟨mb, ma, Or.inr hie⟩
    simp only [Bool.not_false, if_true]
    cases hg : H.get? ca with
    | none =>
      have h1 := h.add_none e1
      simp only [containsKey_none hg, Bool.false_eq_true, if_false]
      cases hg1 : (H.insert ca #[cb]).get? cb with
      | none =>
        simp only [containsKey_none hg1, Bool.false_eq_true, if_false]
        exact ⟨_, rfl, h1.add_none e2⟩
      | some l1 =>
        simp only [containsKey_some hg1, if_true, getP_some hg1]
        exact ⟨_, rfl, h1.add_some e2 hg1⟩
    | some l =>
      have h1 := h.add_some e1 hg
      simp only [containsKey_some hg, if_true, getP_some hg]
      cases hg1 : (H.insert ca (l.push cb)).get? cb with
      | none =>
        simp only [containsKey_none hg1, Bool.false_eq_true, if_false]
        exact ⟨_, rfl, h1.add_none e2⟩
      | some l1 =>
        simp only [containsKey_some hg1, if_true, getP_some hg1]
        exact ⟨_, rfl, h1.add_some e2 hg1⟩

/-- [S] `forIn_inv` with an invariant that does not look at the position -/
theorem forIn_inv' {α σ : Type} (l : List α) (f : α → σ → MErr (ForInStep σ)) (P : σ → Prop)
    (hstep : ∀ a ∈ l, ∀ s, P s → ∃ s', f a s = .ok (.yield s') ∧ P s') :
    ∀ s, P s → ∃ s', forIn l s f = .ok s' ∧ P s' := by
  apply forIn_inv l f (fun _ s => P s)
  intro pre a post hl s hs
  exact hstep a (by rw [hl]; simp) s hs

/-- what `separator_graph` returns: the keys are the given cliques, every listed neighbour is an
admissible edge -/
structure SGGood (K : List Nat) (separator : VSet) (snd : Array VSet) (H : HMap (Array Nat)) :
    Prop where
  keys : ∀ k, H.containsKey k = true ↔ k ∈ K
  edges : ∀ a nb, H.get? a = some nb → ∀ b ∈ nb.toList, SGEdge K separator snd a b

/-- [S] `separator_graph` does not panic when the clique indices are in range; the keys of the
table are exactly the given cliques and every listed neighbour `b` of `a` is one of the given
cliques with `inter_equal(snd[a], snd[b], separator) = false` (in one of the two orders) -/
theorem separatorGraph_ok {cliqueInd : Array Nat} {separator : VSet} {snd : Array VSet}
    (hlt : ∀ c ∈ cliqueInd.toList, c < snd.size) :
    ∃ H, separatorGraph cliqueInd separator snd = .ok H ∧
      SGGood cliqueInd.toList separator snd H := by
  rw [separatorGraph_eq_forIn]
  have h0 : SGInv cliqueInd.toList separator snd (HMap.empty snd.size) := by
    constructor
    · intro k hk
      rw [containsKey_none (get?_empty _ _)] at hk
      exact absurd hk (by simp)
    · intro a nb ha
      rw [get?_empty] at ha
      exact absurd ha (by simp)
  obtain ⟨H1, e1, i1⟩ := forIn_inv' (List.range' 0 cliqueInd.size)
    (sgOuter cliqueInd separator snd) (SGInv cliqueInd.toList separator snd) (by
      intro i hi H hH
      have hi' : i < cliqueInd.size := by
        have := List.mem_range'_1.1 hi; omega
      unfold sgOuter
      obtain ⟨H', e, iH⟩ := forIn_inv' (List.range' (i + 1) (cliqueInd.size - (i + 1)))
        (sgInner cliqueInd separator snd i) (SGInv cliqueInd.toList separator snd) (by
          intro j hj H2 hH2
          have hj' : j < cliqueInd.size := by
            have := List.mem_range'_1.1 hj; omega
          exact sgInner_ok hlt hi' hj' hH2) H hH
      exact ⟨H', by rw [e]; rfl, iH⟩) _ h0
  obtain ⟨H2, e2, i2⟩ := forIn_inv cliqueInd.toList sgFill
    (fun pre H => SGInv cliqueInd.toList separator snd H ∧ ∀ k ∈ pre, H.containsKey k = true) (by
      intro pre a post hl H hH
      have ha : a ∈ cliqueInd.toList := by rw [hl]; simp
      unfold sgFill
      cases hc : H.containsKey a with
      | true =>
        refine ⟨H, rfl, hH.1, ?_⟩
        intro k hk
        rcases List.mem_append.1 hk with hk | hk
        · exact hH.2 k hk
        · have : k = a := by simpa using hk
          exact this ▸ hc
      | false =>
        refine ⟨H.insert a #[], rfl, hH.1.insert ha (by simp), ?_⟩
        intro k hk
        rw [containsKey_insert]
        rcases List.mem_append.1 hk with hk | hk
        · rw [hH.2 k hk]; simp
        · have : k = a := by simpa using hk
          simp [this]) H1 ⟨i1, by simp⟩
  refine ⟨H2, ?_, ⟨fun k => ⟨i2.1.1 k, i2.2 k⟩, i2.1.2⟩⟩
  rw [e1]
  simp only [bind, Except.bind]
  rw [e2]

/-! ## the depth-first search -/

/-- `b` is listed as a neighbour of `a` -/
def HStep (H : HMap (Array Nat)) (a b : Nat) : Prop := ∃ nb, H.get? a = some nb ∧ b ∈ nb.toList

/-- reachability along listed neighbours -/
def HReach (H : HMap (Array Nat)) : Nat → Nat → Prop := Relation.ReflTransGen (HStep H)

/-- the number of cliques not yet marked as visited -/
def unv (K : List Nat) (vis : HMap Bool) : Nat := K.countP (fun k => vis.get? k != some true)

/-- [S] counting with a pointwise smaller predicate that differs at a member gives a strictly smaller count -/
theorem countP_lt_of {p q : Nat → Bool} {v : Nat} (hq : q v = false) (hp : p v = true)
    (hqp : ∀ k, q k = true → p k = true) : ∀ K : List Nat, v ∈ K → K.countP q < K.countP p := by
  intro K
  induction K with
  | nil => intro h; simp at h
  | cons a K ih =>
    intro h
    have hle : K.countP q ≤ K.countP p := List.countP_mono_left (fun x _ => hqp x)
    by_cases e : a = v
    · subst e
      simp only [List.countP_cons, hq, hp, if_true, Bool.false_eq_true, if_false]
      omega
    · have hv : v ∈ K := by
        rcases List.mem_cons.1 h with h | h
        · exact absurd h.symm e
        · exact h
      have := ih hv
      simp only [List.countP_cons]
      cases hqa : q a <;> cases hpa : p a
      all_goals simp only [Bool.false_eq_true, if_false, if_true]
      all_goals first | omega | (have := hqp a hqa; simp [hpa] at this)

/-- [S] marking an unvisited clique decreases the number of unvisited cliques -/
theorem unv_insert_lt {K : List Nat} {vis : HMap Bool} {v : Nat} (hv : v ∈ K)
    (hu : vis.get? v ≠ some true) : unv K (vis.insert v true) < unv K vis := by
  unfold unv
  apply countP_lt_of (v := v) _ _ _ K hv
  · simp [get?_insert]
  · simpa using hu
  · intro k
    rw [get?_insert]
    by_cases e : k = v
    · simp [e]
    · simp [e]

/-- [S] adding marks does not increase the number of unvisited cliques -/
theorem unv_mono {K : List Nat} {vis vis' : HMap Bool}
    (h : ∀ k, vis.get? k = some true → vis'.get? k = some true) : unv K vis' ≤ unv K vis := by
  unfold unv
  apply List.countP_mono_left
  intro x _ hx
  simp only [bne_iff_ne, ne_eq] at hx ⊢
  exact fun hc => hx (h x hc)

/-- [S] an unvisited clique is counted -/
theorem unv_pos {K : List Nat} {vis : HMap Bool} {v : Nat} (hv : v ∈ K)
    (hu : vis.get? v ≠ some true) : 0 < unv K vis := by
  unfold unv
  rw [List.countP_pos_iff]
  exact ⟨v, hv, by simpa using hu⟩

/-- the effect of (part of) a depth-first search started at `v` on the pair
`(component, visited)` -/
structure DfsRel (K : List Nat) (H : HMap (Array Nat)) (v : Nat) (s s' : VSet × HMap Bool) :
    Prop where
  keys : ∀ k, s'.2.containsKey k = true ↔ k ∈ K
  mono : ∀ k, s.2.get? k = some true → s'.2.get? k = some true
  sub : ∀ x ∈ s.1.toList, x ∈ s'.1.toList
  cover : ∀ x, s'.2.get? x = some true → s.2.get? x = some true ∨ x ∈ s'.1.toList
  reach : ∀ x ∈ s'.1.toList, x ∈ s.1.toList ∨ HReach H v x

/-- [S] doing nothing is a (trivial) part of a search -/
theorem DfsRel.refl {K : List Nat} {H : HMap (Array Nat)} {v : Nat} {s : VSet × HMap Bool}
    (hk : ∀ k, s.2.containsKey k = true ↔ k ∈ K) : DfsRel K H v s s :=
  ⟨hk, fun _ h => h, fun _ h => h, fun _ h => Or.inl h, fun _ h => Or.inl h⟩

/-- [S] parts of a search from the same vertex compose -/
theorem DfsRel.trans {K : List Nat} {H : HMap (Array Nat)} {v : Nat} {s s' s'' : VSet × HMap Bool}
    (h : DfsRel K H v s s') (h' : DfsRel K H v s' s'') : DfsRel K H v s s'' where
  keys := h'.keys
  mono := fun k hk => h'.mono k (h.mono k hk)
  sub := fun x hx => h'.sub x (h.sub x hx)
  cover := by
    intro x hx
    rcases h'.cover x hx with h1 | h1
    · rcases h.cover x h1 with h2 | h2
      · exact Or.inl h2
      · exact Or.inr (h'.sub x h2)
    · exact Or.inr h1
  reach := by
    intro x hx
    rcases h'.reach x hx with h1 | h1
    · exact h.reach x h1
    · exact Or.inr h1

/-- [S] a search from a neighbour `n` of `v` is part of a search from `v` -/
theorem DfsRel.lift {K : List Nat} {H : HMap (Array Nat)} {v n : Nat} {s s' : VSet × HMap Bool}
    (h : DfsRel K H n s s') (hvn : HStep H v n) : DfsRel K H v s s' where
  keys := h.keys
  mono := h.mono
  sub := h.sub
  cover := h.cover
  reach := by
    intro x hx
    rcases h.reach x hx with h1 | h1
    · exact Or.inl h1
    · exact Or.inr (Relation.ReflTransGen.head hvn h1)

/-- the body of the loop over the neighbours in `DFS_hashtable` -/
def dfsStep (fuel : Nat) (H : HMap (Array Nat)) (acc : VSet × HMap Bool) (n : Nat) :
    MErr (VSet × HMap Bool) := do
  let vn ← acc.2.getP n "DFS_hashtable"
  if !vn then dfsHashtable fuel acc.1 n acc.2 H else pure acc

/-- [S] `DFS_hashtable` with positive fuel, its loop over the neighbours with the body named -/
theorem dfsHashtable_succ (fuel : Nat) (component : VSet) (v : Nat) (visited : HMap Bool)
    (H : HMap (Array Nat)) :
    dfsHashtable (fuel + 1) component v visited H = (do
      let nbrs ← H.getP v "DFS_hashtable"
      nbrs.toList.foldlM (dfsStep fuel H) (component.insert v, visited.insert v true)) := by
  rw [dfsHashtable]
  rfl

/-- [S] THE DEPTH-FIRST SEARCH: started at an unvisited key `v` with at least as much fuel as
there are unvisited keys, `DFS_hashtable` does not panic (no missing key, fuel never exhausted);
it marks `v`, only adds marks, every newly marked vertex is put into the component, and everything
put into the component is reachable from `v` -/
theorem dfs_ok {K : List Nat} {H : HMap (Array Nat)}
    (hH : ∀ k, H.containsKey k = true ↔ k ∈ K)
    (hE : ∀ a nb, H.get? a = some nb → ∀ b ∈ nb.toList, b ∈ K) :
    ∀ (fuel : Nat) (comp : VSet) (v : Nat) (vis : HMap Bool), v ∈ K →
      (∀ k, vis.containsKey k = true ↔ k ∈ K) → unv K vis ≤ fuel → vis.get? v ≠ some true →
      ∃ s', dfsHashtable fuel comp v vis H = .ok s' ∧ DfsRel K H v (comp, vis) s' ∧
        s'.2.get? v = some true := by
  intro fuel
  induction fuel with
  | zero =>
    intro comp v vis hv _ hf hu
    have := unv_pos hv hu
    omega
  | succ fuel ih =>
    intro comp v vis hv hk hf hu
    obtain ⟨nbrs, hn⟩ := (containsKey_iff H v).1 ((hH v).2 hv)
    rw [dfsHashtable_succ, getP_some hn]
    simp only [bind, Except.bind]
    -- the loop over the neighbours
    have loop : ∀ (l : List Nat), (∀ n ∈ l, n ∈ K ∧ HStep H v n) → ∀ acc : VSet × HMap Bool,
        (∀ k, acc.2.containsKey k = true ↔ k ∈ K) → unv K acc.2 ≤ fuel →
        ∃ s', l.foldlM (dfsStep fuel H) acc = .ok s' ∧ DfsRel K H v acc s' := by
      intro l
      induction l with
      | nil =>
        intro _ acc hka _
        exact ⟨acc, rfl, DfsRel.refl hka⟩
      | cons n l ihl =>
        intro hl acc hka hfa
        have hn' := hl n (by simp)
        obtain ⟨b, hb⟩ := (containsKey_iff acc.2 n).1 ((hka n).2 hn'.1)
        have hstep : ∃ s1, dfsStep fuel H acc n = .ok s1 ∧ DfsRel K H v acc s1 := by
          unfold dfsStep
          rw [getP_some hb]
          simp only [bind, Except.bind]
          cases b with
          | true => exact ⟨acc, rfl, DfsRel.refl hka⟩
          | false =>
            obtain ⟨s1, e1, r1, _⟩ := ih acc.1 n acc.2 hn'.1 hka hfa (by rw [hb]; simp)
            exact ⟨s1, by simpa using e1, r1.lift hn'.2⟩
        obtain ⟨s1, e1, r1⟩ := hstep
        obtain ⟨s2, e2, r2⟩ := ihl (fun m hm => hl m (by simp [hm])) s1 r1.keys
          (Nat.le_trans (unv_mono r1.mono) hfa)
        refine ⟨s2, ?_, r1.trans r2⟩
        rw [List.foldlM_cons, e1]
        exact e2
    have r0 : DfsRel K H v (comp, vis) (comp.insert v, vis.insert v true) := by
      constructor
      · intro k
        simp only [containsKey_insert]
        by_cases e : k = v
        · simp [e, hv]
        · simp [e, hk k]
      · intro k hk'
        simp only [get?_insert]
        by_cases e : k = v
        · simp [e]
        · simpa [e] using hk'
      · intro x hx
        exact (VSet.mem_insert _ _ _).2 (Or.inl hx)
      · intro x hx
        simp only [get?_insert] at hx
        by_cases e : x = v
        · exact Or.inr ((VSet.mem_insert _ _ _).2 (Or.inr e))
        · simp only [e, if_false] at hx
          exact Or.inl hx
      · intro x hx
        rcases (VSet.mem_insert _ _ _).1 hx with h | h
        · exact Or.inl h
        · exact Or.inr (h ▸ Relation.ReflTransGen.refl)
    obtain ⟨s', e', r'⟩ := loop nbrs.toList
      (fun n hn' => ⟨hE v nbrs hn n hn', ⟨nbrs, hn, hn'⟩⟩) _ r0.keys
      (by have := unv_insert_lt hv hu; simp only; omega)
    refine ⟨s', e', r0.trans r', r'.mono v ?_⟩
    simp [get?_insert]

/-! ## `find_components` -/

/-- the body of the first loop of `find_components` -/
def fcInit (v : Nat) (vis : HMap Bool) : MErr (ForInStep (HMap Bool)) :=
  pure (ForInStep.yield (vis.insert v false))

/-- the body of the second loop of `find_components` -/
def fcStep (H : HMap (Array Nat)) (n : Nat) (v : Nat) (st : HMap Bool × Array VSet) :
    MErr (ForInStep (HMap Bool × Array VSet)) := do
  let b ← st.1.getP v "find_components"
  if (!b) = true then do
    let x ← dfsHashtable (n + 1) #[] v st.1 H
    match x with
    | (component, vis) => pure (ForInStep.yield (vis, st.2.push component))
  else pure (ForInStep.yield (st.1, st.2))

/-- [S] `find_components` with its loops as `forIn` over lists (no hypotheses) -/
theorem findComponents_eq_forIn (H : HMap (Array Nat)) (cliqueInd : Array Nat) :
    findComponents H cliqueInd = (do
      let vis ← forIn cliqueInd.toList (HMap.empty H.slots.size) fcInit
      let st ← forIn cliqueInd.toList (vis, (#[] : Array VSet)) (fcStep H cliqueInd.size)
      pure st.2) := by
  unfold findComponents
  simp only [← Array.forIn_toList]
  rfl

/-- what `find_components` returns: every given clique lies in a component, and all members of a
component are reachable from one vertex -/
structure CompGood (K : List Nat) (H : HMap (Array Nat)) (comps : Array VSet) : Prop where
  cover : ∀ v ∈ K, ∃ C ∈ comps.toList, v ∈ C.toList
  root : ∀ C ∈ comps.toList, ∃ r, ∀ x ∈ C.toList, HReach H r x

/-- [S] `find_components` does not panic on a table whose keys are the given cliques and whose
neighbour lists stay inside them (in particular the fuel `clique_ind.len() + 1` of each top-level
`DFS_hashtable` call suffices); every given clique ends up in a component, and each component is
reachable from a single vertex -/
theorem findComponents_ok {cliqueInd : Array Nat} {H : HMap (Array Nat)}
    (hH : ∀ k, H.containsKey k = true ↔ k ∈ cliqueInd.toList)
    (hE : ∀ a nb, H.get? a = some nb → ∀ b ∈ nb.toList, b ∈ cliqueInd.toList) :
    ∃ comps, findComponents H cliqueInd = .ok comps ∧ CompGood cliqueInd.toList H comps := by
  rw [findComponents_eq_forIn]
  obtain ⟨vis, e1, k1, f1⟩ := forIn_inv cliqueInd.toList fcInit
    (fun pre vis => (∀ k, vis.containsKey k = true ↔ k ∈ pre) ∧ ∀ k, vis.get? k ≠ some true) (by
      intro pre a post _ vis hv
      refine ⟨vis.insert a false, rfl, ?_, ?_⟩
      · intro k
        rw [containsKey_insert, List.mem_append]
        by_cases e : k = a
        · simp [e]
        · simp [e, hv.1 k]
      · intro k
        rw [get?_insert]
        by_cases e : k = a
        · simp [e]
        · simpa [e] using hv.2 k) (HMap.empty H.slots.size) (by
      constructor
      · intro k; rw [containsKey_none (get?_empty _ _)]; simp
      · intro k; rw [get?_empty]; simp)
  obtain ⟨st, e2, k2, c2, p2, r2⟩ := forIn_inv cliqueInd.toList (fcStep H cliqueInd.size)
    (fun pre st => (∀ k, st.1.containsKey k = true ↔ k ∈ cliqueInd.toList) ∧
      (∀ x, st.1.get? x = some true → ∃ C ∈ st.2.toList, x ∈ C.toList) ∧
      (∀ v ∈ pre, st.1.get? v = some true) ∧
      (∀ C ∈ st.2.toList, ∃ r, ∀ x ∈ C.toList, HReach H r x)) (by
      intro pre v post hl st ⟨hk, hc, hp, hr⟩
      have hv : v ∈ cliqueInd.toList := by rw [hl]; simp
      obtain ⟨b, hb⟩ := (containsKey_iff st.1 v).1 ((hk v).2 hv)
      unfold fcStep
      rw [getP_some hb]
      simp only [bind, Except.bind]
      cases b with
      | true =>
        refine ⟨st, rfl, hk, hc, ?_, hr⟩
        intro w hw
        rcases List.mem_append.1 hw with hw | hw
        · exact hp w hw
        · have : w = v := by simpa using hw
          exact this ▸ hb
      | false =>
        have hfuel : unv cliqueInd.toList st.1 ≤ cliqueInd.size + 1 := by
          unfold unv
          have := List.countP_le_length (p := fun k => st.1.get? k != some true)
            (l := cliqueInd.toList)
          simp only [Array.length_toList] at this
          omega
        obtain ⟨s', e', r', t'⟩ := dfs_ok hH hE (cliqueInd.size + 1) #[] v st.1 hv hk hfuel
          (by rw [hb]; simp)
        refine ⟨(s'.2, st.2.push s'.1), ?_, r'.keys, ?_, ?_, ?_⟩
        · simp only [Bool.not_false, if_true, e']
          rfl
        · intro x hx
          rcases r'.cover x hx with h | h
          · obtain ⟨C, hC, hxC⟩ := hc x h
            exact ⟨C, by simp [hC], hxC⟩
          · exact ⟨s'.1, by simp, h⟩
        · intro w hw
          rcases List.mem_append.1 hw with hw | hw
          · exact r'.mono w (hp w hw)
          · have : w = v := by simpa using hw
            exact this ▸ t'
        · intro C hC
          simp only [Array.toList_push, List.mem_append, List.mem_singleton] at hC
          rcases hC with hC | hC
          · exact hr C hC
          · refine ⟨v, ?_⟩
            intro x hx
            rw [hC] at hx
            rcases r'.reach x hx with h | h
            · simp at h
            · exact h) (vis, #[]) ⟨k1, fun x hx => absurd hx (f1 x), by simp, by simp⟩
  refine ⟨st.2, ?_, ⟨fun v hv => c2 v (p2 v hv), r2⟩⟩
  rw [e1]
  simp only [bind, Except.bind]
  rw [e2]
  rfl

/-! ## `position_all`, `is_unconnected` -/

/-- [S] `position_all` lists exactly the positions whose element satisfies the predicate -/
theorem mem_positionAll {β : Type} (xs : Array β) (pred : β → Bool) (i : Nat) :
    i ∈ (positionAll xs pred).toList ↔ ∃ x, xs[i]? = some x ∧ pred x = true := by
  unfold positionAll
  simp only [List.mem_filter, List.mem_range]
  constructor
  · rintro ⟨h1, h2⟩
    cases hx : xs[i]? with
    | none => rw [hx] at h2; simp at h2
    | some x => rw [hx] at h2; exact ⟨x, rfl, h2⟩
  · rintro ⟨x, h1, h2⟩
    refine ⟨?_, by rw [h1]; exact h2⟩
    by_contra hc
    have : xs[i]? = none := by simp; omega
    rw [this] at h1; simp at h1

/-- [S] `position_all` returns a strictly increasing list -/
theorem positionAll_pairwise {β : Type} (xs : Array β) (pred : β → Bool) :
    (positionAll xs pred).toList.Pairwise (· < ·) := by
  unfold positionAll
  exact List.Pairwise.filter _ List.pairwise_lt_range

/-- [S] `position_all` returns positions inside the array -/
theorem positionAll_lt {β : Type} (xs : Array β) (pred : β → Bool) :
    ∀ i ∈ (positionAll xs pred).toList, i < xs.size := by
  intro i hi
  obtain ⟨x, hx, _⟩ := (mem_positionAll xs pred i).1 hi
  by_contra hc
  have : xs[i]? = none := by simp; omega
  rw [this] at hx; simp at hx

/-- [S] a strictly increasing array, stated with `getD` -/
theorem pairwise_getD {ci : Array Nat} (h : ci.toList.Pairwise (· < ·)) :
    ∀ i j, i < j → j < ci.size → ci.getD i 0 < ci.getD j 0 := by
  intro i j hij hj
  have := (List.pairwise_iff_getElem.1 h) i j (by simp; omega) (by simpa using hj) hij
  simpa [Array.getD, hj, Nat.lt_trans hij hj] using this

/-- [S] `is_unconnected` does not panic when the first clique of the pair lies in a component; it
answers `true` when no component contains both cliques -/
theorem isUnconnected_ok {pair : Nat × Nat} {comps : Array VSet}
    (h : ∃ C ∈ comps.toList, pair.1 ∈ C.toList) :
    ∃ b, isUnconnected pair comps = .ok b ∧
      ((∀ C ∈ comps.toList, pair.1 ∈ C.toList → pair.2 ∉ C.toList) → b = true) := by
  unfold isUnconnected
  cases hf : comps.findIdx? (fun x => x.contains pair.1) with
  | none =>
    exfalso
    rw [Array.findIdx?_eq_none_iff] at hf
    obtain ⟨C, hC, hp⟩ := h
    have := hf C (by simpa using hC)
    simp at this
    exact this (by simpa using hp)
  | some ci =>
    obtain ⟨hlt, hp, _⟩ := Array.findIdx?_eq_some_iff_getElem.1 hf
    simp only [Kr.getE_ok comps ci _ #[] hlt, bind, Except.bind]
    refine ⟨_, rfl, ?_⟩
    intro hsep
    have hmem : comps.getD ci #[] ∈ comps.toList := getD_mem_toList comps ci #[] hlt
    have h1 : pair.1 ∈ (comps.getD ci #[]).toList := by
      simp only [Array.getD, hlt, dite_true]
      simpa using hp
    have := hsep _ hmem h1
    simp only [Bool.not_eq_true']
    simpa using this

/-! ## the loops of `compute_reduced_clique_graph` -/

/-- the body of the innermost loop of `compute_reduced_clique_graph` -/
def rcInner (ci : Array Nat) (comps : Array VSet) (i j : Nat) (st : Array Nat × Array Nat) :
    MErr (ForInStep (Array Nat × Array Nat)) := do
  let a ← getE ci i "compute_reduced_clique_graph"
  let b ← getE ci j "compute_reduced_clique_graph"
  let u ← isUnconnected (a, b) comps
  if u = true then pure (ForInStep.yield (st.1.push (max a b), st.2.push (min a b)))
  else pure (ForInStep.yield (st.1, st.2))

/-- the body of the loop over `i` of `compute_reduced_clique_graph` -/
def rcOuter (ci : Array Nat) (comps : Array VSet) (i : Nat) (st : Array Nat × Array Nat) :
    MErr (ForInStep (Array Nat × Array Nat)) := do
  let st ← forIn (List.range' (i + 1) (ci.size - (i + 1))) (st.1, st.2) (rcInner ci comps i)
  pure (ForInStep.yield (st.1, st.2))

/-- the body of the loop over the separators of `compute_reduced_clique_graph` -/
def rcSep (snode : Array VSet) (separator : VSet) (st : Array Nat × Array Nat) :
    MErr (ForInStep (Array Nat × Array Nat)) := do
  let H ← separatorGraph (positionAll snode fun x => separator.isSubset x) separator snode
  let comps ← findComponents H (positionAll snode fun x => separator.isSubset x)
  let st ← forIn (List.range' 0 (positionAll snode fun x => separator.isSubset x).size)
    (st.1, st.2) (rcOuter (positionAll snode fun x => separator.isSubset x) comps)
  pure (ForInStep.yield (st.1, st.2))

/-- the separators in the order they are visited -/
def sortedSeps (separators : Array VSet) : List VSet :=
  separators.toList.mergeSort (fun a b => decide (a.size ≥ b.size))

/-- [S] `compute_reduced_clique_graph` with its loops as `forIn` over lists (no hypotheses) -/
theorem computeReducedCliqueGraph_eq_forIn (separators snode : Array VSet) :
    computeReducedCliqueGraph separators snode = (do
      let st ← forIn (sortedSeps separators) ((#[] : Array Nat), (#[] : Array Nat)) (rcSep snode)
      pure ((sortedSeps separators).toArray, st.1, st.2)) := by
  unfold computeReducedCliqueGraph
  simp only [Std.Legacy.Range.forIn_eq_forIn_range', Std.Legacy.Range.size, Nat.sub_zero,
    Nat.add_sub_cancel, Nat.div_one, ← Array.forIn_toList]
  rfl

/-- the emitted pairs are well formed: `cols[k] < rows[k] < N` -/
def PairsOk (N : Nat) (st : Array Nat × Array Nat) : Prop :=
  st.1.size = st.2.size ∧ ∀ k, k < st.1.size → st.2.getD k 0 < st.1.getD k 0 ∧ st.1.getD k 0 < N

/-- the pair `(R, C)` has been emitted -/
def HasPair (R C : Nat) (st : Array Nat × Array Nat) : Prop :=
  ∃ k, k < st.1.size ∧ k < st.2.size ∧ st.1.getD k 0 = R ∧ st.2.getD k 0 = C

/-- what every pass of the loops keeps: well-formedness, and the pairs already emitted -/
def StRel (N : Nat) (st st' : Array Nat × Array Nat) : Prop :=
  (PairsOk N st → PairsOk N st') ∧ ∀ R C, HasPair R C st → HasPair R C st'

/-- [S] `StRel` is reflexive -/
theorem StRel.refl (N : Nat) (st : Array Nat × Array Nat) : StRel N st st :=
  ⟨fun h => h, fun _ _ h => h⟩

/-- [S] `StRel` is transitive -/
theorem StRel.trans {N : Nat} {st st' st'' : Array Nat × Array Nat} (h : StRel N st st')
    (h' : StRel N st' st'') : StRel N st st'' :=
  ⟨fun x => h'.1 (h.1 x), fun R C x => h'.2 R C (h.2 R C x)⟩

/-- [S] `push` does not change the old elements -/
theorem getD_push_lt {β : Type} (xs : Array β) (x d : β) (k : Nat) (h : k < xs.size) :
    (xs.push x).getD k d = xs.getD k d := by
  simp [Array.getD, h, Nat.lt_succ_of_lt h, Array.getElem_push_lt]

/-- [S] `push` puts the new element last -/
theorem getD_push_eq {β : Type} (xs : Array β) (x d : β) :
    (xs.push x).getD xs.size d = x := by
  simp [Array.getD]

/-- [S] emitting `(max a b, min a b)` for `a < b < N` keeps the state well formed, loses nothing,
and (when `rows` and `cols` are equally long) the new pair is there -/
theorem StRel.push {N : Nat} (st : Array Nat × Array Nat) {a b : Nat} (hab : a < b) (hb : b < N) :
    StRel N st (st.1.push (max a b), st.2.push (min a b)) ∧
      (st.1.size = st.2.size →
        HasPair (max a b) (min a b) (st.1.push (max a b), st.2.push (min a b))) := by
  refine ⟨⟨?_, ?_⟩, ?_⟩
  · rintro ⟨hs, hk⟩
    refine ⟨by simp [hs], ?_⟩
    intro k hk'
    simp only [Array.size_push] at hk'
    by_cases e : k < st.1.size
    · rw [getD_push_lt _ _ _ _ e, getD_push_lt _ _ _ _ (hs ▸ e)]
      exact hk k e
    · have : k = st.1.size := by omega
      subst this
      rw [getD_push_eq]
      rw [hs, getD_push_eq]
      omega
  · rintro R C ⟨k, h1, h2, h3, h4⟩
    refine ⟨k, by simp; omega, by simp; omega, ?_, ?_⟩
    · simp only; rw [getD_push_lt _ _ _ _ h1]; exact h3
    · simp only; rw [getD_push_lt _ _ _ _ h2]; exact h4
  · intro hs
    refine ⟨st.1.size, by simp, by simp [hs], ?_, ?_⟩
    · simp only; rw [getD_push_eq]
    · simp only; rw [hs, getD_push_eq]

/-- [S] one pass of the innermost loop of `compute_reduced_clique_graph`: no panic when the first
clique lies in a component; the state stays well formed, nothing is lost, and the pair is emitted
when no component contains both cliques -/
theorem rcInner_ok {N : Nat} {ci : Array Nat} {comps : Array VSet}
    (hinc : ∀ i j, i < j → j < ci.size → ci.getD i 0 < ci.getD j 0)
    (hlt : ∀ i, i < ci.size → ci.getD i 0 < N)
    (hcov : ∀ v ∈ ci.toList, ∃ C ∈ comps.toList, v ∈ C.toList)
    {i j : Nat} (hij : i < j) (hj : j < ci.size) (st : Array Nat × Array Nat) :
    ∃ st', rcInner ci comps i j st = .ok (.yield st') ∧ StRel N st st' ∧
      (st.1.size = st.2.size →
        (∀ C ∈ comps.toList, ci.getD i 0 ∈ C.toList → ci.getD j 0 ∉ C.toList) →
        HasPair (max (ci.getD i 0) (ci.getD j 0)) (min (ci.getD i 0) (ci.getD j 0)) st') := by
  have hi : i < ci.size := Nat.lt_trans hij hj
  unfold rcInner
  simp only [Kr.getE_ok ci i _ 0 hi, Kr.getE_ok ci j _ 0 hj, bind, Except.bind]
  obtain ⟨u, hu, hsep⟩ := isUnconnected_ok (pair := (ci.getD i 0, ci.getD j 0)) (comps := comps)
    (hcov _ (getD_mem_toList ci i 0 hi))
  rw [hu]
  cases u with
  | true =>
    have := StRel.push (N := N) st (hinc i j hij hj) (hlt j hj)
    exact ⟨_, rfl, this.1, fun hs _ => this.2 hs⟩
  | false =>
    refine ⟨st, rfl, StRel.refl N st, ?_⟩
    intro _ h
    exact absurd (hsep h) (by simp)

/-- no component contains both the `i`-th and the `j`-th clique -/
def Unconn (ci : Array Nat) (comps : Array VSet) (i j : Nat) : Prop :=
  ∀ C ∈ comps.toList, ci.getD i 0 ∈ C.toList → ci.getD j 0 ∉ C.toList

/-- [S] one pass of the loop over `i` of `compute_reduced_clique_graph` -/
theorem rcOuter_ok {N : Nat} {ci : Array Nat} {comps : Array VSet}
    (hinc : ∀ i j, i < j → j < ci.size → ci.getD i 0 < ci.getD j 0)
    (hlt : ∀ i, i < ci.size → ci.getD i 0 < N)
    (hcov : ∀ v ∈ ci.toList, ∃ C ∈ comps.toList, v ∈ C.toList)
    {i : Nat} (st : Array Nat × Array Nat) (hst : PairsOk N st) :
    ∃ st', rcOuter ci comps i st = .ok (.yield st') ∧ StRel N st st' ∧
      (∀ j, i < j → j < ci.size → Unconn ci comps i j →
        HasPair (max (ci.getD i 0) (ci.getD j 0)) (min (ci.getD i 0) (ci.getD j 0)) st') := by
  obtain ⟨s', e, r, hp⟩ := forIn_inv (List.range' (i + 1) (ci.size - (i + 1))) (rcInner ci comps i)
    (fun pre s => StRel N st s ∧ ∀ j ∈ pre, Unconn ci comps i j →
        HasPair (max (ci.getD i 0) (ci.getD j 0)) (min (ci.getD i 0) (ci.getD j 0)) s) (by
      intro pre j post hl s ⟨hr, hp⟩
      have hj : j ∈ List.range' (i + 1) (ci.size - (i + 1)) := by rw [hl]; simp
      have hj' := List.mem_range'_1.1 hj
      obtain ⟨s', e, r, h⟩ := rcInner_ok hinc hlt hcov (i := i) (j := j) (by omega) (by omega) s
      refine ⟨s', e, hr.trans r, ?_⟩
      intro j' hj'' hu
      rcases List.mem_append.1 hj'' with hm | hm
      · exact r.2 _ _ (hp j' hm hu)
      · have : j' = j := by simpa using hm
        subst this
        exact h (hr.1 hst).1 hu) st ⟨StRel.refl N st, by simp⟩
  refine ⟨s', ?_, r, ?_⟩
  · unfold rcOuter
    have : (st.1, st.2) = st := rfl
    rw [this, e]
    rfl
  · intro j hij hj hu
    exact hp j (List.mem_range'_1.2 ⟨by omega, by omega⟩) hu

/-- [S] the double loop over the pairs of `compute_reduced_clique_graph` -/
theorem rcPairs_ok {N : Nat} {ci : Array Nat} {comps : Array VSet}
    (hinc : ∀ i j, i < j → j < ci.size → ci.getD i 0 < ci.getD j 0)
    (hlt : ∀ i, i < ci.size → ci.getD i 0 < N)
    (hcov : ∀ v ∈ ci.toList, ∃ C ∈ comps.toList, v ∈ C.toList)
    (st : Array Nat × Array Nat) (hst : PairsOk N st) :
    ∃ st', forIn (List.range' 0 ci.size) st (rcOuter ci comps) = .ok st' ∧ StRel N st st' ∧
      (∀ i j, i < j → j < ci.size → Unconn ci comps i j →
        HasPair (max (ci.getD i 0) (ci.getD j 0)) (min (ci.getD i 0) (ci.getD j 0)) st') := by
  obtain ⟨s', e, r, hp⟩ := forIn_inv (List.range' 0 ci.size) (rcOuter ci comps)
    (fun pre s => StRel N st s ∧ ∀ i ∈ pre, ∀ j, i < j → j < ci.size → Unconn ci comps i j →
        HasPair (max (ci.getD i 0) (ci.getD j 0)) (min (ci.getD i 0) (ci.getD j 0)) s) (by
      intro pre i post hl s ⟨hr, hp⟩
      obtain ⟨s', e, r, h⟩ := rcOuter_ok hinc hlt hcov (i := i) s (hr.1 hst)
      refine ⟨s', e, hr.trans r, ?_⟩
      intro i' hi' j hij hj hu
      rcases List.mem_append.1 hi' with hm | hm
      · exact r.2 _ _ (hp i' hm j hij hj hu)
      · have : i' = i := by simpa using hm
        subst this
        exact h j hij hj hu) st ⟨StRel.refl N st, by simp⟩
  refine ⟨s', e, r, ?_⟩
  intro i j hij hj hu
  exact hp i (List.mem_range'_1.2 ⟨by omega, by omega⟩) j hij hj hu

/-- the cliques that contain the separator -/
def sepCliques (snode : Array VSet) (separator : VSet) : Array Nat :=
  positionAll snode fun x => separator.isSubset x

/-- [S] ONE SEPARATOR of `compute_reduced_clique_graph`: no panic for any separator and any clique
sets; the state stays well formed, nothing is lost, and for every two cliques containing the
separator that no component of the separator graph joins, the pair is emitted -/
theorem rcSep_ok (snode : Array VSet) (separator : VSet) (st : Array Nat × Array Nat)
    (hst : PairsOk snode.size st) :
    ∃ st' H comps, rcSep snode separator st = .ok (.yield st') ∧ StRel snode.size st st' ∧
      SGGood (sepCliques snode separator).toList separator snode H ∧
      CompGood (sepCliques snode separator).toList H comps ∧
      (∀ i j, i < j → j < (sepCliques snode separator).size →
        Unconn (sepCliques snode separator) comps i j →
        HasPair (max ((sepCliques snode separator).getD i 0) ((sepCliques snode separator).getD j 0))
          (min ((sepCliques snode separator).getD i 0) ((sepCliques snode separator).getD j 0)) st') := by
  have hlt := positionAll_lt snode (fun x => separator.isSubset x)
  have hinc := pairwise_getD (positionAll_pairwise snode (fun x => separator.isSubset x))
  obtain ⟨H, eH, gH⟩ := separatorGraph_ok (separator := separator) hlt
  obtain ⟨comps, eC, gC⟩ := findComponents_ok gH.keys
    (fun a nb ha b hb => (gH.edges a nb ha b hb).2.1)
  obtain ⟨st', e, r, hp⟩ := rcPairs_ok (N := snode.size) hinc
    (fun i hi => hlt _ (getD_mem_toList _ i 0 hi)) gC.cover st hst
  refine ⟨st', H, comps, ?_, r, gH, gC, hp⟩
  unfold rcSep
  have : (st.1, st.2) = st := rfl
  rw [eH]
  simp only [bind, Except.bind]
  rw [eC]
  simp only [this, e]
  rfl

/-- [S] the initial state is well formed -/
theorem PairsOk.empty (N : Nat) : PairsOk N ((#[] : Array Nat), (#[] : Array Nat)) :=
  ⟨rfl, fun k hk => absurd hk (by simp)⟩

end CGR

open CGR in
/-- [S] `compute_reduced_clique_graph` NEVER PANICS, for any separators and any clique sets: no
missing hash-map key, the fuel of `DFS_hashtable` is never exhausted, `is_unconnected` always finds
a component.  It returns the separators permuted, and pairs `cols[k] < rows[k] < cliques.size`. -/
theorem reduced_ok : ReducedOkSpec := by
  intro separators cliques
  rw [computeReducedCliqueGraph_eq_forIn]
  obtain ⟨st, e, h⟩ := forIn_inv' (sortedSeps separators) (rcSep cliques) (PairsOk cliques.size) (by
    intro S _ s hs
    obtain ⟨s', _, _, e, r, _⟩ := rcSep_ok cliques S s hs
    exact ⟨s', e, r.1 hs⟩) _ (PairsOk.empty cliques.size)
  refine ⟨(sortedSeps separators).toArray, st.1, st.2, by rw [e]; rfl, ?_, h.1, h.2⟩
  simp only [sortedSeps]
  exact List.mergeSort_perm _ _

namespace CGR

/-! ## `inter_equal` -/

/-- [S] the loop of `inter_equal` when no early exit fires: the state after the loop -/
theorem ie_loop (sb s3 : VSet) (len3 : Nat)
    (f : Nat → Option Bool × Nat × Nat → Id (ForInStep (Option Bool × Nat × Nat)))
    (hf : ∀ e dim mi, f e (none, dim, mi) =
      if sb.contains e = true then
        if dim + 1 > len3 then pure (ForInStep.done (some false, dim + 1, mi))
        else if (!s3.contains e) = true then pure (ForInStep.done (some false, dim + 1, mi))
        else if mi - 1 < len3 then pure (ForInStep.done (some false, dim + 1, mi - 1))
        else pure (ForInStep.yield (none, dim + 1, mi - 1))
      else if mi - 1 < len3 then pure (ForInStep.done (some false, dim, mi - 1))
        else pure (ForInStep.yield (none, dim, mi - 1))) :
    ∀ (l : List Nat) (dim mi : Nat), (∀ e ∈ l, sb.contains e = true → s3.contains e = true) →
      dim + l.countP (fun e => sb.contains e) ≤ len3 → len3 + l.length ≤ mi →
      forIn l (none, dim, mi) f = (pure (none, dim + l.countP (fun e => sb.contains e), mi - l.length) : Id _) := by
  intro l
  induction l with
  | nil => intro dim mi _ _ _; simp
  | cons e l ih =>
    intro dim mi h3 hd hm
    rw [List.forIn_cons, hf]
    simp only [List.countP_cons, List.length_cons] at hd hm ⊢
    by_cases hc : sb.contains e = true
    · have h3e := h3 e (by simp) hc
      simp only [hc, if_true] at hd ⊢
      have c1 : ¬ (dim + 1 > len3) := by omega
      have c2 : ¬ (mi - 1 < len3) := by omega
      simp only [c1, c2, h3e, if_false, Bool.not_true, Bool.false_eq_true]
      simp only [pure_bind]
      rw [ih (dim + 1) (mi - 1) (fun x hx => h3 x (by simp [hx])) (by omega) (by omega)]
      congr 3 <;> omega
    · have c2 : ¬ (mi - 1 < len3) := by omega
      simp only [hc, c2, if_false, Bool.false_eq_true] at hd ⊢
      simp only [pure_bind]
      rw [ih dim (mi - 1) (fun x hx => h3 x (by simp [hx])) (by omega) (by omega)]
      congr 3; omega

/-- [S] THE COUNTING STEP of `inter_equal`: for duplicate-free `sa` and `s3` with `sa ∩ sb = s3` as sets,
the number of elements of `sa` that lie in `sb` is `|s3|` -/
theorem countP_inter {sa sb s3 : VSet} (ha : sa.toList.Nodup) (h3 : s3.toList.Nodup)
    (h : ∀ v, v ∈ s3.toList ↔ v ∈ sa.toList ∧ v ∈ sb.toList) :
    sa.toList.countP (fun e => sb.contains e) = s3.size := by
  rw [List.countP_eq_length_filter]
  have hp : (sa.toList.filter (fun e => sb.contains e)).Perm s3.toList := by
    rw [List.perm_ext_iff_of_nodup (ha.filter _) h3]
    intro v
    rw [h v]
    simp [List.mem_filter]
  rw [hp.length_eq]
  simp

/-- [S] a duplicate-free subset is not longer -/
theorem size_le_of_subset {s3 sb : VSet} (h3 : s3.toList.Nodup)
    (h : ∀ v, v ∈ s3.toList → v ∈ sb.toList) : s3.size ≤ sb.size := by
  have := List.Nodup.length_le_of_subset h3 (fun v hv => h v hv)
  simpa using this

/-- [S] the loop of `inter_equal` runs to its end when the intersection is the third set -/
theorem ie_true {sa sb s3 : VSet} (ha : sa.toList.Nodup) (h3 : s3.toList.Nodup)
    (h : ∀ v, v ∈ s3.toList ↔ v ∈ sa.toList ∧ v ∈ sb.toList) (mi : Nat)
    (hmi : s3.size + sa.size ≤ mi)
    (f : Nat → Option Bool × Nat × Nat → Id (ForInStep (Option Bool × Nat × Nat)))
    (hf : ∀ e dim mi, f e (none, dim, mi) =
      if sb.contains e = true then
        if dim + 1 > s3.size then pure (ForInStep.done (some false, dim + 1, mi))
        else if (!s3.contains e) = true then pure (ForInStep.done (some false, dim + 1, mi))
        else if mi - 1 < s3.size then pure (ForInStep.done (some false, dim + 1, mi - 1))
        else pure (ForInStep.yield (none, dim + 1, mi - 1))
      else if mi - 1 < s3.size then pure (ForInStep.done (some false, dim, mi - 1))
        else pure (ForInStep.yield (none, dim, mi - 1))) :
    forIn sa (none, 0, mi) f = (pure (none, s3.size, mi - sa.size) : Id _) := by
  rw [← Array.forIn_toList]
  have hc := countP_inter ha h3 h
  rw [ie_loop sb s3 s3.size f hf sa.toList 0 mi ?_ (by omega) (by simpa using hmi)]
  · rw [hc, Nat.zero_add, Array.length_toList]
  · intro e he hb
    have : e ∈ s3.toList := (h e).2 ⟨he, by simpa using hb⟩
    simpa using this

/-- [S] `inter_equal(s1, s2, s3)` answers `true` when `s1 ∩ s2 = s3` as sets and none of the
three has a repeated element (none of the early exits fires, the final count is `|s3|`) -/
theorem interEqual_true {s1 s2 s3 : VSet} (h1 : s1.toList.Nodup) (h2 : s2.toList.Nodup)
    (h3 : s3.toList.Nodup) (h : ∀ v, v ∈ s3.toList ↔ v ∈ s1.toList ∧ v ∈ s2.toList) :
    interEqual s1 s2 s3 = true := by
  have l1 : s3.size ≤ s1.size := size_le_of_subset h3 (fun v hv => ((h v).1 hv).1)
  have l2 : s3.size ≤ s2.size := size_le_of_subset h3 (fun v hv => ((h v).1 hv).2)
  unfold interEqual
  have hlen : ¬ (s1.size + s2.size < s3.size) := by omega
  simp only [hlen, if_false]
  by_cases hlt : s1.size < s2.size
  · simp only [hlt, if_true]
    rw [ie_true h1 h3 h (s1.size + s2.size) (by omega) _ (fun _ _ _ => rfl)]
    simp only [pure_bind, beq_self_eq_true]
    rfl
  · simp only [hlt, if_false]
    rw [ie_true h2 h3 (fun v => by rw [h v]; exact And.comm) (s1.size + s2.size) (by omega) _
      (fun _ _ _ => rfl)]
    simp only [pure_bind, beq_self_eq_true]
    rfl

/-! ## the edges of a clique tree are emitted -/

/-- [S] `is_subset` is the subset test plus the (redundant, for duplicate-free sets) size test -/
theorem isSubset_iff (a b : VSet) :
    VSet.isSubset a b = true ↔ a.size ≤ b.size ∧ ∀ v ∈ a.toList, v ∈ b.toList := by
  unfold VSet.isSubset
  rw [Bool.and_eq_true, decide_eq_true_eq, ← Array.all_toList, List.all_eq_true]
  constructor
  · rintro ⟨h1, h2⟩; exact ⟨h1, fun v hv => by simpa using h2 v hv⟩
  · rintro ⟨h1, h2⟩; exact ⟨h1, fun v hv => by simpa using h2 v hv⟩

/-- [S] the cliques selected for a separator are the stored cliques that contain it -/
theorem mem_sepCliques (snode : Array VSet) (S : VSet) (a : Nat) :
    a ∈ (sepCliques snode S).toList ↔
      a < snode.size ∧ VSet.isSubset S (snode.getD a #[]) = true := by
  unfold sepCliques
  rw [mem_positionAll]
  constructor
  · rintro ⟨x, hx, hp⟩
    have ha : a < snode.size := by
      by_contra hc
      have : snode[a]? = none := by simp; omega
      rw [this] at hx; simp at hx
    refine ⟨ha, ?_⟩
    have : snode.getD a #[] = x := by
      simp [Array.getD_eq_getD_getElem?, hx]
    rw [this]; exact hp
  · rintro ⟨ha, hp⟩
    refine ⟨snode.getD a #[], ?_, hp⟩
    simp [Array.getD, ha]

/-- [S] a member sits at some position -/
theorem exists_getD_of_mem {ci : Array Nat} {a : Nat} (h : a ∈ ci.toList) :
    ∃ i, i < ci.size ∧ ci.getD i 0 = a := by
  obtain ⟨i, hi, e⟩ := List.mem_iff_getElem.1 h
  have hi' : i < ci.size := by simpa using hi
  exact ⟨i, hi', by simpa [Array.getD, hi'] using e⟩

/-- the hypotheses of `ReducedTreeEdgeSpec` about one separator -/
structure TreeEdgeHyp (cliques : Array VSet) (S : VSet) (c p : Nat) (side : Nat → Prop) : Prop where
  nodup : ∀ i, i < cliques.size → (cliques.getD i #[]).toList.Nodup
  hc : c < cliques.size
  hp : p < cliques.size
  snodup : S.toList.Nodup
  inter : ∀ v, v ∈ S.toList ↔ (v ∈ (cliques.getD c #[]).toList ∧ v ∈ (cliques.getD p #[]).toList)
  sc : side c
  sp : ¬ side p
  cross : ∀ a b, a < cliques.size → b < cliques.size → side a → ¬ side b →
      ∀ v, v ∈ (cliques.getD a #[]).toList → v ∈ (cliques.getD b #[]).toList → v ∈ S.toList

/-- [S] two cliques containing `S` on different sides meet in `S` exactly, so `inter_equal`
answers `true` in both orders -/
theorem TreeEdgeHyp.interEqual {cliques : Array VSet} {S : VSet} {c p : Nat} {side : Nat → Prop}
    (h : TreeEdgeHyp cliques S c p side) {a b : Nat}
    (ha : a ∈ (sepCliques cliques S).toList) (hb : b ∈ (sepCliques cliques S).toList)
    (sa : side a) (sb : ¬ side b) :
    interEqual (cliques.getD a #[]) (cliques.getD b #[]) S = true ∧
    interEqual (cliques.getD b #[]) (cliques.getD a #[]) S = true := by
  obtain ⟨la, ia⟩ := (mem_sepCliques cliques S a).1 ha
  obtain ⟨lb, ib⟩ := (mem_sepCliques cliques S b).1 hb
  have suba := ((isSubset_iff _ _).1 ia).2
  have subb := ((isSubset_iff _ _).1 ib).2
  have key : ∀ v, v ∈ S.toList ↔
      (v ∈ (cliques.getD a #[]).toList ∧ v ∈ (cliques.getD b #[]).toList) :=
    fun v => ⟨fun hv => ⟨suba v hv, subb v hv⟩, fun hv => h.cross a b la lb sa sb v hv.1 hv.2⟩
  exact ⟨interEqual_true (h.nodup a la) (h.nodup b lb) h.snodup key,
    interEqual_true (h.nodup b lb) (h.nodup a la) h.snodup (fun v => by rw [key v]; exact And.comm)⟩

/-- [S] the cliques `c` and `p` contain the separator -/
theorem TreeEdgeHyp.mem {cliques : Array VSet} {S : VSet} {c p : Nat} {side : Nat → Prop}
    (h : TreeEdgeHyp cliques S c p side) :
    c ∈ (sepCliques cliques S).toList ∧ p ∈ (sepCliques cliques S).toList := by
  constructor
  · rw [mem_sepCliques, isSubset_iff]
    have : ∀ v ∈ S.toList, v ∈ (cliques.getD c #[]).toList := fun v hv => ((h.inter v).1 hv).1
    exact ⟨h.hc, size_le_of_subset h.snodup this, this⟩
  · rw [mem_sepCliques, isSubset_iff]
    have : ∀ v ∈ S.toList, v ∈ (cliques.getD p #[]).toList := fun v hv => ((h.inter v).1 hv).2
    exact ⟨h.hp, size_le_of_subset h.snodup this, this⟩

/-- [S] no edge of the separator graph crosses between the two sides, so reachability stays on
one side -/
theorem TreeEdgeHyp.reach_side {cliques : Array VSet} {S : VSet} {c p : Nat} {side : Nat → Prop}
    (h : TreeEdgeHyp cliques S c p side) {H : HMap (Array Nat)}
    (gH : SGGood (sepCliques cliques S).toList S cliques H) {r x : Nat} (hr : HReach H r x) :
    side r ↔ side x := by
  induction hr with
  | refl => exact Iff.rfl
  | @tail y z _ hs ih =>
    obtain ⟨nb, hnb, hz⟩ := hs
    obtain ⟨my, mz, he⟩ := gH.edges y nb hnb z hz
    refine ih.trans ?_
    by_cases sy : side y <;> by_cases sz : side z
    · exact ⟨fun _ => sz, fun _ => sy⟩
    · exfalso
      have := h.interEqual my mz sy sz
      rcases he with he | he
      · rw [this.1] at he; simp at he
      · rw [this.2] at he; simp at he
    · exfalso
      have := h.interEqual mz my sz sy
      rcases he with he | he
      · rw [this.2] at he; simp at he
      · rw [this.1] at he; simp at he
    · exact ⟨fun hy => absurd hy sy, fun hz => absurd hz sz⟩

/-- [S] when the loop reaches the separator `S`, the pair `(max c p, min c p)` is emitted -/
theorem TreeEdgeHyp.emits {cliques : Array VSet} {S : VSet} {c p : Nat} {side : Nat → Prop}
    (h : TreeEdgeHyp cliques S c p side) (st : Array Nat × Array Nat)
    (hst : PairsOk cliques.size st) :
    ∃ st', rcSep cliques S st = .ok (.yield st') ∧ StRel cliques.size st st' ∧
      HasPair (max c p) (min c p) st' := by
  obtain ⟨st', H, comps, e, r, gH, gC, hp⟩ := rcSep_ok cliques S st hst
  refine ⟨st', e, r, ?_⟩
  obtain ⟨mc, mp⟩ := h.mem
  obtain ⟨ic, hic, ec⟩ := exists_getD_of_mem mc
  obtain ⟨ip, hip, ep⟩ := exists_getD_of_mem mp
  have hinc := pairwise_getD (positionAll_pairwise cliques (fun x => S.isSubset x))
  -- no component contains both
  have sepd : ∀ C ∈ comps.toList, c ∈ C.toList → p ∈ C.toList → False := by
    intro C hC hcC hpC
    obtain ⟨root, hroot⟩ := gC.root C hC
    have h1 := h.reach_side gH (hroot c hcC)
    have h2 := h.reach_side gH (hroot p hpC)
    exact h.sp (h2.1 (h1.2 h.sc))
  rcases Nat.lt_trichotomy ic ip with hlt | heq | hgt
  · have hcp : c < p := by
      have := hinc ic ip hlt hip
      unfold sepCliques at ec ep
      omega
    have := hp ic ip hlt hip (by
      intro C hC h1 h2
      rw [ec] at h1; rw [ep] at h2
      exact sepd C hC h1 h2)
    rw [ec, ep] at this
    exact this
  · exfalso
    have : c = p := by rw [← ec, ← ep, heq]
    exact h.sp (this ▸ h.sc)
  · have hcp : p < c := by
      have := hinc ip ic hgt hic
      unfold sepCliques at ec ep
      omega
    have := hp ip ic hgt hic (by
      intro C hC h1 h2
      rw [ep] at h1; rw [ec] at h2
      exact sepd C hC h2 h1)
    rw [ec, ep, Nat.max_comm, Nat.min_comm] at this
    exact this

end CGR

open CGR in
/-- [S] THE EDGES OF A CLIQUE TREE ARE EDGES OF THE REDUCED CLIQUE GRAPH: if the separator `S` is
listed, `S = clique c ∩ clique p`, and the cliques fall into two sides (`c` on one, `p` on the
other) such that cliques on different sides meet inside `S` only, then
`compute_reduced_clique_graph` returns the pair `(max c p, min c p)` -/
theorem reduced_tree_edge : ReducedTreeEdgeSpec := by
  intro separators cliques seps' rows cols hrun hnd c p hc hp S hS hSn hinter side sc sp hcross
  have hyp : TreeEdgeHyp cliques S c p side := ⟨hnd, hc, hp, hSn, hinter, sc, sp, hcross⟩
  rw [computeReducedCliqueGraph_eq_forIn] at hrun
  obtain ⟨st, e, hok, hhas⟩ := forIn_inv (sortedSeps separators) (rcSep cliques)
    (fun pre st => PairsOk cliques.size st ∧ (S ∈ pre → HasPair (max c p) (min c p) st)) (by
      intro pre T post _ s ⟨hs, hh⟩
      by_cases hT : T = S
      · subst hT
        obtain ⟨s', e, r, hp'⟩ := hyp.emits s hs
        exact ⟨s', e, r.1 hs, fun _ => hp'⟩
      · obtain ⟨s', _, _, e, r, _⟩ := rcSep_ok cliques T s hs
        refine ⟨s', e, r.1 hs, ?_⟩
        intro hm
        rcases List.mem_append.1 hm with hm | hm
        · exact r.2 _ _ (hh hm)
        · have : S = T := by simpa using hm
          exact absurd this.symm hT) _ ⟨PairsOk.empty cliques.size, by simp⟩
  have hmem : S ∈ sortedSeps separators := by
    unfold sortedSeps
    exact List.mem_mergeSort.2 hS
  obtain ⟨k, h1, _, h3, h4⟩ := hhas hmem
  rw [e] at hrun
  have hrun' : ((sortedSeps separators).toArray, st.1, st.2) = (seps', rows, cols) := by
    simpa [bind, Except.bind, pure, Except.pure] using hrun
  have er : st.1 = rows := by
    have := congrArg (fun x => x.2.1) hrun'; simpa using this
  have ec : st.2 = cols := by
    have := congrArg (fun x => x.2.2) hrun'; simpa using this
  exact ⟨k, er ▸ h1, er ▸ h3, ec ▸ h4⟩

/-- non-vacuity of the hypotheses of `ReducedTreeEdgeSpec`: the path `0 - 1 - 2` with the cliques
`{0,1}`, `{1,2}` and the separator `{1}` -/
example : ∃ (separators cliques seps' : Array VSet) (rows cols : Array Nat) (c p : Nat) (S : VSet)
    (side : Nat → Prop),
    computeReducedCliqueGraph separators cliques = .ok (seps', rows, cols) ∧
    (∀ i, i < cliques.size → (cliques.getD i #[]).toList.Nodup) ∧
    c < cliques.size ∧ p < cliques.size ∧ S ∈ separators.toList ∧ S.toList.Nodup ∧
    (∀ v, v ∈ S.toList ↔ (v ∈ (cliques.getD c #[]).toList ∧ v ∈ (cliques.getD p #[]).toList)) ∧
    side c ∧ ¬ side p ∧
    (∀ a b, a < cliques.size → b < cliques.size → side a → ¬ side b →
      ∀ v, v ∈ (cliques.getD a #[]).toList → v ∈ (cliques.getD b #[]).toList → v ∈ S.toList) := by
  obtain ⟨seps', rows, cols, h, _⟩ := reduced_ok #[#[1]] #[#[0, 1], #[1, 2]]
  refine ⟨#[#[1]], #[#[0, 1], #[1, 2]], seps', rows, cols, 0, 1, #[1], fun a => a = 0, h,
    ?_, by simp, by simp, by simp, by simp, ?_, rfl, by simp, ?_⟩
  · intro i hi
    have : i = 0 ∨ i = 1 := by simp at hi; omega
    rcases this with rfl | rfl <;> simp
  · intro v
    simp
    omega
  · intro a b ha hb sa sb v
    have hb' : b = 1 := by simp at hb; omega
    subst sa; subst hb'
    simp
    omega

end Clarabel.Chordal
