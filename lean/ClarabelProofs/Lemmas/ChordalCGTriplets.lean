/-
  `CscMatrix::new_from_triplets` (`src/algebra/csc/core.rs`, model `IMat.newFromTriplets` in
  `ClarabelModel/Chordal/MergeCG.lean`) on in-range strictly lower triangular triplets:
  the proof of `NewFromTripletsSpec` (`ChordalCGDefs.lean`).

  Route:
  * `newFromTriplets_eq_forIn`: the three loops as `forIn` over lists, bodies `tcountStep`,
    `touterStep`, `tinnerStep`;
  * the stable sort gives a permutation `p` of `0..nz`, sorted by `(column, row)`; the sorted
    triplets are the functions `tcol r = J[p[r]]`, `trow r = I[p[r]]`, `tval r = V[p[r]]`;
  * `Tr.acc R`: the consolidated entries `(col, row, val)` after reading `R` sorted triplets (last
    written first), `Tr.accInv`: strictly sorted, covers exactly the positions read, each value
    is the sum of the values read at its position;
  * `Tr.LInv`: THE LOOP INVARIANT of the consolidation pass, kept by one pass of the inner loop
    (`Tr.tinnerStep_inv`), the inner loop, the outer loop;
  * `Tr.colcountToColptr_spec`, `Tr.countP_sorted_pos`: counts -> offsets, and the position of a
    column in a list sorted by column;
  * `newFromTriplets_spec : NewFromTripletsSpec`, and the corollary `newFromTriplets_nz`.
-/
import ClarabelProofs.Lemmas.ChordalCGDefs
import Mathlib.Data.List.Induction

namespace Clarabel.Chordal
open Clarabel

/-! ## pure list facts -/

/-- [S] the sum of a constant list -/
theorem Tr.sum_map_const (x : Int) (g : Nat → Int) : ∀ l : List Nat, (∀ k ∈ l, g k = x) →
    (l.map g).sum = (l.length : Int) * x := by
  intro l
  induction l with
  | nil => intro _; simp
  | cons a l ih =>
    intro h
    rw [List.map_cons, List.sum_cons, ih (fun k hk => h k (by simp [hk])), h a (by simp)]
    simp only [List.length_cons]
    push_cast
    rw [Int.add_mul]; omega



/-- [S] position of a key in a list sorted by that key -/
theorem Tr.countP_sorted_pos {α : Type} (f : α → Nat) (c : Nat) : ∀ (l : List α),
    l.Pairwise (fun a b => f a ≤ f b) → ∀ (k : Nat) (h : k < l.length),
      (f l[k] < c ↔ k < l.countP (fun x => decide (f x < c))) := by
  intro l
  induction l with
  | nil => intro _ k h; simp at h
  | cons a l ih =>
    intro hp k h
    rw [List.pairwise_cons] at hp
    by_cases ha : f a < c
    · rw [List.countP_cons_of_pos (by simpa using ha)]
      cases k with
      | zero => simp [ha]
      | succ k =>
        simp only [List.getElem_cons_succ]
        rw [ih hp.2 k (by simpa using h)]
        omega
    · rw [List.countP_cons_of_neg (by simpa using ha)]
      have h0 : l.countP (fun x => decide (f x < c)) = 0 := by
        rw [List.countP_eq_zero]
        intro x hx
        have := hp.1 x hx
        simp only [decide_eq_true_eq]; omega
      rw [h0]
      cases k with
      | zero => simp [ha]
      | succ k =>
        simp only [List.getElem_cons_succ]
        have hk : k < l.length := by simpa using h
        have := hp.1 l[k] (List.getElem_mem hk)
        omega

/-- [S] `countP (< c+1) = countP (< c) + countP (= c)` -/
theorem Tr.countP_lt_succ {α : Type} (f : α → Nat) (c : Nat) (l : List α) :
    l.countP (fun x => decide (f x < c + 1)) =
      l.countP (fun x => decide (f x < c)) + l.countP (fun x => f x == c) := by
  induction l with
  | nil => rfl
  | cons a l ih =>
    simp only [List.countP_cons, ih, decide_eq_true_eq, beq_iff_eq]
    split_ifs <;> omega

/-- [S] `colcount_to_colptr` : exclusive prefix sums -/
theorem Tr.colcountToColptr_spec (cc : Array Nat) :
    (IMat.colcountToColptr cc).size = cc.size ∧
      ∀ i, i < cc.size → (IMat.colcountToColptr cc).getD i 0 = (cc.toList.take i).sum := by
  unfold IMat.colcountToColptr
  rw [← Array.foldl_toList]
  have key : ∀ l : List Nat,
      ((l.foldl (fun (acc : Array Nat × Nat) count => (acc.1.push acc.2, acc.2 + count)) (#[], 0)).1.size = l.length ∧
       (l.foldl (fun (acc : Array Nat × Nat) count => (acc.1.push acc.2, acc.2 + count)) (#[], 0)).2 = l.sum) ∧
      ∀ i, i < l.length →
        (l.foldl (fun (acc : Array Nat × Nat) count => (acc.1.push acc.2, acc.2 + count)) (#[], 0)).1.getD i 0
          = (l.take i).sum := by
    intro l
    induction l using List.reverseRecOn with
    | nil => simp
    | append_singleton l a ih =>
      obtain ⟨⟨h1, h2⟩, h3⟩ := ih
      rw [List.foldl_append]
      simp only [List.foldl_cons, List.foldl_nil, Array.size_push, List.length_append,
        List.length_singleton, List.sum_append, List.sum_cons, List.sum_nil, Nat.add_zero]
      refine ⟨⟨by omega, by omega⟩, ?_⟩
      intro i hi
      by_cases hil : i < l.length
      · rw [List.take_append_of_le_length (by omega), ← h3 i hil]
        simp only [Array.getD_eq_getD_getElem?]
        rw [Array.getElem?_push, if_neg (by omega)]
      · have : i = l.length := by omega
        subst this
        simp only [Array.getD_eq_getD_getElem?]
        rw [← h1, Array.getElem?_push_size]
        simp [h1, h2]
  have := key cc.toList
  simp only [Array.length_toList] at this
  exact ⟨this.1.1, this.2⟩


/-! ## the consolidated list as a pure function of the sorted triplets -/

namespace Tr

/-- entry `R` of the sorted triplet list starts a new stored entry -/
def IsNew (tcol trow : Nat → Nat) (R : Nat) : Prop :=
  R = 0 ∨ tcol (R - 1) ≠ tcol R ∨ trow (R - 1) ≠ trow R

instance (tcol trow : Nat → Nat) (R : Nat) : Decidable (IsNew tcol trow R) := by
  unfold IsNew; exact inferInstance

/-- the consolidated entries `(col, row, val)` after reading `R` sorted triplets, LAST WRITTEN
FIRST -/
def acc (tcol trow : Nat → Nat) (tval : Nat → Int) : Nat → List (Nat × Nat × Int)
  | 0 => []
  | R + 1 =>
    if IsNew tcol trow R then (tcol R, trow R, tval R) :: acc tcol trow tval R
    else match acc tcol trow tval R with
      | [] => []
      | x :: a => (x.1, x.2.1, x.2.2 + tval R) :: a

/-- the sum of the values of the first `R` sorted triplets at position `(r, c)` -/
def fsum (tcol trow : Nat → Nat) (tval : Nat → Int) (R c r : Nat) : Int :=
  (((List.range R).filter (fun s => tcol s == c && trow s == r)).map tval).sum

/-- [S] one more triplet read -/
theorem fsum_succ (tcol trow : Nat → Nat) (tval : Nat → Int) (R c r : Nat) :
    fsum tcol trow tval (R + 1) c r =
      fsum tcol trow tval R c r + (if tcol R = c ∧ trow R = r then tval R else 0) := by
  unfold fsum
  rw [List.range_succ, List.filter_append, List.map_append, List.sum_append]
  by_cases h : tcol R = c ∧ trow R = r
  · simp [h]
  · rw [if_neg h]
    have : (tcol R == c && trow R == r) = false := by
      simp only [Bool.and_eq_false_iff, beq_eq_false_iff_ne]
      by_cases h1 : tcol R = c
      · exact .inr (fun h2 => h ⟨h1, h2⟩)
      · exact .inl h1
    simp [this]

/-- strict lexicographic order on `(col, row)` -/
def LexLt (a b : Nat × Nat × Int) : Prop := a.1 < b.1 ∨ (a.1 = b.1 ∧ a.2.1 < b.2.1)

/-- what `acc R` is -/
structure AccInv (tcol trow : Nat → Nat) (tval : Nat → Int) (R : Nat) : Prop where
  head : 0 < R → ∃ v a, acc tcol trow tval R = (tcol (R - 1), trow (R - 1), v) :: a
  sorted : (acc tcol trow tval R).Pairwise (fun x y => LexLt y x)
  src : ∀ x ∈ acc tcol trow tval R, ∃ s, s < R ∧ tcol s = x.1 ∧ trow s = x.2.1
  cover : ∀ s, s < R → ∃ v, (tcol s, trow s, v) ∈ acc tcol trow tval R
  val : ∀ x ∈ acc tcol trow tval R, x.2.2 = fsum tcol trow tval R x.1 x.2.1

/-- [S] THE CONSOLIDATED LIST: strictly sorted by `(col, row)`, its positions are exactly the
positions read so far, every value is the sum of the values read at its position, and its head
is the position read last -/
theorem accInv (tcol trow : Nat → Nat) (tval : Nat → Int) (nz : Nat)
    (hs : ∀ r s, r < s → s < nz → tcol r < tcol s ∨ (tcol r = tcol s ∧ trow r ≤ trow s)) :
    ∀ R, R ≤ nz → AccInv tcol trow tval R := by
  intro R
  induction R with
  | zero =>
    intro _
    exact ⟨fun h => absurd h (Nat.lt_irrefl 0), by simp [acc], by simp [acc],
      fun s h => absurd h (Nat.not_lt_zero s), by simp [acc]⟩
  | succ R ih =>
    intro hR
    have IH := ih (by omega)
    -- no earlier triplet sits at the position of a new one
    have hfresh : IsNew tcol trow R → ∀ s, s < R → ¬ (tcol s = tcol R ∧ trow s = trow R) := by
      intro hn s hsR ⟨e1, e2⟩
      have h1 := hs (R - 1) R (by omega) (by omega)
      rcases hn with h0 | h0
      · omega
      · by_cases hsr : s = R - 1
        · subst hsr; omega
        · have h2 := hs s (R - 1) (by omega) (by omega)
          omega
    by_cases hn : IsNew tcol trow R
    · have e : acc tcol trow tval (R + 1) = (tcol R, trow R, tval R) :: acc tcol trow tval R := by
        simp only [acc, if_pos hn]
      have hlt : ∀ x ∈ acc tcol trow tval R, LexLt x (tcol R, trow R, tval R) := by
        intro x hx
        obtain ⟨s, hsR, e1, e2⟩ := IH.src x hx
        have h1 := hs s R hsR (by omega)
        have h2 := hfresh hn s hsR
        unfold LexLt
        simp only
        omega
      refine ⟨fun _ => ⟨tval R, _, by rw [e]; rfl⟩, ?_, ?_, ?_, ?_⟩
      · rw [e, List.pairwise_cons]; exact ⟨hlt, IH.sorted⟩
      · intro x hx
        rw [e, List.mem_cons] at hx
        rcases hx with rfl | hx
        · exact ⟨R, by omega, rfl, rfl⟩
        · obtain ⟨s, h1, h2⟩ := IH.src x hx; exact ⟨s, by omega, h2⟩
      · intro s hsR
        by_cases hsr : s = R
        · subst hsr; exact ⟨tval s, by rw [e]; exact List.mem_cons_self⟩
        · obtain ⟨v, hv⟩ := IH.cover s (by omega)
          exact ⟨v, by rw [e]; exact List.mem_cons_of_mem _ hv⟩
      · intro x hx
        rw [e, List.mem_cons] at hx
        rw [fsum_succ]
        rcases hx with rfl | hx
        · simp only [and_self, if_true]
          have : fsum tcol trow tval R (tcol R) (trow R) = 0 := by
            unfold fsum
            rw [List.filter_eq_nil_iff.mpr]; rfl
            intro s hsR
            have := hfresh hn s (List.mem_range.mp hsR)
            simp only [Bool.and_eq_true, beq_iff_eq]; exact this
          rw [this]; omega
        · have := hlt x hx
          unfold LexLt at this
          simp only at this
          rw [if_neg (by omega), IH.val x hx]; omega
    · have hR0 : 0 < R := by
        by_contra h; exact hn (.inl (by omega))
      have hc : tcol (R - 1) = tcol R := by
        by_contra h; exact hn (.inr (.inl h))
      have hr : trow (R - 1) = trow R := by
        by_contra h; exact hn (.inr (.inr h))
      obtain ⟨v, a, ea⟩ := IH.head hR0
      have e : acc tcol trow tval (R + 1) = (tcol R, trow R, v + tval R) :: a := by
        simp only [acc, if_neg hn, ea, hc, hr]
      have hsorted := IH.sorted
      rw [ea, List.pairwise_cons] at hsorted
      refine ⟨fun _ => ⟨v + tval R, a, by rw [e]; rfl⟩, ?_, ?_, ?_, ?_⟩
      · rw [e, List.pairwise_cons]
        refine ⟨?_, hsorted.2⟩
        intro y hy
        have := hsorted.1 y hy
        unfold LexLt at this ⊢
        simp only at this ⊢
        omega
      · intro x hx
        rw [e, List.mem_cons] at hx
        rcases hx with rfl | hx
        · exact ⟨R, by omega, rfl, rfl⟩
        · obtain ⟨s, h1, h2⟩ := IH.src x (by rw [ea]; exact List.mem_cons_of_mem _ hx)
          exact ⟨s, by omega, h2⟩
      · intro s hsR
        by_cases hsr : s = R
        · subst hsr; exact ⟨v + tval s, by rw [e]; exact List.mem_cons_self⟩
        · obtain ⟨v', hv'⟩ := IH.cover s (by omega)
          rw [ea, List.mem_cons] at hv'
          rcases hv' with h1 | h1
          · refine ⟨v + tval R, ?_⟩
            rw [e]
            have e1 : tcol s = tcol R := by have := congrArg (·.1) h1; simp only at this; omega
            have e2 : trow s = trow R := by have := congrArg (·.2.1) h1; simp only at this; omega
            rw [e1, e2]; exact List.mem_cons_self
          · exact ⟨v', by rw [e]; exact List.mem_cons_of_mem _ h1⟩
      · intro x hx
        rw [e, List.mem_cons] at hx
        rw [fsum_succ]
        rcases hx with rfl | hx
        · simp only [and_self, if_true]
          have := IH.val _ (by rw [ea]; exact List.mem_cons_self)
          simp only at this
          rw [this, hc, hr]
        · have h1 := hsorted.1 x hx
          unfold LexLt at h1
          simp only at h1
          rw [if_neg (by omega), IH.val x (by rw [ea]; exact List.mem_cons_of_mem _ hx)]; omega

end Tr


/-! ## the loops of `new_from_triplets` as `forIn` over lists -/

/-- state of the consolidation pass: `(colptr, rowval, nzval, readidx, writeidx)` -/
abbrev TSt := Array Nat × Array Nat × Array Int × Nat × Nat

/-- the body of the inner loop of the consolidation pass (the Rust loop body, verbatim) -/
def tinnerStep (col j : Nat) (st : TSt) : MErr (ForInStep TSt) := do
  let mut colptr := st.1
  let mut rowval := st.2.1
  let mut nzval := st.2.2.1
  let mut readidx := st.2.2.2.1
  let mut writeidx := st.2.2.2.2
  let rr ← getE rowval readidx "new_from_triplets"
  let isNew ← if j == 0 then pure true else do
    if readidx == 0 then throw (.panic "new_from_triplets: underflow")
    let prev ← getE rowval (readidx - 1) "new_from_triplets"
    pure (rr != prev)
  if isNew then
    if writeidx != readidx then
      let vv ← getE nzval readidx "new_from_triplets"
      rowval ← setE rowval writeidx rr "new_from_triplets"
      nzval ← setE nzval writeidx vv "new_from_triplets"
    writeidx := writeidx + 1
    readidx := readidx + 1
  else
    if writeidx == 0 then throw (.panic "new_from_triplets: underflow")
    let a ← getE nzval (writeidx - 1) "new_from_triplets"
    let b ← getE nzval readidx "new_from_triplets"
    nzval ← setE nzval (writeidx - 1) (a + b) "new_from_triplets"
    let cc ← getE colptr col "new_from_triplets"
    if cc == 0 then throw (.panic "new_from_triplets: underflow")
    colptr ← setE colptr col (cc - 1) "new_from_triplets"
    readidx := readidx + 1
  pure (.yield (colptr, rowval, nzval, readidx, writeidx))


/-- the body of the column-count loop of `new_from_triplets` -/
def tcountStep (c : Nat) (colptr : Array Nat) : MErr (ForInStep (Array Nat)) := do
  let cc ← getE colptr c "new_from_triplets"
  let colptr ← setE colptr c (cc + 1) "new_from_triplets"
  pure (.yield colptr)

/-- the body of the outer loop of the consolidation pass -/
def touterStep (col : Nat) (st : TSt) : MErr (ForInStep TSt) := do
  let nentries ← getE st.1 col "new_from_triplets"
  let s ← forIn (List.range' 0 nentries) st (tinnerStep col)
  pure (.yield s)

/-- the comparison of the stable sort: by column, then by row -/
def tle (I J : Array Nat) (a b : Nat) : Bool :=
  decide (J.getD a 0 < J.getD b 0) || (J.getD a 0 == J.getD b 0 && decide (I.getD a 0 ≤ I.getD b 0))

/-- [S] `new_from_triplets` with its loops as `forIn` over lists (no hypotheses) -/
theorem newFromTriplets_eq_forIn (m n : Nat) (I J : Array Nat) (V : Array Int) :
    IMat.newFromTriplets m n I J V = (do
      if I.size != J.size then throw (.panic "new_from_triplets: assert")
      if I.size != V.size then throw (.panic "new_from_triplets: assert")
      let colptr ← setE (Array.replicate (n + 1) 0) n V.size "spalloc"
      let p := sortpermBy V.size (tle I J)
      let rowval ← permuteVec I p "new_from_triplets: permute"
      let nzval ← permuteVec V p "new_from_triplets: permute"
      let colptr ← forIn J.toList colptr tcountStep
      let s ← forIn (List.range' 0 n) ((colptr, rowval, nzval, 0, 0) : TSt) touterStep
      pure { m, n, colptr := IMat.colcountToColptr s.1,
             rowval := resizeVec s.2.1 s.2.2.2.2 0, nzval := resizeVec s.2.2.1 s.2.2.2.2 0 }) := by
  unfold IMat.newFromTriplets
  simp only [Std.Legacy.Range.forIn_eq_forIn_range', Std.Legacy.Range.size, Nat.sub_zero,
    Nat.add_sub_cancel, Nat.div_one, ← Array.forIn_toList]
  rfl

/-- [S] closed form of one pass of the inner loop on a NEW entry (first of its column, or a row
different from the previous one): move the entry to the write position -/
theorem tinnerStep_new (col j : Nat) (cp rv : Array Nat) (nv : Array Int) (R W : Nat)
    (hR : R < rv.size) (hR' : R < nv.size) (hW : W ≤ R)
    (hnew : j = 0 ∨ (R ≠ 0 ∧ rv.getD R 0 ≠ rv.getD (R - 1) 0)) :
    tinnerStep col j (cp, rv, nv, R, W) = .ok (.yield (cp, rv.setIfInBounds W (rv.getD R 0),
      nv.setIfInBounds W (nv.getD R 0), R + 1, W + 1)) := by
  unfold tinnerStep
  simp only [Kr.getE_ok rv R _ 0 hR, bind, Except.bind]
  by_cases hWR : W = R
  · subst hWR
    by_cases hj : j = 0
    · subst hj
      simp only [beq_self_eq_true, if_true, pure, Except.pure, bne_self_eq_false,
        Bool.false_eq_true, if_false,
        Kr.setIfInBounds_getD_self rv W 0 hR, Kr.setIfInBounds_getD_self nv W 0 hR']
    · obtain ⟨h1, h2⟩ := hnew.resolve_left hj
      have hj' : (j == 0) = false := by simpa using hj
      have h1' : (W == 0) = false := by simpa using h1
      have h2' : (rv.getD W 0 != rv.getD (W - 1) 0) = true := by simpa using h2
      simp only [hj', h1', Bool.false_eq_true, if_false, Kr.getE_ok rv (W - 1) _ 0 (by omega),
        pure, Except.pure, h2', if_true, bne_self_eq_false,
        Kr.setIfInBounds_getD_self rv W 0 hR, Kr.setIfInBounds_getD_self nv W 0 hR']
  · have hWR' : (W != R) = true := by simpa using hWR
    by_cases hj : j = 0
    · subst hj
      simp only [beq_self_eq_true, if_true, pure, Except.pure, hWR',
        Kr.getE_ok nv R _ 0 hR', Kr.setE_ok rv W _ _ (by omega), Kr.setE_ok nv W _ _ (by omega)]
    · obtain ⟨h1, h2⟩ := hnew.resolve_left hj
      have hj' : (j == 0) = false := by simpa using hj
      have h1' : (R == 0) = false := by simpa using h1
      have h2' : (rv.getD R 0 != rv.getD (R - 1) 0) = true := by simpa using h2
      simp only [hj', h1', Bool.false_eq_true, if_false, Kr.getE_ok rv (R - 1) _ 0 (by omega),
        pure, Except.pure, h2', if_true, hWR',
        Kr.getE_ok nv R _ 0 hR', Kr.setE_ok rv W _ _ (by omega), Kr.setE_ok nv W _ _ (by omega)]

/-- [S] closed form of one pass of the inner loop on a REPEATED entry: add its value to the last
written entry and decrement the column count; none of the three underflow checks fires -/
theorem tinnerStep_dup (col j : Nat) (cp rv : Array Nat) (nv : Array Int) (R W : Nat)
    (hR : R < rv.size) (hR' : R < nv.size) (hW : W ≤ R) (hW0 : 0 < W) (hj : j ≠ 0)
    (hdup : rv.getD R 0 = rv.getD (R - 1) 0) (hcol : col < cp.size) (hcc : 0 < cp.getD col 0) :
    tinnerStep col j (cp, rv, nv, R, W) = .ok (.yield (cp.setIfInBounds col (cp.getD col 0 - 1), rv,
      nv.setIfInBounds (W - 1) (nv.getD (W - 1) 0 + nv.getD R 0), R + 1, W)) := by
  have hj' : (j == 0) = false := by simpa using hj
  have h1' : (R == 0) = false := by rw [beq_eq_false_iff_ne]; omega
  have h2' : (rv.getD R 0 != rv.getD (R - 1) 0) = false := by simpa using hdup
  have hW' : (W == 0) = false := by rw [beq_eq_false_iff_ne]; omega
  have hcc' : (cp.getD col 0 == 0) = false := by rw [beq_eq_false_iff_ne]; omega
  unfold tinnerStep
  simp only [Kr.getE_ok rv R _ 0 hR, bind, Except.bind, hj', h1', Bool.false_eq_true, if_false,
    Kr.getE_ok rv (R - 1) _ 0 (by omega), pure, Except.pure, h2', hW',
    Kr.getE_ok nv (W - 1) _ 0 (by omega), Kr.getE_ok nv R _ 0 hR',
    Kr.setE_ok nv (W - 1) _ _ (by omega), Kr.getE_ok cp col _ 0 hcol, hcc',
    Kr.setE_ok cp col _ _ hcol]



/-! ## the loop invariant of the consolidation pass, one pass of the inner loop -/

namespace Tr

/-- [S] reading the written slot -/
theorem getD_set_self {β : Type} (xs : Array β) (i : Nat) (v d : β) (h : i < xs.size) :
    (xs.setIfInBounds i v).getD i d = v := by
  simp [Array.getD_eq_getD_getElem?, h]

/-- [S] reading another slot -/
theorem getD_set_ne {β : Type} (xs : Array β) (i j : Nat) (v d : β) (h : i ≠ j) :
    (xs.setIfInBounds i v).getD j d = xs.getD j d := by
  simp [Array.getD_eq_getD_getElem?, h]

/-- [S] the reversed list below its last slot -/
theorem rev_getD_lt {β : Type} (x : β) (l : List β) (k : Nat) (h : k < l.length) (d : β) :
    (x :: l).reverse.getD k d = l.reverse.getD k d := by
  simp only [List.reverse_cons, List.getD_eq_getElem?_getD]
  rw [List.getElem?_append_left (by simpa using h)]

/-- [S] the last slot of the reversed list -/
theorem rev_getD_eq {β : Type} (x : β) (l : List β) (d : β) :
    (x :: l).reverse.getD l.length d = x := by
  simp only [List.reverse_cons, List.getD_eq_getElem?_getD]
  rw [List.getElem?_append_right (by simp)]
  simp

/-- number of sorted triplets in the columns `< c` -/
def off (tcol : Nat → Nat) (nz c : Nat) : Nat :=
  (List.range nz).countP (fun r => decide (tcol r < c))

/-- number of triplets in column `c` -/
def cnt (tcol : Nat → Nat) (nz c : Nat) : Nat := (List.range nz).countP (fun r => tcol r == c)

/-- [S] offsets are the running sums of the counts -/
theorem off_succ (tcol : Nat → Nat) (nz c : Nat) :
    off tcol nz (c + 1) = off tcol nz c + cnt tcol nz c := countP_lt_succ tcol c _

/-- [S] an offset is at most the number of triplets -/
theorem off_le (tcol : Nat → Nat) (nz c : Nat) : off tcol nz c ≤ nz := by
  have := List.countP_le_length (p := fun r => decide (tcol r < c)) (l := List.range nz)
  simpa [off] using this

/-- [S] in the sorted list, column `< c` means position `< off c` -/
theorem off_pos (tcol : Nat → Nat) (nz : Nat) (hs : ∀ r s, r < s → s < nz → tcol r ≤ tcol s)
    (c r : Nat) (hr : r < nz) : tcol r < c ↔ r < off tcol nz c := by
  have hp : (List.range nz).Pairwise (fun a b => tcol a ≤ tcol b) := by
    refine List.Pairwise.imp_of_mem ?_ List.pairwise_lt_range
    intro a b _ hb hab
    exact hs a b hab (List.mem_range.mp hb)
  have := countP_sorted_pos tcol c (List.range nz) hp r (by simpa using hr)
  simpa [off] using this

/-- [S] before triplet `R` is read, its column has not been read completely -/
theorem cnt_prefix_lt (tcol : Nat → Nat) (nz R : Nat) (hR : R < nz) :
    (List.range R).countP (fun r => tcol r == tcol R) < cnt tcol nz (tcol R) := by
  have h1 : (List.range (R + 1)).countP (fun r => tcol r == tcol R) ≤ cnt tcol nz (tcol R) :=
    List.Sublist.countP_le (List.range_sublist.mpr (by omega))
  rw [List.range_succ, List.countP_append] at h1
  simp only [List.countP_cons, List.countP_nil, beq_self_eq_true, if_true] at h1
  omega

/-- THE LOOP INVARIANT of the consolidation pass, `R` triplets read, `W` entries written -/
structure LInv (n nz : Nat) (tcol trow : Nat → Nat) (tval : Nat → Int) (lo R W : Nat)
    (cp rv : Array Nat) (nv : Array Int) : Prop where
  cpsz : cp.size = n + 1
  rvsz : rv.size = nz
  nvsz : nv.size = nz
  wr : W ≤ R
  rnz : R ≤ nz
  wlen : W = (acc tcol trow tval R).length
  untouched : ∀ k, W ≤ k → k < nz → rv.getD k 0 = trow k ∧ nv.getD k 0 = tval k
  slots : ∀ k, k < W →
    ((acc tcol trow tval R).reverse.getD k (0, 0, 0)).2.1 = rv.getD k 0 ∧
    ((acc tcol trow tval R).reverse.getD k (0, 0, 0)).2.2 = nv.getD k 0
  counts : ∀ c, c < n → cp.getD c 0 + (List.range R).countP (fun r => tcol r == c) =
    cnt tcol nz c + (acc tcol trow tval R).countP (fun x => x.1 == c)
  fresh : ∀ c, lo ≤ c → c < n → cp.getD c 0 = cnt tcol nz c

/-- [S] ONE PASS OF THE INNER LOOP keeps the invariant and does not panic: `R` is the next sorted
triplet, it lies in column `col`, and `j = 0` exactly when it is the first of its column -/
theorem tinnerStep_inv {n nz : Nat} {tcol trow : Nat → Nat} {tval : Nat → Int}
    (hs : ∀ r s, r < s → s < nz → tcol r < tcol s ∨ (tcol r = tcol s ∧ trow r ≤ trow s))
    {lo col j R W : Nat} {cp rv : Array Nat} {nv : Array Int}
    (h : LInv n nz tcol trow tval lo R W cp rv nv) (hR : R < nz) (hcol : tcol R = col)
    (hcn : col < n) (hlo : col < lo) (hj : j = 0 ↔ (R = 0 ∨ tcol (R - 1) ≠ tcol R)) :
    ∃ cp' rv' nv' W', tinnerStep col j (cp, rv, nv, R, W) = .ok (.yield (cp', rv', nv', R + 1, W')) ∧
      LInv n nz tcol trow tval lo (R + 1) W' cp' rv' nv' := by
  have AI := accInv tcol trow tval nz hs R (by omega)
  obtain ⟨hrvR, hnvR⟩ := h.untouched R h.wr hR
  have hrvR1 : 0 < R → rv.getD (R - 1) 0 = trow (R - 1) := by
    intro hR0
    by_cases hW : W ≤ R - 1
    · exact (h.untouched (R - 1) hW (by omega)).1
    · obtain ⟨v, a, ea⟩ := AI.head hR0
      have hWl := h.wlen
      rw [ea, List.length_cons] at hWl
      have := (h.slots (R - 1) (by omega)).1
      rw [ea] at this
      have e : R - 1 = a.length := by have := h.wr; omega
      rw [e, rev_getD_eq] at this
      rw [e, ← this]
  have hcr : ∀ c, (List.range (R + 1)).countP (fun r => tcol r == c) =
      (List.range R).countP (fun r => tcol r == c) + (if tcol R = c then 1 else 0) := by
    intro c
    rw [List.range_succ, List.countP_append]
    simp only [List.countP_cons, List.countP_nil, beq_iff_eq, Nat.zero_add]
  by_cases hn : IsNew tcol trow R
  · have e : acc tcol trow tval (R + 1) = (tcol R, trow R, tval R) :: acc tcol trow tval R := by
      simp only [acc, if_pos hn]
    have hcond : j = 0 ∨ (R ≠ 0 ∧ rv.getD R 0 ≠ rv.getD (R - 1) 0) := by
      by_cases h1 : R = 0 ∨ tcol (R - 1) ≠ tcol R
      · exact .inl (hj.mpr h1)
      · have hR0 : R ≠ 0 := fun h0 => h1 (.inl h0)
        refine .inr ⟨hR0, ?_⟩
        rw [hrvR, hrvR1 (by omega)]
        rcases hn with h2 | h2 | h2
        · exact absurd h2 hR0
        · exact absurd (Or.inr h2) h1
        · exact fun h3 => h2 h3.symm
    refine ⟨_, _, _, _, tinnerStep_new col j cp rv nv R W (by rw [h.rvsz]; exact hR)
      (by rw [h.nvsz]; exact hR) h.wr hcond, ?_⟩
    have hWlt : W < nz := by have := h.wr; omega
    refine ⟨h.cpsz, by simp [h.rvsz], by simp [h.nvsz], by have := h.wr; omega, by omega,
      by rw [e, List.length_cons, ← h.wlen], ?_, ?_, ?_, h.fresh⟩
    · intro k hk hknz
      rw [getD_set_ne _ _ _ _ _ (by omega), getD_set_ne _ _ _ _ _ (by omega)]
      exact h.untouched k (by omega) hknz
    · intro k hk
      by_cases hkW : k < W
      · rw [e, rev_getD_lt _ _ _ (by rw [← h.wlen]; exact hkW),
          getD_set_ne _ _ _ _ _ (by omega), getD_set_ne _ _ _ _ _ (by omega)]
        exact h.slots k hkW
      · have hkW' : k = W := by omega
        subst hkW'
        rw [e]
        conv => lhs; rw [h.wlen, rev_getD_eq]
        conv => rhs; rw [h.wlen, rev_getD_eq]
        rw [← h.wlen, getD_set_self _ _ _ _ (by rw [h.rvsz]; exact hWlt),
          getD_set_self _ _ _ _ (by rw [h.nvsz]; exact hWlt)]
        exact ⟨hrvR.symm, hnvR.symm⟩
    · intro c hc
      rw [hcr c, e, List.countP_cons]
      have := h.counts c hc
      simp only [beq_iff_eq]
      omega
  · have hR0 : 0 < R := by
      by_contra h0; exact hn (.inl (by omega))
    have hc : tcol (R - 1) = tcol R := by
      by_contra h0; exact hn (.inr (.inl h0))
    have hr : trow (R - 1) = trow R := by
      by_contra h0; exact hn (.inr (.inr h0))
    obtain ⟨v, a, ea⟩ := AI.head hR0
    have e : acc tcol trow tval (R + 1) = (tcol R, trow R, v + tval R) :: a := by
      simp only [acc, if_neg hn, ea, hc, hr]
    have hWl := h.wlen
    rw [ea, List.length_cons] at hWl
    have hj0 : j ≠ 0 := by
      intro h0
      rcases hj.mp h0 with h1 | h1
      · omega
      · exact h1 hc
    have hslot := h.slots (W - 1) (by omega)
    rw [ea, show W - 1 = a.length by omega, rev_getD_eq] at hslot
    simp only at hslot
    have hcc : 0 < cp.getD col 0 := by
      have h1 := h.counts col hcn
      have h2 := cnt_prefix_lt tcol nz R hR
      rw [hcol] at h2
      omega
    refine ⟨_, _, _, _, tinnerStep_dup col j cp rv nv R W (by rw [h.rvsz]; exact hR)
      (by rw [h.nvsz]; exact hR) h.wr (by omega) hj0 (by rw [hrvR, hrvR1 hR0, hr])
      (by rw [h.cpsz]; omega) hcc, ?_⟩
    refine ⟨by simp [h.cpsz], h.rvsz, by simp [h.nvsz], by have := h.wr; omega, by omega,
      by rw [e, List.length_cons]; omega, ?_, ?_, ?_, ?_⟩
    · intro k hk hknz
      rw [getD_set_ne _ _ _ _ _ (by omega)]
      exact h.untouched k hk hknz
    · intro k hk
      by_cases hkW : k < a.length
      · rw [e, rev_getD_lt _ _ _ hkW, getD_set_ne _ _ _ _ _ (by omega)]
        have := h.slots k hk
        rw [ea, rev_getD_lt _ _ _ hkW] at this
        exact this
      · have hkW' : k = a.length := by omega
        subst hkW'
        rw [e, rev_getD_eq, show W - 1 = a.length by omega,
          getD_set_self _ _ _ _ (by rw [h.nvsz]; have := h.wr; omega)]
        simp only
        refine ⟨by rw [← hslot.1, hr], ?_⟩
        rw [← hslot.2, hnvR]
    · intro c hcn'
      rw [hcr c, e, List.countP_cons]
      have h1 := h.counts c hcn'
      rw [ea, List.countP_cons] at h1
      simp only [beq_iff_eq] at h1 ⊢
      rw [hc] at h1
      by_cases hcc' : c = col
      · subst hcc'
        rw [getD_set_self _ _ _ _ (by rw [h.cpsz]; omega)]
        rw [if_pos hcol] at h1 ⊢
        omega
      · rw [getD_set_ne _ _ _ _ _ (fun h0 => hcc' h0.symm)]
        have hne : ¬ tcol R = c := by rw [hcol]; exact fun h0 => hcc' h0.symm
        rw [if_neg hne] at h1 ⊢
        omega
    · intro c hc1 hc2
      rw [getD_set_ne _ _ _ _ _ (by omega)]
      exact h.fresh c hc1 hc2

/-! ## the inner loop, the outer loop -/

/-- [S] the untouched part of the counts may be shrunk -/
theorem LInv.weaken {n nz : Nat} {tcol trow : Nat → Nat} {tval : Nat → Int} {lo lo' R W : Nat}
    {cp rv : Array Nat} {nv : Array Int} (h : LInv n nz tcol trow tval lo R W cp rv nv)
    (hlo : lo ≤ lo') : LInv n nz tcol trow tval lo' R W cp rv nv :=
  ⟨h.cpsz, h.rvsz, h.nvsz, h.wr, h.rnz, h.wlen, h.untouched, h.slots, h.counts,
    fun c h1 h2 => h.fresh c (by omega) h2⟩

/-- [S] the inner loop of the consolidation pass keeps the invariant -/
theorem forIn_tinnerStep {n nz : Nat} {tcol trow : Nat → Nat} {tval : Nat → Int}
    (hs : ∀ r s, r < s → s < nz → tcol r < tcol s ∨ (tcol r = tcol s ∧ trow r ≤ trow s))
    {col : Nat} (hcn : col < n) (len : Nat) :
    ∀ (j R W : Nat) (cp rv : Array Nat) (nv : Array Int), j + len = cnt tcol nz col →
      R = off tcol nz col + j → LInv n nz tcol trow tval (col + 1) R W cp rv nv →
      ∃ cp' rv' nv' W', forIn (List.range' j len) ((cp, rv, nv, R, W) : TSt) (tinnerStep col) =
          .ok (cp', rv', nv', R + len, W') ∧
        LInv n nz tcol trow tval (col + 1) (R + len) W' cp' rv' nv' := by
  have hs' : ∀ r s, r < s → s < nz → tcol r ≤ tcol s := by
    intro r s h1 h2; have := hs r s h1 h2; omega
  induction len with
  | zero =>
    intro j R W cp rv nv _ _ h
    exact ⟨cp, rv, nv, W, rfl, h⟩
  | succ len ih =>
    intro j R W cp rv nv hjl hRj h
    have hoff := off_succ tcol nz col
    have hle := off_le tcol nz (col + 1)
    have hR : R < nz := by omega
    have hcol : tcol R = col := by
      have h1 := off_pos tcol nz hs' col R hR
      have h2 := off_pos tcol nz hs' (col + 1) R hR
      omega
    have hj : j = 0 ↔ (R = 0 ∨ tcol (R - 1) ≠ tcol R) := by
      constructor
      · intro hj0
        by_cases hR0 : R = 0
        · exact .inl hR0
        · have h1 := off_pos tcol nz hs' col (R - 1) (by omega)
          refine .inr ?_
          have : tcol (R - 1) < col := h1.mpr (by omega)
          omega
      · intro hor
        by_contra hj0
        rcases hor with h0 | h0
        · omega
        · have h1 := off_pos tcol nz hs' col (R - 1) (by omega)
          have h2 := off_pos tcol nz hs' (col + 1) (R - 1) (by omega)
          omega
    obtain ⟨cp1, rv1, nv1, W1, hstep, h1⟩ := tinnerStep_inv hs h hR hcol hcn (Nat.lt_succ_self col) hj
    obtain ⟨cp2, rv2, nv2, W2, hrest, h2⟩ := ih (j + 1) (R + 1) W1 cp1 rv1 nv1 (by omega) (by omega) h1
    refine ⟨cp2, rv2, nv2, W2, ?_, ?_⟩
    · rw [List.range'_succ, List.forIn_cons, hstep]
      simp only [bind, Except.bind]
      rw [hrest]
      rw [show R + 1 + len = R + (len + 1) by omega]
    · rw [show R + (len + 1) = R + 1 + len by omega]; exact h2

/-- [S] the outer loop of the consolidation pass keeps the invariant -/
theorem forIn_touterStep {n nz : Nat} {tcol trow : Nat → Nat} {tval : Nat → Int}
    (hs : ∀ r s, r < s → s < nz → tcol r < tcol s ∨ (tcol r = tcol s ∧ trow r ≤ trow s))
    (len : Nat) :
    ∀ (col W : Nat) (cp rv : Array Nat) (nv : Array Int), col + len = n →
      LInv n nz tcol trow tval col (off tcol nz col) W cp rv nv →
      ∃ cp' rv' nv' W', forIn (List.range' col len) ((cp, rv, nv, off tcol nz col, W) : TSt) touterStep =
          .ok (cp', rv', nv', off tcol nz n, W') ∧
        LInv n nz tcol trow tval n (off tcol nz n) W' cp' rv' nv' := by
  induction len with
  | zero =>
    intro col W cp rv nv hcl h
    have : col = n := by omega
    subst this
    exact ⟨cp, rv, nv, W, rfl, h⟩
  | succ len ih =>
    intro col W cp rv nv hcl h
    have hcn : col < n := by omega
    have hne : cp.getD col 0 = cnt tcol nz col := h.fresh col (Nat.le_refl _) hcn
    obtain ⟨cp1, rv1, nv1, W1, hin, h1⟩ := forIn_tinnerStep hs hcn (cnt tcol nz col) 0
      (off tcol nz col) W cp rv nv (by omega) (by omega) (h.weaken (Nat.le_succ col))
    rw [← off_succ] at hin h1
    obtain ⟨cp2, rv2, nv2, W2, hrest, h2⟩ := ih (col + 1) W1 cp1 rv1 nv1 (by omega) h1
    refine ⟨cp2, rv2, nv2, W2, ?_, h2⟩
    rw [List.range'_succ, List.forIn_cons]
    simp only [touterStep, Kr.getE_ok cp col _ 0 (by rw [h.cpsz]; omega), bind, Except.bind, hne, hin,
      pure, Except.pure]
    exact hrest

/-! ## the stable sort, the column-count loop -/

/-- [S] the sum of an `Int` list is invariant under permutation -/
theorem perm_sum_int {l₁ l₂ : List Int} (h : l₁.Perm l₂) : l₁.sum = l₂.sum := by
  induction h with
  | nil => rfl
  | cons x _ ih => simp only [List.sum_cons, ih]
  | swap x y l => simp only [List.sum_cons]; omega
  | trans _ _ ih1 ih2 => exact ih1.trans ih2

/-- [S] the comparison of the sort is transitive -/
theorem tle_trans (I J : Array Nat) (a b c : Nat) (h1 : tle I J a b = true) (h2 : tle I J b c = true) :
    tle I J a c = true := by
  simp only [tle, Bool.or_eq_true, Bool.and_eq_true, decide_eq_true_eq, beq_iff_eq] at *
  omega

/-- [S] the comparison of the sort is total -/
theorem tle_total (I J : Array Nat) (a b : Nat) : (tle I J a b || tle I J b a) = true := by
  simp only [tle, Bool.or_eq_true, Bool.and_eq_true, decide_eq_true_eq, beq_iff_eq]
  omega

/-- what the stable sort of `new_from_triplets` returns -/
structure SortP (I J : Array Nat) (nz : Nat) (p : Array Nat) : Prop where
  size : p.size = nz
  perm : p.toList.Perm (List.range nz)
  lt : ∀ r, r < nz → p.getD r 0 < nz
  sorted : ∀ r s, r < s → s < nz →
    J.getD (p.getD r 0) 0 < J.getD (p.getD s 0) 0 ∨
      (J.getD (p.getD r 0) 0 = J.getD (p.getD s 0) 0 ∧ I.getD (p.getD r 0) 0 ≤ I.getD (p.getD s 0) 0)

/-- [S] the stable sort returns a permutation of `0..nz` sorted by `(column, row)` -/
theorem sortP (I J : Array Nat) (nz : Nat) : SortP I J nz (sortpermBy nz (tle I J)) := by
  have hperm : (sortpermBy nz (tle I J)).toList.Perm (List.range nz) := by
    unfold sortpermBy; exact List.mergeSort_perm _ _
  have hsize : (sortpermBy nz (tle I J)).size = nz := by
    have := hperm.length_eq; simpa using this
  have hlen : ((List.range nz).mergeSort (tle I J)).length = nz := by
    rw [List.length_mergeSort, List.length_range]
  have hget : ∀ r, (h : r < nz) → (sortpermBy nz (tle I J)).getD r 0 =
      ((List.range nz).mergeSort (tle I J))[r]'(by rw [hlen]; exact h) := by
    intro r h
    simp only [sortpermBy, Array.getD_eq_getD_getElem?, List.getElem?_toArray]
    rw [List.getElem?_eq_getElem]
    rfl
  refine ⟨hsize, hperm, ?_, ?_⟩
  · intro r hr
    have hmem : (sortpermBy nz (tle I J)).getD r 0 ∈ (sortpermBy nz (tle I J)).toList := by
      rw [hget r hr]; unfold sortpermBy; exact List.getElem_mem _
    have := hperm.mem_iff.mp hmem
    exact List.mem_range.mp this
  · intro r s hrs hs
    have hpw := List.pairwise_mergeSort (le := tle I J) (tle_trans I J) (tle_total I J) (List.range nz)
    have := List.pairwise_iff_getElem.mp hpw r s (by omega) (by omega) hrs
    rw [hget r (by omega), hget s hs]
    simp only [tle, Bool.or_eq_true, Bool.and_eq_true, decide_eq_true_eq, beq_iff_eq] at this
    exact this

/-- [S] the column-count loop adds the number of occurrences of every column -/
theorem forIn_tcountStep (n : Nat) : ∀ (l : List Nat) (cp : Array Nat), cp.size = n + 1 →
    (∀ c ∈ l, c < n) →
    ∃ cp', forIn l cp tcountStep = .ok cp' ∧ cp'.size = n + 1 ∧
      ∀ c, cp'.getD c 0 = cp.getD c 0 + l.countP (fun x => x == c) := by
  intro l
  induction l with
  | nil => intro cp h _; exact ⟨cp, rfl, h, by simp⟩
  | cons a l ih =>
    intro cp hsz hl
    have ha : a < n := hl a List.mem_cons_self
    obtain ⟨cp', h1, h2, h3⟩ := ih (cp.setIfInBounds a (cp.getD a 0 + 1)) (by simp [hsz])
      (fun c hc => hl c (List.mem_cons_of_mem _ hc))
    refine ⟨cp', ?_, h2, ?_⟩
    · rw [List.forIn_cons]
      simp only [tcountStep, Kr.getE_ok cp a _ 0 (by omega), Kr.setE_ok cp a _ _ (by omega), bind,
        Except.bind, pure, Except.pure]
      exact h1
    · intro c
      rw [h3 c, List.countP_cons]
      by_cases hac : a = c
      · subst hac
        rw [getD_set_self _ _ _ _ (by omega)]
        simp only [beq_self_eq_true, if_true]; omega
      · rw [getD_set_ne _ _ _ _ _ hac]
        have : (a == c) = false := by simpa using hac
        simp only [this, Bool.false_eq_true, if_false]; omega

/-- [S] counting a column in `J` or in the sorted triplets is the same -/
theorem countP_sorted_eq (J : Array Nat) (p : Array Nat) (hp : p.toList.Perm (List.range J.size))
    (c : Nat) :
    J.toList.countP (fun x => x == c) =
      (List.range J.size).countP (fun r => J.getD (p.getD r 0) 0 == c) := by
  have hpsz : p.size = J.size := by have := hp.length_eq; simpa using this
  have e1 : J.toList = (List.range J.size).map (fun k => J.getD k 0) := by
    apply List.ext_getElem
    · simp
    · intro i h1 h2
      have hi : i < J.size := by simpa using h1
      simp [Array.getD_eq_getD_getElem?, hi]
  have e2 : p.toList = (List.range J.size).map (fun r => p.getD r 0) := by
    apply List.ext_getElem
    · simp [hpsz]
    · intro i h1 h2
      have hi : i < p.size := by simpa using h1
      simp [Array.getD_eq_getD_getElem?, hi]
  rw [e1, List.countP_map, ← hp.countP_eq, e2, List.countP_map]
  rfl

/-! ## no panic -/

/-- column / row of the `r`-th sorted triplet (`A = J` / `A = I`) -/
def keyOf (A p : Array Nat) (r : Nat) : Nat := A.getD (p.getD r 0) 0
/-- value of the `r`-th sorted triplet -/
def valOf (V : Array Int) (p : Array Nat) (r : Nat) : Int := V.getD (p.getD r 0) 0

/-- [S] NO PANIC, and the loop invariant holds at the end: `new_from_triplets` on in-range
strictly lower triangular triplets returns the matrix assembled from a final state of the
consolidation pass that has read all `nz` sorted triplets -/
theorem newFromTriplets_run (n : Nat) (I J : Array Nat) (V : Array Int) (hIJ : I.size = J.size)
    (hIV : I.size = V.size) (hlow : ∀ k, k < I.size → J.getD k 0 < I.getD k 0 ∧ I.getD k 0 < n) :
    ∃ cp rv nv W, IMat.newFromTriplets n n I J V = .ok (IMat.mk n n
        (IMat.colcountToColptr cp) (resizeVec rv W 0) (resizeVec nv W 0)) ∧
      LInv n V.size (keyOf J (sortpermBy V.size (tle I J))) (keyOf I (sortpermBy V.size (tle I J)))
        (valOf V (sortpermBy V.size (tle I J))) n V.size W cp rv nv := by
  have SP := sortP I J V.size
  generalize hp : sortpermBy V.size (tle I J) = p at SP
  have hs : ∀ r s, r < s → s < V.size → keyOf J p r < keyOf J p s ∨
      (keyOf J p r = keyOf J p s ∧ keyOf I p r ≤ keyOf I p s) := SP.sorted
  have hcn : ∀ r, r < V.size → keyOf J p r < n := by
    intro r hr
    have := hlow (p.getD r 0) (by have := SP.lt r hr; omega)
    unfold keyOf; omega
  have hmem : ∀ k ∈ p.toList, k < V.size := by
    intro k hk; exact List.mem_range.mp (SP.perm.mem_iff.mp hk)
  have h1 : (I.size != J.size) = false := by simp [hIJ]
  have h2 : (I.size != V.size) = false := by simp [hIV]
  -- the column counts
  obtain ⟨cpc, hc1, hc2, hc3⟩ := forIn_tcountStep n J.toList
    ((Array.replicate (n + 1) 0).setIfInBounds n V.size) (by simp) (by
      intro c hc
      obtain ⟨i, hi, rfl⟩ := (Kr.mem_toList_iff_getD J c).mp hc
      have := hlow i (by omega); omega)
  have hcnt : ∀ c, c < n → cpc.getD c 0 = cnt (keyOf J p) V.size c := by
    intro c hc
    rw [hc3 c, getD_set_ne _ _ _ _ _ (by omega)]
    have : (Array.replicate (n + 1) 0).getD c 0 = 0 := by
      rw [Array.getD_eq_getD_getElem?, Array.getElem?_replicate, if_pos (by omega)]; rfl
    rw [this, Nat.zero_add, countP_sorted_eq J p (by rw [← hIJ, hIV]; exact SP.perm) c,
      ← hIJ, hIV]
    rfl
  have hoff0 : off (keyOf J p) V.size 0 = 0 := by
    unfold off; rw [List.countP_eq_zero]; intro r _; simp
  have hoffn : off (keyOf J p) V.size n = V.size := by
    unfold off
    rw [List.countP_eq_length.mpr]
    · simp
    · intro r hr; simpa using hcn r (List.mem_range.mp hr)
  -- the consolidation pass
  have hinit : LInv n V.size (keyOf J p) (keyOf I p) (valOf V p) 0 (off (keyOf J p) V.size 0) 0 cpc
      (p.map (fun k => I.getD k 0)) (p.map (fun k => V.getD k 0)) := by
    rw [hoff0]
    refine ⟨hc2, by simp [SP.size], by simp [SP.size], Nat.le_refl _, Nat.zero_le _, rfl, ?_,
      fun k hk => absurd hk (Nat.not_lt_zero k), ?_, fun c _ hc => hcnt c hc⟩
    · intro k _ hk
      have hk' : k < p.size := by rw [SP.size]; exact hk
      simp [Array.getD_eq_getD_getElem?, hk', keyOf, valOf]
    · intro c hc
      simp only [List.range_zero, List.countP_nil, acc, Nat.add_zero]
      exact hcnt c hc
  obtain ⟨cp, rv, nv, W, hrun, hfin⟩ := forIn_touterStep hs n 0 0 cpc _ _ (by omega) hinit
  rw [hoff0, hoffn] at hrun
  rw [hoffn] at hfin
  refine ⟨cp, rv, nv, W, ?_, hfin⟩
  rw [newFromTriplets_eq_forIn]
  simp only [h1, h2, Bool.false_eq_true, if_false, Kr.setE_ok (Array.replicate (n + 1) 0) n _ _ (by simp),
    hp, permuteVec_ok I p _ 0 (by rw [hIV]; exact hmem), permuteVec_ok V p _ 0 hmem, hc1, hrun,
    bind, Except.bind, pure, Except.pure]

/-! ## the assembled matrix -/

/-- [S] `Vec::resize` to a smaller length keeps the prefix -/
theorem resizeVec_le {β : Type} (xs : Array β) (k : Nat) (z d : β) (h : k ≤ xs.size) :
    (resizeVec xs k z).size = k ∧ ∀ i, i < k → (resizeVec xs k z).getD i d = xs.getD i d := by
  unfold resizeVec
  rw [if_pos h]
  refine ⟨by simp; omega, ?_⟩
  intro i hi
  simp only [Array.getD_eq_getD_getElem?, Array.getElem?_extract]
  rw [if_pos (by omega)]
  simp

/-- [S] prefix sums of the per-column counts of a list are the counts of the smaller columns -/
theorem take_sum_counts {α : Type} (f : α → Nat) (out : List α) (cp : List Nat)
    (hcp : ∀ c, c < cp.length → cp.getD c 0 = out.countP (fun x => f x == c)) :
    ∀ i, i ≤ cp.length → (cp.take i).sum = out.countP (fun x => decide (f x < i)) := by
  intro i
  induction i with
  | zero => intro _; simp
  | succ i ih =>
    intro hi
    rw [List.take_add_one, List.sum_append, ih (by omega), countP_lt_succ]
    have := hcp i (by omega)
    rw [List.getD_eq_getElem?_getD] at this
    rw [← this, List.getElem?_eq_getElem (by omega)]
    simp

/-- the matrix assembled from a final state of the consolidation pass -/
def finalMat (n W : Nat) (cp rv : Array Nat) (nv : Array Int) : IMat :=
  IMat.mk n n (IMat.colcountToColptr cp) (resizeVec rv W 0) (resizeVec nv W 0)

/-- what the final state of the consolidation pass says about the assembled matrix: its stored
entries are, index by index, the consolidated list `out = (acc nz).reverse` -/
structure FinalFacts (n W : Nat) (out : List (Nat × Nat × Int)) (E : IMat) : Prop where
  em : E.m = n
  en : E.n = n
  wfe : E.WFE
  rsz : E.rowval.size = W
  len : out.length = W
  col : ∀ k, k < W → E.colIdx.getD k 0 = (out.getD k (0, 0, 0)).1
  row : ∀ k, k < W → E.rowval.getD k 0 = (out.getD k (0, 0, 0)).2.1
  val : ∀ k, k < W → E.nzval.getD k 0 = (out.getD k (0, 0, 0)).2.2

/-- [S] the final state of the consolidation pass yields a well-formed matrix whose entries are,
index by index, the consolidated list -/
theorem finalFacts {n nz : Nat} {tcol trow : Nat → Nat} {tval : Nat → Int}
    (hs : ∀ r s, r < s → s < nz → tcol r < tcol s ∨ (tcol r = tcol s ∧ trow r ≤ trow s))
    (hlowT : ∀ r, r < nz → tcol r < trow r ∧ trow r < n)
    {W : Nat} {cp rv : Array Nat} {nv : Array Int}
    (h : LInv n nz tcol trow tval n nz W cp rv nv) :
    FinalFacts n W (acc tcol trow tval nz).reverse (finalMat n W cp rv nv) := by
  have AI := accInv tcol trow tval nz hs nz (Nat.le_refl _)
  generalize hout : (acc tcol trow tval nz).reverse = out
  have hlen : out.length = W := by rw [← hout, List.length_reverse, ← h.wlen]
  have hmem : ∀ x, x ∈ out ↔ x ∈ acc tcol trow tval nz := by
    intro x; rw [← hout, List.mem_reverse]
  have hpw : out.Pairwise LexLt := by
    rw [← hout, List.pairwise_reverse]; exact AI.sorted
  have hpwc : out.Pairwise (fun a b => a.1 ≤ b.1) := by
    refine hpw.imp ?_
    intro a b hab; unfold LexLt at hab; omega
  have hxn : ∀ x ∈ out, x.1 < x.2.1 ∧ x.2.1 < n := by
    intro x hx
    obtain ⟨s, hs1, hs2, hs3⟩ := AI.src x ((hmem x).mp hx)
    have := hlowT s hs1
    omega
  have hget : ∀ k, (hk : k < W) → out.getD k (0, 0, 0) = out[k]'(by omega) := by
    intro k hk
    rw [List.getD_eq_getElem?_getD, List.getElem?_eq_getElem (by omega)]; rfl
  have hgmem : ∀ k, k < W → out.getD k (0, 0, 0) ∈ out := by
    intro k hk; rw [hget k hk]; exact List.getElem_mem _
  -- rows and values
  obtain ⟨hrs, hrg⟩ := resizeVec_le rv W 0 0 (by rw [h.rvsz]; have := h.wr; have := h.rnz; omega)
  obtain ⟨hvs, hvg⟩ := resizeVec_le nv W 0 0 (by rw [h.nvsz]; have := h.wr; have := h.rnz; omega)
  -- the column pointer
  obtain ⟨hCs, hCg⟩ := colcountToColptr_spec cp
  have hcpc : ∀ c, c < n → cp.getD c 0 = out.countP (fun x => x.1 == c) := by
    intro c hc
    have := h.counts c hc
    rw [← hout, List.countP_reverse]
    unfold cnt at this
    omega
  have hC : ∀ i, i ≤ n → (IMat.colcountToColptr cp).getD i 0 =
      out.countP (fun x => decide (x.1 < i)) := by
    intro i hi
    rw [hCg i (by rw [h.cpsz]; omega)]
    have e : cp.toList.take i = (cp.toList.take n).take i := by
      rw [List.take_take, Nat.min_eq_left hi]
    rw [e]
    refine take_sum_counts (·.1) out (cp.toList.take n) ?_ i (by simp [h.cpsz]; omega)
    intro c hc
    have hc' : c < n := by
      have : c < min n cp.size := by simpa using hc
      omega
    rw [← hcpc c hc']
    simp only [List.getD_eq_getElem?_getD, Array.getD_eq_getD_getElem?, List.getElem?_take,
      if_pos hc', Array.getElem?_toList]
  have hpos : ∀ k, (hk : k < W) → ∀ c, ((out.getD k (0, 0, 0)).1 < c ↔
      k < out.countP (fun x => decide (x.1 < c))) := by
    intro k hk c
    rw [hget k hk]
    exact countP_sorted_pos (·.1) c out hpwc k (by omega)
  have hwfe : (finalMat n W cp rv nv).WFE := by
    refine ⟨by simp only [finalMat]; rw [hCs, h.cpsz], ?_, ?_, ?_, ?_, ?_⟩
    · simp only [finalMat]; rw [hC 0 (Nat.zero_le _)]; simp
    · intro c hc
      simp only [finalMat] at hc ⊢
      rw [hC c (by omega), hC (c + 1) (by omega), countP_lt_succ]; omega
    · simp only [finalMat]
      rw [hC n (Nat.le_refl _), hrs, ← hlen, List.countP_eq_length]
      intro x hx; have := hxn x hx; simp only [decide_eq_true_eq]; omega
    · simp only [finalMat]; rw [hvs, hrs]
    · intro k hk
      simp only [finalMat] at hk ⊢
      rw [hrs] at hk
      rw [hrg k hk, ← (h.slots k hk).1, hout]
      exact (hxn _ (hgmem k hk)).2
  refine ⟨rfl, rfl, hwfe, hrs, hlen, ?_, ?_, ?_⟩
  · intro k hk
    have hc := hxn _ (hgmem k hk)
    have hc' : (out.getD k (0, 0, 0)).1 < (finalMat n W cp rv nv).n := by
      simp only [finalMat]; omega
    rw [colIdx_eq_iff hwfe (by simp only [finalMat]; rw [hrs]; exact hk) hc']
    simp only [finalMat] at hc' ⊢
    rw [hC _ (by omega), hC _ (by omega)]
    have h1 := hpos k hk (out.getD k (0, 0, 0)).1
    have h2 := hpos k hk ((out.getD k (0, 0, 0)).1 + 1)
    omega
  · intro k hk
    simp only [finalMat]
    rw [hrg k hk, ← (h.slots k hk).1, hout]
  · intro k hk
    simp only [finalMat]
    rw [hvg k hk, ← (h.slots k hk).2, hout]

/-! ## `Good`, the entries -/

/-- [S] beyond the last column nothing is stored -/
theorem entry_none_of_ge {E : IMat} (h : E.WFE) (r c : Nat) (hc : E.n ≤ c) : E.entry r c = none := by
  have h1 : E.colptr.getD (c + 1) 0 = 0 := by
    rw [Array.getD_eq_getD_getElem?, Array.getElem?_eq_none (by rw [h.cpsize]; omega)]; rfl
  unfold IMat.entry IMat.colRows
  rw [h1]
  simp

/-- [S] the assembled matrix is `Good` and stores exactly the consolidated list -/
theorem good_of_final {n W : Nat} {out : List (Nat × Nat × Int)} {E : IMat}
    (F : FinalFacts n W out E) (hpw : out.Pairwise LexLt)
    (hxn : ∀ x ∈ out, x.1 < x.2.1 ∧ x.2.1 < n) :
    E.Good ∧ ∀ r c v, E.entry r c = some v ↔ (c, r, v) ∈ out := by
  have hget : ∀ k, (hk : k < W) → out.getD k (0, 0, 0) = out[k]'(by rw [F.len]; exact hk) := by
    intro k hk
    rw [List.getD_eq_getElem?_getD, List.getElem?_eq_getElem (by rw [F.len]; exact hk)]; rfl
  have hgmem : ∀ k, k < W → out.getD k (0, 0, 0) ∈ out := by
    intro k hk; rw [hget k hk]; exact List.getElem_mem _
  have hlt : ∀ k k', k < k' → (hk' : k' < W) →
      LexLt (out.getD k (0, 0, 0)) (out.getD k' (0, 0, 0)) := by
    intro k k' hkk hk'
    rw [hget k (by omega), hget k' hk']
    exact List.pairwise_iff_getElem.mp hpw k k' _ _ hkk
  have hlower : E.Lower := by
    refine ⟨by rw [F.em, F.en], ?_, ?_⟩
    · intro k hk
      rw [F.rsz] at hk
      rw [F.col k hk, F.row k hk]
      exact (hxn _ (hgmem k hk)).1
    · intro k k' hk hk' hc hr
      rw [F.rsz] at hk hk'
      rw [F.col k hk, F.col k' hk'] at hc
      rw [F.row k hk, F.row k' hk'] at hr
      by_contra hne
      rcases Nat.lt_or_gt_of_ne hne with h1 | h1
      · have := hlt k k' h1 hk'; unfold LexLt at this; omega
      · have := hlt k' k h1 hk; unfold LexLt at this; omega
  have hsorted : E.Sorted := by
    refine ⟨?_⟩
    intro c hc k h1 h2
    have h3 := colptr_mono F.wfe E.n (Nat.le_refl _) (c + 1) (by omega)
    rw [F.wfe.nnz_row, F.rsz] at h3
    have hk1 : k + 1 < W := by omega
    have e1 := (colIdx_eq_iff F.wfe (k := k) (by rw [F.rsz]; omega) hc).mpr ⟨h1, by omega⟩
    have e2 := (colIdx_eq_iff F.wfe (k := k + 1) (by rw [F.rsz]; omega) hc).mpr ⟨by omega, h2⟩
    rw [F.col k (by omega)] at e1
    rw [F.col (k + 1) hk1] at e2
    rw [F.row k (by omega), F.row (k + 1) hk1]
    have := hlt k (k + 1) (by omega) hk1
    unfold LexLt at this; omega
  refine ⟨⟨F.wfe, hlower, hsorted⟩, ?_⟩
  intro r c v
  by_cases hc : c < E.n
  · rw [entry_eq_some_iff F.wfe hlower hc v]
    constructor
    · rintro ⟨k, hk, h1, h2, h3⟩
      rw [F.rsz] at hk
      rw [F.col k hk] at h1
      rw [F.row k hk] at h2
      rw [F.val k hk] at h3
      have : out.getD k (0, 0, 0) = (c, r, v) := by
        rw [← h1, ← h2, ← h3]
      rw [← this]; exact hgmem k hk
    · intro hmem
      obtain ⟨k, hk, hk2⟩ := List.mem_iff_getElem.mp hmem
      have hkW : k < W := by rw [← F.len]; exact hk
      refine ⟨k, by rw [F.rsz]; exact hkW, ?_, ?_, ?_⟩
      · rw [F.col k hkW, hget k hkW, hk2]
      · rw [F.row k hkW, hget k hkW, hk2]
      · rw [F.val k hkW, hget k hkW, hk2]
  · rw [entry_none_of_ge F.wfe r c (by omega)]
    simp only [reduceCtorEq, false_iff]
    intro hmem
    have := hxn _ hmem
    simp only at this
    rw [F.en] at hc
    omega

/-- [S] an array as the list of its entries by index -/
theorem toList_eq_map_range (p : Array Nat) :
    p.toList = (List.range p.size).map (fun r => p.getD r 0) := by
  apply List.ext_getElem
  · simp
  · intro i h1 h2
    have hi : i < p.size := by simpa using h1
    simp [Array.getD_eq_getD_getElem?, hi]

/-- [S] the sum over the sorted triplets at a position is the sum over the given triplets -/
theorem fsum_eq (I J : Array Nat) (V : Array Int) (p : Array Nat) (nz : Nat) (hsz : p.size = nz)
    (hp : p.toList.Perm (List.range nz)) (c r : Nat) :
    fsum (keyOf J p) (keyOf I p) (valOf V p) nz c r =
      (((List.range nz).filter (fun k => I.getD k 0 == r && J.getD k 0 == c)).map
        (fun k => V.getD k 0)).sum := by
  have e1 : fsum (keyOf J p) (keyOf I p) (valOf V p) nz c r =
      ((p.toList.filter (fun k => J.getD k 0 == c && I.getD k 0 == r)).map
        (fun k => V.getD k 0)).sum := by
    rw [toList_eq_map_range p, hsz, List.filter_map, List.map_map]
    rfl
  rw [e1, perm_sum_int ((hp.filter _).map _)]
  congr 2
  apply List.filter_congr
  intro k _
  exact Bool.and_comm _ _

end Tr

/-- [S] `new_from_triplets` ON IN-RANGE STRICTLY LOWER TRIANGULAR TRIPLETS: no panic; the result is
a well-formed, square, strictly lower triangular `n × n` matrix with strictly increasing rows in
every column; its stored positions are exactly the triplet positions; every stored value is the
sum of the triplet values at its position -/
theorem newFromTriplets_spec : NewFromTripletsSpec := by
  intro n I J V hIJ hIV hlow
  obtain ⟨cp, rv, nv, W, hrun, hinv⟩ := Tr.newFromTriplets_run n I J V hIJ hIV hlow
  have SP := Tr.sortP I J V.size
  generalize sortpermBy V.size (tle I J) = p at SP hinv
  have hs : ∀ r s, r < s → s < V.size → Tr.keyOf J p r < Tr.keyOf J p s ∨
      (Tr.keyOf J p r = Tr.keyOf J p s ∧ Tr.keyOf I p r ≤ Tr.keyOf I p s) := SP.sorted
  have hlowT : ∀ r, r < V.size → Tr.keyOf J p r < Tr.keyOf I p r ∧ Tr.keyOf I p r < n := by
    intro r hr
    exact hlow (p.getD r 0) (by have := SP.lt r hr; omega)
  have AI := Tr.accInv (Tr.keyOf J p) (Tr.keyOf I p) (Tr.valOf V p) V.size hs V.size (Nat.le_refl _)
  have F := Tr.finalFacts hs hlowT hinv
  have hmem : ∀ x, x ∈ (Tr.acc (Tr.keyOf J p) (Tr.keyOf I p) (Tr.valOf V p) V.size).reverse ↔
      x ∈ Tr.acc (Tr.keyOf J p) (Tr.keyOf I p) (Tr.valOf V p) V.size := fun x => List.mem_reverse
  have hxn : ∀ x ∈ (Tr.acc (Tr.keyOf J p) (Tr.keyOf I p) (Tr.valOf V p) V.size).reverse,
      x.1 < x.2.1 ∧ x.2.1 < n := by
    intro x hx
    obtain ⟨s, hs1, hs2, hs3⟩ := AI.src x ((hmem x).mp hx)
    have := hlowT s hs1
    omega
  obtain ⟨hgood, hentry⟩ := Tr.good_of_final F (List.pairwise_reverse.mpr AI.sorted) hxn
  refine ⟨_, hrun, rfl, rfl, hgood, ?_, ?_⟩
  · intro r c
    rw [Option.isSome_iff_exists]
    constructor
    · rintro ⟨v, hv⟩
      obtain ⟨s, hs1, hs2, hs3⟩ := AI.src _ ((hmem _).mp ((hentry r c v).mp hv))
      exact ⟨p.getD s 0, by have := SP.lt s hs1; omega, hs3, hs2⟩
    · rintro ⟨k, hk, hr, hc⟩
      have hkp : k ∈ p.toList := SP.perm.mem_iff.mpr (List.mem_range.mpr (by omega))
      obtain ⟨s, hs1, hs2⟩ := (Kr.mem_toList_iff_getD p k).mp hkp
      obtain ⟨v, hv⟩ := AI.cover s (by rw [← SP.size]; exact hs1)
      refine ⟨v, (hentry r c v).mpr ((hmem _).mpr ?_)⟩
      have e1 : Tr.keyOf J p s = c := by unfold Tr.keyOf; rw [hs2, hc]
      have e2 : Tr.keyOf I p s = r := by unfold Tr.keyOf; rw [hs2, hr]
      rw [← e1, ← e2]; exact hv
  · intro r c v hv
    have := AI.val _ ((hmem _).mp ((hentry r c v).mp hv))
    simp only at this
    rw [this, Tr.fsum_eq I J V p V.size SP.size SP.perm c r, hIV]

/-- [S] when every triplet at position `(r, c)` carries the same nonzero value `f r c`, no stored
value of the result is `0` (a stored value is `count * f r c` with `count ≥ 1`) -/
theorem newFromTriplets_nz (hT : NewFromTripletsSpec) (n : Nat) (I J : Array Nat) (V : Array Int) (f : Nat → Nat → Int)
    (hIJ : I.size = J.size) (hIV : I.size = V.size)
    (hlow : ∀ k, k < I.size → J.getD k 0 < I.getD k 0 ∧ I.getD k 0 < n)
    (hV : ∀ k, k < I.size → V.getD k 0 = f (I.getD k 0) (J.getD k 0))
    (hf : ∀ k, k < I.size → f (I.getD k 0) (J.getD k 0) ≠ 0) {E : IMat}
    (hE : IMat.newFromTriplets n n I J V = .ok E) :
    ∀ k, k < E.nzval.size → E.nzval.getD k 0 ≠ 0 := by
  obtain ⟨E', hE', _, hn, hg, hsome, hval⟩ := hT n I J V hIJ hIV hlow
  rw [hE] at hE'
  obtain rfl : E = E' := by injection hE'
  intro k hk
  have hk' : k < E.rowval.size := by rw [← hg.wfe.nnz_val]; exact hk
  obtain ⟨hc, _, _⟩ := colIdx_spec hg.wfe hk'
  have hent : E.entry (E.rowval.getD k 0) (E.colIdx.getD k 0) = some (E.nzval.getD k 0) :=
    (entry_eq_some_iff hg.wfe hg.lower hc _).mpr ⟨k, hk', rfl, rfl, rfl⟩
  obtain ⟨k0, hk0, hr0, hc0⟩ := (hsome _ _).mp (by rw [hent]; rfl)
  rw [hval _ _ _ hent]
  rw [Tr.sum_map_const (f (E.rowval.getD k 0) (E.colIdx.getD k 0))]
  · have hmem : k0 ∈ (List.range I.size).filter
        (fun k' => I.getD k' 0 == E.rowval.getD k 0 && J.getD k' 0 == E.colIdx.getD k 0) := by
      simp only [List.mem_filter, List.mem_range, Bool.and_eq_true, beq_iff_eq]
      exact ⟨hk0, hr0, hc0⟩
    have hpos : 0 < ((List.range I.size).filter
        (fun k' => I.getD k' 0 == E.rowval.getD k 0 && J.getD k' 0 == E.colIdx.getD k 0)).length :=
      List.length_pos_of_mem hmem
    have hne : f (E.rowval.getD k 0) (E.colIdx.getD k 0) ≠ 0 := by
      have := hf k0 hk0; rwa [hr0, hc0] at this
    intro h0
    rcases Int.mul_eq_zero.mp h0 with h1 | h1
    · omega
    · exact hne h1
  · intro k' hk'
    simp only [List.mem_filter, List.mem_range, Bool.and_eq_true, beq_iff_eq] at hk'
    rw [hV k' hk'.1, hk'.2.1, hk'.2.2]

/-- non-vacuity: four triplets, two of them at position `(1, 0)`; the spec applies, and the two
values `5` and `2` are added -/
example : ∃ E, IMat.newFromTriplets 3 3 #[2, 1, 2, 1] #[1, 0, 0, 0] #[1, 5, 7, 2] = .ok E ∧
    E.Good ∧ E.entry 1 0 = some 7 ∧ E.entry 2 2 = none := by
  obtain ⟨E, hE, _, _, hg, hsome, hval⟩ := newFromTriplets_spec 3 #[2, 1, 2, 1] #[1, 0, 0, 0]
    #[1, 5, 7, 2] rfl rfl (by
      intro k hk
      have hk' : k < 4 := hk
      have : k = 0 ∨ k = 1 ∨ k = 2 ∨ k = 3 := by omega
      rcases this with rfl | rfl | rfl | rfl <;> decide)
  refine ⟨E, hE, hg, ?_, ?_⟩
  · have h1 : (E.entry 1 0).isSome = true := (hsome 1 0).mpr ⟨1, by decide, rfl, rfl⟩
    obtain ⟨v, hv⟩ := Option.isSome_iff_exists.mp h1
    rw [hv, hval 1 0 v hv]
    rfl
  · cases h : E.entry 2 2 with
    | none => rfl
    | some v =>
      obtain ⟨k, hk, h1, h2⟩ := (hsome 2 2).mp (by rw [h]; rfl)
      have hk' : k < 4 := hk
      have : k = 0 ∨ k = 1 ∨ k = 2 ∨ k = 3 := by omega
      rcases this with rfl | rfl | rfl | rfl <;> simp at h2

end Clarabel.Chordal
