/-
  The timer state machine (`ClarabelModel/Timers.lean`): well-formedness, the stack discipline
  under which no call panics, and the accounting of `total_time()`.
-/
import ClarabelModel.Timers

namespace Clarabel.Timers

/-! ### sums over key lists -/

def sumOver (ks : List Path) (f : Path → Nat) : Nat := ks.foldl (fun acc p => acc + f p) 0

theorem foldl_add_eq (f : Path → Nat) : ∀ (ks : List Path) (a : Nat),
    ks.foldl (fun acc p => acc + f p) a = a + sumOver ks f := by
  intro ks
  induction ks with
  | nil => intro a; simp [sumOver]
  | cons k r ih =>
    intro a
    simp only [sumOver, List.foldl_cons, Nat.zero_add]
    rw [ih (a + f k), ih (f k)]
    omega

theorem sumOver_nil (f : Path → Nat) : sumOver [] f = 0 := rfl

theorem sumOver_cons (k : Path) (r : List Path) (f : Path → Nat) :
    sumOver (k :: r) f = f k + sumOver r f := by
  show List.foldl _ (0 + f k) r = _
  rw [Nat.zero_add, foldl_add_eq]

theorem sumOver_append (a b : List Path) (f : Path → Nat) :
    sumOver (a ++ b) f = sumOver a f + sumOver b f := by
  induction a with
  | nil => simp [sumOver_nil]
  | cons k r ih => simp only [List.cons_append, sumOver_cons, ih]; omega

theorem sumOver_congr (ks : List Path) (f g : Path → Nat) (h : ∀ p ∈ ks, f p = g p) :
    sumOver ks f = sumOver ks g := by
  induction ks with
  | nil => rfl
  | cons k r ih =>
    rw [sumOver_cons, sumOver_cons, h k (by simp), ih (fun p hp => h p (by simp [hp]))]

/-- two summands that differ in one point of a duplicate-free list -/
theorem sumOver_update (ks : List Path) (f g : Path → Nat) (p : Path) (hn : ks.Nodup) (hp : p ∈ ks)
    (h : ∀ q ∈ ks, q ≠ p → f q = g q) : sumOver ks g + f p = sumOver ks f + g p := by
  induction ks with
  | nil => simp at hp
  | cons k r ih =>
    rw [sumOver_cons, sumOver_cons]
    have hn' := List.nodup_cons.mp hn
    rcases List.mem_cons.mp hp with rfl | hpr
    · have : sumOver r f = sumOver r g := by
        apply sumOver_congr
        intro q hq
        apply h q (by simp [hq])
        rintro rfl
        exact hn'.1 hq
      omega
    · have hk : f k = g k := by
        apply h k (by simp)
        rintro rfl
        exact hn'.1 hpr
      have := ih hn'.2 hpr (fun q hq hne => h q (by simp [hq]) hne)
      omega

/-! ### prefixes -/

theorem mem_prefixes : ∀ (p q : Path), q ∈ prefixes p ↔ (q ≠ [] ∧ q <+: p) := by
  intro p
  induction p with
  | nil =>
    intro q
    simp only [prefixes, List.not_mem_nil, List.prefix_nil, false_iff, not_and, ne_eq]
    intro h h'; exact h h'
  | cons k ks ih =>
    intro q
    simp only [prefixes, List.mem_cons, List.mem_map]
    constructor
    · rintro (rfl | ⟨r, hr, rfl⟩)
      · exact ⟨by simp, by simp⟩
      · obtain ⟨_, h2⟩ := (ih r).mp hr
        exact ⟨by simp, (List.cons_prefix_cons).mpr ⟨rfl, h2⟩⟩
    · rintro ⟨hne, hpre⟩
      cases q with
      | nil => exact absurd rfl hne
      | cons a r =>
        obtain ⟨rfl, hr⟩ := (List.cons_prefix_cons).mp hpre
        cases r with
        | nil => exact Or.inl rfl
        | cons b r' => exact Or.inr ⟨b :: r', (ih _).mpr ⟨by simp, hr⟩, rfl⟩

theorem self_mem_prefixes {p : Path} (h : p ≠ []) : p ∈ prefixes p :=
  (mem_prefixes p p).mpr ⟨h, List.prefix_refl p⟩

theorem prefixes_trans {p q r : Path} (h1 : r ∈ prefixes q) (h2 : q ∈ prefixes p) : r ∈ prefixes p := by
  rw [mem_prefixes] at *
  exact ⟨h1.1, h1.2.trans h2.2⟩

theorem mem_prefixes_snoc (p : Path) (k : String) (q : Path) :
    q ∈ prefixes (p ++ [k]) ↔ (q ∈ prefixes p ∨ q = p ++ [k]) := by
  simp only [mem_prefixes]
  constructor
  · rintro ⟨hne, hpre⟩
    rcases List.prefix_concat_iff.mp (by simpa using hpre) with h | h
    · exact Or.inr (by simpa using h)
    · exact Or.inl ⟨hne, h⟩
  · rintro (⟨hne, hpre⟩ | rfl)
    · exact ⟨hne, hpre.trans (List.prefix_append p [k])⟩
    · exact ⟨by simp, List.prefix_refl _⟩

theorem mem_prefixes_dropLast (p q : Path) :
    q ∈ prefixes p.dropLast ↔ (q ∈ prefixes p ∧ q ≠ p) := by
  rcases List.eq_nil_or_concat p with rfl | ⟨l, k, rfl⟩
  · simp [prefixes]
  · rw [List.concat_eq_append]
    have hd : (l ++ [k]).dropLast = l := by simp
    rw [hd]
    have := mem_prefixes_snoc l k q
    rw [this]
    constructor
    · intro h
      refine ⟨Or.inl h, ?_⟩
      rintro rfl
      have := ((mem_prefixes _ _).mp h).2.length_le
      simp at this
      omega
    · rintro ⟨h | h, hne⟩
      · exact h
      · exact absurd h hne

theorem head_mem_prefixes (k : String) (r : List String) : [k] ∈ prefixes (k :: r) := by
  simp [prefixes]

theorem length_one_mem_prefixes {k k' : String} {r : List String} (h : [k'] ∈ prefixes (k :: r)) :
    k' = k := by
  have := ((mem_prefixes _ _).mp h).2
  exact ((List.cons_prefix_cons).mp this).1

/-! ### well-formed states -/

/-- `keys` is the domain of `cell`, listed once -/
structure WF (s : State) : Prop where
  nodup : s.keys.Nodup
  dom : ∀ p, p ∈ s.keys ↔ (s.cell p).isSome

/-- the timer at `p` exists and is running -/
def Running (s : State) (p : Path) : Prop := ∃ c, s.cell p = some c ∧ c.start.isSome = true

/-- the stack discipline: the running timers are exactly the timers on the call stack -/
structure Good (s : State) : Prop extends WF s where
  run : ∀ p, Running s p ↔ p ∈ prefixes s.stack

theorem wf_empty : WF State.empty := ⟨List.nodup_nil, fun p => by simp [State.empty]⟩

theorem good_empty : Good State.empty :=
  { toWF := wf_empty, run := fun p => by simp [Running, State.empty, prefixes] }

def elapsedAt (s : State) (p : Path) : Nat :=
  match s.cell p with
  | some c => c.elapsed
  | none => 0

def isRoot (p : Path) : Bool := p.length == 1

theorem totalTime_eq (s : State) : totalTime s = sumOver (s.keys.filter isRoot) (elapsedAt s) := rfl

theorem wf_put {s : State} (h : WF s) (p : Path) (c : Cell) : WF (s.put p c) := by
  constructor
  · show (if (s.cell p).isSome then s.keys else s.keys ++ [p]).Nodup
    split
    · exact h.nodup
    · rename_i hn
      have : p ∉ s.keys := fun hm => hn ((h.dom p).mp hm)
      exact List.nodup_append.mpr ⟨h.nodup, by simp, by
        intro a ha b hb
        simp at hb; subst hb
        rintro rfl; exact this ha⟩
  · intro q
    show q ∈ (if (s.cell p).isSome then s.keys else s.keys ++ [p]) ↔ (if q = p then some c else s.cell q).isSome
    by_cases hq : q = p
    · subst hq
      simp only [if_true, Option.isSome_some, iff_true]
      split
      · rename_i hs; exact (h.dom q).mpr hs
      · simp
    · simp only [if_neg hq]
      split
      · exact h.dom q
      · simp [hq, h.dom q]

theorem put_cell (s : State) (p : Path) (c : Cell) (q : Path) :
    (s.put p c).cell q = if q = p then some c else s.cell q := rfl

theorem put_stack (s : State) (p : Path) (c : Cell) : (s.put p c).stack = s.stack := rfl

/-- writing a timer whose `elapsed` does not change (or a new timer with `elapsed = 0`) leaves
`total_time()` alone -/
theorem totalTime_put_same {s : State} (h : WF s) (p : Path) (c : Cell)
    (he : elapsedAt s p = c.elapsed) : totalTime (s.put p c) = totalTime s := by
  rw [totalTime_eq, totalTime_eq]
  have hf : ∀ q, elapsedAt (s.put p c) q = elapsedAt s q := by
    intro q
    unfold elapsedAt
    rw [put_cell]
    by_cases hq : q = p
    · subst hq; simp only [if_true]; exact he.symm
    · simp [hq]
  show sumOver ((if (s.cell p).isSome then s.keys else s.keys ++ [p]).filter isRoot) _ = _
  split
  · exact sumOver_congr _ _ _ (fun q _ => hf q)
  · rename_i hn
    rw [List.filter_append, sumOver_append, sumOver_congr _ _ _ (fun q _ => hf q)]
    have : sumOver (List.filter isRoot [p]) (elapsedAt (s.put p c)) = 0 := by
      have h0 : elapsedAt (s.put p c) p = 0 := by
        rw [hf]; unfold elapsedAt
        cases hc : s.cell p with
        | none => rfl
        | some c0 => rw [hc] at hn; simp at hn
      simp only [List.filter_cons, List.filter_nil]
      split
      · rw [sumOver_cons, h0]; rfl
      · rfl
    omega

/-- writing an existing root timer changes `total_time()` by the change of its `elapsed` -/
theorem totalTime_put_root {s : State} (h : WF s) (k : String) (c0 c : Cell)
    (hc : s.cell [k] = some c0) : totalTime (s.put [k] c) + c0.elapsed = totalTime s + c.elapsed := by
  rw [totalTime_eq, totalTime_eq]
  have hk : (s.put [k] c).keys = s.keys := by
    show (if (s.cell [k]).isSome then s.keys else s.keys ++ [[k]]) = s.keys
    rw [hc]; rfl
  rw [hk]
  have hmem : [k] ∈ s.keys.filter isRoot := by
    simp only [List.mem_filter]
    exact ⟨(h.dom _).mpr (by rw [hc]; rfl), rfl⟩
  have := sumOver_update (s.keys.filter isRoot) (elapsedAt s) (elapsedAt (s.put [k] c)) [k]
    (h.nodup.filter _) hmem (by
      intro q _ hne
      unfold elapsedAt
      rw [put_cell, if_neg hne])
  have e1 : elapsedAt s [k] = c0.elapsed := by unfold elapsedAt; rw [hc]
  have e2 : elapsedAt (s.put [k] c) [k] = c.elapsed := by unfold elapsedAt; rw [put_cell]; simp
  omega

/-- writing a timer below the root level leaves `total_time()` alone -/
theorem totalTime_put_nonroot {s : State} (p : Path) (c : Cell) (hp : isRoot p = false) :
    totalTime (s.put p c) = totalTime s := by
  rw [totalTime_eq, totalTime_eq]
  have hf : ∀ q, isRoot q = true → elapsedAt (s.put p c) q = elapsedAt s q := by
    intro q hq
    unfold elapsedAt
    rw [put_cell, if_neg (by rintro rfl; rw [hp] at hq; cases hq)]
  show sumOver ((if (s.cell p).isSome then s.keys else s.keys ++ [p]).filter isRoot) _ = _
  have hc := sumOver_congr (s.keys.filter isRoot) _ _
    (fun q hq => hf q (List.mem_filter.mp hq).2)
  split
  · exact hc
  · rw [List.filter_append, sumOver_append, hc]
    simp [List.filter_cons, hp, sumOver_nil]

/-! ### the calls on a state that keeps the stack discipline -/

theorem walkOk_of_good {s : State} (h : Good s) : walkOk s = true := by
  unfold walkOk
  rw [List.all_eq_true]
  intro q hq
  obtain ⟨c, hc, _⟩ := (h.run q).mpr hq
  rw [hc]; rfl

theorem activeChain_iff {s : State} (h : Good s) (q : Path) (hq : q ≠ []) :
    activeChain s q = true ↔ q ∈ prefixes s.stack := by
  unfold activeChain
  rw [List.all_eq_true]
  constructor
  · intro hall
    have := hall q (self_mem_prefixes hq)
    apply (h.run q).mp
    cases hc : s.cell q with
    | none => rw [hc] at this; cases this
    | some c => rw [hc] at this; exact ⟨c, hc, this⟩
  · intro hmem r hr
    obtain ⟨c, hc, hrun⟩ := (h.run r).mpr (prefixes_trans hr hmem)
    rw [hc]; exact hrun

/-- a state that differs only in `elapsed` / in the value of a `start` that stays `Some` -/
theorem good_of_same_shape {s s' : State} (h : Good s) (hs : s'.stack = s.stack) (hk : s'.keys = s.keys)
    (hc : ∀ p, (s'.cell p).isSome = (s.cell p).isSome
      ∧ ∀ c c', s.cell p = some c → s'.cell p = some c' → c'.start.isSome = c.start.isSome) : Good s' := by
  refine { nodup := hk ▸ h.nodup, dom := fun p => ?_, run := fun p => ?_ }
  · rw [hk, (hc p).1]; exact h.dom p
  · rw [hs, ← h.run p]
    constructor
    · rintro ⟨c', h1, h2⟩
      cases hcp : s.cell p with
      | none => have := (hc p).1; rw [h1, hcp] at this; cases this
      | some c => exact ⟨c, hcp, by rw [← (hc p).2 c c' hcp h1]; exact h2⟩
    · rintro ⟨c, h1, h2⟩
      cases hcp : s'.cell p with
      | none => have := (hc p).1; rw [h1, hcp] at this; cases this
      | some c' => exact ⟨c', hcp, by rw [(hc p).2 c c' h1 hcp]; exact h2⟩

theorem good_put_push {s : State} (h : Good s) (key : String) (c : Cell) (hc : c.start.isSome = true) :
    Good { (s.put (s.stack ++ [key]) c) with stack := s.stack ++ [key] } := by
  refine { toWF := ⟨(wf_put h.toWF _ c).nodup, (wf_put h.toWF _ c).dom⟩, run := fun q => ?_ }
  show Running _ q ↔ q ∈ prefixes (s.stack ++ [key])
  rw [mem_prefixes_snoc]
  by_cases hq : q = s.stack ++ [key]
  · subst hq
    constructor
    · intro _; exact Or.inr rfl
    · intro _; exact ⟨c, by show (if _ = _ then some c else _) = some c; simp, hc⟩
  · have : Running { (s.put (s.stack ++ [key]) c) with stack := s.stack ++ [key] } q ↔ Running s q := by
      unfold Running
      show (∃ c', (if q = s.stack ++ [key] then some c else s.cell q) = some c' ∧ _) ↔ _
      rw [if_neg hq]
    rw [this, h.run q]
    constructor
    · intro h'; exact Or.inl h'
    · rintro (h' | h')
      · exact h'
      · exact absurd h' hq

theorem good_put_pop {s : State} (h : Good s) (hne : s.stack ≠ []) (c : Cell) (hc : c.start = none) :
    Good { (s.put s.stack c) with stack := s.stack.dropLast } := by
  refine { toWF := ⟨(wf_put h.toWF _ c).nodup, (wf_put h.toWF _ c).dom⟩, run := fun q => ?_ }
  show Running _ q ↔ q ∈ prefixes s.stack.dropLast
  rw [mem_prefixes_dropLast]
  by_cases hq : q = s.stack
  · constructor
    · rintro ⟨c', h1, h2⟩
      have : (if q = s.stack then some c else s.cell q) = some c' := h1
      rw [if_pos hq] at this
      cases this
      rw [hc] at h2; cases h2
    · rintro ⟨_, h2⟩; exact absurd hq h2
  · have : Running { (s.put s.stack c) with stack := s.stack.dropLast } q ↔ Running s q := by
      unfold Running
      show (∃ c', (if q = s.stack then some c else s.cell q) = some c' ∧ _) ↔ _
      rw [if_neg hq]
    rw [this, h.run q]
    exact ⟨fun h' => ⟨h', hq⟩, fun h' => h'.1⟩

theorem step_start_eq {s : State} (h : Good s) (ro rc : Path → Nat) (key : String) :
    step ro rc (.start key) s = .ok
      { (s.put (s.stack ++ [key])
          { ((s.cell (s.stack ++ [key])).getD Cell.fresh) with start := some (ro (s.stack ++ [key])) }) with
        stack := s.stack ++ [key] } := by
  simp only [step, walkOk_of_good h]
  rfl

theorem step_stop_eq {s : State} (h : Good s) (ro rc : Path → Nat) (hne : s.stack ≠ []) :
    ∃ t0 e, s.cell s.stack = some ⟨some t0, e⟩ ∧
      step ro rc .stop s = .ok
        { (s.put s.stack ⟨none, e + (rc s.stack - t0)⟩) with stack := s.stack.dropLast } := by
  obtain ⟨c, hc, hrun⟩ := (h.run s.stack).mpr (self_mem_prefixes hne)
  obtain ⟨st, e⟩ := c
  cases st with
  | none => cases hrun
  | some t0 =>
    refine ⟨t0, e, hc, ?_⟩
    have he : s.stack.isEmpty = false := by
      cases hs : s.stack with
      | nil => exact absurd hs hne
      | cons _ _ => rfl
    simp only [step, he, walkOk_of_good h, hc]
    rfl

/-- the state after `suspend` -/
def suspended (rc : Path → Nat) (s : State) : State :=
  { s with cell := fun q =>
      match s.cell q with
      | some c =>
        match c.start with
        | some t0 => if activeChain s q then some { c with elapsed := c.elapsed + (rc q - t0) } else some c
        | none => some c
      | none => none }

/-- the state after `resume` -/
def resumed (ro : Path → Nat) (s : State) : State :=
  { s with cell := fun q =>
      match s.cell q with
      | some c =>
        match c.start with
        | some _ => if activeChain s q then some { c with start := some (ro q) } else some c
        | none => some c
      | none => none }

theorem step_suspend_eq (ro rc : Path → Nat) (s : State) : step ro rc .suspend s = .ok (suspended rc s) := rfl
theorem step_resume_eq (ro rc : Path → Nat) (s : State) : step ro rc .resume s = .ok (resumed ro s) := rfl

theorem good_suspended {s : State} (h : Good s) (rc : Path → Nat) : Good (suspended rc s) := by
  apply good_of_same_shape (s' := suspended rc s) h rfl rfl
  intro p
  show ((suspended rc s).cell p).isSome = _ ∧ _
  simp only [suspended]
  cases hc : s.cell p with
  | none => exact ⟨rfl, fun c c' h1 _ => by cases h1⟩
  | some c =>
    obtain ⟨st, e⟩ := c
    cases st with
    | none =>
      refine ⟨rfl, fun c c' h1 h2 => ?_⟩
      cases h1; cases h2; rfl
    | some t0 =>
      simp only
      split
      · refine ⟨rfl, fun c c' h1 h2 => ?_⟩
        cases h1; cases h2; rfl
      · refine ⟨rfl, fun c c' h1 h2 => ?_⟩
        cases h1; cases h2; rfl

theorem good_resumed {s : State} (h : Good s) (ro : Path → Nat) : Good (resumed ro s) := by
  apply good_of_same_shape (s' := resumed ro s) h rfl rfl
  intro p
  show ((resumed ro s).cell p).isSome = _ ∧ _
  simp only [resumed]
  cases hc : s.cell p with
  | none => exact ⟨rfl, fun c c' h1 _ => by cases h1⟩
  | some c =>
    obtain ⟨st, e⟩ := c
    cases st with
    | none =>
      refine ⟨rfl, fun c c' h1 h2 => ?_⟩
      cases h1; cases h2; rfl
    | some t0 =>
      simp only
      split
      · refine ⟨rfl, fun c c' h1 h2 => ?_⟩
        cases h1; cases h2; rfl
      · refine ⟨rfl, fun c c' h1 h2 => ?_⟩
        cases h1; cases h2; rfl

/-- `resume` never touches an `elapsed` -/
theorem elapsedAt_resumed (ro : Path → Nat) (s : State) (q : Path) :
    elapsedAt (resumed ro s) q = elapsedAt s q := by
  unfold elapsedAt resumed
  simp only
  cases hc : s.cell q with
  | none => rfl
  | some c =>
    obtain ⟨st, e⟩ := c
    cases st with
    | none => rfl
    | some t0 =>
      by_cases ha : activeChain s q = true <;> simp [ha]

theorem totalTime_resumed (ro : Path → Nat) (s : State) : totalTime (resumed ro s) = totalTime s := by
  rw [totalTime_eq, totalTime_eq]
  exact sumOver_congr _ _ _ (fun q _ => elapsedAt_resumed ro s q)

/-- `suspend` with nothing on the stack changes nothing that `total_time()` sees -/
theorem totalTime_suspended_idle {s : State} (h : Good s) (hs : s.stack = []) (rc : Path → Nat) :
    totalTime (suspended rc s) = totalTime s := by
  rw [totalTime_eq, totalTime_eq]
  apply sumOver_congr
  intro q _
  unfold elapsedAt suspended
  simp only
  cases hc : s.cell q with
  | none => rfl
  | some c =>
    obtain ⟨st, e⟩ := c
    cases st with
    | none => rfl
    | some t0 =>
      have : Running s q := ⟨_, hc, rfl⟩
      rw [h.run q, hs] at this
      simp [prefixes] at this

/-- `suspend` with the root timer `k` running folds the open interval of `k` into `total_time()` -/
theorem totalTime_suspended {s : State} (h : Good s) (k : String) (r : List String)
    (hs : s.stack = k :: r) (t0 e : Nat) (hk : s.cell [k] = some ⟨some t0, e⟩) (rc : Path → Nat) :
    totalTime (suspended rc s) = totalTime s + (rc [k] - t0) := by
  rw [totalTime_eq, totalTime_eq]
  have hmem : [k] ∈ s.keys.filter isRoot := by
    simp only [List.mem_filter]
    exact ⟨(h.dom _).mpr (by rw [hk]; rfl), rfl⟩
  have hact : activeChain s [k] = true := by
    rw [activeChain_iff h [k] (by simp), hs]; exact head_mem_prefixes k r
  have := sumOver_update (s.keys.filter isRoot) (elapsedAt s) (elapsedAt (suspended rc s)) [k]
    (h.nodup.filter _) hmem (by
      intro q hq hne
      have hroot := (List.mem_filter.mp hq).2
      unfold elapsedAt suspended
      simp only
      cases hc : s.cell q with
      | none => rfl
      | some c =>
        obtain ⟨st, e'⟩ := c
        cases st with
        | none => rfl
        | some t1 =>
          exfalso
          have hrun : Running s q := ⟨_, hc, rfl⟩
          rw [h.run q, hs] at hrun
          cases q with
          | nil => cases hroot
          | cons a q' =>
            cases q' with
            | nil => exact hne (by rw [length_one_mem_prefixes hrun])
            | cons _ _ => cases hroot)
  have e1 : elapsedAt s [k] = e := by unfold elapsedAt; rw [hk]
  have e2 : elapsedAt (suspended rc s) [k] = e + (rc [k] - t0) := by
    unfold elapsedAt suspended
    simp only [hk, hact, if_true]
  show sumOver (List.filter isRoot s.keys) (elapsedAt (suspended rc s)) = _
  omega

theorem suspended_cell_root {s : State} (h : Good s) (k : String) (r : List String)
    (hs : s.stack = k :: r) (t0 e : Nat) (hk : s.cell [k] = some ⟨some t0, e⟩) (rc : Path → Nat) :
    (suspended rc s).cell [k] = some ⟨some t0, e + (rc [k] - t0)⟩ := by
  have hact : activeChain s [k] = true := by
    rw [activeChain_iff h [k] (by simp), hs]; exact head_mem_prefixes k r
  simp only [suspended, hk, hact, if_true]

theorem resumed_cell_root {s : State} (h : Good s) (k : String) (r : List String)
    (hs : s.stack = k :: r) (t0 e : Nat) (hk : s.cell [k] = some ⟨some t0, e⟩) (ro : Path → Nat) :
    (resumed ro s).cell [k] = some ⟨some (ro [k]), e⟩ := by
  have hact : activeChain s [k] = true := by
    rw [activeChain_iff h [k] (by simp), hs]; exact head_mem_prefixes k r
  simp only [resumed, hk, hact, if_true]

/-! ### root-interval accounting: the specification of `total_time()`

`Acc` keeps three numbers: what `total_time()` reports, which root timer is running and the clock
reading in its `start`, and how deep the call stack is.  A root timer's open interval `[t0, now]`
is added when the interval is closed (`stop` at depth 1, or `suspend`); `resume` opens a new
interval at `now`; nothing else touches the total.  So every closed interval of a root timer is
counted once, the windows between `suspend` and `resume` are not counted, and nested timers
contribute nothing. -/

structure Acc where
  total : Nat
  root : Option (String × Nat)
  depth : Nat
  deriving Repr, DecidableEq

def accStep (ro rc : Path → Nat) : Op → Acc → Acc
  | .start key, a =>
    if a.depth = 0 then { a with root := some (key, ro [key]), depth := 1 } else { a with depth := a.depth + 1 }
  | .stop, a =>
    if a.depth = 1 then
      match a.root with
      | some (k, t0) => { total := a.total + (rc [k] - t0), root := none, depth := 0 }
      | none => a
    else { a with depth := a.depth - 1 }
  | .suspend, a =>
    match a.root with
    | some (k, t0) => { a with total := a.total + (rc [k] - t0) }
    | none => a
  | .resume, a =>
    match a.root with
    | some (k, _) => { a with root := some (k, ro [k]) }
    | none => a
  | .reset _, a => a
  | .read, a => a

/-- the accounting of a call sequence and the values of `total_time()` at its `read`s -/
def accRun (co cc : Clock) : Nat → List Op → Acc → Acc × List Nat
  | _, [], a => (a, [])
  | n, op :: ops, a =>
    let r := accRun co cc (n + 1) ops (accStep (co n) (cc n) op a)
    (r.1, if op = .read then a.total :: r.2 else r.2)

/-- the call sequence keeps the stack discipline from depth `d`: no `stop` on an empty stack
(and no `reset`, which is treated apart) -/
def balanced : Nat → List Op → Bool
  | _, [] => true
  | d, .start _ :: r => balanced (d + 1) r
  | d, .stop :: r => d != 0 && balanced (d - 1) r
  | _, .reset _ :: _ => false
  | d, _ :: r => balanced d r

/-- depth after a call sequence -/
def depthAfter : Nat → List Op → Nat
  | d, [] => d
  | d, .start _ :: r => depthAfter (d + 1) r
  | d, .stop :: r => depthAfter (d - 1) r
  | d, _ :: r => depthAfter d r

structure Sim (s : State) (a : Acc) : Prop where
  good : Good s
  total : totalTime s = a.total
  depth : a.depth = s.stack.length
  root : match s.stack with
    | [] => a.root = none
    | k :: _ => ∃ t0 e, a.root = some (k, t0) ∧ s.cell [k] = some ⟨some t0, e⟩

theorem sim_idle {s : State} (h : Good s) (hs : s.stack = []) : Sim s ⟨totalTime s, none, 0⟩ :=
  { good := h, total := rfl, depth := by rw [hs]; rfl, root := by rw [hs] }

theorem stack_cases (l : List String) : l = [] ∨ ∃ k r, l = k :: r := by
  cases l with
  | nil => exact Or.inl rfl
  | cons k r => exact Or.inr ⟨k, r, rfl⟩

theorem sim_start {s : State} {a : Acc} (h : Sim s a) (ro rc : Path → Nat) (key : String)
    (p : Path) (c : Cell) (hp : p = s.stack ++ [key])
    (hcdef : c = { ((s.cell p).getD Cell.fresh) with start := some (ro p) }) :
    Sim { (s.put p c) with stack := s.stack ++ [key] } (accStep ro rc (.start key) a) := by
  have hel : elapsedAt s p = c.elapsed := by
    unfold elapsedAt
    cases hcp : s.cell p with
    | none => simp [hcdef, hcp, Cell.fresh]
    | some c0 => simp [hcdef, hcp]
  have htot : totalTime ({ (s.put p c) with stack := s.stack ++ [key] } : State) = a.total := by
    have : totalTime ({ (s.put p c) with stack := s.stack ++ [key] } : State) = totalTime (s.put p c) := rfl
    rw [this, totalTime_put_same h.good.toWF p c hel, h.total]
  have hgood : Good { (s.put p c) with stack := s.stack ++ [key] } := by
    rw [hp]; exact good_put_push h.good key c (by rw [hcdef]; rfl)
  rcases stack_cases s.stack with hs | ⟨k, r, hs⟩
  ·
    have hd : a.depth = 0 := by rw [h.depth, hs]; rfl
    have hp' : p = [key] := by rw [hp, hs]; rfl
    refine { good := hgood, total := ?_, depth := ?_, root := ?_ }
    · simp only [accStep, hd, if_true]; exact htot
    · simp only [accStep, hd, if_true]
      show 1 = (s.stack ++ [key]).length
      rw [hs]; rfl
    · show match s.stack ++ [key] with
        | [] => (accStep ro rc (.start key) a).root = none
        | k :: _ => ∃ t0 e, (accStep ro rc (.start key) a).root = some (k, t0)
            ∧ (if [k] = p then some c else s.cell [k]) = some ⟨some t0, e⟩
      rw [hs]
      simp only [List.nil_append, accStep, hd, if_true]
      refine ⟨ro [key], c.elapsed, rfl, ?_⟩
      rw [if_pos hp'.symm]
      have hst : c.start = some (ro [key]) := by rw [hcdef, hp']
      cases c with
      | mk cs ce => simp only at hst; subst hst; rfl
  ·
    have hd : a.depth ≠ 0 := by rw [h.depth, hs]; simp
    have hroot := h.root
    rw [hs] at hroot
    obtain ⟨t0, e, hr1, hr2⟩ := hroot
    refine { good := hgood, total := ?_, depth := ?_, root := ?_ }
    · simp only [accStep, if_neg hd]; exact htot
    · simp only [accStep, if_neg hd]
      show a.depth + 1 = (s.stack ++ [key]).length
      rw [h.depth]; simp
    · show match s.stack ++ [key] with
        | [] => (accStep ro rc (.start key) a).root = none
        | k :: _ => ∃ t0 e, (accStep ro rc (.start key) a).root = some (k, t0)
            ∧ (if [k] = p then some c else s.cell [k]) = some ⟨some t0, e⟩
      rw [hs]
      simp only [List.cons_append, accStep, if_neg hd]
      refine ⟨t0, e, hr1, ?_⟩
      have : [k] ≠ p := by
        rw [hp, hs]; intro hc; have := congrArg List.length hc; simp at this
      rw [if_neg this]; exact hr2

/-- one call that respects the stack discipline: it does not panic, and the timers follow the
accounting -/
theorem step_sim {s : State} {a : Acc} (h : Sim s a) (ro rc : Path → Nat) (op : Op)
    (hb : balanced s.stack.length [op] = true) :
    ∃ s', step ro rc op s = .ok s' ∧ Sim s' (accStep ro rc op a)
      ∧ s'.stack.length = depthAfter s.stack.length [op] := by
  cases op with
  | reset key => simp [balanced] at hb
  | read => exact ⟨s, rfl, h, rfl⟩
  | start key =>
    exact ⟨_, step_start_eq h.good ro rc key, sim_start h ro rc key _ _ rfl rfl, by simp [depthAfter]⟩
  | stop =>
    have hne : s.stack ≠ [] := by
      intro hs; rw [hs] at hb; simp [balanced] at hb
    obtain ⟨t1, e1, hcell, heq⟩ := step_stop_eq h.good ro rc hne
    refine ⟨_, heq, ?_, by simp [depthAfter]⟩
    have hgood := good_put_pop h.good hne (⟨none, e1 + (rc s.stack - t1)⟩ : Cell) rfl
    rcases stack_cases s.stack with hs | ⟨k, r, hs⟩
    · exact absurd hs hne
    ·
      have hroot := h.root
      rw [hs] at hroot
      obtain ⟨t0, e, hr1, hr2⟩ := hroot
      cases r with
      | nil =>
        have hd : a.depth = 1 := by rw [h.depth, hs]; rfl
        have hst : s.stack = [k] := hs
        rw [hst, hr2] at hcell
        have ht : t0 = t1 := by cases hcell; rfl
        have he : e = e1 := by cases hcell; rfl
        subst ht he
        refine { good := hgood, total := ?_, depth := ?_, root := ?_ }
        · simp only [accStep, hd, if_true, hr1]
          show totalTime (s.put s.stack (⟨none, e + (rc s.stack - t0)⟩ : Cell)) = _
          rw [hst]
          have := totalTime_put_root h.good.toWF k _ ⟨none, e + (rc [k] - t0)⟩ hr2
          simp only at this
          rw [← h.total]; omega
        · simp only [accStep, hd, if_true, hr1]
          show 0 = s.stack.dropLast.length
          rw [hst]; rfl
        · show match s.stack.dropLast with
            | [] => (accStep ro rc .stop a).root = none
            | k :: _ => ∃ t0' e', (accStep ro rc .stop a).root = some (k, t0')
                ∧ (if [k] = s.stack then some (⟨none, e + (rc s.stack - t0)⟩ : Cell) else s.cell [k])
                    = some ⟨some t0', e'⟩
          rw [hst]
          simp only [List.dropLast_singleton, accStep, hd, if_true, hr1]
      | cons k2 r2 =>
        have hd : a.depth ≠ 1 := by rw [h.depth, hs]; simp
        refine { good := hgood, total := ?_, depth := ?_, root := ?_ }
        · simp only [accStep, if_neg hd]
          show totalTime (s.put s.stack (⟨none, e1 + (rc s.stack - t1)⟩ : Cell)) = _
          rw [totalTime_put_nonroot _ _ (by rw [hs]; rfl), h.total]
        · simp only [accStep, if_neg hd]
          show a.depth - 1 = s.stack.dropLast.length
          rw [h.depth, List.length_dropLast]
        · show match s.stack.dropLast with
            | [] => (accStep ro rc .stop a).root = none
            | k :: _ => ∃ t0 e, (accStep ro rc .stop a).root = some (k, t0)
                ∧ (if [k] = s.stack then some (⟨none, e1 + (rc s.stack - t1)⟩ : Cell) else s.cell [k])
                    = some ⟨some t0, e⟩
          rw [hs]
          simp only [List.dropLast_cons_cons, accStep, if_neg hd]
          refine ⟨t0, e, hr1, ?_⟩
          rw [if_neg (by simp)]; exact hr2
  | suspend =>
    refine ⟨_, step_suspend_eq ro rc s, ?_, rfl⟩
    have hgood := good_suspended h.good rc
    rcases stack_cases s.stack with hs | ⟨k, r, hs⟩
    ·
      have hroot := h.root
      rw [hs] at hroot
      refine { good := hgood, total := ?_, depth := ?_, root := ?_ }
      · simp only [accStep, hroot]
        rw [totalTime_suspended_idle h.good hs, h.total]
      · simp only [accStep, hroot]; exact h.depth
      · show match s.stack with
          | [] => (accStep ro rc .suspend a).root = none
          | k :: _ => _
        rw [hs]; simp only [accStep, hroot]
    ·
      have hroot := h.root
      rw [hs] at hroot
      obtain ⟨t0, e, hr1, hr2⟩ := hroot
      refine { good := hgood, total := ?_, depth := ?_, root := ?_ }
      · simp only [accStep, hr1]
        rw [totalTime_suspended h.good k r hs t0 e hr2, h.total]
      · simp only [accStep, hr1]; exact h.depth
      · show match s.stack with
          | [] => (accStep ro rc .suspend a).root = none
          | k :: _ => ∃ t0 e, (accStep ro rc .suspend a).root = some (k, t0)
              ∧ (suspended rc s).cell [k] = some ⟨some t0, e⟩
        rw [hs]
        simp only [accStep, hr1]
        exact ⟨t0, _, rfl, suspended_cell_root h.good k r hs t0 e hr2 rc⟩
  | resume =>
    refine ⟨_, step_resume_eq ro rc s, ?_, rfl⟩
    have hgood := good_resumed h.good ro
    rcases stack_cases s.stack with hs | ⟨k, r, hs⟩
    ·
      have hroot := h.root
      rw [hs] at hroot
      refine { good := hgood, total := ?_, depth := ?_, root := ?_ }
      · simp only [accStep, hroot]
        rw [totalTime_resumed, h.total]
      · simp only [accStep, hroot]; exact h.depth
      · show match s.stack with
          | [] => (accStep ro rc .resume a).root = none
          | k :: _ => _
        rw [hs]; simp only [accStep, hroot]
    ·
      have hroot := h.root
      rw [hs] at hroot
      obtain ⟨t0, e, hr1, hr2⟩ := hroot
      refine { good := hgood, total := ?_, depth := ?_, root := ?_ }
      · simp only [accStep, hr1]
        rw [totalTime_resumed, h.total]
      · simp only [accStep, hr1]; exact h.depth
      · show match s.stack with
          | [] => (accStep ro rc .resume a).root = none
          | k :: _ => ∃ t0 e, (accStep ro rc .resume a).root = some (k, t0)
              ∧ (resumed ro s).cell [k] = some ⟨some t0, e⟩
        rw [hs]
        simp only [accStep, hr1]
        exact ⟨ro [k], e, rfl, resumed_cell_root h.good k r hs t0 e hr2 ro⟩

/-! ### call sequences -/

theorem balanced_cons (d : Nat) (op : Op) (r : List Op) :
    balanced d (op :: r) = (balanced d [op] && balanced (depthAfter d [op]) r) := by
  cases op <;> simp [balanced, depthAfter]

theorem depthAfter_cons (d : Nat) (op : Op) (r : List Op) :
    depthAfter d (op :: r) = depthAfter (depthAfter d [op]) r := by
  cases op <;> simp [depthAfter]

theorem balanced_append : ∀ (a b : List Op) (d : Nat),
    balanced d (a ++ b) = (balanced d a && balanced (depthAfter d a) b) := by
  intro a
  induction a with
  | nil => intro b d; simp [balanced, depthAfter]
  | cons op r ih =>
    intro b d
    rw [List.cons_append, balanced_cons, ih, balanced_cons d op r, depthAfter_cons d op r, Bool.and_assoc]

theorem depthAfter_append : ∀ (a b : List Op) (d : Nat),
    depthAfter d (a ++ b) = depthAfter (depthAfter d a) b := by
  intro a
  induction a with
  | nil => intro b d; rfl
  | cons op r ih =>
    intro b d
    rw [List.cons_append, depthAfter_cons, ih, depthAfter_cons d op r]

/-- a call sequence that keeps the stack discipline never panics, and `total_time()` follows the
root-interval accounting, for every clock -/
theorem run_sim (co cc : Clock) : ∀ (ops : List Op) (n : Nat) {s : State} {a : Acc}, Sim s a →
    balanced s.stack.length ops = true →
    ∃ s', run co cc n ops s = .ok (s', (accRun co cc n ops a).2) ∧ Sim s' (accRun co cc n ops a).1
      ∧ s'.stack.length = depthAfter s.stack.length ops := by
  intro ops
  induction ops with
  | nil => intro n s a h _; exact ⟨s, rfl, h, rfl⟩
  | cons op r ih =>
    intro n s a h hb
    rw [balanced_cons, Bool.and_eq_true] at hb
    obtain ⟨s1, h1, hsim1, hd1⟩ := step_sim h (co n) (cc n) op hb.1
    obtain ⟨s2, h2, hsim2, hd2⟩ := ih (n + 1) hsim1 (by rw [hd1]; exact hb.2)
    refine ⟨s2, ?_, hsim2, by rw [hd2, hd1, ← depthAfter_cons]⟩
    simp only [run, h1, h2, accRun, h.total, bind, Except.bind, pure, Except.pure]

theorem run_append (co cc : Clock) : ∀ (a b : List Op) (n : Nat) (s : State),
    run co cc n (a ++ b) s =
      (run co cc n a s >>= fun r1 => run co cc (n + a.length) b r1.1 >>= fun r2 => pure (r2.1, r1.2 ++ r2.2)) := by
  intro a
  induction a with
  | nil =>
    intro b n s
    simp only [List.nil_append, run, List.length_nil, Nat.add_zero, bind, Except.bind, pure, Except.pure]
    cases run co cc n b s <;> rfl
  | cons op r ih =>
    intro b n s
    simp only [List.cons_append, run, bind, Except.bind, pure, Except.pure]
    cases hs : step (co n) (cc n) op s with
    | error e => rfl
    | ok s1 =>
      simp only
      rw [ih b (n + 1) s1]
      simp only [bind, Except.bind, pure, Except.pure, List.length_cons]
      cases run co cc (n + 1) r s1 with
      | error e => rfl
      | ok r1 =>
        simp only
        rw [show n + 1 + r.length = n + (r.length + 1) by omega]
        cases run co cc (n + (r.length + 1)) b r1.1 with
        | error e => rfl
        | ok r2 =>
          simp only
          split <;> simp

/-! ### `reset_timer` with nothing running -/

theorem under_root (key k : String) : under key [k] = false := rfl

theorem step_reset {s : State} (h : Good s) (hs : s.stack = []) (ro rc : Path → Nat) (key : String) :
    ∃ s', step ro rc (.reset key) s = .ok s' ∧ Good s' ∧ s'.stack = []
      ∧ totalTime s' + elapsedAt s [key] = totalTime s := by
  let s1 : State :=
    { s with keys := s.keys.filter fun p => !(under key p),
             cell := fun q => if under key q then none else s.cell q }
  have hwf1 : WF s1 := by
    constructor
    · exact h.nodup.filter _
    · intro p
      show p ∈ s.keys.filter _ ↔ (if under key p then none else s.cell p).isSome
      rw [List.mem_filter, h.dom p]
      cases under key p <;> simp
  have hnorun : ∀ p c, s.cell p = some c → c.start = none := by
    intro p c hc
    cases hst : c.start with
    | none => rfl
    | some t =>
      have : Running s p := ⟨c, hc, by rw [hst]; rfl⟩
      rw [h.run p, hs] at this
      simp [prefixes] at this
  have htot1 : totalTime s1 = totalTime s := by
    rw [totalTime_eq, totalTime_eq]
    show sumOver ((s.keys.filter fun p => !(under key p)).filter isRoot) _ = _
    have hf : (s.keys.filter fun p => !(under key p)).filter isRoot = s.keys.filter isRoot := by
      rw [List.filter_filter]
      apply List.filter_congr
      intro p _
      cases p with
      | nil => rfl
      | cons a r => cases r with
        | nil => rfl
        | cons b r' => simp [isRoot]
    rw [hf]
    apply sumOver_congr
    intro p hp
    have hr := (List.mem_filter.mp hp).2
    unfold elapsedAt
    show (match (if under key p then none else s.cell p) with | some c => c.elapsed | none => 0) = _
    have : under key p = false := by
      cases p with
      | nil => rfl
      | cons a r => cases r with
        | nil => rfl
        | cons b r' => simp [isRoot] at hr
    rw [this]; rfl
  refine ⟨s1.put [key] Cell.fresh, rfl, ?_, hs, ?_⟩
  · refine { toWF := wf_put hwf1 _ _, run := fun p => ?_ }
    show Running _ p ↔ p ∈ prefixes s.stack
    rw [hs]
    simp only [prefixes, List.not_mem_nil, iff_false]
    rintro ⟨c, hc, hrun⟩
    have hc' : (if p = [key] then some Cell.fresh else if under key p then none else s.cell p) = some c := hc
    split at hc'
    · cases hc'; cases hrun
    · split at hc'
      · cases hc'
      · rw [hnorun p c hc'] at hrun; cases hrun
  · cases hc : s1.cell [key] with
    | none =>
      have h0 : elapsedAt s [key] = 0 := by
        unfold elapsedAt
        have : s1.cell [key] = s.cell [key] := rfl
        rw [← this, hc]
      rw [totalTime_put_same hwf1 [key] Cell.fresh (by unfold elapsedAt; rw [hc]; rfl), htot1, h0]
      rfl
    | some c0 =>
      have := totalTime_put_root hwf1 key c0 Cell.fresh hc
      have h0 : elapsedAt s [key] = c0.elapsed := by
        unfold elapsedAt
        have : s1.cell [key] = s.cell [key] := rfl
        rw [← this, hc]
      rw [h0, ← htot1]
      have hf : Cell.fresh.elapsed = 0 := rfl
      rw [hf] at this
      omega

/-! ### the accounting only grows -/

theorem accStep_total_le (ro rc : Path → Nat) (op : Op) (a : Acc) : a.total ≤ (accStep ro rc op a).total := by
  cases op <;> simp only [accStep]
  · split <;> simp
  · split
    · split <;> simp
    · simp
  · split <;> simp
  · split <;> simp
  · simp
  · simp

/-- every value of `total_time()` read along a call sequence (without `reset`) lies between the
value before and the value after, and later reads are not smaller than earlier ones -/
theorem accRun_mono (co cc : Clock) : ∀ (ops : List Op) (n : Nat) (a : Acc),
    a.total ≤ (accRun co cc n ops a).1.total
    ∧ (∀ r ∈ (accRun co cc n ops a).2, a.total ≤ r ∧ r ≤ (accRun co cc n ops a).1.total)
    ∧ (accRun co cc n ops a).2.Pairwise (· ≤ ·) := by
  intro ops
  induction ops with
  | nil => intro n a; simp [accRun]
  | cons op r ih =>
    intro n a
    obtain ⟨h1, h2, h3⟩ := ih (n + 1) (accStep (co n) (cc n) op a)
    have h0 := accStep_total_le (co n) (cc n) op a
    simp only [accRun]
    refine ⟨Nat.le_trans h0 h1, ?_, ?_⟩
    · intro x hx
      split at hx
      · rcases List.mem_cons.mp hx with rfl | hx
        · exact ⟨Nat.le_refl _, Nat.le_trans h0 h1⟩
        · exact ⟨Nat.le_trans h0 (h2 x hx).1, (h2 x hx).2⟩
      · exact ⟨Nat.le_trans h0 (h2 x hx).1, (h2 x hx).2⟩
    · split
      · refine List.pairwise_cons.mpr ⟨fun x hx => Nat.le_trans h0 (h2 x hx).1, h3⟩
      · exact h3

theorem accRun_append (co cc : Clock) : ∀ (a b : List Op) (n : Nat) (x : Acc),
    accRun co cc n (a ++ b) x =
      ((accRun co cc (n + a.length) b (accRun co cc n a x).1).1,
       (accRun co cc n a x).2 ++ (accRun co cc (n + a.length) b (accRun co cc n a x).1).2) := by
  intro a
  induction a with
  | nil => intro b n x; simp [accRun]
  | cons op r ih =>
    intro b n x
    simp only [List.cons_append, accRun, List.length_cons]
    rw [ih b (n + 1) _, show n + 1 + r.length = n + (r.length + 1) by omega]
    split <;> simp

/-! ### the call sequences of `new` and `solve()` -/

theorem passOps_balanced (p : PassShape) (d : Nat) :
    balanced d (passOps p) = true ∧ depthAfter d (passOps p) = d := by
  obtain ⟨dn, fl, sk, ka⟩ := p
  cases dn <;> cases fl <;> cases sk <;> cases ka <;>
    simp [passOps, timeit, notimeit, balanced, depthAfter]

theorem passes_balanced : ∀ (passes : List PassShape) (d : Nat),
    balanced d (passes.flatMap passOps) = true ∧ depthAfter d (passes.flatMap passOps) = d := by
  intro passes
  induction passes with
  | nil => intro d; exact ⟨rfl, rfl⟩
  | cons p r ih =>
    intro d
    simp only [List.flatMap_cons]
    rw [balanced_append, depthAfter_append, (passOps_balanced p d).1, (passOps_balanced p d).2]
    exact ⟨by simpa using (ih d).1, (ih d).2⟩

/-- what `solve()` does with the timers after `reset_timer("solve")` -/
def solveRest (passes : List PassShape) (extraLine : Bool) : List Op :=
  solveBody passes ++ (if extraLine then notimeit else []) ++ timeit "post-process" [] ++ [.read]

theorem solveOps_eq (passes : List PassShape) (extraLine : Bool) :
    solveOps passes extraLine = .suspend :: .resume :: .reset "solve" :: solveRest passes extraLine := by
  simp [solveOps, solveRest, notimeit]

theorem solveBody_balanced (passes : List PassShape) (d : Nat) :
    balanced d (solveBody passes) = true ∧ depthAfter d (solveBody passes) = d := by
  have h := passes_balanced passes (d + 1 + 1)
  simp only [solveBody, timeit, List.append_nil, List.cons_append, List.nil_append, List.append_assoc]
  simp only [balanced, depthAfter, balanced_append, depthAfter_append]
  simp
  refine ⟨⟨h.1, ?_, ?_⟩, ?_⟩ <;> rw [h.2] <;> omega

theorem balanced_append_of {a b : List Op} {d : Nat} (ha : balanced d a = true ∧ depthAfter d a = d)
    (hb : balanced d b = true ∧ depthAfter d b = d) :
    balanced d (a ++ b) = true ∧ depthAfter d (a ++ b) = d := by
  rw [balanced_append, depthAfter_append, ha.1, ha.2, hb.1, hb.2]
  exact ⟨rfl, rfl⟩

theorem solveRest_balanced (passes : List PassShape) (extraLine : Bool) (d : Nat) :
    balanced d (solveRest passes extraLine) = true ∧ depthAfter d (solveRest passes extraLine) = d := by
  unfold solveRest
  apply balanced_append_of
  · apply balanced_append_of
    · apply balanced_append_of (solveBody_balanced passes d)
      cases extraLine <;> simp [notimeit, balanced, depthAfter]
    · simp [timeit, balanced, depthAfter]
  · simp [balanced, depthAfter]

theorem suspended_cell_idle {s : State} (h : Good s) (hs : s.stack = []) (rc : Path → Nat) (q : Path) :
    (suspended rc s).cell q = s.cell q := by
  simp only [suspended]
  cases hc : s.cell q with
  | none => rfl
  | some c =>
    obtain ⟨st, e⟩ := c
    cases st with
    | none => rfl
    | some t0 =>
      have : Running s q := ⟨_, hc, rfl⟩
      rw [h.run q, hs] at this
      simp [prefixes] at this

theorem resumed_cell_idle {s : State} (h : Good s) (hs : s.stack = []) (ro : Path → Nat) (q : Path) :
    (resumed ro s).cell q = s.cell q := by
  simp only [resumed]
  cases hc : s.cell q with
  | none => rfl
  | some c =>
    obtain ⟨st, e⟩ := c
    cases st with
    | none => rfl
    | some t0 =>
      have : Running s q := ⟨_, hc, rfl⟩
      rw [h.run q, hs] at this
      simp [prefixes] at this

/-- `DefaultSolver::new`: no panic, nothing left running -/
theorem new_run (co cc : Clock) (n : Nat) :
    ∃ s', run co cc n newOps State.empty = .ok (s', []) ∧ Good s' ∧ s'.stack = [] := by
  obtain ⟨s', h1, h2, h3⟩ := run_sim co cc newOps n (sim_idle good_empty rfl) (by rfl)
  refine ⟨s', ?_, h2.good, ?_⟩
  · rw [h1]; rfl
  · have : s'.stack.length = 0 := h3
    exact List.eq_nil_of_length_eq_zero this

/-- `solve()` on a solver whose timers are idle (after `new`, or after an earlier `solve()`):
no call panics, the timers are idle again afterwards, and the values of `total_time()` that
`info.update` (one per pass) and `info.finalize` read are those of the root-interval accounting
started at `B` = (`total_time()` before) − (`elapsed` of the old "solve" timer), i.e. the setup time
plus the post-processing time of earlier solves. -/
theorem solve_run {s : State} (h : Good s) (hs : s.stack = []) (co cc : Clock) (n : Nat)
    (passes : List PassShape) (extraLine : Bool) :
    ∃ s', run co cc n (solveOps passes extraLine) s
        = .ok (s', (accRun co cc (n + 3) (solveRest passes extraLine)
                      ⟨totalTime s - elapsedAt s ["solve"], none, 0⟩).2)
      ∧ Good s' ∧ s'.stack = []
      ∧ totalTime s' = (accRun co cc (n + 3) (solveRest passes extraLine)
                      ⟨totalTime s - elapsedAt s ["solve"], none, 0⟩).1.total := by
  have g1 := good_suspended h (cc n)
  have g2 := good_resumed g1 (co (n + 1))
  have hs2 : (resumed (co (n + 1)) (suspended (cc n) s)).stack = [] := hs
  obtain ⟨s3, hr, g3, hs3, ht3⟩ := step_reset g2 hs2 (co (n + 2)) (cc (n + 2)) "solve"
  have hel : elapsedAt (resumed (co (n + 1)) (suspended (cc n) s)) ["solve"] = elapsedAt s ["solve"] := by
    unfold elapsedAt
    rw [resumed_cell_idle g1 hs, suspended_cell_idle h hs]
  have htt : totalTime (resumed (co (n + 1)) (suspended (cc n) s)) = totalTime s := by
    rw [totalTime_resumed, totalTime_suspended_idle h hs]
  have hB : totalTime s3 = totalTime s - elapsedAt s ["solve"] := by
    rw [hel, htt] at ht3; omega
  have hb := solveRest_balanced passes extraLine 0
  obtain ⟨s', h1, hsim, hd⟩ := run_sim co cc (solveRest passes extraLine) (n + 3) (sim_idle g3 hs3)
    (by rw [hs3]; exact hb.1)
  rw [hB] at h1 hsim
  refine ⟨s', ?_, hsim.good, ?_, hsim.total⟩
  · rw [solveOps_eq]
    simp only [run, step_suspend_eq, step_resume_eq, hr, h1, bind, Except.bind, pure, Except.pure]
    simp
  · rw [hs3] at hd
    have : s'.stack.length = 0 := by rw [hd]; exact hb.2
    exact List.eq_nil_of_length_eq_zero this

/-- any number of `solve()` calls on the same solver -/
theorem solves_run (co cc : Clock) : ∀ (solves : List (List PassShape × Bool)) (n : Nat) {s : State},
    Good s → s.stack = [] →
    ∃ s' reads, run co cc n (solves.flatMap fun p => solveOps p.1 p.2) s = .ok (s', reads)
      ∧ Good s' ∧ s'.stack = [] := by
  intro solves
  induction solves with
  | nil => intro n s h hs; exact ⟨s, [], rfl, h, hs⟩
  | cons p r ih =>
    intro n s h hs
    obtain ⟨s1, h1, g1, hs1, _⟩ := solve_run h hs co cc n p.1 p.2
    obtain ⟨s2, r2, h2, g2, hs2⟩ := ih (n + (solveOps p.1 p.2).length) g1 hs1
    refine ⟨s2, (accRun co cc (n + 3) (solveRest p.1 p.2)
      ⟨totalTime s - elapsedAt s ["solve"], none, 0⟩).2 ++ r2, ?_, g2, hs2⟩
    simp only [List.flatMap_cons]
    rw [run_append, h1]
    simp only [bind, Except.bind, h2, pure, Except.pure]

/-- `new` followed by any number of `solve()` calls never panics in the timers, whatever the
passes do and whatever the clock reads -/
theorem new_then_solves_run (co cc : Clock) (solves : List (List PassShape × Bool)) :
    ∃ s' reads, run co cc 0 (newOps ++ solves.flatMap fun p => solveOps p.1 p.2) State.empty = .ok (s', reads)
      ∧ Good s' ∧ s'.stack = [] := by
  obtain ⟨s1, h1, g1, hs1⟩ := new_run co cc 0
  obtain ⟨s2, r2, h2, g2, hs2⟩ := solves_run co cc solves (0 + newOps.length) g1 hs1
  refine ⟨s2, [] ++ r2, ?_, g2, hs2⟩
  rw [run_append, h1]
  simp only [bind, Except.bind, h2, pure, Except.pure]

/-! ### what one pass adds to `solve_time` -/

/-- Inside the loop ("solve" is the running root timer, its open interval started at `t0`, the
stack is `solve / IP iteration`), a pass whose calls are numbered from `n`:
* `info.update` reads the current total `T` (call `n`);
* `print_status` under `notimeit!` closes the open interval `[t0, now]` of "solve" at the `suspend`
  (call `n + 1`) — that and nothing else is added — and opens a new one at the `resume` (call `n + 2`);
* the timed stages (`scale cones`, `kkt update`, `kkt solve`) are nested timers: they add nothing to
  `total_time()` and leave the open interval alone;
* the extra status line after a failed insufficient-progress checkpoint adds the interval between
  the first `resume` and the second `suspend`, and reopens at the second `resume`. -/
theorem accRun_passOps (co cc : Clock) (n : Nat) (p : PassShape) (T t0 : Nat) :
    accRun co cc n (passOps p) ⟨T, some ("solve", t0), 2⟩ =
      (⟨T + (cc (n + 1) ["solve"] - t0)
          + (if p.done && p.failLine then cc (n + 3) ["solve"] - co (n + 2) ["solve"] else 0),
        some ("solve", if p.done && p.failLine then co (n + 4) ["solve"] else co (n + 2) ["solve"]), 2⟩,
       [T]) := by
  obtain ⟨dn, fl, sk, ka⟩ := p
  cases dn <;> cases fl <;> cases sk <;> cases ka <;>
    simp [passOps, timeit, notimeit, accRun, accStep]

/-! ### a clock that does not go back: intervals are never truncated -/

/-- later calls read later (or equal) times than earlier calls, whichever timers do the reading -/
def Mono (cl : Clock) : Prop := ∀ m n p q, m < n → cl m p ≤ cl n q

/-- the reading stored for the running root timer was taken in an earlier call -/
def RootEarlier (cl : Clock) (n : Nat) (a : Acc) : Prop :=
  ∀ k t, a.root = some (k, t) → ∃ m, m < n ∧ t = cl m [k]

theorem rootEarlier_step (cl : Clock) (n : Nat) (op : Op) (a : Acc) (h : RootEarlier cl n a) :
    RootEarlier cl (n + 1) (accStep (cl n) (cl n) op a) := by
  intro k t hk
  have weaken : ∀ k t, a.root = some (k, t) → ∃ m, m < n + 1 ∧ t = cl m [k] := by
    intro k t hk
    obtain ⟨m, hm, ht⟩ := h k t hk
    exact ⟨m, by omega, ht⟩
  cases op with
  | start key =>
    simp only [accStep] at hk
    split at hk
    · simp only [Option.some.injEq, Prod.mk.injEq] at hk
      obtain ⟨rfl, rfl⟩ := hk
      exact ⟨n, by omega, rfl⟩
    · exact weaken k t hk
  | stop =>
    simp only [accStep] at hk
    split at hk
    · split at hk
      · cases hk
      · exact weaken k t hk
    · exact weaken k t hk
  | suspend =>
    simp only [accStep] at hk
    split at hk
    · exact weaken k t hk
    · exact weaken k t hk
  | resume =>
    simp only [accStep] at hk
    split at hk
    · simp only [Option.some.injEq, Prod.mk.injEq] at hk
      obtain ⟨rfl, rfl⟩ := hk
      exact ⟨n, by omega, rfl⟩
    · exact weaken k t hk
  | reset key => exact weaken k t hk
  | read => exact weaken k t hk

/-- with a clock that does not go back, the interval a `suspend` (or the closing `stop`) adds is the
true difference `now − start`: the subtraction in the accounting never truncates -/
theorem acc_interval_exact (cl : Clock) (hm : Mono cl) (n : Nat) (a : Acc) (h : RootEarlier cl n a)
    (k : String) (t : Nat) (hk : a.root = some (k, t)) :
    t ≤ cl n [k] ∧ (accStep (cl n) (cl n) .suspend a).total + t = a.total + cl n [k] := by
  obtain ⟨m, hlt, rfl⟩ := h k t hk
  have := hm m n [k] [k] hlt
  refine ⟨this, ?_⟩
  simp only [accStep, hk]
  omega

/-! ### the executable driver (`runUntil`, with tabulation) computes `run` -/

theorem lookup_map_self {β : Type} (f : Path → β) (q : Path) : ∀ ks : List Path,
    (ks.map fun p => (p, f p)).lookup q = if q ∈ ks then some (f q) else none := by
  intro ks
  induction ks with
  | nil => simp
  | cons k r ih =>
    simp only [List.map_cons, List.lookup_cons, List.mem_cons]
    by_cases h : q = k
    · subst h; simp
    · have : (q == k) = false := by simpa using h
      rw [this, ih]
      simp [h]

theorem norm_eq {s : State} (h : WF s) : s.norm = s := by
  have hc : s.norm.cell = s.cell := by
    funext q
    show (match (s.keys.map fun p => (p, s.cell p)).lookup q with | some c => c | none => none) = s.cell q
    rw [lookup_map_self]
    by_cases hq : q ∈ s.keys
    · rw [if_pos hq]
    · rw [if_neg hq]
      cases hcq : s.cell q with
      | none => rfl
      | some c => exact absurd ((h.dom q).mpr (by rw [hcq]; rfl)) hq
  cases s with
  | mk st ks cl =>
    simp only [State.norm] at hc ⊢
    rw [hc]

theorem wf_with_stack {s : State} (h : WF s) (st : List String) : WF { s with stack := st } :=
  ⟨h.nodup, h.dom⟩

/-- every call, disciplined or not, keeps `keys` the duplicate-free domain of `cell` -/
theorem wf_step {s s' : State} (h : WF s) (ro rc : Path → Nat) (op : Op)
    (hs : step ro rc op s = .ok s') : WF s' := by
  cases op with
  | read => cases hs; exact h
  | reset key =>
    cases hs
    apply wf_put
    constructor
    · exact h.nodup.filter _
    · intro p
      show p ∈ s.keys.filter _ ↔ (if under key p then none else s.cell p).isSome
      rw [List.mem_filter, h.dom p]
      cases under key p <;> simp
  | start key =>
    simp only [step] at hs
    split at hs
    · cases hs
    · cases hs
      exact wf_with_stack (wf_put h _ _) _
  | stop =>
    simp only [step] at hs
    split at hs
    · cases hs
    · split at hs
      · cases hs
      · split at hs
        · cases hs
        · split at hs
          · cases hs
          · cases hs
            exact wf_with_stack (wf_put h _ _) _
  | suspend =>
    cases hs
    refine ⟨h.nodup, fun p => ?_⟩
    rw [h.dom p]
    show (s.cell p).isSome ↔ ((suspended rc s).cell p).isSome
    simp only [suspended]
    cases hc : s.cell p with
    | none => simp
    | some c =>
      obtain ⟨st, e⟩ := c
      cases st with
      | none => simp
      | some t0 => by_cases ha : activeChain s p = true <;> simp [ha]
  | resume =>
    cases hs
    refine ⟨h.nodup, fun p => ?_⟩
    rw [h.dom p]
    show (s.cell p).isSome ↔ ((resumed ro s).cell p).isSome
    simp only [resumed]
    cases hc : s.cell p with
    | none => simp
    | some c =>
      obtain ⟨st, e⟩ := c
      cases st with
      | none => simp
      | some t0 => by_cases ha : activeChain s p = true <;> simp [ha]

/-- on well-formed timers (in particular from `State.empty`) the driver's `runUntil` returns what
`run` returns — the final state and the readings — and reports a panic exactly when `run` does -/
theorem runUntil_spec (co cc : Clock) : ∀ (ops : List Op) (n : Nat) (s : State) (rs : List Nat), WF s →
    match run co cc n ops s with
    | .ok r => runUntil co cc n ops s rs = (none, r.1, rs ++ r.2)
    | .error _ => ∃ k s'' rs', runUntil co cc n ops s rs = (some k, s'', rs') := by
  intro ops
  induction ops with
  | nil => intro n s rs _; simp [run, runUntil, pure, Except.pure]
  | cons op r ih =>
    intro n s rs h
    simp only [run, runUntil, bind, Except.bind]
    cases hs : step (co n) (cc n) op s with
    | error e => exact ⟨n, s, rs, rfl⟩
    | ok s1 =>
      have hw := wf_step h (co n) (cc n) op hs
      simp only [norm_eq hw]
      have := ih (n + 1) s1 (if op = .read then rs ++ [totalTime s] else rs) hw
      cases hr : run co cc (n + 1) r s1 with
      | error e =>
        rw [hr] at this
        exact this
      | ok r1 =>
        rw [hr] at this
        simp only [pure, Except.pure] at this ⊢
        rw [this]
        split <;> simp

end Clarabel.Timers
