/-
  C07, round 7: PSD blocks in the trajectory theorem with the per-pass hypothesis reduced to the
  **LAPACK contracts of that pass's calls**.

  `StepKPsdTraj.lean` attaches `PsdPassOk q` to every accepted pass: for each PSD block the spectral
  contract of the two `eigvals` answers *and* C13's Nesterov–Todd contract `NtOk K z s` of the scaling
  in use.  `NtOk` is not a LAPACK contract: it is what `update_scaling` is supposed to establish.
  Here it is derived.  `Blk.LapackOk` asks, for a PSD block `.psd K γz γs z s dz ds` of the pass,

    * that `K` is what `PSDTriangleCone::update_scaling(s, z)` left behind on its success path
      (`PsdTri.updateScaling K₀ s z ⟨L₁, L₂, (U, Vt, σ)⟩ = .ok (true, K)`, any previous state `K₀`),
      the three LAPACK results meeting their contracts (`ScalingLapackOk`):
      `?potrf` twice — `mat s = L₁L₁ᵀ`, `mat z = L₂L₂ᵀ`; `?gesdd` — `L₂ᵀL₁ = U·diag σ·Vt`,
      `UᵀU = I`, `Vt·Vtᵀ = I`, `σ > 0`;
    * that the two `?syevr` answers of `step_length` are the least eigenvalues of the matrices handed
      over (`IsMinEig`, Rayleigh form).

  `Blk.LapackOk.psdOk` proves `Blk.PsdOk` from it (`NtOk`, `Λisqrt = Λ^{-1/2} > 0`, `n > 0`), so a
  trajectory whose accepted passes meet `LapackPassOk` (`TrajL`) is a `TrajP`.
-/
import ClarabelProofs.Lemmas.StepKPsdTraj
import ClarabelProofs.Lemmas.ConesPsdUpdate

namespace Clarabel.StepK
open Clarabel Nonsym Loop.Step PsdStep PsdTri Matrix


/-! ## `update_scaling`: success path inverted -/

/-- a successful `assembleScaling` has passed its size guard -/
theorem assembleScaling_ok_sizes (n : Nat) (L1 L2 U Vt sig : Array ℝ) (r : Cone ℝ × Array ℝ)
    (h : assembleScaling n L1 L2 U Vt sig = .ok r) :
    L1.size = n * n ∧ L2.size = n * n ∧ U.size = n * n ∧ Vt.size = n * n ∧ sig.size = n := by
  by_cases hg : (L1.size == n * n && L2.size == n * n && U.size == n * n && Vt.size == n * n
      && sig.size == n) = true
  · simp only [Bool.and_eq_true, beq_iff_eq] at hg
    obtain ⟨⟨⟨⟨a, b⟩, c⟩, d⟩, e⟩ := hg
    exact ⟨a, b, c, d, e⟩
  · have hg' : (L1.size == n * n && L2.size == n * n && U.size == n * n && Vt.size == n * n
        && sig.size == n) = false := by simpa using hg
    unfold assembleScaling at h
    simp only [hg', sizeGuard, Bool.false_eq_true, ↓reduceIte, bind, Except.bind, throw, throwThe,
      MonadExceptOf.throw] at h
    cases h

/-- the success path of `update_scaling` on a non-empty slice: the slices have the cone's length
and the new scaling is `assembleScaling` of the three LAPACK results -/
theorem updateScaling_true_inv (K0 K : Cone ℝ) (s z L1 L2 U Vt sig : Array ℝ)
    (hs : s.isEmpty = false)
    (h : updateScaling K0 s z ⟨some L1, some L2, some (U, Vt, sig)⟩ = .ok (true, K)) :
    s.size = PsdIndex.triangularNumber K0.n ∧ z.size = PsdIndex.triangularNumber K0.n ∧
      ∃ RRt, assembleScaling K0.n L1 L2 U Vt sig = .ok (K, RRt) := by
  by_cases hg : (s.size == PsdIndex.triangularNumber K0.n && z.size == PsdIndex.triangularNumber K0.n) = true
  · have hsz : SvecSized K0 s z := by
      simp only [Bool.and_eq_true, beq_iff_eq] at hg; exact hg
    rw [updateScaling_success K0 s z L1 L2 U Vt sig hs hsz] at h
    cases hr : assembleScaling K0.n L1 L2 U Vt sig with
    | error e => rw [hr] at h; cases h
    | ok r =>
      rw [hr] at h
      simp only [Except.map, Except.ok.injEq, Prod.mk.injEq, true_and] at h
      exact ⟨hsz.1, hsz.2, r.2, by rw [← h]⟩
  · exfalso
    have hg' : (s.size == PsdIndex.triangularNumber K0.n && z.size == PsdIndex.triangularNumber K0.n) = false := by
      simpa using hg
    unfold updateScaling at h
    simp only [hs, Bool.false_eq_true, ↓reduceIte, hg', sizeGuard, bind, Except.bind, throw,
      throwThe, MonadExceptOf.throw] at h
    cases h

/-! ## the LAPACK contracts of `update_scaling` -/

/-- the contracts of the three factorisations `update_scaling` asks LAPACK for, on a cone of
order `n` at the point `(s, z)`: `?potrf(mat s) = L₁` and `?potrf(mat z) = L₂` are Cholesky factors,
`?gesdd(L₂ᵀL₁) = (U, σ, Vt)` is a singular value decomposition with orthogonal `U`, `Vt` and
positive singular values -/
structure ScalingLapackOk (n : Nat) (s z L1 L2 U Vt sig : Array ℝ) : Prop where
  chol_s : toM n (svecToMat s) = toM n (matOf n L1) * (toM n (matOf n L1))ᵀ
  chol_z : toM n (svecToMat z) = toM n (matOf n L2) * (toM n (matOf n L2))ᵀ
  svd : (toM n (matOf n L2))ᵀ * toM n (matOf n L1)
      = toM n (matOf n U) * Matrix.diagonal (fun i : Fin n => sig.getD i 0) * toM n (matOf n Vt)
  orthU : (toM n (matOf n U))ᵀ * toM n (matOf n U) = 1
  orthV : toM n (matOf n Vt) * (toM n (matOf n Vt))ᵀ = 1
  sig_pos : ∀ i, i < n → 0 < sig.getD i 0

/-- [R] **`update_scaling` re-establishes the Nesterov–Todd contract**: if
`PSDTriangleCone::update_scaling(s, z)` succeeds on a non-empty cone and its three LAPACK results
meet their contracts, the scaling `K` it leaves behind satisfies `NtOk K z s`
(`W z = λ = W⁻ᵀ s`, `R·R⁻¹ = I`) and `Λisqrt = Λ^{-1/2} > 0`; the cone keeps its order, which is
positive -/
theorem updateScaling_lapack_nt (K0 K : Cone ℝ) (s z L1 L2 U Vt sig : Array ℝ)
    (hs : s.isEmpty = false)
    (h : updateScaling K0 s z ⟨some L1, some L2, some (U, Vt, sig)⟩ = .ok (true, K))
    (hc : ScalingLapackOk K.n s z L1 L2 U Vt sig) :
    K.n = K0.n ∧ 0 < K.n ∧ NtOk K z s ∧ ScalingOk K.n K.lam K.lamIsqrt := by
  obtain ⟨hss, hzs, RRt, hK⟩ := updateScaling_true_inv K0 K s z L1 L2 U Vt sig hs h
  obtain ⟨h1, h2, hU, hV, hsg⟩ := assembleScaling_ok_sizes K0.n L1 L2 U Vt sig _ hK
  obtain ⟨hn, _, _⟩ := assembleScaling_fields K0.n L1 L2 U Vt sig K RRt hK
  rw [hn] at hc
  obtain ⟨K', RRt', hK', _, hnt, hsc⟩ := assembleScaling_contracts K0.n L1 L2 U Vt sig s z h1 h2 hU hV
    hsg hss hzs hc.chol_s hc.chol_z hc.svd hc.orthU hc.orthV hc.sig_pos
  rw [hK] at hK'
  simp only [Except.ok.injEq, Prod.mk.injEq] at hK'
  obtain ⟨e, _⟩ := hK'
  subst e
  refine ⟨hn, ?_, hnt, hsc⟩
  rw [hn]
  by_contra hn0
  have h0 : K0.n = 0 := by omega
  have hs0 : s.size = 0 := by rw [hss, h0]; rfl
  have : s.isEmpty = true := by simp [Array.isEmpty, hs0]
  rw [this] at hs
  cases hs

/-! ## the per-pass hypothesis in LAPACK terms -/

/-- **the LAPACK contracts of one PSD block of a pass** `.psd K γz γs z s dz ds` (non-empty cone):
`K` is what this pass's `update_scaling(s, z)` left behind on its success path, from LAPACK results
meeting `ScalingLapackOk`; both `eigvals` calls of `step_length` answered, with the least eigenvalue
(`IsMinEig`) of the matrix handed to `?syevr` (`scaledDir d Λisqrt`, `d = W Δz` resp. `W⁻ᵀ Δs`).
`True` for every other cone kind. -/
def Blk.LapackOk : Blk ℝ → Prop
  | .psd K γz γs z s dz ds =>
    s.isEmpty = false ∧
    (∃ (K0 : Cone ℝ) (L1 L2 U Vt sig : Array ℝ),
      updateScaling K0 s z ⟨some L1, some L2, some (U, Vt, sig)⟩ = .ok (true, K) ∧
      ScalingLapackOk K.n s z L1 L2 U Vt sig) ∧
    ∃ gz gs, γz = some gz ∧ γs = some gs ∧
      (∀ d, mulW K false dz dz 1 0 = .ok d → IsMinEig K.n (scaledDir d K.lamIsqrt) gz) ∧
      (∀ d, mulWinv K true ds ds 1 0 = .ok d → IsMinEig K.n (scaledDir d K.lamIsqrt) gs)
  | _ => True

/-- [R] the LAPACK contracts of a block imply its per-pass contract `Blk.PsdOk` (spectral contract
**and** `NtOk`) -/
theorem Blk.LapackOk.psdOk {b : Blk ℝ} (h : b.LapackOk) : b.PsdOk := by
  cases b with
  | psd K γz γs z s dz ds =>
    obtain ⟨hs, ⟨K0, L1, L2, U, Vt, sig, hup, hc⟩, gz, gs, e1, e2, hγz, hγs⟩ := h
    obtain ⟨_, hn, hnt, hsc⟩ := updateScaling_lapack_nt K0 K s z L1 L2 U Vt sig hs hup hc
    exact ⟨⟨gz, gs, e1, e2, hn, hsc, hγz, hγs⟩, hnt⟩
  | zero z s dz ds => trivial
  | nn z s dz ds => trivial
  | soc z s dz ds => trivial
  | exp z s dz ds => trivial
  | pow a z s dz ds => trivial
  | genpow al z s dz ds => trivial

/-- **the per-pass hypothesis, LAPACK contracts only**: every PSD block of the pass's
iterate-with-direction `q` meets `Blk.LapackOk` -/
def LapackPassOk (q : Pt ℝ) : Prop := ∀ b ∈ q.blks, b.LapackOk

/-- [R] `LapackPassOk q → PsdPassOk q` -/
theorem LapackPassOk.psdPassOk {q : Pt ℝ} (h : LapackPassOk q) : PsdPassOk q :=
  fun b hb => (h b hb).psdOk

theorem Blk.NotPsd.lapackOk {b : Blk ℝ} (h : b.NotPsd) : b.LapackOk := by
  cases b with
  | psd K γz γs z s dz ds => exact absurd h id
  | zero z s dz ds => trivial
  | nn z s dz ds => trivial
  | soc z s dz ds => trivial
  | exp z s dz ds => trivial
  | pow a z s dz ds => trivial
  | genpow al z s dz ds => trivial

/-- `AcceptedPass` with the LAPACK contracts of the pass attached (`AcceptedPassP` with
`LapackPassOk` in place of `PsdPassOk`) -/
def AcceptedPassL (c : StepCfg) (cfg : Loop.Config ℝ) (sc : Loop.Scaling) (p p' : Pt ℝ) : Prop :=
  ∃ q α a, Pt.SamePoint p q ∧ q.DirOk ∧ LapackPassOk q ∧
    calcStepLength c.maxValue c.ls q true c.f = .ok α ∧ Backtracked c.btStep α a ∧
    acceptStep cfg sc q a = some p'

theorem AcceptedPassL.toP {c : StepCfg} {cfg : Loop.Config ℝ} {sc : Loop.Scaling} {p p' : Pt ℝ}
    (h : AcceptedPassL c cfg sc p p') : AcceptedPassP c cfg sc p p' := by
  obtain ⟨q, α, a, h1, h2, h3, h4, h5, h6⟩ := h
  exact ⟨q, α, a, h1, h2, h3.psdPassOk, h4, h5, h6⟩

/-- without PSD blocks the hypothesis is void -/
theorem AcceptedPass.toL {c : StepCfg} {cfg : Loop.Config ℝ} {sc : Loop.Scaling} {p p' : Pt ℝ}
    (h : AcceptedPass c cfg sc p p') (hn : ∀ b ∈ p.blks, b.NotPsd) : AcceptedPassL c cfg sc p p' := by
  obtain ⟨q, α, a, h1, h2, h4, h5, h6⟩ := h
  exact ⟨q, α, a, h1, h2, fun b hb => (forall2_samePoint_notPsd h1.2.2.2 hn b hb).lapackOk, h4, h5, h6⟩

/-- [R] an accepted pass from an iterate that is interior for all seven cone kinds, the pass's
LAPACK calls meeting their contracts: the new iterate is interior again, and
`0 < a`, `min_terminate_step_length < a ≤ α ≤ f·min(1, ατ, ακ) ≤ f < 1` -/
theorem AcceptedPassL.interiorAllP {c : StepCfg} (hc : c.Ok) {cfg : Loop.Config ℝ}
    {sc : Loop.Scaling} {p p' : Pt ℝ} (h : AcceptedPassL c cfg sc p p') (hI : p.InteriorAllP) :
    p'.InteriorAllP ∧ ∃ q α a, Pt.SamePoint p q ∧ p' = addStep q a ∧
      calcStepLength c.maxValue c.ls q true c.f = .ok α ∧
      0 < a ∧ cfg.minTerminateStepLength < a ∧ a ≤ α ∧
      α ≤ c.f * alphaMax q.τ q.κ q.dτ q.dκ c.maxValue ∧ α ≤ c.f ∧ a < 1 := by
  obtain ⟨k1, q, α, a, k2, _, k3, k4, k5, k6, k7, k8, k9, k10⟩ := h.toP.interiorAllP hc hI
  exact ⟨k1, q, α, a, k2, k3, k4, k5, k6, k7, k8, k9, k10⟩

/-- `Traj` with the LAPACK contracts attached to every accepted pass -/
inductive TrajL (c : StepCfg) (cfg : Loop.Config ℝ) (p0 : Pt ℝ) : List (Pt ℝ) → Prop
  | start : TrajL c cfg p0 [p0]
  | step {p p' : Pt ℝ} {hist : List (Pt ℝ)} (sc : Loop.Scaling) :
      TrajL c cfg p0 (p :: hist) → AcceptedPassL c cfg sc p p' → TrajL c cfg p0 (p' :: p :: hist)
  | rollback {p q : Pt ℝ} {hist : List (Pt ℝ)} :
      TrajL c cfg p0 (p :: q :: hist) → TrajL c cfg p0 (q :: p :: q :: hist)

/-- a `TrajL` is a `TrajP`: the LAPACK contracts of a pass imply `PsdPassOk` -/
theorem TrajL.toTrajP {c : StepCfg} {cfg : Loop.Config ℝ} {p0 : Pt ℝ} {l : List (Pt ℝ)}
    (h : TrajL c cfg p0 l) : TrajP c cfg p0 l := by
  induction h with
  | start => exact .start
  | step sc _ hpass ih => exact .step sc ih hpass.toP
  | rollback _ ih => exact .rollback ih

/-- [R] **every iterate of every solve is interior, all seven cone kinds**, the per-pass
hypothesis being only the LAPACK contracts of that pass's calls -/
theorem TrajL.interiorAllP {c : StepCfg} (hc : c.Ok) {cfg : Loop.Config ℝ} {p0 : Pt ℝ}
    (h0 : p0.InteriorAllP) {l : List (Pt ℝ)} (h : TrajL c cfg p0 l) : ∀ p ∈ l, p.InteriorAllP :=
  h.toTrajP.interiorAllP hc h0

end Clarabel.StepK
