/-
  Clique-graph merge strategy: the specifications of the stages of `merge_cliques`
  (`initialise`, one pass of the loop, `post_process_merge`), stated on the vocabulary of
  `ChordalCGDefs.lean`.  Each is proved in its own file (`ChordalCG{Init,Traverse,Update,
  PostMulti,PostSingle}.lean`); `ChordalCGLoop.lean` / `ChordalCGMain.lean` compose them.
-/
import ClarabelProofs.Lemmas.ChordalCGDefs
import ClarabelProofs.Lemmas.ChordalBridge
import ClarabelModel.Chordal.CGCheck

namespace Clarabel.Chordal
open Clarabel

/-- the invariant only looks at `edges`, `adjacency_table` and the length of `p` -/
theorem CGInv.of_eq {N nv : Nat} {s s' : CGStrategy} {t : SuperNodeTree} (h : CGInv N nv s t)
    (he : s'.edges = s.edges) (ha : s'.adjacencyTable = s.adjacencyTable)
    (hp : s'.p.size = s.p.size) : CGInv N nv s' t where
  sz := h.sz
  small := h.small
  em := he ▸ h.em
  en := he ▸ h.en
  good := he ▸ h.good
  nz := he ▸ h.nz
  edge_live := he ▸ h.edge_live
  conn := he ▸ h.conn
  adj_key := ha ▸ h.adj_key
  adj_iff := by rw [ha, he]; exact h.adj_iff
  adj_nodup := ha ▸ h.adj_nodup
  ncl := h.ncl
  psize := by rw [he, hp]; exact h.psize
  sn_nodup := h.sn_nodup
  sn_lt := h.sn_lt

/-- what `initialise` does to the tree `t0` of `SuperNodeTree::new`: the supernodes become the
whole cliques, the tree structure is given up (all parents `INACTIVE_NODE`, no children), the
separators are only permuted, everything else is kept -/
structure CGInitRel (t0 t1 : SuperNodeTree) : Prop where
  size : t1.snode.size = t0.snode.size
  clique : ∀ c v, v ∈ (t1.snode.getD c #[]).toList ↔ v ∈ cliqueList t0 c
  parent : t1.snodeParent = Array.replicate t0.snodeParent.size inactiveNode
  children : t1.snodeChildren = Array.replicate t0.snodeParent.size #[]
  seps : t1.separators.toList.Perm t0.separators.toList
  post : t1.post = t0.post
  snodePost : t1.snodePost = t0.snodePost
  nblk : t1.nblk = t0.nblk
  ncl : t1.nCliques = t0.nCliques

/-- `initialise` on the tree of `SuperNodeTree::new` (filled pattern, ≥ 2 cliques): no panic, and
THE LOOP INVARIANT HOLDS ON ENTRY (`ChordalCGInit.lean`) -/
def InitialiseSpec : Prop :=
  ∀ (L : LPat) (t0 : SuperNodeTree), L.Filled → SnTreeOk L t0 → 2 ≤ t0.snode.size →
    ∃ s1 t1, CGStrategy.new.initialise t0 = .ok (s1, t1) ∧ s1.stop = false ∧
      CGInv t0.snode.size L.n s1 t1 ∧ CGInitRel t0 t1

/-- `traverse` under the invariant with ≥ 2 live cliques: no panic, only the workspace `p` changes
(not its length), and a returned candidate is a stored entry (`ChordalCGTraverse.lean`) -/
def TraverseSpec : Prop :=
  ∀ (N nv : Nat) (s : CGStrategy) (t : SuperNodeTree), CGInv N nv s t → 2 ≤ t.nCliques →
    ∃ p' cand?, s.traverse t = .ok ({ s with p := p' }, cand?) ∧ p'.size = s.p.size ∧
      ∀ r c, cand? = some (r, c) → (s.edges.entry r c).isSome = true

/-- `evaluate` on a stored entry: no panic; merge iff the weight is `≥ 0`, otherwise `stop`
(`ChordalCGTraverse.lean`) -/
def EvaluateSpec : Prop :=
  ∀ (N nv : Nat) (s : CGStrategy) (t : SuperNodeTree), CGInv N nv s t →
    ∀ r c v, s.edges.entry r c = some v →
      s.evaluate t (r, c) = .ok (if v ≥ 0 then s else { s with stop := true }, decide (v ≥ 0))

/-- ONE MERGE PRESERVES THE LOOP INVARIANT: `merge_two_cliques` + `update_strategy` on a stored
entry do not panic, the invariant holds again, one clique is retired, coverage is monotone
(`ChordalCGUpdate.lean`) -/
def MergeUpdateSpec : Prop :=
  ∀ (N nv : Nat) (s : CGStrategy) (t : SuperNodeTree), CGInv N nv s t →
    ∀ r c, (s.edges.entry r c).isSome = true →
    ∃ t' s', s.mergeTwoCliques t (r, c) = .ok t' ∧ s.updateStrategy t' (r, c) true = .ok s' ∧
      CGInv N nv s' t' ∧ CGFrame t t' ∧ CGCover t t' ∧ t'.nCliques + 1 = t.nCliques ∧
      s'.stop = s.stop

/-- WHAT `update_strategy` DOES TO THE STRATEGY after `c_removed = cr` was merged into `c1` (a
stored entry `(c1, cr)`): no panic; the new edge matrix is `Good`, without zero weight, and its
graph is the old one with `cr` contracted into `c1` (the entries at `c1` get fresh non-zero
weights, the neighbours exclusive to `cr` are re-attached to `c1`, everything at `cr` is zeroed
and dropped); the adjacency table loses the key `cr`, no set mentions `cr` any more, and `c1`
inherits the neighbours of `cr` (`ChordalCGUpdState.lean`) -/
def UpdateStateSpec : Prop :=
  ∀ (N nv : Nat) (s : CGStrategy) (t : SuperNodeTree), CGInv N nv s t →
    ∀ c1 cr, (s.edges.entry c1 cr).isSome = true →
    ∀ t', s.mergeTwoCliques t (c1, cr) = .ok t' →
    ∃ s', s.updateStrategy t' (c1, cr) true = .ok s' ∧ s'.stop = s.stop ∧ s'.p = s.p ∧
      s'.edges.Good ∧ s'.edges.m = N ∧ s'.edges.n = N ∧
      (∀ k, k < s'.edges.nzval.size → s'.edges.nzval.getD k 0 ≠ 0) ∧
      (∀ a b, s'.edges.Adj a b ↔ (a ≠ cr ∧ b ≠ cr ∧
        (s.edges.Adj a b ∨ (a = c1 ∧ s.edges.Adj cr b ∧ b ≠ c1) ∨
          (b = c1 ∧ s.edges.Adj cr a ∧ a ≠ c1)))) ∧
      (∀ a, s'.adjacencyTable.containsKey a = true ↔
        (s.adjacencyTable.containsKey a = true ∧ a ≠ cr)) ∧
      (∀ a b, a ≠ cr → s.adjacencyTable.containsKey a = true →
        (b ∈ (s'.adjacencyTable.nbrs a).toList ↔ (b ≠ cr ∧
          (b ∈ (s.adjacencyTable.nbrs a).toList ∨
            (a = c1 ∧ b ∈ (s.adjacencyTable.nbrs cr).toList ∧ b ≠ c1) ∨
            (b = c1 ∧ a ∈ (s.adjacencyTable.nbrs cr).toList ∧ a ≠ c1))))) ∧
      (∀ a, (s'.adjacencyTable.nbrs a).toList.Nodup)

/-- `post_process_merge` when at least two cliques are left: no panic (`clique_intersections`,
`kruskal`, `determine_parent_cliques`, `post_order`, `split_cliques`), and — IF the supernodes of
the result are pairwise disjoint (`snDisjointB`: running intersection of the spanning tree) and
the live ones non-empty (`snLiveNonemptyB`: no live clique is swallowed by its tree parent); both
are tested on the result, neither is a theorem — the result is a clique tree in the state
`BridgePre` in which `SparsityPattern::new` relabels it (`ChordalCGPostMulti.lean`).  Without the
second antecedent the statement is FALSE (counterexample in `ChordalCGPostMulti.lean`). -/
def PostMultiSpec : Prop :=
  ∀ (L : LPat) (t0 t1 t : SuperNodeTree) (s : CGStrategy), L.Filled → SnTreeOk L t0 →
    CGInitRel t0 t1 → CGFrame t1 t → CGCover t1 t → CGInv t0.snode.size L.n s t →
    2 ≤ t.nCliques →
    ∃ s' t', s.postProcessMerge t = .ok (s', t') ∧
      (snDisjointB t' = true → snLiveNonemptyB t' = true → ∃ ord : Nat → Nat, BridgePre L t' ord)

/-- `post_process_merge` + the tail of `SparsityPattern::new` when everything was merged into one
clique: no panic, and the result satisfies the oracle predicate (`ChordalCGPostSingle.lean`) -/
def PostSingleSpec : Prop :=
  ∀ (L : LPat) (t0 t1 t : SuperNodeTree) (s : CGStrategy), L.Filled → SnTreeOk L t0 →
    CGInitRel t0 t1 → CGFrame t1 t → CGCover t1 t → CGInv t0.snode.size L.n s t →
    t.nCliques = 1 →
    ∀ (ordering : Array Nat), ordering.toList.Perm (List.range L.n) →
    ∀ edges : List (Nat × Nat),
    ∃ s' t' tf ord', s.postProcessMerge t = .ok (s', t') ∧ spTail t' ordering = .ok (tf, ord') ∧
      ValidCliqueTree L.n edges tf ord'

end Clarabel.Chordal
