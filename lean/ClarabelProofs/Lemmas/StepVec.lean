/-
  Facts about the dense vector kernels of the model (`Vec.dot`, the nonnegative-cone step
  length folds) over an ordered field: sums / minima do not depend on the order of the rows.
-/
import ClarabelModel.Step
import ClarabelProofs.Lemmas.ScalarInst
import Mathlib.Data.List.Perm.Basic
import Mathlib.Algebra.Order.Field.Basic
import Mathlib.Tactic.Ring

namespace Clarabel.Lemmas
open Clarabel Clarabel.Step

variable {α : Type} [Field α] [LinearOrder α] [IsStrictOrderedRing α]

/-- the accumulation of `Vec.dot` over a list of rows -/
def dotRows (rows : List (α × α)) (a : α) : α := rows.foldl (fun acc p => acc + p.1 * p.2) a

theorem dot_eq_dotRows (x y : Array α) : Vec.dot x y = dotRows (x.toList.zip y.toList) 0 := rfl

theorem dotRows_perm {l l' : List (α × α)} (h : l.Perm l') (a : α) : dotRows l a = dotRows l' a := by
  unfold dotRows
  induction h generalizing a with
  | nil => rfl
  | cons x _ ih => simp only [List.foldl_cons]; exact ih _
  | swap x y l => simp only [List.foldl_cons]; congr 1; ring
  | trans _ _ ih1 ih2 => exact (ih1 a).trans (ih2 a)

/-- the accumulation of one of the two minima of `NonnegativeCone::step_length`:
`if d < 0 then acc := min acc (−v/d)` over rows `(d, v)` -/
def ratioRows (rows : List (α × α)) (a : α) : α :=
  rows.foldl (fun acc p => if p.1 < 0 then min acc (-p.2 / p.1) else acc) a

theorem ratioRows_perm {l l' : List (α × α)} (h : l.Perm l') (a : α) :
    ratioRows l a = ratioRows l' a := by
  unfold ratioRows
  induction h generalizing a with
  | nil => rfl
  | cons x _ ih => simp only [List.foldl_cons]; exact ih _
  | swap x y l =>
    simp only [List.foldl_cons]
    congr 1
    by_cases hx : x.1 < 0 <;> by_cases hy : y.1 < 0 <;> simp only [hx, hy, if_true, if_false]
    exact min_right_comm _ _ _
  | trans _ _ ih1 ih2 => exact (ih1 a).trans (ih2 a)

end Clarabel.Lemmas
