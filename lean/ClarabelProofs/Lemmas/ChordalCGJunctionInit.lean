/-
  Clique-graph merge strategy, JUNCTION-TREE LINK, the base case: right after `initialise` the edge
  matrix of the reduced clique graph CONTAINS A JUNCTION TREE of the cliques, namely the supernode
  tree of `SuperNodeTree::new` — the pairs `(max c p, min c p)` for every non-root clique `c` with
  parent `p` (`cgTreeEdges`).

  * `cgj_initialise_run` : the run of `initialise` (copied skeleton of `initialise_spec`,
    `ChordalCGInit.lean`), exporting that THE TREE EDGES ARE STORED ENTRIES as list membership;
  * `cgj_tree_rip`       : the supernode tree has the running-intersection property for the whole
    cliques (`CTInv.running_intersection`);
  * `cgj_tree_forest`    : the supernode tree is acyclic (`forest_iff_count`: one class, `N - 1` edges);
  * `initialise_hasJT`   : `CGHasJT s1 t1 (cgTreeEdges t0)` for the result of `initialise`.
  The building blocks `new_from_triplets` and `compute_reduced_clique_graph` enter as the hypotheses
  `NewFromTripletsSpec`, `ReducedOkSpec`, `ReducedTreeEdgeSpec` exactly as in `initialise_spec`
  (they are discharged in `ChordalCGFinal.lean`, which is deliberately not imported here).
  All theorems here are class [S].
-/
import ClarabelProofs.Lemmas.ChordalCGJunctionDefs
import ClarabelProofs.Lemmas.ChordalCGInit

namespace Clarabel.Chordal
open Clarabel

/-- the supernode tree as a list of (row, col) pairs -/
def cgTreeEdges (t0 : SuperNodeTree) : List (Nat × Nat) :=
  ((List.range t0.snode.size).filter (fun c => t0.snodeParent.getD c 0 != noParent)).map
    (fun c => JT.norm (c, t0.snodeParent.getD c 0))

/-! ## the edge list -/

/-- [S] a non-root clique and its parent give an edge of the supernode tree -/
theorem cgj_mem_treeEdges {t0 : SuperNodeTree} {c : Nat} (hc : c < t0.snode.size)
    (hnp : t0.snodeParent.getD c 0 ≠ noParent) :
    JT.norm (c, t0.snodeParent.getD c 0) ∈ cgTreeEdges t0 := by
  unfold cgTreeEdges
  refine List.mem_map.2 ⟨c, List.mem_filter.2 ⟨List.mem_range.2 hc, ?_⟩, rfl⟩
  simpa using hnp

/-- [S] every edge of the supernode tree is (non-root clique, parent), oriented -/
theorem cgj_of_mem_treeEdges {t0 : SuperNodeTree} {e : Nat × Nat} (he : e ∈ cgTreeEdges t0) :
    ∃ c, c < t0.snode.size ∧ t0.snodeParent.getD c 0 ≠ noParent ∧
      e = JT.norm (c, t0.snodeParent.getD c 0) := by
  unfold cgTreeEdges at he
  obtain ⟨c, hc, rfl⟩ := List.mem_map.1 he
  obtain ⟨h1, h2⟩ := List.mem_filter.1 hc
  exact ⟨c, List.mem_range.1 h1, by simpa using h2, rfl⟩

/-- [S] an oriented pair in the list joins its two ends -/
theorem cgj_conn_of_norm {l : List (Nat × Nat)} {a b : Nat} (h : JT.norm (a, b) ∈ l) :
    Conn l a b := by
  unfold JT.norm at h
  by_cases hab : a ≤ b
  · rw [Nat.max_eq_right hab, Nat.min_eq_left hab] at h
    exact (Conn.edge h).symm
  · rw [Nat.max_eq_left (by omega), Nat.min_eq_right (by omega)] at h
    exact Conn.edge h

/-- [S] an oriented pair both of whose ends contain `v` survives the restriction to `v` -/
theorem cgj_norm_mem_at {cl : Nat → Nat → Bool} {v : Nat} {T : List (Nat × Nat)} {a b : Nat}
    (h : JT.norm (a, b) ∈ T) (ha : cl a v = true) (hb : cl b v = true) :
    JT.norm (a, b) ∈ JT.atV cl v T := by
  refine JT.mem_at.2 ⟨h, ?_, ?_⟩
  · unfold JT.norm
    by_cases hab : a ≤ b
    · show cl (max a b) v = true
      rw [Nat.max_eq_right hab]; exact hb
    · show cl (max a b) v = true
      rw [Nat.max_eq_left (by omega)]; exact ha
  · unfold JT.norm
    by_cases hab : a ≤ b
    · show cl (min a b) v = true
      rw [Nat.min_eq_left hab]; exact ha
    · show cl (min a b) v = true
      rw [Nat.min_eq_right (by omega)]; exact hb

/-! ## the running-intersection property of the supernode tree -/

/-- [S] a parent chain all of whose cliques contain `v` is a path of the supernode tree restricted
to `v` -/
theorem cgj_anc_conn {t0 : SuperNodeTree} {ord : Nat → Nat} (hct : CTInv t0 ord)
    {cl : Nat → Nat → Bool} {v : Nat} (hcl : ∀ c, cl c v = true ↔ v ∈ cliqueList t0 c)
    {a x : Nat} (h : Anc t0 a x) :
    (∀ c, Anc t0 a c → Anc t0 c x → v ∈ cliqueList t0 c) →
      Conn (JT.atV cl v (cgTreeEdges t0)) a x := by
  induction h with
  | refl a => intro _; exact Conn.refl _ _
  | @step a b hl hnp h' ih =>
    intro hpath
    have hc : a < t0.snode.size := hct.sz_par ▸ hl.1
    have hva : cl a v = true := (hcl a).2 (hpath a (Anc.refl a) (Anc.step hl hnp h'))
    have hvp : cl (t0.snodeParent.getD a 0) v = true :=
      (hcl _).2 (hpath _ (Anc.step hl hnp (Anc.refl _)) h')
    have hedge := cgj_conn_of_norm (cgj_norm_mem_at (cgj_mem_treeEdges hc hnp) hva hvp)
    exact hedge.trans (ih (fun c h1 h2 => hpath c (Anc.step hl hnp h1) h2))

/-- [S] **THE SUPERNODE TREE HAS THE RUNNING-INTERSECTION PROPERTY** for every family `cl` that
agrees with the whole cliques (supernode ∪ separator) of a clique tree all of whose cliques are
live -/
theorem cgj_tree_rip {t0 : SuperNodeTree} {ord : Nat → Nat} (hct : CTInv t0 ord)
    (hall : ∀ c, c < t0.snode.size → Live t0 c)
    {cl : Nat → Nat → Bool} (hcl : ∀ c v, cl c v = true ↔ v ∈ cliqueList t0 c)
    {Lv : List Nat} (hLv : ∀ c ∈ Lv, c < t0.snode.size) :
    JT.RIP cl Lv (cgTreeEdges t0) := by
  intro v a ha b hb hav hbv
  have hla := hall a (hLv a ha)
  have hlb := hall b (hLv b hb)
  obtain ⟨x, _, _, hax, hbx, hpa, hpb⟩ :=
    hct.running_intersection hla ((hcl a v).1 hav) hlb ((hcl b v).1 hbv)
  have h1 := cgj_anc_conn hct (fun c => hcl c v) hax hpa
  have h2 := cgj_anc_conn hct (fun c => hcl c v) hbx hpb
  exact h1.trans h2.symm

/-! ## the supernode tree is acyclic -/

/-- [S] removing one element of `0..N` leaves `N - 1` elements -/
theorem cgj_length_filter_ne (N r : Nat) (hr : r < N) :
    ((List.range N).filter (fun c => c != r)).length = N - 1 := by
  rw [← List.Nodup.erase_eq_filter List.nodup_range r,
    List.length_erase_of_mem (List.mem_range.2 hr), List.length_range]

/-- [S] **THE SUPERNODE TREE IS ACYCLIC** (a clique tree with a single root `r`, all cliques live):
one connectivity class and `N - 1` edges on `N` cliques; moreover its edges join valid cliques -/
theorem cgj_tree_forest {t0 : SuperNodeTree} {ord : Nat → Nat} (hct : CTInv t0 ord)
    (hall : ∀ c, c < t0.snode.size → Live t0 c) {r : Nat} (hr : r < t0.snode.size)
    (hroot : t0.snodeParent.getD r 0 = noParent)
    (huniq : ∀ c, Live t0 c → t0.snodeParent.getD c 0 = noParent → c = r) :
    ForestFrom [] (cgTreeEdges t0) ∧
      (∀ e ∈ cgTreeEdges t0, e.1 ∈ List.range t0.snode.size ∧ e.2 ∈ List.range t0.snode.size) ∧
      (cgTreeEdges t0).length + 1 = t0.snode.size := by
  have hin : ∀ e ∈ cgTreeEdges t0,
      e.1 ∈ List.range t0.snode.size ∧ e.2 ∈ List.range t0.snode.size := by
    intro e he
    obtain ⟨c, hc, hnp, rfl⟩ := cgj_of_mem_treeEdges he
    have hp : t0.snodeParent.getD c 0 < t0.snode.size :=
      hct.sz_par ▸ (hct.par_live c (hall c hc) hnp).1
    unfold JT.norm
    simp only [List.mem_range]
    exact ⟨Nat.max_lt.2 ⟨hc, hp⟩, Nat.lt_of_le_of_lt (Nat.min_le_left _ _) hc⟩
  have hlen : (cgTreeEdges t0).length = t0.snode.size - 1 := by
    unfold cgTreeEdges
    rw [List.length_map, ← cgj_length_filter_ne t0.snode.size r hr]
    congr 1
    apply List.filter_congr
    intro c hc
    have hc' := List.mem_range.1 hc
    by_cases hcr : c = r
    · rw [hcr, hroot, bne_self_eq_false, bne_self_eq_false]
    · have h1 : t0.snodeParent.getD c 0 ≠ noParent := fun h => hcr (huniq c (hall c hc') h)
      rw [bne_iff_ne.2 h1, bne_iff_ne.2 hcr]
  have hreps : Reps (cgTreeEdges t0) (List.range t0.snode.size) [r] := by
    refine ⟨by simp, ?_, ?_, ?_⟩
    · intro x hx
      rw [List.mem_singleton] at hx
      rw [hx]; exact List.mem_range.2 hr
    · intro v hv
      have hv' := List.mem_range.1 hv
      refine ⟨r, by simp, ?_⟩
      refine cgi_conn_root hct huniq ?_ v (hall v hv')
      intro c hl hnp
      exact cgj_conn_of_norm (cgj_mem_treeEdges (hct.sz_par ▸ hl.1) hnp)
    · intro a ha b hb _
      rw [List.mem_singleton] at ha hb
      rw [ha, hb]
  refine ⟨(forest_iff_count List.nodup_range hin hreps).2 ?_, hin, by omega⟩
  rw [hlen, List.length_range, List.length_singleton]
  omega

/-! ## `initialise` -/

/-- [S] THE RUN OF `initialise`, WITH THE TREE EDGES AS MEMBERS OF THE EDGE LIST (the skeleton of
`initialise_spec`, exporting the stored tree edges as list membership instead of connectivity): on
the tree `t0` of `SuperNodeTree::new` (filled pattern) `initialise` does not panic, the clique sets
of the result are the whole cliques of `t0`, all of them are live, and for every non-root clique `c`
with parent `p` the pair `(max c p, min c p)` is a stored entry of the edge matrix -/
theorem cgj_initialise_run (hT : NewFromTripletsSpec) (hR : ReducedOkSpec)
    (hRT : ReducedTreeEdgeSpec) {L : LPat} {t0 : SuperNodeTree} (hok : SnTreeOk L t0) :
    ∃ s1 t1, CGStrategy.new.initialise t0 = .ok (s1, t1) ∧
      t1.snode.size = t0.snode.size ∧
      (∀ c v, v ∈ (t1.snode.getD c #[]).toList ↔ v ∈ cliqueList t0 c) ∧
      (∀ c, CGLive t1 c ↔ c < t0.snode.size) ∧
      (∀ c, Live t0 c → t0.snodeParent.getD c 0 ≠ noParent →
        JT.norm (c, t0.snodeParent.getD c 0) ∈ s1.edges.edges) := by
  have hct := hok.ct
  have hpc := hct.toPCInv
  have hncl := hok.ncl
  have hlive : ∀ c, c < t0.snode.size → Live t0 c := hok.all_live
  obtain ⟨sn1, par1, ch1, hl1, hl2, hsz1, hget1, hcl, hpar1, hch1⟩ := cgi_loops_ok hpc
  -- the new clique sets: non-empty, without repetition
  have hne1 : ∀ c, c < t0.snode.size → sn1.getD c #[] ≠ #[] := by
    intro c hc he
    have hso := hok.cover.snode_of _ (snp_getD_mem_toList t0.snode #[] hc)
    have hm : minOf (t0.snode.getD c #[]) ∈ (sn1.getD c #[]).toList := by
      rw [hcl]; exact List.mem_append_left _ hso.rep_mem
    rw [he] at hm
    simp at hm
  have hnd1 : ∀ c, (sn1.getD c #[]).toList.Nodup := by
    intro c
    by_cases hc : c < t0.snode.size
    · rw [hget1 c hc]
      exact VSet.nodup_extend _ _ (hct.sn_nodup c (hlive c hc))
    · rw [cgi_getD_oob sn1 c #[] (by omega)]; simp
  -- the reduced clique graph, its weights, the edge matrix, the adjacency table
  obtain ⟨seps', rows, cols, hred, hperm, hrc, hrows⟩ := hR t0.separators sn1
  rw [hsz1] at hrows
  obtain ⟨w, hw, hwsz, hwget⟩ := computeWeights_ok rows cols sn1 hrc
    (fun k hk => by rw [hsz1]; exact (hrows k hk).2)
    (fun k hk => by rw [hsz1]; have := hrows k hk; omega)
  obtain ⟨E, hnew, hEm, hEn, hgood, hpos, hval⟩ := hT t0.snode.size rows cols w hrc (by omega) hrows
  obtain ⟨tb, hadj, hkeys, hmem, hnodup⟩ := computeAdjacencyTable_ok hgood hEn
  rw [← hncl] at hnew hadj
  refine ⟨{ stop := false, edges := E, p := Array.replicate E.nzval.size 0, adjacencyTable := tb },
    { t0 with snode := sn1, snodeParent := par1, snodeChildren := ch1, separators := seps' },
    ?_, hsz1, hcl, ?_, ?_⟩
  · rw [initialise_eq_forIn]
    simp only [hl1, hl2, hred, hw, hnew, hadj, bind, Except.bind, pure, Except.pure]
  · intro c
    unfold CGLive
    show (c < sn1.size ∧ sn1.getD c #[] ≠ #[]) ↔ _
    rw [hsz1]
    exact ⟨fun h => h.1, fun h => ⟨h, hne1 c h⟩⟩
  · -- the tree edges are stored entries
    intro c hl hnp
    show JT.norm (c, t0.snodeParent.getD c 0) ∈ E.edges
    have hc : c < t0.snode.size := hpc.sz_par ▸ hl.1
    obtain ⟨k, hk, hk1, hk2⟩ := cgi_tree_edge hRT hct hlive hsz1 hcl
      (fun i _ => hnd1 i) hred hc hnp
    have hs : (E.entry (max c (t0.snodeParent.getD c 0)) (min c (t0.snodeParent.getD c 0))).isSome
        = true := (hpos _ _).mpr ⟨k, hk, hk1, hk2⟩
    exact cgi_mem_edges hgood (by rw [hEn]; omega) hs

/-- [S] **AFTER `initialise` THE EDGE MATRIX CONTAINS A JUNCTION TREE**: on the tree `t0` of
`SuperNodeTree::new` (filled pattern, ≥ 2 cliques) `initialise` does not panic and the supernode
tree of `t0` — the pairs `(max c p, min c p)` for every non-root clique `c` with parent `p` — is an
acyclic list of stored entries of the edge matrix with the running-intersection property for the
clique sets after `initialise` -/
theorem initialise_hasJT (hT : NewFromTripletsSpec) (hR : ReducedOkSpec) (hRT : ReducedTreeEdgeSpec)
    {L : LPat} {t0 : SuperNodeTree} (hf : L.Filled) (hok : SnTreeOk L t0) (h2 : 2 ≤ t0.snode.size) :
    ∃ s1 t1, CGStrategy.new.initialise t0 = .ok (s1, t1) ∧ CGHasJT s1 t1 (cgTreeEdges t0) := by
  have _ := hf
  obtain ⟨s1, t1, hrun, _, hcl, hcglive, hmemE⟩ := cgj_initialise_run hT hR hRT hok
  have hct := hok.ct
  have hinit := hok.pcinit h2
  have hr : t0.snodePost.getD (t0.snode.size - 1) 0 < t0.snode.size :=
    hinit.post_getD_lt (by omega)
  obtain ⟨hforest, _, _⟩ := cgj_tree_forest hct hok.all_live hr hok.root_last hinit.root_unique
  refine ⟨s1, t1, hrun, hforest, ?_, ?_⟩
  · intro e he
    obtain ⟨c, hc, hnp, rfl⟩ := cgj_of_mem_treeEdges he
    exact hmemE c (hok.all_live c hc) hnp
  · refine cgj_tree_rip hct hok.all_live (fun c v => ?_) (fun c hc => ?_)
    · rw [cgCl_iff, hcl]
    · exact (hcglive c).1 ((mem_cgLiveList t1 c).1 hc)

/-- [S] the junction tree of `initialise_hasJT` joins live cliques and has one edge less than there
are cliques (the data `JT.ContractSpec` and the weight comparison of `ChordalJunctionTree.lean` ask
for) -/
theorem initialise_hasJT_live (hT : NewFromTripletsSpec) (hR : ReducedOkSpec)
    (hRT : ReducedTreeEdgeSpec) {L : LPat} {t0 : SuperNodeTree} (hf : L.Filled)
    (hok : SnTreeOk L t0) (h2 : 2 ≤ t0.snode.size) :
    ∃ s1 t1, CGStrategy.new.initialise t0 = .ok (s1, t1) ∧ CGHasJT s1 t1 (cgTreeEdges t0) ∧
      cgLiveList t1 = List.range t0.snode.size ∧
      (∀ e ∈ cgTreeEdges t0, e.1 ∈ cgLiveList t1 ∧ e.2 ∈ cgLiveList t1) ∧
      (cgTreeEdges t0).length + 1 = (cgLiveList t1).length := by
  obtain ⟨s1, t1, hrun, hJT⟩ := initialise_hasJT hT hR hRT hf hok h2
  obtain ⟨s1', t1', hrun', hsz, _, hcglive, _⟩ := cgj_initialise_run hT hR hRT hok
  have heq := Except.ok.inj (hrun.symm.trans hrun')
  have ht : t1' = t1 := (Prod.mk.inj heq).2.symm
  subst ht
  have hinit := hok.pcinit h2
  have hr : t0.snodePost.getD (t0.snode.size - 1) 0 < t0.snode.size :=
    hinit.post_getD_lt (by omega)
  obtain ⟨_, hin, hlen⟩ := cgj_tree_forest hok.ct hok.all_live hr hok.root_last hinit.root_unique
  have hlist : cgLiveList t1' = List.range t0.snode.size := by
    unfold cgLiveList
    rw [hsz, List.filter_eq_self.mpr]
    intro c hc
    rw [decide_eq_true_eq]
    exact (hcglive c).2 (List.mem_range.1 hc)
  refine ⟨s1, t1', hrun, hJT, hlist, ?_, ?_⟩
  · rw [hlist]; exact hin
  · rw [hlist, List.length_range]; exact hlen

/-! ## non-vacuity -/

/-- [S] the tree of `SuperNodeTree::new exFilledL` has at least two cliques (the vertices `0` and
`3` are not adjacent); copy of `exFilledL_two_cliques` of `ChordalCGFinal.lean`, which is not
imported here -/
theorem cgj_exFilledL_two_cliques : ∃ t0, SuperNodeTree.new exFilledL = .ok t0 ∧
    SnTreeOk exFilledL t0 ∧ 2 ≤ t0.snode.size := by
  obtain ⟨t0, hnew, hok⟩ := sntree_new_ok exFilledL_filled
  refine ⟨t0, hnew, hok, ?_⟩
  have hpart := hok.cover.partition
  have hpos := hok.pos
  by_contra hlt
  have h1 : t0.snode.size = 1 := by omega
  have hlen : t0.snode.toList.length = 1 := by simpa using h1
  obtain ⟨a, ha⟩ : ∃ a, t0.snode.toList = [a] := by
    match hm : t0.snode.toList, hlen with
    | [a], _ => exact ⟨a, rfl⟩
  have hget : t0.snode.getD 0 #[] = a := by
    have h0 : t0.snode[0]? = some a := by
      rw [← Array.getElem?_toList, ha]; rfl
    simp [Array.getD_eq_getD_getElem?, h0]
  rw [ha] at hpart
  simp only [List.flatMap_cons, List.flatMap_nil, List.append_nil] at hpart
  have m0 : 0 ∈ (t0.snode.getD 0 #[]).toList := by rw [hget]; exact hpart.mem_iff.2 (by decide)
  have m3 : 3 ∈ (t0.snode.getD 0 #[]).toList := by rw [hget]; exact hpart.mem_iff.2 (by decide)
  have := hok.cover.clique exFilledL_filled 0 (by omega) 0 3 (Or.inl m0) (Or.inl m3) (by decide)
  revert this
  decide

/-- non-vacuity of `initialise_hasJT`: the hypotheses `L.Filled`, `SnTreeOk L t0`,
`2 ≤ t0.snode.size` hold for the tree of `SuperNodeTree::new exFilledL`; the three building-block
specifications are theorems of `ChordalCGFinal.lean` (`newFromTriplets_spec`, `reduced_ok`,
`reduced_tree_edge`) -/
example (hT : NewFromTripletsSpec) (hR : ReducedOkSpec) (hRT : ReducedTreeEdgeSpec) :
    ∃ t0 s1 t1 J, SuperNodeTree.new exFilledL = .ok t0 ∧
      CGStrategy.new.initialise t0 = .ok (s1, t1) ∧ CGHasJT s1 t1 J ∧ J.length + 1 = t0.snode.size := by
  obtain ⟨t0, hnew, hok, h2⟩ := cgj_exFilledL_two_cliques
  obtain ⟨s1, t1, hrun, hJT, hlist, _, hlen⟩ :=
    initialise_hasJT_live hT hR hRT exFilledL_filled hok h2
  refine ⟨t0, s1, t1, cgTreeEdges t0, hnew, hrun, hJT, ?_⟩
  rw [hlen, hlist, List.length_range]

end Clarabel.Chordal
