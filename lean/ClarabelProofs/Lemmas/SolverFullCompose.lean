/-
  Round 4 (composition) — the END-TO-END theorems on the whole-solver model, lemma form.

  Pieces composed (each tied to the code by its own correspondence channel):
  * `solverNew_anatomy` / `SizedSt` (this round; the size part of C04's state invariant);
  * `solve_traj_inv` (`Lemmas/SolverFullTraj.lean`): every recorded iterate of a `solve()` satisfies an
    invariant `G` preserved by accepted steps, and is the `topNumerics` image of a sized state;
  * C03's `figures_of_returned_iterate`, `solve_full_verdict` (whose record is reported / judged);
  * C01/C02/C03's chain on the user's data (`chain_figures`, `solved_chain`, `chain_facts`), with
    `UserData` DERIVED from the user's input (`userData_of_new`);
  * the invariant `G` is a parameter here: `Props/C0xFull*.lean` instantiate it with C07's interior
    (`Lemmas/StepKBridge.lean`) and the zero-cone rows (`Lemmas/SolverFullZero.lean`).

  Hypotheses: `FullInput` (about the user's input and settings only), `Solver.new … = .ok S`,
  `S.solve st = .ok r` (both guaranteed by `C04.full_no_panic` under its side conditions) and the
  reported status.
-/
import ClarabelProofs.Lemmas.SolverFullTraj
import ClarabelProofs.Lemmas.SolverFullUser
import ClarabelProofs.Lemmas.SolverReport
import ClarabelProofs.Lemmas.InfoReport
import ClarabelProofs.Lemmas.InfoConesAll
import ClarabelProofs.Lemmas.InfoCertChain
import ClarabelProofs.Lemmas.SolverFullAlmost
import ClarabelProofs.Lemmas.InfoRollback

namespace Clarabel.Solver
open Clarabel Info Residuals Clarabel.InfoUser Clarabel.InfoReport Clarabel.Dense

set_option linter.unusedSectionVars false
set_option linter.unusedVariables false


/-- the hypotheses on the USER's input and settings shared by the full theorems -/
structure FullInput (P : Csc ℝ) (q : Array ℝ) (A : Csc ℝ) (b : Array ℝ) (cones : List (ConeT ℝ))
    (st : Settings ℝ) : Prop where
  input : InputOK P q A b cones
  /-- presolve is off, or it is on and drops no row (`keep` = the keep vector of
  `make_reduction_map` on the collapsed cone list; all flags `true`) -/
  presolve : st.presolveEnable = false ∨ ∃ keep,
    Presolve.keepFlags (Presolve.threshold st.infbound) (Cones.newCollapsed cones) b.toList = .ok keep
      ∧ keep.count true = b.size
  lo : 0 < st.equil.minScaling
  hi : 0 < st.equil.maxScaling

/-- everything the full theorems know about a `new` + `solve()`: the un-equilibrated data `d0`
hold the user's `A`, `q`, capped `b`, `P.to_triu()`; they satisfy `UserData`; every recorded
iterate satisfies `G` and is an instance of the chain on the user's data -/
theorem full_records {P : Csc ℝ} {q : Array ℝ} {A : Csc ℝ} {b : Array ℝ} {cones : List (ConeT ℝ)}
    {st : Settings ℝ} {perm : Array Nat} {S : Solver ℝ} {r : SolveResult ℝ}
    {G : List Composite.Spec → Vars ℝ → Prop} (hG : StepHyp st G) (hI : InitHyp st G)
    (hF : FullInput P q A b cones st)
    (hnew : Solver.new P q A b cones st perm = .ok S) (hr : S.solve st = .ok r) :
    ∃ d0, NewAnatomy P q A b cones st S d0 ∧ UserData d0 d0.cones st.equil
      ∧ (d0.A = A ∧ d0.q = q ∧ d0.b = ProblemData.capB b st.infbound
          ∧ d0.cones = Cones.newCollapsed cones ∧ d0.n = A.n ∧ d0.m = A.m
          ∧ ProblemData.triuStep P = .ok d0.P)
      ∧ presolveMap S.st.data = none
      ∧ ∀ p ∈ r.traj, G (layout S.st) p.vars ∧
          ∃ (r0 res : Resid ℝ) (i : InfoS ℝ), StateShapes d0.n d0.m p.vars r0
            ∧ Residuals.update r0 p.vars (toResidData S.st.data) = .ok res
            ∧ Info.update i (toInfoEquil S.st.data.equilibration) (Vec.normInf q) (Vec.normInf d0.b)
                p.vars res = .ok p.info
            ∧ p.dotBz = res.dot_bz ∧ p.dotQx = res.dot_qx := by
  obtain ⟨d0, hA⟩ := solverNew_anatomy hnew
  have hp : ProblemData.new P q A b cones false false st.infbound = .ok d0 := by
    have h0 := hA.pdata
    cases hpe : st.presolveEnable with
    | false => rwa [hpe] at h0
    | true =>
      rw [hpe] at h0
      rcases hF.presolve with h | ⟨keep, hk, hc⟩
      · rw [hpe] at h; cases h
      · exact (Presolve.problemdata_new_nothing_dropped P q A b cones st.infbound keep d0 hk hc h0).2
  obtain ⟨o1, o2, o3, o4, o5, o6, o7, o8⟩ := problemDataNew_off hp
  obtain ⟨hu, -⟩ := userData_of_new hF.input st.equil hF.lo hF.hi hA.pdata
  obtain ⟨hrec, -, -, -⟩ := solve_traj_inv hG hI (SizedSt.of_anatomy hA) hr
  have hpm : presolveMap S.st.data = none := by
    unfold presolveMap
    rw [equilibrate_presolver hA.equil, o7]
  refine ⟨d0, hA, hu, ⟨o1, o2, o3, o4, o5, o6, o8⟩, hpm, fun p hp => ?_⟩
  obtain ⟨g, hs⟩ := hrec p hp
  exact ⟨g, srec_chain hA hs⟩


/-- **`C03.full_report_on_user_data`** (lemma form, generic in the invariant `G` that supplies
`τ > 0`) -/
theorem full_report_chain {P : Csc ℝ} {q : Array ℝ} {A : Csc ℝ} {b : Array ℝ} {cones : List (ConeT ℝ)}
    {st : Settings ℝ} {perm : Array Nat} {S : Solver ℝ} {r : SolveResult ℝ}
    {G : List Composite.Spec → Vars ℝ → Prop} (hG : StepHyp st G) (hI : InitHyp st G)
    (hpos : ∀ l v, G l v → 0 < v.τ)
    (hF : FullInput P q A b cones st)
    (hnew : Solver.new P q A b cones st perm = .ok S) (hr : S.solve st = .ok r)
    (hst : r.S.solution.status.isInfeasible = false) :
    ∃ Pn, ProblemData.triuStep P = .ok Pn ∧
      let bc := ProblemData.capB b st.infbound
      let p := problemOf Pn q A bc A.n A.m
      let x := vecFn r.S.solution.x A.n
      let sv := vecFn r.S.solution.s A.m
      let z := vecFn r.S.solution.z A.m
      let pobj := dot x (mulV p.P x) / 2 + dot p.q x
      let dobj := -dot p.b z - dot x (mulV p.P x) / 2
      r.S.solution.obj_val = some pobj
      ∧ r.S.solution.obj_val_dual = some dobj
      ∧ r.S.solution.r_prim
          = some (nrm (fun k => mulV p.A x k + sv k - p.b k) / max 1 (Vec.normInf bc + nrm x + nrm sv))
      ∧ r.S.solution.r_dual
          = some (nrm (fun j => mulV p.P x j + mulVT p.A z j + p.q j) / max 1 (Vec.normInf q + nrm x + nrm z))
      ∧ r.S.st.info.gap_abs = |pobj - dobj|
      ∧ r.S.st.info.gap_rel = |pobj - dobj| / max 1 (min |pobj| |dobj|)
      ∧ r.S.solution.x.size = A.n ∧ r.S.solution.s.size = A.m ∧ r.S.solution.z.size = A.m := by
  obtain ⟨d0, hA, hu, ⟨o1, o2, o3, o4, o5, o6, o8⟩, hpm, hrec⟩ := full_records hG hI hF hnew hr
  obtain ⟨p, hmem, -, hfig, hvars, ov, od, rp, rd, est, -, -⟩ := figures_of_returned_iterate hr
  have hinf : r.S.st.info.status.isInfeasible = false := by rw [← est]; exact hst
  rw [hinf] at hvars ov od
  simp only [Bool.false_eq_true, ↓reduceIte] at ov od
  obtain ⟨sx, ss, sz⟩ := solve_solution_vectors hr hpm
  obtain ⟨g, r0, res, i, hsh, hres, hi, -, -⟩ := hrec p hmem
  have hτ := hpos _ _ g
  obtain ⟨k1, k2, k3, k4, k5, k6, s1, s2, s3⟩ :=
    chain_figures d0 S.st.data d0.cones st.equil hu hA.equil p.vars r0 res hsh hτ hres i p.info
      (Vec.normInf q) (Vec.normInf d0.b) hi (vecFn r.S.solution.x d0.n) (vecFn r.S.solution.s d0.m)
      (vecFn r.S.solution.z d0.m) (by rw [sx, hvars]; rfl) (by rw [ss, hvars]; rfl)
      (by rw [sz, hvars]; rfl)
  have e1 : r.S.solution.x.size = d0.n := by rw [sx, hvars]; exact s1
  have e2 : r.S.solution.s.size = d0.m := by rw [ss, hvars]; exact s2
  have e3 : r.S.solution.z.size = d0.m := by rw [sz, hvars]; exact s3
  obtain ⟨dP, dq, dA, db, dcones, dn, dm, deq, dnq, dnb, dpre⟩ := d0
  dsimp only at o1 o2 o3 o4 o5 o6 o8 k1 k2 k3 k4 k5 k6 e1 e2 e3
  subst o1 o2 o3 o5 o6
  refine ⟨dP, o8, ?_⟩
  dsimp only
  refine ⟨?_, ?_, ?_, ?_, ?_, ?_, e1, e2, e3⟩
  · rw [ov, k1]
  · rw [od, k2]
  · rw [rp, k3]
  · rw [rd, k4]
  · rw [hfig.ga, k5, k1, k2]
  · rw [hfig.gr, k6, k5, k1, k2]


/-- cone lists `make_cone` accepts (zero / nonnegative / second-order) have admissible parameters -/
theorem validCones_of_makeCones : ∀ {ts : List (ConeT ℝ)} {K : List (ConeSt ℝ)},
    makeCones ts = .ok K → Equil.ValidCones ts := by
  intro ts
  induction ts with
  | nil => intro K _ c hc; cases hc
  | cons t ts ih =>
    intro K h c hc
    unfold makeCones at h
    rw [List.mapM_cons] at h
    obtain ⟨k, hk, h⟩ := bind_ok_inv h
    obtain ⟨ks, hks, h⟩ := bind_ok_inv h
    rcases List.mem_cons.mp hc with rfl | hc
    · cases c <;> trivial
    · exact ih hks c hc

/-- **`C01.full_solved_certifies`** (lemma form, generic in the invariant `G` that supplies
`τ > 0` and the cone membership of the internal iterate) -/
theorem full_solved_chain {P : Csc ℝ} {q : Array ℝ} {A : Csc ℝ} {b : Array ℝ} {cones : List (ConeT ℝ)}
    {st : Settings ℝ} {perm : Array Nat} {S : Solver ℝ} {r : SolveResult ℝ}
    {G : List Composite.Spec → Vars ℝ → Prop} (hG : StepHyp st G) (hI : InitHyp st G)
    (hpos : ∀ l v, G l v → 0 < v.τ)
    (hmem : ∀ (ts : List (ConeT ℝ)) (K : List (ConeSt ℝ)) (v : Vars ℝ), makeCones ts = .ok K →
      G (K.map ConeSt.compSpec) v → Equil.CompositeMem Equil.ConeMem ts v.s.toList
        ∧ Equil.CompositeMem Equil.ConeMemDual ts v.z.toList)
    (hF : FullInput P q A b cones st)
    (hnew : Solver.new P q A b cones st perm = .ok S) (hr : S.solve st = .ok r)
    (hst : r.S.solution.status = .solved) :
    ∃ Pn, ProblemData.triuStep P = .ok Pn ∧
      let bc := ProblemData.capB b st.infbound
      let p := problemOf Pn q A bc A.n A.m
      let x := vecFn r.S.solution.x A.n
      let sv := vecFn r.S.solution.s A.m
      let z := vecFn r.S.solution.z A.m
      let pobj := dot x (mulV p.P x) / 2 + dot p.q x
      let dobj := -dot p.b z - dot x (mulV p.P x) / 2
      nrm (fun k => mulV p.A x k + sv k - p.b k) / max 1 (Vec.normInf bc + nrm x + nrm sv) < st.info.full.feas
      ∧ nrm (fun j => mulV p.P x j + mulVT p.A z j + p.q j) / max 1 (Vec.normInf q + nrm x + nrm z)
          < st.info.full.feas
      ∧ (|pobj - dobj| < st.info.full.gap_abs
          ∨ |pobj - dobj| / max 1 (min |pobj| |dobj|) < st.info.full.gap_rel)
      ∧ Equil.CompositeMem Equil.ConeMem (Cones.newCollapsed cones) r.S.solution.s.toList
      ∧ Equil.CompositeMem Equil.ConeMemDual (Cones.newCollapsed cones) r.S.solution.z.toList
      ∧ r.S.solution.x.size = A.n ∧ r.S.solution.s.size = A.m ∧ r.S.solution.z.size = A.m := by
  obtain ⟨d0, hA, hu, ⟨o1, o2, o3, o4, o5, o6, o8⟩, hpm, hrec⟩ := full_records hG hI hF hnew hr
  obtain ⟨l, -, hlmem, hun, hcc, -, -, hvars, -⟩ := solve_full_verdict hr (Or.inl rfl) hst
  have hvars' : r.S.st.variables = Unscale.unscale l.vars (toInfoEquil S.st.data.equilibration) false := hvars
  obtain ⟨sx, ss, sz⟩ := solve_solution_vectors hr hpm
  obtain ⟨g, r0, res, i, hsh, hres, hi, hbz, hqx⟩ := hrec l hlmem
  have hτ := hpos _ _ g
  rw [hbz, hqx] at hcc
  obtain ⟨t1, t2, t3, s1, s2, s3⟩ :=
    solved_chain d0 S.st.data d0.cones st.equil hu hA.equil l.vars r0 res hsh hτ hres i l.info
      (Vec.normInf q) (Vec.normInf d0.b) hi st.info (by rw [hun]; decide) hcc
  obtain ⟨m1, m2⟩ := hmem d0.cones S.st.cones l.vars hA.cones g
  obtain ⟨c1, c2⟩ := InfoCone.unscaled_point_in_cones d0 S.st.data d0.cones st.equil hF.lo hF.hi hu.fresh
    (validCones_of_makeCones hA.cones) hA.equil l.vars hsh.s hsh.z false (by simpa using hτ) m1 m2
  have ex : (Unscale.unscale l.vars (toInfoEquil S.st.data.equilibration) false).x = r.S.solution.x := by
    rw [sx, hvars']
  have es : (Unscale.unscale l.vars (toInfoEquil S.st.data.equilibration) false).s = r.S.solution.s := by
    rw [ss, hvars']
  have ez : (Unscale.unscale l.vars (toInfoEquil S.st.data.equilibration) false).z = r.S.solution.z := by
    rw [sz, hvars']
  rw [ex, es] at t1
  rw [ex, ez] at t2
  rw [ex, ez] at t3
  rw [ex] at s1
  rw [es] at s2 c1
  rw [ez] at s3 c2
  obtain ⟨dP, dq, dA, db, dcones, dn, dm, deq, dnq, dnb, dpre⟩ := d0
  dsimp only at o1 o2 o3 o4 o5 o6 o8 t1 t2 t3 s1 s2 s3 c1 c2
  subst o1 o2 o3 o4 o5 o6
  exact ⟨dP, o8, t1, t2, t3, c1, c2, s1, s2, s3⟩

/-- **`C02.full_primal_infeasible_certifies`** (lemma form): status `PrimalInfeasible` of the
whole-solver model certifies primal infeasibility of the USER's problem -/
theorem full_primal_infeasible_chain {P : Csc ℝ} {q : Array ℝ} {A : Csc ℝ} {b : Array ℝ}
    {cones : List (ConeT ℝ)} {st : Settings ℝ} {perm : Array Nat} {S : Solver ℝ} {r : SolveResult ℝ}
    {G : List Composite.Spec → Vars ℝ → Prop} (hG : StepHyp st G) (hI : InitHyp st G)
    (hpos : ∀ l v, G l v → 0 < v.κ)
    (hmem : ∀ (ts : List (ConeT ℝ)) (K : List (ConeSt ℝ)) (v : Vars ℝ), makeCones ts = .ok K →
      G (K.map ConeSt.compSpec) v → Equil.CompositeMem Equil.ConeMem ts v.s.toList
        ∧ Equil.CompositeMem Equil.ConeMemDual ts v.z.toList)
    (hF : FullInput P q A b cones st) (htabs : 0 ≤ st.info.full.infeas_abs)
    (hnew : Solver.new P q A b cones st perm = .ok S) (hr : S.solve st = .ok r)
    (hst : r.S.solution.status = .primalInfeasible) :
    ∃ (c κ : ℝ), 0 < c ∧ 0 < κ ∧
      let bc := ProblemData.capB b st.infbound
      let z := vecFn r.S.solution.z A.m
      c * κ * dot (vecFn bc A.m) z < -st.info.full.infeas_abs
      ∧ dot (vecFn bc A.m) z < 0
      ∧ nrm (mulVT (matFn A A.m A.n) z)
          < st.info.full.infeas_rel * c * (-(dot (vecFn bc A.m) z)) * max 1 (κ * nrm z)
      ∧ Equil.CompositeMem Equil.ConeMemDual (Cones.newCollapsed cones) r.S.solution.z.toList
      ∧ r.S.solution.z.size = A.m := by
  obtain ⟨d0, hA, hu, ⟨o1, o2, o3, o4, o5, o6, o8⟩, hpm, hrec⟩ := full_records hG hI hF hnew hr
  obtain ⟨l, -, hlmem, hun, hcc, -, -, hvars, -⟩ := solve_full_verdict hr (Or.inr (Or.inl rfl)) hst
  have hvars' : r.S.st.variables = Unscale.unscale l.vars (toInfoEquil S.st.data.equilibration) true := hvars
  obtain ⟨sx, ss, sz⟩ := solve_solution_vectors hr hpm
  obtain ⟨g, r0, res, i, hsh, hres, hi, hbz, hqx⟩ := hrec l hlmem
  have hκ := hpos _ _ g
  rw [hbz, hqx] at hcc
  obtain ⟨t1, t2, t3, -, s3⟩ :=
    primal_infeasible_chain false d0 S.st.data d0.cones st.equil hu hA.equil l.vars r0 res hsh hκ hres i
      l.info (Vec.normInf q) (Vec.normInf d0.b) hi st.info htabs (by rw [hun]; decide) hcc
  obtain ⟨-, -, hc⟩ := scaling_pos d0 S.st.data d0.cones st.equil hu hA.equil
  obtain ⟨m1, m2⟩ := hmem d0.cones S.st.cones l.vars hA.cones g
  obtain ⟨-, c2⟩ := InfoCone.unscaled_point_in_cones d0 S.st.data d0.cones st.equil hF.lo hF.hi hu.fresh
    (validCones_of_makeCones hA.cones) hA.equil l.vars hsh.s hsh.z true (by simpa using hκ) m1 m2
  have ez : (Unscale.unscale l.vars (toInfoEquil S.st.data.equilibration) true).z = r.S.solution.z := by
    rw [sz, hvars']
  simp only [Bool.false_eq_true, ↓reduceIte] at t1 t2 t3
  rw [ez] at t1 t2 t3 s3 c2
  obtain ⟨dP, dq, dA, db, dcones, dn, dm, deq, dnq, dnb, dpre⟩ := d0
  dsimp only at o1 o2 o3 o4 o5 o6 o8 t1 t2 t3 s3 c2
  subst o1 o2 o3 o4 o5 o6
  exact ⟨S.st.data.equilibration.c, l.vars.κ, hc, hκ, t1, t2, t3, c2, s3⟩

/-- **`C02.full_dual_infeasible_certifies`** (lemma form): status `DualInfeasible` of the
whole-solver model certifies dual infeasibility of the USER's problem -/
theorem full_dual_infeasible_chain {P : Csc ℝ} {q : Array ℝ} {A : Csc ℝ} {b : Array ℝ}
    {cones : List (ConeT ℝ)} {st : Settings ℝ} {perm : Array Nat} {S : Solver ℝ} {r : SolveResult ℝ}
    {G : List Composite.Spec → Vars ℝ → Prop} (hG : StepHyp st G) (hI : InitHyp st G)
    (hpos : ∀ l v, G l v → 0 < v.κ)
    (hmem : ∀ (ts : List (ConeT ℝ)) (K : List (ConeSt ℝ)) (v : Vars ℝ), makeCones ts = .ok K →
      G (K.map ConeSt.compSpec) v → Equil.CompositeMem Equil.ConeMem ts v.s.toList
        ∧ Equil.CompositeMem Equil.ConeMemDual ts v.z.toList)
    (hF : FullInput P q A b cones st) (htabs : 0 ≤ st.info.full.infeas_abs)
    (hnew : Solver.new P q A b cones st perm = .ok S) (hr : S.solve st = .ok r)
    (hst : r.S.solution.status = .dualInfeasible) :
    ∃ (Pn : Csc ℝ) (c κ : ℝ), ProblemData.triuStep P = .ok Pn ∧ 0 < c ∧ 0 < κ ∧
      let x := vecFn r.S.solution.x A.n
      let sv := vecFn r.S.solution.s A.m
      c * κ * dot (vecFn q A.n) x < -st.info.full.infeas_abs
      ∧ dot (vecFn q A.n) x < 0
      ∧ nrm (mulV (symFn Pn A.n) x)
          < st.info.full.infeas_rel * (-(dot (vecFn q A.n) x)) * max 1 (κ * nrm x)
      ∧ nrm (fun k => mulV (matFn A A.m A.n) x k + sv k)
          < st.info.full.infeas_rel * c * (-(dot (vecFn q A.n) x)) * max 1 (κ * (nrm x + nrm sv))
      ∧ Equil.CompositeMem Equil.ConeMem (Cones.newCollapsed cones) r.S.solution.s.toList
      ∧ r.S.solution.x.size = A.n ∧ r.S.solution.s.size = A.m := by
  obtain ⟨d0, hA, hu, ⟨o1, o2, o3, o4, o5, o6, o8⟩, hpm, hrec⟩ := full_records hG hI hF hnew hr
  obtain ⟨l, -, hlmem, hun, hcc, -, -, hvars, -⟩ := solve_full_verdict hr (Or.inr (Or.inr rfl)) hst
  have hvars' : r.S.st.variables = Unscale.unscale l.vars (toInfoEquil S.st.data.equilibration) true := hvars
  obtain ⟨sx, ss, sz⟩ := solve_solution_vectors hr hpm
  obtain ⟨g, r0, res, i, hsh, hres, hi, hbz, hqx⟩ := hrec l hlmem
  have hκ := hpos _ _ g
  rw [hbz, hqx] at hcc
  obtain ⟨t1, t2, t3, t4, -, s1, s2⟩ :=
    dual_infeasible_chain false d0 S.st.data d0.cones st.equil hu hA.equil l.vars r0 res hsh hκ hres i
      l.info (Vec.normInf q) (Vec.normInf d0.b) hi st.info htabs (by rw [hun]; decide) hcc
  obtain ⟨-, -, hc⟩ := scaling_pos d0 S.st.data d0.cones st.equil hu hA.equil
  obtain ⟨m1, m2⟩ := hmem d0.cones S.st.cones l.vars hA.cones g
  obtain ⟨c1, -⟩ := InfoCone.unscaled_point_in_cones d0 S.st.data d0.cones st.equil hF.lo hF.hi hu.fresh
    (validCones_of_makeCones hA.cones) hA.equil l.vars hsh.s hsh.z true (by simpa using hκ) m1 m2
  have ex : (Unscale.unscale l.vars (toInfoEquil S.st.data.equilibration) true).x = r.S.solution.x := by
    rw [sx, hvars']
  have es : (Unscale.unscale l.vars (toInfoEquil S.st.data.equilibration) true).s = r.S.solution.s := by
    rw [ss, hvars']
  simp only [Bool.false_eq_true, ↓reduceIte] at t1 t2 t3 t4
  rw [ex] at t1 t2 t3 s1
  rw [ex, es] at t4
  rw [es] at s2 c1
  obtain ⟨dP, dq, dA, db, dcones, dn, dm, deq, dnq, dnb, dpre⟩ := d0
  dsimp only at o1 o2 o3 o4 o5 o6 o8 t1 t2 t3 t4 s1 s2 c1
  subst o1 o2 o3 o4 o5 o6
  exact ⟨dP, S.st.data.equilibration.c, l.vars.κ, o8, hc, hκ, t1, t2, t3, t4, c1, s1, s2⟩

/-! ### the `Almost*Infeasible` verdicts of `Info::post_process` -/

/-- `ε·100 ≤ 1` for the machine epsilon of the real-valued model (`2⁻⁵²`) -/
theorem real_eps_gate : (FloatLike.eps : ℝ) * 100 ≤ 1 := by
  rw [Info.cx_eps]
  have h : ((2:ℝ)⁻¹) ^ 52 ≤ (2:ℝ)⁻¹ ^ 7 := pow_le_pow_of_le_one (by norm_num) (by norm_num) (by norm_num)
  have h7 : ((2:ℝ)⁻¹) ^ 7 * 100 ≤ 1 := by norm_num
  nlinarith

/-- with the reduced κ/τ gate at least 1 (`reduced_tol_ktratio ≤ 1000`), an `Almost*Infeasible`
verdict of the whole-solver model is judged on the RETURNED iterate (the rollback path is excluded
by `Info.rollback_never_infeasible`) -/
theorem almost_infeasible_on_returned {S : Solver ℝ} {st : Settings ℝ} {r : SolveResult ℝ}
    (hr : S.solve st = .ok r) {X : SolverStatus}
    (hX : X = .almostPrimalInfeasible ∨ X = .almostDualInfeasible)
    (hgate : 1 ≤ (1 / st.info.reduced.ktratio) * 1000)
    (h : r.S.solution.status = X) :
    ∃ l, l ∈ r.traj ∧ l.info.status = .unsolved
      ∧ (Info.checkConvergenceAlmost l.info l.dotBz l.dotQx st.info).status = X
      ∧ r.S.st.variables = Unscale.unscale l.vars (equilView S.st.data.equilibration) true := by
  obtain ⟨l, -, hmem, hun, hcase⟩ := solve_almost_infeasible_verdict hr hX h
  rcases hcase with ⟨h1, h2⟩ | ⟨k, hip, hpost⟩
  · exact ⟨l, hmem, hun, h1, h2⟩
  · obtain ⟨-, n1, n2, -, -⟩ :=
      Info.rollback_never_infeasible l.info l.dotBz l.dotQx st.info k false hun hip real_eps_gate hgate
    rcases hX with rfl | rfl
    · exact absurd hpost n1
    · exact absurd hpost n2

/-- **`C02.full_almost_primal_infeasible_certifies`** (lemma form) -/
theorem full_almost_primal_infeasible_chain {P : Csc ℝ} {q : Array ℝ} {A : Csc ℝ} {b : Array ℝ}
    {cones : List (ConeT ℝ)} {st : Settings ℝ} {perm : Array Nat} {S : Solver ℝ} {r : SolveResult ℝ}
    {G : List Composite.Spec → Vars ℝ → Prop} (hG : StepHyp st G) (hI : InitHyp st G)
    (hpos : ∀ l v, G l v → 0 < v.κ)
    (hmem : ∀ (ts : List (ConeT ℝ)) (K : List (ConeSt ℝ)) (v : Vars ℝ), makeCones ts = .ok K →
      G (K.map ConeSt.compSpec) v → Equil.CompositeMem Equil.ConeMem ts v.s.toList
        ∧ Equil.CompositeMem Equil.ConeMemDual ts v.z.toList)
    (hF : FullInput P q A b cones st) (htabs : 0 ≤ st.info.reduced.infeas_abs)
    (hgate : 1 ≤ (1 / st.info.reduced.ktratio) * 1000)
    (hnew : Solver.new P q A b cones st perm = .ok S) (hr : S.solve st = .ok r)
    (hst : r.S.solution.status = .almostPrimalInfeasible) :
    ∃ (c κ : ℝ), 0 < c ∧ 0 < κ ∧
      let bc := ProblemData.capB b st.infbound
      let z := vecFn r.S.solution.z A.m
      c * κ * dot (vecFn bc A.m) z < -st.info.reduced.infeas_abs
      ∧ dot (vecFn bc A.m) z < 0
      ∧ nrm (mulVT (matFn A A.m A.n) z)
          < st.info.reduced.infeas_rel * c * (-(dot (vecFn bc A.m) z)) * max 1 (κ * nrm z)
      ∧ Equil.CompositeMem Equil.ConeMemDual (Cones.newCollapsed cones) r.S.solution.z.toList
      ∧ r.S.solution.z.size = A.m := by
  obtain ⟨d0, hA, hu, ⟨o1, o2, o3, o4, o5, o6, o8⟩, hpm, hrec⟩ := full_records hG hI hF hnew hr
  obtain ⟨l, hlmem, hun, hcc, hvars⟩ := almost_infeasible_on_returned hr (Or.inl rfl) hgate hst
  have hvars' : r.S.st.variables = Unscale.unscale l.vars (toInfoEquil S.st.data.equilibration) true := hvars
  obtain ⟨sx, ss, sz⟩ := solve_solution_vectors hr hpm
  obtain ⟨g, r0, res, i, hsh, hres, hi, hbz, hqx⟩ := hrec l hlmem
  have hκ := hpos _ _ g
  rw [hbz, hqx] at hcc
  obtain ⟨t1, t2, t3, -, s3⟩ :=
    primal_infeasible_chain true d0 S.st.data d0.cones st.equil hu hA.equil l.vars r0 res hsh hκ hres i
      l.info (Vec.normInf q) (Vec.normInf d0.b) hi st.info htabs (by rw [hun]; decide) hcc
  obtain ⟨-, -, hc⟩ := scaling_pos d0 S.st.data d0.cones st.equil hu hA.equil
  obtain ⟨m1, m2⟩ := hmem d0.cones S.st.cones l.vars hA.cones g
  obtain ⟨-, c2⟩ := InfoCone.unscaled_point_in_cones d0 S.st.data d0.cones st.equil hF.lo hF.hi hu.fresh
    (validCones_of_makeCones hA.cones) hA.equil l.vars hsh.s hsh.z true (by simpa using hκ) m1 m2
  have ez : (Unscale.unscale l.vars (toInfoEquil S.st.data.equilibration) true).z = r.S.solution.z := by
    rw [sz, hvars']
  simp only [↓reduceIte] at t1 t2 t3
  rw [ez] at t1 t2 t3 s3 c2
  obtain ⟨dP, dq, dA, db, dcones, dn, dm, deq, dnq, dnb, dpre⟩ := d0
  dsimp only at o1 o2 o3 o4 o5 o6 o8 t1 t2 t3 s3 c2
  subst o1 o2 o3 o4 o5 o6
  exact ⟨S.st.data.equilibration.c, l.vars.κ, hc, hκ, t1, t2, t3, c2, s3⟩

/-- **`C02.full_almost_dual_infeasible_certifies`** (lemma form) -/
theorem full_almost_dual_infeasible_chain {P : Csc ℝ} {q : Array ℝ} {A : Csc ℝ} {b : Array ℝ}
    {cones : List (ConeT ℝ)} {st : Settings ℝ} {perm : Array Nat} {S : Solver ℝ} {r : SolveResult ℝ}
    {G : List Composite.Spec → Vars ℝ → Prop} (hG : StepHyp st G) (hI : InitHyp st G)
    (hpos : ∀ l v, G l v → 0 < v.κ)
    (hmem : ∀ (ts : List (ConeT ℝ)) (K : List (ConeSt ℝ)) (v : Vars ℝ), makeCones ts = .ok K →
      G (K.map ConeSt.compSpec) v → Equil.CompositeMem Equil.ConeMem ts v.s.toList
        ∧ Equil.CompositeMem Equil.ConeMemDual ts v.z.toList)
    (hF : FullInput P q A b cones st) (htabs : 0 ≤ st.info.reduced.infeas_abs)
    (hgate : 1 ≤ (1 / st.info.reduced.ktratio) * 1000)
    (hnew : Solver.new P q A b cones st perm = .ok S) (hr : S.solve st = .ok r)
    (hst : r.S.solution.status = .almostDualInfeasible) :
    ∃ (Pn : Csc ℝ) (c κ : ℝ), ProblemData.triuStep P = .ok Pn ∧ 0 < c ∧ 0 < κ ∧
      let x := vecFn r.S.solution.x A.n
      let sv := vecFn r.S.solution.s A.m
      c * κ * dot (vecFn q A.n) x < -st.info.reduced.infeas_abs
      ∧ dot (vecFn q A.n) x < 0
      ∧ nrm (mulV (symFn Pn A.n) x)
          < st.info.reduced.infeas_rel * (-(dot (vecFn q A.n) x)) * max 1 (κ * nrm x)
      ∧ nrm (fun k => mulV (matFn A A.m A.n) x k + sv k)
          < st.info.reduced.infeas_rel * c * (-(dot (vecFn q A.n) x)) * max 1 (κ * (nrm x + nrm sv))
      ∧ Equil.CompositeMem Equil.ConeMem (Cones.newCollapsed cones) r.S.solution.s.toList
      ∧ r.S.solution.x.size = A.n ∧ r.S.solution.s.size = A.m := by
  obtain ⟨d0, hA, hu, ⟨o1, o2, o3, o4, o5, o6, o8⟩, hpm, hrec⟩ := full_records hG hI hF hnew hr
  obtain ⟨l, hlmem, hun, hcc, hvars⟩ := almost_infeasible_on_returned hr (Or.inr rfl) hgate hst
  have hvars' : r.S.st.variables = Unscale.unscale l.vars (toInfoEquil S.st.data.equilibration) true := hvars
  obtain ⟨sx, ss, sz⟩ := solve_solution_vectors hr hpm
  obtain ⟨g, r0, res, i, hsh, hres, hi, hbz, hqx⟩ := hrec l hlmem
  have hκ := hpos _ _ g
  rw [hbz, hqx] at hcc
  obtain ⟨t1, t2, t3, t4, -, s1, s2⟩ :=
    dual_infeasible_chain true d0 S.st.data d0.cones st.equil hu hA.equil l.vars r0 res hsh hκ hres i
      l.info (Vec.normInf q) (Vec.normInf d0.b) hi st.info htabs (by rw [hun]; decide) hcc
  obtain ⟨-, -, hc⟩ := scaling_pos d0 S.st.data d0.cones st.equil hu hA.equil
  obtain ⟨m1, m2⟩ := hmem d0.cones S.st.cones l.vars hA.cones g
  obtain ⟨c1, -⟩ := InfoCone.unscaled_point_in_cones d0 S.st.data d0.cones st.equil hF.lo hF.hi hu.fresh
    (validCones_of_makeCones hA.cones) hA.equil l.vars hsh.s hsh.z true (by simpa using hκ) m1 m2
  have ex : (Unscale.unscale l.vars (toInfoEquil S.st.data.equilibration) true).x = r.S.solution.x := by
    rw [sx, hvars']
  have es : (Unscale.unscale l.vars (toInfoEquil S.st.data.equilibration) true).s = r.S.solution.s := by
    rw [ss, hvars']
  simp only [↓reduceIte] at t1 t2 t3 t4
  rw [ex] at t1 t2 t3 s1
  rw [ex, es] at t4
  rw [es] at s2 c1
  obtain ⟨dP, dq, dA, db, dcones, dn, dm, deq, dnq, dnb, dpre⟩ := d0
  dsimp only at o1 o2 o3 o4 o5 o6 o8 t1 t2 t3 t4 s1 s2 c1
  subst o1 o2 o3 o4 o5 o6
  exact ⟨dP, S.st.data.equilibration.c, l.vars.κ, o8, hc, hκ, t1, t2, t3, t4, c1, s1, s2⟩

/-- **`C01.full_almost_solved_certifies`** (lemma form): status `AlmostSolved` of the whole-solver
model means the REDUCED documented test on the returned point (also after a rollback: the point and
the figures are then those of the restored iterate), and `s ∈ K`, `z ∈ K*` -/
theorem full_almost_solved_chain {P : Csc ℝ} {q : Array ℝ} {A : Csc ℝ} {b : Array ℝ} {cones : List (ConeT ℝ)}
    {st : Settings ℝ} {perm : Array Nat} {S : Solver ℝ} {r : SolveResult ℝ}
    {G : List Composite.Spec → Vars ℝ → Prop} (hG : StepHyp st G) (hI : InitHyp st G)
    (hpos : ∀ l v, G l v → 0 < v.τ)
    (hmem : ∀ (ts : List (ConeT ℝ)) (K : List (ConeSt ℝ)) (v : Vars ℝ), makeCones ts = .ok K →
      G (K.map ConeSt.compSpec) v → Equil.CompositeMem Equil.ConeMem ts v.s.toList
        ∧ Equil.CompositeMem Equil.ConeMemDual ts v.z.toList)
    (hF : FullInput P q A b cones st)
    (hnew : Solver.new P q A b cones st perm = .ok S) (hr : S.solve st = .ok r)
    (hst : r.S.solution.status = .almostSolved) :
    ∃ Pn, ProblemData.triuStep P = .ok Pn ∧
      let bc := ProblemData.capB b st.infbound
      let p := problemOf Pn q A bc A.n A.m
      let x := vecFn r.S.solution.x A.n
      let sv := vecFn r.S.solution.s A.m
      let z := vecFn r.S.solution.z A.m
      let pobj := dot x (mulV p.P x) / 2 + dot p.q x
      let dobj := -dot p.b z - dot x (mulV p.P x) / 2
      nrm (fun k => mulV p.A x k + sv k - p.b k) / max 1 (Vec.normInf bc + nrm x + nrm sv)
          < st.info.reduced.feas
      ∧ nrm (fun j => mulV p.P x j + mulVT p.A z j + p.q j) / max 1 (Vec.normInf q + nrm x + nrm z)
          < st.info.reduced.feas
      ∧ (|pobj - dobj| < st.info.reduced.gap_abs
          ∨ |pobj - dobj| / max 1 (min |pobj| |dobj|) < st.info.reduced.gap_rel)
      ∧ Equil.CompositeMem Equil.ConeMem (Cones.newCollapsed cones) r.S.solution.s.toList
      ∧ Equil.CompositeMem Equil.ConeMemDual (Cones.newCollapsed cones) r.S.solution.z.toList := by
  obtain ⟨d0, hA, hu, ⟨o1, o2, o3, o4, o5, o6, o8⟩, hpm, hrec⟩ := full_records hG hI hF hnew hr
  obtain ⟨l, hlmem, -, hvars, hgap, hrp, hrd⟩ := solve_almost_solved_verdict hr hst
  have hvars' : r.S.st.variables = Unscale.unscale l.vars (toInfoEquil S.st.data.equilibration) false := hvars
  obtain ⟨sx, ss, sz⟩ := solve_solution_vectors hr hpm
  obtain ⟨g, r0, res, i, hsh, hres, hi, -, -⟩ := hrec l hlmem
  have hτ := hpos _ _ g
  obtain ⟨t1, t2, t3⟩ :=
    test_chain d0 S.st.data d0.cones st.equil hu hA.equil l.vars r0 res hsh hτ hres i l.info
      (Vec.normInf q) (Vec.normInf d0.b) hi l.info (SameFigures.rfl' _) st.info.reduced.gap_abs
      st.info.reduced.gap_rel st.info.reduced.feas ⟨hgap, hrp, hrd⟩
  obtain ⟨m1, m2⟩ := hmem d0.cones S.st.cones l.vars hA.cones g
  obtain ⟨c1, c2⟩ := InfoCone.unscaled_point_in_cones d0 S.st.data d0.cones st.equil hF.lo hF.hi hu.fresh
    (validCones_of_makeCones hA.cones) hA.equil l.vars hsh.s hsh.z false (by simpa using hτ) m1 m2
  have ex : (Unscale.unscale l.vars (toInfoEquil S.st.data.equilibration) false).x = r.S.solution.x := by
    rw [sx, hvars']
  have es : (Unscale.unscale l.vars (toInfoEquil S.st.data.equilibration) false).s = r.S.solution.s := by
    rw [ss, hvars']
  have ez : (Unscale.unscale l.vars (toInfoEquil S.st.data.equilibration) false).z = r.S.solution.z := by
    rw [sz, hvars']
  rw [ex, es] at t1
  rw [ex, ez] at t2
  rw [ex, ez] at t3
  rw [es] at c1
  rw [ez] at c2
  obtain ⟨dP, dq, dA, db, dcones, dn, dm, deq, dnq, dnb, dpre⟩ := d0
  dsimp only at o1 o2 o3 o4 o5 o6 o8 t1 t2 t3 c1 c2
  subst o1 o2 o3 o4 o5 o6
  exact ⟨dP, o8, t1, t2, t3, c1, c2⟩

end Clarabel.Solver
