/-
  C13 (round 5): `PSDTriangleCone::update_scaling` as a whole (`PsdTri.updateScaling`), with the
  LAPACK results — failures included — as a parameter: what is returned on each failure path,
  and that no path panics (the C04 fix /repo e0ffbac; `updateScalingOld` is the pre-fix code).
-/
import ClarabelModel.Cones.PsdTriangle

namespace Clarabel.PsdTri
open PsdIndex (triangularNumber)

set_option linter.unusedSectionVars false

variable {α : Type} [Add α] [Mul α] [Sub α] [Div α] [Neg α] [OfNat α 0] [OfNat α 1] [LT α]
  [DecidableLT α] [FloatLike α]

/-- some LAPACK call of `update_scaling` reports failure (the SVD is only reached when both
Cholesky factorizations succeeded) -/
def LapackOut.failed (lap : LapackOut α) : Prop :=
  lap.chol1 = none ∨ lap.chol2 = none ∨ lap.svd = none

/-- the inputs are svec vectors of the cone -/
def SvecSized (K : Cone α) (s z : Array α) : Prop :=
  s.size = triangularNumber K.n ∧ z.size = triangularNumber K.n

theorem sizeGuard_true : sizeGuard true = .ok () := rfl

theorem updateScaling_empty (K : Cone α) (s z : Array α) (lap : LapackOut α) (hs : s.isEmpty = true) :
    updateScaling K s z lap = .ok (true, K) := by
  unfold updateScaling
  simp [hs, pure, Except.pure]

/-- after the early exits: the verdict is decided by the LAPACK results alone -/
theorem updateScaling_nonempty (K : Cone α) (s z : Array α) (lap : LapackOut α)
    (hs : s.isEmpty = false) (hsz : SvecSized K s z) :
    updateScaling K s z lap =
      (match lap.chol1, lap.chol2 with
       | some L1, some L2 =>
         match lap.svd with
         | none => pure (false, K)
         | some (U, Vt, sig) => do
           let (K', _) ← assembleScaling K.n L1 L2 U Vt sig
           pure (true, K')
       | _, _ => pure (false, K)) := by
  unfold updateScaling
  have hg : (s.size == triangularNumber K.n && z.size == triangularNumber K.n) = true := by
    simp [hsz.1, hsz.2]
  simp only [hs, Bool.false_eq_true, ↓reduceIte, hg, sizeGuard_true, bind, Except.bind]
  obtain ⟨c1, c2, sv⟩ := lap
  cases c1 <;> cases c2 <;> cases sv <;> rfl

/-- **failure paths**: if the Cholesky factorization of `S` or of `Z`, or the SVD, is reported as
failed, `update_scaling` returns `false` and the scaling state is the one it started from -/
theorem updateScaling_failed (K : Cone α) (s z : Array α) (lap : LapackOut α)
    (hs : s.isEmpty = false) (hsz : SvecSized K s z) (hf : lap.failed) :
    updateScaling K s z lap = .ok (false, K) := by
  rw [updateScaling_nonempty K s z lap hs hsz]
  obtain ⟨c1, c2, sv⟩ := lap
  rcases hf with h | h | h
  · simp only at h; subst h; rfl
  · simp only at h; subst h; cases c1 <;> rfl
  · simp only at h; subst h; cases c1 <;> cases c2 <;> rfl

/-- **success path**: with all three LAPACK results present the update is the assembly of `λ`,
`Λisqrt`, `R`, `R⁻¹`, `Hs` from them (`assembleScaling`), and the flag is `true` -/
theorem updateScaling_success (K : Cone α) (s z : Array α) (L1 L2 U Vt sig : Array α)
    (hs : s.isEmpty = false) (hsz : SvecSized K s z) :
    updateScaling K s z ⟨some L1, some L2, some (U, Vt, sig)⟩
      = (assembleScaling K.n L1 L2 U Vt sig).map (fun r => (true, r.1)) := by
  rw [updateScaling_nonempty K s z _ hs hsz]
  simp only [bind, Except.bind, pure, Except.pure]
  cases assembleScaling K.n L1 L2 U Vt sig <;> rfl

/-- `assembleScaling` has no panic site -/
theorem assembleScaling_noPanic (n : Nat) (L1 L2 U Vt sig : Array α) (site : String) :
    assembleScaling n L1 L2 U Vt sig ≠ .error (.panic site) := by
  unfold assembleScaling sizeGuard
  split
  · simp [bind, Except.bind, pure, Except.pure]
  · simp [bind, Except.bind, throw, throwThe, MonadExceptOf.throw]

/-- **no panic** on any path, whatever LAPACK reports (since /repo e0ffbac) -/
theorem updateScaling_noPanic (K : Cone α) (s z : Array α) (lap : LapackOut α) (site : String) :
    updateScaling K s z lap ≠ .error (.panic site) := by
  by_cases hs : s.isEmpty = true
  · rw [updateScaling_empty K s z lap hs]; intro h; cases h
  · have hs' : s.isEmpty = false := by simpa using hs
    by_cases hg : (s.size == triangularNumber K.n && z.size == triangularNumber K.n) = true
    · have hsz : SvecSized K s z := by
        simp only [Bool.and_eq_true, beq_iff_eq] at hg; exact hg
      rw [updateScaling_nonempty K s z lap hs' hsz]
      obtain ⟨c1, c2, sv⟩ := lap
      cases c1 with
      | none => intro h; cases h
      | some L1 =>
        cases c2 with
        | none => intro h; cases h
        | some L2 =>
          cases sv with
          | none => intro h; cases h
          | some t =>
            obtain ⟨U, Vt, sig⟩ := t
            simp only [bind, Except.bind, pure, Except.pure]
            have := assembleScaling_noPanic K.n L1 L2 U Vt sig site
            cases hr : assembleScaling K.n L1 L2 U Vt sig with
            | ok r => intro h; cases h
            | error e => rw [hr] at this; intro h; cases h; exact this rfl
    · unfold updateScaling
      have hg' : (s.size == triangularNumber K.n && z.size == triangularNumber K.n) = false := by
        simpa using hg
      simp only [hs', Bool.false_eq_true, ↓reduceIte, hg', sizeGuard, bind, Except.bind, throw,
        throwThe, MonadExceptOf.throw]
      intro h; cases h

/-- the flag is `false` exactly on the failure paths -/
theorem updateScaling_false_iff (K K' : Cone α) (s z : Array α) (lap : LapackOut α)
    (hsz : SvecSized K s z) (ok : Bool) (h : updateScaling K s z lap = .ok (ok, K')) :
    ok = false ↔ (s.isEmpty = false ∧ lap.failed) := by
  by_cases hs : s.isEmpty = true
  · rw [updateScaling_empty K s z lap hs] at h
    cases h
    simp [hs]
  · have hs' : s.isEmpty = false := by simpa using hs
    by_cases hf : lap.failed
    · rw [updateScaling_failed K s z lap hs' hsz hf] at h
      cases h
      simp [hs', hf]
    · obtain ⟨c1, c2, sv⟩ := lap
      have h1 : c1 ≠ none := fun hh => hf (Or.inl hh)
      have h2 : c2 ≠ none := fun hh => hf (Or.inr (Or.inl hh))
      have h3 : sv ≠ none := fun hh => hf (Or.inr (Or.inr hh))
      obtain ⟨L1, rfl⟩ := Option.ne_none_iff_exists'.mp h1
      obtain ⟨L2, rfl⟩ := Option.ne_none_iff_exists'.mp h2
      obtain ⟨⟨U, Vt, sig⟩, rfl⟩ := Option.ne_none_iff_exists'.mp h3
      rw [updateScaling_success K s z L1 L2 U Vt sig hs' hsz] at h
      cases hr : assembleScaling K.n L1 L2 U Vt sig with
      | error e => rw [hr] at h; cases h
      | ok r =>
        rw [hr] at h
        cases h
        simp [hf]

/-! ### the code before /repo e0ffbac: `f.SVD.factor(tmp).expect("SVD error")` -/

/-- `update_scaling` as it was before the fix -/
def updateScalingOld (K : Cone α) (s z : Array α) (lap : LapackOut α) : MErr (Bool × Cone α) := do
  if s.isEmpty then return (true, K)
  sizeGuard (s.size == triangularNumber K.n && z.size == triangularNumber K.n)
  match lap.chol1, lap.chol2 with
  | some L1, some L2 =>
    match lap.svd with
    | none => throw (.panic "SVD error")
    | some (U, Vt, sig) =>
      let (K', _) ← assembleScaling K.n L1 L2 U Vt sig
      pure (true, K')
  | _, _ => pure (false, K)

/-- the finding behind e0ffbac: a failed SVD after two successful Cholesky factorizations was a
panic -/
theorem updateScalingOld_panics (K : Cone α) (s z : Array α) (L1 L2 : Array α)
    (hs : s.isEmpty = false) (hsz : SvecSized K s z) :
    updateScalingOld K s z ⟨some L1, some L2, none⟩ = .error (.panic "SVD error") := by
  unfold updateScalingOld
  have hg : (s.size == triangularNumber K.n && z.size == triangularNumber K.n) = true := by
    simp [hsz.1, hsz.2]
  simp only [hs, Bool.false_eq_true, ↓reduceIte, hg, sizeGuard_true, bind, Except.bind]
  rfl

/-- … and the fix changed nothing else: on every other LAPACK outcome old and new code agree -/
theorem updateScalingOld_eq (K : Cone α) (s z : Array α) (lap : LapackOut α)
    (h : ¬ (∃ L1 L2, lap.chol1 = some L1 ∧ lap.chol2 = some L2 ∧ lap.svd = none)) :
    updateScalingOld K s z lap = updateScaling K s z lap := by
  obtain ⟨c1, c2, sv⟩ := lap
  unfold updateScalingOld updateScaling
  cases c1 with
  | none => rfl
  | some L1 =>
    cases c2 with
    | none => rfl
    | some L2 =>
      cases sv with
      | none => exact absurd ⟨L1, L2, rfl, rfl, rfl⟩ h
      | some t => rfl

end Clarabel.PsdTri
