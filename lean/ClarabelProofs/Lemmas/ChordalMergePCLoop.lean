/-
  The parent–child clique merge as a whole: the `while` loop `PCStrategy.loop` of
  `merge_cliques` (`ClarabelModel/Chordal/MergePC.lean`; Rust
  `src/solver/chordal/merge/{mod,parent_child}.rs`).

  * `CTInv t ord`: the clique-tree invariant in supernodal form (`PCInv` + disjoint,
    repetition-free supernodes, repetition-free separators, a rank function `ord` that grows
    towards the root, empty separator at a root, retired cliques are empty).
  * `CTInv.merge`: one merge step preserves `CTInv` (with the same `ord`).
  * consequences of `CTInv`: `CTInv.sep_eq_inter` (separator = clique ∩ parent clique),
    `CTInv.runInt` (running intersection in the form used by the harness oracle) and
    `CTInv.running_intersection` (the classical form along parent chains).
  * `PCLoopInv`, `PCStrategy.loop_spec`: the merge loop does not panic, does not run out of
    fuel, keeps `CTInv`, never loses a vertex of a clique, and keeps `nCliques` equal to the
    number of live cliques.
-/
import ClarabelProofs.Lemmas.ChordalMergePC

namespace Clarabel.Chordal

/-! ### reads and writes in `MErr` (local copies; the originals are `private`) -/

/-- [S] an in-range read does not panic -/
theorem pcl_getE_ok {β : Type} (xs : Array β) (i : Nat) (s : String) (d : β)
    (h : i < xs.size) : getE xs i s = .ok (xs.getD i d) := by
  unfold getE
  simp [h, Array.getD, pure, Except.pure]

/-- [S] `bind` after a successful step -/
theorem pcl_ok_bind {α β : Type} (a : α) (f : α → MErr β) :
    ((Except.ok a : MErr α) >>= f) = f a := rfl

/-- [S] `getD` on an in-range index is the list entry -/
theorem pcl_getD_eq_toList {xs : Array Nat} {i : Nat} (h : i < xs.size) :
    xs.getD i 0 = xs.toList[i]'(by simpa using h) := by
  simp [Array.getD, h]

/-- [S] distinct positions of a repetition-free array hold distinct entries -/
theorem pcl_getD_ne_of_nodup {xs : Array Nat} (hnd : xs.toList.Nodup) {i j : Nat}
    (hi : i < xs.size) (hj : j < xs.size) (hij : i ≠ j) : xs.getD i 0 ≠ xs.getD j 0 := by
  rw [pcl_getD_eq_toList hi, pcl_getD_eq_toList hj]
  intro h
  exact hij ((hnd.getElem_inj_iff).1 h)

/-! ### the clique-tree invariant -/

/-- the clique-tree invariant in supernodal form, kept by the parent–child merge.
`ord` is a rank function that strictly grows from a clique to its parent (e.g. the position in
the initial post-order). -/
structure CTInv (t : SuperNodeTree) (ord : Nat → Nat) : Prop extends PCInv t where
  /-- (a) supernodes of live cliques have no repetition -/
  sn_nodup : ∀ c, Live t c → (t.snode.getD c #[]).toList.Nodup
  /-- (a) separators of live cliques have no repetition -/
  sep_nodup : ∀ c, Live t c → (t.separators.getD c #[]).toList.Nodup
  /-- (a) supernodes of distinct live cliques are disjoint -/
  sn_disj : ∀ a b, Live t a → Live t b → a ≠ b →
      ∀ v ∈ (t.snode.getD a #[]).toList, v ∉ (t.snode.getD b #[]).toList
  /-- (d) acyclicity: the rank grows towards the root -/
  ord_lt : ∀ c, Live t c → t.snodeParent.getD c 0 ≠ noParent →
      ord c < ord (t.snodeParent.getD c 0)
  /-- a root has no separator -/
  root_sep : ∀ c, Live t c → t.snodeParent.getD c 0 = noParent → t.separators.getD c #[] = #[]
  /-- retired cliques have an empty supernode -/
  dead_snode : ∀ c, ¬ Live t c → t.snode.getD c #[] = #[]
  /-- retired cliques have an empty separator -/
  dead_sep : ∀ c, ¬ Live t c → t.separators.getD c #[] = #[]
  /-- retired cliques have no children -/
  dead_ch : ∀ c, ¬ Live t c → t.snodeChildren.getD c #[] = #[]

/-- [S] an out-of-range read with `getD` gives the default -/
theorem pcl_getD_oob {β : Type} (xs : Array β) (i : Nat) (d : β) (h : ¬ i < xs.size) :
    xs.getD i d = d := by
  simp [Array.getD, h]

/-- [S] ONE MERGE PRESERVES THE CLIQUE-TREE INVARIANT, with the same rank function: the
grandchildren are re-attached to an ancestor. -/
theorem CTInv.merge {t : SuperNodeTree} {ord : Nat → Nat} {p ch : Nat}
    (h : CTInv t ord) (hm : MergeHyp t p ch) : CTInv (mergedTree t p ch) ord where
  toPCInv := hm.inv'
  sn_nodup := by
    intro c hl'
    obtain ⟨hc, hl⟩ := (hm.live_iff c).1 hl'
    clear hl'
    by_cases hp : c = p
    · subst hp
      rw [mergedTree_snode_p (Ne.symm hm.ne) hm.p_lt]
      exact VSet.nodup_extend _ _ (h.sn_nodup c hl)
    · rw [mergedTree_snode_other c hp hc]; exact h.sn_nodup c hl
  sep_nodup := by
    intro c hl
    obtain ⟨hc, hl⟩ := (hm.live_iff c).1 hl
    rw [mergedTree_sep_other c hc]; exact h.sep_nodup c hl
  sn_disj := by
    intro a b hla' hlb' hab v hva hvb
    obtain ⟨hac, hla⟩ := (hm.live_iff a).1 hla'
    obtain ⟨hbc, hlb⟩ := (hm.live_iff b).1 hlb'
    clear hla' hlb'
    by_cases hap : a = p
    · subst hap
      have hbp : b ≠ a := Ne.symm hab
      rw [mergedTree_snode_p (Ne.symm hm.ne) hm.p_lt, VSet.mem_extend] at hva
      rw [mergedTree_snode_other b hbp hbc] at hvb
      rcases hva with hva | hva
      · exact h.sn_disj a b hla hlb hab v hva hvb
      · exact h.sn_disj ch b hm.lc hlb (Ne.symm hbc) v hva hvb
    · rw [mergedTree_snode_other a hap hac] at hva
      by_cases hbp : b = p
      · subst hbp
        rw [mergedTree_snode_p (Ne.symm hm.ne) hm.p_lt, VSet.mem_extend] at hvb
        rcases hvb with hvb | hvb
        · exact h.sn_disj a b hla hlb hab v hva hvb
        · exact h.sn_disj a ch hla hm.lc hac v hva hvb
      · rw [mergedTree_snode_other b hbp hbc] at hvb
        exact h.sn_disj a b hla hlb hab v hva hvb
  ord_lt := by
    intro c hl hnp
    obtain ⟨hc, hl⟩ := (hm.live_iff c).1 hl
    by_cases hg : c ∈ (t.snodeChildren.getD ch #[]).toList
    · rw [hm.parent_grand c hg]
      have hg' := (hm.mem_grand c).1 hg
      have hchnp : ch ≠ noParent := by
        have := hm.ch_lt; have := hm.inv.small
        have : inactiveNode < noParent := by decide
        omega
      have h1 := h.ord_lt c hl (by rw [hg'.2]; exact hchnp)
      rw [hg'.2] at h1
      have h2 := h.ord_lt ch hm.lc (by rw [hm.par]; exact hm.p_ne_noParent)
      rw [hm.par] at h2
      omega
    · rw [hm.parent_other c hc hg] at hnp ⊢
      exact h.ord_lt c hl hnp
  root_sep := by
    intro c hl hnp
    obtain ⟨hc, hl⟩ := (hm.live_iff c).1 hl
    by_cases hg : c ∈ (t.snodeChildren.getD ch #[]).toList
    · rw [hm.parent_grand c hg] at hnp
      exact absurd hnp hm.p_ne_noParent
    · rw [hm.parent_other c hc hg] at hnp
      rw [mergedTree_sep_other c hc]
      exact h.root_sep c hl hnp
  dead_snode := by
    intro c hl
    by_cases hc : c = ch
    · subst hc; exact mergedTree_snode_ch hm.ch_lt
    · have hd : ¬ Live t c := fun hl' => hl ((hm.live_iff c).2 ⟨hc, hl'⟩)
      have hp : c ≠ p := fun e => hd (e ▸ hm.lp)
      rw [mergedTree_snode_other c hp hc]; exact h.dead_snode c hd
  dead_sep := by
    intro c hl
    by_cases hc : c = ch
    · subst hc; exact mergedTree_sep_ch (hm.inv.sz_sep ▸ hm.ch_lt)
    · have hd : ¬ Live t c := fun hl' => hl ((hm.live_iff c).2 ⟨hc, hl'⟩)
      rw [mergedTree_sep_other c hc]; exact h.dead_sep c hd
  dead_ch := by
    intro c hl
    by_cases hc : c = ch
    · subst hc; exact mergedTree_children_ch (hm.inv.sz_ch ▸ hm.ch_lt)
    · have hd : ¬ Live t c := fun hl' => hl ((hm.live_iff c).2 ⟨hc, hl'⟩)
      have hp : c ≠ p := fun e => hd (e ▸ hm.lp)
      rw [mergedTree_children_other c hp hc]; exact h.dead_ch c hd

/-! ### climbing to the top clique of a vertex -/

/-- `Climb t v a b`: starting at the live clique `a`, the vertex `v` is in the separator of every
clique on the parent chain `a, parent a, …` below `b`, and in the supernode of the live clique
`b` (the "top" clique of `v`). -/
inductive Climb (t : SuperNodeTree) (v : Nat) : Nat → Nat → Prop
  | top {a : Nat} : Live t a → v ∈ (t.snode.getD a #[]).toList → Climb t v a a
  | step {a b : Nat} : Live t a → t.snodeParent.getD a 0 ≠ noParent →
      v ∈ (t.separators.getD a #[]).toList → Climb t v (t.snodeParent.getD a 0) b →
      Climb t v a b

/-- `Anc t a b`: `b` is `a` or an ancestor of `a` (parent chain through live cliques) -/
inductive Anc (t : SuperNodeTree) : Nat → Nat → Prop
  | refl (a : Nat) : Anc t a a
  | step {a b : Nat} : Live t a → t.snodeParent.getD a 0 ≠ noParent →
      Anc t (t.snodeParent.getD a 0) b → Anc t a b

/-- [S] finitely many values of `ord` are bounded -/
theorem pcl_exists_bound (ord : Nat → Nat) : ∀ n : Nat, ∃ N, ∀ c, c < n → ord c < N := by
  intro n
  induction n with
  | zero => exact ⟨0, fun c hc => absurd hc (Nat.not_lt_zero c)⟩
  | succ n ih =>
    obtain ⟨N, hN⟩ := ih
    refine ⟨max N (ord n + 1), fun c hc => ?_⟩
    rcases Nat.lt_succ_iff_lt_or_eq.1 hc with h | h
    · have := hN c h; omega
    · subst h; omega

section consequences
variable {t : SuperNodeTree} {ord : Nat → Nat}

/-- [S] the top of a climb is a live clique with `v` in its supernode -/
theorem Climb.top_spec {v a b : Nat} (hc : Climb t v a b) :
    Live t b ∧ v ∈ (t.snode.getD b #[]).toList := by
  induction hc with
  | top hl hv => exact ⟨hl, hv⟩
  | step _ _ _ _ ih => exact ih

/-- [S] the start of a climb is a live clique containing `v` -/
theorem Climb.start_spec {v a b : Nat} (hc : Climb t v a b) :
    Live t a ∧ v ∈ cliqueList t a := by
  cases hc with
  | top hl hv => exact ⟨hl, List.mem_append_left _ hv⟩
  | step hl _ hv _ => exact ⟨hl, List.mem_append_right _ hv⟩

/-- [S] a climb follows the parent chain -/
theorem Climb.anc {v a b : Nat} (hc : Climb t v a b) : Anc t a b := by
  induction hc with
  | top _ _ => exact Anc.refl _
  | step hl hnp _ _ ih => exact Anc.step hl hnp ih

/-- [S] the rank grows along a parent chain -/
theorem CTInv.anc_ord (h : CTInv t ord) {a b : Nat} (hab : Anc t a b) :
    a = b ∨ ord a < ord b := by
  induction hab with
  | refl a => exact Or.inl rfl
  | step hl hnp _ ih =>
    have := h.ord_lt _ hl hnp
    rcases ih with e | e
    · right; rw [← e]; exact this
    · right; omega

/-- [S] ancestors of live cliques are live -/
theorem CTInv.anc_live (h : CTInv t ord) {a b : Nat} (hab : Anc t a b) (hl : Live t a) :
    Live t b := by
  induction hab with
  | refl a => exact hl
  | step hl' hnp _ ih => exact ih (h.par_live _ hl' hnp)

/-- [S] every vertex of a live clique climbs to a top clique: following the parent chain it
stays in the separators (`sep(c) ⊆ clique(parent c)`) until it is in a supernode; the chain is
finite because the rank grows, and a root has no separator. -/
theorem CTInv.climb_exists (h : CTInv t ord) (v : Nat) :
    ∀ a, Live t a → v ∈ cliqueList t a → ∃ b, Climb t v a b := by
  obtain ⟨N, hN⟩ := pcl_exists_bound ord t.snodeParent.size
  have key : ∀ k a, Live t a → N ≤ ord a + k → v ∈ cliqueList t a → ∃ b, Climb t v a b := by
    intro k
    induction k with
    | zero =>
      intro a hl hk _
      have := hN a hl.1
      omega
    | succ k ih =>
      intro a hl hk hv
      unfold cliqueList at hv
      rcases List.mem_append.1 hv with hv | hv
      · exact ⟨a, Climb.top hl hv⟩
      · by_cases hnp : t.snodeParent.getD a 0 = noParent
        · rw [h.root_sep a hl hnp] at hv
          simp at hv
        · have hlt := h.ord_lt a hl hnp
          obtain ⟨b, hb⟩ := ih _ (h.par_live a hl hnp) (by omega) (h.sep_sub a hl hnp v hv)
          exact ⟨b, Climb.step hl hnp hv hb⟩
  intro a hl hv
  exact key N a hl (by omega) hv

/-- [S] (e), general form: the supernode of a live clique is disjoint from every live clique of
higher rank (a common vertex would climb to a supernode of still higher rank, contradicting
the disjointness of supernodes) -/
theorem CTInv.snode_disj_clique_of_ord_lt (h : CTInv t ord) {a b : Nat} (hla : Live t a)
    (hlb : Live t b) (hab : ord a < ord b) :
    ∀ v ∈ (t.snode.getD a #[]).toList, v ∉ cliqueList t b := by
  intro v hva hvb
  obtain ⟨x, hx⟩ := h.climb_exists v b hlb hvb
  obtain ⟨hlx, hvx⟩ := hx.top_spec
  have hox : ord b ≤ ord x := by
    rcases h.anc_ord hx.anc with e | e
    · rw [e]
    · omega
  have hne : a ≠ x := fun e => by rw [e] at hab; omega
  exact h.sn_disj a x hla hlx hne v hva hvx

/-- [S] (e): the supernode of a live non-root clique is disjoint from the parent's clique -/
theorem CTInv.snode_disj_parent (h : CTInv t ord) {c : Nat} (hl : Live t c)
    (hnp : t.snodeParent.getD c 0 ≠ noParent) :
    ∀ v ∈ (t.snode.getD c #[]).toList, v ∉ cliqueList t (t.snodeParent.getD c 0) :=
  h.snode_disj_clique_of_ord_lt hl (h.par_live c hl hnp) (h.ord_lt c hl hnp)

/-- [S] (c): separator and supernode of a live clique are disjoint -/
theorem CTInv.sep_disj_snode (h : CTInv t ord) {c : Nat} (hl : Live t c) :
    ∀ v ∈ (t.separators.getD c #[]).toList, v ∉ (t.snode.getD c #[]).toList := by
  intro v hv hvs
  by_cases hnp : t.snodeParent.getD c 0 = noParent
  · rw [h.root_sep c hl hnp] at hv
    simp at hv
  · exact h.snode_disj_parent hl hnp v hvs (h.sep_sub c hl hnp v hv)

/-- [S] the vertex list of a live clique has no repetition -/
theorem CTInv.clique_nodup (h : CTInv t ord) {c : Nat} (hl : Live t c) :
    (cliqueList t c).Nodup := by
  unfold cliqueList
  refine List.nodup_append.2 ⟨h.sn_nodup c hl, h.sep_nodup c hl, ?_⟩
  intro a ha b hb hab
  subst hab
  exact h.sep_disj_snode hl a hb ha

/-- [S] SEPARATOR = CLIQUE ∩ PARENT CLIQUE for a live non-root clique -/
theorem CTInv.sep_eq_inter (h : CTInv t ord) {c : Nat} (hl : Live t c)
    (hnp : t.snodeParent.getD c 0 ≠ noParent) (v : Nat) :
    v ∈ (t.separators.getD c #[]).toList ↔
      v ∈ cliqueList t c ∧ v ∈ cliqueList t (t.snodeParent.getD c 0) := by
  constructor
  · intro hv
    exact ⟨List.mem_append_right _ hv, h.sep_sub c hl hnp v hv⟩
  · rintro ⟨hv, hvp⟩
    unfold cliqueList at hv
    rcases List.mem_append.1 hv with hv | hv
    · exact absurd hvp (h.snode_disj_parent hl hnp v hv)
    · exact hv

/-- `c` is a top clique of `v`: a live clique containing `v` whose parent clique (if any)
does not contain `v` — the cliques counted by the oracle `check_clique_tree` of the harness -/
def IsTop (t : SuperNodeTree) (v c : Nat) : Prop :=
  Live t c ∧ v ∈ cliqueList t c ∧
    (t.snodeParent.getD c 0 = noParent ∨ v ∉ cliqueList t (t.snodeParent.getD c 0))

/-- running intersection in the form of the harness oracle: every vertex that lies in some live
clique has EXACTLY ONE top clique -/
def RunInt (t : SuperNodeTree) : Prop :=
  ∀ v, (∃ c, Live t c ∧ v ∈ cliqueList t c) → ∃ c, IsTop t v c ∧ ∀ c', IsTop t v c' → c' = c

/-- [S] a top clique of `v` is the live clique that has `v` in its supernode -/
theorem CTInv.isTop_iff (h : CTInv t ord) (v c : Nat) :
    IsTop t v c ↔ Live t c ∧ v ∈ (t.snode.getD c #[]).toList := by
  constructor
  · rintro ⟨hl, hv, htop⟩
    refine ⟨hl, ?_⟩
    unfold cliqueList at hv
    rcases List.mem_append.1 hv with hv | hv
    · exact hv
    · exfalso
      by_cases hnp : t.snodeParent.getD c 0 = noParent
      · rw [h.root_sep c hl hnp] at hv
        simp at hv
      · rcases htop with e | e
        · exact hnp e
        · exact e (h.sep_sub c hl hnp v hv)
  · rintro ⟨hl, hv⟩
    refine ⟨hl, List.mem_append_left _ hv, ?_⟩
    by_cases hnp : t.snodeParent.getD c 0 = noParent
    · exact Or.inl hnp
    · exact Or.inr (h.snode_disj_parent hl hnp v hv)

/-- [S] RUNNING INTERSECTION (oracle form) follows from the clique-tree invariant -/
theorem CTInv.runInt (h : CTInv t ord) : RunInt t := by
  rintro v ⟨a, hla, hva⟩
  obtain ⟨b, hb⟩ := h.climb_exists v a hla hva
  obtain ⟨hlb, hvb⟩ := hb.top_spec
  refine ⟨b, (h.isTop_iff v b).2 ⟨hlb, hvb⟩, ?_⟩
  intro c' hc'
  obtain ⟨hlc, hvc⟩ := (h.isTop_iff v c').1 hc'
  by_contra hne
  exact h.sn_disj c' b hlc hlb hne v hvc hvb

/-- [S] along a climb the vertex is in every clique of the parent chain -/
theorem CTInv.climb_path (h : CTInv t ord) {v a b : Nat} (hc : Climb t v a b) :
    ∀ c, Anc t a c → Anc t c b → v ∈ cliqueList t c := by
  induction hc with
  | @top a hl hv =>
    intro c h1 h2
    have : a = c := by
      rcases h.anc_ord h1 with e | e
      · exact e
      · rcases h.anc_ord h2 with e' | e'
        · exact e'.symm
        · omega
    subst this
    exact List.mem_append_left _ hv
  | @step a b hl hnp hv hrest ih =>
    intro c h1 h2
    cases h1 with
    | refl => exact List.mem_append_right _ hv
    | step _ _ h1' => exact ih c h1' h2

/-- [S] RUNNING INTERSECTION (classical form): if `v` lies in the live cliques `a` and `b`, then
both parent chains lead to the same top clique `x` (the one with `v` in its supernode), and `v`
lies in every clique on the chain from `a` to `x` and on the chain from `b` to `x` — the
cliques containing `v` form a connected subtree. -/
theorem CTInv.running_intersection (h : CTInv t ord) {v a b : Nat}
    (hla : Live t a) (hva : v ∈ cliqueList t a) (hlb : Live t b) (hvb : v ∈ cliqueList t b) :
    ∃ x, Live t x ∧ v ∈ (t.snode.getD x #[]).toList ∧ Anc t a x ∧ Anc t b x ∧
      (∀ c, Anc t a c → Anc t c x → v ∈ cliqueList t c) ∧
      (∀ c, Anc t b c → Anc t c x → v ∈ cliqueList t c) := by
  obtain ⟨x, hx⟩ := h.climb_exists v a hla hva
  obtain ⟨y, hy⟩ := h.climb_exists v b hlb hvb
  obtain ⟨hlx, hvx⟩ := hx.top_spec
  obtain ⟨hly, hvy⟩ := hy.top_spec
  have hxy : y = x := by
    by_contra hne
    exact h.sn_disj y x hly hlx hne v hvy hvx
  subst hxy
  exact ⟨y, hlx, hvx, hx.anc, hy.anc, h.climb_path hx, h.climb_path hy⟩

end consequences

/-! ### `clique_dim`, `fill_in`, `evaluate` do not panic -/

/-- [S] `clique_dim` on a valid index -/
theorem cliqueDim_ok (t : SuperNodeTree) (i : Nat) (h1 : i < t.snode.size)
    (h2 : i < t.separators.size) :
    cliqueDim t i = .ok ((t.snode.getD i #[]).size, (t.separators.getD i #[]).size) := by
  unfold cliqueDim
  rw [pcl_getE_ok _ _ _ #[] h1, pcl_ok_bind, pcl_getE_ok _ _ _ #[] h2, pcl_ok_bind]
  rfl

/-- [S] `fill_in` does not underflow when the child's separator is not larger than the parent's
clique -/
theorem fillIn_ok (dcs dcp dps dpp : Nat) (h : dcp ≤ dps + dpp) :
    fillIn dcs dcp dps dpp = .ok ((dps + dpp - dcp) * (dcs + dcp - dcp)) := by
  unfold fillIn
  simp only []
  rw [if_neg (by omega)]
  rfl

/-- the value `evaluate` computes on the pair (parent `p`, child `c`) -/
def evalVal (s : PCStrategy) (t : SuperNodeTree) (p c : Nat) : Bool :=
  decide (((t.snode.getD p #[]).size + (t.separators.getD p #[]).size
            - (t.separators.getD c #[]).size) *
          ((t.snode.getD c #[]).size + (t.separators.getD c #[]).size
            - (t.separators.getD c #[]).size) ≤ s.tFill) ||
  decide (max (t.snode.getD c #[]).size (t.snode.getD p #[]).size ≤ s.tSize)

/-- [S] `evaluate` on valid indices does not panic provided `|sep(c)| ≤ |clique(p)|` -/
theorem evaluate_ok (s : PCStrategy) (t : SuperNodeTree) (p c : Nat) (hstop : s.stop = false)
    (hp1 : p < t.snode.size) (hp2 : p < t.separators.size)
    (hc1 : c < t.snode.size) (hc2 : c < t.separators.size)
    (hlen : (t.separators.getD c #[]).size ≤
      (t.snode.getD p #[]).size + (t.separators.getD p #[]).size) :
    s.evaluate t (p, c) = .ok (evalVal s t p c) := by
  unfold PCStrategy.evaluate
  simp only [hstop, Bool.false_eq_true, if_false]
  rw [cliqueDim_ok t p hp1 hp2, pcl_ok_bind]
  simp only []
  rw [cliqueDim_ok t c hc1 hc2, pcl_ok_bind]
  simp only []
  rw [fillIn_ok _ _ _ _ hlen, pcl_ok_bind]
  rfl

/-- [S] THE LENGTH FACT behind `fill_in`: the separator of a live non-root clique is a
repetition-free subset of the parent's clique, so `dim_clique_sep ≤ dim_parent` and the
subtraction `dim_parent - dim_clique_sep` does not underflow -/
theorem CTInv.sep_size_le {t : SuperNodeTree} {ord : Nat → Nat} (h : CTInv t ord) {c : Nat}
    (hl : Live t c) (hnp : t.snodeParent.getD c 0 ≠ noParent) :
    (t.separators.getD c #[]).size ≤
      (t.snode.getD (t.snodeParent.getD c 0) #[]).size +
      (t.separators.getD (t.snodeParent.getD c 0) #[]).size := by
  have h1 := (h.sep_nodup c hl).length_le_of_subset (fun v hv => h.sep_sub c hl hnp v hv)
  unfold cliqueList at h1
  simpa using h1

/-- [S] `evaluate` NEVER PANICS on the candidate `(parent c, c)` of a live non-root clique -/
theorem CTInv.evaluate_ok {t : SuperNodeTree} {ord : Nat → Nat} (h : CTInv t ord)
    (s : PCStrategy) (hstop : s.stop = false) {c : Nat}
    (hl : Live t c) (hnp : t.snodeParent.getD c 0 ≠ noParent) :
    s.evaluate t (t.snodeParent.getD c 0, c) = .ok (evalVal s t (t.snodeParent.getD c 0) c) := by
  have hlp := h.par_live c hl hnp
  have hp : t.snodeParent.getD c 0 < t.snode.size := h.sz_par ▸ hlp.1
  have hc : c < t.snode.size := h.sz_par ▸ hl.1
  exact Clarabel.Chordal.evaluate_ok s t _ c hstop hp (h.sz_sep ▸ hp) hc (h.sz_sep ▸ hc)
    (h.sep_size_le hl hnp)

/-! ### counting the live cliques -/

/-- the live cliques, in increasing order -/
def liveList (t : SuperNodeTree) : List Nat :=
  (List.range t.snodeParent.size).filter (fun c => decide (t.snodeParent.getD c 0 ≠ inactiveNode))

/-- the number of live cliques -/
def liveCount (t : SuperNodeTree) : Nat := (liveList t).length

/-- [S] `liveList` lists exactly the live cliques -/
theorem mem_liveList (t : SuperNodeTree) (c : Nat) : c ∈ liveList t ↔ Live t c := by
  unfold liveList Live
  simp

/-- [S] `liveList` has no repetition -/
theorem liveList_nodup (t : SuperNodeTree) : (liveList t).Nodup :=
  List.nodup_range.filter _

/-- [S] a repetition-free list of live cliques has at most `liveCount` entries -/
theorem length_le_liveCount (t : SuperNodeTree) {l : List Nat} (hnd : l.Nodup)
    (hl : ∀ c ∈ l, Live t c) : l.length ≤ liveCount t :=
  hnd.length_le_of_subset (fun c hc => (mem_liveList t c).2 (hl c hc))

/-- [S] one merge retires exactly one live clique -/
theorem MergeHyp.liveCount_eq {t : SuperNodeTree} {p ch : Nat} (h : MergeHyp t p ch) :
    liveCount (mergedTree t p ch) + 1 = liveCount t := by
  have e : liveList (mergedTree t p ch) = (liveList t).erase ch := by
    rw [(liveList_nodup t).erase_eq_filter]
    unfold liveList
    rw [mergedTree_parent_size, List.filter_filter]
    apply List.filter_congr
    intro c hc
    have hc' : c < t.snodeParent.size := List.mem_range.1 hc
    have := h.live_iff c
    unfold Live at this
    rw [mergedTree_parent_size] at this
    have h1 : ((mergedTree t p ch).snodeParent.getD c 0 ≠ inactiveNode) ↔
        (c ≠ ch ∧ t.snodeParent.getD c 0 ≠ inactiveNode) := by
      constructor
      · intro hx; exact ⟨(this.1 ⟨hc', hx⟩).1, (this.1 ⟨hc', hx⟩).2.2⟩
      · intro hx; exact (this.2 ⟨hx.1, hc', hx.2⟩).2
    rw [Bool.eq_iff_iff]
    simp only [decide_eq_true_eq, Bool.and_eq_true, bne_iff_ne, ne_eq]
    exact h1
  unfold liveCount
  rw [e, List.length_erase_of_mem ((mem_liveList t ch).2 h.lc)]
  have : 0 < (liveList t).length := List.length_pos_of_mem ((mem_liveList t ch).2 h.lc)
  omega

/-! ### what the loop does to the tree -/

/-- relation between the tree `t` before and the tree `t'` after some passes of the merge loop
(reflexive and transitive) -/
structure PCLoopRel (t t' : SuperNodeTree) : Prop where
  /-- bookkeeping fields are untouched -/
  snodePost_eq : t'.snodePost = t.snodePost
  post_eq : t'.post = t.post
  nblk_eq : t'.nblk = t.nblk
  /-- sizes are unchanged -/
  size_eq : t'.snode.size = t.snode.size
  par_size_eq : t'.snodeParent.size = t.snodeParent.size
  /-- cliques are only retired, never revived -/
  live_sub : ∀ c, Live t' c → Live t c
  /-- coverage: every old live clique lies inside a new live clique -/
  cover : ∀ c, Live t c → ∃ c', Live t' c' ∧ ∀ v ∈ cliqueList t c, v ∈ cliqueList t' c'
  /-- no vertex is invented -/
  verts : ∀ c' v, Live t' c' → v ∈ cliqueList t' c' → ∃ c, Live t c ∧ v ∈ cliqueList t c
  /-- the clique counter drops by the number of retired cliques -/
  count : t'.nCliques + liveCount t = t.nCliques + liveCount t'
  ncl_le : t'.nCliques ≤ t.nCliques
  /-- roots stay roots, no new root appears -/
  root_keep : ∀ c, Live t c → t.snodeParent.getD c 0 = noParent →
      Live t' c ∧ t'.snodeParent.getD c 0 = noParent
  root_of : ∀ c, Live t' c → t'.snodeParent.getD c 0 = noParent →
      t.snodeParent.getD c 0 = noParent

/-- [S] no pass: nothing changes -/
theorem PCLoopRel.refl (t : SuperNodeTree) : PCLoopRel t t where
  snodePost_eq := rfl
  post_eq := rfl
  nblk_eq := rfl
  size_eq := rfl
  par_size_eq := rfl
  live_sub := fun _ h => h
  cover := fun c h => ⟨c, h, fun _ hv => hv⟩
  verts := fun c _ h hv => ⟨c, h, hv⟩
  count := rfl
  ncl_le := Nat.le_refl _
  root_keep := fun _ h1 h2 => ⟨h1, h2⟩
  root_of := fun _ _ h => h

/-- [S] passes compose -/
theorem PCLoopRel.trans {t t1 t2 : SuperNodeTree} (h1 : PCLoopRel t t1) (h2 : PCLoopRel t1 t2) :
    PCLoopRel t t2 where
  snodePost_eq := h2.snodePost_eq.trans h1.snodePost_eq
  post_eq := h2.post_eq.trans h1.post_eq
  nblk_eq := h2.nblk_eq.trans h1.nblk_eq
  size_eq := h2.size_eq.trans h1.size_eq
  par_size_eq := h2.par_size_eq.trans h1.par_size_eq
  live_sub := fun c h => h1.live_sub c (h2.live_sub c h)
  cover := by
    intro c hl
    obtain ⟨c1, hl1, hc1⟩ := h1.cover c hl
    obtain ⟨c2, hl2, hc2⟩ := h2.cover c1 hl1
    exact ⟨c2, hl2, fun v hv => hc2 v (hc1 v hv)⟩
  verts := by
    intro c2 v hl2 hv
    obtain ⟨c1, hl1, hv1⟩ := h2.verts c2 v hl2 hv
    exact h1.verts c1 v hl1 hv1
  count := by
    have := h1.count; have := h2.count; omega
  ncl_le := Nat.le_trans h2.ncl_le h1.ncl_le
  root_keep := by
    intro c hl hr
    obtain ⟨hl1, hr1⟩ := h1.root_keep c hl hr
    exact h2.root_keep c hl1 hr1
  root_of := fun c hl hr => h1.root_of c (h2.live_sub c hl) (h2.root_of c hl hr)

/-- [S] one merge is a pass -/
theorem PCLoopRel.of_merge {t : SuperNodeTree} {p ch : Nat} (hm : MergeHyp t p ch)
    (hn : 0 < t.nCliques) : PCLoopRel t (mergedTree t p ch) where
  snodePost_eq := rfl
  post_eq := rfl
  nblk_eq := rfl
  size_eq := mergedTree_snode_size
  par_size_eq := mergedTree_parent_size
  live_sub := fun c h => ((hm.live_iff c).1 h).2
  cover := hm.spec.cover
  verts := by
    intro c v hl' hv
    obtain ⟨hc, hl⟩ := (hm.live_iff c).1 hl'
    clear hl'
    unfold cliqueList at hv
    rw [mergedTree_sep_other c hc] at hv
    rcases List.mem_append.1 hv with hv | hv
    · by_cases hp : c = p
      · subst hp
        rw [mergedTree_snode_p (Ne.symm hm.ne) hm.p_lt, VSet.mem_extend] at hv
        rcases hv with hv | hv
        · exact ⟨c, hl, List.mem_append_left _ hv⟩
        · exact ⟨ch, hm.lc, List.mem_append_left _ hv⟩
      · rw [mergedTree_snode_other c hp hc] at hv
        exact ⟨c, hl, List.mem_append_left _ hv⟩
    · exact ⟨c, hl, List.mem_append_right _ hv⟩
  count := by
    have h1 := hm.liveCount_eq
    have h2 : (mergedTree t p ch).nCliques = t.nCliques - 1 := rfl
    omega
  ncl_le := Nat.sub_le _ _
  root_keep := by
    intro c hl hr
    have hc : c ≠ ch := fun e => hm.p_ne_noParent (by rw [← hm.par, ← e]; exact hr)
    have hchnp : ch ≠ noParent := by
      have := hm.ch_lt; have := hm.inv.small
      have : inactiveNode < noParent := by decide
      omega
    have hg : c ∉ (t.snodeChildren.getD ch #[]).toList :=
      fun hg => hchnp (by rw [← ((hm.mem_grand c).1 hg).2]; exact hr)
    exact ⟨(hm.live_iff c).2 ⟨hc, hl⟩, by rw [hm.parent_other c hc hg]; exact hr⟩
  root_of := by
    intro c hl hr
    obtain ⟨hc, hl⟩ := (hm.live_iff c).1 hl
    by_cases hg : c ∈ (t.snodeChildren.getD ch #[]).toList
    · rw [hm.parent_grand c hg] at hr
      exact absurd hr hm.p_ne_noParent
    · rw [hm.parent_other c hc hg] at hr
      exact hr

/-! ### the loop invariant -/

/-- the invariant of the `while` loop of `merge_cliques` for the parent–child strategy: the
clique-tree invariant, and every clique that is still to be visited (post-order positions
`0..=cliqueIndex`) is live and is not a root (a clique is retired only at its own visit; the
root is last in the post-order) -/
structure PCLoopInv (t : SuperNodeTree) (ord : Nat → Nat) (s : PCStrategy) : Prop where
  ct : CTInv t ord
  /-- the post-order has no repetition -/
  post_nodup : t.snodePost.toList.Nodup
  /-- `traverse` reads inside `snode_post` -/
  idx_lt : s.cliqueIndex < t.snodePost.size
  /-- the cliques still to be visited are live and have a parent -/
  visit : ∀ j, j ≤ s.cliqueIndex → Live t (t.snodePost.getD j 0) ∧
      t.snodeParent.getD (t.snodePost.getD j 0) 0 ≠ noParent
  /-- `n_cliques` cannot underflow -/
  ncl : s.cliqueIndex + 2 ≤ t.nCliques

/-- `update_strategy` -/
def PCStrategy.next (s : PCStrategy) : PCStrategy :=
  if s.cliqueIndex == 0 then { s with stop := true }
  else { s with cliqueIndex := s.cliqueIndex - 1 }

/-- [S] the loop returns the tree once the strategy has stopped -/
theorem PCStrategy.loop_stop (fuel : Nat) (s : PCStrategy) (t : SuperNodeTree)
    (h : s.stop = true) : PCStrategy.loop (fuel + 1) s t = .ok t := by
  rw [PCStrategy.loop]
  simp only [h, if_true]
  rfl

/-- [S] one pass of the loop, given the results of its steps -/
theorem PCStrategy.loop_succ (fuel : Nat) (s : PCStrategy) (t : SuperNodeTree)
    (hstop : s.stop = false) (hj : s.cliqueIndex < t.snodePost.size)
    (hc : t.snodePost.getD s.cliqueIndex 0 < t.snodeParent.size) (b : Bool) (t1 : SuperNodeTree)
    (hev : s.evaluate t (t.snodeParent.getD (t.snodePost.getD s.cliqueIndex 0) 0,
      t.snodePost.getD s.cliqueIndex 0) = .ok b)
    (hm : (if b = true then PCStrategy.mergeTwoCliques t
        (t.snodeParent.getD (t.snodePost.getD s.cliqueIndex 0) 0,
          t.snodePost.getD s.cliqueIndex 0) else pure t) = .ok t1) :
    PCStrategy.loop (fuel + 1) s t =
      if t1.nCliques == 1 then .ok t1 else PCStrategy.loop fuel s.next t1 := by
  obtain ⟨st, ci, tf, ts⟩ := s
  simp only at hstop hj hc hev hm
  subst hstop
  rw [PCStrategy.loop]
  simp only [Bool.false_eq_true, if_false]
  rw [pcl_getE_ok _ _ _ 0 hj, pcl_ok_bind, pcl_getE_ok _ _ _ 0 hc, pcl_ok_bind, hev, pcl_ok_bind]
  cases b with
  | false =>
    simp only [Bool.false_eq_true, if_false] at hm ⊢
    have e : t1 = t := by injection hm with hm; exact hm.symm
    subst e
    rfl
  | true =>
    simp only [if_true] at hm ⊢
    rw [hm, pcl_ok_bind]
    rfl

/-- [S] `update_strategy` at a positive index -/
theorem PCStrategy.next_of_ne (s : PCStrategy) (h : s.cliqueIndex ≠ 0) :
    s.next = { s with cliqueIndex := s.cliqueIndex - 1 } := by
  unfold PCStrategy.next
  have : (s.cliqueIndex == 0) = false := by simpa using h
  rw [this]
  rfl

/-- [S] `update_strategy` at index `0` -/
theorem PCStrategy.next_of_eq (s : PCStrategy) (h : s.cliqueIndex = 0) :
    s.next = { s with stop := true } := by
  unfold PCStrategy.next
  have : (s.cliqueIndex == 0) = true := by simpa using h
  rw [this]
  rfl

namespace PCLoopInv
variable {t : SuperNodeTree} {ord : Nat → Nat} {s : PCStrategy}

/-- [S] the clique visited now is a live non-root clique -/
theorem cur (inv : PCLoopInv t ord s) :
    Live t (t.snodePost.getD s.cliqueIndex 0) ∧
      t.snodeParent.getD (t.snodePost.getD s.cliqueIndex 0) 0 ≠ noParent :=
  inv.visit _ (Nat.le_refl _)

/-- [S] the candidate pair of the current pass satisfies the hypotheses of one merge -/
theorem mergeHyp (inv : PCLoopInv t ord s) :
    MergeHyp t (t.snodeParent.getD (t.snodePost.getD s.cliqueIndex 0) 0)
      (t.snodePost.getD s.cliqueIndex 0) where
  inv := inv.ct.toPCInv
  lp := inv.ct.par_live _ inv.cur.1 inv.cur.2
  lc := inv.cur.1
  ne := by
    intro e
    have := inv.ct.ord_lt _ inv.cur.1 inv.cur.2
    rw [← e] at this
    omega
  par := rfl

/-- [S] the invariant after a pass without merge -/
theorem next_of_skip (inv : PCLoopInv t ord s) (hj : s.cliqueIndex ≠ 0) :
    PCLoopInv t ord s.next := by
  rw [PCStrategy.next_of_ne s hj]
  refine ⟨inv.ct, inv.post_nodup, ?_, ?_, ?_⟩
  · have := inv.idx_lt
    show s.cliqueIndex - 1 < _
    omega
  · intro j hjle
    have hjle' : j ≤ s.cliqueIndex - 1 := hjle
    exact inv.visit j (by omega)
  · have := inv.ncl
    show s.cliqueIndex - 1 + 2 ≤ _
    omega

/-- [S] the invariant after a pass with merge: the cliques at smaller post-order positions are
different from the retired one, stay live, and keep a parent (possibly the new one) -/
theorem next_of_merge (inv : PCLoopInv t ord s) (hj : s.cliqueIndex ≠ 0) :
    PCLoopInv (mergedTree t (t.snodeParent.getD (t.snodePost.getD s.cliqueIndex 0) 0)
      (t.snodePost.getD s.cliqueIndex 0)) ord s.next := by
  have hm := inv.mergeHyp
  rw [PCStrategy.next_of_ne s hj]
  refine ⟨inv.ct.merge hm, inv.post_nodup, ?_, ?_, ?_⟩
  · have := inv.idx_lt
    show s.cliqueIndex - 1 < t.snodePost.size
    omega
  · intro j hjle
    have hjle' : j ≤ s.cliqueIndex - 1 := hjle
    have hidx := inv.idx_lt
    obtain ⟨hl, hnp⟩ := inv.visit j (by omega)
    show Live _ (t.snodePost.getD j 0) ∧ _ ≠ noParent
    have hne : t.snodePost.getD j 0 ≠ t.snodePost.getD s.cliqueIndex 0 :=
      pcl_getD_ne_of_nodup inv.post_nodup (by omega) hidx (by omega)
    refine ⟨(hm.live_iff _).2 ⟨hne, hl⟩, ?_⟩
    by_cases hg : t.snodePost.getD j 0 ∈
        (t.snodeChildren.getD (t.snodePost.getD s.cliqueIndex 0) #[]).toList
    · show (mergedTree _ _ _).snodeParent.getD (t.snodePost.getD j 0) 0 ≠ noParent
      rw [hm.parent_grand _ hg]
      exact hm.p_ne_noParent
    · show (mergedTree _ _ _).snodeParent.getD (t.snodePost.getD j 0) 0 ≠ noParent
      rw [hm.parent_other _ hne hg]
      exact hnp
  · have := inv.ncl
    show s.cliqueIndex - 1 + 2 ≤ t.nCliques - 1
    omega

/-- [S] ONE PASS of the loop under the invariant: no panic; the new tree `t1` satisfies the
clique-tree invariant and is related to `t` by `PCLoopRel`; unless this was the last pass the
loop invariant holds again and the early exit `n_cliques == 1` is not taken -/
theorem pass (inv : PCLoopInv t ord s) (hstop : s.stop = false) (fuel : Nat) :
    ∃ t1, PCStrategy.loop (fuel + 1) s t =
        (if t1.nCliques == 1 then .ok t1 else PCStrategy.loop fuel s.next t1) ∧
      CTInv t1 ord ∧ PCLoopRel t t1 ∧
      (s.cliqueIndex ≠ 0 → PCLoopInv t1 ord s.next ∧ t1.nCliques ≠ 1) := by
  have hm := inv.mergeHyp
  have hev := inv.ct.evaluate_ok s hstop inv.cur.1 inv.cur.2
  have hncl := inv.ncl
  cases hb : evalVal s t (t.snodeParent.getD (t.snodePost.getD s.cliqueIndex 0) 0)
      (t.snodePost.getD s.cliqueIndex 0) with
  | false =>
    rw [hb] at hev
    refine ⟨t, ?_, inv.ct, PCLoopRel.refl t, fun hj => ⟨inv.next_of_skip hj, by omega⟩⟩
    exact PCStrategy.loop_succ fuel s t hstop inv.idx_lt inv.cur.1.1 false t hev rfl
  | true =>
    rw [hb] at hev
    refine ⟨_, ?_, inv.ct.merge hm, PCLoopRel.of_merge hm (by omega), fun hj =>
      ⟨inv.next_of_merge hj, ?_⟩⟩
    · refine PCStrategy.loop_succ fuel s t hstop inv.idx_lt inv.cur.1.1 true _ hev ?_
      simp only [if_true]
      have hi := inv.ct.toPCInv
      exact mergeTwoCliques_eq t _ _ hm.ne hm.p_lt hm.ch_lt (hi.sz_sep ▸ hm.ch_lt) hm.lc.1
        (hi.sz_ch ▸ hm.p_lt) (hi.sz_ch ▸ hm.ch_lt) hm.ch_mem
        (fun g hg => ((hm.mem_grand g).1 hg).1.1) (by omega)
    · show t.nCliques - 1 ≠ 1
      omega

end PCLoopInv

/-- [S] THE MERGE LOOP. Under the loop invariant, with the strategy not yet stopped, and for
every fuel `≥ cliqueIndex + 2` (in particular the fuel `snode.size + 1` that `mergeCliques` hands
out together with `cliqueIndex = snode.size - 2`): the loop returns a tree `t'` (fuel NOT
exhausted, no panic — no index out of range, `fill_in` and `n_cliques -= 1` do not underflow)
that satisfies the clique-tree invariant with the same rank function, and `PCLoopRel t t'`:
`snodePost`, `post`, `nblk` and all sizes unchanged, cliques only retired, every old live clique
contained in a new live clique, no vertex invented, and
`t'.nCliques + liveCount t = t.nCliques + liveCount t'`. -/
theorem PCStrategy.loop_spec {ord : Nat → Nat} : ∀ (fuel : Nat) (s : PCStrategy)
    (t : SuperNodeTree), PCLoopInv t ord s → s.stop = false → s.cliqueIndex + 2 ≤ fuel →
    ∃ t', PCStrategy.loop fuel s t = .ok t' ∧ CTInv t' ord ∧ PCLoopRel t t' := by
  intro fuel
  induction fuel with
  | zero => intro s t _ _ hf; omega
  | succ fuel ih =>
    intro s t inv hstop hf
    obtain ⟨t1, hrun, hct, hrel, hnext⟩ := inv.pass hstop fuel
    by_cases hj : s.cliqueIndex = 0
    · -- last pass: the strategy stops
      refine ⟨t1, ?_, hct, hrel⟩
      rw [hrun]
      by_cases h1 : (t1.nCliques == 1) = true
      · rw [if_pos h1]
      · rw [if_neg h1]
        obtain ⟨f, rfl⟩ : ∃ f, fuel = f + 1 := ⟨fuel - 1, by omega⟩
        exact PCStrategy.loop_stop f _ t1 (by rw [PCStrategy.next_of_eq s hj])
    · obtain ⟨inv1, hn1⟩ := hnext hj
      have hstop1 : s.next.stop = false := by rw [PCStrategy.next_of_ne s hj]; exact hstop
      have hidx1 : s.next.cliqueIndex = s.cliqueIndex - 1 := by rw [PCStrategy.next_of_ne s hj]
      obtain ⟨t', hrun', hct', hrel'⟩ := ih s.next t1 inv1 hstop1 (by omega)
      refine ⟨t', ?_, hct', hrel.trans hrel'⟩
      rw [hrun, if_neg (by simpa using hn1), hrun']

/-- [S] the clique counter stays equal to the number of live cliques -/
theorem PCLoopRel.nCliques_eq_liveCount {t t' : SuperNodeTree} (h : PCLoopRel t t')
    (h0 : t.nCliques = liveCount t) : t'.nCliques = liveCount t' := by
  have := h.count; omega

/-! ### the initial state of `merge_cliques` -/

/-- the state in which `merge_cliques` (parent–child strategy) is entered: a clique tree with at
least two cliques, all of them live, `snode_post` a post-order of all cliques with the only root
in last position -/
structure PCInit (t : SuperNodeTree) (ord : Nat → Nat) : Prop where
  ct : CTInv t ord
  two : 2 ≤ t.snode.size
  all_live : ∀ c, c < t.snode.size → Live t c
  post_size : t.snodePost.size = t.snode.size
  post_nodup : t.snodePost.toList.Nodup
  post_lt : ∀ c ∈ t.snodePost.toList, c < t.snode.size
  /-- every clique but the last of the post-order has a parent -/
  nonroot : ∀ j, j + 1 < t.snode.size →
      t.snodeParent.getD (t.snodePost.getD j 0) 0 ≠ noParent
  /-- the last clique of the post-order is a root -/
  root_last : t.snodeParent.getD (t.snodePost.getD (t.snode.size - 1) 0) 0 = noParent
  ncl : t.nCliques = t.snode.size

namespace PCInit
variable {t : SuperNodeTree} {ord : Nat → Nat}

/-- [S] entries of the post-order are valid clique indices -/
theorem post_getD_lt (h : PCInit t ord) {j : Nat} (hj : j < t.snode.size) :
    t.snodePost.getD j 0 < t.snode.size := by
  have hj' : j < t.snodePost.size := h.post_size ▸ hj
  rw [pcl_getD_eq_toList hj']
  exact h.post_lt _ (List.getElem_mem _)

/-- [S] the loop invariant holds on entry, with `clique_index = snode.len() - 2` -/
theorem loopInv (h : PCInit t ord) :
    PCLoopInv t ord { stop := false, cliqueIndex := t.snode.size - 2 } where
  ct := h.ct
  post_nodup := h.post_nodup
  idx_lt := by
    have := h.two; have := h.post_size
    show t.snode.size - 2 < t.snodePost.size
    omega
  visit := by
    intro j hj
    have hj' : j ≤ t.snode.size - 2 := hj
    have := h.two
    exact ⟨h.all_live _ (h.post_getD_lt (by omega)), h.nonroot j (by omega)⟩
  ncl := by
    have := h.two; have := h.ncl
    show t.snode.size - 2 + 2 ≤ t.nCliques
    omega

/-- [S] on entry the clique counter is the number of live cliques -/
theorem nCliques_eq_liveCount (h : PCInit t ord) : t.nCliques = liveCount t := by
  rw [h.ncl]
  unfold liveCount liveList
  rw [List.filter_eq_self.2, List.length_range, h.ct.sz_par]
  intro c hc
  have hc' : c < t.snode.size := h.ct.sz_par ▸ List.mem_range.1 hc
  simpa using (h.all_live c hc').2

/-- [S] on entry the last clique of the post-order is the only root -/
theorem root_unique (h : PCInit t ord) (c : Nat) (hl : Live t c)
    (hr : t.snodeParent.getD c 0 = noParent) :
    c = t.snodePost.getD (t.snode.size - 1) 0 := by
  have hc : c < t.snode.size := h.ct.sz_par ▸ hl.1
  have hperm := perm_range_of_nodup_lt h.post_nodup h.post_lt
    (by rw [Array.length_toList, h.post_size])
  have hmem : c ∈ t.snodePost.toList := hperm.mem_iff.2 (List.mem_range.2 hc)
  obtain ⟨j, hj, e⟩ := List.mem_iff_getElem.1 hmem
  have hj' : j < t.snodePost.size := by simpa using hj
  have e' : t.snodePost.getD j 0 = c := by rw [pcl_getD_eq_toList hj']; exact e
  by_cases hlast : j + 1 < t.snode.size
  · exact absurd hr (e' ▸ h.nonroot j hlast)
  · have : j = t.snode.size - 1 := by have := h.post_size; omega
    rw [← this, e']

end PCInit

/-- [S] THE LOOP AS CALLED BY `merge_cliques`: from the initial state the loop with the fuel
`snode.size + 1` and `clique_index = snode.len() - 2` returns (no panic, fuel not exhausted) a
tree satisfying the clique-tree invariant, related to the input by `PCLoopRel`, whose clique
counter is the number of live cliques -/
theorem PCStrategy.merge_cliques_loop_spec {t : SuperNodeTree} {ord : Nat → Nat}
    (h : PCInit t ord) :
    ∃ t', PCStrategy.loop (t.snode.size + 1)
        { stop := false, cliqueIndex := t.snode.size - 2 } t = .ok t' ∧
      CTInv t' ord ∧ PCLoopRel t t' ∧ t'.nCliques = liveCount t' := by
  have h2 := h.two
  obtain ⟨t', h1, hct, hrel⟩ := PCStrategy.loop_spec (ord := ord) (t.snode.size + 1)
    { stop := false, cliqueIndex := t.snode.size - 2 } t h.loopInv rfl
    (by show t.snode.size - 2 + 2 ≤ _; omega)
  exact ⟨t', h1, hct, hrel, hrel.nCliques_eq_liveCount h.nCliques_eq_liveCount⟩

/-! ### `post_process_merge`: the new post-order -/

section postprocess
variable {t : SuperNodeTree} {ord : Nat → Nat}

/-- [S] under the clique-tree invariant the children lists are exactly the children lists of the
parent array in the sense of `post_order` — also at the retired cliques: their marker
`INACTIVE_NODE` is not an index, nobody points to them, and their children list is empty -/
theorem CTInv.childrenOf (h : CTInv t ord) : ChildrenOf t.snodeParent t.snodeChildren where
  size_eq := h.sz_ch.trans h.sz_par.symm
  nodup := fun v hv => h.ch_nodup v (h.sz_par ▸ hv)
  mem_iff := by
    intro v c hv
    have hvs : v < t.snode.size := h.sz_par ▸ hv
    have hsm := h.small
    have hvi : v ≠ inactiveNode := by omega
    have hvn : v ≠ noParent := by
      have : inactiveNode < noParent := by decide
      omega
    by_cases hl : Live t v
    · rw [h.ch_iff v c hl]
      constructor
      · rintro ⟨hlc, hp⟩; exact ⟨hlc.1, hp⟩
      · rintro ⟨hc, hp⟩; exact ⟨⟨hc, by rw [hp]; exact hvi⟩, hp⟩
    · rw [h.dead_ch v hl]
      constructor
      · intro hx; simp at hx
      · rintro ⟨hc, hp⟩
        exfalso
        have hlc : Live t c := ⟨hc, by rw [hp]; exact hvi⟩
        exact hl (hp ▸ h.par_live c hlc (by rw [hp]; exact hvn))

/-- [S] whatever reaches a live clique by parent pointers is live -/
theorem CTInv.reaches_live (h : CTInv t ord) {r c : Nat} (hr : Live t r)
    (hc : Reaches t.snodeParent r c) : Live t c := by
  induction hc with
  | root => exact hr
  | step hlt _ ih =>
    refine ⟨hlt, ?_⟩
    have h1 : _ < t.snode.size := h.sz_par ▸ ih.1
    have := h.small
    omega

/-- [S] with a single root `r`, every live clique reaches `r` -/
theorem CTInv.reaches_root (h : CTInv t ord) {r : Nat}
    (huniq : ∀ c, Live t c → t.snodeParent.getD c 0 = noParent → c = r) :
    ∀ c, Live t c → Reaches t.snodeParent r c := by
  obtain ⟨N, hN⟩ := pcl_exists_bound ord t.snodeParent.size
  have key : ∀ k c, Live t c → N ≤ ord c + k → Reaches t.snodeParent r c := by
    intro k
    induction k with
    | zero =>
      intro c hl hk
      have := hN c hl.1
      omega
    | succ k ih =>
      intro c hl hk
      by_cases hnp : t.snodeParent.getD c 0 = noParent
      · rw [huniq c hl hnp]; exact Reaches.root
      · have hlt := h.ord_lt c hl hnp
        exact Reaches.step hl.1 (ih _ (h.par_live c hl hnp) (by omega))
  intro c hl
  exact key N c hl (by omega)

/-- [S] the first root found by `post_order` -/
theorem pcl_findIdx_root (parent : Array Nat) {r0 : Nat} (h0 : r0 < parent.size)
    (hr0 : parent.getD r0 0 = noParent) :
    ∃ r, parent.toList.findIdx? (· == noParent) = some r ∧ r < parent.size ∧
      parent.getD r 0 = noParent := by
  cases hf : parent.toList.findIdx? (· == noParent) with
  | none =>
    exfalso
    have h1 := List.findIdx?_eq_none_iff.1 hf (parent.toList[r0]'(by simpa using h0))
      (List.getElem_mem _)
    rw [pcl_getD_eq_toList h0] at hr0
    simp [hr0] at h1
  | some r =>
    obtain ⟨hlt, hp, _⟩ := List.findIdx?_eq_some_iff_getElem.1 hf
    have hlt' : r < parent.size := by simpa using hlt
    refine ⟨r, rfl, hlt', ?_⟩
    rw [pcl_getD_eq_toList hlt']
    simpa using hp

/-- [S] replacing the children lists by equivalent ones (and the post-order by anything) keeps
the clique-tree invariant -/
theorem CTInv.with_children (h : CTInv t ord) (post : Array Nat) (ch' : Array VSet)
    (hch : ChildrenOf t.snodeParent ch') :
    CTInv { t with snodePost := post, snodeChildren := ch' } ord where
  sz_sep := h.sz_sep
  sz_par := h.sz_par
  sz_ch := hch.size_eq.trans h.sz_par
  small := h.small
  par_live := h.par_live
  ch_iff := by
    intro p c hl
    have hl' : Live t p := hl
    show c ∈ (ch'.getD p #[]).toList ↔ Live t c ∧ t.snodeParent.getD c 0 = p
    rw [hch.mem_iff p c hl'.1]
    have hps : p < t.snode.size := h.sz_par ▸ hl'.1
    have := h.small
    constructor
    · rintro ⟨hc, hp⟩; exact ⟨⟨hc, by rw [hp]; omega⟩, hp⟩
    · rintro ⟨hlc, hp⟩; exact ⟨hlc.1, hp⟩
  ch_nodup := fun p hp => hch.nodup p (h.sz_par ▸ hp)
  sep_sub := h.sep_sub
  sn_nodup := h.sn_nodup
  sep_nodup := h.sep_nodup
  sn_disj := h.sn_disj
  ord_lt := h.ord_lt
  root_sep := h.root_sep
  dead_snode := h.dead_snode
  dead_sep := h.dead_sep
  dead_ch := by
    intro c hl
    have hl' : ¬ Live t c := hl
    show ch'.getD c #[] = #[]
    by_cases hc : c < t.snodeParent.size
    · have hnone : ∀ x, x ∉ (ch'.getD c #[]).toList := by
        intro x hx
        obtain ⟨hxl, hxp⟩ := (hch.mem_iff c x hc).1 hx
        have hcs : c < t.snode.size := h.sz_par ▸ hc
        have hsm := h.small
        have hlx : Live t x := ⟨hxl, by rw [hxp]; omega⟩
        have hcn : c ≠ noParent := by
          have : inactiveNode < noParent := by decide
          omega
        exact hl' (hxp ▸ h.par_live x hlx (by rw [hxp]; exact hcn))
      have : (ch'.getD c #[]).toList = [] := List.eq_nil_iff_forall_not_mem.2 hnone
      exact Array.toList_eq_nil_iff.1 this
    · exact pcl_getD_oob _ _ _ (by rw [hch.size_eq]; exact hc)

end postprocess

/-- [S] the last element of a repetition-free list is followed by nothing -/
theorem pcl_not_sublist_last {l : List Nat} {x y : Nat} (hnd : (l ++ [x]).Nodup) :
    ¬ List.Sublist [x, y] (l ++ [x]) := by
  intro h
  have h' := h.reverse
  simp only [List.reverse_cons, List.reverse_nil, List.nil_append, List.reverse_append,
    List.cons_append] at h'
  have hx : x ∉ l := by
    intro hx
    exact (List.nodup_append.1 hnd).2.2 x hx x (by simp) rfl
  cases h' with
  | cons _ h'' => exact hx (List.mem_reverse.1 (h''.subset (by simp)))
  | cons_cons _ h'' => exact hx (List.mem_reverse.1 (h''.subset (by simp)))

/-- [S] if every element but `r` is followed by some element, `r` is the last one -/
theorem pcl_last_of_sublist {l : List Nat} (hnd : l.Nodup) {r : Nat} (hr : r ∈ l)
    (h : ∀ c ∈ l, c ≠ r → ∃ y, List.Sublist [c, y] l) : l.getLast? = some r := by
  rcases List.eq_nil_or_concat l with e | ⟨L, x, e⟩
  · subst e; simp at hr
  · rw [List.concat_eq_append] at e
    subst e
    by_cases hx : x = r
    · subst hx; simp
    · obtain ⟨y, hy⟩ := h x (by simp) hx
      exact absurd hy (pcl_not_sublist_last hnd)
/-- [S] `merge_cliques` FOR THE PARENT–CHILD STRATEGY, END TO END. From the initial state
(`PCInit`): `initialise` does not underflow, the loop returns `t'` (see
`merge_cliques_loop_spec`), and `post_process_merge` — `post_order` on the parent array of `t'`,
in which the retired cliques carry the marker `INACTIVE_NODE` — terminates without panic. The
result is `t'` with the new `snode_post = post` and the sorted children lists `ch'`; it satisfies
the clique-tree invariant; `post` lists exactly the live cliques, without repetition, has
`n_cliques` entries, and lists every live non-root clique before its parent; the root of the
input tree is still live, is the only root, and is the last entry of `post`. -/
theorem PCStrategy.merge_cliques_pc_spec {t : SuperNodeTree} {ord : Nat → Nat}
    (h : PCInit t ord) :
    ∃ t' post ch',
      PCStrategy.loop (t.snode.size + 1)
        { stop := false, cliqueIndex := t.snode.size - 2 } t = .ok t' ∧
      PCStrategy.mergeCliques t = .ok { t' with snodePost := post, snodeChildren := ch' } ∧
      CTInv t' ord ∧ PCLoopRel t t' ∧ t'.nCliques = liveCount t' ∧
      CTInv { t' with snodePost := post, snodeChildren := ch' } ord ∧
      post.toList.Nodup ∧ post.size = t'.nCliques ∧
      (∀ c, c ∈ post.toList ↔ Live t' c) ∧
      (∀ c, Live t' c → t'.snodeParent.getD c 0 ≠ noParent →
        List.Sublist [c, t'.snodeParent.getD c 0] post.toList) ∧
      Live t' (t.snodePost.getD (t.snode.size - 1) 0) ∧
      (∀ c, Live t' c → (t'.snodeParent.getD c 0 = noParent ↔
        c = t.snodePost.getD (t.snode.size - 1) 0)) ∧
      post.toList.getLast? = some (t.snodePost.getD (t.snode.size - 1) 0) := by
  obtain ⟨t', hloop, hct, hrel, hncl⟩ := PCStrategy.merge_cliques_loop_spec h
  -- the root
  have h2 := h.two
  have hr0lt : t.snodePost.getD (t.snode.size - 1) 0 < t.snode.size :=
    h.post_getD_lt (by omega)
  obtain ⟨hr0l, hr0p⟩ := hrel.root_keep _ (h.all_live _ hr0lt) h.root_last
  obtain ⟨r, hfind, hrlt, hrp⟩ := pcl_findIdx_root t'.snodeParent hr0l.1 hr0p
  have hrl : Live t' r := ⟨hrlt, by rw [hrp]; decide⟩
  have huniq : ∀ c, Live t' c → t'.snodeParent.getD c 0 = noParent → c = r := by
    intro c hl hp
    rw [h.root_unique c (hrel.live_sub c hl) (hrel.root_of c hl hp),
      h.root_unique r (hrel.live_sub r hrl) (hrel.root_of r hrl hrp)]
  have hsmall : t'.snodeParent.size < noParent := by
    have := hct.small; have := hct.sz_par
    have : inactiveNode < noParent := by decide
    omega
  obtain ⟨post, ch', hpo, hnd, _, hsz, hch', hsub, hall⟩ :=
    post_order_spec t'.snodeParent t'.snodeChildren t'.nCliques r hct.childrenOf hsmall hrlt hfind
      (by
        intro l hl hreach
        rw [hncl]
        exact length_le_liveCount t' hl (fun c hc => hct.reaches_live hrl (hreach c hc).2))
  have hcnt : liveCount t' ≤ t'.snodeParent.size := by
    unfold liveCount liveList
    exact Nat.le_trans (List.length_filter_le _ _) (by rw [List.length_range])
  have hsz' : post.size = t'.nCliques := by rw [hsz, hncl]; omega
  have hlive_mem : ∀ c, Live t' c → c ∈ post.toList :=
    fun c hl => hall c (hct.reaches_root huniq c hl)
  -- `post` is a permutation of the live cliques
  have hperm : (liveList t').Perm post.toList :=
    ((liveList_nodup t').subperm (fun c hc => hlive_mem c ((mem_liveList t' c).1 hc))).perm_of_length_le
      (by rw [Array.length_toList, hsz', hncl]; exact Nat.le_refl _)
  have hr0 : t.snodePost.getD (t.snode.size - 1) 0 = r := huniq _ hr0l hr0p
  have hbefore : ∀ c, Live t' c → t'.snodeParent.getD c 0 ≠ noParent →
      List.Sublist [c, t'.snodeParent.getD c 0] post.toList := by
    intro c hl hnp
    have hlp := hct.par_live c hl hnp
    refine hsub c _ (hlive_mem c hl) (hlive_mem _ hlp) (hct.reaches_root huniq c hl) ?_ rfl
    intro e
    exact hnp (e ▸ hrp)
  refine ⟨t', post, ch', hloop, ?_, hct, hrel, hncl, hct.with_children post ch' hch', hnd, hsz', ?_,
    hbefore, hr0l, ?_, ?_⟩
  · unfold PCStrategy.mergeCliques
    rw [if_neg (by omega)]
    simp only []
    rw [hloop, pcl_ok_bind, hpo, pcl_ok_bind]
    rfl
  · intro c
    rw [← hperm.mem_iff, mem_liveList]
  · intro c hl
    rw [hr0]
    exact ⟨huniq c hl, fun e => e ▸ hrp⟩
  · rw [hr0]
    refine pcl_last_of_sublist hnd (hlive_mem r hrl) ?_
    intro c hc hcr
    have hl : Live t' c := (mem_liveList t' c).1 (hperm.mem_iff.2 hc)
    exact ⟨_, hbefore c hl (fun e => hcr (huniq c hl e))⟩

/-! ### non-vacuity: a concrete clique tree -/

/-- [S] the chain `0 → 1 → 2` with cliques `{1,2 | 3}`, `{3 | 4}`, `{4,5}` satisfies the clique-tree
invariant with the rank `ord c = c` -/
theorem exTree_ct : CTInv exTree (fun c => c) where
  toPCInv := exTree_inv
  sn_nodup := by
    intro c hc
    rw [exTree_live] at hc
    obtain rfl | rfl | rfl : c = 0 ∨ c = 1 ∨ c = 2 := by omega
    all_goals decide
  sep_nodup := by
    intro c hc
    rw [exTree_live] at hc
    obtain rfl | rfl | rfl : c = 0 ∨ c = 1 ∨ c = 2 := by omega
    all_goals decide
  sn_disj := by
    intro a b ha hb hab
    rw [exTree_live] at ha hb
    obtain rfl | rfl | rfl : a = 0 ∨ a = 1 ∨ a = 2 := by omega
    all_goals
      obtain rfl | rfl | rfl : b = 0 ∨ b = 1 ∨ b = 2 := by omega
      all_goals first | exact absurd rfl hab | decide
  ord_lt := by
    intro c hc
    rw [exTree_live] at hc
    obtain rfl | rfl | rfl : c = 0 ∨ c = 1 ∨ c = 2 := by omega
    all_goals decide
  root_sep := by
    intro c hc
    rw [exTree_live] at hc
    obtain rfl | rfl | rfl : c = 0 ∨ c = 1 ∨ c = 2 := by omega
    · intro h; exact absurd h (by decide)
    · intro h; exact absurd h (by decide)
    · intro _; rfl
  dead_snode := by
    intro c hc
    rw [exTree_live] at hc
    exact pcl_getD_oob _ _ _ hc
  dead_sep := by
    intro c hc
    rw [exTree_live] at hc
    exact pcl_getD_oob _ _ _ hc
  dead_ch := by
    intro c hc
    rw [exTree_live] at hc
    exact pcl_getD_oob _ _ _ hc

/-- [S] `exTree` is a valid initial state of `merge_cliques` -/
theorem exTree_init : PCInit exTree (fun c => c) where
  ct := exTree_ct
  two := by decide
  all_live := fun c hc => (exTree_live c).2 hc
  post_size := rfl
  post_nodup := by decide
  post_lt := by decide
  nonroot := by
    intro j hj
    have hj' : j + 1 < 3 := hj
    obtain rfl | rfl : j = 0 ∨ j = 1 := by omega
    all_goals decide
  root_last := by decide
  ncl := rfl

/-- `exTree` after both merges: everything ends up in the root clique -/
def exTreeFinal : SuperNodeTree :=
  { snode := #[#[], #[], #[4, 5, 3, 1, 2]]
    snodePost := #[0, 1, 2]
    snodeParent := #[inactiveNode, inactiveNode, noParent]
    snodeChildren := #[#[], #[], #[]]
    post := #[0, 1, 2, 3, 4]
    separators := #[#[], #[], #[]]
    nblk := none
    nCliques := 1 }

/-- [S] second merge of the example: clique `0` into the root -/
theorem exTreeMerged_merge : PCStrategy.mergeTwoCliques exTreeMerged (2, 0) = .ok exTreeFinal := by
  rw [mergeTwoCliques_eq exTreeMerged 2 0 (by decide) (by decide) (by decide) (by decide) (by decide)
    (by decide) (by decide) (by decide) (by decide) (by decide)]
  simp [mergedTree, exTreeFinal, exTreeMerged, reparent, VSet.extend, VSet.insert, VSet.shiftRemove]

/-- [S] first merge of the example: clique `1` into the root -/
theorem exTree_merge : PCStrategy.mergeTwoCliques exTree (2, 1) = .ok exTreeMerged := by
  rw [mergeTwoCliques_eq exTree 2 1 (by decide) (by decide) (by decide) (by decide) (by decide)
    (by decide) (by decide) (by decide) (by decide) (by decide)]
  simp [mergedTree, exTree, exTreeMerged, reparent, VSet.extend, VSet.insert, VSet.shiftRemove]

/-- [S] the merge loop on `exTree` (entered as in `merge_cliques`: `clique_index = 3 - 2`, fuel
`3 + 1`) merges `1` into `2`, then `0` into `2`, and stops with one clique -/
theorem exTree_loop : PCStrategy.loop 4 { stop := false, cliqueIndex := 1 } exTree = .ok exTreeFinal := by
  rw [PCStrategy.loop_succ 3 { stop := false, cliqueIndex := 1 } exTree rfl (by decide) (by decide)
    true exTreeMerged rfl exTree_merge]
  rw [if_neg (by decide)]
  have e : PCStrategy.next { stop := false, cliqueIndex := 1 } = { stop := false, cliqueIndex := 0 } := rfl
  rw [e, PCStrategy.loop_succ 2 { stop := false, cliqueIndex := 0 } exTreeMerged rfl (by decide) (by decide)
    true exTreeFinal rfl exTreeMerged_merge]
  rfl


/-- non-vacuity of `CTInv.merge`: the first merge of the example keeps the clique-tree invariant -/
example : CTInv (mergedTree exTree 2 1) (fun c => c) :=
  exTree_ct.merge ⟨exTree_inv, (exTree_live 2).2 (by decide), (exTree_live 1).2 (by decide),
    by decide, by decide⟩

/-- non-vacuity of `CTInv.sep_eq_inter`: in `exTree` the separator `{3}` of clique `0` is
`{1,2,3} ∩ {3,4}` -/
example (v : Nat) : v ∈ (exTree.separators.getD 0 #[]).toList ↔
    v ∈ cliqueList exTree 0 ∧ v ∈ cliqueList exTree (exTree.snodeParent.getD 0 0) :=
  exTree_ct.sep_eq_inter ((exTree_live 0).2 (by decide)) (by decide) v

/-- non-vacuity of `CTInv.runInt`, `CTInv.running_intersection`: `exTree` has the running
intersection property; vertex `4` (in cliques `1` and `2`) has the top clique `2` -/
example : RunInt exTree := exTree_ct.runInt

example : ∃ x, Live exTree x ∧ 4 ∈ (exTree.snode.getD x #[]).toList ∧ Anc exTree 1 x ∧
    Anc exTree 2 x :=
  let ⟨x, h1, h2, h3, h4, _⟩ := exTree_ct.running_intersection (v := 4)
    ((exTree_live 1).2 (by decide)) (by decide) ((exTree_live 2).2 (by decide)) (by decide)
  ⟨x, h1, h2, h3, h4⟩

/-- non-vacuity of `CTInv.evaluate_ok` / `CTInv.sep_size_le`: `|sep(0)| = 1 ≤ |clique(1)| = 2` -/
example : (exTree.separators.getD 0 #[]).size ≤
    (exTree.snode.getD (exTree.snodeParent.getD 0 0) #[]).size +
    (exTree.separators.getD (exTree.snodeParent.getD 0 0) #[]).size :=
  exTree_ct.sep_size_le ((exTree_live 0).2 (by decide)) (by decide)

/-- non-vacuity of `PCStrategy.loop_spec` / `merge_cliques_loop_spec`: the hypotheses hold for
`exTree`, and the tree the theorem speaks about is `exTreeFinal` -/
example : ∃ t', PCStrategy.loop 4 { stop := false, cliqueIndex := 1 } exTree = .ok t' ∧
    t' = exTreeFinal ∧ CTInv t' (fun c => c) ∧ PCLoopRel exTree t' ∧
    t'.nCliques = liveCount t' := by
  obtain ⟨t', h1, h2, h3, h4⟩ := PCStrategy.merge_cliques_loop_spec exTree_init
  have e : t' = exTreeFinal := by
    have h1' : PCStrategy.loop 4 { stop := false, cliqueIndex := 1 } exTree = .ok t' := h1
    rw [exTree_loop] at h1'
    injection h1' with h1'
    exact h1'.symm
  exact ⟨t', h1, e, h2, h3, h4⟩

/-- non-vacuity of `PCStrategy.merge_cliques_pc_spec`: `merge_cliques` on `exTree` returns a tree
satisfying the clique-tree invariant whose post-order has one entry, the old root `2` -/
example : ∃ t'', PCStrategy.mergeCliques exTree = .ok t'' ∧ CTInv t'' (fun c => c) ∧
    t''.snodePost.toList.getLast? = some 2 := by
  obtain ⟨t', post, ch', _, h2, _, _, _, h6, _, _, _, _, _, _, h12⟩ :=
    PCStrategy.merge_cliques_pc_spec exTree_init
  exact ⟨_, h2, h6, h12⟩

end Clarabel.Chordal
