/-
  Non-vacuity data for `C11.assembled_symOf_eq_listKkt` / `C11.kkt_factorisation_signs_assembled`
  (over ℝ): `P = 0` (2×2, nothing stored: both diagonal entries are filled in by the assembly),
  `A` 6×2 with two entries, cones `[nonneg 1, soc 5]` (one sparse expansion), scaling
  `[nonneg (1), socSparse 5]` with `w = e₀`, `η = 1`; static regulariser `const = 1`, `prop = 0`
  (so `ε = 1`).  Every hypothesis of the two theorems holds for what the model's own
  `assemble_kkt_matrix`, `update`, `_fill_signs` and `regularize_and_refactor` return.
-/
import ClarabelModel.Kkt
import ClarabelProofs.Lemmas.KktSymOfMain
import ClarabelProofs.Lemmas.KktUpdateTotal

set_option linter.unusedSectionVars false
set_option linter.unusedVariables false

namespace Clarabel.Lemmas.KktSymOfExample
open Clarabel Clarabel.Csc Clarabel.Kkt Clarabel.Qdldl
open Clarabel.Lemmas.KktTotal Clarabel.Lemmas.KktSpec
open Clarabel.Lemmas.KktSymOfIdx Clarabel.Lemmas.KktSymOfEntries Clarabel.Lemmas.KktSymOfValues
open Clarabel.Lemmas.KktSymOfMain
open Clarabel.Lemmas.KktInertia Clarabel.Lemmas.KktInertiaList Clarabel.Lemmas.KktInertiaCones
open Clarabel.Lemmas.KktUpdateAsm Clarabel.Lemmas.KktExpansion

/-- the cone list of the example -/
def exCones : List ConeSpec := [.nonneg 1, .soc 5]

noncomputable def exP : Csc ℝ := ⟨2, 2, #[0, 0, 0], #[], #[]⟩
noncomputable def exA : Csc ℝ := ⟨6, 2, #[0, 1, 2], #[0, 3], #[7, -2]⟩

theorem exInputs : KktInputs exP exA exCones := by
  refine ⟨⟨rfl, rfl, ?_, rfl, rfl, ?_, ?_⟩, ?_, rfl, ⟨rfl, rfl, ?_, rfl, rfl, ?_, ?_⟩, rfl, rfl⟩
  · intro i hi; match i, hi with
    | 0, _ => decide
    | 1, _ => decide
  · intro j hj; exact absurd hj (by show ¬ j < 0; omega)
  · intro i hi j h1 h2; match i, hi with
    | 0, _ => exact absurd h2 (by show ¬ j + 1 < 0; omega)
    | 1, _ => exact absurd h2 (by show ¬ j + 1 < 0; omega)
  · intro i hi j h1 h2; match i, hi with
    | 0, _ => exact absurd h2 (by show ¬ j < 0; omega)
    | 1, _ => exact absurd h2 (by show ¬ j < 0; omega)
  · intro i hi; match i, hi with
    | 0, _ => decide
    | 1, _ => decide
  · intro j hj; match j, hj with
    | 0, _ => decide
    | 1, _ => decide
  · intro i hi j h1 h2; match i, hi with
    | 0, _ => exact absurd h2 (by show ¬ j + 1 < 1; omega)
    | 1, _ => exact absurd (show 1 ≤ j from h1) (by have : j + 1 < 2 := h2; omega)

theorem exP_zero (x x' : Nat) : symOf exP x x' = 0 := by
  unfold symOf
  apply denseOf_not_stored
  rintro ⟨t, _, h2, _⟩
  have : exP.colptr.getD (max x x' + 1) 0 = 0 := by
    show (#[0, 0, 0] : Array Nat).getD (max x x' + 1) 0 = 0
    generalize max x x' + 1 = j
    match j with
    | 0 => rfl
    | 1 => rfl
    | 2 => rfl
    | j + 3 => simp [Array.getD_eq_getD_getElem?]
  omega

theorem exP_psd : PosSemidef (PdOf exP exA.n) := by
  refine ⟨fun i j => ?_, fun x => ?_⟩
  · show symOf exP i.val j.val = symOf exP j.val i.val
    rw [exP_zero, exP_zero]
  · have : PdOf exP exA.n = fun _ _ => 0 := by
      funext i j; exact exP_zero _ _
    rw [this]
    simp [qf]

/-- **all hypotheses of `C11.assembled_symOf_eq_listKkt` and
`C11.kkt_factorisation_signs_assembled` hold together** on the example -/
theorem exAssembled :
    ∃ (K : Csc ℝ) (map : LDLDataMap) (scal : List (ConeScaling ℝ)) (nz' : Array ℝ)
      (blocks : List (Array ℝ)) (ds : Array Int) (rr : Regularized ℝ) (nzF : Array ℝ),
      assembleKktMatrix exP exA exCones .triu = .ok (K, map) ∧
      LayoutFits scal exCones ∧ (∀ i (hi : i < scal.length), VecFits scal[i]) ∧
      updateValues K.nzval map scal = .ok nz' ∧ scal.mapM getHs = .ok blocks ∧
      fillSigns exA.m exA.n map.sparse_maps = .ok ds ∧
      regularizeAndRestore nz' map.diag_full ds true 1 0 = .ok (rr, nzF) ∧
      0 < rr.eps ∧ 0 < K.n ∧
      (∀ i y s, 0 ≤ expForm (HOf exCones blocks i) (VOf exCones scal i) (eOf exCones scal i) y s) := by
  have hin := exInputs
  obtain ⟨K, map, sched, Kc, nd, R⟩ := assembleKktMatrix_run exP exA exCones .triu hin.P_canon
    hin.P_triu hin.P_square hin.A_canon hin.n_eq hin.m_eq
  have hasm := R.ok
  have hs := soc_sparse_real (n := 4) (1 : ℝ) (fun _ => 0) (by simp [dot])
  obtain ⟨d, u0, u1, v1, hs⟩ : ∃ d u0 u1 v1, SocSparse (n := 4) (1 : ℝ) (fun _ => 0) d u0 u1 v1 :=
    ⟨_, _, _, _, hs⟩
  let u : Array ℝ := Array.ofFn (socU u0 u1 (fun _ : Fin 4 => (0 : ℝ)))
  let v : Array ℝ := Array.ofFn (socV v1 (fun _ : Fin 4 => (0 : ℝ)))
  let scal : List (ConeScaling ℝ) := [.nonneg #[1], .socSparse 5 1 u v d]
  have hfits : LayoutFits scal exCones :=
    List.Forall₂.cons (by simp [ScalingFits])
      (List.Forall₂.cons (by simp [ScalingFits, socNoExpansionMaxSize]) List.Forall₂.nil)
  have hvec : ∀ i (hi : i < scal.length), VecFits scal[i] := by
    intro i hi
    match i, hi with
    | 0, _ => trivial
    | 1, _ => exact ⟨by simp [u], by simp [v]⟩
  obtain ⟨blocks, hget⟩ := Clarabel.Lemmas.KktRun.mapM_exists (getHs (α := ℝ)) scal (by
    intro c hc
    simp only [scal, List.mem_cons, List.mem_nil_iff, or_false] at hc
    rcases hc with rfl | rfl
    · exact ⟨_, rfl⟩
    · exact ⟨_, rfl⟩)
  obtain ⟨nz', hup⟩ := Clarabel.Lemmas.KktUpdateTotal.assemble_update_total hin hasm K.nzval rfl
    scal hfits blocks hget
  obtain ⟨ds, hds, _⟩ := R.signs_at
  have hsz := (assemble_update_PA hin hasm scal nz' hup).1
  obtain ⟨rr, nzF, hreg⟩ := regularize_exists hin hasm nz' hsz ds 1 0
  have heps : rr.eps = 1 := by
    obtain ⟨dk, _, _, he, _⟩ := regularizeAndRestore_inv hreg
    rw [he]
    simp [computeRegularizer]
  refine ⟨K, map, scal, nz', blocks, ds, rr, nzF, hasm, hfits, hvec, hup, hget, hds, hreg,
    by rw [heps]; exact one_pos, ?_, ?_⟩
  · rw [R.mat.n_eq]
    show 0 < 2 + 6 + _
    omega
  · intro i
    match i with
    | ⟨0, h0⟩ =>
      have hblk : blockAt blocks 0 = (#[(1 : ℝ)]).map (fun w => w * w) :=
        block_at hget 0 (by simp [scal]) rfl
      exact form_of_nonsparse blocks scal ⟨0, h0⟩ rfl
        (qf_HOf_diag_nonneg blocks ⟨0, h0⟩ rfl (by
          intro a
          show 0 ≤ (blockAt blocks 0).getD a 0
          rw [hblk]
          rcases a with _ | a
          · simp
          · simp))
    | ⟨1, h1⟩ =>
      exact form_soc scal hfits blocks hget ⟨1, h1⟩ (k := 4) rfl (by decide)
        (η := 1) (d := d) (u := u) (v := v) rfl
        (w0 := 1) (u0 := u0) (u1 := u1) (v1 := v1) (w1 := fun _ => 0)
        (by intro j; simp [v]) hs

end Clarabel.Lemmas.KktSymOfExample
