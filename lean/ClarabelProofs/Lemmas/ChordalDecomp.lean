/-
  Theorems about the model of Clarabel's chordal *standard decomposition*
  (`ClarabelModel/Chordal/AugStd.lean`, `ClarabelModel/Chordal/Reverse.lean`).

  Tags: `[S]` structural (no arithmetic law of the scalar is used; holds at `Float`),
        `[F]` uses commutative (semi)ring / field laws.
-/
import ClarabelModel.Chordal.Reverse
import ClarabelProofs.Lemmas.ChordalTriIndex
import Mathlib.Tactic.Ring
import Mathlib.Tactic.Linarith
import Mathlib.Algebra.Ring.Defs
import Mathlib.Data.List.Nodup
import ClarabelModel.Vec
import Mathlib.Algebra.BigOperators.Group.List.Basic

namespace Clarabel.Chordal
open ChordalInfo

/-! ## 1. `add_subblock_map` -/

/-- pushing the images of a list one by one is appending the mapped list -/
private theorem foldl_push_eq_append {β γ : Type} (f : γ → β) (l : List γ) (a : Array β) :
    l.foldl (fun acc x => acc.push (f x)) a = a ++ (l.map f).toArray := by
  induction l generalizing a with
  | nil => simp
  | cons x xs ih =>
    simp only [List.foldl_cons, ih, List.map_cons]
    apply Array.ext'
    simp

/-- appending list blocks one by one is appending the `flatMap` -/
private theorem foldl_append_eq_flatMap {β γ : Type} (g : γ → List β) (l : List γ) (a : Array β) :
    l.foldl (fun acc x => acc ++ (g x).toArray) a = a ++ (l.flatMap g).toArray := by
  induction l generalizing a with
  | nil => simp
  | cons x xs ih =>
    simp only [List.foldl_cons, ih, List.flatMap_cons]
    apply Array.ext'
    simp

private theorem getD_append_toArray_mem {β : Type} (a : Array β) (l : List β) (k : Nat) (d : β)
    (h1 : a.size ≤ k) (h2 : k < a.size + l.length) : (a ++ l.toArray).getD k d ∈ l := by
  have hnk : ¬ k < a.size := by omega
  simp only [Array.getD_eq_getD_getElem?, Array.getElem?_append, hnk, if_false]
  rw [List.getElem?_toArray, List.getElem?_eq_getElem (by omega), Option.getD_some]
  exact List.getElem_mem _

private theorem getD_append_left {β : Type} (a b : Array β) (k : Nat) (d : β) (h : k < a.size) :
    (a ++ b).getD k d = a.getD k d := by
  simp only [Array.getD_eq_getD_getElem?, Array.getElem?_append, h, if_true]

private theorem getD_append_right {β : Type} (a b : Array β) (k : Nat) (d : β) (h : a.size ≤ k) :
    (a ++ b).getD k d = b.getD (k - a.size) d := by
  have hnk : ¬ k < a.size := by omega
  simp only [Array.getD_eq_getD_getElem?, Array.getElem?_append, hnk, if_false]

/-- the entries that `add_subblock_map` appends: the packed upper triangle, column by column -/
def subblockEntries (v : Array Nat) (rowStart : Nat) : List Nat :=
  (List.range v.size).flatMap (fun j => (List.range (j + 1)).map (fun i =>
    rowStart + coordToUpperTriangularIndex (v.getD i 0, v.getD j 0)))

/-- [S] `add_subblock_map` appends the packed indices of the upper triangle of the clique
block, column by column -/
theorem add_subblock_map_spec (HI v : Array Nat) (rowStart : Nat) :
    addSubblockMap HI v rowStart = HI ++ ((List.range v.size).flatMap (fun j =>
      (List.range (j + 1)).map (fun i =>
        rowStart + coordToUpperTriangularIndex (v.getD i 0, v.getD j 0)))).toArray := by
  unfold addSubblockMap
  simp only [foldl_push_eq_append]
  exact foldl_append_eq_flatMap _ _ _

private theorem length_flatMap_range_succ {β : Type} (f : Nat → Nat → β) (n : Nat) :
    ((List.range n).flatMap (fun j => (List.range (j + 1)).map (f j))).length
      = triangularNumber n := by
  induction n with
  | zero => rfl
  | succ k ih =>
    rw [List.range_succ, List.flatMap_append, List.length_append, ih, triangularNumber_succ]
    simp
    omega

/-- [S] `add_subblock_map` appends `triangularNumber v.size` entries -/
theorem add_subblock_map_size (HI v : Array Nat) (rowStart : Nat) :
    (addSubblockMap HI v rowStart).size = HI.size + triangularNumber v.size := by
  simp only [add_subblock_map_spec, Array.size_append, List.size_toArray]
  rw [length_flatMap_range_succ (fun j i => rowStart + coordToUpperTriangularIndex (v.getD i 0, v.getD j 0))]

/-- [S] the old entries are kept -/
theorem add_subblock_map_old (HI v : Array Nat) (rowStart k : Nat) (hk : k < HI.size) :
    (addSubblockMap HI v rowStart).getD k 0 = HI.getD k 0 := by
  rw [add_subblock_map_spec]
  exact getD_append_left _ _ _ _ hk

example : (addSubblockMap #[7, 8] #[0, 2] 10).getD 1 0 = (#[7, 8] : Array Nat).getD 1 0 :=
  add_subblock_map_old _ _ _ _ (by decide)

/-- [S] every new entry addresses a row of the `d × d` triangle starting at `rowStart` when
the clique is sorted with entries `< d` -/
theorem add_subblock_map_range (v : Array Nat) (rowStart d : Nat)
    (hd : ∀ i, i < v.size → v.getD i 0 < d)
    (hmono : ∀ i j, i ≤ j → j < v.size → v.getD i 0 ≤ v.getD j 0) :
    ∀ e ∈ subblockEntries v rowStart, rowStart ≤ e ∧ e < rowStart + triangularNumber d := by
  intro e he
  unfold subblockEntries at he
  simp only [List.mem_flatMap, List.mem_range, List.mem_map] at he
  obtain ⟨j, hj, i, hi, rfl⟩ := he
  have h1 := hmono i j (by omega) hj
  have h2 := coord_index_lt h1 (hd j hj)
  omega

/-- [S] the same, stated on the result array -/
theorem add_subblock_map_range' (HI v : Array Nat) (rowStart d : Nat)
    (hd : ∀ i, i < v.size → v.getD i 0 < d)
    (hmono : ∀ i j, i ≤ j → j < v.size → v.getD i 0 ≤ v.getD j 0)
    (k : Nat) (hk1 : HI.size ≤ k) (hk2 : k < (addSubblockMap HI v rowStart).size) :
    rowStart ≤ (addSubblockMap HI v rowStart).getD k 0 ∧
      (addSubblockMap HI v rowStart).getD k 0 < rowStart + triangularNumber d := by
  rw [add_subblock_map_spec] at hk2 ⊢
  apply add_subblock_map_range v rowStart d hd hmono
  simp only [Array.size_append, List.size_toArray] at hk2
  exact getD_append_toArray_mem _ _ _ _ hk1 hk2

example : 10 ≤ (addSubblockMap #[7, 8] #[0, 2] 10).getD 3 0 ∧
    (addSubblockMap #[7, 8] #[0, 2] 10).getD 3 0 < 10 + triangularNumber 3 :=
  add_subblock_map_range' #[7, 8] #[0, 2] 10 3
    (by intro i hi; have : i = 0 ∨ i = 1 := by simp at hi; omega
        rcases this with rfl | rfl <;> decide)
    (by intro i j hij hj
        have : (i = 0 ∧ j = 0) ∨ (i = 0 ∧ j = 1) ∨ (i = 1 ∧ j = 1) := by simp at hj; omega
        rcases this with ⟨rfl, rfl⟩ | ⟨rfl, rfl⟩ | ⟨rfl, rfl⟩ <;> decide)
    3 (by decide) (by decide)

example : ∀ e ∈ subblockEntries #[0, 2] 10, 10 ≤ e ∧ e < 10 + triangularNumber 3 :=
  add_subblock_map_range #[0, 2] 10 3
    (by intro i hi; have : i = 0 ∨ i = 1 := by simp at hi; omega
        rcases this with rfl | rfl <;> decide)
    (by intro i j hij hj
        have : (i = 0 ∧ j = 0) ∨ (i = 0 ∧ j = 1) ∨ (i = 1 ∧ j = 1) := by simp at hj; omega
        rcases this with ⟨rfl, rfl⟩ | ⟨rfl, rfl⟩ | ⟨rfl, rfl⟩ <;> decide)


private theorem nodup_tri (F : Nat → Nat → Nat) (n : Nat)
    (hinj : ∀ i j i' j', i ≤ j → j < n → i' ≤ j' → j' < n → F j i = F j' i' → i = i' ∧ j = j') :
    ((List.range n).flatMap (fun j => (List.range (j + 1)).map (F j))).Nodup := by
  induction n with
  | zero => simp
  | succ k ih =>
    rw [List.range_succ, List.flatMap_append, List.flatMap_singleton, List.nodup_append]
    refine ⟨ih (fun i j i' j' h1 h2 h3 h4 => hinj i j i' j' h1 (by omega) h3 (by omega)), ?_, ?_⟩
    · refine List.Nodup.map_on ?_ List.nodup_range
      intro i hi i' hi' he
      exact (hinj i k i' k (by simpa [Nat.lt_succ_iff] using hi) (by omega)
        (by simpa [Nat.lt_succ_iff] using hi') (by omega) he).1
    · intro a ha b hb hab
      simp only [List.mem_flatMap, List.mem_map, List.mem_range] at ha hb
      obtain ⟨j, hj, i, hi, rfl⟩ := ha
      obtain ⟨i', hi', rfl⟩ := hb
      have := (hinj i j i' k (by omega) (by omega) (by omega) (by omega) hab).2
      omega

/-- [S] for a strictly increasing clique the appended entries are pairwise distinct: the
columns of `H` that belong to one clique hit pairwise different rows -/
theorem add_subblock_map_injective (v : Array Nat) (rowStart : Nat)
    (hv : ∀ i j, i < j → j < v.size → v.getD i 0 < v.getD j 0) :
    (subblockEntries v rowStart).Nodup := by
  unfold subblockEntries
  apply nodup_tri (fun j i => rowStart + coordToUpperTriangularIndex (v.getD i 0, v.getD j 0))
  intro i j i' j' h1 h2 h3 h4 he
  have mono : ∀ a b, a ≤ b → b < v.size → v.getD a 0 ≤ v.getD b 0 := by
    intro a b hab hb
    rcases Nat.lt_or_ge a b with h | h
    · exact Nat.le_of_lt (hv a b h hb)
    · have : a = b := by omega
      subst this; exact Nat.le_refl _
  have inj : ∀ a b, a < v.size → b < v.size → v.getD a 0 = v.getD b 0 → a = b := by
    intro a b ha hb hab
    rcases Nat.lt_trichotomy a b with h | h | h
    · have := hv a b h hb; omega
    · exact h
    · have := hv b a h ha; omega
  have he' : coordToUpperTriangularIndex (v.getD i 0, v.getD j 0)
      = coordToUpperTriangularIndex (v.getD i' 0, v.getD j' 0) := by
    have he2 : rowStart + coordToUpperTriangularIndex (v.getD i 0, v.getD j 0) = rowStart + coordToUpperTriangularIndex (v.getD i' 0, v.getD j' 0) := he
    omega
  have e := congrArg upperTriangularIndexToCoord he'
  rw [coord_index_inv (mono i j h1 h2), coord_index_inv (mono i' j' h3 h4)] at e
  have e1 := congrArg Prod.fst e
  have e2 := congrArg Prod.snd e
  exact ⟨inj i i' (by omega) (by omega) e1, inj j j' h2 h4 e2⟩

example : (subblockEntries #[0, 2] 10).Nodup :=
  add_subblock_map_injective #[0, 2] 10 (by
    intro i j hij hj
    have : i = 0 ∧ j = 1 := by simp at hj; omega
    obtain ⟨rfl, rfl⟩ := this
    decide)

/-- [S] the same on the result array: two new positions with the same content coincide -/
theorem add_subblock_map_injective' (HI v : Array Nat) (rowStart : Nat)
    (hv : ∀ i j, i < j → j < v.size → v.getD i 0 < v.getD j 0) (k1 k2 : Nat)
    (h1 : HI.size ≤ k1) (h2 : HI.size ≤ k2)
    (hk1 : k1 < (addSubblockMap HI v rowStart).size)
    (hk2 : k2 < (addSubblockMap HI v rowStart).size)
    (he : (addSubblockMap HI v rowStart).getD k1 0 = (addSubblockMap HI v rowStart).getD k2 0) :
    k1 = k2 := by
  have hnd := add_subblock_map_injective v rowStart hv
  rw [add_subblock_map_spec] at hk1 hk2 he
  change (HI ++ (subblockEntries v rowStart).toArray).getD k1 0
    = (HI ++ (subblockEntries v rowStart).toArray).getD k2 0 at he
  change k1 < (HI ++ (subblockEntries v rowStart).toArray).size at hk1
  change k2 < (HI ++ (subblockEntries v rowStart).toArray).size at hk2
  simp only [Array.size_append, List.size_toArray] at hk1 hk2
  rw [getD_append_right _ _ _ _ h1, getD_append_right _ _ _ _ h2] at he
  simp only [Array.getD_eq_getD_getElem?, List.getElem?_toArray] at he
  rw [List.getElem?_eq_getElem (by omega), List.getElem?_eq_getElem (by omega),
    Option.getD_some, Option.getD_some] at he
  have := (List.Nodup.getElem_inj_iff hnd).1 he
  omega

example : ∀ k1 k2, 2 ≤ k1 → 2 ≤ k2 → k1 < (addSubblockMap #[7, 8] #[0, 2] 10).size →
    k2 < (addSubblockMap #[7, 8] #[0, 2] 10).size →
    (addSubblockMap #[7, 8] #[0, 2] 10).getD k1 0 = (addSubblockMap #[7, 8] #[0, 2] 10).getD k2 0 →
    k1 = k2 :=
  add_subblock_map_injective' #[7, 8] #[0, 2] 10 (by
    intro i j hij hj
    have : i = 0 ∧ j = 1 := by simp at hj; omega
    obtain ⟨rfl, rfl⟩ := this
    decide)

/-! ## 2. `H x` and the row sums of `H` -/

section Gemv
variable {α : Type}

private theorem getE_eq_ok {β : Type} (xs : Array β) (i : Nat) (s : String) (d : β)
    (h : i < xs.size) : getE xs i s = .ok (xs.getD i d) := by
  unfold getE
  simp [h, pure, Except.pure]

private theorem setE_eq_ok {β : Type} (xs : Array β) (i : Nat) (v : β) (s : String)
    (h : i < xs.size) : setE xs i v s = .ok (xs.setIfInBounds i v) := by
  unfold setE
  simp [h, Array.setIfInBounds, pure, Except.pure]

private theorem getD_setIfInBounds {β : Type} (xs : Array β) (i j : Nat) (v d : β)
    (h : i < xs.size) :
    (xs.setIfInBounds i v).getD j d = if i = j then v else xs.getD j d := by
  by_cases hij : i = j
  · subst hij; simp [Array.getD_eq_getD_getElem?, h]
  · simp [Array.getD_eq_getD_getElem?, hij]

private theorem getD_replicate {β : Type} (n i : Nat) (v : β) :
    (Array.replicate n v).getD i v = v := by
  by_cases h : i < n <;> simp [Array.getD_eq_getD_getElem?, h]

/-- the loop of `hGemv` from an arbitrary start vector -/
private theorem hGemv_loop [Add α] [Mul α] [OfNat α 0] [OfNat α 1] (rows : Nat)
    (HI : Array Nat) (x : Array α) (hx : x.size = HI.size)
    (hHI : ∀ j, j < HI.size → HI.getD j 0 < rows)
    (l : List Nat) (hl : ∀ j ∈ l, j < HI.size) (y0 : Array α) (hy0 : y0.size = rows) :
    ∃ y, l.foldlM (fun (y : Array α) j => do
        let r := HI.getD j 0
        let yr ← getE y r "gemv"
        let xj ← getE x j "gemv"
        setE y r (yr + 1 * xj) "gemv") y0 = .ok y ∧ y.size = rows ∧
      ∀ r, r < rows → y.getD r 0 = l.foldl (fun acc j =>
        if HI.getD j 0 = r then acc + 1 * x.getD j 0 else acc) (y0.getD r 0) := by
  induction l generalizing y0 with
  | nil => exact ⟨y0, rfl, hy0, fun r _ => rfl⟩
  | cons j t ih =>
    have hj : j < HI.size := hl j (by simp)
    have hr : HI.getD j 0 < y0.size := by rw [hy0]; exact hHI j hj
    obtain ⟨y, h1, h2, h3⟩ := ih (fun j' hj' => hl j' (List.mem_cons_of_mem _ hj'))
      (y0.setIfInBounds (HI.getD j 0) (y0.getD (HI.getD j 0) 0 + 1 * x.getD j 0))
      (by simpa using hy0)
    refine ⟨y, ?_, h2, fun r hrr => ?_⟩
    · simp only [List.foldlM_cons, getE_eq_ok y0 _ _ 0 hr, getE_eq_ok x j _ 0 (hx ▸ hj),
        setE_eq_ok _ _ _ _ hr, bind, Except.bind]
      exact h1
    · rw [h3 r hrr, List.foldl_cons, getD_setIfInBounds _ _ _ _ _ hr]
      by_cases e : HI.getD j 0 = r
      · subst e; simp only [if_true]
      · simp only [e, if_false]

/-- [S] `H x` never panics when the dimensions agree and all row indices are in range; row `r`
of the result is the left-to-right sum of the `x[j]` whose column `j` has its `1` in row `r`
("the slack of the original problem is the sum of the clique blocks"). -/
theorem h_gemv_spec [Add α] [Mul α] [OfNat α 0] [OfNat α 1] (rows : Nat) (HI : Array Nat)
    (x : Array α) (hx : x.size = HI.size) (hHI : ∀ j, j < HI.size → HI.getD j 0 < rows) :
    ∃ y, hGemv rows HI x = .ok y ∧ y.size = rows ∧
      ∀ r, r < rows → y.getD r 0 = (List.range HI.size).foldl (fun acc j =>
        if HI.getD j 0 = r then acc + 1 * x.getD j 0 else acc) 0 := by
  obtain ⟨y, h1, h2, h3⟩ := hGemv_loop rows HI x hx hHI (List.range HI.size)
    (fun j hj => List.mem_range.1 hj) (Array.replicate rows 0) (by simp)
  refine ⟨y, ?_, h2, fun r hr => ?_⟩
  · unfold hGemv
    simp only [hx, bne_self_eq_false, Bool.false_eq_true, if_false]
    exact h1
  · rw [h3 r hr, getD_replicate]

example : ∃ y, hGemv (α := Int) 2 #[0, 1, 0] #[5, 6, 7] = .ok y ∧ y.size = 2 ∧
    ∀ r, r < 2 → y.getD r 0 = (List.range (#[0, 1, 0] : Array Nat).size).foldl (fun acc j =>
      if (#[0, 1, 0] : Array Nat).getD j 0 = r then acc + 1 * (#[5, 6, 7] : Array Int).getD j 0
      else acc) 0 :=
  h_gemv_spec 2 #[0, 1, 0] #[5, 6, 7] rfl (by
    intro j hj
    have : j = 0 ∨ j = 1 ∨ j = 2 := by simp at hj; omega
    rcases this with rfl | rfl | rfl <;> decide)

/-- the loop of `hRowSums` from an arbitrary start vector -/
private theorem hRowSums_loop [Add α] [OfNat α 0] [OfNat α 1] (rows : Nat)
    (l : List Nat) (hl : ∀ r ∈ l, r < rows) (y0 : Array α) (hy0 : y0.size = rows) :
    ∃ y, l.foldlM (fun (y : Array α) r => do
        let yr ← getE y r "row_sums"
        setE y r (yr + 1) "row_sums") y0 = .ok y ∧ y.size = rows ∧
      ∀ r, r < rows → y.getD r 0 = l.foldl (fun acc r' =>
        if r' = r then acc + 1 else acc) (y0.getD r 0) := by
  induction l generalizing y0 with
  | nil => exact ⟨y0, rfl, hy0, fun r _ => rfl⟩
  | cons j t ih =>
    have hr : j < y0.size := by rw [hy0]; exact hl j (by simp)
    obtain ⟨y, h1, h2, h3⟩ := ih (fun j' hj' => hl j' (List.mem_cons_of_mem _ hj'))
      (y0.setIfInBounds j (y0.getD j 0 + 1)) (by simpa using hy0)
    refine ⟨y, ?_, h2, fun r hrr => ?_⟩
    · simp only [List.foldlM_cons, getE_eq_ok y0 _ _ 0 hr, setE_eq_ok _ _ _ _ hr, bind,
        Except.bind]
      exact h1
    · rw [h3 r hrr, List.foldl_cons, getD_setIfInBounds _ _ _ _ _ hr]
      by_cases e : j = r
      · subst e; simp only [if_true]
      · simp only [e, if_false]

private theorem toList_eq_map_range {β : Type} (a : Array β) (d : β) :
    a.toList = (List.range a.size).map (fun j => a.getD j d) := by
  apply List.ext_getElem
  · simp
  · intro i h1 h2
    have : i < a.size := by simpa using h1
    simp [Array.getD_eq_getD_getElem?, this]

/-- [S] `row_sums(H)` never panics when all row indices are in range; entry `r` counts (by
repeated `+ 1` from `0`) the columns of `H` whose `1` is in row `r`. -/
theorem h_row_sums_spec [Add α] [OfNat α 0] [OfNat α 1] (rows : Nat) (HI : Array Nat)
    (hHI : ∀ j, j < HI.size → HI.getD j 0 < rows) :
    ∃ y : Array α, hRowSums rows HI = .ok y ∧ y.size = rows ∧
      ∀ r, r < rows → y.getD r 0 = (List.range HI.size).foldl (fun acc j =>
        if HI.getD j 0 = r then acc + 1 else acc) 0 := by
  have hl : ∀ r ∈ HI.toList, r < rows := by
    intro r hr
    rw [toList_eq_map_range HI 0] at hr
    simp only [List.mem_map, List.mem_range] at hr
    obtain ⟨j, hj, rfl⟩ := hr
    exact hHI j hj
  obtain ⟨y, h1, h2, h3⟩ := hRowSums_loop (α := α) rows HI.toList hl (Array.replicate rows 0)
    (by simp)
  refine ⟨y, h1, h2, fun r hr => ?_⟩
  rw [h3 r hr, getD_replicate]
  conv => lhs; rw [toList_eq_map_range HI 0]
  rw [List.foldl_map]

example : ∃ y : Array Int, hRowSums 2 #[0, 1, 0] = .ok y ∧ y.size = 2 ∧
    ∀ r, r < 2 → y.getD r 0 = (List.range (#[0, 1, 0] : Array Nat).size).foldl (fun acc j =>
      if (#[0, 1, 0] : Array Nat).getD j 0 = r then acc + 1 else acc) 0 :=
  h_row_sums_spec 2 #[0, 1, 0] (by
    intro j hj
    have : j = 0 ∨ j = 1 ∨ j = 2 := by simp at hj; omega
    rcases this with rfl | rfl | rfl <;> decide)

/-- [F] over a semiring a guarded accumulation is the sum of the selected terms -/
theorem foldl_guard_eq_sum [Semiring α] (p : Nat → Prop) [DecidablePred p] (f : Nat → α)
    (l : List Nat) (a : α) :
    l.foldl (fun acc j => if p j then acc + 1 * f j else acc) a
      = a + ((l.filter (fun j => decide (p j))).map f).sum := by
  induction l generalizing a with
  | nil => simp
  | cons j t ih =>
    rw [List.foldl_cons, ih]
    by_cases hp : p j
    · simp [hp, add_assoc]
    · simp [hp]

/-- [F] over a semiring a guarded count is the (cast of the) number of selected indices -/
theorem foldl_guard_eq_count [Semiring α] (p : Nat → Prop) [DecidablePred p]
    (l : List Nat) (a : α) :
    l.foldl (fun acc j => if p j then acc + 1 else acc) a
      = a + ((l.filter (fun j => decide (p j))).length : α) := by
  induction l generalizing a with
  | nil => simp
  | cons j t ih =>
    rw [List.foldl_cons, ih]
    by_cases hp : p j
    · simp [hp, add_assoc, add_comm]
    · simp [hp]

/-- [F] over a semiring, row `r` of `H x` is the sum of the `x[j]` with `HI[j] = r` -/
theorem h_gemv_sum [Semiring α] (rows : Nat) (HI : Array Nat)
    (x : Array α) (hx : x.size = HI.size) (hHI : ∀ j, j < HI.size → HI.getD j 0 < rows) :
    ∃ y, hGemv rows HI x = .ok y ∧ y.size = rows ∧
      ∀ r, r < rows → y.getD r 0 =
        (((List.range HI.size).filter (fun j => decide (HI.getD j 0 = r))).map
          (fun j => x.getD j 0)).sum := by
  obtain ⟨y, h1, h2, h3⟩ := h_gemv_spec rows HI x hx hHI
  refine ⟨y, h1, h2, fun r hr => ?_⟩
  rw [h3 r hr, foldl_guard_eq_sum (fun j => HI.getD j 0 = r), zero_add]

/-- [F] over a semiring, entry `r` of `row_sums(H)` is the number of columns with `HI[j] = r` -/
theorem h_row_sums_count [Semiring α] (rows : Nat) (HI : Array Nat)
    (hHI : ∀ j, j < HI.size → HI.getD j 0 < rows) :
    ∃ y : Array α, hRowSums rows HI = .ok y ∧ y.size = rows ∧
      ∀ r, r < rows → y.getD r 0 =
        (((List.range HI.size).filter (fun j => decide (HI.getD j 0 = r))).length : α) := by
  obtain ⟨y, h1, h2, h3⟩ := h_row_sums_spec (α := α) rows HI hHI
  refine ⟨y, h1, h2, fun r hr => ?_⟩
  rw [h3 r hr, foldl_guard_eq_count (fun j => HI.getD j 0 = r), zero_add]

example : ∃ y : Array Int, hRowSums 2 #[0, 1, 0] = .ok y ∧ y.size = 2 ∧
    ∀ r, r < 2 → y.getD r 0 =
      (((List.range (#[0, 1, 0] : Array Nat).size).filter
        (fun j => decide ((#[0, 1, 0] : Array Nat).getD j 0 = r))).length : Int) :=
  h_row_sums_count 2 #[0, 1, 0] (by
    intro j hj
    have : j = 0 ∨ j = 1 ∨ j = 2 := by simp at hj; omega
    rcases this with rfl | rfl | rfl <;> decide)

example : ∃ y, hGemv (α := Int) 2 #[0, 1, 0] #[5, 6, 7] = .ok y ∧ y.size = 2 ∧
    ∀ r, r < 2 → y.getD r 0 =
      (((List.range (#[0, 1, 0] : Array Nat).size).filter
        (fun j => decide ((#[0, 1, 0] : Array Nat).getD j 0 = r))).map
          (fun j => (#[5, 6, 7] : Array Int).getD j 0)).sum :=
  h_gemv_sum 2 #[0, 1, 0] #[5, 6, 7] rfl (by
    intro j hj
    have : j = 0 ∨ j = 1 ∨ j = 2 := by simp at hj; omega
    rcases this with rfl | rfl | rfl <;> decide)

end Gemv

/-! ## 3. `decomp_reverse_standard` -/

section Reverse
variable {α : Type}

/-- the averaging step of `decomp_reverse_standard` on one row -/
private def avgStep [Div α] [OfNat α 1] [LT α] [DecidableLT α] (c : Array α) (z : Array α)
    (ri : Nat) : Array α :=
  match c[ri]?, z[ri]? with
  | some c, some zr => if (1 : α) < c then z.setIfInBounds ri (zr / c) else z
  | _, _ => z

private theorem avgStep_size [Div α] [OfNat α 1] [LT α] [DecidableLT α] (c z : Array α)
    (ri : Nat) : (avgStep c z ri).size = z.size := by
  unfold avgStep
  split
  · split <;> simp
  · rfl

private theorem avgStep_getD [Div α] [OfNat α 0] [OfNat α 1] [LT α] [DecidableLT α]
    (c z : Array α) (ri r : Nat) (hc : ri < c.size) (hz : ri < z.size) :
    (avgStep c z ri).getD r 0 =
      if ri = r then (if (1 : α) < c.getD r 0 then z.getD r 0 / c.getD r 0 else z.getD r 0)
      else z.getD r 0 := by
  have e1 : c[ri]? = some (c.getD ri 0) := by simp [Array.getD_eq_getD_getElem?, hc]
  have e2 : z[ri]? = some (z.getD ri 0) := by simp [Array.getD_eq_getD_getElem?, hz]
  unfold avgStep
  simp only [e1, e2]
  by_cases hlt : (1 : α) < c.getD ri 0
  · simp only [hlt, if_true, getD_setIfInBounds _ _ _ _ _ hz]
    by_cases e : ri = r
    · subst e; simp only [if_true, hlt]
    · simp only [e, if_false]
  · simp only [hlt, if_false]
    by_cases e : ri = r
    · subst e; simp only [if_true, hlt, if_false]
    · simp only [e, if_false]

private theorem avgLoop [Div α] [OfNat α 0] [OfNat α 1] [LT α] [DecidableLT α]
    (c z0 : Array α) (n : Nat) (hc : n ≤ c.size) (hz : n ≤ z0.size) :
    ((List.range n).foldl (avgStep c) z0).size = z0.size ∧
    ∀ r, ((List.range n).foldl (avgStep c) z0).getD r 0 =
      if r < n then (if (1 : α) < c.getD r 0 then z0.getD r 0 / c.getD r 0 else z0.getD r 0)
      else z0.getD r 0 := by
  induction n with
  | zero => simp
  | succ k ih =>
    obtain ⟨ih1, ih2⟩ := ih (by omega) (by omega)
    rw [List.range_succ, List.foldl_append, List.foldl_cons, List.foldl_nil]
    refine ⟨by rw [avgStep_size, ih1], fun r => ?_⟩
    rw [avgStep_getD _ _ _ _ (by omega) (by rw [ih1]; omega), ih2 r]
    by_cases e : k = r
    · subst e; simp
    · have : r < k + 1 ↔ r < k := by omega
      simp only [e, if_false, this]

/-- [S] `decomp_reverse_standard` never panics on well-dimensioned input; `s = H s̃`, and
`z[r] = (H z̃)[r] / c_r` when `1 < c_r`, else `(H z̃)[r]`, where `c = row_sums(H)`.  (Combine
with `h_gemv_spec` / `h_row_sums_spec` for the entries of `H s̃`, `H z̃`, `c`.) -/
theorem decomp_reverse_standard_spec [Add α] [Mul α] [Div α] [OfNat α 0] [OfNat α 1] [LT α]
    [DecidableLT α] (h : ChordalInfo.StdH) (m : Nat) (oldS oldZ : Array α)
    (hlen : h.HI.size = h.lenH) (hHI : ∀ j, j < h.HI.size → h.HI.getD j 0 < m)
    (hrows : h.rows = m) (hS : oldS.size = m + h.lenH) (hZ : oldZ.size = m + h.lenH) :
    ∃ s zt c z : Array α,
      hGemv m h.HI (oldS.extract m oldS.size) = .ok s ∧
      hGemv m h.HI (oldZ.extract m oldZ.size) = .ok zt ∧
      hRowSums h.rows h.HI = .ok c ∧
      decompReverseStandard h m oldS oldZ = .ok (s, z) ∧
      s.size = m ∧ zt.size = m ∧ c.size = m ∧ z.size = m ∧
      ∀ r, r < m → z.getD r 0 =
        if (1 : α) < c.getD r 0 then zt.getD r 0 / c.getD r 0 else zt.getD r 0 := by
  obtain ⟨s, hs1, hs2, _⟩ := h_gemv_spec m h.HI (oldS.extract m oldS.size)
    (by simp; omega) hHI
  obtain ⟨zt, hz1, hz2, _⟩ := h_gemv_spec m h.HI (oldZ.extract m oldZ.size)
    (by simp; omega) hHI
  obtain ⟨c, hc1, hc2, _⟩ := h_row_sums_spec (α := α) h.rows h.HI (by rw [hrows]; exact hHI)
  obtain ⟨l1, l2⟩ := avgLoop c zt c.size (Nat.le_refl _) (by rw [hz2, hc2, hrows])
  refine ⟨s, zt, c, (List.range c.size).foldl (avgStep c) zt, hs1, hz1, hc1, ?_, hs2, hz2,
    by rw [hc2, hrows], by rw [l1, hz2], fun r hr => ?_⟩
  · unfold decompReverseStandard
    have hn : ¬ (oldS.size < m ∨ oldZ.size < m) := by omega
    simp only [hn, if_false, hs1, hz1, hc1, bind, Except.bind, pure, Except.pure]
    rfl
  · rw [l2 r, if_pos (by rw [hc2, hrows]; exact hr)]

example : ∃ s zt c z : Array Int,
    hGemv 2 #[0, 1, 0] ((#[0, 0, 5, 6, 7] : Array Int).extract 2 5) = .ok s ∧
    hGemv 2 #[0, 1, 0] ((#[0, 0, 1, 2, 3] : Array Int).extract 2 5) = .ok zt ∧
    hRowSums 2 #[0, 1, 0] = .ok c ∧
    decompReverseStandard ⟨2, 3, #[0, 1, 0], #[]⟩ 2 #[0, 0, 5, 6, 7] #[0, 0, 1, 2, 3] = .ok (s, z) ∧
    s.size = 2 ∧ zt.size = 2 ∧ c.size = 2 ∧ z.size = 2 ∧
    ∀ r, r < 2 → z.getD r 0 =
      if (1 : Int) < c.getD r 0 then zt.getD r 0 / c.getD r 0 else zt.getD r 0 :=
  decomp_reverse_standard_spec ⟨2, 3, #[0, 1, 0], #[]⟩ 2 #[0, 0, 5, 6, 7] #[0, 0, 1, 2, 3] rfl
    (by
      intro j hj
      have : j = 0 ∨ j = 1 ∨ j = 2 := by simp at hj; omega
      rcases this with rfl | rfl | rfl <;> decide) rfl rfl rfl

private theorem getD_extract_tail {β : Type} (a : Array β) (m j : Nat) (d : β) :
    (a.extract m a.size).getD j d = a.getD (m + j) d := by
  simp only [Array.getD_eq_getD_getElem?, Array.getElem?_extract, Nat.min_self]
  by_cases hj : j < a.size - m
  · simp only [hj, if_true]
  · have : ¬ m + j < a.size := by omega
    simp [hj, this]

/-- [S] `decomp_reverse_standard`, row by row in terms of the input vectors: with
`c_r` = number (by repeated `+ 1`) of columns `j` of `H` with `HI[j] = r`,
`s[r] = Σ_{HI[j] = r} old_s[m + j]` and `z[r] = (Σ_{HI[j] = r} old_z[m + j]) / c_r` if
`1 < c_r`, else the plain sum; all sums accumulate left to right from `0` as `acc + 1 * v`. -/
theorem decomp_reverse_standard_rows [Add α] [Mul α] [Div α] [OfNat α 0] [OfNat α 1] [LT α]
    [DecidableLT α] (h : ChordalInfo.StdH) (m : Nat) (oldS oldZ : Array α)
    (hlen : h.HI.size = h.lenH) (hHI : ∀ j, j < h.HI.size → h.HI.getD j 0 < m)
    (hrows : h.rows = m) (hS : oldS.size = m + h.lenH) (hZ : oldZ.size = m + h.lenH) :
    ∃ s z : Array α, decompReverseStandard h m oldS oldZ = .ok (s, z) ∧
      s.size = m ∧ z.size = m ∧
      ∀ r, r < m →
        s.getD r 0 = (List.range h.HI.size).foldl (fun acc j =>
          if h.HI.getD j 0 = r then acc + 1 * oldS.getD (m + j) 0 else acc) 0 ∧
        z.getD r 0 =
          (let t : α := (List.range h.HI.size).foldl (fun acc j =>
            if h.HI.getD j 0 = r then acc + 1 * oldZ.getD (m + j) 0 else acc) 0
           let c : α := (List.range h.HI.size).foldl (fun acc j =>
            if h.HI.getD j 0 = r then acc + 1 else acc) 0
           if (1 : α) < c then t / c else t) := by
  obtain ⟨s, zt, c, z, hs, hzt, hc, hd, h1, _, _, h4, h5⟩ :=
    decomp_reverse_standard_spec h m oldS oldZ hlen hHI hrows hS hZ
  obtain ⟨s', hs1, _, hs3⟩ := h_gemv_spec m h.HI (oldS.extract m oldS.size)
    (by simp; omega) hHI
  obtain ⟨zt', hz1, _, hz3⟩ := h_gemv_spec m h.HI (oldZ.extract m oldZ.size)
    (by simp; omega) hHI
  obtain ⟨c', hc1, _, hc3⟩ := h_row_sums_spec (α := α) h.rows h.HI (by rw [hrows]; exact hHI)
  obtain rfl : s' = s := Except.ok.inj (hs1.symm.trans hs)
  obtain rfl : zt' = zt := Except.ok.inj (hz1.symm.trans hzt)
  obtain rfl : c' = c := Except.ok.inj (hc1.symm.trans hc)
  refine ⟨s', z, hd, h1, h4, fun r hr => ⟨?_, ?_⟩⟩
  · rw [hs3 r hr]; simp only [getD_extract_tail]
  · rw [h5 r hr, hz3 r hr, hc3 r (by rw [hrows]; exact hr)]; simp only [getD_extract_tail]

example : ∃ s z : Array Int,
    decompReverseStandard ⟨2, 3, #[0, 1, 0], #[]⟩ 2 #[0, 0, 5, 6, 7] #[0, 0, 1, 2, 3] = .ok (s, z) ∧
    s = #[12, 6] ∧ z = #[2, 2] := ⟨_, _, rfl, rfl, rfl⟩

end Reverse

/-! ## 4. the augmented problem data `A_new = [A H; 0 -I]` -/

section Augment
variable {α : Type}

private theorem extract_prefix_append {β : Type} (a b : Array β) (n lo hi : Nat) (h1 : hi ≤ n)
    (h2 : n ≤ a.size) : (a.extract 0 n ++ b).extract lo hi = a.extract lo hi := by
  rw [Array.extract_append, Array.extract_extract]
  have e1 : (a.extract 0 n).size = n := by simp; omega
  rw [e1, show hi - n = 0 by omega, Array.extract_zero, Array.append_empty,
    Nat.zero_add, Nat.zero_add, Nat.min_eq_left h1]

private theorem extract_suffix_append {β : Type} (a b : Array β) (n lo hi : Nat)
    (h2 : n ≤ a.size) : (a.extract 0 n ++ b).extract (n + lo) (n + hi) = b.extract lo hi := by
  have e1 : (a.extract 0 n).size = n := by simp; omega
  rw [Array.extract_append, e1, Array.extract_eq_empty_of_le (by rw [e1]; omega),
    Array.empty_append, Nat.add_sub_cancel_left, Nat.add_sub_cancel_left]

private theorem toList_eq_pair {β : Type} (a : Array β) (x y : β) (h : a.size = 2)
    (h0 : a[0]? = some x) (h1 : a[1]? = some y) : a.toList = [x, y] := by
  obtain ⟨l⟩ := a
  match l, h with
  | [p, q], _ => simp at h0 h1; simp [h0, h1]

private theorem extract_two {β : Type} (a : Array β) (lo : Nat) (x y : β)
    (h0 : a[lo]? = some x) (h1 : a[lo + 1]? = some y) :
    (a.extract lo (lo + 2)).toList = [x, y] := by
  have hs : lo + 1 < a.size := by
    rcases Nat.lt_or_ge (lo + 1) a.size with h | h
    · exact h
    · rw [Array.getElem?_eq_none h] at h1; cases h1
  apply toList_eq_pair
  · simp; omega
  · rw [Array.getElem?_extract]; simp [h0]; omega
  · rw [Array.getElem?_extract]; simp [h1]; omega

private theorem pushPair_spec {β : Type} (f g : Nat → β) (n : Nat) :
    ((List.range n).foldl (fun (a : Array β) j => (a.push (f j)).push (g j)) #[]).size = 2 * n ∧
    ∀ j, j < n →
      ((List.range n).foldl (fun (a : Array β) j => (a.push (f j)).push (g j)) #[])[2 * j]?
        = some (f j) ∧
      ((List.range n).foldl (fun (a : Array β) j => (a.push (f j)).push (g j)) #[])[2 * j + 1]?
        = some (g j) := by
  induction n with
  | zero => simp
  | succ k ih =>
    obtain ⟨ih1, ih2⟩ := ih
    rw [List.range_succ, List.foldl_append, List.foldl_cons, List.foldl_nil]
    refine ⟨by simp [ih1]; omega, fun j hj => ?_⟩
    by_cases hjk : j < k
    · obtain ⟨a1, a2⟩ := ih2 j hjk
      constructor
      · rw [Array.getElem?_push, Array.getElem?_push]
        simp only [Array.size_push, ih1]
        rw [if_neg (by omega), if_neg (by omega)]; exact a1
      · rw [Array.getElem?_push, Array.getElem?_push]
        simp only [Array.size_push, ih1]
        rw [if_neg (by omega), if_neg (by omega)]; exact a2
    · have : j = k := by omega
      subst this
      constructor
      · rw [Array.getElem?_push, Array.getElem?_push]; simp [ih1]
      · rw [Array.getElem?_push]; simp [ih1]

private theorem getD_map_range (f : Nat → Nat) (n j : Nat) (h : j < n) :
    ((List.range n).map f).toArray.getD j 0 = f j := by
  simp [Array.getD_eq_getD_getElem?, h]

/-- the column pointer of `[A H; 0 -I]` -/
private theorem augColptr_getD (cp : Array Nat) (n k nnz : Nat) (hcp : cp.size = n + 1)
    (hnnz : cp.getD n 0 = nnz) :
    (∀ j, j ≤ n → (cp.extract 0 (n + 1) ++
        ((List.range k).map (fun j => nnz + 2 * (j + 1))).toArray).getD j 0 = cp.getD j 0) ∧
    (∀ j, j ≤ k → (cp.extract 0 (n + 1) ++
        ((List.range k).map (fun j => nnz + 2 * (j + 1))).toArray).getD (n + j) 0
          = nnz + 2 * j) := by
  rw [Array.extract_eq_self_of_le (by omega)]
  have h1 : ∀ j, j ≤ n → (cp ++
        ((List.range k).map (fun j => nnz + 2 * (j + 1))).toArray).getD j 0 = cp.getD j 0 :=
    fun j hj => getD_append_left _ _ _ _ (by omega)
  refine ⟨h1, fun j hj => ?_⟩
  rcases j with _ | j
  · rw [Nat.add_zero, h1 n (Nat.le_refl _), hnnz]; rfl
  · rw [getD_append_right _ _ _ _ (by omega), hcp,
      show n + (j + 1) - (n + 1) = j by omega, getD_map_range _ _ _ (by omega)]

/-- [S] a successful `decomp_augment_standard` returns exactly the data of its definition
(this is also the fallback "shape" statement: dimensions, `colptr`, `rowval`, `nzval`) -/
theorem decomp_augment_standard_unfold [OfNat α 0] [OfNat α 1] [Neg α] (ci : ChordalInfo)
    (P : Csc α) (q : Array α) (A : Csc α) (b : Array α)
    (Pn : Csc α) (qn : Array α) (An : Csc α) (bn : Array α) (cones : Array Cone) (h : StdH)
    (hok : decompAugmentStandard ci P q A b = .ok (Pn, qn, An, bn, cones, h)) :
    ci.findStandardHAndCones = .ok h ∧ P.m = P.n ∧ A.m = h.rows ∧
    Pn = padSquare P h.lenH ∧ qn = q ++ Array.replicate h.lenH 0 ∧
    An = { m := A.m + h.lenH, n := A.n + h.lenH,
           colptr := (A.colptr.extract 0 (A.n + 1)) ++
             ((List.range h.lenH).map (fun j => A.colptr.getD A.n 0 + 2 * (j + 1))).toArray,
           rowval := (A.rowval.extract 0 (A.colptr.getD A.n 0)) ++
             ((List.range h.lenH).foldl (fun (a : Array Nat) j =>
               (a.push (h.HI.getD j 0)).push (A.m + j)) #[]),
           nzval := (A.nzval.extract 0 (A.colptr.getD A.n 0)) ++
             ((List.range h.lenH).foldl (fun (a : Array α) _ => (a.push 1).push (-1)) #[]) } ∧
    bn = b ++ Array.replicate h.lenH 0 ∧ cones = h.conesNew := by
  unfold decompAugmentStandard at hok
  cases hf : ci.findStandardHAndCones with
  | error e => rw [hf] at hok; simp [bind, Except.bind] at hok
  | ok h' =>
    rw [hf] at hok
    simp only [bind, Except.bind] at hok
    by_cases h1 : P.m = P.n
    · by_cases h2 : A.m = h'.rows
      · simp [h1, h2, pure, Except.pure] at hok
        obtain ⟨e1, e2, e3, e4, e5, e6⟩ := hok
        subst e6
        refine ⟨rfl, h1, h2, e1.symm, e2.symm, ?_, e4.symm, e5.symm⟩
        rw [← e3, h2]; simp only [Array.getD_eq_getD_getElem?]
      · simp [h1, h2, throw, throwThe, MonadExceptOf.throw] at hok
    · simp [h1, throw, throwThe, MonadExceptOf.throw] at hok

/-- [S] `A_new = [A H; 0 -I]`, column by column: the first `A.n` columns are those of `A`,
column `A.n + j` holds `1` in row `HI[j]` and `-1` in row `A.m + j`; `b` and `q` are padded
with `lenH` zeros.  Well-formedness of `A` (a consequence of `check_dimensions`):
`colptr` has `n + 1` entries, none exceeds the last one `nnz = colptr[n]`, and
`nnz ≤ rowval.size, nzval.size`. -/
theorem std_A_structure [OfNat α 0] [OfNat α 1] [Neg α] (ci : ChordalInfo)
    (P : Csc α) (q : Array α) (A : Csc α) (b : Array α)
    (Pn : Csc α) (qn : Array α) (An : Csc α) (bn : Array α) (cones : Array Cone) (h : StdH)
    (hok : decompAugmentStandard ci P q A b = .ok (Pn, qn, An, bn, cones, h))
    (hcp : A.colptr.size = A.n + 1)
    (hmono : ∀ j, j ≤ A.n → A.colptr.getD j 0 ≤ A.colptr.getD A.n 0)
    (hrv : A.colptr.getD A.n 0 ≤ A.rowval.size) (hnz : A.colptr.getD A.n 0 ≤ A.nzval.size) :
    An.m = A.m + h.lenH ∧ An.n = A.n + h.lenH ∧
    (∀ j, j < A.n → An.col j = A.col j) ∧
    (∀ j, j < h.lenH → An.col (A.n + j) = [(h.HI.getD j 0, 1), (A.m + j, -1)]) ∧
    bn = b ++ Array.replicate h.lenH 0 ∧ qn = q ++ Array.replicate h.lenH 0 := by
  obtain ⟨_, _, _, _, eq, eA, eb, _⟩ :=
    decomp_augment_standard_unfold ci P q A b Pn qn An bn cones h hok
  obtain ⟨c1, c2⟩ := augColptr_getD A.colptr A.n h.lenH (A.colptr.getD A.n 0) hcp rfl
  obtain ⟨-, r2⟩ := pushPair_spec (fun j => h.HI.getD j 0) (fun j => A.m + j) h.lenH
  obtain ⟨-, v2⟩ := pushPair_spec (fun _ => (1 : α)) (fun _ => (-1 : α)) h.lenH
  subst eA
  refine ⟨rfl, rfl, fun j hj => ?_, fun j hj => ?_, eb, eq⟩
  · unfold Csc.col
    simp only [c1 j (by omega), c1 (j + 1) (by omega)]
    rw [extract_prefix_append _ _ _ _ _ (hmono (j + 1) (by omega)) hrv,
      extract_prefix_append _ _ _ _ _ (hmono (j + 1) (by omega)) hnz]
  · unfold Csc.col
    simp only [c2 j (by omega), show A.n + j + 1 = A.n + (j + 1) by omega, c2 (j + 1) (by omega)]
    rw [extract_suffix_append _ _ _ _ _ hrv, extract_suffix_append _ _ _ _ _ hnz,
      show 2 * (j + 1) = 2 * j + 2 by omega,
      extract_two _ _ _ _ (r2 j hj).1 (r2 j hj).2, extract_two _ _ _ _ (v2 j hj).1 (v2 j hj).2]
    rfl

/-- [S] `P_new = blockdiag(P, 0)`: the columns of `P` followed by `lenH` empty columns -/
theorem std_P_structure [OfNat α 0] [OfNat α 1] [Neg α] (ci : ChordalInfo)
    (P : Csc α) (q : Array α) (A : Csc α) (b : Array α)
    (Pn : Csc α) (qn : Array α) (An : Csc α) (bn : Array α) (cones : Array Cone) (h : StdH)
    (hok : decompAugmentStandard ci P q A b = .ok (Pn, qn, An, bn, cones, h))
    (hcp : P.colptr.size = P.n + 1) :
    Pn.m = P.m + h.lenH ∧ Pn.n = P.n + h.lenH ∧
    (∀ j, j < P.n → Pn.col j = P.col j) ∧
    (∀ j, j < h.lenH → Pn.col (P.n + j) = []) := by
  obtain ⟨_, _, _, eP, _⟩ :=
    decomp_augment_standard_unfold ci P q A b Pn qn An bn cones h hok
  subst eP
  have c1 : ∀ j, j ≤ P.n → (padSquare P h.lenH).colptr.getD j 0 = P.colptr.getD j 0 :=
    fun j hj => getD_append_left _ _ _ _ (by omega)
  have c2 : ∀ j, j ≤ h.lenH →
      (padSquare P h.lenH).colptr.getD (P.n + j) 0 = P.colptr.getD P.n 0 := by
    intro j hj
    rcases j with _ | j
    · exact c1 P.n (Nat.le_refl _)
    · show (P.colptr ++ Array.replicate h.lenH (P.colptr.getD P.n 0)).getD (P.n + (j + 1)) 0 = _
      rw [getD_append_right _ _ _ _ (by omega), hcp,
        show P.n + (j + 1) - (P.n + 1) = j by omega, Array.getD_eq_getD_getElem?,
        Array.getElem?_replicate, if_pos (by omega)]
      rfl
  refine ⟨rfl, rfl, fun j hj => ?_, fun j hj => ?_⟩
  · unfold Csc.col
    simp only [c1 j (by omega), c1 (j + 1) (by omega)]
    rfl
  · unfold Csc.col
    simp only [c2 j (by omega), show P.n + j + 1 = P.n + (j + 1) by omega, c2 (j + 1) (by omega)]
    rw [Array.extract_empty_of_stop_le_start (Nat.le_refl _)]
    rfl

/-- concrete data for the non-vacuity checks: one nonnegative cone of size 2 (no PSD cone) -/
private def exCi : ChordalInfo :=
  { initDims := (1, 2), initCones := #[.nonneg 2], spatterns := #[] }
private def exP : Csc Int := { m := 1, n := 1, colptr := #[0, 1], rowval := #[0], nzval := #[4] }
private def exA : Csc Int :=
  { m := 2, n := 1, colptr := #[0, 2], rowval := #[0, 1], nzval := #[1, 2] }
private def exH : StdH :=
  { rows := 2, lenH := 2, HI := #[0, 1], conesNew := #[Cone.zero 2, Cone.nonneg 2] }
private def exPn : Csc Int :=
  { m := 3, n := 3, colptr := #[0, 1, 1, 1], rowval := #[0], nzval := #[4] }
private def exAn : Csc Int :=
  { m := 4, n := 3, colptr := #[0, 2, 4, 6], rowval := #[0, 1, 0, 2, 1, 3],
    nzval := #[1, 2, 1, -1, 1, -1] }

private theorem ex_ok : decompAugmentStandard exCi exP #[1] exA #[5, 6] =
    .ok (exPn, #[1, 0, 0], exAn, #[5, 6, 0, 0], #[Cone.zero 2, Cone.nonneg 2], exH) := by rfl

example : exCi.findStandardHAndCones = .ok exH ∧ exP.m = exP.n ∧ exA.m = exH.rows :=
  let u := decomp_augment_standard_unfold _ _ _ _ _ _ _ _ _ _ _ ex_ok
  ⟨u.1, u.2.1, u.2.2.1⟩

example : exAn.m = exA.m + exH.lenH ∧ exAn.n = exA.n + exH.lenH ∧
    (∀ j, j < exA.n → exAn.col j = exA.col j) ∧
    (∀ j, j < exH.lenH → exAn.col (exA.n + j) = [(exH.HI.getD j 0, 1), (exA.m + j, -1)]) ∧
    (#[5, 6, 0, 0] : Array Int) = #[5, 6] ++ Array.replicate exH.lenH 0 ∧
    (#[1, 0, 0] : Array Int) = #[1] ++ Array.replicate exH.lenH 0 :=
  std_A_structure _ _ _ _ _ _ _ _ _ _ _ ex_ok rfl
    (by
      intro j hj
      have : j = 0 ∨ j = 1 := by simp [exA] at hj; omega
      rcases this with rfl | rfl <;> decide)
    (by decide) (by decide)

example : exPn.m = exP.m + exH.lenH ∧ exPn.n = exP.n + exH.lenH ∧
    (∀ j, j < exP.n → exPn.col j = exP.col j) ∧
    (∀ j, j < exH.lenH → exPn.col (exP.n + j) = []) :=
  std_P_structure _ _ _ _ _ _ _ _ _ _ _ ex_ok rfl

end Augment

/-! ## 5. algebraic content of the standard decomposition -/

section Equiv
variable {α : Type}

/-- row `r` of `H y` for vectors given as functions: the sum of the `y j`, `j < lenH`, whose
column has its `1` in row `r` -/
def hSel [AddMonoid α] (HI : Nat → Nat) (lenH : Nat) (y : Nat → α) (r : Nat) : α :=
  (((List.range lenH).filter (fun j => decide (HI j = r))).map y).sum

/-- [S] `hSel` only reads `y` below `lenH` -/
theorem hSel_congr [AddMonoid α] (HI : Nat → Nat) (lenH : Nat) (y y' : Nat → α) (r : Nat)
    (h : ∀ j, j < lenH → y j = y' j) : hSel HI lenH y r = hSel HI lenH y' r := by
  unfold hSel
  congr 1
  apply List.map_congr_left
  intro j hj
  exact h j (List.mem_range.1 (List.mem_of_mem_filter hj))

example : hSel (fun j => j % 2) 3 (fun j => (j : Int)) 0
    = hSel (fun j => j % 2) 3 (fun j => if j < 3 then (j : Int) else 0) 0 :=
  hSel_congr _ _ _ _ _ (by intro j hj; simp [hj])

/-- [F] the equality constraints of the decomposed problem `[A H; 0 -I] (x, y) + (s0, s̃) = (b, 0)`
with `s0 = 0` (zero cone) hold iff `y = s̃` and `(x, s := H s̃)` satisfies the original ones
`A x + s = b`.  Vectors are functions `Nat → α`; `ax r` stands for `(A x) r`. -/
theorem standard_equiv [Ring α] (m lenH : Nat) (HI : Nat → Nat) (ax b y st : Nat → α) :
    ((∀ r, r < m → ax r + hSel HI lenH y r + 0 = b r) ∧ (∀ j, j < lenH → - y j + st j = 0)) ↔
    ((∀ j, j < lenH → y j = st j) ∧ (∀ r, r < m → ax r + hSel HI lenH st r = b r)) := by
  constructor
  · rintro ⟨h1, h2⟩
    have hy : ∀ j, j < lenH → y j = st j := fun j hj => neg_add_eq_zero.1 (h2 j hj)
    refine ⟨hy, fun r hr => ?_⟩
    rw [← hSel_congr HI lenH y st r hy, ← h1 r hr, add_zero]
  · rintro ⟨hy, h1⟩
    refine ⟨fun r hr => ?_, fun j hj => neg_add_eq_zero.2 (hy j hj)⟩
    rw [hSel_congr HI lenH y st r hy, add_zero, h1 r hr]

/-- non-vacuity: with `H = [1 0 1; 0 1 0]`, `y = s̃ = (5, 6, 7)`, `A x = 0`, `b = (12, 6)` the
right-hand side of `standard_equiv` holds, hence so does the left-hand side -/
example : (∀ r, r < 2 → (0 : Int)
      + hSel (fun j => j % 2) 3 (fun j => (j : Int) + 5) r + 0 = if r = 0 then 12 else 6) ∧
    (∀ j : Nat, j < 3 → - ((j : Int) + 5) + ((j : Int) + 5) = 0) :=
  (standard_equiv 2 3 (fun j => j % 2) (fun _ => (0 : Int)) (fun r => if r = 0 then 12 else 6)
    (fun j => (j : Int) + 5) (fun j => (j : Int) + 5)).2 (by decide)

private theorem foldl_zip_replicate_zero [Semiring α] (k : Nat) (l : List α) (a : α) :
    ((List.replicate k (0 : α)).zip l).foldl (fun acc p => acc + p.1 * p.2) a = a := by
  induction k generalizing l a with
  | zero => simp
  | succ k ih =>
    cases l with
    | nil => simp
    | cons v t => simp [List.replicate_succ, ih]

/-- [F] linear part of the objective: `q_new = q ++ zeros` gives `⟨q_new, (x, y)⟩ = ⟨q, x⟩`
(`Vec.dot` is the model's left fold) -/
theorem dot_pad_zeros [Semiring α] (q x y : Array α) (k : Nat) (hx : x.size = q.size) :
    Vec.dot (q ++ Array.replicate k 0) (x ++ y) = Vec.dot q x := by
  unfold Vec.dot
  rw [Array.toList_append, Array.toList_append, List.zip_append (by simp [hx]), List.foldl_append,
    Array.toList_replicate, foldl_zip_replicate_zero]

example : Vec.dot ((#[1, 2] : Array Int) ++ Array.replicate 2 0) (#[3, 4] ++ #[5, 6])
    = Vec.dot (#[1, 2] : Array Int) #[3, 4] :=
  dot_pad_zeros _ _ _ _ rfl

/-- [F] `standard_equiv` tied to the model: `s = H s̃` is the vector that `hGemv` (hence
`decomp_reverse_standard`) computes from the tail `s̃` of the decomposed slack. -/
theorem standard_equiv_model [Ring α] (h : StdH) (m : Nat) (st : Array α) (ax b y : Nat → α)
    (hlen : h.HI.size = h.lenH) (hHI : ∀ j, j < h.HI.size → h.HI.getD j 0 < m)
    (hst : st.size = h.lenH) :
    ∃ s, hGemv m h.HI st = .ok s ∧ s.size = m ∧
      (((∀ r, r < m → ax r + hSel (fun j => h.HI.getD j 0) h.lenH y r + 0 = b r) ∧
          (∀ j, j < h.lenH → - y j + st.getD j 0 = 0)) ↔
       ((∀ j, j < h.lenH → y j = st.getD j 0) ∧ (∀ r, r < m → ax r + s.getD r 0 = b r))) := by
  obtain ⟨s, h1, h2, h3⟩ := h_gemv_sum m h.HI st (by omega) hHI
  refine ⟨s, h1, h2, ?_⟩
  rw [standard_equiv m h.lenH (fun j => h.HI.getD j 0) ax b y (fun j => st.getD j 0)]
  have e : ∀ r, r < m → s.getD r 0 = hSel (fun j => h.HI.getD j 0) h.lenH (fun j => st.getD j 0) r := by
    intro r hr; rw [h3 r hr, hlen]; rfl
  constructor
  · rintro ⟨a1, a2⟩; exact ⟨a1, fun r hr => by rw [e r hr]; exact a2 r hr⟩
  · rintro ⟨a1, a2⟩; exact ⟨a1, fun r hr => by rw [← e r hr]; exact a2 r hr⟩

example : ∃ s, hGemv (α := Int) 2 #[0, 1, 0] #[5, 6, 7] = .ok s ∧ s.size = 2 ∧
    (((∀ r, r < 2 → (fun _ => (0 : Int)) r +
          hSel (fun j => (#[0, 1, 0] : Array Nat).getD j 0) 3 (fun _ => (0 : Int)) r + 0
            = (fun _ => (0 : Int)) r) ∧
        (∀ j, j < 3 → - (fun _ => (0 : Int)) j + (#[5, 6, 7] : Array Int).getD j 0 = 0)) ↔
     ((∀ j, j < 3 → (fun _ => (0 : Int)) j = (#[5, 6, 7] : Array Int).getD j 0) ∧
      (∀ r, r < 2 → (fun _ => (0 : Int)) r + s.getD r 0 = (fun _ => (0 : Int)) r))) :=
  standard_equiv_model ⟨2, 3, #[0, 1, 0], #[]⟩ 2 #[5, 6, 7] _ _ _ rfl (by
    intro j hj
    have : j = 0 ∨ j = 1 ∨ j = 2 := by simp at hj; omega
    rcases this with rfl | rfl | rfl <;> decide) rfl

end Equiv

/-! ## 6. `get_clique` -/

private theorem VSet.mem_insert_toList (s : VSet) (v x : Nat) :
    x ∈ (VSet.insert s v).toList ↔ x ∈ s.toList ∨ x = v := by
  unfold VSet.insert
  by_cases hc : s.contains v = true
  · rw [if_pos hc]
    have : v ∈ s := Array.contains_iff_mem.1 hc
    constructor
    · exact Or.inl
    · rintro (h | rfl)
      · exact h
      · exact Array.mem_toList_iff.2 this
  · rw [if_neg hc]; simp

/-- [S] membership in `extend` (insertion of the new vertices that are not yet present) -/
theorem VSet.mem_extend_decomp (s : VSet) (vs : List Nat) (x : Nat) :
    x ∈ (VSet.extend s vs).toList ↔ x ∈ s.toList ∨ x ∈ vs := by
  unfold VSet.extend
  induction vs generalizing s with
  | nil => simp
  | cons v t ih =>
    rw [List.foldl_cons, ih, VSet.mem_insert_toList, List.mem_cons]
    constructor
    · rintro ((h | h) | h)
      · exact Or.inl h
      · exact Or.inr (Or.inl h)
      · exact Or.inr (Or.inr h)
    · rintro (h | h | h)
      · exact Or.inl (Or.inl h)
      · exact Or.inl (Or.inr h)
      · exact Or.inr h

private theorem bind_ok_inv {β γ : Type} (x : MErr β) (f : β → MErr γ) (c : γ)
    (h : (x >>= f) = .ok c) : ∃ a, x = .ok a ∧ f a = .ok c := by
  cases x with
  | error e => simp [bind, Except.bind] at h
  | ok a => exact ⟨a, rfl, h⟩

private theorem getE_ok_inv {β : Type} (xs : Array β) (i : Nat) (s : String) (v : β)
    (h : getE xs i s = .ok v) : xs[i]? = some v := by
  unfold getE at h
  cases hx : xs[i]? with
  | none => rw [hx] at h; simp [throw, throwThe, MonadExceptOf.throw] at h
  | some w => rw [hx] at h; simp [pure, Except.pure] at h; rw [h]

/-- [S] `get_clique(i)` succeeds only when `post[i]`, the supernode and the separator exist, and
then contains exactly the vertices of the supernode and of the separator -/
theorem get_clique_spec (t : SuperNodeTree) (i : Nat) (c : VSet)
    (h : t.getClique i = .ok c) :
    ∃ p s1 s2, t.snodePost[i]? = some p ∧ t.snode[p]? = some s1 ∧
      t.separators[p]? = some s2 ∧ ∀ v, v ∈ c.toList ↔ v ∈ s1.toList ∨ v ∈ s2.toList := by
  unfold SuperNodeTree.getClique at h
  obtain ⟨s1, h1, h⟩ := bind_ok_inv _ _ _ h
  obtain ⟨s2, h2, h⟩ := bind_ok_inv _ _ _ h
  unfold SuperNodeTree.getSnode at h1
  unfold SuperNodeTree.getSeparators at h2
  obtain ⟨p, hp, h1⟩ := bind_ok_inv _ _ _ h1
  obtain ⟨p', hp', h2⟩ := bind_ok_inv _ _ _ h2
  have e1 := getE_ok_inv _ _ _ _ hp
  have e2 := getE_ok_inv _ _ _ _ hp'
  obtain rfl : p = p' := Option.some.inj (e1.symm.trans e2)
  refine ⟨p, s1, s2, e1, getE_ok_inv _ _ _ _ h1, getE_ok_inv _ _ _ _ h2, fun v => ?_⟩
  have : c = s1.extend s2.toList := by
    simp [pure, Except.pure] at h; exact h.symm
  rw [this, VSet.mem_extend_decomp]


example : ∃ p s1 s2, (#[0] : Array Nat)[0]? = some p ∧ (#[#[0, 1]] : Array VSet)[p]? = some s1 ∧
    (#[#[1, 2]] : Array VSet)[p]? = some s2 ∧
    ∀ v, v ∈ (#[0, 1, 2] : VSet).toList ↔ v ∈ s1.toList ∨ v ∈ s2.toList :=
  get_clique_spec ⟨#[#[0, 1]], #[0], #[], #[], #[], #[#[1, 2]], none, 1⟩ 0 #[0, 1, 2] (by
    simp [SuperNodeTree.getClique, SuperNodeTree.getSnode, SuperNodeTree.getSeparators, getE,
      VSet.extend, VSet.insert, bind, Except.bind, pure, Except.pure])

end Clarabel.Chordal
