/-
  The bordered negative blocks of the sparse expansions (second-order cone, generalised power
  cone) have a nonnegative form, hence (`KktInertiaList.quasiDefGE_listKkt`) the regularised KKT
  matrix of ANY cone list is quasidefinite with margin `ε` for the sign pattern that `_fill_signs`
  records; the flat column of every structured index and the recorded sign at that column.

  * `expForm_soc`     : `η²·[[D, v],[vᵀ, 1]] ⪰ 0`            (from `D − vvᵀ ⪰ 0`, `KktInertiaSoc`)
  * `expForm_genpow`  : `[[μD, √μ q, √μ r],[·, 1, 0],[·, 0, 1]] ⪰ 0`  (from `D − qqᵀ − rrᵀ ⪰ 0`)
  * `genpowKkt`, `quasiDefGE_genpowKkt`: ONE generalised power cone, spelled out.
  * `flatPos`, `signs_at_flatPos`: the column of the assembled matrix that carries a structured
    index, and `dsigns` there.

  Class [F]; the inequality `D − qqᵀ − rrᵀ ⪰ 0` for the data that `update_dual_grad_H` writes is
  proved over `ℝ` in `KktInertiaGenPowReal.lean`.
-/
import ClarabelModel.Kkt
import ClarabelProofs.Lemmas.KktInertiaList
import ClarabelProofs.Lemmas.KktInertiaSoc
import ClarabelProofs.Lemmas.KktSigns

namespace Clarabel.Lemmas.KktInertiaCones

open Finset
open Clarabel.Lemmas.KktInertia Clarabel.Lemmas.KktInertiaList Clarabel.Lemmas.KktExpansion

set_option linter.unusedSectionVars false

variable {α : Type} [Field α] [LinearOrder α] [IsStrictOrderedRing α]

/-! ### (1) second-order cone -/

section Soc
variable {k : ℕ}

/-- the Hs block written for a sparse second-order cone: `η²·diag(d, 1, …, 1)` -/
def socH (η d : α) : Fin (k + 1) → Fin (k + 1) → α := diagM (fun i => η * η * socD d i)

/-- minus the stored `v` column: `η²·v` -/
def socVm (η v1 : α) (w1 : Fin k → α) : Fin 1 → Fin (k + 1) → α := fun _ i => η * η * socV v1 w1 i

/-- [F] the bordered block `η²·[[D, v], [vᵀ, 1]]` of a sparse second-order cone is `⪰ 0`. -/
theorem expForm_soc {η : α} {w0 : α} {w1 : Fin k → α} {d u0 u1 v1 : α}
    (h : SocSparse w0 w1 d u0 u1 v1) (y : Fin (k + 1) → α) (s : Fin 1 → α) :
    0 ≤ expForm (socH η d) (socVm η v1 w1) (fun _ => η * η) y s := by
  have hD := Clarabel.Lemmas.KktInertiaSoc.soc_D_sub_vv_nonneg h y
  have e1 : qf (socH (k := k) η d) y = η * η * ∑ i, socD d i * y i * y i := by
    unfold socH
    rw [qf_diagM, Finset.mul_sum]
    exact Finset.sum_congr rfl fun i _ => by ring
  have e2 : ∀ a : Fin 1, ∑ i, socVm η v1 w1 a i * y i = η * η * dot (socV v1 w1) y := by
    intro a
    unfold socVm dot
    rw [Finset.mul_sum]
    exact Finset.sum_congr rfl fun i _ => by ring
  unfold expForm
  simp only [e1, e2, Fin.sum_univ_one]
  have hη : 0 ≤ η * η := mul_self_nonneg η
  have hform : 0 ≤ ∑ i, socD d i * y i * y i + 2 * s 0 * dot (socV v1 w1) y + s 0 ^ 2 := by
    nlinarith [sq_nonneg (dot (socV v1 w1) y + s 0)]
  have := mul_nonneg hη hform
  linarith

theorem socH_symm (η d : α) (i j : Fin (k + 1)) : socH η d i j = socH η d j i := by
  unfold socH diagM
  by_cases hij : i = j
  · subst hij; rfl
  · simp [hij, Ne.symm hij]

end Soc

/-! ### (2) generalised power cone -/

section GenPow
variable {m : ℕ}

/-- the Hs block written for a generalised power cone: `μ·diag(D)` -/
def genpowH (μ : α) (D : Fin m → α) : Fin m → Fin m → α := diagM (fun i => μ * D i)

/-- minus the stored `q`, `r` columns: `√μ·q`, `√μ·r` -/
def genpowVm (sm : α) (q r : Fin m → α) : Fin 2 → Fin m → α :=
  fun a i => if a = 0 then sm * q i else sm * r i

/-- [F] the bordered block `[[μD, √μ q, √μ r], [·, 1, 0], [·, 0, 1]]` of a generalised power
cone is `⪰ 0` as soon as `D − qqᵀ − rrᵀ ⪰ 0`. -/
theorem expForm_genpow {μ sm : α} (hsm : sm * sm = μ) {D q r : Fin m → α}
    (hD : ∀ y : Fin m → α, dot q y ^ 2 + dot r y ^ 2 ≤ ∑ i, D i * y i ^ 2)
    (y : Fin m → α) (s : Fin 2 → α) :
    0 ≤ expForm (genpowH μ D) (genpowVm sm q r) (fun _ => (1 : α)) y s := by
  apply expForm_nonneg_of_schur (fun _ => one_pos)
  intro y
  have e1 : qf (genpowH μ D) y = μ * ∑ i, D i * y i ^ 2 := by
    unfold genpowH
    rw [qf_diagM, Finset.mul_sum]
    exact Finset.sum_congr rfl fun i _ => by ring
  have e2 : ∑ i, genpowVm sm q r 0 i * y i = sm * dot q y := by
    unfold genpowVm dot
    rw [Finset.mul_sum]
    exact Finset.sum_congr rfl fun i _ => by simp; ring
  have e3 : ∑ i, genpowVm sm q r 1 i * y i = sm * dot r y := by
    unfold genpowVm dot
    rw [Finset.mul_sum]
    exact Finset.sum_congr rfl fun i _ => by simp; ring
  rw [Fin.sum_univ_two, e1, e2, e3]
  have hμ : 0 ≤ μ := by rw [← hsm]; exact mul_self_nonneg sm
  have := mul_le_mul_of_nonneg_left (hD y) hμ
  have e4 : (sm * dot q y) ^ 2 / 1 + (sm * dot r y) ^ 2 / 1 = μ * (dot q y ^ 2 + dot r y ^ 2) := by
    rw [← hsm]; ring
  rw [e4]
  exact this

theorem genpowH_symm (μ : α) (D : Fin m → α) (i j : Fin m) : genpowH μ D i j = genpowH μ D j i := by
  unfold genpowH diagM
  by_cases hij : i = j
  · subst hij; rfl
  · simp [hij, Ne.symm hij]

/-! #### one generalised power cone, spelled out -/

variable {ι₁ : Type} [Fintype ι₁] [DecidableEq ι₁]

/-- coupling of the `−` block (cone rows, `q`-aux, `r`-aux) with the `+` block (primal, `p`-aux) -/
def genpowB (A : Fin m → ι₁ → α) (sm : α) (p : Fin m → α) :
    (Σ _ : Fin 1, Fin m ⊕ Fin 2) → ι₁ ⊕ Fin 1 → α
  | ⟨_, .inl i⟩, .inl x => A i x
  | ⟨_, .inl i⟩, .inr _ => -sm * p i
  | ⟨_, .inr _⟩, _ => 0

/-- the regularised KKT matrix with the sparse expansion of ONE generalised power cone
(`μ = sm²`); index type `(primal ⊕ p-aux) ⊕ (cone rows ⊕ {q-aux, r-aux})`:
```
            x          p-aux       cone rows          q-aux      r-aux
  x      [ P+εI          0            Aᵀ                0          0     ]
  p-aux  [   0         1 + ε        −√μ·pᵀ              0          0     ]
  cone   [   A        −√μ·p       −(μD + εI)          −√μ·q      −√μ·r   ]
  q-aux  [   0           0          −√μ·qᵀ            −1 − ε       0     ]
  r-aux  [   0           0          −√μ·rᵀ              0        −1 − ε  ]
``` -/
def genpowKkt (P : ι₁ → ι₁ → α) (A : Fin m → ι₁ → α) (μ sm ε : α) (D p q r : Fin m → α) :
    (ι₁ ⊕ Fin 1) ⊕ (Σ _ : Fin 1, Fin m ⊕ Fin 2) → (ι₁ ⊕ Fin 1) ⊕ (Σ _ : Fin 1, Fin m ⊕ Fin 2) → α :=
  listKkt P (fun _ : Fin 1 => (1 : α)) (genpowB A sm p)
    (fun _ => genpowH μ D) (fun _ => genpowVm sm q r) (fun _ _ => (1 : α)) ε

/-- the entries of `genpowKkt`, as announced -/
theorem genpowKkt_entries (P : ι₁ → ι₁ → α) (A : Fin m → ι₁ → α) (μ sm ε : α)
    (D p q r : Fin m → α) (x x' : ι₁) (i j : Fin m) :
    let K := genpowKkt P A μ sm ε D p q r
    K (.inl (.inl x)) (.inl (.inl x')) = addDiag P ε x x' ∧
    K (.inl (.inl x)) (.inr ⟨0, .inl i⟩) = A i x ∧ K (.inr ⟨0, .inl i⟩) (.inl (.inl x)) = A i x ∧
    K (.inr ⟨0, .inl i⟩) (.inr ⟨0, .inl j⟩) = -(if i = j then μ * D i + ε else 0) ∧
    K (.inr ⟨0, .inl i⟩) (.inr ⟨0, .inr 0⟩) = -(sm * q i) ∧
    K (.inr ⟨0, .inl i⟩) (.inr ⟨0, .inr 1⟩) = -(sm * r i) ∧
    K (.inr ⟨0, .inl i⟩) (.inl (.inr 0)) = -sm * p i ∧
    K (.inr ⟨0, .inr 0⟩) (.inr ⟨0, .inr 0⟩) = -(1 + ε) ∧
    K (.inr ⟨0, .inr 1⟩) (.inr ⟨0, .inr 1⟩) = -(1 + ε) ∧
    K (.inr ⟨0, .inr 0⟩) (.inr ⟨0, .inr 1⟩) = 0 ∧
    K (.inl (.inr 0)) (.inl (.inr 0)) = 1 + ε ∧
    K (.inl (.inl x)) (.inl (.inr 0)) = 0 ∧
    K (.inr ⟨0, .inr 0⟩) (.inl (.inr 0)) = 0 ∧ K (.inr ⟨0, .inr 1⟩) (.inl (.inr 0)) = 0 := by
  refine ⟨rfl, rfl, rfl, ?_, ?_, ?_, rfl, ?_, ?_, ?_, ?_, rfl, rfl, rfl⟩
  · by_cases hij : i = j
    · subst hij
      simp [genpowKkt, listKkt, blockK, sigmaDiag, expBlock, genpowH, diagM]
    · simp [genpowKkt, listKkt, blockK, sigmaDiag, expBlock, genpowH, diagM, hij]
  · simp [genpowKkt, listKkt, blockK, sigmaDiag, expBlock, genpowVm]
  · simp [genpowKkt, listKkt, blockK, sigmaDiag, expBlock, genpowVm]
  · simp [genpowKkt, listKkt, blockK, sigmaDiag, expBlock]
  · simp [genpowKkt, listKkt, blockK, sigmaDiag, expBlock]
  · simp [genpowKkt, listKkt, blockK, sigmaDiag, expBlock]
  · simp [genpowKkt, listKkt, blockK, dsum, diagM]

/-- [F] **the regularised KKT matrix with a generalised-power-cone expansion is quasidefinite
with margin `ε`** for the sign pattern `+ (primal), + (p-aux), − (cone rows), − (q-aux), − (r-aux)`
— what `_fill_signs` records (`[-1, -1, +1]` on the `q, r, p` columns) — provided `P ⪰ 0`,
`μ = sm² ≥ 0` and `D − qqᵀ − rrᵀ ⪰ 0`. -/
theorem quasiDefGE_genpowKkt {P : ι₁ → ι₁ → α} (A : Fin m → ι₁ → α) {μ sm ε : α}
    {D q r : Fin m → α} (p : Fin m → α) (hP : PosSemidef P) (hsm : sm * sm = μ)
    (hD : ∀ y : Fin m → α, dot q y ^ 2 + dot r y ^ 2 ≤ ∑ i, D i * y i ^ 2) :
    QuasiDefGE (genpowKkt P A μ sm ε D p q r) Sum.isLeft Finset.univ ε :=
  quasiDefGE_listKkt (genpowB A sm p) hP (fun _ => zero_le_one)
    (fun _ => genpowH_symm μ D) (fun _ => expForm_genpow hsm hD)

end GenPow

/-! ### (3) the flat column of a structured index, and the recorded sign there -/

section Flat
open Clarabel.Kkt Clarabel.Lemmas.KktSigns

/-- number of `−` auxiliary variables of a cone's sparse expansion -/
def nMinus (c : ConeSpec) : Nat :=
  if c.isSparseExpandable = true then (match c with | .soc _ => 1 | _ => 2) else 0

/-- number of `+` auxiliary variables of a cone's sparse expansion -/
def nPlus (c : ConeSpec) : Nat := if c.isSparseExpandable = true then 1 else 0

theorem coneDsigns_eq (c : ConeSpec) :
    coneDsigns c = List.replicate (nMinus c) (-1) ++ List.replicate (nPlus c) 1 := by
  unfold coneDsigns nMinus nPlus
  split
  · cases c <;> rfl
  · rfl

theorem conePdim_eq (c : ConeSpec) : conePdim c = nMinus c + nPlus c := by
  rw [← coneDsigns_length, coneDsigns_eq]
  simp

/-- index type of the regularised KKT matrix of a cone list:
`(primal ⊕ plus-aux) ⊕ Σ cone, (rows ⊕ minus-aux)` -/
abbrev KktIdx (n : Nat) (cones : List ConeSpec) : Type :=
  (Fin n ⊕ (Σ i : Fin cones.length, Fin (nPlus cones[i]))) ⊕
    (Σ i : Fin cones.length, Fin (cones[i].numel) ⊕ Fin (nMinus cones[i]))

/-- the column of the assembled KKT matrix that carries a structured index: primal `x`;
row `a` of cone `i`: `n + Σ_{j<i} numel + a`; auxiliary variable `c` of cone `i`:
`n + m + Σ_{j<i} pdim + c`, the `−` variables first. -/
def flatPos (n : Nat) (cones : List ConeSpec) : KktIdx n cones → Nat
  | .inl (.inl x) => x.val
  | .inl (.inr ⟨i, b⟩) =>
      n + (cones.map ConeSpec.numel).sum + ((cones.take i.val).map conePdim).sum
        + nMinus cones[i] + b.val
  | .inr ⟨i, .inl a⟩ => n + ((cones.take i.val).map ConeSpec.numel).sum + a.val
  | .inr ⟨i, .inr c⟩ =>
      n + (cones.map ConeSpec.numel).sum + ((cones.take i.val).map conePdim).sum + c.val

theorem list_split_at (cones : List ConeSpec) (i : Fin cones.length) :
    cones = cones.take i.val ++ cones[i] :: cones.drop (i.val + 1) := by
  have := List.take_append_drop i.val cones
  rw [List.drop_eq_getElem_cons i.isLt] at this
  exact this.symm

theorem take_numel_le (cones : List ConeSpec) (i : Fin cones.length) :
    ((cones.take i.val).map ConeSpec.numel).sum + cones[i].numel
      ≤ (cones.map ConeSpec.numel).sum := by
  conv_rhs => rw [list_split_at cones i]
  simp only [List.map_append, List.map_cons, List.sum_append, List.sum_cons]
  omega

/-- [S] **the recorded sign at the column of every structured index**: for a sign vector `ds`
with the column-by-column description that `C11.assembly_signs` proves for `_fill_signs` on the
assembled maps, `ds[flatPos idx] = +1` on the primal and plus-auxiliary indices and `−1` on the
cone rows and minus-auxiliary indices — the pattern `Sum.isLeft` of `quasiDefGE_listKkt`. -/
theorem signs_at_flatPos (n : Nat) (cones : List ConeSpec) (ds : Array Int)
    (h1 : ∀ c, c < n → ds[c]? = some 1)
    (h2 : ∀ c, n ≤ c → c < n + (cones.map ConeSpec.numel).sum → ds[c]? = some (-1))
    (h3 : ∀ pre cn post j, cones = pre ++ cn :: post → j < conePdim cn →
      ds[n + (cones.map ConeSpec.numel).sum + (pre.map conePdim).sum + j]? = (coneDsigns cn)[j]?)
    (idx : KktIdx n cones) :
    ds[flatPos n cones idx]? = some (if idx.isLeft then 1 else -1) := by
  rcases idx with (x | ⟨i, b⟩) | ⟨i, a | c⟩
  · simpa [flatPos] using h1 x.val x.isLt
  · have hb := b.isLt
    have := h3 _ _ _ (nMinus cones[i] + b.val) (list_split_at cones i)
      (by rw [conePdim_eq]; omega)
    simp only [flatPos, Sum.isLeft_inl, if_true]
    rw [← Nat.add_assoc] at this
    rw [this, coneDsigns_eq, List.getElem?_append_right (by simp)]
    simp [hb]
  · have ha := a.isLt
    have hle := take_numel_le cones i
    simp only [flatPos, Sum.isLeft_inr, Bool.false_eq_true, if_false]
    exact h2 _ (by omega) (by omega)
  · have hc := c.isLt
    have := h3 _ _ _ c.val (list_split_at cones i) (by rw [conePdim_eq]; omega)
    simp only [flatPos, Sum.isLeft_inr, Bool.false_eq_true, if_false]
    rw [this, coneDsigns_eq, List.getElem?_append_left (by simpa using hc)]
    simp [hc]

end Flat

end Clarabel.Lemmas.KktInertiaCones
