/-
  The norm caches `data.normq` / `data.normb` and `solve()` (round 8: the whole-solver model stores the
  caches `DefaultInfo::update` fills in the object `solve()` returns).

  * `solve_data`, `solve_data_eq` (`Lemmas/SolverModelIdem.lean`): the data of the returned object is
    `fillNorms` of the data at entry.
  * `putBack S r`      : the returned object with the data AT ENTRY put back (proof-side notion).
  * `solve_putBack`    : the NEXT `solve()` on the returned object is the `solve()` of `putBack`: the
                         filled caches answer `get_normq` / `get_normb` exactly as the caches at entry
                         did (`solve_setNorms`), so every theorem about a second solve "on the same
                         data" applies to the real second solve.
  [S]: no law of the scalar type.
-/
import ClarabelProofs.Lemmas.SolverModelIdem
import ClarabelProofs.Lemmas.UpdateNormTransparent

namespace Clarabel.Solver
open Clarabel Info
set_option linter.dupNamespace false

set_option linter.unusedSectionVars false
variable {α : Type}
variable [Add α] [Sub α] [Mul α] [Div α] [Neg α] [OfNat α 0] [OfNat α 1] [OfNat α 2]
  [OfNat α 100] [OfNat α 1000] [LT α] [DecidableLT α] [LE α] [DecidableLE α] [BEq α] [FloatLike α]

/-- the solver object `T` with the problem data `d` put in place of its own -/
def Solver.withData (T : Solver α) (d : ProblemData α) : Solver α :=
  { T with st := { T.st with data := d } }

/-- what `solve()` returned is the put-back object with the two caches filled -/
theorem solve_eq_setNorms {S : Solver α} {st : Settings α} {r : SolveResult α} (h : S.solve st = .ok r) :
    ∃ nq nb, Info.getNormq S.st.data.normq S.st.data.q S.st.data.equilibration.dinv
        S.st.data.equilibration.c = .ok nq
      ∧ Info.getNormb S.st.data.normb S.st.data.b S.st.data.equilibration.einv = .ok nb
      ∧ r.S = (r.S.withData S.st.data).setNorms (some nq) (some nb) := by
  obtain ⟨nq, nb, hq, hb, e⟩ := solve_data_eq h
  refine ⟨nq, nb, hq, hb, ?_⟩
  have e' : r.S.st.data = S.st.data.setNorms (some nq) (some nb) := e
  show r.S = { r.S with st := { r.S.st with data := S.st.data.setNorms (some nq) (some nb) } }
  rw [← e']

/-- **[S] the solve after a solve**: the `solve()` on the object a `solve()` returned is the
`solve()` on that object with the data at entry put back — the caches the first call filled answer
`get_normq` / `get_normb` as the caches at entry did. -/
theorem solve_putBack {S : Solver α} {st : Settings α} {r : SolveResult α} (h : S.solve st = .ok r)
    (st' : Settings α) : r.S.solve st' = (r.S.withData S.st.data).solve st' := by
  obtain ⟨nq, nb, hq, hb, e⟩ := solve_eq_setNorms h
  conv => lhs; rw [e]
  refine solve_setNorms _ st' _ _ ⟨?_, ?_⟩
  · show Info.getNormq (some nq) S.st.data.q S.st.data.equilibration.dinv S.st.data.equilibration.c
      = Info.getNormq S.st.data.normq S.st.data.q S.st.data.equilibration.dinv S.st.data.equilibration.c
    rw [hq]; rfl
  · show Info.getNormb (some nb) S.st.data.b S.st.data.equilibration.einv
      = Info.getNormb S.st.data.normb S.st.data.b S.st.data.equilibration.einv
    rw [hb]; rfl

end Clarabel.Solver
