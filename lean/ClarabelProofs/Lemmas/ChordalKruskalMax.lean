/-
  Clique-graph merge strategy: the model's `kruskal` (greedy over the edges sorted by decreasing
  weight, with union-find; `ClarabelModel/Chordal/MergeCG.lean`) returns a MAXIMUM-WEIGHT spanning
  forest.

  * `JT.greedy_max`      : abstract exchange-free argument (layer cake over the weight levels): if
                           every edge of the forest `J` is spanned by the edges of the forest `T`
                           that weigh at least as much, `T` weighs at least as much as `J`;
  * `kTrace_heavy`       : what one run of the loop guarantees for every visited edge;
  * `kruskal_heavy`      : `JT.Heavy w E.edges (kruskalTree E numCliques)`;
  * `kruskal_max_weight` : every acyclic sub-list of `E.edges` weighs at most as much as the tree.
  All theorems here are class [S].
-/
import ClarabelProofs.Lemmas.ChordalCGJunctionDefs

namespace Clarabel.Chordal
open Clarabel

/-! ## layer cake: a sum of weights is the sum over the levels of the number of heavier edges -/

namespace JT

/-- [S] the number of levels `k < W` below `n` is `min n W` -/
theorem sum_range_indicator (n : Nat) : ∀ W : Nat,
    ((List.range W).map (fun k => if k < n then 1 else 0)).sum = min n W := by
  intro W
  induction W with
  | zero => simp
  | succ W ih =>
    rw [List.range_succ, List.map_append, List.sum_append, ih]
    by_cases h : W < n
    · simp only [List.map_cons, List.map_nil, List.sum_cons, List.sum_nil, h, if_true]; omega
    · simp only [List.map_cons, List.map_nil, List.sum_cons, List.sum_nil, h, if_false]; omega

/-- [S] every member of a list of naturals is at most the sum -/
theorem le_sum_map_of_mem {β : Type} (f : β → Nat) : ∀ (l : List β) (x : β), x ∈ l →
    f x ≤ (l.map f).sum := by
  intro l
  induction l with
  | nil => intro x hx; simp at hx
  | cons a l ih =>
    intro x hx
    simp only [List.map_cons, List.sum_cons]
    rcases List.mem_cons.1 hx with rfl | hx
    · omega
    · have := ih x hx; omega

/-- [S] LAYER CAKE: the weight of an edge list whose weights are at most `W` is the sum over the
levels `k < W` of the number of edges heavier than `k` -/
theorem sum_eq_layers (w : Nat × Nat → Nat) (W : Nat) : ∀ F : List (Nat × Nat),
    (∀ e ∈ F, w e ≤ W) →
    (F.map w).sum =
      ((List.range W).map (fun k => (F.filter (fun e => decide (k < w e))).length)).sum := by
  intro F
  induction F with
  | nil => intro _; simp
  | cons a F ih =>
    intro h
    have ha := h a (by simp)
    have h1 : ∀ k, ((a :: F).filter (fun e => decide (k < w e))).length =
        (if k < w a then 1 else 0) + (F.filter (fun e => decide (k < w e))).length := by
      intro k
      by_cases hk : k < w a
      · rw [List.filter_cons_of_pos (by simpa using hk)]
        simp only [List.length_cons, hk, if_true]; omega
      · rw [List.filter_cons_of_neg (by simpa using hk)]
        simp only [hk, if_false]; omega
    rw [List.map_congr_left (fun k _ => h1 k), sum_map_add, sum_range_indicator,
      ← ih (fun e he => h e (by simp [he]))]
    simp only [List.map_cons, List.sum_cons]
    omega

/-- [S] GREEDY = MAXIMUM WEIGHT (abstract): if every edge of the forest `J` is spanned by the edges of the forest `T` that weigh at least as much, `T` weighs at least as much as `J` -/
theorem greedy_max {L : List Nat} (hL : L.Nodup) (w : Nat × Nat → Nat) {T J : List (Nat × Nat)}
    (hT : ForestFrom [] T) (hTL : ∀ e ∈ T, e.1 ∈ L ∧ e.2 ∈ L)
    (hJ : ForestFrom [] J) (hJL : ∀ e ∈ J, e.1 ∈ L ∧ e.2 ∈ L)
    (hheavy : JT.Heavy w J T) : (J.map w).sum ≤ (T.map w).sum := by
  have hWJ : ∀ e ∈ J, w e ≤ (J.map w).sum + (T.map w).sum := by
    intro e he; have := le_sum_map_of_mem w J e he; omega
  have hWT : ∀ e ∈ T, w e ≤ (J.map w).sum + (T.map w).sum := by
    intro e he; have := le_sum_map_of_mem w T e he; omega
  generalize (J.map w).sum + (T.map w).sum = W at hWJ hWT
  rw [sum_eq_layers w W J hWJ, sum_eq_layers w W T hWT]
  refine sum_map_le _ _ _ (fun k _ => ?_)
  -- level `k`
  have hfJ : ForestFrom [] (J.filter (fun e => decide (k < w e))) :=
    forestFrom_filter _ J [] [] hJ (fun _ h => h)
  have hfT : ForestFrom [] (T.filter (fun e => decide (k < w e))) :=
    forestFrom_filter _ T [] [] hT (fun _ h => h)
  obtain ⟨rJ, hrJ, hcJ⟩ := forest_count _ [] L hfJ
    (fun e he => hJL e (List.mem_filter.1 he).1) (reps_nil hL)
  obtain ⟨rT, hrT, hcT⟩ := forest_count _ [] L hfT
    (fun e he => hTL e (List.mem_filter.1 he).1) (reps_nil hL)
  rw [List.nil_append] at hrJ hrT
  have hle : rT.length ≤ rJ.length := by
    refine reps_length_le hrJ hrT (fun a b _ _ hab => ?_)
    refine Conn.of_redundant (fun e he => .inr ?_) hab
    obtain ⟨heJ, hek⟩ := List.mem_filter.1 he
    have hek' : k < w e := by simpa using hek
    refine (hheavy e heJ).mono (fun m hm => ?_)
    obtain ⟨hmT, hmw⟩ := List.mem_filter.1 hm
    have hmw' : w e ≤ w m := by simpa using hmw
    exact List.mem_filter.2 ⟨hmT, by simpa using (by omega : k < w m)⟩
  omega

end JT

/-! ## the greedy loop: every visited edge is spanned by the marked edges at least as heavy -/

/-- [S] what a run of `kTrace` over edges sorted by decreasing (abstract) weight `wt` guarantees:
every visited edge is connected by the earlier edges `pre` plus the marked edges at least as
heavy, or the loop was left by `break` when all marked edges were at least as heavy -/
theorem kTrace_heavy (n nc : Nat) (hnc : 0 < nc) (wt : KEdge → Int) :
    ∀ (es : List KEdge) (d : Dsu) (f : Nat) (nz : Array Int) (pre : List (Nat × Nat)),
      Dsu.WF d n → (∀ a b, a < n → b < n → (Dsu.Same d a b ↔ Conn pre a b)) →
      (∀ e ∈ es, e.1 < nz.size ∧ e.2.1 < n ∧ e.2.2 < n) →
      f < max 1 (nc - 1) →
      es.Pairwise (fun a b => wt a ≥ wt b) →
      ∃ r, kTrace nc es d f nz = .ok r ∧ ∀ e ∈ es,
        Conn (pre ++ (r.marked.filter (fun m => decide (wt e ≤ wt m))).map KEdge.pair) e.2.1 e.2.2 ∨
        (r.broke = true ∧ ∀ m ∈ r.marked, wt e ≤ wt m) := by
  intro es
  induction es with
  | nil =>
    intro d f nz pre _ _ _ _ _
    exact ⟨⟨d, f, nz, [], false⟩, rfl, fun e he => by simp at he⟩
  | cons e es ih =>
    intro d f nz pre hwf hR hes hf hsorted
    obtain ⟨hpk, hu, hv⟩ := hes e (by simp)
    have hes' : ∀ e ∈ es, e.1 < nz.size ∧ e.2.1 < n ∧ e.2.2 < n :=
      fun e' he' => hes e' (by simp [he'])
    obtain ⟨hhead, hsorted'⟩ := List.pairwise_cons.1 hsorted
    obtain ⟨d1, same, hrun1, hwf1, hb1, hsame1⟩ := Dsu.inSameSet_spec hwf hu hv
    have hR1 : ∀ a b, a < n → b < n → (Dsu.Same d1 a b ↔ Conn pre a b) :=
      fun a b ha hb => (hsame1 a b ha hb).trans (hR a b ha hb)
    cases same with
    | true =>
      obtain ⟨r, hrun, hs⟩ := ih d1 f nz pre hwf1 hR1 hes' hf hsorted'
      refine ⟨r, ?_, ?_⟩
      · simp only [kTrace, hrun1, bind, Except.bind, Bool.not_true, Bool.false_eq_true, if_false]
        exact hrun
      · intro e' he'
        rcases List.mem_cons.mp he' with rfl | he'
        · have : Conn pre e'.2.1 e'.2.2 := (hR _ _ hu hv).mp (hb1.mp rfl)
          exact .inl (this.mono (fun x hx => List.mem_append_left _ hx))
        · exact hs e' he'
    | false =>
      obtain ⟨d2, hrun2, hwf2, hsame2⟩ := Dsu.union_spec hwf1 hu hv
      have hR2 : ∀ a b, a < n → b < n →
          (Dsu.Same d2 a b ↔ Conn (pre ++ [e.pair]) a b) := by
        intro a b ha hb
        rw [hsame2 a b ha hb, KEdge.pair, conn_snoc, hR1 a b ha hb, hR1 a _ ha hu,
          hR1 _ b hv hb, hR1 a _ ha hv, hR1 _ b hu hb]
      have hset := Kr.setE_ok nz e.1 (-1 : Int) "kruskal" hpk
      have hnc0 : (nc == 0) = false := by
        rw [beq_eq_false_iff_ne]; omega
      by_cases hbr : f + 1 ≥ nc - 1
      · -- break
        refine ⟨⟨d2, f + 1, nz.setIfInBounds e.1 (-1), [e], true⟩, ?_, ?_⟩
        · simp only [kTrace, hrun1, hrun2, hset, hnc0, bind, Except.bind, Bool.not_false, if_true,
            Bool.false_eq_true, if_false, hbr, pure, Except.pure]
        · intro e' hmem
          rcases List.mem_cons.mp hmem with heq | he'
          · refine .inl (Conn.edge ?_)
            rw [heq]
            exact List.mem_append_right _ (by simp [KEdge.pair])
          · refine .inr ⟨rfl, fun m hm => ?_⟩
            have hme : m = e := List.mem_singleton.1 hm
            rw [hme]
            exact hhead e' he'
      · -- continue
        obtain ⟨r, hrun, hs⟩ := ih d2 (f + 1) (nz.setIfInBounds e.1 (-1)) (pre ++ [e.pair])
          hwf2 hR2 (fun e' he' => by simpa using hes' e' he') (by omega) hsorted'
        refine ⟨{ r with marked := e :: r.marked }, ?_, ?_⟩
        · simp only [kTrace, hrun1, hrun2, hset, hnc0, bind, Except.bind, Bool.not_false, if_true,
            Bool.false_eq_true, if_false, hbr, hrun, pure, Except.pure]
        · intro e' hmem
          rcases List.mem_cons.mp hmem with heq | he'
          · refine .inl (Conn.edge ?_)
            rw [heq]
            exact List.mem_append_right _ (by simp [KEdge.pair])
          · have hge : wt e' ≤ wt e := hhead e' he'
            rcases hs e' he' with hc | ⟨hb, hall⟩
            · refine .inl ?_
              have hkeep : (e :: r.marked).filter (fun m => decide (wt e' ≤ wt m)) =
                  e :: r.marked.filter (fun m => decide (wt e' ≤ wt m)) :=
                List.filter_cons_of_pos (by simpa using hge)
              show Conn (pre ++ ((e :: r.marked).filter (fun m => decide (wt e' ≤ wt m))).map
                KEdge.pair) e'.2.1 e'.2.2
              rw [hkeep, List.map_cons]
              simpa [List.append_assoc] using hc
            · refine .inr ⟨hb, fun m hm => ?_⟩
              rcases List.mem_cons.mp hm with hme | hm
              · rw [hme]; exact hge
              · exact hall m hm

/-! ## `kruskal` -/

/-- [S] what the greedy loop guarantees -/
theorem kruskal_heavy {E : IMat} (h : E.WFE) {numCliques : Nat} (hnc : 0 < numCliques)
    {Lv : List Nat} (hLv : Lv.Nodup) (hlen : Lv.length = numCliques)
    (hedges : ∀ e ∈ E.edges, e.1 ∈ Lv ∧ e.2 ∈ Lv)
    (hconn : ∀ u ∈ Lv, ∀ v ∈ Lv, Conn E.edges u v)
    (w : Nat × Nat → Nat)
    (hw : ∀ k, k < E.rowval.size →
      E.nzval.getD k 0 = Int.ofNat (w (E.rowval.getD k 0, E.colIdx.getD k 0))) :
    JT.Heavy w E.edges (kruskalTree E numCliques) := by
  have hR : ∀ a b, a < E.n → b < E.n → (Dsu.Same (Dsu.new E.n) a b ↔ Conn [] a b) := by
    have e : (fun a b : Nat => (a, b) ∈ ([] : List (Nat × Nat))) = (fun _ _ => False) := by
      funext a b; simp
    intro a b ha hb
    unfold Conn
    rw [e]
    exact Dsu.same_new_iff ha hb
  have hes : ∀ e ∈ E.sortedEdges, e.1 < E.nzval.size ∧ e.2.1 < E.n ∧ e.2.2 < E.n := by
    intro e he
    obtain ⟨k, hk, rfl⟩ := (mem_sortedEdges e).mp he
    have hk' : k < E.rowval.size := by have := h.nnz_val; omega
    refine ⟨hk, h.rows k hk', colIdx_lt _ ?_⟩
    have hl : k < E.colIdx.length := by rw [colIdx_length h]; exact hk'
    simp [List.getD_eq_getElem?_getD, hl]
  have hsorted : E.sortedEdges.Pairwise
      (fun a b => E.nzval.getD a.1 0 ≥ E.nzval.getD b.1 0) := by
    have := sortedEdges_sorted E
    rw [List.pairwise_map] at this
    exact this
  obtain ⟨r, hrun, hs⟩ := kTrace_heavy E.n numCliques hnc (fun e => E.nzval.getD e.1 0)
    E.sortedEdges (Dsu.new E.n) 0 E.nzval [] (Dsu.wf_new _) hR hes (by omega) hsorted
  have hres : r = kruskalRes E numCliques :=
    Except.ok.inj (hrun.symm.trans (kruskal_spec h hnc).1)
  subst hres
  -- weights of marked edges
  have hmw : ∀ m ∈ kruskalMarked E numCliques, E.nzval.getD m.1 0 = Int.ofNat (w m.pair) := by
    intro m hm
    obtain ⟨hk, hform, _⟩ := (kruskalMarked_sub h hnc).2.2 m hm
    rw [hw m.1 hk]
    have : m.pair = (E.rowval.getD m.1 0, E.colIdx.getD m.1 0) := congrArg KEdge.pair hform
    rw [this]
  obtain ⟨_, _, _, hspan⟩ := kruskal_spanning h hnc hLv hlen hedges hconn
  intro e he
  obtain ⟨e', he', hpair⟩ := List.mem_map.mp ((mem_sortedEdges_pair h e).mpr he)
  obtain ⟨k, hk, hform⟩ := (mem_sortedEdges e').mp he'
  have hk' : k < E.rowval.size := by have := h.nnz_val; omega
  have hew : E.nzval.getD e'.1 0 = Int.ofNat (w e) := by
    rw [← hpair, hform]
    exact hw k hk'
  have he1 : e'.2.1 = e.1 := by rw [← hpair]; rfl
  have he2 : e'.2.2 = e.2 := by rw [← hpair]; rfl
  rcases hs e' he' with hc | ⟨_, hall⟩
  · rw [he1, he2, List.nil_append] at hc
    refine hc.mono (fun x hx => ?_)
    obtain ⟨m, hm, rfl⟩ := List.mem_map.mp hx
    obtain ⟨hmM, hmle⟩ := List.mem_filter.1 hm
    have hmle' : E.nzval.getD e'.1 0 ≤ E.nzval.getD m.1 0 := by simpa using hmle
    rw [hew, hmw m hmM] at hmle'
    have : w e ≤ w m.pair := Int.ofNat_le.mp hmle'
    exact List.mem_filter.2 ⟨List.mem_map_of_mem hmM, by simpa using this⟩
  · refine (hspan e.1 (hedges e he).1 e.2 (hedges e he).2).mono (fun x hx => ?_)
    obtain ⟨m, hm, rfl⟩ := List.mem_map.mp hx
    have hmle' : E.nzval.getD e'.1 0 ≤ E.nzval.getD m.1 0 := hall m hm
    rw [hew, hmw m hm] at hmle'
    have : w e ≤ w m.pair := Int.ofNat_le.mp hmle'
    exact List.mem_filter.2 ⟨List.mem_map_of_mem hm, by simpa using this⟩

/-- [S] **`kruskal` RETURNS A MAXIMUM-WEIGHT SPANNING FOREST** -/
theorem kruskal_max_weight {E : IMat} (h : E.WFE) {numCliques : Nat} (hnc : 0 < numCliques)
    {Lv : List Nat} (hLv : Lv.Nodup) (hlen : Lv.length = numCliques)
    (hedges : ∀ e ∈ E.edges, e.1 ∈ Lv ∧ e.2 ∈ Lv)
    (hconn : ∀ u ∈ Lv, ∀ v ∈ Lv, Conn E.edges u v)
    (w : Nat × Nat → Nat)
    (hw : ∀ k, k < E.rowval.size →
      E.nzval.getD k 0 = Int.ofNat (w (E.rowval.getD k 0, E.colIdx.getD k 0))) :
    ∀ F, ForestFrom [] F → (∀ e ∈ F, e ∈ E.edges) →
      (F.map w).sum ≤ ((kruskalTree E numCliques).map w).sum := by
  intro F hF hFE
  obtain ⟨_, hforest, hsub, _⟩ := kruskal_spanning h hnc hLv hlen hedges hconn
  have hheavy := kruskal_heavy h hnc hLv hlen hedges hconn w hw
  exact JT.greedy_max hLv w hforest (fun e he => hedges e (hsub e he)) hF
    (fun e he => hedges e (hFE e he)) (fun e he => hheavy e (hFE e he))

/-! ## non-vacuity: the weighted triangle `KrEx.tri` (edges `1–0`: 3, `2–0`: 2, `2–1`: 1) -/

namespace KrEx

/-- the weights of the triangle as a function of the edge -/
def triW : Nat × Nat → Nat :=
  fun e => if e = (1, 0) then 3 else if e = (2, 0) then 2 else if e = (2, 1) then 1 else 0

/-- [S] the hypotheses of `kruskal_heavy` / `kruskal_max_weight` hold for the triangle with the
live cliques `[0, 1, 2]` and the weight function `triW` -/
theorem tri_hyps : tri.WFE ∧ 0 < 3 ∧ [0, 1, 2].Nodup ∧ [0, 1, 2].length = 3 ∧
    (∀ e ∈ tri.edges, e.1 ∈ [0, 1, 2] ∧ e.2 ∈ [0, 1, 2]) ∧
    (∀ u ∈ [0, 1, 2], ∀ v ∈ [0, 1, 2], Conn tri.edges u v) ∧
    (∀ k, k < tri.rowval.size →
      tri.nzval.getD k 0 = Int.ofNat (triW (tri.rowval.getD k 0, tri.colIdx.getD k 0))) := by
  refine ⟨tri_wfe, by omega, by decide, rfl, by rw [tri_edges]; decide, ?_, ?_⟩
  · have h0 : ∀ u ∈ [0, 1, 2], Conn tri.edges u 0 := by
      intro u hu
      rw [tri_edges]
      simp only [List.mem_cons, List.not_mem_nil, or_false] at hu
      rcases hu with rfl | rfl | rfl
      · exact Conn.refl _ _
      · exact Conn.edge (by decide)
      · exact Conn.edge (by decide)
    exact fun u hu v hv => (h0 u hu).trans (h0 v hv).symm
  · intro k hk
    have hk3 : k < 3 := hk
    have : k = 0 ∨ k = 1 ∨ k = 2 := by omega
    rcases this with rfl | rfl | rfl <;> decide

/-- the triangle: the tree `[(1, 0), (2, 0)]` (weight 5) is heavy for all three edges, and it
weighs at least as much as the forest `[(2, 1)]` (and as any other acyclic set of edges) -/
example : JT.Heavy triW tri.edges (kruskalTree tri 3) ∧
    ([(2, 1)].map triW).sum ≤ ((kruskalTree tri 3).map triW).sum ∧
    ((kruskalTree tri 3).map triW).sum = 5 := by
  obtain ⟨h1, h2, h3, h4, h5, h6, h7⟩ := tri_hyps
  refine ⟨kruskal_heavy h1 h2 h3 h4 h5 h6 triW h7, ?_, by rw [tri_tree]; decide⟩
  refine kruskal_max_weight h1 h2 h3 h4 h5 h6 triW h7 [(2, 1)] ⟨?_, trivial⟩ ?_
  · rw [conn_nil_iff]; decide
  · rw [tri_edges]; decide

/-- hypotheses of `JT.greedy_max` on `L = [0, 1, 2]`, `T = [(1, 0), (2, 0)]`, `J = [(2, 1)]` -/
example : ([(2, 1)].map triW).sum ≤ ([(1, 0), (2, 0)].map triW).sum := by
  have hT : ForestFrom [] [(1, 0), (2, 0)] := by
    refine ⟨?_, ?_, trivial⟩
    · rw [conn_nil_iff]; decide
    · intro hc
      have := (conn_snoc [] 1 0 2 0).mp hc
      simp only [conn_nil_iff] at this
      omega
  have hJ : ForestFrom [] [(2, 1)] := ⟨by rw [conn_nil_iff]; decide, trivial⟩
  refine JT.greedy_max (L := [0, 1, 2]) (by decide) triW hT (by decide) hJ (by decide) ?_
  intro e he
  simp only [List.mem_singleton] at he
  subst he
  have e1 : [(1, 0), (2, 0)].filter (fun m => decide (triW (2, 1) ≤ triW m)) =
      [(1, 0), (2, 0)] := by decide
  rw [e1]
  exact (Conn.edge (l := [(1, 0), (2, 0)]) (a := 2) (b := 0) (by decide)).trans
    (Conn.edge (l := [(1, 0), (2, 0)]) (a := 1) (b := 0) (by decide)).symm

end KrEx

end Clarabel.Chordal
