/-
  Theorems about the union-find model `ClarabelModel/Chordal/Dsu.lean`
  (union by rank + path halving).  All theorems here are class [S] (structural).
-/
import ClarabelModel.Chordal.Dsu
import Mathlib.Logic.Relation

namespace Clarabel.Chordal.Dsu
open Clarabel

/-! ## Definitions -/

/-- well-formedness of a union-find structure on `n` elements -/
structure WF (d : Dsu) (n : Nat) : Prop where
  psize : d.parents.size = n
  rsize : d.ranks.size = n
  bound : ∀ x, x < n → d.parents.getD x 0 < n
  rank_lt : ∀ x, x < n → d.parents.getD x 0 ≠ x →
    d.ranks.getD x 0 < d.ranks.getD (d.parents.getD x 0) 0

/-- `RootOf ps x r`: following parent pointers from `x` ends in the fixed point `r` -/
inductive RootOf (ps : Array Nat) : Nat → Nat → Prop
  | base {x} : x < ps.size → ps.getD x 0 = x → RootOf ps x x
  | step {x r} : x < ps.size → ps.getD x 0 ≠ x → RootOf ps (ps.getD x 0) r → RootOf ps x r

/-- `x` and `y` have the same representative -/
def Same (d : Dsu) (x y : Nat) : Prop := ∃ r, RootOf d.parents x r ∧ RootOf d.parents y r

/-! ## Array / monad helpers -/

theorem getE_ok (xs : Array Nat) (i : Nat) (site : String) (h : i < xs.size) :
    getE xs i site = .ok (xs.getD i 0) := by
  simp [getE, h, pure, Except.pure]

theorem setE_ok (xs : Array Nat) (i v : Nat) (site : String) (h : i < xs.size) :
    setE xs i v site = .ok (xs.setIfInBounds i v) := by
  simp [setE, h, pure, Except.pure, Array.setIfInBounds]

theorem getD_set (xs : Array Nat) (i v j : Nat) (h : i < xs.size) :
    (xs.setIfInBounds i v).getD j 0 = if j = i then v else xs.getD j 0 := by
  simp only [Array.getD_eq_getD_getElem?, Array.getElem?_setIfInBounds, h, if_true]
  by_cases hij : i = j
  · subst hij; simp
  · have : ¬ j = i := fun e => hij e.symm
    simp [hij, this]

/-! ## `RootOf` basics -/

theorem RootOf.lt {ps : Array Nat} {x r : Nat} (h : RootOf ps x r) : x < ps.size := by
  cases h <;> assumption

theorem RootOf.root_fixed {ps : Array Nat} {x r : Nat} (h : RootOf ps x r) :
    r < ps.size ∧ ps.getD r 0 = r := by
  induction h with
  | base h1 h2 => exact ⟨h1, h2⟩
  | step _ _ _ ih => exact ih

theorem RootOf.root_self {ps : Array Nat} {x r : Nat} (h : RootOf ps x r) : RootOf ps r r :=
  .base h.root_fixed.1 h.root_fixed.2

/-- [S] the representative is unique -/
theorem rootOf_functional {ps : Array Nat} {x r₁ r₂ : Nat}
    (h₁ : RootOf ps x r₁) (h₂ : RootOf ps x r₂) : r₁ = r₂ := by
  induction h₁ with
  | base _ hfix =>
    cases h₂ with
    | base => rfl
    | step _ hne _ => exact absurd hfix hne
  | step _ hne _ ih =>
    cases h₂ with
    | base _ hfix => exact absurd hfix hne
    | step _ _ h' => exact ih h'

/-- a root is its own (only) representative -/
theorem rootOf_of_fixed {ps : Array Nat} {x r : Nat} (hx : x < ps.size) (hfix : ps.getD x 0 = x)
    (h : RootOf ps x r) : r = x :=
  rootOf_functional h (.base hx hfix)

/-! ## `new` -/

theorem new_parents_getD (n x : Nat) (hx : x < n) : (Dsu.new n).parents.getD x 0 = x := by
  simp [Dsu.new, Array.getD_eq_getD_getElem?, hx]

/-- [S] `new n` is well formed -/
theorem wf_new (n : Nat) : WF (Dsu.new n) n where
  psize := by simp [Dsu.new]
  rsize := by simp [Dsu.new]
  bound := fun x hx => by rw [new_parents_getD n x hx]; exact hx
  rank_lt := fun x hx hne => absurd (new_parents_getD n x hx) hne

/-- [S] in `new n` everyone is its own representative -/
theorem rootOf_new {n x : Nat} (hx : x < n) : RootOf (Dsu.new n).parents x x :=
  .base (by simpa [Dsu.new] using hx) (new_parents_getD n x hx)

/-! ## ranks are bounded by `maxRank` -/

theorem foldl_max_ge (l : List Nat) : ∀ (init : Nat),
    init ≤ l.foldl Nat.max init ∧ ∀ a ∈ l, a ≤ l.foldl Nat.max init := by
  induction l with
  | nil => intro init; simp
  | cons b t ih =>
    intro init
    have h := ih (Nat.max init b)
    have h1 : init ≤ Nat.max init b := Nat.le_max_left _ _
    have h2 : b ≤ Nat.max init b := Nat.le_max_right _ _
    refine ⟨Nat.le_trans h1 h.1, ?_⟩
    intro a ha
    simp only [List.foldl_cons]
    rcases List.mem_cons.mp ha with rfl | ha
    · exact Nat.le_trans h2 h.1
    · exact h.2 a ha

theorem rank_le_maxRank (d : Dsu) (x : Nat) : d.ranks.getD x 0 ≤ d.maxRank := by
  unfold maxRank
  by_cases hx : x < d.ranks.size
  · have : d.ranks.getD x 0 = d.ranks[x] := by simp [Array.getD_eq_getD_getElem?, hx]
    rw [this]
    exact (foldl_max_ge d.ranks.toList 0).2 _ (by simp)
  · have : d.ranks.getD x 0 = 0 := by simp [Array.getD_eq_getD_getElem?, hx]
    rw [this]; exact Nat.zero_le _

/-! ## array-level invariant and totality -/

/-- the invariant of `WF` on bare arrays (`ps` parents, `rk` ranks) -/
structure WFa (ps rk : Array Nat) (n : Nat) : Prop where
  psize : ps.size = n
  bound : ∀ x, x < n → ps.getD x 0 < n
  rank_lt : ∀ x, x < n → ps.getD x 0 ≠ x → rk.getD x 0 < rk.getD (ps.getD x 0) 0

theorem WF.toWFa {d : Dsu} {n : Nat} (h : WF d n) : WFa d.parents d.ranks n :=
  ⟨h.psize, h.bound, h.rank_lt⟩

theorem rootOf_total_aux {ps rk : Array Nat} {n : Nat} (h : WFa ps rk n) (M : Nat)
    (hM : ∀ x, rk.getD x 0 ≤ M) :
    ∀ k x, x < n → M - rk.getD x 0 ≤ k → ∃ r, RootOf ps x r ∧ r < n := by
  intro k
  induction k with
  | zero =>
    intro x hx hk
    by_cases hfix : ps.getD x 0 = x
    · exact ⟨x, .base (h.psize ▸ hx) hfix, hx⟩
    · have := h.rank_lt x hx hfix
      have := hM (ps.getD x 0)
      omega
  | succ k ih =>
    intro x hx hk
    by_cases hfix : ps.getD x 0 = x
    · exact ⟨x, .base (h.psize ▸ hx) hfix, hx⟩
    · have h1 := h.rank_lt x hx hfix
      have h2 := hM (ps.getD x 0)
      obtain ⟨r, hr, hrn⟩ := ih (ps.getD x 0) (h.bound x hx) (by omega)
      exact ⟨r, .step (h.psize ▸ hx) hfix hr, hrn⟩

theorem WFa.total {ps rk : Array Nat} {n : Nat} (h : WFa ps rk n) (M : Nat)
    (hM : ∀ x, rk.getD x 0 ≤ M) {x : Nat} (hx : x < n) : ∃ r, RootOf ps x r ∧ r < n :=
  rootOf_total_aux h M hM _ x hx (Nat.le_refl _)

/-- [S] every element has a representative -/
theorem rootOf_total {d : Dsu} {n x : Nat} (h : WF d n) (hx : x < n) :
    ∃ r, RootOf d.parents x r ∧ r < n :=
  h.toWFa.total d.maxRank (rank_le_maxRank d) hx

/-! ## path halving -/

theorem WFa.rank_le {ps rk : Array Nat} {n : Nat} (h : WFa ps rk n) {x : Nat} (hx : x < n) :
    rk.getD x 0 ≤ rk.getD (ps.getD x 0) 0 := by
  by_cases hfix : ps.getD x 0 = x
  · rw [hfix]; exact Nat.le_refl _
  · exact Nat.le_of_lt (h.rank_lt x hx hfix)

/-- the grandparent of a non-root is not the element itself -/
theorem WFa.grand_ne {ps rk : Array Nat} {n : Nat} (h : WFa ps rk n) {x : Nat} (hx : x < n)
    (hne : ps.getD x 0 ≠ x) : ps.getD (ps.getD x 0) 0 ≠ x := by
  intro e
  have h1 := h.rank_lt x hx hne
  have h2 := h.rank_le (h.bound x hx)
  rw [e] at h2
  omega

theorem WFa.grand_rank {ps rk : Array Nat} {n : Nat} (h : WFa ps rk n) {x : Nat} (hx : x < n)
    (hne : ps.getD x 0 ≠ x) : rk.getD x 0 < rk.getD (ps.getD (ps.getD x 0) 0) 0 := by
  have h1 := h.rank_lt x hx hne
  have h2 := h.rank_le (h.bound x hx)
  omega

theorem getD_set_self (xs : Array Nat) (i v : Nat) (h : i < xs.size) :
    (xs.setIfInBounds i v).getD i 0 = v := by
  rw [getD_set _ _ _ _ h, if_pos rfl]

theorem getD_set_ne (xs : Array Nat) (i v j : Nat) (h : i < xs.size) (hne : j ≠ i) :
    (xs.setIfInBounds i v).getD j 0 = xs.getD j 0 := by
  rw [getD_set _ _ _ _ h, if_neg hne]

/-- one halving step `parents[x] := parents[parents[x]]` keeps the invariant -/
theorem WFa.halve {ps rk : Array Nat} {n : Nat} (h : WFa ps rk n) {x : Nat} (hx : x < n) :
    WFa (ps.setIfInBounds x (ps.getD (ps.getD x 0) 0)) rk n := by
  have hxs : x < ps.size := h.psize ▸ hx
  refine ⟨by simp [h.psize], ?_, ?_⟩
  · intro y hy
    by_cases e : y = x
    · subst e
      rw [getD_set_self _ _ _ hxs]
      exact h.bound _ (h.bound y hx)
    · rw [getD_set_ne _ _ _ _ hxs e]
      exact h.bound y hy
  · intro y hy
    by_cases e : y = x
    · subst e
      rw [getD_set_self _ _ _ hxs]
      intro hne
      have : ps.getD y 0 ≠ y := by
        intro e; rw [e, e] at hne; exact hne rfl
      exact h.grand_rank hy this
    · rw [getD_set_ne _ _ _ _ hxs e]
      exact h.rank_lt y hy

/-- [S] path halving does not change anyone's representative -/
theorem rootOf_halve_iff {ps rk : Array Nat} {n : Nat} (h : WFa ps rk n) (M : Nat)
    (hM : ∀ x, rk.getD x 0 ≤ M) {x : Nat} (hx : x < n) (y r : Nat) :
    RootOf (ps.setIfInBounds x (ps.getD (ps.getD x 0) 0)) y r ↔ RootOf ps y r := by
  have hxs : x < ps.size := h.psize ▸ hx
  have hsz : (ps.setIfInBounds x (ps.getD (ps.getD x 0) 0)).size = ps.size := by simp
  have fwd : ∀ y r, RootOf (ps.setIfInBounds x (ps.getD (ps.getD x 0) 0)) y r → RootOf ps y r := by
    intro y r hy
    induction hy with
    | @base y hys hfix =>
      rw [hsz] at hys
      by_cases e : y = x
      · subst e
        rw [getD_set_self _ _ _ hxs] at hfix
        by_cases hne : ps.getD y 0 = y
        · exact .base hys hne
        · exact absurd hfix (h.grand_ne hx hne)
      · rw [getD_set_ne _ _ _ _ hxs e] at hfix
        exact .base hys hfix
    | @step y r hys hne _ ih =>
      rw [hsz] at hys
      by_cases e : y = x
      · subst e
        rw [getD_set_self _ _ _ hxs] at hne ih
        have hpy : ps.getD y 0 ≠ y := by
          intro e; rw [e, e] at hne; exact hne rfl
        have hp : RootOf ps (ps.getD y 0) r := by
          by_cases hpp : ps.getD (ps.getD y 0) 0 = ps.getD y 0
          · rw [hpp] at ih; exact ih
          · exact .step (h.psize ▸ h.bound y hx) hpp ih
        exact .step hys hpy hp
      · rw [getD_set_ne _ _ _ _ hxs e] at hne ih
        exact .step hys hne ih
  constructor
  · exact fwd y r
  · intro hy
    have hyn : y < n := h.psize ▸ hy.lt
    obtain ⟨r', hr', _⟩ := (h.halve hx).total M hM hyn
    have := rootOf_functional hy (fwd y r' hr')
    rw [this]; exact hr'

/-! ## `root` -/

theorem rootLoop_succ (fuel : Nat) (ps : Array Nat) (x : Nat) (hx : x < ps.size)
    (hp : ps.getD x 0 < ps.size) :
    rootLoop (fuel + 1) ps x =
      if x = ps.getD x 0 then .ok (ps, x)
      else rootLoop fuel (ps.setIfInBounds x (ps.getD (ps.getD x 0) 0)) (ps.getD (ps.getD x 0) 0) := by
  rw [rootLoop]
  simp only [getE_ok _ _ _ hx, getE_ok _ _ _ hp, setE_ok _ _ _ _ hx, bind, Except.bind,
    beq_iff_eq, pure, Except.pure]

theorem rootLoop_spec {rk : Array Nat} {n : Nat} (M : Nat) (hM : ∀ x, rk.getD x 0 ≤ M) :
    ∀ (fuel : Nat) (ps : Array Nat) (x : Nat), WFa ps rk n → x < n → M - rk.getD x 0 < fuel →
      ∃ ps' r, rootLoop fuel ps x = .ok (ps', r) ∧ WFa ps' rk n ∧ RootOf ps x r ∧
        ∀ y r', RootOf ps' y r' ↔ RootOf ps y r' := by
  intro fuel
  induction fuel with
  | zero => intro ps x _ _ hf; omega
  | succ fuel ih =>
    intro ps x h hx hf
    have hxs : x < ps.size := h.psize ▸ hx
    have hps : ps.getD x 0 < ps.size := h.psize ▸ h.bound x hx
    rw [rootLoop_succ fuel ps x hxs hps]
    by_cases hfix : x = ps.getD x 0
    · rw [if_pos hfix]
      exact ⟨ps, x, rfl, h, .base hxs hfix.symm, fun _ _ => Iff.rfl⟩
    · rw [if_neg hfix]
      have hne : ps.getD x 0 ≠ x := fun e => hfix e.symm
      have hgr := h.grand_rank hx hne
      have hgb := hM (ps.getD (ps.getD x 0) 0)
      obtain ⟨ps', r, hrun, hwf, hroot, hiff⟩ :=
        ih _ (ps.getD (ps.getD x 0) 0) (h.halve hx) (h.bound _ (h.bound x hx)) (by omega)
      have hhalve := rootOf_halve_iff h M hM hx
      refine ⟨ps', r, hrun, hwf, ?_, fun y r' => (hiff y r').trans (hhalve y r')⟩
      have h1 : RootOf ps (ps.getD (ps.getD x 0) 0) r := (hhalve _ _).mp hroot
      have h2 : RootOf ps (ps.getD x 0) r := by
        by_cases hpp : ps.getD (ps.getD x 0) 0 = ps.getD x 0
        · rw [hpp] at h1; exact h1
        · exact .step hps hpp h1
      exact .step hxs hne h2

theorem root_spec' {d : Dsu} {n x : Nat} (h : WF d n) (hx : x < n) :
    ∃ d' r, d.root x = .ok (d', r) ∧ WF d' n ∧ d'.ranks = d.ranks ∧ RootOf d.parents x r ∧
      (∀ y r', RootOf d'.parents y r' ↔ RootOf d.parents y r') := by
  obtain ⟨ps', r, hrun, hwf, hroot, hiff⟩ :=
    rootLoop_spec (n := n) d.maxRank (rank_le_maxRank d) (d.maxRank + 1) d.parents x h.toWFa hx
      (by omega)
  refine ⟨{ d with parents := ps' }, r, ?_, ⟨hwf.psize, h.rsize, hwf.bound, hwf.rank_lt⟩, rfl,
    hroot, hiff⟩
  simp only [root, hrun, bind, Except.bind, pure, Except.pure]

/-- [S] `root` terminates within its fuel, returns the representative, keeps the structure
well formed, leaves the ranks alone and does not change anyone's representative -/
theorem root_spec {d : Dsu} {n x : Nat} (h : WF d n) (hx : x < n) :
    ∃ d' r, d.root x = .ok (d', r) ∧ WF d' n ∧ d'.ranks = d.ranks ∧ RootOf d.parents x r ∧
      (∀ y r', y < n → (RootOf d'.parents y r' ↔ RootOf d.parents y r')) := by
  obtain ⟨d', r, h1, h2, h3, h4, h5⟩ := root_spec' h hx
  exact ⟨d', r, h1, h2, h3, h4, fun y r' _ => h5 y r'⟩

/-! ## `Same` on bare arrays -/

/-- `Same` on a bare parent array -/
def SameA (ps : Array Nat) (a b : Nat) : Prop := ∃ t, RootOf ps a t ∧ RootOf ps b t

theorem SameA.symm {ps : Array Nat} {a b : Nat} : SameA ps a b → SameA ps b a :=
  fun ⟨t, h1, h2⟩ => ⟨t, h2, h1⟩

theorem SameA.trans {ps : Array Nat} {a b c : Nat} : SameA ps a b → SameA ps b c → SameA ps a c :=
  fun ⟨t, h1, h2⟩ ⟨t', h3, h4⟩ => by
    have := rootOf_functional h2 h3
    subst this
    exact ⟨t, h1, h4⟩

theorem sameA_congr {ps ps' : Array Nat} (h : ∀ y t, RootOf ps' y t ↔ RootOf ps y t) (a b : Nat) :
    SameA ps' a b ↔ SameA ps a b := by
  simp only [SameA, h]

/-! ## linking a root under another root -/

theorem rootOf_link_fwd {ps : Array Nat} {r s : Nat} (hr : r < ps.size) (hs : s < ps.size)
    (hrfix : ps.getD r 0 = r) (hsfix : ps.getD s 0 = s) (hrs : r ≠ s) {y t : Nat}
    (h : RootOf ps y t) : RootOf (ps.setIfInBounds r s) y (if t = r then s else t) := by
  have hsr : s ≠ r := fun e => hrs e.symm
  have hss : RootOf (ps.setIfInBounds r s) s s :=
    .base (by simpa using hs) (by rw [getD_set_ne _ _ _ _ hr hsr]; exact hsfix)
  induction h with
  | @base y hys hfix =>
    by_cases e : y = r
    · rw [if_pos e, e]
      refine .step (by simpa using hr) ?_ ?_
      · rw [getD_set_self _ _ _ hr]; exact hsr
      · rw [getD_set_self _ _ _ hr]; exact hss
    · rw [if_neg e]
      exact .base (by simpa using hys) (by rw [getD_set_ne _ _ _ _ hr e]; exact hfix)
  | @step y t hys hne _ ih =>
    have e : y ≠ r := fun e => hne (by rw [e]; exact hrfix)
    refine .step (by simpa using hys) ?_ ?_
    · rw [getD_set_ne _ _ _ _ hr e]; exact hne
    · rw [getD_set_ne _ _ _ _ hr e]; exact ih

theorem rootOf_link_iff {ps rk : Array Nat} {n : Nat} (h : WFa ps rk n) (M : Nat)
    (hM : ∀ x, rk.getD x 0 ≤ M) {r s : Nat} (hr : r < n) (hs : s < n)
    (hrfix : ps.getD r 0 = r) (hsfix : ps.getD s 0 = s) (hrs : r ≠ s) (y t : Nat) :
    RootOf (ps.setIfInBounds r s) y t ↔ ∃ t0, RootOf ps y t0 ∧ t = if t0 = r then s else t0 := by
  have hr' : r < ps.size := h.psize ▸ hr
  have hs' : s < ps.size := h.psize ▸ hs
  constructor
  · intro hy
    have hyn : y < n := by have := hy.lt; simpa [h.psize] using this
    obtain ⟨t0, ht0, _⟩ := h.total M hM hyn
    exact ⟨t0, ht0, rootOf_functional hy (rootOf_link_fwd hr' hs' hrfix hsfix hrs ht0)⟩
  · rintro ⟨t0, ht0, rfl⟩
    exact rootOf_link_fwd hr' hs' hrfix hsfix hrs ht0

/-- [S] classes after linking root `r = root x` under root `s = root y` -/
theorem sameA_link_iff {ps rk : Array Nat} {n : Nat} (h : WFa ps rk n) (M : Nat)
    (hM : ∀ x, rk.getD x 0 ≤ M) {r s x y : Nat} (hxr : RootOf ps x r) (hys : RootOf ps y s)
    (hrs : r ≠ s) (a b : Nat) :
    SameA (ps.setIfInBounds r s) a b ↔
      (SameA ps a b ∨ (SameA ps a x ∧ SameA ps y b) ∨ (SameA ps a y ∧ SameA ps x b)) := by
  have hr : r < n := h.psize ▸ hxr.root_fixed.1
  have hs : s < n := h.psize ▸ hys.root_fixed.1
  have hrfix := hxr.root_fixed.2
  have hsfix := hys.root_fixed.2
  have hr' : r < ps.size := h.psize ▸ hr
  have hs' : s < ps.size := h.psize ▸ hs
  have key := rootOf_link_iff h M hM hr hs hrfix hsfix hrs
  have fwd := @rootOf_link_fwd ps r s hr' hs' hrfix hsfix hrs
  have hsr : s ≠ r := fun e => hrs e.symm
  constructor
  · rintro ⟨t, ha, hb⟩
    obtain ⟨ta, hta, ea⟩ := (key a t).mp ha
    obtain ⟨tb, htb, eb⟩ := (key b t).mp hb
    by_cases e1 : ta = r <;> by_cases e2 : tb = r
    · subst e1; subst e2; exact .inl ⟨_, hta, htb⟩
    · rw [if_pos e1] at ea; rw [if_neg e2] at eb
      subst e1; subst ea; subst eb
      exact .inr (.inl ⟨⟨_, hta, hxr⟩, ⟨_, hys, htb⟩⟩)
    · rw [if_neg e1] at ea; rw [if_pos e2] at eb
      subst e2; subst ea; subst eb
      exact .inr (.inr ⟨⟨_, hta, hys⟩, ⟨_, hxr, htb⟩⟩)
    · rw [if_neg e1] at ea; rw [if_neg e2] at eb
      subst ea; subst eb
      exact .inl ⟨_, hta, htb⟩
  · rintro (⟨t, ha, hb⟩ | ⟨⟨t1, ha, hx1⟩, ⟨t2, hy2, hb⟩⟩ | ⟨⟨t1, ha, hy1⟩, ⟨t2, hx2, hb⟩⟩)
    · exact ⟨_, fwd ha, fwd hb⟩
    · have e1 := rootOf_functional hx1 hxr
      have e2 := rootOf_functional hy2 hys
      subst e1; subst e2
      have h1 := fwd ha
      have h2 := fwd hb
      rw [if_pos rfl] at h1; rw [if_neg hsr] at h2
      exact ⟨_, h1, h2⟩
    · have e1 := rootOf_functional hy1 hys
      have e2 := rootOf_functional hx2 hxr
      subst e1; subst e2
      have h1 := fwd ha
      have h2 := fwd hb
      rw [if_neg hsr] at h1; rw [if_pos rfl] at h2
      exact ⟨_, h1, h2⟩

theorem WFa.link {ps rk : Array Nat} {n : Nat} (h : WFa ps rk n) {r s : Nat} (hr : r < n)
    (hs : s < n) (hlt : rk.getD r 0 < rk.getD s 0) : WFa (ps.setIfInBounds r s) rk n := by
  have hr' : r < ps.size := h.psize ▸ hr
  refine ⟨by simp [h.psize], ?_, ?_⟩
  · intro z hz
    by_cases e : z = r
    · rw [e, getD_set_self _ _ _ hr']; exact hs
    · rw [getD_set_ne _ _ _ _ hr' e]; exact h.bound z hz
  · intro z hz
    by_cases e : z = r
    · rw [e, getD_set_self _ _ _ hr']; exact fun _ => hlt
    · rw [getD_set_ne _ _ _ _ hr' e]; exact h.rank_lt z hz

theorem WFa.link_eq {ps rk : Array Nat} {n : Nat} (h : WFa ps rk n) (hrk : rk.size = n)
    {r s : Nat} (hr : r < n) (hs : s < n) (hrs : r ≠ s) (hsfix : ps.getD s 0 = s)
    (heq : rk.getD r 0 = rk.getD s 0) :
    WFa (ps.setIfInBounds r s) (rk.setIfInBounds s (rk.getD s 0 + 1)) n := by
  have hr' : r < ps.size := h.psize ▸ hr
  have hs' : s < rk.size := hrk ▸ hs
  refine ⟨by simp [h.psize], ?_, ?_⟩
  · intro z hz
    by_cases e : z = r
    · rw [e, getD_set_self _ _ _ hr']; exact hs
    · rw [getD_set_ne _ _ _ _ hr' e]; exact h.bound z hz
  · intro z hz
    by_cases e : z = r
    · rw [e, getD_set_self _ _ _ hr', getD_set_ne _ _ _ _ hs' hrs, getD_set_self _ _ _ hs']
      intro _; omega
    · rw [getD_set_ne _ _ _ _ hr' e]
      intro hne
      have hzs : z ≠ s := fun e' => hne (by rw [e']; exact hsfix)
      rw [getD_set_ne _ _ _ _ hs' hzs]
      have hlt := h.rank_lt z hz hne
      by_cases e2 : ps.getD z 0 = s
      · rw [e2, getD_set_self _ _ _ hs']
        rw [e2] at hlt; omega
      · rw [getD_set_ne _ _ _ _ hs' e2]; exact hlt

/-! ## `union` and `inSameSet` -/

theorem same_iff_sameA (d : Dsu) (a b : Nat) : Same d a b ↔ SameA d.parents a b := Iff.rfl

/-- [S] `union` succeeds, keeps the structure well formed and merges exactly the classes of
`x` and `y` -/
theorem union_spec {d : Dsu} {n x y : Nat} (h : WF d n) (hx : x < n) (hy : y < n) :
    ∃ d', d.union x y = .ok d' ∧ WF d' n ∧ ∀ a b, a < n → b < n →
      (Same d' a b ↔ (Same d a b ∨ (Same d a x ∧ Same d y b) ∨ (Same d a y ∧ Same d x b))) := by
  obtain ⟨d1, r, hrun1, hwf1, hrk1, hroot1, hiff1⟩ := root_spec' h hx
  obtain ⟨d2, s, hrun2, hwf2, hrk2, hroot2, hiff2⟩ := root_spec' hwf1 hy
  have hiff : ∀ y t, RootOf d2.parents y t ↔ RootOf d.parents y t :=
    fun y t => (hiff2 y t).trans (hiff1 y t)
  have hxr : RootOf d2.parents x r := (hiff _ _).mpr hroot1
  have hys : RootOf d2.parents y s := (hiff2 _ _).mpr hroot2
  have hsame : ∀ a b, Same d2 a b ↔ Same d a b := sameA_congr hiff
  have hrp : r < d2.parents.size := hxr.root_fixed.1
  have hsp : s < d2.parents.size := hys.root_fixed.1
  have hr : r < n := hwf2.psize ▸ hrp
  have hs : s < n := hwf2.psize ▸ hsp
  have hrr : r < d2.ranks.size := hwf2.rsize ▸ hr
  have hsr : s < d2.ranks.size := hwf2.rsize ▸ hs
  have W2 := hwf2.toWFa
  have hM := rank_le_maxRank d2
  suffices hsuff : ∃ d', d.union x y = .ok d' ∧ WF d' n ∧ ∀ a b,
      (Same d' a b ↔ (Same d2 a b ∨ (Same d2 a x ∧ Same d2 y b) ∨ (Same d2 a y ∧ Same d2 x b))) by
    obtain ⟨d', h1, h2, h3⟩ := hsuff
    exact ⟨d', h1, h2, fun a b _ _ => by simp only [h3, hsame]⟩
  have hunf : d.union x y =
      (if r = s then .ok d2
       else if d2.ranks.getD r 0 > d2.ranks.getD s 0 then
         .ok { d2 with parents := d2.parents.setIfInBounds s r }
       else if d2.ranks.getD r 0 < d2.ranks.getD s 0 then
         .ok { d2 with parents := d2.parents.setIfInBounds r s }
       else .ok { parents := d2.parents.setIfInBounds r s,
                  ranks := d2.ranks.setIfInBounds s (d2.ranks.getD s 0 + 1) }) := by
    simp only [union, hrun1, hrun2, bind, Except.bind, pure, Except.pure, beq_iff_eq,
      getE_ok _ _ _ hrr, getE_ok _ _ _ hsr, setE_ok _ _ _ _ hrp, setE_ok _ _ _ _ hsp,
      setE_ok _ _ _ _ hsr]
  rw [hunf]
  by_cases hrs : r = s
  · rw [if_pos hrs]
    subst hrs
    refine ⟨d2, rfl, hwf2, fun a b => ⟨.inl, ?_⟩⟩
    have hxy : Same d2 x y := ⟨r, hxr, hys⟩
    rintro (h1 | ⟨h1, h2⟩ | ⟨h1, h2⟩)
    · exact h1
    · exact SameA.trans (SameA.trans h1 hxy) h2
    · exact SameA.trans (SameA.trans h1 (SameA.symm hxy)) h2
  · rw [if_neg hrs]
    by_cases hgt : d2.ranks.getD r 0 > d2.ranks.getD s 0
    · rw [if_pos hgt]
      have W := W2.link hs hr hgt
      refine ⟨_, rfl, ⟨W.psize, hwf2.rsize, W.bound, W.rank_lt⟩, fun a b => ?_⟩
      have := sameA_link_iff W2 _ hM hys hxr (fun e => hrs e.symm) a b
      simp only [same_iff_sameA]
      rw [this]
      constructor
      · rintro (h1 | h1 | h1)
        · exact .inl h1
        · exact .inr (.inr h1)
        · exact .inr (.inl h1)
      · rintro (h1 | h1 | h1)
        · exact .inl h1
        · exact .inr (.inr h1)
        · exact .inr (.inl h1)
    · rw [if_neg hgt]
      by_cases hlt : d2.ranks.getD r 0 < d2.ranks.getD s 0
      · rw [if_pos hlt]
        have W := W2.link hr hs hlt
        refine ⟨_, rfl, ⟨W.psize, hwf2.rsize, W.bound, W.rank_lt⟩, fun a b => ?_⟩
        exact sameA_link_iff W2 _ hM hxr hys hrs a b
      · rw [if_neg hlt]
        have W := W2.link_eq hwf2.rsize hr hs hrs hys.root_fixed.2 (by omega)
        refine ⟨_, rfl, ⟨W.psize, by simp [hwf2.rsize], W.bound, W.rank_lt⟩, fun a b => ?_⟩
        exact sameA_link_iff W2 _ hM hxr hys hrs a b

/-- [S] `inSameSet` succeeds, answers whether `x` and `y` are in the same class, and changes
no class -/
theorem inSameSet_spec {d : Dsu} {n x y : Nat} (h : WF d n) (hx : x < n) (hy : y < n) :
    ∃ d' b, d.inSameSet x y = .ok (d', b) ∧ WF d' n ∧ (b = true ↔ Same d x y) ∧
      ∀ a c, a < n → c < n → (Same d' a c ↔ Same d a c) := by
  obtain ⟨d1, r, hrun1, hwf1, hrk1, hroot1, hiff1⟩ := root_spec' h hx
  obtain ⟨d2, s, hrun2, hwf2, hrk2, hroot2, hiff2⟩ := root_spec' hwf1 hy
  have hiff : ∀ y t, RootOf d2.parents y t ↔ RootOf d.parents y t :=
    fun y t => (hiff2 y t).trans (hiff1 y t)
  refine ⟨d2, r == s, ?_, hwf2, ?_, fun a c _ _ => sameA_congr hiff a c⟩
  · simp only [inSameSet, hrun1, hrun2, bind, Except.bind, pure, Except.pure]
  · rw [beq_iff_eq]
    have hys : RootOf d.parents y s := (hiff1 _ _).mp hroot2
    constructor
    · intro e; subst e; exact ⟨r, hroot1, hys⟩
    · rintro ⟨t, h1, h2⟩
      rw [rootOf_functional hroot1 h1, rootOf_functional hys h2]

/-! ## operation histories -/

open Relation in
/-- [S] the equivalence generated by `R` plus one pair `(x, y)` -/
theorem eqvGen_insert_iff {α : Type} (R : α → α → Prop) (x y a b : α) :
    EqvGen (fun a b => R a b ∨ (a = x ∧ b = y)) a b ↔
      (EqvGen R a b ∨ (EqvGen R a x ∧ EqvGen R y b) ∨ (EqvGen R a y ∧ EqvGen R x b)) := by
  have S : ∀ {u v : α}, EqvGen R u v → EqvGen R v u := fun h => EqvGen.symm _ _ h
  have T : ∀ {u v w : α}, EqvGen R u v → EqvGen R v w → EqvGen R u w :=
    fun h1 h2 => EqvGen.trans _ _ _ h1 h2
  constructor
  · intro h
    induction h with
    | rel a b hab =>
      rcases hab with h | ⟨rfl, rfl⟩
      · exact .inl (.rel _ _ h)
      · exact .inr (.inl ⟨.refl _, .refl _⟩)
    | refl a => exact .inl (.refl _)
    | symm a b _ ih =>
      rcases ih with h | ⟨h1, h2⟩ | ⟨h1, h2⟩
      · exact .inl (S h)
      · exact .inr (.inr ⟨S h2, S h1⟩)
      · exact .inr (.inl ⟨S h2, S h1⟩)
    | trans a b c _ _ ih1 ih2 =>
      rcases ih1 with h | ⟨h1, h2⟩ | ⟨h1, h2⟩ <;> rcases ih2 with k | ⟨k1, k2⟩ | ⟨k1, k2⟩
      · exact .inl (T h k)
      · exact .inr (.inl ⟨T h k1, k2⟩)
      · exact .inr (.inr ⟨T h k1, k2⟩)
      · exact .inr (.inl ⟨h1, T h2 k⟩)
      · exact .inr (.inl ⟨h1, k2⟩)
      · exact .inl (T h1 k2)
      · exact .inr (.inr ⟨h1, T h2 k⟩)
      · exact .inl (T h1 k2)
      · exact .inr (.inr ⟨h1, k2⟩)
  · have mono : ∀ {u v : α}, EqvGen R u v → EqvGen (fun a b => R a b ∨ (a = x ∧ b = y)) u v := by
      intro u v h
      induction h with
      | rel a b hab => exact .rel _ _ (.inl hab)
      | refl a => exact .refl _
      | symm a b _ ih => exact .symm _ _ ih
      | trans a b c _ _ ih1 ih2 => exact .trans _ _ _ ih1 ih2
    have hxy : EqvGen (fun a b => R a b ∨ (a = x ∧ b = y)) x y := .rel _ _ (.inr ⟨rfl, rfl⟩)
    rintro (h | ⟨h1, h2⟩ | ⟨h1, h2⟩)
    · exact mono h
    · exact .trans _ _ _ (mono h1) (.trans _ _ _ hxy (mono h2))
    · exact .trans _ _ _ (mono h1) (.trans _ _ _ (.symm _ _ hxy) (mono h2))

/-- all indices of an operation are `< n` -/
def InRange (n : Nat) : Op → Prop
  | .union x y => x < n ∧ y < n
  | .same x y => x < n ∧ y < n
  | .root x => x < n

/-- answers of a history w.r.t. the equivalence generated by the union pairs seen so far -/
inductive Answers : (Nat → Nat → Prop) → List Op → List (Option Nat) → Prop
  | nil {R} : Answers R [] []
  | union {R x y rest outs} :
      Answers (fun a b => R a b ∨ (a = x ∧ b = y)) rest outs →
      Answers R (.union x y :: rest) (none :: outs)
  | same {R x y rest outs b} : (b = 1 ∨ b = 0) → (b = 1 ↔ Relation.EqvGen R x y) →
      Answers R rest outs → Answers R (.same x y :: rest) (some b :: outs)
  | root {R x rest outs r} : Relation.EqvGen R x r → Answers R rest outs →
      Answers R (.root x :: rest) (some r :: outs)

/-- [S] generalisation of `history_spec`: start from any well-formed structure whose classes
are those of the equivalence generated by `R` -/
theorem history_spec_gen (n : Nat) : ∀ (ops : List Op) (d : Dsu) (R : Nat → Nat → Prop),
    WF d n → (∀ a b, a < n → b < n → (Same d a b ↔ Relation.EqvGen R a b)) →
    (∀ o ∈ ops, InRange n o) →
    ∃ d' outs, runOps d ops = .ok (d', outs) ∧ WF d' n ∧ Answers R ops outs := by
  intro ops
  induction ops with
  | nil =>
    intro d R h _ _
    exact ⟨d, [], rfl, h, .nil⟩
  | cons o rest ih =>
    intro d R h hR hin
    have hrest : ∀ o ∈ rest, InRange n o := fun o ho => hin o (List.mem_cons_of_mem _ ho)
    have ho : InRange n o := hin o (List.mem_cons_self ..)
    cases o with
    | union x y =>
      obtain ⟨hx, hy⟩ := ho
      obtain ⟨d1, hrun, hwf, hsame⟩ := union_spec h hx hy
      have hR' : ∀ a b, a < n → b < n →
          (Same d1 a b ↔ Relation.EqvGen (fun a b => R a b ∨ (a = x ∧ b = y)) a b) := by
        intro a b ha hb
        rw [hsame a b ha hb, eqvGen_insert_iff, hR a b ha hb, hR a x ha hx, hR y b hy hb,
          hR a y ha hy, hR x b hx hb]
      obtain ⟨d', outs, hrun', hwf', hans⟩ := ih d1 _ hwf hR' hrest
      refine ⟨d', none :: outs, ?_, hwf', .union hans⟩
      simp only [runOps, hrun, hrun', bind, Except.bind, pure, Except.pure]
    | same x y =>
      obtain ⟨hx, hy⟩ := ho
      obtain ⟨d1, b, hrun, hwf, hb, hsame⟩ := inSameSet_spec h hx hy
      have hR' : ∀ a c, a < n → c < n → (Same d1 a c ↔ Relation.EqvGen R a c) := by
        intro a c ha hc
        rw [hsame a c ha hc, hR a c ha hc]
      obtain ⟨d', outs, hrun', hwf', hans⟩ := ih d1 R hwf hR' hrest
      refine ⟨d', some (if b then 1 else 0) :: outs, ?_, hwf', .same ?_ ?_ hans⟩
      · simp only [runOps, hrun, hrun', bind, Except.bind, pure, Except.pure]
      · cases b <;> simp
      · rw [← hR x y hx hy, ← hb]
        cases b <;> simp
    | root x =>
      have hx : x < n := ho
      obtain ⟨d1, r, hrun, hwf, _, hroot, hiff⟩ := root_spec' h hx
      have hr : r < n := h.psize ▸ hroot.root_fixed.1
      have hxr : Relation.EqvGen R x r := (hR x r hx hr).mp ⟨r, hroot, hroot.root_self⟩
      have hR' : ∀ a c, a < n → c < n → (Same d1 a c ↔ Relation.EqvGen R a c) := by
        intro a c ha hc
        rw [← hR a c ha hc]
        exact sameA_congr hiff a c
      obtain ⟨d', outs, hrun', hwf', hans⟩ := ih d1 R hwf hR' hrest
      refine ⟨d', some r :: outs, ?_, hwf', .root hxr hans⟩
      simp only [runOps, hrun, hrun', bind, Except.bind, pure, Except.pure]

theorem same_new_iff {n a b : Nat} (ha : a < n) (hb : b < n) :
    Same (Dsu.new n) a b ↔ Relation.EqvGen (fun _ _ : Nat => False) a b := by
  constructor
  · rintro ⟨t, h1, h2⟩
    have e1 := rootOf_functional h1 (rootOf_new ha)
    have e2 := rootOf_functional h2 (rootOf_new hb)
    rw [← e1, ← e2]
    exact .refl _
  · intro h
    have : a = b := by
      clear ha hb
      induction h with
      | rel _ _ h => exact h.elim
      | refl _ => rfl
      | symm _ _ _ ih => exact ih.symm
      | trans _ _ _ _ _ ih1 ih2 => exact ih1.trans ih2
    subst this
    exact ⟨a, rootOf_new ha, rootOf_new ha⟩

/-- [S] for every in-range operation history run on `new n` the model never panics, stays
well formed, and every `same` / `root` answer is the one dictated by the equivalence
generated by the `union` pairs seen so far -/
theorem history_spec (n : Nat) (ops : List Op) (h : ∀ o ∈ ops, InRange n o) :
    ∃ d outs, runOps (Dsu.new n) ops = .ok (d, outs) ∧ WF d n ∧
      Answers (fun _ _ => False) ops outs :=
  history_spec_gen n ops (Dsu.new n) _ (wf_new n) (fun _ _ ha hb => same_new_iff ha hb) h

/-! ## non-vacuity -/

example : WF (Dsu.new 3) 3 := wf_new 3

example : RootOf (Dsu.new 3).parents 2 2 := rootOf_new (by omega)

example : ∀ o ∈ [Op.union 0 1, Op.same 1 0, Op.root 2], InRange 3 o := by
  intro o ho
  simp only [List.mem_cons, List.not_mem_nil, or_false] at ho
  rcases ho with rfl | rfl | rfl <;> simp [InRange]

example : (runOps (Dsu.new 3) [.union 0 1, .same 1 0, .same 1 2, .root 0, .root 2]).toOption.map (·.2)
    = some [none, some 1, some 0, some 1, some 2] := rfl

example : ((Dsu.new 3).union 0 1).toOption.map (fun d => (d.parents, d.ranks))
    = some (#[1, 1, 2], #[0, 1, 0]) := rfl

/-! ## the old (pre-fix) `root` and a history it answers wrongly -/

/-- the loop of the OLD `root`
```
let mut parent = x;
while parent != self.parents[x] { self.parents[x] = self.parents[self.parents[x]]; parent = self.parents[x]; }
parent
```
(`x` is never advanced, so the loop body runs at most once) -/
def rootOldLoop : Nat → Array Nat → Nat → Nat → MErr (Array Nat × Nat)
  | 0, _, _, _ => throw (.panic "dsu.rootOld: loop does not terminate")
  | fuel + 1, ps, x, parent => do
    let px ← getE ps x "dsu.rootOld"
    if parent == px then pure (ps, parent) else
    let ppx ← getE ps px "dsu.rootOld"
    let ps' ← setE ps x ppx "dsu.rootOld"
    let parent' ← getE ps' x "dsu.rootOld"
    rootOldLoop fuel ps' x parent'

/-- the OLD `root`: one halving step, returns the grandparent -/
def rootOld (d : Dsu) (x : Nat) : MErr (Dsu × Nat) := do
  let (ps, r) ← rootOldLoop (d.maxRank + 2) d.parents x x
  pure ({ d with parents := ps }, r)

/-- `union` on top of the OLD `root` -/
def unionOld (d : Dsu) (x y : Nat) : MErr Dsu := do
  let (d, r) ← d.rootOld x
  let (d, s) ← d.rootOld y
  if r == s then pure d else
  let rr ← getE d.ranks r "dsu.union"
  let rs ← getE d.ranks s "dsu.union"
  if rr > rs then do
    let p ← setE d.parents s r "dsu.union"
    pure { d with parents := p }
  else if rr < rs then do
    let p ← setE d.parents r s "dsu.union"
    pure { d with parents := p }
  else do
    let p ← setE d.parents r s "dsu.union"
    let rk ← setE d.ranks s (rs + 1) "dsu.union"
    pure { parents := p, ranks := rk }

/-- `in_same_set` on top of the OLD `root` -/
def inSameSetOld (d : Dsu) (x y : Nat) : MErr (Dsu × Bool) := do
  let (d, r) ← d.rootOld x
  let (d, s) ← d.rootOld y
  pure (d, r == s)

/-- `runOps` on top of the OLD operations -/
def runOpsOld (d : Dsu) : List Op → MErr (Dsu × List (Option Nat))
  | [] => pure (d, [])
  | .union x y :: rest => do
    let d ← d.unionOld x y
    let (d, out) ← runOpsOld d rest
    pure (d, none :: out)
  | .same x y :: rest => do
    let (d, b) ← d.inSameSetOld x y
    let (d, out) ← runOpsOld d rest
    pure (d, some (if b then 1 else 0) :: out)
  | .root x :: rest => do
    let (d, r) ← d.rootOld x
    let (d, out) ← runOpsOld d rest
    pure (d, some r :: out)

/-- the documented counterexample: seven unions on 8 elements build one class whose tree has
depth 3 (`0 → 1 → 3 → 7`), then `in_same_set(0, 7)` is asked -/
def counterHistory : List Op :=
  [.union 0 1, .union 2 3, .union 4 5, .union 6 7, .union 1 3, .union 5 7, .union 3 7, .same 0 7]

/-- all operations of the counterexample are in range, so `history_spec` applies to it -/
theorem counterHistory_inRange : ∀ o ∈ counterHistory, InRange 8 o := by
  intro o ho
  simp only [counterHistory, List.mem_cons, List.not_mem_nil, or_false] at ho
  rcases ho with rfl | rfl | rfl | rfl | rfl | rfl | rfl | rfl <;> simp [InRange]

/-- both versions build the same forest with the seven unions (the trees are still shallow
enough while they are built) -/
example : (runOpsOld (Dsu.new 8) (counterHistory.take 7)).toOption.map (fun p => (p.1.parents, p.1.ranks))
    = some (#[1, 3, 3, 7, 5, 7, 7, 7], #[0, 1, 0, 2, 0, 1, 0, 3]) := rfl

example : (runOps (Dsu.new 8) (counterHistory.take 7)).toOption.map (fun p => (p.1.parents, p.1.ranks))
    = some (#[1, 3, 3, 7, 5, 7, 7, 7], #[0, 1, 0, 2, 0, 1, 0, 3]) := rfl

/-- The OLD code answers `false` to `in_same_set(0, 7)` although `0` and `7` were merged into
one class (`0 ~ 1 ~ 3 ~ 7`): its `root 0` stops at the grandparent `3`, which is not the
representative `7`.  This is exactly what `history_spec` excludes for the repaired model. -/
example : (runOpsOld (Dsu.new 8) counterHistory).toOption.map (·.2)
    = some [none, none, none, none, none, none, none, some 0] := rfl

/-- the OLD `in_same_set` on the forest built above, directly -/
example : (inSameSetOld { parents := #[1, 3, 3, 7, 5, 7, 7, 7], ranks := #[0, 1, 0, 2, 0, 1, 0, 3] } 0 7).toOption.map
    (·.2) = some false := rfl

/-- the OLD `root 0` returns `3`, which is not a fixed point of `parents` -/
example : (rootOld { parents := #[1, 3, 3, 7, 5, 7, 7, 7], ranks := #[0, 1, 0, 2, 0, 1, 0, 3] } 0).toOption.map
    (·.2) = some 3 := rfl

/-- the repaired model answers `true` on the same history -/
example : (runOps (Dsu.new 8) counterHistory).toOption.map (·.2)
    = some [none, none, none, none, none, none, none, some 1] := rfl

example : (inSameSet { parents := #[1, 3, 3, 7, 5, 7, 7, 7], ranks := #[0, 1, 0, 2, 0, 1, 0, 3] } 0 7).toOption.map
    (·.2) = some true := rfl

/-- [S] the answers of the OLD code on the counterexample history violate the specification
`Answers` that `history_spec` proves for the repaired model: `0` and `7` are related by the
equivalence generated by the union pairs, so the answer `0` (false) is not admissible. -/
theorem counterHistory_old_not_answers :
    ¬ Answers (fun _ _ => False) counterHistory
        [none, none, none, none, none, none, none, some 0] := by
  intro h
  unfold counterHistory at h
  cases h with | union h =>
  cases h with | union h =>
  cases h with | union h =>
  cases h with | union h =>
  cases h with | union h =>
  cases h with | union h =>
  cases h with | union h =>
  cases h with | same _ hb _ =>
  refine absurd (hb.mpr ?_) (by omega)
  refine .trans _ 1 _ (.rel _ _ ?_) (.trans _ 3 _ (.rel _ _ ?_) (.rel _ _ ?_)) <;> simp

end Clarabel.Chordal.Dsu
