/-
  C12: a concrete instance (3×3 arrow matrix, pattern with fill) on which the hypotheses of the
  round-3 theorems are checked (non-vacuity).
-/
import ClarabelProofs.Lemmas.QdldlRefactor
import ClarabelProofs.Lemmas.ScalarInst

namespace Clarabel.Qdldl

theorem triuCsc_arrow3 : TriuCsc 3 #[0, 1, 3, 5] #[0, 0, 1, 0, 2] := by
  refine ⟨rfl, ?_, ?_, ?_⟩
  · intro k hk
    have : k = 0 ∨ k = 1 ∨ k = 2 := by omega
    rcases this with rfl | rfl | rfl <;> simp
  · intro k hk
    have : k = 0 ∨ k = 1 ∨ k = 2 ∨ k = 3 := by omega
    rcases this with rfl | rfl | rfl | rfl <;> simp
  · intro k hk t h1 h2
    have : k = 0 ∨ k = 1 ∨ k = 2 := by omega
    rcases this with rfl | rfl | rfl
    · have : t = 0 := by simp at h1 h2; omega
      subst this; simp
    · have : t = 1 ∨ t = 2 := by simp at h1 h2; omega
      rcases this with rfl | rfl <;> simp
    · have : t = 3 ∨ t = 4 := by simp at h1 h2; omega
      rcases this with rfl | rfl <;> simp

theorem represents_arrow3 : Represents 3 #[0, 1, 3, 5] #[0, 0, 1, 0, 2] (#[4, 1, 3, 1, 2] : Array ℝ)
    (denseOf #[0, 1, 3, 5] #[0, 0, 1, 0, 2] (#[4, 1, 3, 1, 2] : Array ℝ)) := by
  refine represents_denseOf 3 #[0, 1, 3, 5] #[0, 0, 1, 0, 2] (#[4, 1, 3, 1, 2] : Array ℝ) rfl ?_
  intro k t t' h1 h2 h3 h4 h5
  have hk : k = 0 ∨ k = 1 ∨ k = 2 ∨ 3 ≤ k := by omega
  rcases hk with rfl | rfl | rfl | hk
  · simp at h1 h2 h3 h4; omega
  · have : (t = 1 ∨ t = 2) ∧ (t' = 1 ∨ t' = 2) := by simp at h1 h2 h3 h4; omega
    rcases this with ⟨rfl | rfl, rfl | rfl⟩ <;> simp at h5 <;> rfl
  · have : (t = 3 ∨ t = 4) ∧ (t' = 3 ∨ t' = 4) := by simp at h1 h2 h3 h4; omega
    rcases this with ⟨rfl | rfl, rfl | rfl⟩ <;> simp at h5 <;> rfl
  · have : (#[0, 1, 3, 5] : Array Nat).getD (k + 1) 0 = 0 := by
      rw [Array.getD_eq_getD_getElem?, Array.getElem?_eq_none (by simp; omega)]; rfl
    omega

theorem etree_arrow3 : etree 3 #[0, 1, 3, 5] #[0, 0, 1, 0, 2] =
    .ok ⟨#[2, 2, 2, 0, 0, 0, 0, 0, 0], #[2, 1, 0], #[some 1, some 2, none]⟩ := by rfl

end Clarabel.Qdldl
