/-
  The overlap slots of `A_I` come in pairs `(nnz + 2o, nnz + 2o + 1)` that belong to ONE overlap
  entry: the enumeration `(cone, clique, entry) ↦ slot` is injective, so the `OvTarget` of the even
  and of the odd slot of a pair describe the same entry.
-/
import ClarabelProofs.Lemmas.ChordalCompactUnique

namespace Clarabel.Chordal

/-! ## `ovCount` is strictly increasing on the flagged entries -/

theorem ovCount_le (L : List (Nat × Nat × Bool)) (q q' : Nat) (h : q ≤ q') : ovCount L q ≤ ovCount L q' := by
  induction h with
  | refl => exact Nat.le_refl _
  | step _ ih =>
    rename_i m _
    refine Nat.le_trans ih ?_
    by_cases hm : m < L.length
    · rw [ovCount_succ L m L[m] (List.getElem?_eq_getElem hm)]; omega
    · unfold ovCount
      rw [List.take_of_length_le (by omega), List.take_of_length_le (by omega)]

theorem ovCount_lt_of_flag (L : List (Nat × Nat × Bool)) (q q' : Nat) (a b : Nat)
    (hq : L[q]? = some (a, b, true)) (h : q < q') : ovCount L q < ovCount L q' := by
  have h1 := ovCount_succ L q (a, b, true) hq
  simp only [↓reduceIte] at h1
  have h2 := ovCount_le L (q + 1) q' h
  omega

theorem ovCount_inj_of_flag (L : List (Nat × Nat × Bool)) (q q' a b a' b' : Nat)
    (hq : L[q]? = some (a, b, true)) (hq' : L[q']? = some (a', b', true))
    (h : ovCount L q = ovCount L q') : q = q' := by
  rcases Nat.lt_trichotomy q q' with h' | h' | h'
  · have := ovCount_lt_of_flag L q q' a b hq h'; omega
  · exact h'
  · have := ovCount_lt_of_flag L q' q a' b' hq' h'; omega

theorem ovCount_lt_countP (L : List (Nat × Nat × Bool)) (q a b : Nat) (hq : L[q]? = some (a, b, true)) :
    ovCount L q < L.countP (fun e => e.2.2) := by
  have hlen : q < L.length := by
    rcases Nat.lt_or_ge q L.length with h | h
    · exact h
    · rw [List.getElem?_eq_none h] at hq; cases hq
  have := ovCount_lt_of_flag L q L.length a b hq hlen
  rwa [ovCount_length] at this

/-! ## the overlap entry of a slot -/

/-- an overlap entry: cone `c` decomposed with pattern `p`, non-root clique `i` with parent `j`,
positions `x ≤ y` of two separator vertices in clique `i` and `x' ≤ y'` of the same vertices in `j` -/
structure OvEntry (ci : ChordalInfo) (c : Nat) (p : SPattern) (i j x y x' y' : Nat) : Prop where
  hc : c < ci.initCones.size
  hp : ci.patAt c = some p
  hi : i + 1 < p.sntree.nCliques
  hpar : p.sntree.IsParent i j
  hxy : x ≤ y
  hy : y < (p.cliqueO i).length
  hsx : (p.cliqueO i).getD x 0 ∈ p.sepO i
  hsy : (p.cliqueO i).getD y 0 ∈ p.sepO i
  hxy' : x' ≤ y'
  hy' : y' < (p.cliqueO j).length
  hex : (p.cliqueO j).getD x' 0 = (p.cliqueO i).getD x 0
  hey : (p.cliqueO j).getD y' 0 = (p.cliqueO i).getD y 0

/-- index (among all overlap columns) of an overlap entry -/
def ovIndex (ci : ChordalInfo) (c : Nat) (p : SPattern) (i x y : Nat) : Nat :=
  ci.ovBefore c + descSum p.ovl p.sntree.nCliques (p.sntree.nCliques - 1 - i) +
    ovCount (p.blockList i) (coordToUpperTriangularIndex (x, y))

theorem ovSlot_eq (ci : ChordalInfo) (nnz c : Nat) (p : SPattern) (i x y : Nat) :
    p.ovStart (nnz + 2 * ci.ovBefore c) i + 2 * ovCount (p.blockList i) (coordToUpperTriangularIndex (x, y)) =
      nnz + 2 * ovIndex ci c p i x y := by
  unfold SPattern.ovStart ovIndex
  omega

theorem OvEntry.flag {ci : ChordalInfo} {c : Nat} {p : SPattern} {i j x y x' y' : Nat}
    (h : OvEntry ci c p i j x y x' y') (hv : ValidInfo ci) :
    (p.blockList i)[coordToUpperTriangularIndex (x, y)]? =
      some ((p.cliqueO i).getD x 0, (p.cliqueO i).getD y 0, true) := by
  have hvp := (hv.pat c h.hc p h.hp).1
  have hf := cliqueFacts p hvp i (by have := h.hi; omega)
  unfold SPattern.blockList
  rw [triPairs_getElem? _ _ hf.clique_sorted x y h.hxy h.hy, decide_eq_true h.hsx, decide_eq_true h.hsy]
  rfl

theorem ChordalInfo.ovBefore_succ_some (ci : ChordalInfo) (c : Nat) (p : SPattern) (h : ci.patAt c = some p) :
    ci.ovBefore (c + 1) = ci.ovBefore c + p.totalOverlaps := by
  unfold ChordalInfo.ovBefore
  rw [ci.layoutAt_succ]
  unfold ChordalInfo.layoutStep
  have : ci.nextPattern? (ci.layoutAt c).1 c = some p := h
  rw [this]

/-- position of an overlap entry inside its cone's / clique's index range -/
theorem OvEntry.index_range {ci : ChordalInfo} {c : Nat} {p : SPattern} {i j x y x' y' : Nat}
    (h : OvEntry ci c p i j x y x' y') (hv : ValidInfo ci) :
    ci.ovBefore c + descSum p.ovl p.sntree.nCliques (p.sntree.nCliques - 1 - i) ≤ ovIndex ci c p i x y ∧
    ovIndex ci c p i x y < ci.ovBefore c + descSum p.ovl p.sntree.nCliques (p.sntree.nCliques - 1 - i + 1) ∧
    ovIndex ci c p i x y < ci.ovBefore (c + 1) := by
  have hvp := (hv.pat c h.hc p h.hp).1
  have hi : i < p.sntree.nCliques := by have := h.hi; omega
  have h1 := ovCount_lt_countP _ _ _ _ (h.flag hv)
  rw [blockList_countP p hvp i hi] at h1
  have h2 := descSum_succ p.ovl p.sntree.nCliques (p.sntree.nCliques - 1 - i)
  rw [show p.sntree.nCliques - 1 - (p.sntree.nCliques - 1 - i) = i by omega] at h2
  have h3 := descSum_mono p.ovl p.sntree.nCliques (p.sntree.nCliques - 1 - i + 1) p.sntree.nCliques (by omega)
  rw [ci.ovBefore_succ_some c p h.hp]
  unfold ovIndex SPattern.totalOverlaps
  omega

/-- the enumeration of the overlap entries is injective -/
theorem ovIndex_inj {ci : ChordalInfo} (hv : ValidInfo ci) {c c' : Nat} {p p' : SPattern}
    {i j x y x' y' i2 j2 x2 y2 x2' y2' : Nat}
    (h : OvEntry ci c p i j x y x' y') (h2 : OvEntry ci c' p' i2 j2 x2 y2 x2' y2')
    (he : ovIndex ci c p i x y = ovIndex ci c' p' i2 x2 y2) :
    c = c' ∧ p = p' ∧ i = i2 ∧ j = j2 ∧ x = x2 ∧ y = y2 ∧ x' = x2' ∧ y' = y2' := by
  have r1 := h.index_range hv
  have r2 := h2.index_range hv
  have hcc : c = c' := by
    rcases Nat.lt_trichotomy c c' with hlt | heq | hlt
    · have := ci.ovBefore_mono (c + 1) (c' - (c + 1))
      rw [show c + 1 + (c' - (c + 1)) = c' by omega] at this
      have := r2.1
      have := Nat.le_add_right (ci.ovBefore c') (descSum p'.ovl p'.sntree.nCliques (p'.sntree.nCliques - 1 - i2))
      omega
    · exact heq
    · have := ci.ovBefore_mono (c' + 1) (c - (c' + 1))
      rw [show c' + 1 + (c - (c' + 1)) = c by omega] at this
      have := r1.1
      have := Nat.le_add_right (ci.ovBefore c) (descSum p.ovl p.sntree.nCliques (p.sntree.nCliques - 1 - i))
      omega
  subst hcc
  have hpp : p = p' := by
    have := h.hp.symm.trans h2.hp
    exact Option.some.inj this
  subst hpp
  have hvp := (hv.pat c h.hc p h.hp).1
  have hi : i < p.sntree.nCliques := by have := h.hi; omega
  have hi2 : i2 < p.sntree.nCliques := by have := h2.hi; omega
  have hii : i = i2 := by
    rcases Nat.lt_trichotomy i i2 with hlt | heq | hlt
    · -- i < i2 : i2 is visited earlier, its range lies below
      have := descSum_mono p.ovl p.sntree.nCliques (p.sntree.nCliques - 1 - i2 + 1) (p.sntree.nCliques - 1 - i) (by omega)
      omega
    · exact heq
    · have := descSum_mono p.ovl p.sntree.nCliques (p.sntree.nCliques - 1 - i + 1) (p.sntree.nCliques - 1 - i2) (by omega)
      omega
  subst hii
  have hq : coordToUpperTriangularIndex (x, y) = coordToUpperTriangularIndex (x2, y2) := by
    apply ovCount_inj_of_flag (p.blockList i) _ _ _ _ _ _ (h.flag hv) (h2.flag hv)
    unfold ovIndex at he
    omega
  obtain ⟨rfl, rfl⟩ := tri_pair_inj h.hxy h2.hxy hq
  have hjj : j = j2 := hvp.tree.parent_unique h.hpar h2.hpar
  subst hjj
  have hfj := cliqueFacts p hvp j h.hpar.1
  have ex : x' = x2' := getD_inj_of_sorted hfj.clique_sorted (by have := h.hy'; have := h.hxy'; omega)
    (by have := h2.hy'; have := h2.hxy'; omega) (h.hex.trans h2.hex.symm)
  have ey : y' = y2' := getD_inj_of_sorted hfj.clique_sorted h.hy' h2.hy' (h.hey.trans h2.hey.symm)
  exact ⟨rfl, rfl, rfl, rfl, rfl, rfl, ex, ey⟩

/-- **pairing**: the two slots of the `o`-th overlap column belong to one overlap entry: the even
slot holds the entry's row in the child clique, the odd slot its row in the parent clique -/
theorem ov_pair {ci : ChordalInfo} (hv : ValidInfo ci) (nnz o v0 v1 : Nat)
    (h0 : OvTarget ci nnz (nnz + 2 * o) v0) (h1 : OvTarget ci nnz (nnz + 2 * o + 1) v1) :
    ∃ c p i j x y x' y', OvEntry ci c p i j x y x' y' ∧ o = ovIndex ci c p i x y ∧
      v0 = p.blockRow (ci.newStart c) i x y ∧ v1 = p.blockRow (ci.newStart c) j x' y' := by
  obtain ⟨c, p, i, j, x, y, x', y', a1, a2, a3, a4, a5, a6, a7, a8, a9, a10, a11, a12, halt⟩ := h0
  obtain ⟨c2, p2, i2, j2, x2, y2, x2', y2', b1, b2, b3, b4, b5, b6, b7, b8, b9, b10, b11, b12, halt2⟩ := h1
  have e1 : OvEntry ci c p i j x y x' y' := ⟨a1, a2, a3, a4, a5, a6, a7, a8, a9, a10, a11, a12⟩
  have e2 : OvEntry ci c2 p2 i2 j2 x2 y2 x2' y2' := ⟨b1, b2, b3, b4, b5, b6, b7, b8, b9, b10, b11, b12⟩
  rw [ovSlot_eq] at halt halt2
  rcases halt with ⟨hs, hv0⟩ | ⟨hs, _⟩
  · rcases halt2 with ⟨hs2, _⟩ | ⟨hs2, hv1⟩
    · omega
    · have he : ovIndex ci c p i x y = ovIndex ci c2 p2 i2 x2 y2 := by omega
      obtain ⟨rfl, rfl, rfl, rfl, rfl, rfl, rfl, rfl⟩ := ovIndex_inj hv e1 e2 he
      exact ⟨c, p, i, j, x, y, x', y', e1, by omega, hv0, hv1⟩
  · omega

end Clarabel.Chordal
