/-
  C16, dense matrix model: column / row sums as finite sums ([F]) and what the symmetric
  column "norms" compute (no absolute value).
-/
import ClarabelProofs.Lemmas.DenseCat
import ClarabelProofs.Lemmas.CscGemv

namespace Clarabel.Dense
open Clarabel

variable {α : Type}

theorem extract_getD [OfNat α 0] (A : Dense α) (hA : WF A) {col i : Nat} (hc : col < A.n) (hi : i < A.m) :
    (A.data.extract (col * A.m) ((col + 1) * A.m)).getD i 0 = A.data.getD (i + A.m * col) 0 := by
  have h := colList_getElem? A hA hc hi
  simp only [colList, Array.getElem?_toList, at?] at h
  simp [Array.getD_eq_getD_getElem?, h]

theorem extract_size (A : Dense α) (hA : WF A) {col : Nat} (hc : col < A.n) :
    (A.data.extract (col * A.m) ((col + 1) * A.m)).size = A.m := by
  have := colList_length A hA hc
  simp only [colList, Array.length_toList] at this
  exact this

/-- [F] `col_sums`: `sums[j] = Σᵢ A[i,j]` -/
theorem colSums_spec [AddCommMonoid α] (A : Dense α) (sums : Array α) (hA : WF A)
    (hs : sums.size = A.n) :
    ∃ s, colSums A sums = .ok s ∧ s.size = A.n ∧
      ∀ j, j < A.n → s[j]? = some (∑ i ∈ Finset.range A.m, A.data.getD (i + A.m * j) 0) := by
  refine ⟨((List.range A.n).map (fun c => Vec.sum (A.data.extract (c * A.m) ((c + 1) * A.m)))).toArray,
    ?_, by simp, ?_⟩
  · unfold colSums
    have : (A.n != sums.size) = false := by simp [hs]
    simp only [this, Bool.false_eq_true, ↓reduceIte]
    rw [mapM_ok (List.range A.n) _ (fun c => Vec.sum (A.data.extract (c * A.m) ((c + 1) * A.m))) (by
      intro c hc
      rw [colSlice_eq A hA (List.mem_range.mp hc)]
      rfl)]
    rfl
  · intro j hj
    simp only [List.getElem?_toArray, List.getElem?_map, List.getElem?_range hj, Option.map_some]
    rw [Vec.sum_eq_sum, extract_size A hA hj]
    congr 1
    apply Finset.sum_congr rfl
    intro i hi
    exact extract_getD A hA hj (Finset.mem_range.mp hi)

/-- [F] `row_sums`: `sums[i] = Σⱼ A[i,j]` (the incoming values of `sums` are overwritten) -/
theorem rowSums_spec [AddCommMonoid α] (A : Dense α) (sums : Array α) (hA : WF A)
    (hs : sums.size = A.m) :
    ∃ s, rowSums A sums = .ok s ∧ s.size = A.m ∧
      ∀ i, i < A.m → s[i]? = some (∑ j ∈ Finset.range A.n, A.data.getD (i + A.m * j) 0) := by
  let cols := (List.range A.n).map (fun c => A.data.extract (c * A.m) ((c + 1) * A.m))
  refine ⟨((List.range A.m).map (fun r =>
      cols.foldl (fun acc s => match s[r]? with
        | some v => acc + v
        | none => acc) 0)).toArray, ?_, by simp, ?_⟩
  · unfold rowSums
    have : (A.m != sums.size) = false := by simp [hs]
    simp only [this, Bool.false_eq_true, ↓reduceIte]
    rw [mapM_ok (List.range A.n) _ (fun c => A.data.extract (c * A.m) ((c + 1) * A.m)) (by
      intro c hc
      exact colSlice_eq A hA (List.mem_range.mp hc))]
    rfl
  · intro i hi
    simp only [List.getElem?_toArray, List.getElem?_map, List.getElem?_range hi, Option.map_some]
    congr 1
    simp only [cols, List.foldl_map]
    have : ∀ (l : List Nat) (a0 : α), (∀ c ∈ l, c < A.n) →
        l.foldl (fun acc c => match (A.data.extract (c * A.m) ((c + 1) * A.m))[i]? with
          | some v => acc + v
          | none => acc) a0 = l.foldl (fun acc c => acc + A.data.getD (i + A.m * c) 0) a0 := by
      intro l
      induction l with
      | nil => intro _ _; rfl
      | cons c t ih =>
        intro a0 hl
        have hc : c < A.n := hl c (by simp)
        have hsz := extract_size A hA hc
        have hg := extract_getD A hA hc hi
        have he : (A.data.extract (c * A.m) ((c + 1) * A.m))[i]? =
            some (A.data.getD (i + A.m * c) 0) := by
          rw [← hg, Array.getD_eq_getD_getElem?, Array.getElem?_eq_getElem (by omega)]
          rfl
        simp only [List.foldl_cons, he]
        exact ih _ (fun c' hc' => hl c' (List.mem_cons_of_mem _ hc'))
    rw [this _ _ (fun c hc => List.mem_range.mp hc), Vec.foldl_add_map, zero_add,
      Csc.list_sum_range_eq]

end Clarabel.Dense
