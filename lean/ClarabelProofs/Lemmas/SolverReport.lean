/-
  C03 round 3 — the report of the WHOLE-SOLVER model (`ClarabelModel/Solver/Solve.lean`).

  `figures_of_returned_iterate`: on every way out of the loop the six figures of the final
  `info` (hence `obj_val`, `obj_val_dual`, `r_prim`, `r_dual` of the solution) are those that
  `Info.update` assigned — in THIS solve, on this solver's data — to the recorded iterate that is
  un-scaled into the solution: the last pass's, or after an insufficient-progress rollback the
  last pass's but one (the saved `prev_*` scalars and `prev_vars` are a pair computed from one
  iterate: invariant `RecInv` of the loop, the scalar half of `LInv.prev`).

  `report_not_stale`: nothing of what an earlier `solve()` left in `info` (except the `prev_*`
  fields, which `C04.full_no_stale_prev` shows are never read before they are rewritten) or in
  the six scalars of the solution object reaches the report of the next `solve()`.

  All structural ([S]): valid at `Float`.
-/
import ClarabelProofs.Lemmas.SolverModelRefine
import ClarabelProofs.Lemmas.SolverModelIdem
import ClarabelProofs.Lemmas.InfoFigures

namespace Clarabel.Solver
open Clarabel Info Clarabel.InfoReport
set_option linter.unusedSectionVars false
set_option linter.unusedVariables false
variable {α : Type}

section
variable [Add α] [Sub α] [Mul α] [Div α] [Neg α] [OfNat α 0] [OfNat α 1] [OfNat α 2]
  [OfNat α 100] [OfNat α 1000] [LT α] [DecidableLT α] [LE α] [DecidableLE α] [BEq α] [FloatLike α]

/-- the record `r` was written by a pass of a loop on the data `d`: `r.info` is what the numerics
at the top of that pass (`residuals.update`, `info.update`) assigned for the iterate `r.vars` -/
def RecOK (d : ProblemData α) (r : PassRec α) : Prop :=
  ∃ (S0 : SolverSt α) (iter : Nat) (res : Residuals.Resid α) (mu : α),
    S0.data = d ∧ S0.variables = r.vars ∧ topNumerics S0 iter = .ok (res, mu, r.info)
      ∧ r.dotBz = res.dot_bz ∧ r.dotQx = res.dot_qx

/-- scalar half of the loop invariant: once a step has been taken, the `prev_*` fields are the
figures recorded by the last pass; every record of the trajectory is `RecOK` -/
structure RecInv (L : LoopSt α) : Prop where
  prev : L.iter = 0 ∨ ∃ r, L.traj.getLast? = some r ∧ PrevIs L.S.info r.info
  recs : ∀ r ∈ L.traj, RecOK L.S.data r

/-- what holds of the loop state the loop is left with -/
structure PExit (Lf : LoopSt α) : Prop where
  recs : ∀ r ∈ Lf.traj, RecOK Lf.S.data r
  fig : ∃ p, Lf.S.variables = p.vars ∧ SameFigures Lf.S.info p.info
    ∧ (Lf.traj.getLast? = some p
        ∨ ∃ pre last, Lf.traj = pre ++ [p, last] ∧ last.isdone = true
            ∧ last.status = .insufficientProgress)
  /-- `ktratio` and the infeasibility residuals are always the LAST pass's (also after a
  rollback: the figures `C02.rollback_stale_fields` is about) -/
  last : ∃ l, Lf.traj.getLast? = some l ∧ Lf.S.info.ktratio = l.info.ktratio
    ∧ Lf.S.info.res_primal_inf = l.info.res_primal_inf ∧ Lf.S.info.res_dual_inf = l.info.res_dual_inf
    ∧ Lf.S.residuals.dot_bz = l.dotBz ∧ Lf.S.residuals.dot_qx = l.dotQx

theorem recOK_data {d d' : ProblemData α} {r : PassRec α} (h : RecOK d r) (e : d' = d) : RecOK d' r := by
  rw [e]; exact h

theorem sameFigures_ct (info1 : InfoS α) (bz qx : α) (s : Info.Settings α) (iter : Nat) :
    SameFigures (Info.checkTermination info1 bz qx s iter false).1 info1 := by
  rw [(checkTermination_frame info1 bz qx s iter false).1]
  exact sameFigures_status info1 _

theorem mem_concat_cases {β : Type} {l : List β} {x r : β} (h : r ∈ l ++ [x]) : r ∈ l ∨ r = x := by
  rcases List.mem_append.mp h with h | h
  · exact Or.inl h
  · exact Or.inr (by simpa using h)

theorem pass_cont_pinv {st : Settings α} {L L' : LoopSt α} (hP : RecInv L)
    (hp : pass st L = .ok (true, L')) : RecInv L' := by
  have hdata := pass_data hp
  cases pass_inv hp with
  | step residuals mu info1 scl k a pv htop hdone hsc hok hk hkok ha hsmall hpv =>
    obtain ⟨hkS, -⟩ := kktNumerics_frame hk
    have e1 : k.S.info = (Info.checkTermination info1 residuals.dot_bz residuals.dot_qx st.info L.iter false).1 := by
      rw [hkS]; rfl
    refine ⟨Or.inr ⟨_, List.getLast?_concat .., ?_⟩, ?_⟩
    · show PrevIs (Info.savePrev k.S.info) info1
      rw [e1]
      have hs := sameFigures_ct info1 residuals.dot_bz residuals.dot_qx st.info L.iter
      have hp0 := prevIs_savePrev (Info.checkTermination info1 residuals.dot_bz residuals.dot_qx st.info L.iter false).1
      exact ⟨hp0.cp.trans hs.cp, hp0.cd.trans hs.cd, hp0.rp.trans hs.rp, hp0.rd.trans hs.rd,
        hp0.ga.trans hs.ga, hp0.gr.trans hs.gr⟩
    · intro r hr
      rcases mem_concat_cases hr with hr | hr
      · exact recOK_data (hP.recs r hr) hdata
      · rw [hr]
        exact recOK_data ⟨L.S, L.iter, residuals, mu, rfl, rfl, htop, rfl, rfl⟩ hdata

theorem Reach.pinv {st : Settings α} {L L' : LoopSt α} (h : Reach st L L') (hP : RecInv L) : RecInv L' := by
  induction h with
  | refl => exact hP
  | step hp _ ih => exact ih (pass_cont_pinv hP hp)

theorem pass_brk_pexit {st : Settings α} {L L' : LoopSt α} (hI : LInv st L) (hP : RecInv L)
    (hp : pass st L = .ok (false, L')) : PExit L' := by
  have hdata := pass_data hp
  cases pass_inv hp with
  | done residuals mu info1 htop hdone hip =>
    have hfr := (checkTermination_frame info1 residuals.dot_bz residuals.dot_qx st.info L.iter false).1
    refine ⟨?_, ⟨_, rfl, ?_, Or.inl (List.getLast?_concat ..)⟩, ⟨_, List.getLast?_concat .., ?_⟩⟩
    · intro r hr
      rcases mem_concat_cases hr with hr | hr
      · exact recOK_data (hP.recs r hr) hdata
      · rw [hr]; exact recOK_data ⟨L.S, L.iter, residuals, mu, rfl, rfl, htop, rfl, rfl⟩ hdata
    · exact sameFigures_ct info1 _ _ _ _
    · refine ⟨?_, ?_, ?_, rfl, rfl⟩
      · show (Info.checkTermination info1 residuals.dot_bz residuals.dot_qx st.info L.iter false).1.ktratio = info1.ktratio
        rw [hfr]
      · show (Info.checkTermination info1 residuals.dot_bz residuals.dot_qx st.info L.iter false).1.res_primal_inf = info1.res_primal_inf
        rw [hfr]
      · show (Info.checkTermination info1 residuals.dot_bz residuals.dot_qx st.info L.iter false).1.res_dual_inf = info1.res_dual_inf
        rw [hfr]
  | rollback residuals mu info1 variables htop hdone hip hcopy =>
    obtain ⟨f1, f2, f3, f4, f5, f6, f7, f8⟩ := topNumerics_frame htop
    have hfr := (checkTermination_frame info1 residuals.dot_bz residuals.dot_qx st.info L.iter false).1
    have hiter : 1 < L.iter := checkTermination_ip_iter (by rw [f8]; exact hI.status) hip
    obtain ⟨r1, hr1, hpv⟩ : ∃ r, L.traj.getLast? = some r ∧ L.S.prevVars = r.vars := by
      rcases hI.prev with h | h
      · omega
      · exact h
    obtain ⟨r1', hr1', hpi⟩ : ∃ r, L.traj.getLast? = some r ∧ PrevIs L.S.info r.info := by
      rcases hP.prev with h | h
      · omega
      · exact h
    have hrr : r1' = r1 := by rw [hr1] at hr1'; exact (Option.some.inj hr1').symm
    subst hrr
    obtain ⟨pre, hpre⟩ : ∃ pre, L.traj = pre ++ [r1'] := by
      rcases List.eq_nil_or_concat L.traj with h | ⟨pre, x, h⟩
      · rw [h] at hr1; cases hr1
      · rw [List.concat_eq_append] at h
        rw [h, List.getLast?_concat] at hr1
        cases hr1
        exact ⟨pre, h⟩
    refine ⟨?_, ⟨r1', ?_, ?_, Or.inr ⟨pre, rec0Of L residuals mu info1
        (Info.checkTermination info1 residuals.dot_bz residuals.dot_qx st.info L.iter false), ?_, hdone, hip⟩⟩,
      ⟨_, List.getLast?_concat .., ?_⟩⟩
    · intro r hr
      rcases mem_concat_cases hr with hr | hr
      · exact recOK_data (hP.recs r hr) hdata
      · rw [hr]; exact recOK_data ⟨L.S, L.iter, residuals, mu, rfl, rfl, htop, rfl, rfl⟩ hdata
    · show variables = r1'.vars
      rw [varsCopyFrom_eq hcopy, hpv]
    · show SameFigures (Info.resetToPrev (Info.checkTermination info1 residuals.dot_bz residuals.dot_qx st.info L.iter false).1) r1'.info
      apply sameFigures_resetToPrev
      rw [hfr]
      exact ⟨f1.trans hpi.cp, f2.trans hpi.cd, f3.trans hpi.rp, f4.trans hpi.rd, f5.trans hpi.ga,
        f6.trans hpi.gr⟩
    · show L.traj ++ [_] = pre ++ [r1', _]
      rw [hpre]; simp
    · refine ⟨?_, ?_, ?_, rfl, rfl⟩
      · show (Info.resetToPrev (Info.checkTermination info1 residuals.dot_bz residuals.dot_qx st.info L.iter false).1).ktratio = info1.ktratio
        rw [hfr]; rfl
      · show (Info.resetToPrev (Info.checkTermination info1 residuals.dot_bz residuals.dot_qx st.info L.iter false).1).res_primal_inf = info1.res_primal_inf
        rw [hfr]; rfl
      · show (Info.resetToPrev (Info.checkTermination info1 residuals.dot_bz residuals.dot_qx st.info L.iter false).1).res_dual_inf = info1.res_dual_inf
        rw [hfr]; rfl
  | scaleFail residuals mu info1 scl htop hdone hsc hok =>
    have hfr := (checkTermination_frame info1 residuals.dot_bz residuals.dot_qx st.info L.iter false).1
    refine ⟨?_, ⟨_, rfl, ?_, Or.inl (List.getLast?_concat ..)⟩, ⟨_, List.getLast?_concat .., ?_⟩⟩
    · intro r hr
      rcases mem_concat_cases hr with hr | hr
      · exact recOK_data (hP.recs r hr) hdata
      · rw [hr]; exact recOK_data ⟨L.S, L.iter, residuals, mu, rfl, rfl, htop, rfl, rfl⟩ hdata
    · exact (sameFigures_status _ _).trans (sameFigures_ct info1 _ _ _ _)
    · refine ⟨?_, ?_, ?_, rfl, rfl⟩
      · show (Info.checkTermination info1 residuals.dot_bz residuals.dot_qx st.info L.iter false).1.ktratio = info1.ktratio
        rw [hfr]
      · show (Info.checkTermination info1 residuals.dot_bz residuals.dot_qx st.info L.iter false).1.res_primal_inf = info1.res_primal_inf
        rw [hfr]
      · show (Info.checkTermination info1 residuals.dot_bz residuals.dot_qx st.info L.iter false).1.res_dual_inf = info1.res_dual_inf
        rw [hfr]
  | kktFail residuals mu info1 scl k htop hdone hsc hok hk hkok =>
    have hfr := (checkTermination_frame info1 residuals.dot_bz residuals.dot_qx st.info L.iter false).1
    obtain ⟨hkS, -⟩ := kktNumerics_frame hk
    have e1 : k.S.info = (Info.checkTermination info1 residuals.dot_bz residuals.dot_qx st.info L.iter false).1 := by
      rw [hkS]; rfl
    have e6 : k.S.variables = L.S.variables := by rw [hkS]; rfl
    have e7 : k.S.residuals = residuals := by rw [hkS]; rfl
    refine ⟨?_, ⟨_, e6, ?_, Or.inl (List.getLast?_concat ..)⟩, ⟨_, List.getLast?_concat .., ?_⟩⟩
    · intro r hr
      rcases mem_concat_cases hr with hr | hr
      · exact recOK_data (hP.recs r hr) hdata
      · rw [hr]; exact recOK_data ⟨L.S, L.iter, residuals, mu, rfl, rfl, htop, rfl, rfl⟩ hdata
    · show SameFigures { k.S.info with status := .numericalError } info1
      rw [e1]
      exact (sameFigures_status _ _).trans (sameFigures_ct info1 _ _ _ _)
    · refine ⟨?_, ?_, ?_, ?_, ?_⟩
      · show k.S.info.ktratio = info1.ktratio
        rw [e1, hfr]
      · show k.S.info.res_primal_inf = info1.res_primal_inf
        rw [e1, hfr]
      · show k.S.info.res_dual_inf = info1.res_dual_inf
        rw [e1, hfr]
      · show k.S.residuals.dot_bz = residuals.dot_bz
        rw [e7]
      · show k.S.residuals.dot_qx = residuals.dot_qx
        rw [e7]
  | smallStep residuals mu info1 scl k a htop hdone hsc hok hk hkok ha hsmall =>
    have hfr := (checkTermination_frame info1 residuals.dot_bz residuals.dot_qx st.info L.iter false).1
    obtain ⟨hkS, -⟩ := kktNumerics_frame hk
    have e1 : k.S.info = (Info.checkTermination info1 residuals.dot_bz residuals.dot_qx st.info L.iter false).1 := by
      rw [hkS]; rfl
    have e6 : k.S.variables = L.S.variables := by rw [hkS]; rfl
    have e7 : k.S.residuals = residuals := by rw [hkS]; rfl
    refine ⟨?_, ⟨_, e6, ?_, Or.inl (List.getLast?_concat ..)⟩, ⟨_, List.getLast?_concat .., ?_⟩⟩
    · intro r hr
      rcases mem_concat_cases hr with hr | hr
      · exact recOK_data (hP.recs r hr) hdata
      · rw [hr]; exact recOK_data ⟨L.S, L.iter, residuals, mu, rfl, rfl, htop, rfl, rfl⟩ hdata
    · show SameFigures { k.S.info with status := .insufficientProgress } info1
      rw [e1]
      exact (sameFigures_status _ _).trans (sameFigures_ct info1 _ _ _ _)
    · refine ⟨?_, ?_, ?_, ?_, ?_⟩
      · show k.S.info.ktratio = info1.ktratio
        rw [e1, hfr]
      · show k.S.info.res_primal_inf = info1.res_primal_inf
        rw [e1, hfr]
      · show k.S.info.res_dual_inf = info1.res_dual_inf
        rw [e1, hfr]
      · show k.S.residuals.dot_bz = residuals.dot_bz
        rw [e7]
      · show k.S.residuals.dot_qx = residuals.dot_qx
        rw [e7]

theorem initLoopSt_pinv (S : SolverSt α) : RecInv (initLoopSt S) :=
  ⟨Or.inl rfl, fun r hr => by cases hr⟩

/-- `runSolve` leaves the loop in a state satisfying `PExit`, on the data it started with -/
theorem runSolve_pexit {S : SolverSt α} {st : Settings α} {L : LoopSt α} (h : S.runSolve st = .ok L) :
    PExit L ∧ L.S.data = S.data := by
  rw [runSolve_eq_runSolveO] at h
  obtain ⟨o, ho, hl⟩ := bind_ok_inv h
  unfold SolverSt.runSolveO at ho
  obtain ⟨S0, hds, ho⟩ := bind_ok_inv ho
  have hI := initLoopSt_inv hds
  have hspec := runLoopO_spec st (st.info.max_iter + 2) (initLoopSt S0) hI
    (by show st.info.max_iter - 0 < st.info.max_iter + 2; omega)
  rw [ho] at hspec
  cases o with
  | none => exact hspec.elim
  | some Lf =>
    cases hl
    obtain ⟨_, Lm, hr, hpm⟩ := hspec
    refine ⟨pass_brk_pexit (hr.inv hI) (hr.pinv (initLoopSt_pinv S0)) hpm, ?_⟩
    rw [pass_data hpm, reach_data hr]
    show S0.data = _
    rw [defaultStart_frame hds]
    rfl

/-- `finishInfo` keeps the figures, `ktratio`, the infeasibility residuals, the residual object,
the variables and the data; its status is `Info::post_process` of the loop's final `info`
(with `iterations` possibly re-saved) -/
theorem finishInfo_frame (st : Settings α) (L : LoopSt α) :
    SameFigures (finishInfo st L).info L.S.info
      ∧ (finishInfo st L).info.ktratio = L.S.info.ktratio
      ∧ (finishInfo st L).info.res_primal_inf = L.S.info.res_primal_inf
      ∧ (finishInfo st L).info.res_dual_inf = L.S.info.res_dual_inf
      ∧ (finishInfo st L).variables = L.S.variables
      ∧ (finishInfo st L).data = L.S.data
      ∧ ∃ it, (finishInfo st L).info
          = Info.postProcess { L.S.info with iterations := it } L.S.residuals.dot_bz L.S.residuals.dot_qx st.info := by
  unfold finishInfo
  dsimp only
  split
  · obtain ⟨s', hs'⟩ := postProcess_eq_status { L.S.info with iterations := L.iter } L.S.residuals.dot_bz
      L.S.residuals.dot_qx st.info
    refine ⟨?_, ?_, ?_, ?_, rfl, rfl, ⟨L.iter, rfl⟩⟩
    · show SameFigures (Info.postProcess { L.S.info with iterations := L.iter } _ _ _) L.S.info
      rw [hs']; exact ⟨rfl, rfl, rfl, rfl, rfl, rfl⟩
    · show (Info.postProcess { L.S.info with iterations := L.iter } _ _ _).ktratio = _
      rw [hs']
    · show (Info.postProcess { L.S.info with iterations := L.iter } _ _ _).res_primal_inf = _
      rw [hs']
    · show (Info.postProcess { L.S.info with iterations := L.iter } _ _ _).res_dual_inf = _
      rw [hs']
  · obtain ⟨s', hs'⟩ := postProcess_eq_status L.S.info L.S.residuals.dot_bz L.S.residuals.dot_qx st.info
    refine ⟨?_, ?_, ?_, ?_, rfl, rfl, ⟨L.S.info.iterations, rfl⟩⟩
    · show SameFigures (Info.postProcess L.S.info _ _ _) L.S.info
      rw [hs']; exact ⟨rfl, rfl, rfl, rfl, rfl, rfl⟩
    · show (Info.postProcess L.S.info _ _ _).ktratio = _
      rw [hs']
    · show (Info.postProcess L.S.info _ _ _).res_primal_inf = _
      rw [hs']
    · show (Info.postProcess L.S.info _ _ _).res_dual_inf = _
      rw [hs']

/-- **`figures_of_returned_iterate`** (lemma form of `C03.full_report_figures_of_returned_iterate`) -/
theorem figures_of_returned_iterate {S : Solver α} {st : Settings α} {r : SolveResult α}
    (h : S.solve st = .ok r) :
    ∃ p, p ∈ r.traj ∧ RecOK S.st.data p
      ∧ SameFigures r.S.st.info p.info
      ∧ r.S.st.variables
          = Unscale.unscale p.vars (equilView S.st.data.equilibration) r.S.st.info.status.isInfeasible
      ∧ r.S.solution.obj_val = (if r.S.st.info.status.isInfeasible then none else some p.info.cost_primal)
      ∧ r.S.solution.obj_val_dual = (if r.S.st.info.status.isInfeasible then none else some p.info.cost_dual)
      ∧ r.S.solution.r_prim = some p.info.res_primal ∧ r.S.solution.r_dual = some p.info.res_dual
      ∧ r.S.solution.status = r.S.st.info.status ∧ r.S.solution.iterations = r.S.st.info.iterations
      ∧ (r.traj.getLast? = some p
          ∨ ∃ pre last, r.traj = pre ++ [p, last] ∧ last.isdone = true
              ∧ last.status = .insufficientProgress) := by
  unfold Solver.solve at h
  obtain ⟨L, hL, h⟩ := bind_ok_inv h
  obtain ⟨q, hq, h⟩ := bind_ok_inv h
  obtain ⟨dN, hdN, h⟩ := bind_ok_inv h
  cases h
  unfold finish at hq
  obtain ⟨u, hu, hq⟩ := bind_ok_inv hq
  cases hq
  obtain ⟨hE, hdat⟩ := runSolve_pexit hL
  obtain ⟨p, hv, hfig, hpos⟩ := hE.fig
  obtain ⟨g1, -, -, -, g5, g6, -⟩ := finishInfo_frame st L
  obtain ⟨a1, a2, a3, a4, a5, a6⟩ := postProcess_scalars _ _ _ _ _ _ hu
  have hu2 := postProcess_vars _ _ _ _ _ _ hu
  have hmem : p ∈ L.traj := by
    rcases hpos with hp | ⟨pre, last, hp, -, -⟩
    · exact List.mem_of_getLast? hp
    · rw [hp]; simp
  have hfin : SameFigures (finishInfo st L).info p.info := g1.trans hfig
  refine ⟨p, hmem, recOK_data (hE.recs p hmem) hdat.symm, hfin, ?_, ?_, ?_, ?_, ?_, a5, a6, hpos⟩
  · show u.2 = _
    rw [hu2, g5, hv, g6, hdat]
  · show u.1.obj_val = _
    rw [a1, hfin.cp]
  · show u.1.obj_val_dual = _
    rw [a2, hfin.cd]
  · show u.1.r_prim = _
    rw [a3, hfin.rp]
  · show u.1.r_dual = _
    rw [a4, hfin.rd]

/-- the final verdict is `Info::post_process` run on an info whose six figures are the returned
iterate's and whose `ktratio`, infeasibility residuals and `dot_bz`, `dot_qx` are the LAST
pass's -/
theorem final_status_is_postProcess {S : Solver α} {st : Settings α} {r : SolveResult α}
    (h : S.solve st = .ok r) :
    ∃ (l : PassRec α) (j : InfoS α), r.traj.getLast? = some l
      ∧ r.S.st.info = Info.postProcess j l.dotBz l.dotQx st.info
      ∧ j.ktratio = l.info.ktratio ∧ j.res_primal_inf = l.info.res_primal_inf
      ∧ j.res_dual_inf = l.info.res_dual_inf
      ∧ SameFigures j r.S.st.info ∧ j.status ≠ .unsolved := by
  unfold Solver.solve at h
  obtain ⟨L, hL, h⟩ := bind_ok_inv h
  obtain ⟨q, hq, h⟩ := bind_ok_inv h
  obtain ⟨dN, hdN, h⟩ := bind_ok_inv h
  cases h
  unfold finish at hq
  obtain ⟨u, hu, hq⟩ := bind_ok_inv hq
  cases hq
  obtain ⟨hE, -⟩ := runSolve_pexit hL
  have hX := runSolve_exit hL
  obtain ⟨l, hl, k1, k2, k3, k4, k5⟩ := hE.last
  obtain ⟨g1, -, -, -, -, -, it, hit⟩ := finishInfo_frame st L
  refine ⟨l, { L.S.info with iterations := it }, hl, ?_, k1, k2, k3, ?_, hX.status⟩
  · show (finishInfo st L).info = _
    rw [hit, k4, k5]
  · show SameFigures _ (finishInfo st L).info
    exact ⟨g1.cp.symm, g1.cd.symm, g1.rp.symm, g1.rd.symm, g1.ga.symm, g1.gr.symm⟩

/-- **`report_not_stale`** (lemma form): the six scalars of the solution object and the `info`
block (except `prev_*`) left by an earlier solve do not reach the next solve -/
theorem report_not_stale (S : Solver α) (st : Settings α) (i : InfoS α) (a b c : α)
    (hp : PrevEq i S.st.info) (s0 : SolverStatus) (o1 o2 r1 r2 : Option α) (k : Nat) :
    ({ st := withInfo S.st i a b c,
       solution := { S.solution with status := s0, obj_val := o1, obj_val_dual := o2, iterations := k,
                                     r_prim := r1, r_dual := r2 } } : Solver α).solve st
      = S.solve st := by
  rw [← solve_withInfo S st i a b c hp]
  rfl

end
end Clarabel.Solver
