/-
  Helper lemmas about the composite margins / shifts (`ClarabelModel/Cones/Composite.lean`)
  over ℝ: per-block shift, the block cut, the margins fold, `_shift_to_cone_interior` (C15).
-/
import ClarabelModel.Cones.Composite
import ClarabelProofs.Lemmas.ConesSoc

namespace Clarabel.Composite
open Clarabel

/-- zero / NN / SOC (dimension ≥ 1) cones: the cones whose margins are modelled -/
def SymSpec : Spec → Prop
  | .zero _ => True
  | .nonneg _ => True
  | .soc n => 1 ≤ n
  | .psd _ => False

/-- every bounded margin of the block is at least `c` -/
def BlkGe (c : ℝ) (p : Spec × Array ℝ) : Prop :=
  ∀ a b, margins1 p.1 p.2 = .ok (some a, b) → c ≤ a

theorem foldl_min_translate (f : Option ℝ → ℝ → Option ℝ) (hnone : ∀ v, f none v = some v)
    (hsome : ∀ r v, f (some r) v = some (min r v)) (l : List ℝ) (a : ℝ) (acc : Option ℝ) :
    (l.map (· + a)).foldl f (acc.map (· + a)) = (l.foldl f acc).map (· + a) := by
  induction l generalizing acc with
  | nil => rfl
  | cons v t ih =>
    simp only [List.map_cons, List.foldl_cons]
    cases acc with
    | none =>
      simp only [Option.map_none, hnone]
      exact ih (some v)
    | some r =>
      simp only [Option.map_some, hsome, min_add_add_right]
      exact ih (some (min r v))

theorem minimum_translate (z : Array ℝ) (a : ℝ) :
    Vec.minimum? (Vec.translate z a) = (Vec.minimum? z).map (· + a) := by
  unfold Vec.minimum? Vec.translate
  simp only [Array.toList_map]
  exact foldl_min_translate _ (fun v => rfl) (fun r v => rfl) z.toList a none

/-- one block: the shift succeeds, keeps the size, and moves every bounded margin by `a` -/
theorem shift1_spec (sp : Spec) (blk : Array ℝ) (a : ℝ) (primal : Bool) (hs : SymSpec sp)
    (hsize : blk.size = sp.numel) (c : ℝ) (hc : BlkGe c (sp, blk)) :
    ∃ blk', shift1 a primal sp blk = .ok blk' ∧ blk'.size = sp.numel ∧ BlkGe (c + a) (sp, blk') := by
  cases sp with
  | psd n => exact absurd hs (by simp [SymSpec])
  | zero n =>
    refine ⟨Zero.scaledUnitShift blk a primal, rfl, ?_, ?_⟩
    · unfold Zero.scaledUnitShift; split <;> simp [hsize]
    · intro a' b' h; simp [margins1, Zero.margins, pure, Except.pure] at h
  | nonneg n =>
    refine ⟨Nonneg.scaledUnitShift blk a, rfl, ?_, ?_⟩
    · simp [Nonneg.scaledUnitShift, Vec.translate, hsize]
    · intro a' b' h
      simp only [margins1, Nonneg.margins, Nonneg.scaledUnitShift, pure, Except.pure,
        Except.ok.injEq, Prod.mk.injEq] at h
      rw [minimum_translate] at h
      obtain ⟨h1, _⟩ := h
      cases hm : Vec.minimum? blk with
      | none => rw [hm] at h1; simp at h1
      | some m =>
        rw [hm] at h1
        simp only [Option.map_some, Option.some.injEq] at h1
        have := hc m _ (by simp only [margins1, Nonneg.margins, pure, Except.pure, hm]; rfl)
        linarith
  | soc n =>
    have hn : 1 ≤ n := hs
    have hsz : blk.size = n := hsize
    obtain ⟨z0, z1, hl⟩ : ∃ z0 z1, blk.toList = z0 :: z1 := by
      cases h : blk.toList with
      | nil =>
        have : blk.toList.length = 0 := by rw [h]; rfl
        rw [Array.length_toList] at this; omega
      | cons z0 z1 => exact ⟨z0, z1, rfl⟩
    refine ⟨Soc.join (z0 + a) z1, ?_, ?_, ?_⟩
    · simp [shift1, Soc.scaledUnitShift, Soc.split, hl, bind, Except.bind, pure, Except.pure]
    · have : blk.toList.length = z1.length + 1 := by rw [hl]; rfl
      rw [Array.length_toList] at this
      simp [Soc.join]; omega
    · intro a' b' h
      simp only [margins1, Soc.margins, Soc.split, Soc.join, bind, Except.bind, pure, Except.pure,
        Except.ok.injEq, Prod.mk.injEq, Option.some.injEq] at h
      have := hc (z0 - Soc.normL z1) _ (by
        simp only [margins1, Soc.margins, Soc.split, hl, bind, Except.bind, pure, Except.pure]; rfl)
      linarith [h.1]


/-- the blocks of `l` all have bounded margins `≥ c` -/
def BlocksGeL (specs : List Spec) (l : List ℝ) (c : ℝ) : Prop :=
  ∃ parts, cutL specs l = .ok parts ∧ ∀ p ∈ parts, BlkGe c p

theorem cutL_cons_ok (sp : Spec) (rest : List Spec) (l : List ℝ) (parts : List (Spec × Array ℝ))
    (h : cutL (sp :: rest) l = .ok parts) :
    sp.numel ≤ l.length ∧ ∃ tl, cutL rest (l.drop sp.numel) = .ok tl ∧
      parts = (sp, (l.take sp.numel).toArray) :: tl := by
  rw [cutL] at h
  split at h
  · cases h
  · rename_i hlen
    cases htl : cutL rest (l.drop sp.numel) with
    | error e => rw [htl] at h; cases h
    | ok tl =>
      rw [htl] at h
      simp only [bind, Except.bind, pure, Except.pure, Except.ok.injEq] at h
      exact ⟨by omega, tl, rfl, h.symm⟩

/-- shifting every block: succeeds, keeps the sizes, moves all bounded margins by `a` -/
theorem shift_blocks (specs : List Spec) (a : ℝ) (primal : Bool) (hs : ∀ sp ∈ specs, SymSpec sp) :
    ∀ (l : List ℝ) (c : ℝ), BlocksGeL specs l c →
      ∃ outs, (cutL specs l >>= fun parts => parts.mapM (fun p => shift1 a primal p.1 p.2)) = .ok outs ∧
        ((outs.map Array.toList).flatten).length = totalNumel specs ∧
        ∀ rest, BlocksGeL specs ((outs.map Array.toList).flatten ++ rest) (c + a) := by
  induction specs with
  | nil =>
    intro l c _
    refine ⟨[], rfl, rfl, fun rest => ⟨[], rfl, fun p hp => absurd hp (List.not_mem_nil)⟩⟩
  | cons sp rest ih =>
    intro l c ⟨parts, hcut, hge⟩
    obtain ⟨hlen, tl, htl, hparts⟩ := cutL_cons_ok sp rest l parts hcut
    subst hparts
    have hsize : ((l.take sp.numel).toArray).size = sp.numel := by simp [hlen]
    obtain ⟨blk', hsh, hsz', hge'⟩ := shift1_spec sp _ a primal (hs sp List.mem_cons_self) hsize c
      (hge _ List.mem_cons_self)
    obtain ⟨outs', hout', hlen', hrest'⟩ := ih (fun sp' h' => hs sp' (List.mem_cons_of_mem _ h'))
      (l.drop sp.numel) c ⟨tl, htl, fun p hp => hge p (List.mem_cons_of_mem _ hp)⟩
    rw [htl] at hout'
    simp only [bind, Except.bind] at hout'
    refine ⟨blk' :: outs', ?_, ?_, ?_⟩
    · rw [hcut]
      simp only [bind, Except.bind, List.mapM_cons, hsh, hout', pure, Except.pure]
    · simp only [List.map_cons, List.flatten_cons, List.length_append, Array.length_toList, hsz',
        hlen', totalNumel, List.sum_cons]
    · intro r
      obtain ⟨parts'', hc'', hg''⟩ := hrest' r
      refine ⟨(sp, blk') :: parts'', ?_, ?_⟩
      · rw [cutL]
        have hl1 : blk'.toList.length = sp.numel := by rw [Array.length_toList, hsz']
        simp only [List.map_cons, List.flatten_cons, List.append_assoc, List.length_append, hl1]
        rw [if_neg (by omega)]
        rw [List.drop_left' hl1, hc'', List.take_left' hl1]
        rfl
      · intro p hp
        rcases List.mem_cons.mp hp with rfl | hp
        · exact hge'
        · exact hg'' p hp


theorem cutL_parts (specs : List Spec) :
    ∀ (l : List ℝ) (parts : List (Spec × Array ℝ)), cutL specs l = .ok parts →
      ∀ p ∈ parts, p.1 ∈ specs ∧ p.2.size = p.1.numel := by
  induction specs with
  | nil => intro l parts h p hp; rw [cutL] at h; cases h; cases hp
  | cons sp rest ih =>
    intro l parts h p hp
    obtain ⟨hlen, tl, htl, hparts⟩ := cutL_cons_ok sp rest l parts h
    subst hparts
    rcases List.mem_cons.mp hp with rfl | hp
    · exact ⟨List.mem_cons_self, by simp [hlen]⟩
    · obtain ⟨h1, h2⟩ := ih _ tl htl p hp
      exact ⟨List.mem_cons_of_mem _ h1, h2⟩

theorem cutL_total (specs : List Spec) :
    ∀ (l : List ℝ), totalNumel specs ≤ l.length → ∃ parts, cutL specs l = .ok parts := by
  induction specs with
  | nil => intro l _; exact ⟨[], rfl⟩
  | cons sp rest ih =>
    intro l h
    simp only [totalNumel, List.map_cons, List.sum_cons] at h
    obtain ⟨tl, htl⟩ := ih (l.drop sp.numel) (by simp [totalNumel]; omega)
    refine ⟨(sp, (l.take sp.numel).toArray) :: tl, ?_⟩
    rw [cutL, if_neg (by omega), htl]
    rfl

theorem margins1_ok (sp : Spec) (blk : Array ℝ) (hs : SymSpec sp) (hsize : blk.size = sp.numel) :
    ∃ r, margins1 sp blk = .ok r := by
  cases sp with
  | psd n => exact absurd hs (by simp [SymSpec])
  | zero n => exact ⟨_, rfl⟩
  | nonneg n => exact ⟨_, rfl⟩
  | soc n =>
    have hn : 1 ≤ n := hs
    have hsz : blk.size = n := hsize
    cases h : blk.toList with
    | nil =>
      have : blk.toList.length = 0 := by rw [h]; rfl
      rw [Array.length_toList] at this; omega
    | cons z0 z1 =>
      exact ⟨_, by simp only [margins1, Soc.margins, Soc.split, h, bind, Except.bind, pure, Except.pure]; rfl⟩

theorem minOpt_cases (x y : Option ℝ) :
    (minOpt x y = none ↔ x = none ∧ y = none) ∧
    (∀ m, minOpt x y = some m → (∀ a, x = some a → m ≤ a) ∧ (∀ b, y = some b → m ≤ b)) := by
  cases x <;> cases y <;> simp [minOpt]

/-- the fold of `CompositeCone::margins` -/
theorem margins_fold (parts : List (Spec × Array ℝ))
    (hok : ∀ p ∈ parts, ∃ r, margins1 p.1 p.2 = .ok r) :
    ∀ acc : Option ℝ × ℝ, ∃ mo β,
      parts.foldlM (fun (acc : Option ℝ × ℝ) p => do
        let (ai, bi) ← margins1 p.1 p.2
        pure (minOpt acc.1 ai, acc.2 + bi)) acc = .ok (mo, β) ∧
      (∀ m, mo = some m → (∀ x, acc.1 = some x → m ≤ x) ∧ ∀ p ∈ parts, BlkGe m p) ∧
      (mo = none → acc.1 = none ∧ ∀ p ∈ parts, ∀ c, BlkGe c p) := by
  induction parts with
  | nil =>
    intro acc
    refine ⟨acc.1, acc.2, rfl, ?_, ?_⟩
    · intro m hm
      exact ⟨fun x hx => by rw [hm] at hx; cases hx; exact le_refl _, fun p hp => absurd hp List.not_mem_nil⟩
    · intro h; exact ⟨h, fun p hp => absurd hp List.not_mem_nil⟩
  | cons p t ih =>
    intro acc
    obtain ⟨⟨ai, bi⟩, hp⟩ := hok p List.mem_cons_self
    obtain ⟨mo, β, hfold, hsome, hnone⟩ :=
      ih (fun q hq => hok q (List.mem_cons_of_mem _ hq)) (minOpt acc.1 ai, acc.2 + bi)
    refine ⟨mo, β, ?_, ?_, ?_⟩
    · simp only [List.foldlM_cons, hp, bind, Except.bind, pure, Except.pure]
      exact hfold
    · intro m hm
      obtain ⟨h1, h2⟩ := hsome m hm
      have hmin := (minOpt_cases acc.1 ai).2
      refine ⟨?_, ?_⟩
      · intro x hx
        cases hmo : minOpt acc.1 ai with
        | none => have := ((minOpt_cases acc.1 ai).1.mp hmo).1; rw [this] at hx; cases hx
        | some v => exact le_trans (h1 v hmo) ((hmin v hmo).1 x hx)
      · intro q hq
        rcases List.mem_cons.mp hq with rfl | hq
        · intro a b hab
          rw [hp] at hab
          simp only [Except.ok.injEq, Prod.mk.injEq] at hab
          cases hmo : minOpt acc.1 ai with
          | none => have := ((minOpt_cases acc.1 ai).1.mp hmo).2; rw [this] at hab; cases hab.1
          | some v => exact le_trans (h1 v hmo) ((hmin v hmo).2 a hab.1)
        · exact h2 q hq
    · intro hm
      obtain ⟨h1, h2⟩ := hnone hm
      have := (minOpt_cases acc.1 ai).1.mp h1
      refine ⟨this.1, ?_⟩
      intro q hq c
      rcases List.mem_cons.mp hq with rfl | hq
      · intro a b hab
        rw [hp] at hab
        simp only [Except.ok.injEq, Prod.mk.injEq] at hab
        rw [this.2] at hab; cases hab.1
      · exact h2 q hq c

/-- array form -/
def BlocksGe (specs : List Spec) (z : Array ℝ) (c : ℝ) : Prop := BlocksGeL specs z.toList c

theorem BlocksGe_mono (specs : List Spec) (z : Array ℝ) (c c' : ℝ) (h : c' ≤ c)
    (hb : BlocksGe specs z c) : BlocksGe specs z c' := by
  obtain ⟨parts, h1, h2⟩ := hb
  exact ⟨parts, h1, fun p hp a b hab => le_trans h (h2 p hp a b hab)⟩

theorem scaledUnitShift_spec (specs : List Spec) (z : Array ℝ) (a c : ℝ) (primal : Bool)
    (hs : ∀ sp ∈ specs, SymSpec sp) (hb : BlocksGe specs z c) :
    ∃ z', scaledUnitShift specs z a primal = .ok z' ∧ BlocksGe specs z' (c + a) := by
  obtain ⟨outs, hout, _, hrest⟩ := shift_blocks specs a primal hs z.toList c hb
  refine ⟨glue specs outs z, ?_, ?_⟩
  · unfold scaledUnitShift cut
    cases hc : cutL specs z.toList with
    | error e => rw [hc] at hout; cases hout
    | ok parts =>
      rw [hc] at hout
      simp only [bind, Except.bind] at hout ⊢
      rw [hout]
      rfl
  · unfold BlocksGe glue
    exact hrest _

theorem margins_spec (specs : List Spec) (z : Array ℝ) (hs : ∀ sp ∈ specs, SymSpec sp)
    (hlen : totalNumel specs ≤ z.size) :
    ∃ mo β, margins specs z = .ok (mo, β) ∧ (∀ m, mo = some m → BlocksGe specs z m) ∧
      (mo = none → ∀ c, BlocksGe specs z c) := by
  obtain ⟨parts, hcut⟩ := cutL_total specs z.toList (by rw [Array.length_toList]; exact hlen)
  have hparts := cutL_parts specs z.toList parts hcut
  have hok : ∀ p ∈ parts, ∃ r, margins1 p.1 p.2 = .ok r := fun p hp =>
    margins1_ok p.1 p.2 (hs _ (hparts p hp).1) (hparts p hp).2
  obtain ⟨mo, β, hfold, hsome, hnone⟩ := margins_fold parts hok (none, 0)
  refine ⟨mo, β, ?_, ?_, ?_⟩
  · unfold margins cut
    rw [hcut]
    exact hfold
  · intro m hm
    exact ⟨parts, hcut, (hsome m hm).2⟩
  · intro hm c
    exact ⟨parts, hcut, fun p hp => (hnone hm).2 p hp c⟩

/-- [R] `_shift_to_cone_interior` over an arbitrary list of zero / NN / SOC cones: the call
succeeds and afterwards every cone block has margin `≥ 1 > 0` -/
theorem shiftToConeInterior_spec (specs : List Spec) (z : Array ℝ) (primal : Bool)
    (hs : ∀ sp ∈ specs, SymSpec sp) (hlen : totalNumel specs ≤ z.size) :
    ∃ z', shiftToConeInterior specs z primal = .ok z' ∧ BlocksGe specs z' 1 := by
  obtain ⟨mo, β, hm, hsome, hnone⟩ := margins_spec specs z hs hlen
  unfold shiftToConeInterior
  simp only [hm, bind, Except.bind]
  set target : ℝ := fmax 1 (β * (1 / FloatLike.ofNat 10) /
    FloatLike.ofNat (List.foldl (fun x1 x2 => x1 + x2) 0 (List.map Spec.degree specs))) with htd
  have ht : (1 : ℝ) ≤ target := le_max_left _ _
  cases mo with
  | none =>
    obtain ⟨z', h1, h2⟩ := scaledUnitShift_spec specs z 0 1 primal hs (hnone rfl 1)
    exact ⟨z', h1, BlocksGe_mono specs z' _ _ (by linarith) h2⟩
  | some m =>
    have hb := hsome m rfl
    simp only
    by_cases hpos : (0 : ℝ) < m
    · rw [if_neg (not_not.mpr hpos)]
      by_cases hlt : m < target
      · rw [if_pos hlt]
        obtain ⟨z', h1, h2⟩ := scaledUnitShift_spec specs z (target - m) m primal hs hb
        exact ⟨z', h1, BlocksGe_mono specs z' _ _ (by linarith) h2⟩
      · rw [if_neg hlt]
        obtain ⟨z', h1, h2⟩ := scaledUnitShift_spec specs z 0 m primal hs hb
        exact ⟨z', h1, BlocksGe_mono specs z' _ _ (by linarith [not_lt.mp hlt]) h2⟩
    · rw [if_pos hpos]
      obtain ⟨z1, h1, h2⟩ := scaledUnitShift_spec specs z (-m) m primal hs hb
      obtain ⟨z2, h3, h4⟩ := scaledUnitShift_spec specs z1 target (m + -m) primal hs h2
      refine ⟨z2, ?_, BlocksGe_mono specs z2 _ _ (by linarith) h4⟩
      simp only [h1, h3]

end Clarabel.Composite
