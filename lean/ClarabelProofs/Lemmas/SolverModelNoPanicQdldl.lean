/-
  Panic-freedom of the whole-solver model (C04) — the end-to-end statements for the QDLDL backend:
  the linear-solver stage `kktTotal2` (`SolverModelNoPanicKkt.lean`) plugged into the composition.

  What is proved unconditionally here:
  * `kktStage`            : `update` and `setrhs; solve` of the QDLDL-backed `KktSolver` are total on
                            the invariants `KktInvW` / `KktInvS` and keep them;
  * `stagesQdldl`         : hence all stages of `solve()`;
  * `solve_ok_qdldl`      : on EVERY solver object satisfying the invariant `SolverInvQ`,
                            `Solver.solve` returns `.ok` (no panic, in particular no exhausted pass
                            budget) and the returned object satisfies `SolverInvQ` again;
  * `solverNew_establishes` : `DefaultSolver::new … = .ok S` implies `SolverInvQ S`, provided the
                            linear solver object `KktSolver.new` returned satisfies `KktInvW`
                            (`hnew`; discharged by `kktSolverNew_ok` in `SolverModelNoPanicC04.lean`).

  All structural ([S]).  The only laws of the scalar type: `FmaxOK α` (cone stage) and the
  no-zero-pivot law `PivotOK` (a field of `KktInvW`, established at construction).
-/
import ClarabelProofs.Lemmas.SolverModelNoPanicFinal
import ClarabelProofs.Lemmas.SolverModelNoPanicKkt

namespace Clarabel.Solver
open Clarabel Info Residuals

set_option linter.unusedSectionVars false
set_option linter.unusedVariables false

variable {α : Type}

section
variable [Add α] [Sub α] [Mul α] [Div α] [Neg α] [OfNat α 0] [OfNat α 1] [OfNat α 2]
  [OfNat α 100] [OfNat α 1000] [LT α] [DecidableLT α] [LE α] [DecidableLE α] [BEq α] [FloatLike α]

/-- [S] the linear-solver stage for the QDLDL backend, unconditionally -/
theorem kktStage (specs : List Kkt.ConeSpec) (n m : Nat) (st : LinSettings α) :
    KktTotal2 (KktInvW specs n m) (KktInvS specs n m) specs n m st :=
  kktTotal2 (fun _ _ _ a b h1 h2 h3 h4 => symv_ok a b h1 h2 h3 h4) (fun _ h => getHs_ok h) specs n m st

/-- [S] all stages of `solve()` for the QDLDL backend (the one scalar law: `FmaxOK`) -/
theorem stagesQdldl (hf : FmaxOK α) (d : ProblemData α) (specs : List Kkt.ConeSpec) (st : Settings α) :
    Stages (KktInvW specs d.n d.m) (KktInvS specs d.n d.m) d specs st :=
  Stages.of_kkt hf (kktStage specs d.n d.m st.lin)

/-- **the invariant of a solver object** (QDLDL backend), anchored at its own data and cone layout:
`Shapes` (every vector of the solver object has the problem's dimension, cone objects consistently
sized and covering `m` rows, data well formed, `KktInvW` for the linear solver object) and the
solution object sized for the user's problem. -/
def SolverInvQ (S : Solver α) : Prop :=
  SolverInv (KktInvW (S.st.cones.map ConeSt.kktSpec) S.st.data.n S.st.data.m) S.st.data
    (S.st.cones.map ConeSt.kktSpec) S

/-- [S] **C04, solve half: every `solve()` returns without panicking.**  For every solver object
satisfying `SolverInvQ` (every object `DefaultSolver::new` builds: `solverNew_establishes`; every
object a previous `solve()` left: this theorem) `Solver.solve` returns `.ok` — no index is out of
range, no assert / unwrap / unreachable arm is reached, and the pass budget of the model is not
exhausted — and the solver object it returns satisfies `SolverInvQ` again. -/
theorem solve_ok_qdldl (hf : FmaxOK α) {S : Solver α} (st : Settings α) (h : SolverInvQ S) :
    ∃ r, S.solve st = .ok r ∧ SolverInvQ r.S := by
  obtain ⟨r, hr, ⟨nq, nb, hd⟩, _, hI⟩ :=
    solve_ok (stagesQdldl hf S.st.data (S.st.cones.map ConeSt.kktSpec) st) h
  refine ⟨r, hr, ?_⟩
  -- the data of the returned object: the data at entry with the two norm caches filled
  have en : r.S.st.data.n = S.st.data.n := by rw [hd]
  have em : r.S.st.data.m = S.st.data.m := by rw [hd]
  have e2 : r.S.st.cones.map ConeSt.kktSpec = S.st.cones.map ConeSt.kktSpec := hI.st.specs
  unfold SolverInvQ
  rw [en, em, e2]
  exact hI

theorem solve_noPanic_qdldl (hf : FmaxOK α) {S : Solver α} (st : Settings α) (h : SolverInvQ S) :
    NoPanic (S.solve st) :=
  let ⟨_, hr, _⟩ := solve_ok_qdldl hf st h; NoPanic.of_ok hr

/-- [S] **C04, construction half (relative to `KktSolver.new`)**: the solver object
`DefaultSolver::new` returns on well-formed input satisfies `SolverInvQ`, provided the linear
solver object it built satisfies `KktInvW` (`hnew`). -/
theorem solverNew_establishes {P : Csc α} {q : Array α} {A : Csc α} {b : Array α} {cones : List (ConeT α)}
    {st : Settings α} {perm : Array Nat} (hin : InputOK P q A b cones)
    (hnew : ∀ d K Ks, internalData P q A b cones st = .ok d → makeCones d.cones = .ok K → DataOK d →
      ConesFull K → numelAll K = d.m →
      KktSolver.new d.P d.A K d.m d.n st.lin perm = .ok Ks → KktInvW (K.map ConeSt.kktSpec) d.n d.m Ks)
    {S : Solver α} (h : Solver.new P q A b cones st perm = .ok S) : SolverInvQ S :=
  solverNew_inv (KIw := fun specs n m => KktInvW specs n m) hin hnew h

end

end Clarabel.Solver
