/-
  The recorded sign vector `dsigns` (`_fill_signs`) of the ASSEMBLED maps, column by column:
  `+1` on the `n` primal columns, `−1` on the `m` cone columns, and on the auxiliary columns of
  every sparse expansion `[-1, +1]` (second-order cone: `v` column, `u` column) resp.
  `[-1, -1, +1]` (generalised power cone: `q`, `r`, `p` columns) — at exactly the columns
  `pcol, pcol+1(, pcol+2)` that the assembly gave to that cone (`AsmRun.signs_at`).
-/
import ClarabelModel.Kkt
import ClarabelProofs.Lemmas.KktDistinct
import ClarabelProofs.Lemmas.KktRestore

set_option linter.unusedSectionVars false
set_option linter.unusedVariables false

namespace Clarabel.Lemmas.KktSigns
open Clarabel Clarabel.Csc Clarabel.Kkt
open Clarabel.Lemmas.KktSlots Clarabel.Lemmas.KktFillMaps Clarabel.Lemmas.KktFillRun
open Clarabel.Lemmas.KktTotal Clarabel.Lemmas.KktFinal Clarabel.Lemmas.KktSpec
open Clarabel.Lemmas.KktDistinct

variable {α : Type} [OfNat α 0]

/-- the signs recorded for the auxiliary variables of one cone -/
def coneDsigns (c : ConeSpec) : List Int :=
  if c.isSparseExpandable = true then
    (match c with
      | .soc _ => [-1, 1]
      | _ => [-1, -1, 1])
  else []

omit [OfNat α 0] in
theorem coneDsigns_length (c : ConeSpec) : (coneDsigns c).length = conePdim c := by
  unfold coneDsigns conePdim
  split
  · cases c <;> rfl
  · rfl

omit [OfNat α 0] in
theorem dsigns_of_fits {c : ConeSpec} {mp : SparseMap} (hsp : c.isSparseExpandable = true)
    (h : MapFitsD c mp) : mp.dsigns = coneDsigns c := by
  cases c <;> cases mp <;> simp only [MapFitsD] at h <;>
    simp [coneDsigns, SparseMap.dsigns, hsp]

omit [OfNat α 0] in
/-- the `J`-th sparse-expandable cone, as an element of the filtered list -/
theorem sparse_index : ∀ (cones : List ConeSpec) (i : Nat) (hi : i < cones.length),
    cones[i].isSparseExpandable = true →
    (cones.filter (fun c => c.isSparseExpandable))[nSparse (cones.take i)]? = some cones[i]
  | [], i, hi, _ => by simp at hi
  | c :: rest, 0, _, hsp => by
    simp only [List.getElem_cons_zero] at hsp
    simp [nSparse, hsp]
  | c :: rest, i + 1, hi, hsp => by
    simp only [List.getElem_cons_succ] at hsp ⊢
    have ih := sparse_index rest i (by simpa using hi) hsp
    rw [List.take_succ_cons, nSparse_cons, List.filter_cons]
    by_cases hc : c.isSparseExpandable = true
    · rw [if_pos hc, if_pos hc, List.getElem?_cons_succ]
      exact ih
    · rw [if_neg hc, if_neg hc, Nat.add_zero]
      exact ih

omit [OfNat α 0] in
theorem flatten_filter_dsigns (cones : List ConeSpec) :
    ((cones.filter (fun c => c.isSparseExpandable)).map coneDsigns).flatten
      = cones.flatMap coneDsigns := by
  induction cones with
  | nil => rfl
  | cons c rest ih =>
    rw [List.filter_cons, List.flatMap_cons]
    by_cases hc : c.isSparseExpandable = true
    · rw [if_pos hc, List.map_cons, List.flatten_cons, ih]
    · rw [if_neg hc, ih]
      simp [coneDsigns, hc]

omit [OfNat α 0] in
theorem flatMap_dsigns_length (l : List ConeSpec) :
    (l.flatMap coneDsigns).length = (l.map conePdim).sum := by
  induction l with
  | nil => rfl
  | cons c rest ih =>
    rw [List.flatMap_cons, List.length_append, ih, coneDsigns_length]
    simp

section asm
variable {P A : Csc α} {cones : List ConeSpec} {shape : MatrixTriangle} {K : Csc α}
  {map : LDLDataMap} {sched : List (Entry α)} {Kc : Csc α} {nd : Nat}

/-- the sign blocks of the assembled expansion maps are those of the sparse cones, in order -/
theorem maps_dsigns (R : AsmRun P A cones shape K map sched Kc nd) :
    (map.sparse_maps.toList.map SparseMap.dsigns).flatten = cones.flatMap coneDsigns := by
  rw [← flatten_filter_dsigns]
  congr 1
  have hlen : map.sparse_maps.toList.length = (cones.filter (fun c => c.isSparseExpandable)).length := by
    rw [Array.length_toList, R.sizes.2.2.2, filterMap_expansion_length, nSparse,
      List.countP_eq_length_filter]
  apply List.ext_getElem?
  intro J
  rw [List.getElem?_map, List.getElem?_map]
  by_cases hJ : J < map.sparse_maps.size
  · have hget : map.sparse_maps[J]? = some map.sparse_maps[J] := Array.getElem?_eq_getElem hJ
    obtain ⟨i, hi, hsp, hn, hss⟩ := sp_key R J _ hget
    have hidx := sparse_index cones i hi hsp
    rw [hn] at hidx
    rw [Array.getElem?_toList, hget, hidx]
    simp only [Option.map_some]
    rw [dsigns_of_fits hsp hss.fits]
  · have h1 : map.sparse_maps.toList[J]? = none := by
      rw [List.getElem?_eq_none]; simp; omega
    have h2 : (cones.filter (fun c => c.isSparseExpandable))[J]? = none := by
      rw [List.getElem?_eq_none]; rw [← hlen]; simp; omega
    rw [h1, h2]
    rfl

/-- **`dsigns` column by column** for the maps returned by the assembly -/
theorem _root_.Clarabel.Lemmas.KktTotal.AsmRun.signs_at
    (R : AsmRun P A cones shape K map sched Kc nd) :
    ∃ ds, fillSigns A.m A.n map.sparse_maps = .ok ds ∧ ds.size = kktDim A cones ∧
      (∀ c, c < A.n → ds[c]? = some 1) ∧
      (∀ c, A.n ≤ c → c < A.n + A.m → ds[c]? = some (-1)) ∧
      (∀ pre cn post j, cones = pre ++ cn :: post → j < conePdim cn →
        ds[A.n + A.m + (pre.map conePdim).sum + j]? = (coneDsigns cn)[j]?) := by
  refine ⟨_, Clarabel.Kkt.fillSigns_eq A.m A.n map.sparse_maps, ?_, ?_, ?_, ?_⟩
  · rw [maps_dsigns R]
    simp only [List.size_toArray, List.length_append, List.length_replicate, flatMap_dsigns_length]
    unfold kktDim
    omega
  · intro c hc
    simp only [List.getElem?_toArray]
    rw [List.append_assoc, List.getElem?_append_left (by simpa using hc)]
    simp [hc]
  · intro c h1 h2
    simp only [List.getElem?_toArray]
    rw [List.append_assoc, List.getElem?_append_right (by simpa using h1),
      List.getElem?_append_left (by simp; omega)]
    simp only [List.length_replicate]
    rw [List.getElem?_replicate, if_pos (by omega)]
  · intro pre cn post j hdec hj
    simp only [List.getElem?_toArray]
    rw [maps_dsigns R, List.getElem?_append_right (by simp; omega)]
    simp only [List.length_append, List.length_replicate]
    have e : A.n + A.m + (pre.map conePdim).sum + j - (A.n + A.m) = (pre.map conePdim).sum + j := by
      omega
    rw [e, hdec, List.flatMap_append, List.getElem?_append_right
      (by rw [flatMap_dsigns_length]; omega), flatMap_dsigns_length, Nat.add_sub_cancel_left,
      List.flatMap_cons, List.getElem?_append_left (by rw [coneDsigns_length]; exact hj)]

end asm

end Clarabel.Lemmas.KktSigns
