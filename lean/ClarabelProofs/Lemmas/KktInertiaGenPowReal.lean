/-
  [R] `D − qqᵀ − rrᵀ ⪰ 0` for the Hessian data that `GenPow.updateDualGradH`
  (model of `genpowcone.rs::update_dual_grad_H`) writes, in every dimension.

  With `φ = Π(uᵢ/αᵢ)^{2αᵢ}`, `W = ‖w‖²`, `ζ = φ − W > 0`, `τᵢ = 2αᵢ/uᵢ`:
    `d1ᵢ = τᵢ φ/(ζ uᵢ) + (1 − αᵢ)/uᵢ²`,  `qᵢ = τᵢ·√(ζφ/2)/ζ`   ⟹  `(q·y)² ≤ Σ d1ᵢ yᵢ²`
       (Cauchy–Schwarz with the weights `αᵢ`, `Σαᵢ = 1`, and `αᵢ ≤ 1`),
    `d2 = 2/ζ`,  `rⱼ = 2√(ζ/(φ+W))/ζ · wⱼ`                   ⟹  `(r·y)² ≤ d2·‖y‖²`
       (Cauchy–Schwarz and `W ≤ φ`).
  `q` lives on the `u` block and `r` on the `w` block, so the two inequalities add up to
  `D − qqᵀ − rrᵀ ⪰ 0`, which is the hypothesis of `KktInertiaCones.expForm_genpow` /
  `quasiDefGE_genpowKkt`.  (C14's `hess_*` theorems show that `D + ppᵀ − qqᵀ − rrᵀ` is the Hessian
  of the dual barrier; this file adds the part of that structure the KKT inertia needs.)
-/
import ClarabelProofs.Lemmas.NonsymGenPowHess
import ClarabelProofs.Lemmas.KktUpdateSchur
import ClarabelProofs.Lemmas.KktInertiaCones
import Mathlib.Analysis.SpecialFunctions.Pow.Real

namespace Clarabel.Lemmas.KktInertiaGenPowReal

open Finset
open Clarabel Clarabel.GenPow Clarabel.Nonsym
open Clarabel.Lemmas.KktExpansion Clarabel.Lemmas.KktUpdateSchur

/-! ### the two scalar-weighted Cauchy–Schwarz inequalities -/

/-- weighted Cauchy–Schwarz: `(Σ aᵢ tᵢ)² ≤ (Σ aᵢ)(Σ aᵢ tᵢ²)` for `aᵢ ≥ 0` -/
theorem weighted_cs {n : ℕ} (a t : Fin n → ℝ) (ha : ∀ i, 0 ≤ a i) :
    (∑ i, a i * t i) ^ 2 ≤ (∑ i, a i) * ∑ i, a i * t i ^ 2 := by
  have h := Finset.sum_mul_sq_le_sq_mul_sq Finset.univ (fun i => Real.sqrt (a i))
    (fun i => Real.sqrt (a i) * t i)
  have e1 : ∀ i, Real.sqrt (a i) * (Real.sqrt (a i) * t i) = a i * t i := by
    intro i; rw [← mul_assoc, Real.mul_self_sqrt (ha i)]
  have e2 : ∀ i, Real.sqrt (a i) ^ 2 = a i := fun i => Real.sq_sqrt (ha i)
  have e3 : ∀ i, (Real.sqrt (a i) * t i) ^ 2 = a i * t i ^ 2 := by
    intro i; rw [mul_pow, e2]
  simpa only [e1, e2, e3] using h

/-- the `u` block: `(q·y)² ≤ Σ d1ᵢ yᵢ²` -/
theorem block_u {n : ℕ} (al u y : Fin n → ℝ) (hal : ∀ i, 0 < al i) (hsum : ∑ i, al i ≤ 1)
    (hu : ∀ i, 0 < u i) {φ ζ : ℝ} (hφ : 0 < φ) (hζ : 0 < ζ) :
    (∑ i, hQ φ ζ (al i) (u i) * y i) ^ 2 ≤ ∑ i, hD1 φ ζ (al i) (u i) * y i ^ 2 := by
  set c : ℝ := Real.sqrt (ζ * φ / 2) / ζ with hc
  have hc2 : c ^ 2 = φ / (2 * ζ) := by
    rw [hc, div_pow, Real.sq_sqrt (by positivity)]
    field_simp
  have e1 : ∑ i, hQ φ ζ (al i) (u i) * y i = 2 * c * ∑ i, al i * (y i / u i) := by
    rw [Finset.mul_sum]
    refine Finset.sum_congr rfl fun i _ => ?_
    have := (hu i).ne'
    unfold hQ
    rw [← hc]
    field_simp
  have e2 : ∑ i, hD1 φ ζ (al i) (u i) * y i ^ 2
      = (2 * φ / ζ) * ∑ i, al i * (y i / u i) ^ 2 + ∑ i, (1 - al i) * (y i / u i) ^ 2 := by
    rw [Finset.mul_sum, ← Finset.sum_add_distrib]
    refine Finset.sum_congr rfl fun i _ => ?_
    have := (hu i).ne'
    have := hζ.ne'
    unfold hD1
    field_simp
  have hle1 : ∀ i, al i ≤ 1 := fun i =>
    le_trans (Finset.single_le_sum (fun j _ => (hal j).le) (Finset.mem_univ i)) hsum
  have h3 : 0 ≤ ∑ i, (1 - al i) * (y i / u i) ^ 2 :=
    Finset.sum_nonneg fun i _ => mul_nonneg (by linarith [hle1 i]) (sq_nonneg _)
  have h4 : 0 ≤ ∑ i, al i * (y i / u i) ^ 2 :=
    Finset.sum_nonneg fun i _ => mul_nonneg (hal i).le (sq_nonneg _)
  have hcs := weighted_cs al (fun i => y i / u i) (fun i => (hal i).le)
  have h5 : (∑ i, al i * (y i / u i)) ^ 2 ≤ ∑ i, al i * (y i / u i) ^ 2 := by
    have : (∑ i, al i) * ∑ i, al i * (y i / u i) ^ 2 ≤ 1 * ∑ i, al i * (y i / u i) ^ 2 :=
      mul_le_mul_of_nonneg_right hsum h4
    linarith
  rw [e1, e2, mul_pow, mul_pow, hc2]
  have h6 : (2 : ℝ) ^ 2 * (φ / (2 * ζ)) = 2 * φ / ζ := by field_simp
  rw [h6]
  have h7 : 0 ≤ 2 * φ / ζ := by positivity
  have := mul_le_mul_of_nonneg_left h5 h7
  linarith

/-- the `w` block: `(r·y)² ≤ d2·‖y‖²` -/
theorem block_w {n : ℕ} (w y : Fin n → ℝ) {φ ζ W : ℝ} (hW : W = ∑ j, w j ^ 2) (hζe : ζ = φ - W)
    (hζ : 0 < ζ) : (∑ j, hR φ ζ W (w j) * y j) ^ 2 ≤ hD2 ζ * ∑ j, y j ^ 2 := by
  have hW0 : 0 ≤ W := by rw [hW]; exact Finset.sum_nonneg fun j _ => sq_nonneg _
  have hφW : 0 < φ + W := by linarith
  set c : ℝ := 2 * Real.sqrt (ζ / (φ + W)) / ζ with hc
  have hc2 : c ^ 2 = 4 / (ζ * (φ + W)) := by
    rw [hc, div_pow, mul_pow, Real.sq_sqrt (by positivity)]
    field_simp
    ring
  have e1 : ∑ j, hR φ ζ W (w j) * y j = c * ∑ j, w j * y j := by
    rw [Finset.mul_sum]
    refine Finset.sum_congr rfl fun j _ => ?_
    unfold hR
    rw [← hc]
    ring
  have hcs := Finset.sum_mul_sq_le_sq_mul_sq Finset.univ w y
  have hY : 0 ≤ ∑ j, y j ^ 2 := Finset.sum_nonneg fun j _ => sq_nonneg _
  rw [e1, mul_pow, hc2]
  unfold hD2
  have h1 : 4 / (ζ * (φ + W)) * (∑ j, w j * y j) ^ 2
      ≤ 4 / (ζ * (φ + W)) * (W * ∑ j, y j ^ 2) := by
    apply mul_le_mul_of_nonneg_left _ (by positivity)
    rw [hW]; exact hcs
  have h2 : 4 / (ζ * (φ + W)) * (W * ∑ j, y j ^ 2) ≤ 2 / ζ * ∑ j, y j ^ 2 := by
    have : 4 / (ζ * (φ + W)) * W ≤ 2 / ζ := by
      rw [div_mul_eq_mul_div, div_le_div_iff₀ (by positivity) hζ]
      nlinarith
    calc 4 / (ζ * (φ + W)) * (W * ∑ j, y j ^ 2)
        = (4 / (ζ * (φ + W)) * W) * ∑ j, y j ^ 2 := by ring
      _ ≤ 2 / ζ * ∑ j, y j ^ 2 := mul_le_mul_of_nonneg_right this hY
  linarith

/-! ### the data written by `update_dual_grad_H` -/

theorem prodPhi_pos (al u : List ℝ) (ha : AllPos al) (hu : AllPos u) : 0 < prodPhi al u := by
  rw [prodPhi_eq_exp al u ha hu]; exact Real.exp_pos _

theorem sumSq_eq_sum (w : List ℝ) : sumSq w = ∑ j : Fin w.length, w[j] ^ 2 := by
  unfold sumSq
  induction w with
  | nil => simp
  | cons x t ih =>
    rw [List.map_cons, List.sum_cons, ih]
    simp only [List.length_cons]
    rw [Fin.sum_univ_succ]
    simp [sq]

theorem list_sum_eq_sum (l : List ℝ) : l.sum = ∑ j : Fin l.length, l[j] := by
  induction l with
  | nil => simp
  | cons x t ih =>
    rw [List.sum_cons, ih]
    simp only [List.length_cons]
    rw [Fin.sum_univ_succ]
    simp

/-- [R] **`D − qqᵀ − rrᵀ ⪰ 0` for the data of `update_dual_grad_H`**, in the vocabulary of
`C11.update_genpow_schur` (`genpowD d1 d2`, `placeAt q 0`, `placeAt r dim1`): for exponents
`α > 0` with `Σα = 1`, a dual point `(u, w)` with `u > 0` and `ζ > 0` (what `update_scaling`
accepts, C14 `updateScaling_sound`), the stored `d1, d2, q, r` satisfy
`(q̃·y)² + (r̃·y)² ≤ Σ Dₖ yₖ²` for every `y`. -/
theorem genpow_D_sub_qq_rr_nonneg (al u w : List ℝ) (hlen : al.length = u.length)
    (ha : AllPos al) (hsum : al.sum = 1) (hu : AllPos u)
    (hζ : 0 < prodPhi al u - sumSq w) (D : Data ℝ)
    (hD : updateDualGradH al.toArray (u ++ w).toArray = .ok D)
    (y : Fin (D.d1.size + D.r.size) → ℝ) :
    dot (placeAt D.q 0) y ^ 2 + dot (placeAt D.r D.d1.size) y ^ 2
      ≤ ∑ k, genpowD D.d1 D.d2 k * y k ^ 2 := by
  obtain ⟨D', hD', -, hd1, hd2, -, hq, hr⟩ := updateDualGradH_data al u w hlen hζ
  have : D' = D := by rw [hD'] at hD; exact Except.ok.inj hD
  subst this
  set φ := prodPhi al u with hφdef
  set W := sumSq w with hWdef
  have hφ : 0 < φ := prodPhi_pos al u ha hu
  have hd1sz : D'.d1.size = al.length := by
    have := congrArg List.length hd1
    simpa [hlen] using this
  have hqsz : D'.q.size = al.length := by
    have := congrArg List.length hq
    simpa [hlen] using this
  have hrsz : D'.r.size = w.length := by
    have := congrArg List.length hr
    simpa using this
  -- entries
  have hd1i : ∀ i (hi : i < D'.d1.size), D'.d1[i] = hD1 φ (φ - W) (al[i]'(by omega)) (u[i]'(by omega)) := by
    intro i hi
    have h1 : D'.d1.toList[i]'(by simpa using hi) = D'.d1[i] := by simp
    rw [← h1]
    simp only [hd1, List.getElem_map, List.getElem_zip]
  have hqi : ∀ i (hi : i < D'.q.size), D'.q[i] = hQ φ (φ - W) (al[i]'(by omega)) (u[i]'(by omega)) := by
    intro i hi
    have h1 : D'.q.toList[i]'(by simpa using hi) = D'.q[i] := by simp
    rw [← h1]
    simp only [hq, List.getElem_map, List.getElem_zip]
  have hri : ∀ j (hj : j < D'.r.size), D'.r[j] = hR φ (φ - W) W (w[j]'(by omega)) := by
    intro j hj
    have h1 : D'.r.toList[j]'(by simpa using hj) = D'.r[j] := by simp
    rw [← h1]
    simp only [hr, List.getElem_map]
  -- split the sums
  have eq1 : dot (placeAt D'.q 0) y
      = ∑ i : Fin D'.d1.size, hQ φ (φ - W) (al[i.val]'(by omega)) (u[i.val]'(by omega))
          * y (Fin.castAdd D'.r.size i) := by
    unfold dot
    rw [Fin.sum_univ_add]
    have z : ∑ j : Fin D'.r.size, placeAt D'.q 0 (Fin.natAdd D'.d1.size j)
        * y (Fin.natAdd D'.d1.size j) = 0 := by
      apply Finset.sum_eq_zero
      intro j _
      have hz : placeAt D'.q 0 (Fin.natAdd D'.d1.size j) = 0 := by
        unfold placeAt
        exact if_neg (by simp only [Fin.val_natAdd]; omega)
      rw [hz, zero_mul]
    rw [z, add_zero]
    refine Finset.sum_congr rfl fun i _ => ?_
    have hi : i.val < D'.q.size := by omega
    have : (0 ≤ i.val ∧ i.val < 0 + D'.q.size) := by omega
    simp only [placeAt, Fin.val_castAdd, this, and_self, if_true, Nat.sub_zero]
    rw [Array.getD_eq_getD_getElem?, Array.getElem?_eq_getElem hi, Option.getD_some, hqi i.val hi]
  have eq2 : dot (placeAt D'.r D'.d1.size) y
      = ∑ j : Fin D'.r.size, hR φ (φ - W) W (w[j.val]'(by omega))
          * y (Fin.natAdd D'.d1.size j) := by
    unfold dot
    rw [Fin.sum_univ_add]
    have z : ∑ i : Fin D'.d1.size, placeAt D'.r D'.d1.size (Fin.castAdd D'.r.size i)
        * y (Fin.castAdd D'.r.size i) = 0 := by
      apply Finset.sum_eq_zero
      intro i _
      have hz : placeAt D'.r D'.d1.size (Fin.castAdd D'.r.size i) = 0 := by
        unfold placeAt
        exact if_neg (by simp only [Fin.val_castAdd]; omega)
      rw [hz, zero_mul]
    rw [z, zero_add]
    refine Finset.sum_congr rfl fun j _ => ?_
    have hj : j.val < D'.r.size := j.isLt
    have : (D'.d1.size ≤ D'.d1.size + j.val ∧ D'.d1.size + j.val < D'.d1.size + D'.r.size) := by
      omega
    simp only [placeAt, Fin.val_natAdd, this, and_self, if_true, Nat.add_sub_cancel_left]
    rw [Array.getD_eq_getD_getElem?, Array.getElem?_eq_getElem hj, Option.getD_some, hri j.val hj]
  have eq3 : ∑ k, genpowD D'.d1 D'.d2 k * y k ^ 2
      = ∑ i : Fin D'.d1.size, hD1 φ (φ - W) (al[i.val]'(by omega)) (u[i.val]'(by omega))
          * y (Fin.castAdd D'.r.size i) ^ 2
        + hD2 (φ - W) * ∑ j : Fin D'.r.size, y (Fin.natAdd D'.d1.size j) ^ 2 := by
    rw [Fin.sum_univ_add, Finset.mul_sum]
    congr 1
    · refine Finset.sum_congr rfl fun i _ => ?_
      have hi : i.val < D'.d1.size := i.isLt
      simp only [genpowD, Fin.val_castAdd, hi, dite_true]
      rw [hd1i i.val hi]
    · refine Finset.sum_congr rfl fun j _ => ?_
      have : ¬ (D'.d1.size + j.val < D'.d1.size) := by omega
      simp only [genpowD, Fin.val_natAdd, this, dite_false]
      rw [hd2]
  rw [eq1, eq2, eq3]
  -- the two blocks
  have hb1 := block_u (n := D'.d1.size) (fun i => al[i.val]'(by omega)) (fun i => u[i.val]'(by omega))
    (fun i => y (Fin.castAdd D'.r.size i))
    (fun i => ha _ (List.getElem_mem _)) (by
      have h1 := list_sum_eq_sum al
      rw [hsum] at h1
      have h2 := Fin.sum_congr' (fun i : Fin al.length => al[i.val]) hd1sz
      exact le_of_eq (h2.trans h1.symm))
    (fun i => hu _ (List.getElem_mem _)) hφ hζ
  have hb2 := block_w (n := D'.r.size) (fun j => w[j.val]'(by omega))
    (fun j => y (Fin.natAdd D'.d1.size j)) (φ := φ) (ζ := φ - W) (W := W) (by
      rw [hWdef, sumSq_eq_sum]
      exact (Fin.sum_congr' (fun j : Fin w.length => w[j.val] ^ 2) hrsz).symm) rfl hζ
  linarith

end Clarabel.Lemmas.KktInertiaGenPowReal
