/-
  C09 round 3 — the reduced internal problem handed to the solver IS `new(hand-reduced problem)`.

  `handReduceCones` / `handReduce` (appended to `ClarabelModel/Presolve.lean`) are the reduction a
  user would do by hand on the ORIGINAL data (rows deleted from `A`, `b`; nonnegative-like cones
  shrunk).  This file proves "reduce then collapse = collapse then reduce" and from it that
  `ProblemData.new` with presolve ON on the user's problem equals `ProblemData.new` with presolve
  OFF (and also ON: idempotence) on the hand-reduced problem, up to the `presolver` record.
  Pure list reasoning (`C16.Canonical` comes from `Lemmas/CscBasic`).
-/
import ClarabelModel.Presolve
import ClarabelModel.ProblemData
import ClarabelProofs.Lemmas.Presolve
import ClarabelProofs.Lemmas.PresolveCollapse
import ClarabelProofs.Lemmas.PresolveSpec
import ClarabelProofs.Lemmas.CscBasic
import ClarabelProofs.Props.C16

namespace Clarabel.Presolve
open Clarabel Cones

variable {α : Type}

/-! ### H1: reduce then collapse = collapse then reduce -/

/-- reducing a list that starts with the pending run `flush |kacc|`, with the markers `kacc`
of that run in front -/
theorem reduceConesWith_flush_append (kacc keep : List Bool) (L : List (ConeT α)) :
    reduceConesWith (kacc ++ keep) (flush kacc.length ++ L) =
      flush (kacc.count true) ++ reduceConesWith keep L := by
  unfold flush
  by_cases h0 : kacc.length = 0
  · have : kacc = [] := List.length_eq_zero_iff.mp h0
    subst this
    simp
  · rw [if_neg h0]
    simp only [List.cons_append, List.nil_append, reduceConesWith, List.take_left', List.drop_left']
    by_cases hc : kacc.count true = 0
    · simp [hc]
    · rw [if_pos (by omega), if_neg hc]; rfl

/-- [S] generalisation of `collapse_handReduceCones` over the accumulator of `collapseGo`:
`kacc` are the markers of the rows of the currently open run. -/
theorem reduceConesWith_collapseGo (cs : List (ConeT α)) (kacc keep : List Bool)
    (hk : keep.length = numel cs) :
    reduceConesWith (kacc ++ keep) (collapseGo kacc.length cs) =
      collapseGo (kacc.count true) (handReduceCones keep cs) := by
  induction cs generalizing kacc keep with
  | nil =>
    simp only [numel] at hk
    have : keep = [] := List.length_eq_zero_iff.mp hk
    subst this
    have := reduceConesWith_flush_append kacc [] ([] : List (ConeT α))
    simpa [collapseGo, handReduceCones, reduceConesWith] using this
  | cons c rest ih =>
    simp only [numel] at hk
    by_cases h0 : c.nvars = 0
    · -- an empty cone is skipped on both sides
      have hk' : (keep.drop 0).length = numel rest := by simp; omega
      have hl : collapseGo kacc.length (c :: rest) = collapseGo kacc.length rest := by
        rw [collapseGo, if_pos h0]
      rw [hl]
      cases hd : c.collapsibleDim? with
      | some d =>
        have hd0 : d = 0 := by rw [collapsibleDim_eq_nvars hd, h0]
        subst hd0
        have hr : handReduceCones keep (c :: rest) =
            ConeT.nonneg 0 :: handReduceCones (keep.drop 0) rest := by
          simp [handReduceCones, hd]
        rw [hr, collapseGo, if_pos (by rfl)]
        simpa using ih kacc (keep.drop 0) hk'
      | none =>
        have hr : handReduceCones keep (c :: rest) = c :: handReduceCones (keep.drop c.nvars) rest := by
          simp [handReduceCones, hd]
        rw [hr, collapseGo, if_pos h0, h0]
        simpa using ih kacc (keep.drop 0) hk'
    · cases hd : c.collapsibleDim? with
      | some d =>
        -- a collapsible cone extends the run
        have hdn : d = c.nvars := collapsibleDim_eq_nvars hd
        have hl : collapseGo kacc.length (c :: rest) = collapseGo (kacc.length + d) rest := by
          rw [collapseGo, if_neg h0, hd]
        have hr : handReduceCones keep (c :: rest) =
            ConeT.nonneg ((keep.take d).count true) :: handReduceCones (keep.drop d) rest := by
          simp [handReduceCones, hd]
        have hk' : (keep.drop d).length = numel rest := by simp; omega
        have hlen : (kacc ++ keep.take d).length = kacc.length + d := by
          simp; omega
        have := ih (kacc ++ keep.take d) (keep.drop d) hk'
        rw [hlen, List.append_assoc, List.take_append_drop, List.count_append] at this
        rw [hl, hr, this]
        by_cases hc : (keep.take d).count true = 0
        · rw [collapseGo, if_pos (by simpa [ConeT.nvars] using hc), hc, Nat.add_zero]
        · rw [collapseGo, if_neg (by simpa [ConeT.nvars] using hc)]
          rfl
      | none =>
        -- any other cone closes the run
        have hn := collapsibleDim_none_not_nonneg hd
        have hl : collapseGo kacc.length (c :: rest) =
            flush kacc.length ++ c :: collapseGo 0 rest := by
          rw [collapseGo, if_neg h0, hd]
        have hr : handReduceCones keep (c :: rest) = c :: handReduceCones (keep.drop c.nvars) rest := by
          simp [handReduceCones, hd]
        have hk' : (keep.drop c.nvars).length = numel rest := by simp; omega
        have := ih [] (keep.drop c.nvars) hk'
        simp only [List.nil_append, List.length_nil, List.count_nil] at this
        rw [hl, hr, reduceConesWith_flush_append, reduceConesWith_cons_other _ _ _ hn, this,
          collapseGo, if_neg h0, hd]

/-- [S] **H1** reduce then collapse = collapse then reduce: collapsing the hand-reduced cone
list gives the reduction (`reduce_cones`) of the collapsed list, for every keep vector. -/
theorem collapse_handReduceCones (cones : List (ConeT α)) (keep : List Bool)
    (hk : keep.length = numel cones) :
    newCollapsed (handReduceCones keep cones) = reduceConesWith keep (newCollapsed cones) := by
  have := reduceConesWith_collapseGo cones [] keep hk
  simpa [newCollapsed] using this.symm

/-! ### H2: the hand-reduced cone list covers exactly the kept rows -/

section keep
variable [LT α] [DecidableLT α]

/-- [S] **H2** the rows of the hand-reduced cone list add up to the number of kept rows. -/
theorem numel_handReduceCones (thr : α) (cones : List (ConeT α)) (bs : List α) (keep : List Bool)
    (h : numel cones = bs.length) (hk : keepFlags thr (newCollapsed cones) bs = .ok keep) :
    numel (handReduceCones keep cones) = keep.count true := by
  have hnum : numel (newCollapsed cones) = bs.length := by
    rw [newCollapsed, numel_collapseGo]; omega
  obtain ⟨keep', hk', hl, _⟩ := keepFlags_spec thr (newCollapsed cones) bs hnum
  rw [hk] at hk'; cases hk'
  have h1 := collapse_handReduceCones cones keep (by omega)
  have h2 : numel (newCollapsed (handReduceCones keep cones)) = numel (handReduceCones keep cones) := by
    rw [newCollapsed, numel_collapseGo]; omega
  rw [← h2, h1]
  exact numel_reduceConesWith_keepFlags thr _ bs keep hnum hk

/-! ### idempotence: the reduced data has nothing more to drop -/

/-- list form of `Vec.select` (the definition of `Vec.select` on lists) -/
def selZ {β : Type} (xs : List β) (ks : List Bool) : List β :=
  ((xs.zip ks).filter (·.2)).map (·.1)

omit [LT α] [DecidableLT α] in
theorem select_toList (b : Array α) (keep : List Bool) :
    (Vec.select b keep.toArray).toList = selZ b.toList keep := rfl

theorem selZ_append {β : Type} (xs ys : List β) (ks ls : List Bool) (h : xs.length = ks.length) :
    selZ (xs ++ ys) (ks ++ ls) = selZ xs ks ++ selZ ys ls := by
  simp [selZ, List.zip_append h]

theorem selZ_map {β : Type} (xs : List β) (f : β → Bool) :
    selZ xs (xs.map f) = xs.filter f := by
  induction xs with
  | nil => rfl
  | cons x r ih =>
    simp only [selZ, List.map_cons, List.zip_cons_cons, List.filter_cons] at ih ⊢
    cases hf : f x <;> simp [ih]

theorem count_map_eq_length_filter {β : Type} (xs : List β) (f : β → Bool) :
    (xs.map f).count true = (xs.filter f).length := by
  induction xs with
  | nil => rfl
  | cons x r ih => cases hf : f x <;> simp [hf, ih]

/-- [S] the keep vector of the reduced data is all `true`: a row kept by `make_reduction_map`
is kept again (every kept row of a nonnegative cone has `¬ thr < b[i]`). -/
theorem keepFlags_reduced (thr : α) (cs : List (ConeT α)) (bs : List α) (keep : List Bool)
    (h : numel cs = bs.length) (hk : keepFlags thr cs bs = .ok keep) :
    keepFlags thr (reduceConesWith keep cs) (selZ bs keep) =
      .ok (List.replicate (keep.count true) true) := by
  induction cs generalizing bs keep with
  | nil =>
    simp only [numel] at h
    have : bs = [] := List.length_eq_zero_iff.mp h.symm
    subst this
    simp only [keepFlags, List.map_nil] at hk
    cases hk
    rfl
  | cons c cs ih =>
    simp only [numel] at h
    have hrest : numel cs = (bs.drop c.nvars).length := by simp; omega
    obtain ⟨rest, hr, hrl, _⟩ := keepFlags_spec thr cs (bs.drop c.nvars) hrest
    have ihr := ih (bs.drop c.nvars) rest hrest hr
    have hsplit : bs = bs.take c.nvars ++ bs.drop c.nvars := (List.take_append_drop _ _).symm
    have htl : (bs.take c.nvars).length = c.nvars := by simp; omega
    have other : c.isNonneg = false →
        keepFlags thr (reduceConesWith keep (c :: cs)) (selZ bs keep) =
          .ok (List.replicate (keep.count true) true) := by
      intro hc
      rw [keepFlags_cons_other thr c cs bs hc, hr] at hk
      cases hk
      have hsl : ((bs.take c.nvars).map (fun _ => true)).length = c.nvars := by simp; omega
      rw [reduceConesWith_cons_other _ c cs hc,
        List.drop_append_of_le_length (by omega), List.drop_of_length_le (by omega), List.nil_append]
      have hsel : selZ bs ((bs.take c.nvars).map (fun _ => true) ++ rest) =
          bs.take c.nvars ++ selZ (bs.drop c.nvars) rest := by
        conv => lhs; arg 1; rw [hsplit]
        rw [selZ_append _ _ _ _ (by simp), selZ_map]
        simp
      rw [hsel, keepFlags_cons_other thr c _ _ hc,
        List.drop_append_of_le_length (by omega), List.drop_of_length_le (by omega), List.nil_append,
        ihr, List.take_append_of_le_length (by omega), List.take_of_length_le (by omega)]
      simp only [bind, Except.bind, pure, Except.pure, List.count_append]
      congr 1
      have hm : (bs.take c.nvars).map (fun _ => true) = List.replicate c.nvars true := by
        rw [List.eq_replicate_iff]
        exact ⟨hsl, by intro b hb; obtain ⟨_, _, rfl⟩ := List.mem_map.mp hb; rfl⟩
      rw [hm, List.count_replicate_self, List.replicate_add]
    cases c with
    | nonneg n =>
      simp only [ConeT.nvars] at h hrest hr hsplit htl ihr
      simp only [keepFlags] at hk
      rw [if_neg (by omega), hr] at hk
      cases hk
      let g : α → Bool := fun v => if thr < v then false else true
      have hsl : ((bs.take n).map g).length = n := by simp; omega
      have hsel : selZ bs ((bs.take n).map g ++ rest) =
          (bs.take n).filter g ++ selZ (bs.drop n) rest := by
        conv => lhs; arg 1; rw [hsplit]
        rw [selZ_append _ _ _ _ (by simp), selZ_map]
      have hcnt : ((bs.take n).map g).count true = ((bs.take n).filter g).length :=
        count_map_eq_length_filter _ _
      have hall : ((bs.take n).filter g).map g = List.replicate ((bs.take n).filter g).length true := by
        rw [List.eq_replicate_iff]
        refine ⟨by simp, ?_⟩
        intro b hb
        obtain ⟨v, hv, rfl⟩ := List.mem_map.mp hb
        exact (List.mem_filter.mp hv).2
      show keepFlags thr (reduceConesWith ((bs.take n).map g ++ rest) (ConeT.nonneg n :: cs))
          (selZ bs ((bs.take n).map g ++ rest)) = _
      simp only [reduceConesWith]
      rw [List.take_append_of_le_length (by omega), List.take_of_length_le (by omega),
        List.drop_append_of_le_length (by omega), List.drop_of_length_le (by omega), List.nil_append,
        List.count_append, hsel, hcnt]
      split
      · simp only [keepFlags]
        rw [if_neg (by simp),
          List.drop_append_of_le_length (by omega), List.drop_of_length_le (by omega), List.nil_append,
          ihr, List.take_append_of_le_length (by omega), List.take_of_length_le (by omega)]
        simp only [bind, Except.bind, pure, Except.pure]
        congr 1
        show ((bs.take n).filter g).map g ++ _ = _
        rw [hall, List.replicate_add]
      · rename_i h0
        have h00 : ((bs.take n).filter g).length = 0 := by omega
        have : (bs.take n).filter g = [] := List.length_eq_zero_iff.mp h00
        rw [this, List.nil_append, ihr, List.length_nil, Nat.zero_add]
    | zero n | soc n | psd n | exp | pow a | genpow αs d2 =>
      all_goals
        exact other rfl

end keep

/-! ### H3: `new` with presolve ON = `new` with presolve OFF on the hand-reduced problem -/

section pd
variable [Add α] [Sub α] [Mul α] [Div α] [OfNat α 0] [OfNat α 1] [LT α] [DecidableLT α] [FloatLike α]

omit [Add α] [Sub α] [Mul α] [Div α] [OfNat α 0] [OfNat α 1] [LT α] [DecidableLT α] [FloatLike α] in
/-- `select_rows` succeeds on a matrix with in-range row indices and a keep vector of length
`m`; the result has `count keep` rows and the same number of columns (local restatement of the
part of `C09.reduced_problem` needed here) -/
theorem selectRows_ok (A : Csc α) (keep : List Bool) (hl : keep.length = A.m)
    (hrows : ∀ r ∈ A.rowval.toList, r < A.m) :
    ∃ A', A.selectRows keep.toArray = .ok A' ∧ A'.m = keep.count true ∧ A'.n = A.n := by
  have hall : (A.rowval.toList.all (fun r => decide (r < A.m))) = true :=
    List.all_eq_true.mpr (fun r hr => decide_eq_true (hrows r hr))
  unfold Csc.selectRows
  rw [if_neg (by simp [hl]), if_neg (by simp [hall])]
  exact ⟨_, rfl, (count_true_eq_filter_id keep).symm, rfl⟩

omit [Add α] [Sub α] [Mul α] [Div α] [OfNat α 0] [OfNat α 1] [LT α] [DecidableLT α] [FloatLike α] in
/-- `presolve` of the record built from `keep` (local restatement of `C09.reduced_problem`) -/
theorem presolve_recordOf (A A' : Csc α) (b : Array α) (cs : List (ConeT α)) (keep : List Bool) (inf : α)
    (hl : keep.length = b.size) (hsel : A.selectRows keep.toArray = .ok A') :
    (recordOf keep b inf).presolve A b cs =
      .ok (A', Vec.select b keep.toArray, reduceConesWith keep cs) := by
  simp only [Presolver.presolve, Presolver.reduceAb, Presolver.reduceCones, recordOf, hsel]
  simp [bind, Except.bind, pure, Except.pure, hl]

/-- [S] **H3** the reduced internal problem handed to the solver IS `new(hand-reduced problem)`.
Under the hypotheses of `C09.problemdata_new_spec`, with `keep` the keep flags of
`make_reduction_map` on the collapsed cone list and at least one dropped row: if
`DefaultProblemData::new` with presolve ON returns `d` on the user's `(P, q, A, b, K)`, then the
hand reduction of the user's data (`handReduce`: rows deleted from `A`, `b`; every
nonnegative-like cone of the ORIGINAL list shrunk to its kept count) succeeds, and
`DefaultProblemData::new` on the hand-reduced problem returns exactly `d` without the `presolver`
record — with presolve OFF, and also with presolve ON (the reduction is idempotent: nothing more
is dropped).  Holds for every placement of the dropped rows and every scalar type. -/
theorem problemdata_new_hand_reduced (P : Csc α) (q : Array α) (A : Csc α) (b : Array α)
    (cones : List (ConeT α)) (inf : α) (keep : List Bool) (d : ProblemData α)
    (hA : C16.Canonical A) (hAm : A.m = b.size) (hnum : numel cones = b.size) (hPsq : P.m = P.n)
    (hk : keepFlags (threshold inf) (newCollapsed cones) b.toList = .ok keep)
    (hc : keep.count true < b.size)
    (hnew : ProblemData.new P q A b cones true false inf = .ok d) :
    ∃ (A' : Csc α) (b' : Array α) (cones' : List (ConeT α)),
      handReduce keep A b cones = .ok (A', b', cones') ∧
      ProblemData.new P q A' b' cones' false false inf = .ok { d with presolver := none } ∧
      ProblemData.new P q A' b' cones' true false inf = .ok { d with presolver := none } := by
  have hnum' : numel (newCollapsed cones) = b.toList.length := by
    rw [newCollapsed, numel_collapseGo]; simp [hnum]
  obtain ⟨keep', hk', hl, _⟩ := keepFlags_spec (threshold inf) (newCollapsed cones) b.toList hnum'
  rw [hk] at hk'; cases hk'
  have hl' : keep.length = b.size := by simpa using hl
  obtain ⟨Pn, hPn⟩ := triuStep_ok P hPsq
  obtain ⟨A', hsel, hm, _⟩ := selectRows_ok A keep (by omega) hA.rows_bound
  -- the full problem, presolve on
  have hpre : ProblemData.tryPresolver b (newCollapsed cones) true inf =
      .ok (some (recordOf keep b inf)) := by
    rw [tryPresolver_on _ _ _ _ hk, if_pos hc]
  have hred : ProblemData.reduceStep (some (recordOf keep b inf)) A b (newCollapsed cones) =
      .ok (A', Vec.select b keep.toArray, reduceConesWith keep (newCollapsed cones)) :=
    presolve_recordOf A A' b _ keep inf hl' hsel
  have hfull := new_eq_of_steps P q A b cones true inf Pn _ _ hPn hpre hred
  rw [hnew] at hfull
  cases hfull
  -- the hand-reduced problem
  have hcol : newCollapsed (handReduceCones keep cones) = reduceConesWith keep (newCollapsed cones) :=
    collapse_handReduceCones cones keep (by omega)
  refine ⟨A', Vec.select b keep.toArray, handReduceCones keep cones, ?_, ?_, ?_⟩
  · simp [handReduce, hsel, bind, Except.bind, pure, Except.pure]
  · have h2 := new_eq_of_steps P q A' (Vec.select b keep.toArray) (handReduceCones keep cones) false inf
      Pn none (A', Vec.select b keep.toArray, newCollapsed (handReduceCones keep cones)) hPn
      (tryPresolver_off _ _ _) rfl
    rw [h2, hcol]
    rfl
  · have hk2 := keepFlags_reduced (threshold inf) (newCollapsed cones) b.toList keep hnum' hk
    rw [← select_toList, ← hcol] at hk2
    have hsz : (Vec.select b keep.toArray).size = keep.count true := by
      have : (Vec.select b keep.toArray).toList.length = keep.count true := by
        rw [select_toList, selZ, List.length_map, ← List.countP_eq_length_filter]
        have : ∀ (xs : List α) (ks : List Bool), xs.length = ks.length →
            (xs.zip ks).countP (·.2) = ks.count true := by
          intro xs ks
          induction ks generalizing xs with
          | nil => intro _; simp
          | cons k r ih =>
            intro hx
            cases xs with
            | nil => simp at hx
            | cons x xr =>
              simp only [List.length_cons, Nat.add_right_cancel_iff] at hx
              cases k <;> simp [ih xr hx]
        exact this _ _ (by omega)
      simpa using this
    have hpre2 : ProblemData.tryPresolver (Vec.select b keep.toArray)
        (newCollapsed (handReduceCones keep cones)) true inf = .ok none := by
      rw [tryPresolver_on _ _ _ _ hk2, if_neg (by simp [hsz])]
    have h2 := new_eq_of_steps P q A' (Vec.select b keep.toArray) (handReduceCones keep cones) true inf
      Pn none (A', Vec.select b keep.toArray, newCollapsed (handReduceCones keep cones)) hPn hpre2 rfl
    rw [h2, hcol]
    rfl

/-- [S] degenerate case of **H3**: when `make_reduction_map` drops no row, presolve ON records
no presolver and returns exactly what presolve OFF returns on the same (unreduced) problem. -/
theorem problemdata_new_nothing_dropped (P : Csc α) (q : Array α) (A : Csc α) (b : Array α)
    (cones : List (ConeT α)) (inf : α) (keep : List Bool) (d : ProblemData α)
    (hk : keepFlags (threshold inf) (newCollapsed cones) b.toList = .ok keep)
    (hc : keep.count true = b.size)
    (hnew : ProblemData.new P q A b cones true false inf = .ok d) :
    d.presolver = none ∧ ProblemData.new P q A b cones false false inf = .ok d := by
  have hpre : ProblemData.tryPresolver b (newCollapsed cones) true inf = .ok none := by
    rw [tryPresolver_on _ _ _ _ hk, if_neg (by omega)]
  cases hT : ProblemData.triuStep P with
  | error e =>
    simp [ProblemData.new, hT, bind, Except.bind] at hnew
  | ok Pn =>
    have h1 := new_eq_of_steps P q A b cones true inf Pn none (A, b, newCollapsed cones) hT hpre rfl
    have h2 := new_eq_of_steps P q A b cones false inf Pn none (A, b, newCollapsed cones) hT
      (tryPresolver_off _ _ _) rfl
    rw [hnew] at h1
    cases h1
    exact ⟨rfl, h2⟩

end pd

/-! ### H4: non-vacuity -/

/-- H1 on `[SOC 1, NN 2, Zero 1, NN 1]` with one dropped row in the `SOC 1` and one in the `NN 2` -/
example : newCollapsed (handReduceCones [false, true, false, true, true]
      ([ConeT.soc 1, ConeT.nonneg 2, ConeT.zero 1, ConeT.nonneg 1] : List (ConeT Nat))) =
    reduceConesWith [false, true, false, true, true]
      (newCollapsed [ConeT.soc 1, ConeT.nonneg 2, ConeT.zero 1, ConeT.nonneg 1]) := by rfl
example : handReduceCones [false, true, false, true, true]
      ([ConeT.soc 1, ConeT.nonneg 2, ConeT.zero 1, ConeT.nonneg 1] : List (ConeT Nat)) =
    [ConeT.nonneg 0, ConeT.nonneg 1, ConeT.zero 1, ConeT.nonneg 1] := by rfl
/-- the keep vector above is the one `make_reduction_map` computes for `b = (9, 1, 9, 9, 2)`,
threshold 5, on the collapsed list (hypothesis `hk` of H2/H3), and the reduced data keeps
everything (`keepFlags_reduced`) -/
example : keepFlags (5 : Nat) (newCollapsed [ConeT.soc 1, ConeT.nonneg 2, ConeT.zero 1, ConeT.nonneg 1])
    [9, 1, 9, 9, 2] = .ok [false, true, false, true, true] := by rfl
example : keepFlags (5 : Nat) (newCollapsed (handReduceCones [false, true, false, true, true]
      [ConeT.soc 1, ConeT.nonneg 2, ConeT.zero 1, ConeT.nonneg 1]))
    (selZ [9, 1, 9, 9, 2] [false, true, false, true, true]) = .ok [true, true, true] := by rfl

/-! non-vacuity of **H3** / the degenerate case: a fully computable toy scalar (`Nat` with
`eps = 0`, so `threshold inf = inf`), used for these examples only -/
section toy

/-- toy `FloatLike Nat` (examples only; never an instance outside this section) -/
@[reducible] def natFloatLike : FloatLike Nat where
  sqrt := id
  exp := id
  log := id
  powf := fun a _ => a
  fmax := max
  fmin := min
  fabs := id
  isNaN := fun _ => false
  isFinite := fun _ => true
  eps := 0
  ofNat := id

attribute [local instance] natFloatLike

/-- user data: `A` 5×2 canonical, `b = (9, 1, 9, 9, 2)`, bound 5, cones `[SOC 1, NN 2, Zero 1, NN 1]`;
rows 0 (the `SOC 1`) and 2 (second row of the `NN 2`) are dropped, row 3 (`Zero`) is capped -/
def toyA : Csc Nat := ⟨5, 2, #[0, 3, 6], #[0, 2, 4, 1, 2, 3], #[1, 2, 3, 4, 5, 6]⟩
def toyP : Csc Nat := ⟨2, 2, #[0, 1, 2], #[0, 1], #[1, 1]⟩
def toyCones : List (ConeT Nat) := [ConeT.soc 1, ConeT.nonneg 2, ConeT.zero 1, ConeT.nonneg 1]

example : ∃ d A' b' cones',
    ProblemData.new toyP #[1, 1] toyA #[9, 1, 9, 9, 2] toyCones true false 5 = .ok d ∧
    d.presolver.isSome = true ∧ d.m = 3 ∧ d.b.toList = [1, 5, 2] ∧
    handReduce [false, true, false, true, true] toyA #[9, 1, 9, 9, 2] toyCones = .ok (A', b', cones') ∧
    cones' = [ConeT.nonneg 0, ConeT.nonneg 1, ConeT.zero 1, ConeT.nonneg 1] ∧
    ProblemData.new toyP #[1, 1] A' b' cones' false false 5 = .ok { d with presolver := none } ∧
    ProblemData.new toyP #[1, 1] A' b' cones' true false 5 = .ok { d with presolver := none } := by
  have hA : C16.Canonical toyA := C16.check_format_canonical _ (by rfl)
  have hk : keepFlags (threshold (5 : Nat)) (newCollapsed toyCones) (#[9, 1, 9, 9, 2] : Array Nat).toList =
      .ok [false, true, false, true, true] := by rfl
  obtain ⟨d, hd⟩ : ∃ d, ProblemData.new toyP #[1, 1] toyA #[9, 1, 9, 9, 2] toyCones true false 5 = .ok d :=
    ⟨_, rfl⟩
  have hd' := hd
  obtain ⟨A', b', cones', hh, hoff, hon⟩ :=
    problemdata_new_hand_reduced toyP #[1, 1] toyA #[9, 1, 9, 9, 2] toyCones 5 _ d hA rfl rfl rfl hk
      (by decide) hd
  refine ⟨d, A', b', cones', hd, ?_, ?_, ?_, hh, ?_, hoff, hon⟩
  · have : ProblemData.new toyP #[1, 1] toyA #[9, 1, 9, 9, 2] toyCones true false 5 = .ok d := hd'
    cases this; rfl
  · cases hd'; rfl
  · cases hd'
    simp [ProblemData.assemble, ProblemData.capB, Vec.select, threshold, FloatLike.eps, FloatLike.ofNat, fmin,
      FloatLike.fmin, ConeT.nvars]
  · have : handReduce [false, true, false, true, true] toyA #[9, 1, 9, 9, 2] toyCones =
        .ok (A', b', cones') := hh
    cases this; rfl

/-- the degenerate case: nothing to drop (`b` below the bound everywhere) -/
example : ∃ d, ProblemData.new toyP #[1, 1] toyA #[4, 1, 4, 9, 2] toyCones true false 5 = .ok d ∧
    d.presolver = none ∧ ProblemData.new toyP #[1, 1] toyA #[4, 1, 4, 9, 2] toyCones false false 5 = .ok d := by
  obtain ⟨d, hd⟩ : ∃ d, ProblemData.new toyP #[1, 1] toyA #[4, 1, 4, 9, 2] toyCones true false 5 = .ok d :=
    ⟨_, rfl⟩
  have := problemdata_new_nothing_dropped toyP #[1, 1] toyA #[4, 1, 4, 9, 2] toyCones 5
    [true, true, true, true, true] d (by rfl) (by rfl) hd
  exact ⟨d, hd, this.1, this.2⟩

end toy

end Clarabel.Presolve
