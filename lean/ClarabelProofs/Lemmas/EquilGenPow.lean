/-
  C10 `cone_preserved`, generalised power cone (all dimensions): the cone
  `K_α = {(u,w) : Π uᵢ^{αᵢ} ≥ ‖w‖, u ≥ 0}` and its dual are invariant under a positive
  *uniform* scaling when `Σ αᵢ = 1`  (`Π (k uᵢ)^{2αᵢ} = k^{2Σαᵢ} Π uᵢ^{2αᵢ} = k² Π uᵢ^{2αᵢ}` and
  `‖k w‖² = k² ‖w‖²`).  Stated on the model's membership tests `GenPow.isPrimalFeasible` /
  `GenPow.isDualFeasible` through C14's characterisations (`Lemmas/NonsymGenPow.lean`).
-/
import ClarabelProofs.Lemmas.NonsymGenPow

namespace Clarabel.GenPow
open Clarabel Nonsym

/-- all coordinates nonnegative -/
def AllNonneg (l : List ℝ) : Prop := ∀ x ∈ l, 0 ≤ x

theorem AllPos.nonneg {l : List ℝ} (h : AllPos l) : AllNonneg l := fun x hx => (h x hx).le

theorem allPos_map_mul (k : ℝ) (hk : 0 < k) (u : List ℝ) : AllPos (u.map (k * ·)) ↔ AllPos u := by
  unfold AllPos
  simp only [List.mem_map, forall_exists_index, and_imp, forall_apply_eq_imp_iff₂]
  exact ⟨fun h x hx => (mul_pos_iff_of_pos_left hk).mp (h x hx), fun h x hx => mul_pos hk (h x hx)⟩

theorem allNonneg_map_mul (k : ℝ) (hk : 0 < k) (u : List ℝ) : AllNonneg (u.map (k * ·)) ↔ AllNonneg u := by
  unfold AllNonneg
  simp only [List.mem_map, forall_exists_index, and_imp, forall_apply_eq_imp_iff₂]
  exact ⟨fun h x hx => le_of_mul_le_mul_left (by simpa using h x hx) hk,
    fun h x hx => mul_nonneg hk.le (h x hx)⟩

theorem sumSq_map_mul (k : ℝ) (w : List ℝ) : sumSq (w.map (k * ·)) = k * k * sumSq w := by
  unfold sumSq
  induction w with
  | nil => simp
  | cons a t ih =>
    simp only [List.map_cons, List.sum_cons] at ih ⊢
    rw [ih]; ring

/-- `Π (k uᵢ)^{2αᵢ} = k^{2 Σαᵢ} · Π uᵢ^{2αᵢ}` -/
theorem prodPhiP_scale (k : ℝ) (hk : 0 < k) (al u : List ℝ) (hlen : al.length = u.length)
    (hu : AllNonneg u) : prodPhiP al (u.map (k * ·)) = k ^ (2 * al.sum) * prodPhiP al u := by
  unfold prodPhiP
  induction al generalizing u with
  | nil => simp
  | cons a t ih =>
    cases u with
    | nil => simp at hlen
    | cons x r =>
      simp only [List.map_cons, List.zip_cons_cons, List.prod_cons, List.sum_cons]
      rw [ih r (by simpa using hlen) (fun y hy => hu y (by simp [hy])),
        Real.mul_rpow hk.le (hu x (by simp)), mul_add, Real.rpow_add hk]
      ring

/-- `Π (k uᵢ/αᵢ)^{2αᵢ} = k^{2 Σαᵢ} · Π (uᵢ/αᵢ)^{2αᵢ}` -/
theorem prodPhi_scale (k : ℝ) (hk : 0 < k) (al u : List ℝ) (hlen : al.length = u.length)
    (ha : AllPos al) (hu : AllNonneg u) :
    prodPhi al (u.map (k * ·)) = k ^ (2 * al.sum) * prodPhi al u := by
  unfold prodPhi
  induction al generalizing u with
  | nil => simp
  | cons a t ih =>
    cases u with
    | nil => simp at hlen
    | cons x r =>
      simp only [List.map_cons, List.zip_cons_cons, List.prod_cons, List.sum_cons]
      rw [ih r (by simpa using hlen) (fun y hy => ha y (by simp [hy])) (fun y hy => hu y (by simp [hy])),
        mul_div_assoc, Real.mul_rpow hk.le (div_nonneg (hu x (by simp)) (ha a (by simp)).le), mul_add,
        Real.rpow_add hk]
      ring

theorem rpow_two_sum_one (k : ℝ) (s : ℝ) (hs : s = 1) : k ^ (2 * s) = k * k := by
  rw [hs, mul_one, Real.rpow_two, sq]

/-! ### closed cones (mathematical definition in the square-root free form) -/

/-- `(u,w) ∈ K_α`: `u ≥ 0`, `‖w‖² ≤ Π uᵢ^{2αᵢ}` -/
def Mem (al u w : List ℝ) : Prop := AllNonneg u ∧ sumSq w ≤ prodPhiP al u

/-- `(u,w) ∈ K_α*`: `u ≥ 0`, `‖w‖² ≤ Π (uᵢ/αᵢ)^{2αᵢ}` -/
def MemDual (al u w : List ℝ) : Prop := AllNonneg u ∧ sumSq w ≤ prodPhi al u

theorem mem_scale (k : ℝ) (hk : 0 < k) (al u w : List ℝ) (hlen : al.length = u.length)
    (hsum : al.sum = 1) : Mem al (u.map (k * ·)) (w.map (k * ·)) ↔ Mem al u w := by
  unfold Mem
  rw [allNonneg_map_mul k hk]
  refine and_congr_right (fun hu => ?_)
  rw [prodPhiP_scale k hk al u hlen hu, rpow_two_sum_one k _ hsum, sumSq_map_mul]
  exact mul_le_mul_iff_right₀ (mul_pos hk hk)

theorem memDual_scale (k : ℝ) (hk : 0 < k) (al u w : List ℝ) (hlen : al.length = u.length)
    (ha : AllPos al) (hsum : al.sum = 1) :
    MemDual al (u.map (k * ·)) (w.map (k * ·)) ↔ MemDual al u w := by
  unfold MemDual
  rw [allNonneg_map_mul k hk]
  refine and_congr_right (fun hu => ?_)
  rw [prodPhi_scale k hk al u hlen ha hu, rpow_two_sum_one k _ hsum, sumSq_map_mul]
  exact mul_le_mul_iff_right₀ (mul_pos hk hk)

/-! ### the model's (interior) membership tests -/

/-- `is_primal_feasible` of the generalised power cone gives the same answer on `k·(u,w)` -/
theorem isPrimalFeasible_scale (k : ℝ) (hk : 0 < k) (al u w : List ℝ) (hlen : al.length = u.length)
    (hsum : al.sum = 1) :
    isPrimalFeasible al.toArray ((u ++ w).map (k * ·)).toArray = .ok true ↔
      isPrimalFeasible al.toArray (u ++ w).toArray = .ok true := by
  rw [List.map_append, isPrimalFeasible_iff al _ _ (by simpa using hlen), isPrimalFeasible_iff al u w hlen,
    allPos_map_mul k hk]
  refine and_congr_right (fun hu => ?_)
  rw [prodPhiP_scale k hk al u hlen hu.nonneg, rpow_two_sum_one k _ hsum, sumSq_map_mul]
  exact mul_lt_mul_iff_right₀ (mul_pos hk hk)

/-- `is_dual_feasible` of the generalised power cone gives the same answer on `k·(u,w)` -/
theorem isDualFeasible_scale (k : ℝ) (hk : 0 < k) (al u w : List ℝ) (hlen : al.length = u.length)
    (ha : AllPos al) (hsum : al.sum = 1) :
    isDualFeasible al.toArray ((u ++ w).map (k * ·)).toArray = .ok true ↔
      isDualFeasible al.toArray (u ++ w).toArray = .ok true := by
  rw [List.map_append, isDualFeasible_iff al _ _ (by simpa using hlen) ha, isDualFeasible_iff al u w hlen ha,
    allPos_map_mul k hk]
  refine and_congr_right (fun hu => ?_)
  rw [prodPhi_scale k hk al u hlen ha hu.nonneg, rpow_two_sum_one k _ hsum, sumSq_map_mul]
  exact mul_lt_mul_iff_right₀ (mul_pos hk hk)

/-- a vector too short for the cone: both tests fail (the Rust slice panics) -/
theorem isPrimalFeasible_short (al : Array ℝ) (s : Array ℝ) (h : ¬ al.size ≤ s.size) :
    isPrimalFeasible al s ≠ .ok true := by
  unfold isPrimalFeasible split
  simp [h, bind, Except.bind]

theorem isDualFeasible_short (al : Array ℝ) (s : Array ℝ) (h : ¬ al.size ≤ s.size) :
    isDualFeasible al s ≠ .ok true := by
  unfold isDualFeasible split
  simp [h, bind, Except.bind]

/-- the same on a whole segment `seg` (cut at `al.length` by the cone itself) -/
theorem isPrimalFeasible_scale_seg (k : ℝ) (hk : 0 < k) (al seg : List ℝ) (hsum : al.sum = 1) :
    isPrimalFeasible al.toArray (seg.map (k * ·)).toArray = .ok true ↔
      isPrimalFeasible al.toArray seg.toArray = .ok true := by
  by_cases h : al.length ≤ seg.length
  · have e : seg = seg.take al.length ++ seg.drop al.length := (List.take_append_drop _ _).symm
    rw [e]
    exact isPrimalFeasible_scale k hk al _ _ (by simp [h]) hsum
  · constructor <;> intro hh
    · exact absurd hh (isPrimalFeasible_short _ _ (by simpa using h))
    · exact absurd hh (isPrimalFeasible_short _ _ (by simpa using h))

theorem isDualFeasible_scale_seg (k : ℝ) (hk : 0 < k) (al seg : List ℝ) (ha : AllPos al)
    (hsum : al.sum = 1) :
    isDualFeasible al.toArray (seg.map (k * ·)).toArray = .ok true ↔
      isDualFeasible al.toArray seg.toArray = .ok true := by
  by_cases h : al.length ≤ seg.length
  · have e : seg = seg.take al.length ++ seg.drop al.length := (List.take_append_drop _ _).symm
    rw [e]
    exact isDualFeasible_scale k hk al _ _ (by simp [h]) ha hsum
  · constructor <;> intro hh
    · exact absurd hh (isDualFeasible_short _ _ (by simpa using h))
    · exact absurd hh (isDualFeasible_short _ _ (by simpa using h))

end Clarabel.GenPow
