/-
  Structural lemmas about the termination logic of `ClarabelModel/Info.lean`
  (no arithmetic law is used: they hold for every scalar type, `Float` included).
-/
import ClarabelModel.Info

set_option linter.unusedSectionVars false

namespace Clarabel.Info

instance : LawfulBEq SolverStatus where
  eq_of_beq := by
    intro a b h
    cases a <;> cases b <;> first | rfl | cases h
  rfl := by
    intro a
    cases a <;> rfl

variable {α : Type}

section
variable [Mul α] [Div α] [Neg α] [OfNat α 1] [OfNat α 100] [OfNat α 1000]
  [LT α] [DecidableLT α] [LE α] [DecidableLE α]

/-- what `checkConvergence` can do to the status: keep it, or assign one of the three
target statuses under the corresponding test. -/
theorem checkConvergence_cases (i : InfoS α) (bz qx : α) (t : Tols α) (s1 s2 s3 : SolverStatus) :
    (checkConvergence i bz qx t s1 s2 s3 = { i with status := s1 }
        ∧ i.ktratio ≤ 1 ∧ isSolved i t.gap_abs t.gap_rel t.feas = true)
    ∨ (checkConvergence i bz qx t s1 s2 s3 = { i with status := s2 }
        ∧ ¬ (i.ktratio ≤ 1 ∧ isSolved i t.gap_abs t.gap_rel t.feas = true)
        ∧ i.ktratio > (1 / t.ktratio) * 1000
        ∧ isPrimalInfeasible i bz t.infeas_abs t.infeas_rel = true)
    ∨ (checkConvergence i bz qx t s1 s2 s3 = { i with status := s3 }
        ∧ ¬ (i.ktratio ≤ 1 ∧ isSolved i t.gap_abs t.gap_rel t.feas = true)
        ∧ i.ktratio > (1 / t.ktratio) * 1000
        ∧ isPrimalInfeasible i bz t.infeas_abs t.infeas_rel = false
        ∧ isDualInfeasible i qx t.infeas_abs t.infeas_rel = true)
    ∨ (checkConvergence i bz qx t s1 s2 s3 = i) := by
  unfold checkConvergence
  by_cases h1 : (decide (i.ktratio ≤ 1) && isSolved i t.gap_abs t.gap_rel t.feas) = true
  · left
    rw [if_pos h1]
    simp only [Bool.and_eq_true, decide_eq_true_eq] at h1
    exact ⟨rfl, h1.1, h1.2⟩
  · rw [if_neg h1]
    have h1' : ¬ (i.ktratio ≤ 1 ∧ isSolved i t.gap_abs t.gap_rel t.feas = true) := by
      simpa only [Bool.and_eq_true, decide_eq_true_eq] using h1
    by_cases h2 : i.ktratio > (1 / t.ktratio) * 1000
    · rw [if_pos h2]
      by_cases h3 : isPrimalInfeasible i bz t.infeas_abs t.infeas_rel = true
      · right; left
        rw [if_pos h3]
        exact ⟨rfl, h1', h2, h3⟩
      · rw [if_neg h3]
        by_cases h4 : isDualInfeasible i qx t.infeas_abs t.infeas_rel = true
        · right; right; left
          rw [if_pos h4]
          exact ⟨rfl, h1', h2, by simpa using h3, h4⟩
        · right; right; right
          rw [if_neg h4]
    · right; right; right
      rw [if_neg h2]

/-- `checkConvergence` touches nothing but the status -/
theorem checkConvergence_fields (i : InfoS α) (bz qx : α) (t : Tols α) (s1 s2 s3 : SolverStatus) :
    ∃ st, checkConvergence i bz qx t s1 s2 s3 = { i with status := st } := by
  rcases checkConvergence_cases i bz qx t s1 s2 s3 with h | h | h | h
  · exact ⟨s1, h.1⟩
  · exact ⟨s2, h.1⟩
  · exact ⟨s3, h.1⟩
  · exact ⟨i.status, by rw [h]⟩

theorem isSolved_iff (i : InfoS α) (a b c : α) :
    isSolved i a b c = true ↔ (i.gap_abs < a ∨ i.gap_rel < b) ∧ i.res_primal < c ∧ i.res_dual < c := by
  unfold isSolved
  simp only [Bool.and_eq_true, Bool.or_eq_true, decide_eq_true_eq]
  exact and_assoc

theorem isPrimalInfeasible_iff (i : InfoS α) (bz a r : α) :
    isPrimalInfeasible i bz a r = true ↔ bz < -a ∧ i.res_primal_inf < -r * bz := by
  unfold isPrimalInfeasible
  simp only [Bool.and_eq_true, decide_eq_true_eq]

theorem isDualInfeasible_iff (i : InfoS α) (qx a r : α) :
    isDualInfeasible i qx a r = true ↔ qx < -a ∧ i.res_dual_inf < -r * qx := by
  unfold isDualInfeasible
  simp only [Bool.and_eq_true, decide_eq_true_eq]

end
section
variable {α : Type} [Add α] [Mul α] [OfNat α 0] [FloatLike α]
theorem normScaledE_ok (x v : Array α) (r : α) (h : normScaledE x v = .ok r) : r = Vec.normScaled x v := by
  unfold normScaledE at h
  split at h
  · cases h
  · cases h; rfl

end

end Clarabel.Info
