/-
  Structural lemmas about the termination logic of `ClarabelModel/Info.lean`
  (no arithmetic law is used: they hold for every scalar type, `Float` included).
-/
import ClarabelModel.Info

set_option linter.unusedSectionVars false

namespace Clarabel.Info

instance : LawfulBEq SolverStatus where
  eq_of_beq := by
    intro a b h
    cases a <;> cases b <;> first | rfl | cases h
  rfl := by
    intro a
    cases a <;> rfl

variable {α : Type}

section
variable [Mul α] [Div α] [Neg α] [OfNat α 1] [OfNat α 100] [OfNat α 1000]
  [LT α] [DecidableLT α] [LE α] [DecidableLE α]

/-- what `checkConvergence` can do to the status: keep it, or assign one of the three
target statuses under the corresponding test. -/
theorem checkConvergence_cases (i : InfoS α) (bz qx : α) (t : Tols α) (s1 s2 s3 : SolverStatus) :
    (checkConvergence i bz qx t s1 s2 s3 = { i with status := s1 }
        ∧ i.ktratio ≤ 1 ∧ isSolved i t.gap_abs t.gap_rel t.feas = true)
    ∨ (checkConvergence i bz qx t s1 s2 s3 = { i with status := s2 }
        ∧ ¬ (i.ktratio ≤ 1 ∧ isSolved i t.gap_abs t.gap_rel t.feas = true)
        ∧ i.ktratio > (1 / t.ktratio) * 1000
        ∧ isPrimalInfeasible i bz t.infeas_abs t.infeas_rel = true)
    ∨ (checkConvergence i bz qx t s1 s2 s3 = { i with status := s3 }
        ∧ ¬ (i.ktratio ≤ 1 ∧ isSolved i t.gap_abs t.gap_rel t.feas = true)
        ∧ i.ktratio > (1 / t.ktratio) * 1000
        ∧ isPrimalInfeasible i bz t.infeas_abs t.infeas_rel = false
        ∧ isDualInfeasible i qx t.infeas_abs t.infeas_rel = true)
    ∨ (checkConvergence i bz qx t s1 s2 s3 = i) := by
  unfold checkConvergence
  by_cases h1 : (decide (i.ktratio ≤ 1) && isSolved i t.gap_abs t.gap_rel t.feas) = true
  · left
    rw [if_pos h1]
    simp only [Bool.and_eq_true, decide_eq_true_eq] at h1
    exact ⟨rfl, h1.1, h1.2⟩
  · rw [if_neg h1]
    have h1' : ¬ (i.ktratio ≤ 1 ∧ isSolved i t.gap_abs t.gap_rel t.feas = true) := by
      simpa only [Bool.and_eq_true, decide_eq_true_eq] using h1
    by_cases h2 : i.ktratio > (1 / t.ktratio) * 1000
    · rw [if_pos h2]
      by_cases h3 : isPrimalInfeasible i bz t.infeas_abs t.infeas_rel = true
      · right; left
        rw [if_pos h3]
        exact ⟨rfl, h1', h2, h3⟩
      · rw [if_neg h3]
        by_cases h4 : isDualInfeasible i qx t.infeas_abs t.infeas_rel = true
        · right; right; left
          rw [if_pos h4]
          exact ⟨rfl, h1', h2, by simpa using h3, h4⟩
        · right; right; right
          rw [if_neg h4]
    · right; right; right
      rw [if_neg h2]

/-- `checkConvergence` touches nothing but the status -/
theorem checkConvergence_fields (i : InfoS α) (bz qx : α) (t : Tols α) (s1 s2 s3 : SolverStatus) :
    ∃ st, checkConvergence i bz qx t s1 s2 s3 = { i with status := st } := by
  rcases checkConvergence_cases i bz qx t s1 s2 s3 with h | h | h | h
  · exact ⟨s1, h.1⟩
  · exact ⟨s2, h.1⟩
  · exact ⟨s3, h.1⟩
  · exact ⟨i.status, by rw [h]⟩

theorem isSolved_iff (i : InfoS α) (a b c : α) :
    isSolved i a b c = true ↔ (i.gap_abs < a ∨ i.gap_rel < b) ∧ i.res_primal < c ∧ i.res_dual < c := by
  unfold isSolved
  simp only [Bool.and_eq_true, Bool.or_eq_true, decide_eq_true_eq]
  exact and_assoc

theorem isPrimalInfeasible_iff (i : InfoS α) (bz a r : α) :
    isPrimalInfeasible i bz a r = true ↔ bz < -a ∧ i.res_primal_inf < -r * bz := by
  unfold isPrimalInfeasible
  simp only [Bool.and_eq_true, decide_eq_true_eq]

theorem isDualInfeasible_iff (i : InfoS α) (qx a r : α) :
    isDualInfeasible i qx a r = true ↔ qx < -a ∧ i.res_dual_inf < -r * qx := by
  unfold isDualInfeasible
  simp only [Bool.and_eq_true, decide_eq_true_eq]

end
section
variable {α : Type} [Add α] [Mul α] [OfNat α 0] [FloatLike α]
theorem normScaledE_ok (x v : Array α) (r : α) (h : normScaledE x v = .ok r) : r = Vec.normScaled x v := by
  unfold normScaledE at h
  split at h
  · cases h
  · cases h; rfl

end

section
open Residuals
/-- what `Info.update` assigns, field by field (used by `C03.update_assigns`, `C02.no_rollback_consistency`) -/
theorem update_fields {α : Type} [Add α] [Sub α] [Mul α] [Div α] [Neg α] [OfNat α 0] [OfNat α 1] [OfNat α 2]
    [LT α] [DecidableLT α] [FloatLike α] (i i' : InfoS α) (eq : Equil α) (normq normb : α) (v : Vars α) (r : Resid α)
    (h : Info.update i eq normq normb v r = .ok i') :
    let τinv := 1 / v.τ
    let cinv := 1 / eq.c
    let nx := Vec.normScaled v.x eq.d
    let nz := Vec.normScaled v.z eq.e * cinv
    let ns := Vec.normScaled v.s eq.einv
    i'.cost_primal = (r.dot_qx * τinv + r.dot_xPx * τinv * τinv / 2) * cinv
    ∧ i'.cost_dual = (-r.dot_bz * τinv - r.dot_xPx * τinv * τinv / 2) * cinv
    ∧ i'.res_primal_inf = (Vec.normScaled r.rx_inf eq.dinv * cinv) / fmax 1 nz
    ∧ i'.res_dual_inf = fmax (Vec.normScaled r.Px eq.dinv / fmax 1 nx)
                             (Vec.normScaled r.rz_inf eq.einv / fmax 1 (nx + ns))
    ∧ i'.res_primal = Vec.normScaled r.rz eq.einv * τinv / fmax 1 (normb + nx * τinv + ns * τinv)
    ∧ i'.res_dual = Vec.normScaled r.rx eq.dinv * τinv * cinv / fmax 1 (normq + nx * τinv + nz * τinv)
    ∧ i'.gap_abs = fabs (i'.cost_primal - i'.cost_dual)
    ∧ i'.gap_rel = i'.gap_abs / fmax 1 (fmin (fabs i'.cost_primal) (fabs i'.cost_dual))
    ∧ i'.ktratio = v.κ * τinv
    ∧ i'.status = i.status ∧ i'.iterations = i.iterations := by
  unfold Info.update at h
  simp only [bind, Except.bind, pure, Except.pure] at h
  repeat' split at h
  all_goals first | (cases h; done) | skip
  rename_i _ _ h1 _ _ h2 _ _ h3 _ _ h4 _ _ h5 _ _ h6 _ _ h7 _ _ h8
  have e1 := normScaledE_ok _ _ _ h1
  have e2 := normScaledE_ok _ _ _ h2
  have e3 := normScaledE_ok _ _ _ h3
  have e4 := normScaledE_ok _ _ _ h4
  have e5 := normScaledE_ok _ _ _ h5
  have e6 := normScaledE_ok _ _ _ h6
  have e7 := normScaledE_ok _ _ _ h7
  have e8 := normScaledE_ok _ _ _ h8
  subst e1 e2 e3 e4 e5 e6 e7 e8
  cases h
  exact ⟨rfl, rfl, rfl, rfl, rfl, rfl, rfl, rfl, rfl, rfl, rfl⟩


end

section
variable {α : Type} [Mul α] [Div α] [Neg α] [OfNat α 1] [OfNat α 100] [OfNat α 1000]
  [LT α] [DecidableLT α] [LE α] [DecidableLE α]

/-- if `checkConvergence` newly assigns the primal-infeasibility status, the primal test fired -/
theorem conv_pinf (i : InfoS α) (bz qx : α) (t : Tols α) (s1 s2 s3 : SolverStatus)
    (h : (checkConvergence i bz qx t s1 s2 s3).status = s2) (h0 : i.status ≠ s2)
    (h12 : s1 ≠ s2) (h32 : s3 ≠ s2) :
    i.ktratio > (1 / t.ktratio) * 1000 ∧ bz < -t.infeas_abs ∧ i.res_primal_inf < -t.infeas_rel * bz := by
  rcases checkConvergence_cases i bz qx t s1 s2 s3 with hc | hc | hc | hc
  · rw [hc.1] at h; exact absurd h h12
  · have := (isPrimalInfeasible_iff i _ _ _).mp hc.2.2.2
    exact ⟨hc.2.2.1, this.1, this.2⟩
  · rw [hc.1] at h; exact absurd h h32
  · rw [hc] at h; exact absurd h h0

/-- if `checkConvergence` newly assigns the dual-infeasibility status, the dual test fired
(and the primal one did not) -/
theorem conv_dinf (i : InfoS α) (bz qx : α) (t : Tols α) (s1 s2 s3 : SolverStatus)
    (h : (checkConvergence i bz qx t s1 s2 s3).status = s3) (h0 : i.status ≠ s3)
    (h13 : s1 ≠ s3) (h23 : s2 ≠ s3) :
    i.ktratio > (1 / t.ktratio) * 1000 ∧ qx < -t.infeas_abs ∧ i.res_dual_inf < -t.infeas_rel * qx := by
  rcases checkConvergence_cases i bz qx t s1 s2 s3 with hc | hc | hc | hc
  · rw [hc.1] at h; exact absurd h h13
  · rw [hc.1] at h; exact absurd h h23
  · have := (isDualInfeasible_iff i _ _ _).mp hc.2.2.2.2
    exact ⟨hc.2.2.1, this.1, this.2⟩
  · rw [hc] at h; exact absurd h h0
end

end Clarabel.Info
