/-
  The reduced clique graph of the clique-graph merge strategy, EXACTNESS AT CODE LEVEL
  (`ClarabelModel/Chordal/MergeCG.lean`, Rust `src/solver/chordal/merge/clique_graph.rs`):
  the directions missing in `ChordalCGReduced.lean` (which has no-panic and "a pair that should be
  emitted is emitted"); here every loop is characterised EXACTLY.

  (b) `separatorGraph_exact` : `y` is listed as a neighbour of `x` IFF `{x, y}` sit at two positions
      `i < j` of `clique_ind` for which `inter_equal` answered `false` (`addNb`, `hstep_addNb`,
      `sgInner_eq`: the closed form of the loop body);
  (a) `interEqual_sub`       : `inter_equal(s1, s2, s3) = true` only if `s1 ∩ s2 ⊆ s3` (no hypothesis;
      `ieRes`: the loop as a recursive function); `interEqual_false_iff`: for duplicate-free sets with
      `s3 ⊆ s1`, `s3 ⊆ s2` the answer is `false` IFF there is a common element outside `s3`;
  (c) `dfs_exact`            : `DFS_hashtable` — what is collected was unvisited before and is visited
      afterwards; for every set `X` (the recursion stack) the invariant "every visited vertex outside
      `X` has all its neighbours visited" survives the call; `findComponents_closed`: for a
      symmetric table every component is closed under listed neighbours (`closed_reach`: under
      reachability);
  (d) `isUnconnected_exact`  : `true` only if some component contains the first clique but not the
      second; `isUnconnected_iff`: `true` IFF the second clique is not reachable from the first;
  (e) `rcInner_exact`, `rcOuter_exact`, `rcPairs_exact`, `rcSep_exact`: the pairs present afterwards
      are the pairs present before plus exactly the emitted ones; `hstep_iff_lk`: the separator graph
      is the link relation `Lk` ("both contain `S`, common element outside `S`");
  *   `reduced_exact`        : `(R, C)` is returned IFF for some listed separator `S` it is
      `(max a b, min a b)` for two different cliques containing `S` that no chain of links at level
      `S` joins (`EmitS`, `emitS_iff`).
  Nothing of (a)–(e) is missing.  All theorems here are class [S]; helper names live in the namespace
  `Clarabel.Chordal.CGR`.
-/
import ClarabelProofs.Lemmas.ChordalCGReduced
namespace Clarabel.Chordal
open Clarabel
namespace CGR

/-! ## (b) `separator_graph` is complete -/

/-- add `b` to the neighbour list of `a` (the `if H.contains_key(..) { push } else { insert }` of
`separator_graph`) -/
def addNb (H : HMap (Array Nat)) (a b : Nat) : HMap (Array Nat) :=
  match H.get? a with
  | some l => H.insert a (l.push b)
  | none => H.insert a #[b]

/-- [S] the listed neighbours after `insert` -/
theorem hstep_insert (H : HMap (Array Nat)) (a : Nat) (nb : Array Nat) (x y : Nat) :
    HStep (H.insert a nb) x y ↔ if x = a then y ∈ nb.toList else HStep H x y := by
  unfold HStep
  by_cases e : x = a
  · simp only [get?_insert, e, if_true, Option.some.injEq]
    constructor
    · rintro ⟨nb', rfl, h⟩; exact h
    · intro h; exact ⟨nb, rfl, h⟩
  · simp only [get?_insert, e, if_false]

/-- [S] the listed neighbours after one more neighbour was added -/
theorem hstep_addNb (H : HMap (Array Nat)) (a b x y : Nat) :
    HStep (addNb H a b) x y ↔ HStep H x y ∨ (x = a ∧ y = b) := by
  unfold addNb
  cases hg : H.get? a with
  | none =>
    simp only
    rw [hstep_insert]
    by_cases e : x = a
    · subst e
      simp only [if_true, true_and]
      have : ¬ HStep H x y := by
        rintro ⟨nb, h1, _⟩
        rw [hg] at h1; exact absurd h1 (by simp)
      simp [this]
    · simp [e]
  | some l =>
    simp only
    rw [hstep_insert]
    by_cases e : x = a
    · subst e
      simp only [if_true, true_and, Array.toList_push, List.mem_append, List.mem_singleton]
      have : HStep H x y ↔ y ∈ l.toList := by
        constructor
        · rintro ⟨nb, h1, h2⟩
          rw [hg] at h1
          cases h1; exact h2
        · intro h; exact ⟨l, hg, h⟩
      rw [this]
    · simp [e]

/-- [S] one pass of the inner loop of `separator_graph` in closed form -/
theorem sgInner_eq {cliqueInd : Array Nat} {separator : VSet} {snd : Array VSet}
    (hlt : ∀ c ∈ cliqueInd.toList, c < snd.size) {i j : Nat} (hi : i < cliqueInd.size)
    (hj : j < cliqueInd.size) (H : HMap (Array Nat)) :
    sgInner cliqueInd separator snd i j H = .ok (.yield
      (if interEqual (snd.getD (cliqueInd.getD i 0) #[]) (snd.getD (cliqueInd.getD j 0) #[])
          separator = true then H
        else addNb (addNb H (cliqueInd.getD i 0) (cliqueInd.getD j 0))
          (cliqueInd.getD j 0) (cliqueInd.getD i 0))) := by
  have ma := getD_mem_toList cliqueInd i 0 hi
  have mb := getD_mem_toList cliqueInd j 0 hj
  unfold sgInner
  simp only [Kr.getE_ok cliqueInd i _ 0 hi, Kr.getE_ok cliqueInd j _ 0 hj,
    Kr.getE_ok snd _ _ #[] (hlt _ ma), Kr.getE_ok snd _ _ #[] (hlt _ mb), bind, Except.bind]
  generalize cliqueInd.getD i 0 = ca at *
  generalize cliqueInd.getD j 0 = cb at *
  cases hie : interEqual (snd.getD ca #[]) (snd.getD cb #[]) separator with
  | true => simp [pure, Except.pure]
  | false =>
    simp only [Bool.not_false, if_true, Bool.false_eq_true, if_false]
    cases hg : H.get? ca with
    | none =>
      simp only [containsKey_none hg, Bool.false_eq_true, if_false]
      cases hg1 : (H.insert ca #[cb]).get? cb with
      | none =>
        simp only [containsKey_none hg1, Bool.false_eq_true, if_false, addNb, hg, hg1]
        rfl
      | some l1 =>
        simp only [containsKey_some hg1, if_true, getP_some hg1, addNb, hg, hg1]
        rfl
    | some l =>
      simp only [containsKey_some hg, if_true, getP_some hg]
      cases hg1 : (H.insert ca (l.push cb)).get? cb with
      | none =>
        simp only [containsKey_none hg1, Bool.false_eq_true, if_false, addNb, hg, hg1]
        rfl
      | some l1 =>
        simp only [containsKey_some hg1, if_true, getP_some hg1, addNb, hg, hg1]
        rfl

/-- the pair of positions `i < j` of `clique_ind` contributes the edge `x — y` -/
def SGE (ci : Array Nat) (S : VSet) (snd : Array VSet) (i j x y : Nat) : Prop :=
  interEqual (snd.getD (ci.getD i 0) #[]) (snd.getD (ci.getD j 0) #[]) S = false ∧
    ((ci.getD i 0 = x ∧ ci.getD j 0 = y) ∨ (ci.getD i 0 = y ∧ ci.getD j 0 = x))

/-- [S] **`separator_graph` IS EXACT**: no panic when the clique indices are in range; the keys are the
given cliques; `y` is listed as a neighbour of `x` IFF `{x, y}` are the cliques at two positions
`i < j` of `clique_ind` for which `inter_equal(snd[ci[i]], snd[ci[j]], separator)` answered `false` -/
theorem separatorGraph_exact {ci : Array Nat} {S : VSet} {snd : Array VSet}
    (hlt : ∀ c ∈ ci.toList, c < snd.size) :
    ∃ H, separatorGraph ci S snd = .ok H ∧ SGGood ci.toList S snd H ∧
      ∀ x y, HStep H x y ↔ ∃ i j, i < j ∧ j < ci.size ∧ SGE ci S snd i j x y := by
  obtain ⟨H0, e0, g0⟩ := separatorGraph_ok (separator := S) hlt
  have h0 : ∀ x y, HStep (HMap.empty snd.size : HMap (Array Nat)) x y ↔
      ∃ i j, i ∈ ([] : List Nat) ∧ i < j ∧ j < ci.size ∧ SGE ci S snd i j x y := by
    intro x y
    constructor
    · rintro ⟨nb, h, _⟩
      rw [get?_empty] at h; exact absurd h (by simp)
    · rintro ⟨i, _, hi, _⟩; simp at hi
  obtain ⟨H1, e1, i1⟩ := forIn_inv (List.range' 0 ci.size) (sgOuter ci S snd)
    (fun pre H => ∀ x y, HStep H x y ↔
      ∃ i j, i ∈ pre ∧ i < j ∧ j < ci.size ∧ SGE ci S snd i j x y) (by
      intro pre i post hl H hH
      have hi' : i < ci.size := by
        have : i ∈ List.range' 0 ci.size := by rw [hl]; simp
        have := List.mem_range'_1.1 this; omega
      unfold sgOuter
      obtain ⟨H', e, iH⟩ := forIn_inv (List.range' (i + 1) (ci.size - (i + 1)))
        (sgInner ci S snd i)
        (fun pre' H' => ∀ x y, HStep H' x y ↔
          (∃ i' j, i' ∈ pre ∧ i' < j ∧ j < ci.size ∧ SGE ci S snd i' j x y) ∨
          (∃ j, j ∈ pre' ∧ SGE ci S snd i j x y)) (by
          intro pre' j post' hl' H2 hH2
          have hj' : i < j ∧ j < ci.size := by
            have : j ∈ List.range' (i + 1) (ci.size - (i + 1)) := by rw [hl']; simp
            have := List.mem_range'_1.1 this; omega
          refine ⟨_, sgInner_eq hlt hi' hj'.2 H2, ?_⟩
          intro x y
          have key : HStep (if interEqual (snd.getD (ci.getD i 0) #[]) (snd.getD (ci.getD j 0) #[])
                S = true then H2
              else addNb (addNb H2 (ci.getD i 0) (ci.getD j 0)) (ci.getD j 0) (ci.getD i 0)) x y ↔
              HStep H2 x y ∨ SGE ci S snd i j x y := by
            unfold SGE
            cases hie : interEqual (snd.getD (ci.getD i 0) #[]) (snd.getD (ci.getD j 0) #[]) S with
            | true => simp
            | false =>
              simp only [Bool.false_eq_true, if_false, hstep_addNb, true_and]
              constructor
              · rintro ((h | h) | h)
                · exact .inl h
                · exact .inr (.inl ⟨h.1.symm, h.2.symm⟩)
                · exact .inr (.inr ⟨h.2.symm, h.1.symm⟩)
              · rintro (h | h | h)
                · exact .inl (.inl h)
                · exact .inl (.inr ⟨h.1.symm, h.2.symm⟩)
                · exact .inr ⟨h.2.symm, h.1.symm⟩
          rw [key, hH2 x y]
          constructor
          · rintro ((h | ⟨j', hj1, hj2⟩) | h)
            · exact .inl h
            · exact .inr ⟨j', List.mem_append_left _ hj1, hj2⟩
            · exact .inr ⟨j, by simp, h⟩
          · rintro (h | ⟨j', hj1, hj2⟩)
            · exact .inl (.inl h)
            · rcases List.mem_append.1 hj1 with hm | hm
              · exact .inl (.inr ⟨j', hm, hj2⟩)
              · have : j' = j := by simpa using hm
                subst this
                exact .inr hj2) H (by
          intro x y
          rw [hH x y]
          constructor
          · intro h; exact .inl h
          · rintro (h | ⟨j, hj, _⟩)
            · exact h
            · simp at hj)
      refine ⟨H', by rw [e]; rfl, ?_⟩
      intro x y
      rw [iH x y]
      constructor
      · rintro (⟨i', j, h1, h2⟩ | ⟨j, hj, h⟩)
        · exact ⟨i', j, List.mem_append_left _ h1, h2⟩
        · have := List.mem_range'_1.1 hj
          exact ⟨i, j, by simp, by omega, by omega, h⟩
      · rintro ⟨i', j, h1, h2, h3, h4⟩
        rcases List.mem_append.1 h1 with hm | hm
        · exact .inl ⟨i', j, hm, h2, h3, h4⟩
        · have : i' = i := by simpa using hm
          subst this
          exact .inr ⟨j, List.mem_range'_1.2 ⟨by omega, by omega⟩, h4⟩) _ h0
  obtain ⟨H2, e2, i2⟩ := forIn_inv' ci.toList sgFill
    (fun H => ∀ x y, HStep H x y ↔
      ∃ i j, i ∈ List.range' 0 ci.size ∧ i < j ∧ j < ci.size ∧ SGE ci S snd i j x y) (by
      intro a _ H hH
      unfold sgFill
      cases hc : H.containsKey a with
      | true => exact ⟨H, rfl, hH⟩
      | false =>
        refine ⟨H.insert a #[], rfl, ?_⟩
        intro x y
        rw [hstep_insert, ← hH x y]
        by_cases e : x = a
        · subst e
          simp only [if_true, List.not_mem_nil, false_iff]
          rintro ⟨nb, h, _⟩
          rw [containsKey_some h] at hc
          exact absurd hc (by simp)
        · simp [e]) H1 i1
  have hrun : separatorGraph ci S snd = .ok H2 := by
    rw [separatorGraph_eq_forIn, e1]
    simp only [bind, Except.bind]
    rw [e2]
  have hEq : H0 = H2 := Except.ok.inj (e0.symm.trans hrun)
  subst hEq
  refine ⟨H0, e0, g0, ?_⟩
  intro x y
  rw [i2 x y]
  constructor
  · rintro ⟨i, j, _, h⟩; exact ⟨i, j, h⟩
  · rintro ⟨i, j, h1, h2, h3⟩
    exact ⟨i, j, List.mem_range'_1.2 ⟨by omega, by omega⟩, h1, h2, h3⟩

/-! ## (a) `inter_equal` -/

/-- the state of the loop of `inter_equal` after the list `l`, as a recursive function -/
def ieRes (sb s3 : VSet) (len3 : Nat) : List Nat → Nat → Nat → Option Bool × Nat × Nat
  | [], dim, mi => (none, dim, mi)
  | e :: l, dim, mi =>
    if sb.contains e = true then
      if dim + 1 > len3 then (some false, dim + 1, mi)
      else if (!s3.contains e) = true then (some false, dim + 1, mi)
      else if mi - 1 < len3 then (some false, dim + 1, mi - 1)
      else ieRes sb s3 len3 l (dim + 1) (mi - 1)
    else if mi - 1 < len3 then (some false, dim, mi - 1)
      else ieRes sb s3 len3 l dim (mi - 1)

/-- [S] the loop of `inter_equal` computes `ieRes` -/
theorem ie_forIn (sb s3 : VSet) (len3 : Nat)
    (f : Nat → Option Bool × Nat × Nat → Id (ForInStep (Option Bool × Nat × Nat)))
    (hf : ∀ e dim mi, f e (none, dim, mi) =
      if sb.contains e = true then
        if dim + 1 > len3 then pure (ForInStep.done (some false, dim + 1, mi))
        else if (!s3.contains e) = true then pure (ForInStep.done (some false, dim + 1, mi))
        else if mi - 1 < len3 then pure (ForInStep.done (some false, dim + 1, mi - 1))
        else pure (ForInStep.yield (none, dim + 1, mi - 1))
      else if mi - 1 < len3 then pure (ForInStep.done (some false, dim, mi - 1))
        else pure (ForInStep.yield (none, dim, mi - 1))) :
    ∀ (l : List Nat) (dim mi : Nat),
      forIn l (none, dim, mi) f = (pure (ieRes sb s3 len3 l dim mi) : Id _) := by
  intro l
  induction l with
  | nil => intro dim mi; simp [ieRes]
  | cons e l ih =>
    intro dim mi
    rw [List.forIn_cons, hf]
    simp only [ieRes]
    split_ifs <;> simp only [pure_bind] <;> exact ih _ _

/-- [S] a common element outside the third set makes the loop of `inter_equal` stop with `false` -/
theorem ieRes_bad (sb s3 : VSet) (len3 : Nat) : ∀ (l : List Nat) (dim mi : Nat),
    (∃ e ∈ l, sb.contains e = true ∧ s3.contains e = false) →
    (ieRes sb s3 len3 l dim mi).1 = some false := by
  intro l
  induction l with
  | nil => intro _ _ h; obtain ⟨e, he, _⟩ := h; simp at he
  | cons e l ih =>
    intro dim mi h
    simp only [ieRes]
    have tail : ¬ (sb.contains e = true ∧ s3.contains e = false) →
        ∃ e ∈ l, sb.contains e = true ∧ s3.contains e = false := by
      intro hne
      obtain ⟨e', he', hb⟩ := h
      rcases List.mem_cons.1 he' with rfl | hm
      · exact absurd hb hne
      · exact ⟨e', hm, hb⟩
    split_ifs with hc c1 c2 c3 c3
    · rfl
    · rfl
    · rfl
    · exact ih _ _ (tail (by
        rintro ⟨_, h2⟩
        rw [h2] at c2; simp at c2))
    · rfl
    · exact ih _ _ (tail (fun h' => hc h'.1))

/-- [S] (a) **`inter_equal` ANSWERS `true` ONLY IF THE INTERSECTION LIES IN THE THIRD SET**: every
common element of `s1` and `s2` is an element of `s3` (no hypothesis; together with `s3 ⊆ s1`,
`s3 ⊆ s2` this is `s1 ∩ s2 = s3`) -/
theorem interEqual_sub {s1 s2 s3 : VSet} (h : interEqual s1 s2 s3 = true) :
    ∀ v, v ∈ s1.toList → v ∈ s2.toList → v ∈ s3.toList := by
  intro v h1 h2
  by_contra h3
  unfold interEqual at h
  by_cases hlen : s1.size + s2.size < s3.size
  · simp only [hlen, if_true] at h
    exact absurd h (by simp)
  · simp only [hlen, if_false] at h
    by_cases hlt : s1.size < s2.size
    · simp only [hlt, if_true] at h
      rw [← Array.forIn_toList, ie_forIn s2 s3 s3.size _ (fun _ _ _ => rfl)] at h
      simp only [pure_bind] at h
      rw [ieRes_bad s2 s3 s3.size s1.toList _ _ ⟨v, h1, by simpa using h2, by simpa using h3⟩] at h
      exact absurd h (by simp)
    · simp only [hlt, if_false] at h
      rw [← Array.forIn_toList, ie_forIn s1 s3 s3.size _ (fun _ _ _ => rfl)] at h
      simp only [pure_bind] at h
      rw [ieRes_bad s1 s3 s3.size s2.toList _ _ ⟨v, h2, by simpa using h1, by simpa using h3⟩] at h
      exact absurd h (by simp)

/-- [S] (a) `inter_equal(s1, s2, s3)` for duplicate-free sets with `s3 ⊆ s1`, `s3 ⊆ s2` answers `false`
IFF the two sets have a common element outside `s3` -/
theorem interEqual_false_iff {s1 s2 s3 : VSet} (h1 : s1.toList.Nodup) (h2 : s2.toList.Nodup)
    (h3 : s3.toList.Nodup) (sub1 : ∀ v ∈ s3.toList, v ∈ s1.toList)
    (sub2 : ∀ v ∈ s3.toList, v ∈ s2.toList) :
    interEqual s1 s2 s3 = false ↔ ∃ v, v ∈ s1.toList ∧ v ∈ s2.toList ∧ v ∉ s3.toList := by
  constructor
  · intro h
    by_contra hno
    have : interEqual s1 s2 s3 = true := by
      refine interEqual_true h1 h2 h3 (fun v => ⟨fun hv => ⟨sub1 v hv, sub2 v hv⟩, fun hv => ?_⟩)
      by_contra hv3
      exact hno ⟨v, hv.1, hv.2, hv3⟩
    rw [h] at this
    exact absurd this (by simp)
  · rintro ⟨v, hv1, hv2, hv3⟩
    cases h : interEqual s1 s2 s3 with
    | false => rfl
    | true => exact absurd (interEqual_sub h v hv1 hv2) hv3

/-! ## (c) the depth-first search is complete -/

/-- every visited vertex outside `X` (the recursion stack) has all its listed neighbours visited -/
def Closed (H : HMap (Array Nat)) (X : Nat → Prop) (vis : HMap Bool) : Prop :=
  ∀ x, vis.get? x = some true → ¬ X x → ∀ y, HStep H x y → vis.get? y = some true

/-- what is put into the component was not visited before and is visited afterwards -/
def Fresh (s s' : VSet × HMap Bool) : Prop :=
  ∀ x ∈ s'.1.toList, x ∈ s.1.toList ∨ (s.2.get? x ≠ some true ∧ s'.2.get? x = some true)

/-- [S] nothing new is trivially fresh -/
theorem Fresh.refl (s : VSet × HMap Bool) : Fresh s s := fun _ h => Or.inl h

/-- [S] freshness composes along searches that only add marks -/
theorem Fresh.trans {s s' s'' : VSet × HMap Bool} (h : Fresh s s') (h' : Fresh s' s'')
    (m : ∀ k, s.2.get? k = some true → s'.2.get? k = some true)
    (m' : ∀ k, s'.2.get? k = some true → s''.2.get? k = some true) : Fresh s s'' := by
  intro x hx
  rcases h' x hx with h1 | ⟨h1, h2⟩
  · rcases h x h1 with h3 | ⟨h3, h4⟩
    · exact Or.inl h3
    · exact Or.inr ⟨h3, m' x h4⟩
  · exact Or.inr ⟨fun hc => h1 (m x hc), h2⟩

/-- [S] (c) **THE DEPTH-FIRST SEARCH IS COMPLETE**: as `dfs_ok`, and moreover everything put into the
component was unvisited before and is visited afterwards, and for every set `X` of vertices: if
before the call every visited vertex outside `X` had all its neighbours visited, the same holds after
the call (so after a top-level call the visited set is closed under listed neighbours) -/
theorem dfs_exact {K : List Nat} {H : HMap (Array Nat)}
    (hH : ∀ k, H.containsKey k = true ↔ k ∈ K)
    (hE : ∀ a nb, H.get? a = some nb → ∀ b ∈ nb.toList, b ∈ K) :
    ∀ (fuel : Nat) (comp : VSet) (v : Nat) (vis : HMap Bool), v ∈ K →
      (∀ k, vis.containsKey k = true ↔ k ∈ K) → unv K vis ≤ fuel → vis.get? v ≠ some true →
      ∃ s', dfsHashtable fuel comp v vis H = .ok s' ∧ DfsRel K H v (comp, vis) s' ∧
        s'.2.get? v = some true ∧ Fresh (comp, vis) s' ∧
        ∀ X : Nat → Prop, Closed H X vis → Closed H X s'.2 := by
  intro fuel
  induction fuel with
  | zero =>
    intro comp v vis hv _ hf hu
    have := unv_pos hv hu
    omega
  | succ fuel ih =>
    intro comp v vis hv hk hf hu
    obtain ⟨nbrs, hn⟩ := (containsKey_iff H v).1 ((hH v).2 hv)
    rw [dfsHashtable_succ, getP_some hn]
    simp only [bind, Except.bind]
    -- the loop over the neighbours
    have loop : ∀ (l : List Nat), (∀ n ∈ l, n ∈ K ∧ HStep H v n) → ∀ acc : VSet × HMap Bool,
        (∀ k, acc.2.containsKey k = true ↔ k ∈ K) → unv K acc.2 ≤ fuel →
        ∃ s', l.foldlM (dfsStep fuel H) acc = .ok s' ∧ DfsRel K H v acc s' ∧ Fresh acc s' ∧
          (∀ X : Nat → Prop, Closed H X acc.2 → Closed H X s'.2) ∧
          (∀ n ∈ l, s'.2.get? n = some true) := by
      intro l
      induction l with
      | nil =>
        intro _ acc hka _
        exact ⟨acc, rfl, DfsRel.refl hka, Fresh.refl acc, fun _ h => h, by simp⟩
      | cons n l ihl =>
        intro hl acc hka hfa
        have hn' := hl n (by simp)
        obtain ⟨b, hb⟩ := (containsKey_iff acc.2 n).1 ((hka n).2 hn'.1)
        have hstep : ∃ s1, dfsStep fuel H acc n = .ok s1 ∧ DfsRel K H v acc s1 ∧ Fresh acc s1 ∧
            (∀ X : Nat → Prop, Closed H X acc.2 → Closed H X s1.2) ∧
            s1.2.get? n = some true := by
          unfold dfsStep
          rw [getP_some hb]
          simp only [bind, Except.bind]
          cases b with
          | true => exact ⟨acc, rfl, DfsRel.refl hka, Fresh.refl acc, fun _ h => h, hb⟩
          | false =>
            obtain ⟨s1, e1, r1, t1, f1, c1⟩ := ih acc.1 n acc.2 hn'.1 hka hfa (by rw [hb]; simp)
            exact ⟨s1, by simpa using e1, r1.lift hn'.2, f1, c1, t1⟩
        obtain ⟨s1, e1, r1, f1, c1, t1⟩ := hstep
        obtain ⟨s2, e2, r2, f2, c2, t2⟩ := ihl (fun m hm => hl m (by simp [hm])) s1 r1.keys
          (Nat.le_trans (unv_mono r1.mono) hfa)
        refine ⟨s2, ?_, r1.trans r2, f1.trans f2 r1.mono r2.mono, fun X h => c2 X (c1 X h), ?_⟩
        · rw [List.foldlM_cons, e1]
          exact e2
        · intro m hm
          rcases List.mem_cons.1 hm with rfl | hm
          · exact r2.mono _ t1
          · exact t2 m hm
    have r0 : DfsRel K H v (comp, vis) (comp.insert v, vis.insert v true) := by
      constructor
      · intro k
        simp only [containsKey_insert]
        by_cases e : k = v
        · simp [e, hv]
        · simp [e, hk k]
      · intro k hk'
        simp only [get?_insert]
        by_cases e : k = v
        · simp [e]
        · simpa [e] using hk'
      · intro x hx
        exact (VSet.mem_insert _ _ _).2 (Or.inl hx)
      · intro x hx
        simp only [get?_insert] at hx
        by_cases e : x = v
        · exact Or.inr ((VSet.mem_insert _ _ _).2 (Or.inr e))
        · simp only [e, if_false] at hx
          exact Or.inl hx
      · intro x hx
        rcases (VSet.mem_insert _ _ _).1 hx with h | h
        · exact Or.inl h
        · exact Or.inr (h ▸ Relation.ReflTransGen.refl)
    have f0 : Fresh (comp, vis) (comp.insert v, vis.insert v true) := by
      intro x hx
      rcases (VSet.mem_insert _ _ _).1 hx with h | h
      · exact Or.inl h
      · refine Or.inr ⟨h ▸ hu, ?_⟩
        simp [get?_insert, h]
    obtain ⟨s', e', r', f', c', t'⟩ := loop nbrs.toList
      (fun n hn' => ⟨hE v nbrs hn n hn', ⟨nbrs, hn, hn'⟩⟩) _ r0.keys
      (by have := unv_insert_lt hv hu; simp only; omega)
    have tv : s'.2.get? v = some true := r'.mono v (by simp [get?_insert])
    refine ⟨s', e', r0.trans r', tv, f0.trans f' r0.mono r'.mono, ?_⟩
    intro X hX
    -- with `v` on the stack the invariant survives the marking of `v` and the loop
    have h1 : Closed H (fun x => X x ∨ x = v) (vis.insert v true) := by
      intro x hx hnx y hxy
      have hxv : x ≠ v := fun e => hnx (Or.inr e)
      have hx' : vis.get? x = some true := by
        simpa [get?_insert, hxv] using hx
      exact r0.mono y (hX x hx' (fun h => hnx (Or.inl h)) y hxy)
    have h2 := c' _ h1
    intro x hx hnx y hxy
    by_cases e : x = v
    · subst e
      obtain ⟨nb, g1, g2⟩ := hxy
      rw [hn] at g1
      cases g1
      exact t' y g2
    · exact h2 x hx (fun h => h.elim hnx e) y hxy

/-- [S] (c) **`find_components` IS COMPLETE**: as `findComponents_ok`, and when the table is
symmetric every component is closed under listed neighbours -/
theorem findComponents_closed {cliqueInd : Array Nat} {H : HMap (Array Nat)}
    (hH : ∀ k, H.containsKey k = true ↔ k ∈ cliqueInd.toList)
    (hE : ∀ a nb, H.get? a = some nb → ∀ b ∈ nb.toList, b ∈ cliqueInd.toList)
    (hsym : ∀ x y, HStep H x y → HStep H y x) :
    ∃ comps, findComponents H cliqueInd = .ok comps ∧ CompGood cliqueInd.toList H comps ∧
      ∀ C ∈ comps.toList, ∀ x ∈ C.toList, ∀ y, HStep H x y → y ∈ C.toList := by
  obtain ⟨comps0, e0, g0⟩ := findComponents_ok hH hE
  obtain ⟨vis, e1, k1, f1⟩ := forIn_inv cliqueInd.toList fcInit
    (fun pre vis => (∀ k, vis.containsKey k = true ↔ k ∈ pre) ∧ ∀ k, vis.get? k ≠ some true) (by
      intro pre a post _ vis hv
      refine ⟨vis.insert a false, rfl, ?_, ?_⟩
      · intro k
        rw [containsKey_insert, List.mem_append]
        by_cases e : k = a
        · simp [e]
        · simp [e, hv.1 k]
      · intro k
        rw [get?_insert]
        by_cases e : k = a
        · simp [e]
        · simpa [e] using hv.2 k) (HMap.empty H.slots.size) (by
      constructor
      · intro k; rw [containsKey_none (get?_empty _ _)]; simp
      · intro k; rw [get?_empty]; simp)
  obtain ⟨st, e2, k2, c2, r2⟩ := forIn_inv' cliqueInd.toList (fcStep H cliqueInd.size)
    (fun st => (∀ k, st.1.containsKey k = true ↔ k ∈ cliqueInd.toList) ∧
      Closed H (fun _ => False) st.1 ∧
      (∀ C ∈ st.2.toList, ∀ x ∈ C.toList, ∀ y, HStep H x y → y ∈ C.toList)) (by
      intro v hv st ⟨hk, hc, hr⟩
      obtain ⟨b, hb⟩ := (containsKey_iff st.1 v).1 ((hk v).2 hv)
      unfold fcStep
      rw [getP_some hb]
      simp only [bind, Except.bind]
      cases b with
      | true => exact ⟨st, rfl, hk, hc, hr⟩
      | false =>
        have hfuel : unv cliqueInd.toList st.1 ≤ cliqueInd.size + 1 := by
          unfold unv
          have := List.countP_le_length (p := fun k => st.1.get? k != some true)
            (l := cliqueInd.toList)
          simp only [Array.length_toList] at this
          omega
        obtain ⟨s', e', r', _, f', c'⟩ := dfs_exact hH hE (cliqueInd.size + 1) #[] v st.1 hv hk hfuel
          (by rw [hb]; simp)
        have hc' := c' _ hc
        refine ⟨(s'.2, st.2.push s'.1), ?_, r'.keys, hc', ?_⟩
        · simp only [Bool.not_false, if_true, e']
          rfl
        · intro C hC
          simp only [Array.toList_push, List.mem_append, List.mem_singleton] at hC
          rcases hC with hC | hC
          · exact hr C hC
          · subst hC
            intro x hx y hxy
            rcases f' x hx with h | ⟨h1, h2⟩
            · simp at h
            · have hy : s'.2.get? y = some true := hc' x h2 (fun h => h) y hxy
              rcases r'.cover y hy with h | h
              · exact absurd (hc y h (fun h => h) x (hsym x y hxy)) h1
              · exact h) (vis, #[]) ⟨k1, fun x hx => absurd hx (f1 x), by simp⟩
  have hrun : findComponents H cliqueInd = .ok st.2 := by
    rw [findComponents_eq_forIn, e1]
    simp only [bind, Except.bind]
    rw [e2]
    rfl
  have hEq : comps0 = st.2 := Except.ok.inj (e0.symm.trans hrun)
  subst hEq
  exact ⟨_, e0, g0, r2⟩

/-- [S] a component closed under listed neighbours is closed under reachability -/
theorem closed_reach {H : HMap (Array Nat)} {C : VSet}
    (hC : ∀ x ∈ C.toList, ∀ y, HStep H x y → y ∈ C.toList) {x y : Nat} (hx : x ∈ C.toList)
    (h : HReach H x y) : y ∈ C.toList := by
  induction h with
  | refl => exact hx
  | tail _ hs ih => exact hC _ ih _ hs

/-! ## (d) `is_unconnected` -/

/-- [S] reachability along a symmetric table is symmetric -/
theorem hreach_symm {H : HMap (Array Nat)} (hsym : ∀ x y, HStep H x y → HStep H y x) {x y : Nat}
    (h : HReach H x y) : HReach H y x := by
  induction h with
  | refl => exact .refl
  | tail _ hbc ih => exact Relation.ReflTransGen.head (hsym _ _ hbc) ih

/-- [S] (d) `is_unconnected` as `isUnconnected_ok`, and it answers `true` ONLY IF some component
(the first one that contains the first clique) contains the first clique but not the second -/
theorem isUnconnected_exact {pair : Nat × Nat} {comps : Array VSet}
    (h : ∃ C ∈ comps.toList, pair.1 ∈ C.toList) :
    ∃ b, isUnconnected pair comps = .ok b ∧
      ((∀ C ∈ comps.toList, pair.1 ∈ C.toList → pair.2 ∉ C.toList) → b = true) ∧
      (b = true → ∃ C ∈ comps.toList, pair.1 ∈ C.toList ∧ pair.2 ∉ C.toList) := by
  obtain ⟨b0, e0, g0⟩ := isUnconnected_ok h
  refine ⟨b0, e0, g0, ?_⟩
  intro hb
  unfold isUnconnected at e0
  cases hf : comps.findIdx? (fun x => x.contains pair.1) with
  | none =>
    rw [hf] at e0
    exact absurd e0 (by simp [throw, throwThe, MonadExceptOf.throw])
  | some ci =>
    rw [hf] at e0
    obtain ⟨hlt, hp, _⟩ := Array.findIdx?_eq_some_iff_getElem.1 hf
    simp only [Kr.getE_ok comps ci _ #[] hlt, bind, Except.bind, pure, Except.pure] at e0
    have hmem : comps.getD ci #[] ∈ comps.toList := getD_mem_toList comps ci #[] hlt
    have h1 : pair.1 ∈ (comps.getD ci #[]).toList := by
      simp only [Array.getD, hlt, dite_true]
      simpa using hp
    refine ⟨_, hmem, h1, ?_⟩
    have e := Except.ok.inj e0
    rw [hb] at e
    simpa using e

/-- [S] (c)+(d) with components that have a root and are closed under the listed neighbours of a
symmetric table, `is_unconnected` answers `true` IFF the second clique is not reachable from the
first -/
theorem isUnconnected_iff {K : List Nat} {H : HMap (Array Nat)} {comps : Array VSet}
    (hsym : ∀ x y, HStep H x y → HStep H y x) (gC : CompGood K H comps)
    (hcl : ∀ C ∈ comps.toList, ∀ x ∈ C.toList, ∀ y, HStep H x y → y ∈ C.toList)
    {a : Nat} (ha : a ∈ K) (b : Nat) :
    ∃ u, isUnconnected (a, b) comps = .ok u ∧ (u = true ↔ ¬ HReach H a b) := by
  obtain ⟨u, e, g1, g2⟩ := isUnconnected_exact (pair := (a, b)) (comps := comps) (gC.cover a ha)
  refine ⟨u, e, ?_, ?_⟩
  · intro hu hr
    obtain ⟨C, hC, h1, h2⟩ := g2 hu
    exact h2 (closed_reach (hcl C hC) h1 hr)
  · intro hn
    apply g1
    intro C hC h1 h2
    obtain ⟨r, hr⟩ := gC.root C hC
    exact hn ((hreach_symm hsym (hr a h1)).trans (hr b h2))

/-! ## (e) the emitted pairs -/

/-- [S] the emitted pairs after one more pair -/
theorem hasPair_push {st : Array Nat × Array Nat} (hs : st.1.size = st.2.size) (r c R C : Nat) :
    HasPair R C (st.1.push r, st.2.push c) ↔ HasPair R C st ∨ (R = r ∧ C = c) := by
  constructor
  · rintro ⟨k, h1, h2, h3, h4⟩
    simp only [Array.size_push] at h1 h2
    simp only at h3 h4
    by_cases e : k < st.1.size
    · rw [getD_push_lt _ _ _ _ e] at h3
      rw [getD_push_lt _ _ _ _ (hs ▸ e)] at h4
      exact .inl ⟨k, e, hs ▸ e, h3, h4⟩
    · have : k = st.1.size := by omega
      subst this
      rw [getD_push_eq] at h3
      rw [hs, getD_push_eq] at h4
      exact .inr ⟨h3.symm, h4.symm⟩
  · rintro (⟨k, h1, h2, h3, h4⟩ | ⟨rfl, rfl⟩)
    · refine ⟨k, by simp; omega, by simp; omega, ?_, ?_⟩
      · simp only; rw [getD_push_lt _ _ _ _ h1]; exact h3
      · simp only; rw [getD_push_lt _ _ _ _ h2]; exact h4
    · refine ⟨st.1.size, by simp, by simp [hs], ?_, ?_⟩
      · simp only; rw [getD_push_eq]
      · simp only; rw [hs, getD_push_eq]

/-- [S] (e) one pass of the innermost loop of `compute_reduced_clique_graph`, exactly: the pair is
emitted IFF `is_unconnected` answers `true`, nothing else changes -/
theorem rcInner_exact {N : Nat} {ci : Array Nat} {comps : Array VSet}
    (hinc : ∀ i j, i < j → j < ci.size → ci.getD i 0 < ci.getD j 0)
    (hlt : ∀ i, i < ci.size → ci.getD i 0 < N)
    {i j : Nat} (hij : i < j) (hj : j < ci.size) {Q : Prop}
    (hQ : ∃ u, isUnconnected (ci.getD i 0, ci.getD j 0) comps = .ok u ∧ (u = true ↔ Q))
    (st : Array Nat × Array Nat) (hst : PairsOk N st) :
    ∃ st', rcInner ci comps i j st = .ok (.yield st') ∧ PairsOk N st' ∧
      ∀ R C, HasPair R C st' ↔ HasPair R C st ∨
        (Q ∧ R = max (ci.getD i 0) (ci.getD j 0) ∧ C = min (ci.getD i 0) (ci.getD j 0)) := by
  have hi : i < ci.size := Nat.lt_trans hij hj
  obtain ⟨u, hu, hq⟩ := hQ
  unfold rcInner
  simp only [Kr.getE_ok ci i _ 0 hi, Kr.getE_ok ci j _ 0 hj, bind, Except.bind]
  rw [hu]
  cases u with
  | true =>
    have hp := StRel.push (N := N) st (hinc i j hij hj) (hlt j hj)
    refine ⟨_, rfl, hp.1.1 hst, ?_⟩
    intro R C
    rw [hasPair_push hst.1]
    have : Q := hq.1 rfl
    simp [this]
  | false =>
    refine ⟨st, rfl, hst, ?_⟩
    intro R C
    have : ¬ Q := fun h => absurd (hq.2 h) (by simp)
    simp [this]

/-- [S] (e) one pass of the loop over `i` of `compute_reduced_clique_graph`, exactly -/
theorem rcOuter_exact {N : Nat} {ci : Array Nat} {comps : Array VSet}
    (hinc : ∀ i j, i < j → j < ci.size → ci.getD i 0 < ci.getD j 0)
    (hlt : ∀ i, i < ci.size → ci.getD i 0 < N) {Q : Nat → Nat → Prop}
    (hQ : ∀ i j, i < j → j < ci.size →
      ∃ u, isUnconnected (ci.getD i 0, ci.getD j 0) comps = .ok u ∧ (u = true ↔ Q i j))
    (i : Nat) (st : Array Nat × Array Nat) (hst : PairsOk N st) :
    ∃ st', rcOuter ci comps i st = .ok (.yield st') ∧ PairsOk N st' ∧
      ∀ R C, HasPair R C st' ↔ HasPair R C st ∨ ∃ j, i < j ∧ j < ci.size ∧
        Q i j ∧ R = max (ci.getD i 0) (ci.getD j 0) ∧ C = min (ci.getD i 0) (ci.getD j 0) := by
  obtain ⟨s', e, r, hp⟩ := forIn_inv (List.range' (i + 1) (ci.size - (i + 1))) (rcInner ci comps i)
    (fun pre s => PairsOk N s ∧ ∀ R C, HasPair R C s ↔ HasPair R C st ∨ ∃ j, j ∈ pre ∧
        Q i j ∧ R = max (ci.getD i 0) (ci.getD j 0) ∧ C = min (ci.getD i 0) (ci.getD j 0)) (by
      intro pre j post hl s ⟨hr, hp⟩
      have hj : j ∈ List.range' (i + 1) (ci.size - (i + 1)) := by rw [hl]; simp
      have hj' := List.mem_range'_1.1 hj
      obtain ⟨s', e, r, h⟩ := rcInner_exact hinc hlt (i := i) (j := j) (by omega) (by omega)
        (hQ i j (by omega) (by omega)) s hr
      refine ⟨s', e, r, ?_⟩
      intro R C
      rw [h R C, hp R C]
      constructor
      · rintro ((h1 | ⟨j', hm, h2⟩) | h3)
        · exact .inl h1
        · exact .inr ⟨j', List.mem_append_left _ hm, h2⟩
        · exact .inr ⟨j, by simp, h3⟩
      · rintro (h1 | ⟨j', hm, h2⟩)
        · exact .inl (.inl h1)
        · rcases List.mem_append.1 hm with hm | hm
          · exact .inl (.inr ⟨j', hm, h2⟩)
          · have : j' = j := by simpa using hm
            subst this
            exact .inr h2) st ⟨hst, by simp⟩
  refine ⟨s', ?_, r, ?_⟩
  · unfold rcOuter
    have : (st.1, st.2) = st := rfl
    rw [this, e]
    rfl
  · intro R C
    rw [hp R C]
    constructor
    · rintro (h | ⟨j, hm, h⟩)
      · exact .inl h
      · have := List.mem_range'_1.1 hm
        exact .inr ⟨j, by omega, by omega, h⟩
    · rintro (h | ⟨j, h1, h2, h⟩)
      · exact .inl h
      · exact .inr ⟨j, List.mem_range'_1.2 ⟨by omega, by omega⟩, h⟩

/-- [S] (e) the double loop over the pairs of `compute_reduced_clique_graph`, exactly -/
theorem rcPairs_exact {N : Nat} {ci : Array Nat} {comps : Array VSet}
    (hinc : ∀ i j, i < j → j < ci.size → ci.getD i 0 < ci.getD j 0)
    (hlt : ∀ i, i < ci.size → ci.getD i 0 < N) {Q : Nat → Nat → Prop}
    (hQ : ∀ i j, i < j → j < ci.size →
      ∃ u, isUnconnected (ci.getD i 0, ci.getD j 0) comps = .ok u ∧ (u = true ↔ Q i j))
    (st : Array Nat × Array Nat) (hst : PairsOk N st) :
    ∃ st', forIn (List.range' 0 ci.size) st (rcOuter ci comps) = .ok st' ∧ PairsOk N st' ∧
      ∀ R C, HasPair R C st' ↔ HasPair R C st ∨ ∃ i j, i < j ∧ j < ci.size ∧
        Q i j ∧ R = max (ci.getD i 0) (ci.getD j 0) ∧ C = min (ci.getD i 0) (ci.getD j 0) := by
  obtain ⟨s', e, r, hp⟩ := forIn_inv (List.range' 0 ci.size) (rcOuter ci comps)
    (fun pre s => PairsOk N s ∧ ∀ R C, HasPair R C s ↔ HasPair R C st ∨ ∃ i j, i ∈ pre ∧ i < j ∧
        j < ci.size ∧ Q i j ∧ R = max (ci.getD i 0) (ci.getD j 0) ∧
        C = min (ci.getD i 0) (ci.getD j 0)) (by
      intro pre i post hl s ⟨hr, hp⟩
      obtain ⟨s', e, r, h⟩ := rcOuter_exact hinc hlt hQ i s hr
      refine ⟨s', e, r, ?_⟩
      intro R C
      rw [h R C, hp R C]
      constructor
      · rintro ((h1 | ⟨i', j, hm, h2⟩) | ⟨j, h3⟩)
        · exact .inl h1
        · exact .inr ⟨i', j, List.mem_append_left _ hm, h2⟩
        · exact .inr ⟨i, j, by simp, h3⟩
      · rintro (h1 | ⟨i', j, hm, h2⟩)
        · exact .inl (.inl h1)
        · rcases List.mem_append.1 hm with hm | hm
          · exact .inl (.inr ⟨i', j, hm, h2⟩)
          · have : i' = i := by simpa using hm
            subst this
            exact .inr ⟨j, h2⟩) st ⟨hst, by simp⟩
  refine ⟨s', e, r, ?_⟩
  intro R C
  rw [hp R C]
  constructor
  · rintro (h | ⟨i, j, _, h⟩)
    · exact .inl h
    · exact .inr ⟨i, j, h⟩
  · rintro (h | ⟨i, j, h1, h2, h⟩)
    · exact .inl h
    · exact .inr ⟨i, j, List.mem_range'_1.2 ⟨by omega, by omega⟩, h1, h2, h⟩

/-! ## one separator, all separators -/

/-- A LINK AT LEVEL `S`: `p ≠ q` are stored cliques that contain the separator `S` (they pass
`is_subset`) and have a common element outside `S` -/
def Lk (snode : Array VSet) (S : VSet) (p q : Nat) : Prop :=
  p ∈ (sepCliques snode S).toList ∧ q ∈ (sepCliques snode S).toList ∧ p ≠ q ∧
    ∃ v, v ∈ (snode.getD p #[]).toList ∧ v ∈ (snode.getD q #[]).toList ∧ v ∉ S.toList

/-- the pair `(R, C)` is emitted for the separator `S`: `R = max a b`, `C = min a b` for two
different cliques `a`, `b` containing `S` that no chain of links at level `S` joins -/
def EmitS (snode : Array VSet) (S : VSet) (R C : Nat) : Prop :=
  ∃ a b, a ∈ (sepCliques snode S).toList ∧ b ∈ (sepCliques snode S).toList ∧ a ≠ b ∧
    R = max a b ∧ C = min a b ∧ ¬ Relation.ReflTransGen (Lk snode S) a b

/-- [S] links are symmetric -/
theorem Lk.symm {snode : Array VSet} {S : VSet} {p q : Nat} (h : Lk snode S p q) :
    Lk snode S q p := by
  obtain ⟨h1, h2, h3, v, h4, h5, h6⟩ := h
  exact ⟨h2, h1, fun e => h3 e.symm, v, h5, h4, h6⟩

/-- [S] chains of links can be reversed -/
theorem lk_rtg_symm {snode : Array VSet} {S : VSet} {x y : Nat}
    (h : Relation.ReflTransGen (Lk snode S) x y) : Relation.ReflTransGen (Lk snode S) y x := by
  induction h with
  | refl => exact .refl
  | tail _ hbc ih => exact Relation.ReflTransGen.head hbc.symm ih

/-- [S] a clique selected for `S` contains `S` -/
theorem sepCliques_sub {snode : Array VSet} {S : VSet} {a : Nat}
    (ha : a ∈ (sepCliques snode S).toList) : ∀ v ∈ S.toList, v ∈ (snode.getD a #[]).toList :=
  ((isSubset_iff _ _).1 ((mem_sepCliques snode S a).1 ha).2).2

/-- [S] (a)+(b) THE SEPARATOR GRAPH IS THE LINK RELATION: for duplicate-free clique sets and a
duplicate-free separator, `y` is listed as a neighbour of `x` in the table of `separator_graph` IFF
`x`, `y` are different cliques containing `S` with a common element outside `S` -/
theorem hstep_iff_lk {snode : Array VSet} {S : VSet}
    (hnd : ∀ i, (snode.getD i #[]).toList.Nodup) (hS : S.toList.Nodup) {H : HMap (Array Nat)}
    (hH : ∀ x y, HStep H x y ↔ ∃ i j, i < j ∧ j < (sepCliques snode S).size ∧
      SGE (sepCliques snode S) S snode i j x y) (x y : Nat) :
    HStep H x y ↔ Lk snode S x y := by
  have hinc : ∀ i j, i < j → j < (sepCliques snode S).size →
      (sepCliques snode S).getD i 0 < (sepCliques snode S).getD j 0 :=
    pairwise_getD (positionAll_pairwise snode (fun x => S.isSubset x))
  have hie : ∀ p q, p ∈ (sepCliques snode S).toList → q ∈ (sepCliques snode S).toList →
      (interEqual (snode.getD p #[]) (snode.getD q #[]) S = false ↔
        ∃ v, v ∈ (snode.getD p #[]).toList ∧ v ∈ (snode.getD q #[]).toList ∧ v ∉ S.toList) :=
    fun p q hp hq => interEqual_false_iff (hnd p) (hnd q) hS (sepCliques_sub hp) (sepCliques_sub hq)
  rw [hH x y]
  constructor
  · rintro ⟨i, j, hij, hj, hie', hor⟩
    have hi : i < (sepCliques snode S).size := Nat.lt_trans hij hj
    have mi := getD_mem_toList (sepCliques snode S) i 0 hi
    have mj := getD_mem_toList (sepCliques snode S) j 0 hj
    have hne : (sepCliques snode S).getD i 0 ≠ (sepCliques snode S).getD j 0 := by
      have := hinc i j hij hj
      omega
    obtain ⟨v, h1, h2, h3⟩ := (hie _ _ mi mj).1 hie'
    rcases hor with ⟨rfl, rfl⟩ | ⟨rfl, rfl⟩
    · exact ⟨mi, mj, hne, v, h1, h2, h3⟩
    · exact ⟨mj, mi, fun e => hne e.symm, v, h2, h1, h3⟩
  · rintro ⟨hx, hy, hne, v, h1, h2, h3⟩
    obtain ⟨i, hi, ei⟩ := exists_getD_of_mem hx
    obtain ⟨j, hj, ej⟩ := exists_getD_of_mem hy
    rcases Nat.lt_trichotomy i j with hlt | heq | hgt
    · refine ⟨i, j, hlt, hj, ?_, .inl ⟨ei, ej⟩⟩
      rw [ei, ej]
      exact (hie x y hx hy).2 ⟨v, h1, h2, h3⟩
    · exact absurd (by rw [← ei, ← ej, heq]) hne
    · refine ⟨j, i, hgt, hi, ?_, .inr ⟨ej, ei⟩⟩
      rw [ei, ej]
      exact (hie y x hy hx).2 ⟨v, h2, h1, h3⟩

/-- [S] **ONE SEPARATOR of `compute_reduced_clique_graph`, EXACTLY** (duplicate-free clique sets and
separator): no panic, the state stays well formed, and the pairs present afterwards are the pairs
present before plus exactly the pairs `(max a b, min a b)` of different cliques `a`, `b` containing
`S` that no chain of links at level `S` joins -/
theorem rcSep_exact (snode : Array VSet) (S : VSet)
    (hnd : ∀ i, (snode.getD i #[]).toList.Nodup) (hS : S.toList.Nodup)
    (st : Array Nat × Array Nat) (hst : PairsOk snode.size st) :
    ∃ st', rcSep snode S st = .ok (.yield st') ∧ PairsOk snode.size st' ∧
      ∀ R C, HasPair R C st' ↔ HasPair R C st ∨ EmitS snode S R C := by
  have hlt : ∀ c ∈ (sepCliques snode S).toList, c < snode.size :=
    positionAll_lt snode (fun x => S.isSubset x)
  have hinc : ∀ i j, i < j → j < (sepCliques snode S).size →
      (sepCliques snode S).getD i 0 < (sepCliques snode S).getD j 0 :=
    pairwise_getD (positionAll_pairwise snode (fun x => S.isSubset x))
  obtain ⟨H, eH, gH, xH⟩ := separatorGraph_exact (ci := sepCliques snode S) (S := S) hlt
  have hlk := hstep_iff_lk hnd hS xH
  have hsym : ∀ x y, HStep H x y → HStep H y x :=
    fun x y h => (hlk y x).2 ((hlk x y).1 h).symm
  obtain ⟨comps, eC, gC, cC⟩ := findComponents_closed (cliqueInd := sepCliques snode S) gH.keys
    (fun a nb ha b hb => (gH.edges a nb ha b hb).2.1) hsym
  have hreach : ∀ x y, HReach H x y ↔ Relation.ReflTransGen (Lk snode S) x y := by
    intro x y
    constructor
    · intro h
      exact Relation.ReflTransGen.mono (fun a b h => (hlk a b).1 h) _ _ h
    · intro h
      exact Relation.ReflTransGen.mono (fun a b h => (hlk a b).2 h) _ _ h
  obtain ⟨st', e, r, hp⟩ := rcPairs_exact (N := snode.size) (ci := sepCliques snode S)
    (comps := comps) hinc
    (fun i hi => hlt _ (getD_mem_toList _ i 0 hi))
    (Q := fun i j => ¬ HReach H ((sepCliques snode S).getD i 0) ((sepCliques snode S).getD j 0))
    (fun i j hij hj => isUnconnected_iff hsym gC cC
      (getD_mem_toList (sepCliques snode S) i 0 (Nat.lt_trans hij hj)) _) st hst
  refine ⟨st', ?_, r, ?_⟩
  · have eH' : separatorGraph (positionAll snode fun x => S.isSubset x) S snode = .ok H := eH
    have eC' : findComponents H (positionAll snode fun x => S.isSubset x) = .ok comps := eC
    have e' : forIn (List.range' 0 (positionAll snode fun x => S.isSubset x).size) st
        (rcOuter (positionAll snode fun x => S.isSubset x) comps) = .ok st' := e
    unfold rcSep
    have : (st.1, st.2) = st := rfl
    rw [eH']
    simp only [bind, Except.bind]
    rw [eC']
    simp only [this, e']
    rfl
  · intro R C
    rw [hp R C]
    refine or_congr Iff.rfl ?_
    constructor
    · rintro ⟨i, j, hij, hj, hq, hR, hC⟩
      have hi : i < (sepCliques snode S).size := Nat.lt_trans hij hj
      refine ⟨_, _, getD_mem_toList _ i 0 hi, getD_mem_toList _ j 0 hj, ?_, hR, hC,
        fun h => hq ((hreach _ _).2 h)⟩
      have := hinc i j hij hj
      omega
    · rintro ⟨a, b, ha, hb, hne, hR, hC, hq⟩
      obtain ⟨i, hi, ei⟩ := exists_getD_of_mem ha
      obtain ⟨j, hj, ej⟩ := exists_getD_of_mem hb
      rcases Nat.lt_trichotomy i j with hlt' | heq | hgt
      · refine ⟨i, j, hlt', hj, ?_, by rw [ei, ej]; exact hR, by rw [ei, ej]; exact hC⟩
        rw [ei, ej]
        exact fun h => hq ((hreach _ _).1 h)
      · exact absurd (by rw [← ei, ← ej, heq]) hne
      · refine ⟨j, i, hgt, hi, ?_, by rw [ei, ej, Nat.max_comm]; exact hR,
          by rw [ei, ej, Nat.min_comm]; exact hC⟩
        rw [ei, ej]
        exact fun h => hq (lk_rtg_symm ((hreach _ _).1 h))

/-- [S] no pair has been emitted at the start -/
theorem hasPair_empty (R C : Nat) : ¬ HasPair R C ((#[] : Array Nat), (#[] : Array Nat)) := by
  rintro ⟨k, h, _⟩
  simp at h

/-- [S] `EmitS` for an unordered pair: the pair `(max a b, min a b)` of `a ≠ b` is emitted for `S` IFF
both cliques contain `S` and no chain of links at level `S` joins them -/
theorem emitS_iff (snode : Array VSet) (S : VSet) {a b : Nat} (hab : a ≠ b) :
    EmitS snode S (max a b) (min a b) ↔
      a ∈ (sepCliques snode S).toList ∧ b ∈ (sepCliques snode S).toList ∧
        ¬ Relation.ReflTransGen (Lk snode S) a b := by
  constructor
  · rintro ⟨a', b', ha', hb', _, hR, hC, hq⟩
    have : (a = a' ∧ b = b') ∨ (a = b' ∧ b = a') := by omega
    rcases this with ⟨rfl, rfl⟩ | ⟨rfl, rfl⟩
    · exact ⟨ha', hb', hq⟩
    · exact ⟨hb', ha', fun h => hq (lk_rtg_symm h)⟩
  · rintro ⟨ha, hb, hq⟩
    exact ⟨a, b, ha, hb, hab, rfl, rfl, hq⟩

end CGR

open CGR in
/-- [S] **`compute_reduced_clique_graph` COMPUTES EXACTLY THE REDUCED CLIQUE GRAPH** (code level): for
duplicate-free clique sets and separators it does not panic, `rows` and `cols` are equally long, and
a pair `(R, C)` is present in `(rows, cols)` IFF for some listed separator `S` it is
`(max a b, min a b)` for two different cliques `a`, `b` that contain `S` and that no chain of links at
level `S` (cliques containing `S`, consecutive ones with a common element outside `S`) joins -/
theorem reduced_exact (separators cliques : Array VSet)
    (hnd : ∀ i, (cliques.getD i #[]).toList.Nodup)
    (hsnd : ∀ S ∈ separators.toList, S.toList.Nodup) :
    ∃ seps' rows cols, computeReducedCliqueGraph separators cliques = .ok (seps', rows, cols) ∧
      rows.size = cols.size ∧
      ∀ R C, (∃ k, k < rows.size ∧ rows.getD k 0 = R ∧ cols.getD k 0 = C) ↔
        ∃ S ∈ separators.toList, EmitS cliques S R C := by
  have hmem : ∀ S, S ∈ sortedSeps separators ↔ S ∈ separators.toList := by
    intro S
    unfold sortedSeps
    exact List.mem_mergeSort
  rw [computeReducedCliqueGraph_eq_forIn]
  obtain ⟨st, e, hok, hhas⟩ := forIn_inv (sortedSeps separators) (rcSep cliques)
    (fun pre st => PairsOk cliques.size st ∧
      ∀ R C, HasPair R C st ↔ ∃ S ∈ pre, EmitS cliques S R C) (by
      intro pre T post hl s ⟨hs, hh⟩
      have hT : T.toList.Nodup := hsnd T ((hmem T).1 (by rw [hl]; simp))
      obtain ⟨s', e, r, hp⟩ := rcSep_exact cliques T hnd hT s hs
      refine ⟨s', e, r, ?_⟩
      intro R C
      rw [hp R C, hh R C]
      constructor
      · rintro (⟨S, hS, h⟩ | h)
        · exact ⟨S, List.mem_append_left _ hS, h⟩
        · exact ⟨T, by simp, h⟩
      · rintro ⟨S, hS, h⟩
        rcases List.mem_append.1 hS with hm | hm
        · exact .inl ⟨S, hm, h⟩
        · have : S = T := by simpa using hm
          subst this
          exact .inr h) _ ⟨PairsOk.empty cliques.size, fun R C =>
        ⟨fun h => absurd h (hasPair_empty R C), fun ⟨_, h, _⟩ => by simp at h⟩⟩
  refine ⟨(sortedSeps separators).toArray, st.1, st.2, by rw [e]; rfl, hok.1, ?_⟩
  intro R C
  constructor
  · rintro ⟨k, h1, h2, h3⟩
    obtain ⟨S, hS, h⟩ := (hhas R C).1 ⟨k, h1, hok.1 ▸ h1, h2, h3⟩
    exact ⟨S, (hmem S).1 hS, h⟩
  · rintro ⟨S, hS, h⟩
    obtain ⟨k, h1, _, h2, h3⟩ := (hhas R C).2 ⟨S, (hmem S).2 hS, h⟩
    exact ⟨k, h1, h2, h3⟩

open CGR in
/-- non-vacuity of `reduced_exact`: the path `0 - 1 - 2` with the cliques `{0,1}`, `{1,2}` and the
separator `{1}`; the hypotheses hold, and the characterisation shows that the pair `(1, 0)` is
returned (the two cliques meet in `{1}` exactly, so there is no link at level `{1}`) -/
example : ∃ seps' rows cols,
    computeReducedCliqueGraph #[#[1]] #[#[0, 1], #[1, 2]] = .ok (seps', rows, cols) ∧
    ∃ k, k < rows.size ∧ rows.getD k 0 = 1 ∧ cols.getD k 0 = 0 := by
  obtain ⟨seps', rows, cols, h, _, hchar⟩ := reduced_exact #[#[1]] #[#[0, 1], #[1, 2]]
    (by
      intro i
      by_cases h0 : i = 0
      · subst h0; simp
      · by_cases h1 : i = 1
        · subst h1; simp
        · have : (#[#[0, 1], #[1, 2]] : Array VSet).getD i #[] = #[] := by
            simp [Array.getD]; omega
          rw [this]; simp)
    (by simp)
  refine ⟨seps', rows, cols, h, (hchar 1 0).2 ⟨#[1], by simp, 0, 1, ?_, ?_, by omega, rfl, rfl, ?_⟩⟩
  · exact (mem_sepCliques _ _ 0).2 ⟨by simp, (isSubset_iff _ _).2 ⟨by simp, by simp⟩⟩
  · exact (mem_sepCliques _ _ 1).2 ⟨by simp, (isSubset_iff _ _).2 ⟨by simp, by simp⟩⟩
  · intro hc
    rcases Relation.ReflTransGen.cases_head hc with h0 | ⟨c, hl, _⟩
    · omega
    · obtain ⟨_, mc, hne, v, hv0, hvc, hvS⟩ := hl
      have hc2 : c < 2 := by simpa using ((mem_sepCliques _ _ c).1 mc).1
      have : c = 1 := by omega
      subst this
      simp at hv0 hvc hvS
      omega

end Clarabel.Chordal
