/-
  C05 (iv) "`KKTSolver::update` forgets" — part 4: `KKTSolver::update` on two objects.

  `Upd st K K'` ("`K'` is `K` up to what an `update` under the settings `st` rewrites"): same structural
  data; the solver's own KKT values agree OFF the `Hs` / sparse-cone positions (`WK`), the engine's
  permuted copy agrees OFF the slots behind these positions and — when static regularisation is on —
  behind the diagonal (`WL`); `L`, `D`, `D⁻¹`, the counters, `is_symbolic`, `Hsblocks`, the four work
  vectors and (static regularisation on) `diagonal_regularizer` may hold anything of the same lengths.

  `update_forgets`: for two objects related by `Upd st`, the left one satisfying C12's history
  invariant, and a cone list with at least as many sparse second-order cones as the object has
  expansion maps, `update(cones, st)` gives the same error, or the same flag and objects that differ in
  the content of the four work vectors only (`QB`).  This is hypothesis `QW` of
  `C05.full_solve_idempotent_finite` restricted to the cone lists and settings it is used with.
-/
import ClarabelProofs.Lemmas.KktQwRel

namespace Clarabel.Solver
open Clarabel Clarabel.Qdldl

set_option linter.unusedSectionVars false
set_option linter.unusedVariables false

variable {α : Type}

/-- number of sparse (expanded) second-order cones in a cone list -/
def nSp : List (ConeSt α) → Nat
  | [] => 0
  | .soc sc :: cs => (if sc.sparse.isSome then 1 else 0) + nSp cs
  | _ :: cs => nSp cs

section
variable [Add α] [Sub α] [Mul α] [Div α] [Neg α] [OfNat α 0] [OfNat α 1] [LT α] [DecidableLT α]
  [LE α] [DecidableLE α] [BEq α] [FloatLike α]

/-- the body of the sparse-cone loop of `KKTSolver::update` -/
def spStep (st : KktSolver α × Nat) (c : ConeSt α) : MErr (KktSolver α × Nat) :=
  match c with
  | .soc sc =>
    if sc.sparse.isSome then do
      let thismap ← getE st.1.map.sparse_maps st.2 "sparse_map_iter.next().unwrap()"
      let K ← st.1.updateSparseSoc thismap sc
      pure (K, st.2 + 1)
    else pure st
  | _ => pure st

theorem update_eq (K : KktSolver α) (cones : List (ConeSt α)) (st : LinSettings α) :
    K.update cones st = (do
      let hs ← getHs cones
      if hs.size != K.Hsblocks.size then throw (.panic "get_Hs: Hsblock range")
      let K1 ← ({ K with Hsblocks := Vec.negate hs } : KktSolver α).updateValues K.map.Hsblocks (Vec.negate hs)
      let r ← cones.foldlM spStep (K1, 0)
      r.1.regularizeAndRefactor st) := rfl

/-- the sparse-cone loop on two objects in lock-step -/
theorem spFold_qr {M : Kkt.LDLDataMap} {mpA : Array Nat} {DR : α → α → Prop} :
    ∀ (cones : List (ConeSt α)) {DK DL : Nat → Prop} {K K' : KktSolver α} (t : Nat),
      QR M mpA DR DK DL K K' →
      RelM (fun r r' => r.2 = r'.2 ∧ r.2 = t + nSp cones ∧
          QR M mpA DR (fun i => DK i ∨ sparseRange M.sparse_maps t r.2 i)
            (fun j => DL j ∨ slotsOfSet mpA (sparseRange M.sparse_maps t r.2) j) r.1 r'.1)
        (cones.foldlM spStep (K, t)) (cones.foldlM spStep (K', t))
  | [], DK, DL, K, K', t, h => by
    show _ ∧ _ ∧ _
    refine ⟨rfl, rfl, h.mono ?_ ?_⟩
    · rintro i (hi | ⟨s, h1, h2, _⟩)
      · exact hi
      · exact absurd h2 (by simp only [nSp]; omega)
    · rintro j (hj | ⟨i, ⟨s, h1, h2, _⟩, _⟩)
      · exact hj
      · exact absurd h2 (by simp only [nSp]; omega)
  | c :: cs, DK, DL, K, K', t, h => by
    simp only [List.foldlM_cons]
    cases c with
    | zero d =>
      refine (spFold_qr cs t h).mono ?_
      rintro r r' ⟨h1, h2, h3⟩
      exact ⟨h1, h2, h3⟩
    | nonneg Kn =>
      refine (spFold_qr cs t h).mono ?_
      rintro r r' ⟨h1, h2, h3⟩
      exact ⟨h1, h2, h3⟩
    | soc sc =>
      by_cases hsp : sc.sparse.isSome = true
      · have e : ∀ Ka : KktSolver α, spStep (Ka, t) (.soc sc) = (do
            let thismap ← getE Ka.map.sparse_maps t "sparse_map_iter.next().unwrap()"
            let K ← Ka.updateSparseSoc thismap sc
            pure (K, t + 1)) := by
          intro Ka
          simp only [spStep, hsp, if_true]
        rw [e K, e K', ← h.map, h.mapL]
        simp only [bind_assoc]
        refine RelM.bind_ok (RelM.refl_eq _) ?_
        intro mp _ hmp _ e2
        subst e2
        have hmp' := getE_ok_iff.mp hmp
        refine RelM.bind (h.updateSparseSoc mp sc) ?_
        intro K1 K1' h1
        simp only [pure_bind]
        refine (spFold_qr cs (t + 1) h1).mono ?_
        rintro r r' ⟨g1, g2, g3⟩
        refine ⟨g1, ?_, g3.mono ?_ ?_⟩
        · rw [g2]; simp only [nSp, hsp, if_true]; omega
        · rintro i (hi | ⟨s, s1, s2, mp', hm', hi⟩)
          · exact Or.inl (Or.inl hi)
          · by_cases hs : s = t
            · subst hs
              rw [hmp'] at hm'
              cases hm'
              exact Or.inl (Or.inr hi)
            · exact Or.inr ⟨s, by omega, s2, mp', hm', hi⟩
        · rintro j (hj | ⟨i, ⟨s, s1, s2, mp', hm', hi⟩, hm⟩)
          · exact Or.inl (Or.inl hj)
          · by_cases hs : s = t
            · subst hs
              rw [hmp'] at hm'
              cases hm'
              exact Or.inl (Or.inr ⟨i, hi, hm⟩)
            · exact Or.inr ⟨i, ⟨s, by omega, s2, mp', hm', hi⟩, hm⟩
      · have e : ∀ Ka : KktSolver α, spStep (Ka, t) (.soc sc) = pure (Ka, t) := by
          intro Ka
          simp only [spStep, hsp, if_false, Bool.false_eq_true]
        rw [e K, e K']
        simp only [pure_bind]
        refine (spFold_qr cs t h).mono ?_
        rintro r r' ⟨h1, h2, h3⟩
        refine ⟨h1, ?_, h3⟩
        rw [h2]; simp only [nSp, hsp, if_false, Bool.false_eq_true]; omega

/-- `regularize_and_refactor` on two objects whose own KKT values agree everywhere and whose
permuted copies agree everywhere except (static regularisation on) behind the diagonal -/
theorem QR.regularizeAndRefactor {M : Kkt.LDLDataMap} {mpA : Array Nat} {DR : α → α → Prop} {DL : Nat → Prop}
    {K K' : KktSolver α} (st : LinSettings α) (h : QR M mpA DR (fun _ => True) DL K K')
    (hDL : ∀ j, DL j ∨ (st.staticRegEnable = true ∧ slotsOfIdx mpA M.diag_full.toList j))
    (hdr : st.staticRegEnable = false → K.diagonalRegularizer = K'.diagonalRegularizer) :
    RelM (fun r r' => r.1 = r'.1 ∧ QB r.2 r'.2) (K.regularizeAndRefactor st) (K'.regularizeAndRefactor st) := by
  have hnz : K.KKT.nzval = K'.KKT.nzval := h.nz.eq_of_all fun _ => trivial
  obtain ⟨hinv, hmapL, hamapL, h1, h2, h3, h4, h5, h6, k1, k2, k3, k4, _, hldl, _, hx, hb, hw1, hw2⟩ := h
  obtain ⟨m, n, p, x, b, w1, w2, mp, ds, hs, ⟨km, kn, kc, kr, kv⟩, ldl, dr⟩ := K
  obtain ⟨m', n', p', x', b', w1', w2', mp', ds', hs', ⟨km', kn', kc', kr', kv'⟩, ldl', dr'⟩ := K'
  dsimp only at h1 h2 h3 h4 h5 h6 k1 k2 k3 k4 hnz hx hb hw1 hw2 hldl hinv hmapL hamapL hdr
  subst h1 h2 h3 h4 h5 h6 k1 k2 k3 k4 hnz
  unfold KktSolver.regularizeAndRefactor
  dsimp only
  by_cases hst : st.staticRegEnable = true
  · simp only [hst, if_true]
    refine RelM.bind (RelM.refl_eq _) ?_
    intro r _ e
    subst e
    rw [hw1, hw2]
    refine RelM.ite (fun _ => RelM.throw _) (fun _ => ?_)
    refine RelM.bind_ok (updateValues_ls hldl mp.diag_full r.1.diagShifted) ?_
    rintro F1 F1' e1 e1' ⟨hF, hFm⟩
    have hI1 : LdlInv F1 := hinv.updateValues e1
    have hall : LS (fun _ => True) F1 F1' := by
      refine hF.mono ?_
      intro j _
      rcases hDL j with hj | ⟨_, hj⟩
      · exact Or.inl hj
      · right
        rw [hamapL, hmapL]
        exact hj
    rw [refactor_ls hI1 hall]
    refine RelM.bind (RelM.refl_eq _) ?_
    intro l2 _ e
    subst e
    exact ⟨rfl, rfl, rfl, rfl, rfl, rfl, rfl, rfl, rfl, rfl, hx, hb, rfl, rfl⟩
  · have hst' : st.staticRegEnable = false := by simpa using hst
    simp only [hst', Bool.false_eq_true, if_false]
    have hall : LS (fun _ => True) ldl ldl' := by
      refine hldl.mono ?_
      intro j _
      rcases hDL j with hj | ⟨hj, _⟩
      · exact hj
      · rw [hst'] at hj
        cases hj
    rw [refactor_ls hinv hall]
    refine RelM.bind (RelM.refl_eq _) ?_
    intro l _ e
    subst e
    have := hdr hst'
    subst this
    exact ⟨rfl, rfl, rfl, rfl, rfl, rfl, rfl, rfl, rfl, rfl, hx, hb, hw1, hw2⟩

/-! ### the relation "up to what `update` rewrites" -/

/-- the positions of the solver's KKT value array that `update` rewrites: `Hs` blocks, sparse cones -/
def WK (map : Kkt.LDLDataMap) (i : Nat) : Prop :=
  i ∈ map.Hsblocks.toList ∨ sparseRange map.sparse_maps 0 map.sparse_maps.size i

/-- … and of the engine's copy: the same and, with static regularisation, the diagonal -/
def WL (st : LinSettings α) (map : Kkt.LDLDataMap) (i : Nat) : Prop :=
  WK map i ∨ (st.staticRegEnable = true ∧ i ∈ map.diag_full.toList)

/-- `K'` is `K` up to what an `update` under the settings `st` rewrites (see the header) -/
structure Upd (st : LinSettings α) (K K' : KktSolver α) : Prop where
  m : K.m = K'.m
  n : K.n = K'.n
  p : K.p = K'.p
  map : K.map = K'.map
  dsigns : K.dsigns = K'.dsigns
  hsz : K.Hsblocks.size = K'.Hsblocks.size
  km : K.KKT.m = K'.KKT.m
  kn : K.KKT.n = K'.KKT.n
  kcol : K.KKT.colptr = K'.KKT.colptr
  krow : K.KKT.rowval = K'.KKT.rowval
  nz : AgreeOn (fun i => ¬ WK K.map i) K.KKT.nzval K'.KKT.nzval
  ldl : LS (fun j => ¬ slotsOfSet K.ldl.AtoPAPt (WL st K.map) j) K.ldl K'.ldl
  dr : st.staticRegEnable = false → K.diagonalRegularizer = K'.diagonalRegularizer
  x : K.x.size = K'.x.size
  b : K.b.size = K'.b.size
  work1 : K.work1.size = K'.work1.size
  work2 : K.work2.size = K'.work2.size

theorem Upd.rfl' (st : LinSettings α) (K : KktSolver α) : Upd st K K :=
  ⟨rfl, rfl, rfl, rfl, rfl, rfl, rfl, rfl, rfl, rfl, AgreeOn.rfl' _ _, LS.rfl' _ _, fun _ => rfl, rfl, rfl,
    rfl, rfl⟩

theorem Upd.trans {st : LinSettings α} {K K' K'' : KktSolver α} (h : Upd st K K') (h' : Upd st K' K'') :
    Upd st K K'' :=
  { m := h.m.trans h'.m, n := h.n.trans h'.n, p := h.p.trans h'.p, map := h.map.trans h'.map,
    dsigns := h.dsigns.trans h'.dsigns, hsz := h.hsz.trans h'.hsz, km := h.km.trans h'.km,
    kn := h.kn.trans h'.kn, kcol := h.kcol.trans h'.kcol, krow := h.krow.trans h'.krow
    nz := h.nz.trans (by rw [h.map]; exact h'.nz)
    ldl := h.ldl.trans (by rw [h.map, h.ldl.map]; exact h'.ldl)
    dr := fun e => (h.dr e).trans (h'.dr e)
    x := h.x.trans h'.x, b := h.b.trans h'.b, work1 := h.work1.trans h'.work1, work2 := h.work2.trans h'.work2 }

/-- **`KKTSolver::update` forgets** (hypothesis `QW` of `C05.full_solve_idempotent_finite`, for the cone
lists and settings it is used with): two objects that differ only in what an `update` under `st`
rewrites — the left one built by `QDLDLFactorisation::new` and since then only updated / refactored
(`LdlInv`) — answer `update(cones, st)` alike for every cone list with at least as many sparse
second-order cones as there are expansion maps: the same error, or the same flag and objects that
differ in the content of the work vectors `x, b, work1, work2` only. -/
theorem update_forgets {st : LinSettings α} {K K' : KktSolver α} (h : Upd st K K') (hI : LdlInv K.ldl)
    (cones : List (ConeSt α)) (hfit : K.map.sparse_maps.size ≤ nSp cones) :
    RelM (fun r r' => r.1 = r'.1 ∧ QB r.2 r'.2) (K.update cones st) (K'.update cones st) := by
  rw [update_eq, update_eq]
  refine RelM.bind (RelM.refl_eq _) ?_
  intro hs _ e
  subst e
  rw [← h.hsz]
  refine RelM.ite (fun _ => RelM.throw _) (fun _ => ?_)
  have emap : K'.map.Hsblocks = K.map.Hsblocks := by rw [h.map]
  rw [emap]
  have h0 : QR K.map K.ldl.AtoPAPt (fun a b => st.staticRegEnable = false → a = b)
      (fun i => ¬ WK K.map i) (fun j => ¬ slotsOfSet K.ldl.AtoPAPt (WL st K.map) j)
      ({ K with Hsblocks := Vec.negate hs } : KktSolver α) ({ K' with Hsblocks := Vec.negate hs } : KktSolver α) :=
    { inv := hI, mapL := rfl, amapL := rfl, m := h.m, n := h.n, p := h.p, map := h.map, dsigns := h.dsigns,
      hsb := rfl, km := h.km, kn := h.kn, kcol := h.kcol, krow := h.krow, nz := h.nz, ldl := h.ldl, dr := h.dr,
      x := h.x, b := h.b, work1 := h.work1, work2 := h.work2 }
  refine RelM.bind (h0.updateValues K.map.Hsblocks (Vec.negate hs)) ?_
  intro K1 K1' h1
  refine RelM.bind (spFold_qr cones 0 h1) ?_
  rintro ⟨K2, t⟩ ⟨K2', t'⟩ ⟨g1, g2, g3⟩
  dsimp only at g1 g2 g3 ⊢
  have ht : K.map.sparse_maps.size ≤ t := by omega
  refine QR.regularizeAndRefactor st (g3.mono (DK' := fun _ => True)
    (DL' := fun j => ¬ slotsOfIdx K.ldl.AtoPAPt K.map.diag_full.toList j ∨ st.staticRegEnable = false) ?_ ?_) ?_ g3.dr
  · intro i _
    by_cases hw : WK K.map i
    · rcases hw with hw | ⟨s, s1, s2, hr⟩
      · exact Or.inl (Or.inr hw)
      · exact Or.inr ⟨s, s1, by omega, hr⟩
    · exact Or.inl (Or.inl hw)
  · intro j hj
    by_cases hw : slotsOfSet K.ldl.AtoPAPt (WL st K.map) j
    · obtain ⟨i, hi, hm⟩ := hw
      rcases hi with (hi | ⟨s, s1, s2, hr⟩) | ⟨hst, hi⟩
      · exact Or.inl (Or.inr ⟨i, hi, hm⟩)
      · exact Or.inr ⟨i, ⟨s, s1, by omega, hr⟩, hm⟩
      · rcases hj with hj | hj
        · exact absurd ⟨i, hi, hm⟩ hj
        · rw [hj] at hst
          cases hst
    · exact Or.inl (Or.inl hw)
  · intro j
    by_cases hd : slotsOfIdx K.ldl.AtoPAPt K.map.diag_full.toList j
    · by_cases hst : st.staticRegEnable = true
      · exact Or.inr ⟨hst, hd⟩
      · exact Or.inl (Or.inr (by simpa using hst))
    · exact Or.inl (Or.inl hd)

end

end Clarabel.Solver
