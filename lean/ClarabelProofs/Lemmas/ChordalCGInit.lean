/-
  Clique-graph merge strategy: `initialise` (`ClarabelModel/Chordal/MergeCG.lean`, Rust
  `CliqueGraphMergeStrategy::initialise` of `src/solver/chordal/merge/clique_graph.rs`).

  * closed forms of the two loops of `initialise` (`cgi_loop1`, `cgi_loop2`), of
    `compute_weights` (`computeWeights_ok`) and of `compute_adjacency_table`
    (`computeAdjacencyTable_ok`);
  * THE TREE EDGES ARE GRAPH EDGES (`cgi_crossing`, `cgi_tree_edge`): by the running
    intersection property every pair (clique, parent clique) of the clique tree is returned by
    `compute_reduced_clique_graph`, hence the cliques are connected (`cgi_conn_root`);
  * `initialise_spec`: on the tree of `SuperNodeTree::new` (filled pattern, ≥ 2 cliques)
    `initialise` does not panic and THE LOOP INVARIANT `CGInv` HOLDS ON ENTRY.
  The building blocks `new_from_triplets` and `compute_reduced_clique_graph` enter as the
  hypotheses `NewFromTripletsSpec`, `ReducedOkSpec`, `ReducedTreeEdgeSpec` (`ChordalCGDefs.lean`).
  All theorems here are class [S].
-/
import ClarabelProofs.Lemmas.ChordalCGSpecs
import ClarabelProofs.Lemmas.ChordalCGWeights

namespace Clarabel.Chordal
open Clarabel

/-! ## array helpers -/

/-- [S] reading back a written entry -/
theorem cgi_getD_set_self {β : Type} (xs : Array β) (i : Nat) (v d : β) (h : i < xs.size) :
    (xs.setIfInBounds i v).getD i d = v := by
  simp [Array.getD_eq_getD_getElem?, h]

/-- [S] a write does not change the other entries -/
theorem cgi_getD_set_ne {β : Type} (xs : Array β) (i j : Nat) (v d : β) (h : i ≠ j) :
    (xs.setIfInBounds i v).getD j d = xs.getD j d := by
  simp [Array.getD_eq_getD_getElem?, h]

/-- [S] an out-of-range read gives the default -/
theorem cgi_getD_oob {β : Type} (xs : Array β) (i : Nat) (d : β) (h : xs.size ≤ i) :
    xs.getD i d = d := by
  simp [Array.getD, Nat.not_lt.mpr h]

/-! ## the two loops of `initialise` -/

/-- body of the first loop of `initialise` -/
def cgiStep1 (seps : Array VSet) (i : Nat) (sn : Array VSet) : MErr (ForInStep (Array VSet)) := do
  let a ← getE sn i "initialise"
  let sp ← getE seps i "initialise"
  let sn' ← setE sn i (a.extend sp.toList) "initialise"
  pure (.yield sn')

/-- body of the second loop of `initialise` -/
def cgiStep2 (i : Nat) (st : Array Nat × Array VSet) :
    MErr (ForInStep (Array Nat × Array VSet)) := do
  let a ← setE st.1 i inactiveNode "initialise"
  let b ← setE st.2 i #[] "initialise"
  pure (.yield (a, b))

/-- [S] `initialise` with its loops as `forIn` over lists (no hypotheses) -/
theorem initialise_eq_forIn (s : CGStrategy) (t : SuperNodeTree) :
    s.initialise t = (do
      let sn ← forIn (List.range' 0 (min t.snode.size t.separators.size)) t.snode
        (cgiStep1 t.separators)
      let pc ← forIn (List.range' 0 t.snodeParent.size) (t.snodeParent, t.snodeChildren) cgiStep2
      let x ← computeReducedCliqueGraph t.separators sn
      let weights ← computeWeights x.2.1 x.2.2 sn
      let edges ← IMat.newFromTriplets t.nCliques t.nCliques x.2.1 x.2.2 weights
      let adj ← computeAdjacencyTable edges t.nCliques
      pure ({ stop := false, edges := edges, p := Array.replicate edges.nzval.size 0,
              adjacencyTable := adj },
            { t with snode := sn, snodeParent := pc.1, snodeChildren := pc.2, separators := x.1 })) := by
  unfold CGStrategy.initialise
  simp only [Std.Legacy.Range.forIn_eq_forIn_range', Std.Legacy.Range.size, Nat.sub_zero,
    Nat.add_sub_cancel, Nat.div_one]
  rfl

/-- [S] the first loop of `initialise`: no panic, `snode[c] := snode[c].extend(separators[c])` on
the visited indices -/
theorem cgi_loop1 (seps : Array VSet) (len : Nat) : ∀ (i : Nat) (sn : Array VSet),
    i + len ≤ sn.size → i + len ≤ seps.size →
    ∃ sn', forIn (List.range' i len) sn (cgiStep1 seps) = .ok sn' ∧ sn'.size = sn.size ∧
      ∀ c, sn'.getD c #[] = if i ≤ c ∧ c < i + len then
        (sn.getD c #[]).extend (seps.getD c #[]).toList else sn.getD c #[] := by
  induction len with
  | zero =>
    intro i sn _ _
    refine ⟨sn, rfl, rfl, fun c => ?_⟩
    rw [if_neg (by omega)]
  | succ len ih =>
    intro i sn h1 h2
    obtain ⟨sn', hrun, hsz, hget⟩ := ih (i + 1)
      (sn.setIfInBounds i ((sn.getD i #[]).extend (seps.getD i #[]).toList))
      (by rw [Array.size_setIfInBounds]; omega) (by omega)
    refine ⟨sn', ?_, by rw [hsz, Array.size_setIfInBounds], fun c => ?_⟩
    · rw [List.range'_succ, List.forIn_cons]
      simp only [cgiStep1, Kr.getE_ok sn i _ #[] (by omega), Kr.getE_ok seps i _ #[] (by omega),
        Kr.setE_ok sn i _ _ (by omega), bind, Except.bind, pure, Except.pure]
      exact hrun
    · rw [hget c]
      by_cases hc : c = i
      · subst hc
        rw [if_neg (by omega), if_pos (by omega), cgi_getD_set_self _ _ _ _ (by omega)]
      · rw [cgi_getD_set_ne _ _ _ _ _ (fun e => hc e.symm)]
        by_cases h3 : i + 1 ≤ c ∧ c < i + 1 + len
        · rw [if_pos h3, if_pos (by omega)]
        · rw [if_neg h3, if_neg (by omega)]

/-- [S] the second loop of `initialise`: no panic, the visited entries become `INACTIVE_NODE`
resp. the empty set -/
theorem cgi_loop2 (len : Nat) : ∀ (i : Nat) (par : Array Nat) (ch : Array VSet),
    i + len ≤ par.size → i + len ≤ ch.size →
    ∃ par' ch', forIn (List.range' i len) (par, ch) cgiStep2 = .ok (par', ch') ∧
      par'.size = par.size ∧ ch'.size = ch.size ∧
      (∀ c, par'.getD c 0 = if i ≤ c ∧ c < i + len then inactiveNode else par.getD c 0) ∧
      (∀ c, ch'.getD c #[] = if i ≤ c ∧ c < i + len then #[] else ch.getD c #[]) := by
  induction len with
  | zero =>
    intro i par ch _ _
    refine ⟨par, ch, rfl, rfl, rfl, fun c => ?_, fun c => ?_⟩ <;> rw [if_neg (by omega)]
  | succ len ih =>
    intro i par ch h1 h2
    obtain ⟨par', ch', hrun, hsz1, hsz2, hg1, hg2⟩ := ih (i + 1)
      (par.setIfInBounds i inactiveNode) (ch.setIfInBounds i #[])
      (by rw [Array.size_setIfInBounds]; omega) (by rw [Array.size_setIfInBounds]; omega)
    refine ⟨par', ch', ?_, by rw [hsz1, Array.size_setIfInBounds],
      by rw [hsz2, Array.size_setIfInBounds], fun c => ?_, fun c => ?_⟩
    · rw [List.range'_succ, List.forIn_cons]
      simp only [cgiStep2, Kr.setE_ok par i _ _ (by omega), Kr.setE_ok ch i _ _ (by omega),
        bind, Except.bind, pure, Except.pure]
      exact hrun
    · rw [hg1 c]
      by_cases hc : c = i
      · subst hc
        rw [if_neg (by omega), if_pos (by omega), cgi_getD_set_self _ _ _ _ (by omega)]
      · rw [cgi_getD_set_ne _ _ _ _ _ (fun e => hc e.symm)]
        by_cases h3 : i + 1 ≤ c ∧ c < i + 1 + len
        · rw [if_pos h3, if_pos (by omega)]
        · rw [if_neg h3, if_neg (by omega)]
    · rw [hg2 c]
      by_cases hc : c = i
      · subst hc
        rw [if_neg (by omega), if_pos (by omega), cgi_getD_set_self _ _ _ _ (by omega)]
      · rw [cgi_getD_set_ne _ _ _ _ _ (fun e => hc e.symm)]
        by_cases h3 : i + 1 ≤ c ∧ c < i + 1 + len
        · rw [if_pos h3, if_pos (by omega)]
        · rw [if_neg h3, if_neg (by omega)]

/-- [S] an array all of whose entries are `d` is `replicate` -/
theorem cgi_eq_replicate {β : Type} (xs : Array β) (d d0 : β)
    (h : ∀ c, c < xs.size → xs.getD c d0 = d) : xs = Array.replicate xs.size d := by
  apply Array.ext
  · simp
  · intro j h1 h2
    have := h j h1
    simp [Array.getD_eq_getD_getElem?, h1] at this
    simp [this]

/-! ## `compute_weights` -/

/-- body of the loop of `compute_weights` -/
def cgiWStep (rows cols : Array Nat) (snode : Array VSet) (k : Nat) (w : Array Int) :
    MErr (ForInStep (Array Int)) := do
  let r ← getE rows k "compute_weights"
  let c ← getE cols k "compute_weights"
  let c1 ← getE snode r "compute_weights"
  let c2 ← getE snode c "compute_weights"
  let m ← edgeMetric c1 c2
  let w' ← setE w k m "compute_weights"
  pure (.yield w')

/-- [S] `compute_weights` with its loop as `forIn` over a list (no hypotheses) -/
theorem computeWeights_eq_forIn (rows cols : Array Nat) (snode : Array VSet) :
    computeWeights rows cols snode =
      forIn (List.range' 0 rows.size) (Array.replicate rows.size (0 : Int))
        (cgiWStep rows cols snode) := by
  unfold computeWeights
  simp only [Std.Legacy.Range.forIn_eq_forIn_range', Std.Legacy.Range.size, Nat.sub_zero,
    Nat.add_sub_cancel, Nat.div_one]
  show (forIn _ _ _ >>= pure) = _
  rw [bind_pure]
  rfl

/-- [S] the loop of `compute_weights` -/
theorem cgi_wloop (rows cols : Array Nat) (snode : Array VSet)
    (hr : ∀ k, k < rows.size → rows.getD k 0 < snode.size)
    (hc : ∀ k, k < rows.size → cols.getD k 0 < snode.size) (len : Nat) :
    ∀ (i : Nat) (w : Array Int), i + len ≤ rows.size → i + len ≤ cols.size → i + len ≤ w.size →
    ∃ w', forIn (List.range' i len) w (cgiWStep rows cols snode) = .ok w' ∧ w'.size = w.size ∧
      ∀ k, w'.getD k 0 = if i ≤ k ∧ k < i + len then
        edgeMetricVal (snode.getD (rows.getD k 0) #[]) (snode.getD (cols.getD k 0) #[])
        else w.getD k 0 := by
  induction len with
  | zero =>
    intro i w _ _ _
    refine ⟨w, rfl, rfl, fun c => ?_⟩
    rw [if_neg (by omega)]
  | succ len ih =>
    intro i w h1 h2 h3
    obtain ⟨w', hrun, hsz, hget⟩ := ih (i + 1)
      (w.setIfInBounds i (edgeMetricVal (snode.getD (rows.getD i 0) #[])
        (snode.getD (cols.getD i 0) #[])))
      (by omega) (by omega) (by rw [Array.size_setIfInBounds]; omega)
    refine ⟨w', ?_, by rw [hsz, Array.size_setIfInBounds], fun c => ?_⟩
    · rw [List.range'_succ, List.forIn_cons]
      simp only [cgiWStep, Kr.getE_ok rows i _ 0 (by omega), Kr.getE_ok cols i _ 0 (by omega),
        Kr.getE_ok snode _ _ #[] (hr i (by omega)), Kr.getE_ok snode _ _ #[] (hc i (by omega)),
        edgeMetric_eq, Kr.setE_ok w i _ _ (by omega), bind, Except.bind, pure, Except.pure]
      exact hrun
    · rw [hget c]
      by_cases hc : c = i
      · subst hc
        rw [if_neg (by omega), if_pos (by omega), cgi_getD_set_self _ _ _ _ (by omega)]
      · rw [cgi_getD_set_ne _ _ _ _ _ (fun e => hc e.symm)]
        by_cases h3 : i + 1 ≤ c ∧ c < i + 1 + len
        · rw [if_pos h3, if_pos (by omega)]
        · rw [if_neg h3, if_neg (by omega)]

/-- [S] **`compute_weights`**: no panic when all clique indices are in range; `weights[k]` is the
edge metric of the cliques `rows[k]`, `cols[k]` -/
theorem computeWeights_ok (rows cols : Array Nat) (snode : Array VSet) (hsz : rows.size = cols.size)
    (hr : ∀ k, k < rows.size → rows.getD k 0 < snode.size)
    (hc : ∀ k, k < rows.size → cols.getD k 0 < snode.size) :
    ∃ w, computeWeights rows cols snode = .ok w ∧ w.size = rows.size ∧
      ∀ k, k < rows.size → w.getD k 0 =
        edgeMetricVal (snode.getD (rows.getD k 0) #[]) (snode.getD (cols.getD k 0) #[]) := by
  obtain ⟨w, hrun, hs, hg⟩ := cgi_wloop rows cols snode hr hc rows.size 0
    (Array.replicate rows.size 0) (by omega) (by omega) (by simp)
  refine ⟨w, by rw [computeWeights_eq_forIn]; exact hrun, by simpa using hs, fun k hk => ?_⟩
  rw [hg k, if_pos (by omega)]


/-! ## `HashMap` -/

/-- [S] `get` after `insert` (any key, in or beyond the slots) -/
theorem cgi_get?_insert {β : Type} (h : HMap β) (k : Nat) (v : β) (c : Nat) :
    (h.insert k v).get? c = if c = k then some v else h.get? c := by
  unfold HMap.insert HMap.get?
  by_cases hk : k < h.slots.size
  · simp only [hk, if_true]
    by_cases hc : c = k
    · subst hc; simp [hk]
    · have : k ≠ c := fun e => hc e.symm
      simp [hc, this]
  · simp only [hk, if_false]
    have hs : (h.slots ++ Array.replicate (k - h.slots.size) none).size = k := by
      simp; omega
    rw [Array.getElem?_push, hs]
    by_cases hc : c = k
    · simp only [hc, if_true]
    · simp only [hc, if_false]
      by_cases h1 : c < h.slots.size
      · rw [Array.getElem?_append_left h1]
      · rw [Array.getElem?_append_right (by omega)]
        have : h.slots[c]? = none := by simp; omega
        rw [this]
        by_cases h2 : c - h.slots.size < k - h.slots.size
        · simp [h2]
        · simp [h2]

/-- [S] no key in the empty map -/
theorem cgi_get?_empty {β : Type} (cap c : Nat) : (HMap.empty cap : HMap β).get? c = none := by
  unfold HMap.empty HMap.get?
  by_cases h : c < cap <;> simp [h]

/-! ## `compute_adjacency_table` -/

/-- body of the first loop of `compute_adjacency_table` -/
def cgiAInit (i : Nat) (tb : HMap VSet) : MErr (ForInStep (HMap VSet)) :=
  pure (.yield (tb.insert i #[]))

/-- body of the innermost loop of `compute_adjacency_table` -/
def cgiAStep (col row : Nat) (tb : HMap VSet) : MErr (ForInStep (HMap VSet)) := do
  let tr ← tb.getP row "compute_adjacency_table"
  let tc ← (tb.insert row (tr.insert col)).getP col "compute_adjacency_table"
  pure (.yield ((tb.insert row (tr.insert col)).insert col (tc.insert row)))

/-- body of the loop over the columns of `compute_adjacency_table` -/
def cgiACol (E : IMat) (col : Nat) (tb : HMap VSet) : MErr (ForInStep (HMap VSet)) := do
  let x ← E.column col "compute_adjacency_table"
  let tb' ← forIn x.2.toList tb (cgiAStep col)
  pure (.yield tb')

/-- [S] `compute_adjacency_table` with its loops as `forIn` over lists (no hypotheses) -/
theorem computeAdjacencyTable_eq_forIn (E : IMat) (N : Nat) :
    computeAdjacencyTable E N = (do
      let tb ← forIn (List.range' 0 N) (HMap.empty N : HMap VSet) cgiAInit
      forIn (List.range' 0 N) tb (cgiACol E)) := by
  unfold computeAdjacencyTable
  simp only [Std.Legacy.Range.forIn_eq_forIn_range', Std.Legacy.Range.size, Nat.sub_zero,
    Nat.add_sub_cancel, Nat.div_one, ← Array.forIn_toList]
  show (_ >>= fun tb => (forIn _ _ _ >>= pure)) = _
  simp only [bind_pure]
  rfl

/-- the adjacency table after the pairs `S` were entered -/
structure CgiAdj (N : Nat) (S : List (Nat × Nat)) (tb : HMap VSet) : Prop where
  keys : ∀ c, tb.containsKey c = true ↔ c < N
  mem : ∀ a b, b ∈ (tb.nbrs a).toList ↔ ((a, b) ∈ S ∨ (b, a) ∈ S)
  nodup : ∀ a, (tb.nbrs a).toList.Nodup

/-- [S] the first loop of `compute_adjacency_table` -/
theorem cgi_ainit (len : Nat) : ∀ (i : Nat) (tb : HMap VSet),
    ∃ tb', forIn (List.range' i len) tb cgiAInit = .ok tb' ∧
      ∀ c, tb'.get? c = if i ≤ c ∧ c < i + len then some #[] else tb.get? c := by
  induction len with
  | zero => intro i tb; exact ⟨tb, rfl, fun c => by rw [if_neg (by omega)]⟩
  | succ len ih =>
    intro i tb
    obtain ⟨tb', hrun, hg⟩ := ih (i + 1) (tb.insert i #[])
    refine ⟨tb', ?_, fun c => ?_⟩
    · rw [List.range'_succ, List.forIn_cons]
      simp only [cgiAInit, bind, Except.bind, pure, Except.pure]
      exact hrun
    · rw [hg c, cgi_get?_insert]
      by_cases hc : c = i
      · subst hc; rw [if_neg (by omega), if_pos rfl, if_pos (by omega)]
      · rw [if_neg hc]
        by_cases h3 : i + 1 ≤ c ∧ c < i + 1 + len
        · rw [if_pos h3, if_pos (by omega)]
        · rw [if_neg h3, if_neg (by omega)]

/-- [S] the table with all keys and empty sets -/
theorem cgi_adj_init (N : Nat) {tb : HMap VSet}
    (h : ∀ c, tb.get? c = if c < N then some #[] else none) : CgiAdj N [] tb where
  keys := by
    intro c
    unfold HMap.containsKey
    rw [h c]
    by_cases hc : c < N <;> simp [hc]
  mem := by
    intro a b
    unfold HMap.nbrs
    rw [h a]
    by_cases hc : a < N <;> simp [hc]
  nodup := by
    intro a
    unfold HMap.nbrs
    rw [h a]
    by_cases hc : a < N <;> simp [hc]

/-- [S] one pair is entered: `table[row] ∪= {col}`, `table[col] ∪= {row}` -/
theorem cgi_astep {N : Nat} {S : List (Nat × Nat)} {tb : HMap VSet} (h : CgiAdj N S tb)
    {row col : Nat} (hr : row < N) (hc : col < N) (hne : row ≠ col) :
    ∃ tb', cgiAStep col row tb = .ok (.yield tb') ∧ CgiAdj N (S ++ [(row, col)]) tb' := by
  have hkr := (h.keys row).mpr hr
  have hkc := (h.keys col).mpr hc
  unfold HMap.containsKey at hkr hkc
  obtain ⟨tr, htr⟩ := Option.isSome_iff_exists.mp hkr
  obtain ⟨tc, htc⟩ := Option.isSome_iff_exists.mp hkc
  have hnr : tb.nbrs row = tr := by unfold HMap.nbrs; rw [htr]; rfl
  have hnc : tb.nbrs col = tc := by unfold HMap.nbrs; rw [htc]; rfl
  have h1 : (tb.insert row (tr.insert col)).get? col = some tc := by
    rw [cgi_get?_insert, if_neg (fun e => hne e.symm), htc]
  refine ⟨(tb.insert row (tr.insert col)).insert col (tc.insert row), ?_, ?_⟩
  · simp only [cgiAStep, HMap.getP, htr, h1, bind, Except.bind, pure, Except.pure]
  · have hget : ∀ c, ((tb.insert row (tr.insert col)).insert col (tc.insert row)).get? c =
        if c = col then some (tc.insert row) else if c = row then some (tr.insert col)
        else tb.get? c := by
      intro c
      rw [cgi_get?_insert, cgi_get?_insert]
    have hnb : ∀ c, ((tb.insert row (tr.insert col)).insert col (tc.insert row)).nbrs c =
        if c = col then tc.insert row else if c = row then tr.insert col else tb.nbrs c := by
      intro c
      unfold HMap.nbrs
      rw [hget c]
      by_cases e1 : c = col
      · simp [e1]
      · by_cases e2 : c = row
        · simp [e2, hne]
        · simp [e1, e2]
    refine ⟨fun c => ?_, fun a b => ?_, fun a => ?_⟩
    · unfold HMap.containsKey
      rw [hget c]
      by_cases e1 : c = col
      · simp [e1, hc]
      · by_cases e2 : c = row
        · simp [e2, hne, hr]
        · simp only [e1, e2, if_false]
          exact h.keys c
    · rw [hnb a]
      simp only [List.mem_append, List.mem_singleton, Prod.mk.injEq]
      by_cases e1 : a = col
      · subst e1
        rw [if_pos rfl, VSet.mem_insert, ← hnc, h.mem a b]
        constructor
        · rintro (h2 | h2)
          · rcases h2 with h2 | h2
            · exact .inl (.inl h2)
            · exact .inr (.inl h2)
          · exact .inr (.inr ⟨h2, rfl⟩)
        · rintro ((h2 | ⟨h2, _⟩) | (h2 | ⟨h2, _⟩))
          · exact .inl (.inl h2)
          · exact absurd h2.symm hne
          · exact .inl (.inr h2)
          · exact .inr h2
      · rw [if_neg e1]
        by_cases e2 : a = row
        · subst e2
          rw [if_pos rfl, VSet.mem_insert, ← hnr, h.mem a b]
          constructor
          · rintro (h2 | h2)
            · rcases h2 with h2 | h2
              · exact .inl (.inl h2)
              · exact .inr (.inl h2)
            · exact .inl (.inr ⟨rfl, h2⟩)
          · rintro ((h2 | ⟨_, h2⟩) | (h2 | ⟨_, h2⟩))
            · exact .inl (.inl h2)
            · exact .inr h2
            · exact .inl (.inr h2)
            · exact absurd h2 e1
        · rw [if_neg e2, h.mem a b]
          constructor
          · rintro (h2 | h2)
            · exact .inl (.inl h2)
            · exact .inr (.inl h2)
          · rintro ((h2 | ⟨h2, _⟩) | (h2 | ⟨_, h2⟩))
            · exact .inl h2
            · exact absurd h2 e2
            · exact .inr h2
            · exact absurd h2 e1
    · rw [hnb a]
      by_cases e1 : a = col
      · rw [if_pos e1, ← hnc]; exact VSet.nodup_insert _ _ (h.nodup col)
      · rw [if_neg e1]
        by_cases e2 : a = row
        · rw [if_pos e2, ← hnr]; exact VSet.nodup_insert _ _ (h.nodup row)
        · rw [if_neg e2]; exact h.nodup a

/-- [S] the innermost loop of `compute_adjacency_table` over the rows of one column -/
theorem cgi_arows {N : Nat} {col : Nat} (hc : col < N) : ∀ (rs : List Nat) (S : List (Nat × Nat))
    (tb : HMap VSet), CgiAdj N S tb → (∀ r ∈ rs, r < N ∧ r ≠ col) →
    ∃ tb', forIn rs tb (cgiAStep col) = .ok tb' ∧ CgiAdj N (S ++ rs.map (fun r => (r, col))) tb' := by
  intro rs
  induction rs with
  | nil => intro S tb h _; exact ⟨tb, rfl, by simpa using h⟩
  | cons r rs ih =>
    intro S tb h hrs
    obtain ⟨tb1, h1, hinv1⟩ := cgi_astep h (hrs r (by simp)).1 hc (hrs r (by simp)).2
    obtain ⟨tb', h2, hinv2⟩ := ih _ tb1 hinv1 (fun r' hr' => hrs r' (by simp [hr']))
    refine ⟨tb', ?_, by simpa [List.append_assoc] using hinv2⟩
    rw [List.forIn_cons, h1]
    exact h2

/-- the pairs `(row, col)` stored in the columns `i, …, i+len-1` -/
def cgiPairs (E : IMat) (i len : Nat) : List (Nat × Nat) :=
  (List.range' i len).flatMap (fun col => (E.colRows col).toList.map (fun r => (r, col)))

/-- [S] the loop over the columns of `compute_adjacency_table` -/
theorem cgi_acols {E : IMat} (hg : E.Good) {N : Nat} (hN : E.n = N) (len : Nat) :
    ∀ (i : Nat) (S : List (Nat × Nat)) (tb : HMap VSet), i + len ≤ N → CgiAdj N S tb →
    ∃ tb', forIn (List.range' i len) tb (cgiACol E) = .ok tb' ∧
      CgiAdj N (S ++ cgiPairs E i len) tb' := by
  induction len with
  | zero => intro i S tb _ h; exact ⟨tb, rfl, by simpa [cgiPairs] using h⟩
  | succ len ih =>
    intro i S tb hi h
    have hin : i < E.n := by omega
    have hrows : ∀ r ∈ (E.colRows i).toList, r < N ∧ r ≠ i := by
      intro r hr
      obtain ⟨k, hk, hck, hrk⟩ := (mem_colRows_iff hg.wfe hin r).mp hr
      have h1 := hg.wfe.rows k hk
      have h2 := hg.lower.lower k hk
      rw [hck, hrk] at h2
      rw [hrk] at h1
      exact ⟨by omega, by omega⟩
    obtain ⟨tb1, h1, hinv1⟩ := cgi_arows (by omega : i < N) _ S tb h hrows
    obtain ⟨tb', h2, hinv2⟩ := ih (i + 1) _ tb1 (by omega) hinv1
    refine ⟨tb', ?_, ?_⟩
    · rw [List.range'_succ, List.forIn_cons]
      simp only [cgiACol, column_ok hg.wfe hin, bind, Except.bind, pure, Except.pure, h1]
      exact h2
    · have : cgiPairs E i (len + 1) =
          (E.colRows i).toList.map (fun r => (r, i)) ++ cgiPairs E (i + 1) len := by
        simp [cgiPairs, List.range'_succ]
      rw [this, ← List.append_assoc]
      exact hinv2

/-- [S] an entry is stored iff its position is one of the stored `(row, column)` pairs
(local version) -/
theorem cgi_entry_isSome_iff {E : IMat} (hg : E.Good) {r c : Nat} (hc : c < E.n) :
    (E.entry r c).isSome = true ↔
      ∃ k, k < E.rowval.size ∧ E.colIdx.getD k 0 = c ∧ E.rowval.getD k 0 = r := by
  rw [Option.isSome_iff_exists]
  constructor
  · rintro ⟨v, hv⟩
    obtain ⟨k, hk, h1, h2, _⟩ := (entry_eq_some_iff hg.wfe hg.lower hc v).mp hv
    exact ⟨k, hk, h1, h2⟩
  · rintro ⟨k, hk, h1, h2⟩
    exact ⟨_, (entry_eq_some_iff hg.wfe hg.lower hc _).mpr ⟨k, hk, h1, h2, rfl⟩⟩

/-- [S] no entry is stored in a column `≥ n` -/
theorem cgi_entry_none {E : IMat} (hg : E.Good) {r c : Nat} (hc : E.n ≤ c) : E.entry r c = none := by
  have hemp : E.colRows c = #[] := by
    unfold IMat.colRows
    have h2 : E.colptr.getD (c + 1) 0 = 0 := by
      simp [Array.getD, hg.wfe.cpsize]; omega
    rw [h2]
    simp
  unfold IMat.entry
  rw [hemp]
  simp

/-- [S] a stored entry of a `Good` matrix lies strictly below the diagonal, inside the matrix -/
theorem cgi_entry_lt {E : IMat} (hg : E.Good) {r c : Nat} (h : (E.entry r c).isSome = true) :
    c < r ∧ r < E.n := by
  have hc : c < E.n := by
    by_contra hc
    rw [cgi_entry_none hg (by omega)] at h
    simp at h
  obtain ⟨k, hk, h1, h2⟩ := (cgi_entry_isSome_iff hg hc).mp h
  have h3 := hg.wfe.rows k hk
  have h4 := hg.lower.lower k hk
  rw [h1, h2] at h4
  rw [h2] at h3
  exact ⟨h4, h3⟩

/-- [S] the pairs entered by `compute_adjacency_table` are the stored positions -/
theorem cgi_mem_pairs {E : IMat} (hg : E.Good) (r c : Nat) :
    (r, c) ∈ cgiPairs E 0 E.n ↔ (E.entry r c).isSome = true := by
  unfold cgiPairs
  simp only [List.mem_flatMap, List.mem_range'_1, List.mem_map, Prod.mk.injEq, Nat.zero_le,
    true_and, Nat.zero_add]
  constructor
  · rintro ⟨col, hcol, r', hr', rfl, rfl⟩
    exact (cgi_entry_isSome_iff hg hcol).mpr ((mem_colRows_iff hg.wfe hcol _).mp hr')
  · intro h
    have hc : c < E.n := by have := cgi_entry_lt hg h; omega
    exact ⟨c, hc, r, (mem_colRows_iff hg.wfe hc r).mpr ((cgi_entry_isSome_iff hg hc).mp h), rfl, rfl⟩

/-- [S] `Adj` in terms of the two orientations -/
theorem cgi_adj_iff {E : IMat} (hg : E.Good) (a b : Nat) :
    E.Adj a b ↔ ((E.entry a b).isSome = true ∨ (E.entry b a).isSome = true) := by
  unfold IMat.Adj
  constructor
  · intro h
    have := cgi_entry_lt hg h
    by_cases hab : a ≤ b
    · right; rwa [Nat.max_eq_right hab, Nat.min_eq_left hab] at h
    · left; rwa [Nat.max_eq_left (by omega), Nat.min_eq_right (by omega)] at h
  · rintro (h | h)
    · have := cgi_entry_lt hg h
      rwa [Nat.max_eq_left (by omega), Nat.min_eq_right (by omega)]
    · have := cgi_entry_lt hg h
      rwa [Nat.max_eq_right (by omega), Nat.min_eq_left (by omega)]

/-- [S] `Adj` is irreflexive on a `Good` matrix -/
theorem cgi_adj_ne {E : IMat} (hg : E.Good) {a b : Nat} (h : E.Adj a b) : a ≠ b := by
  rcases (cgi_adj_iff hg a b).mp h with h | h <;> have := cgi_entry_lt hg h <;> omega

/-- [S] **`compute_adjacency_table`** on a `Good` `N × N` matrix: no panic; the keys are exactly
`0..N-1`; `b ∈ table[a]` iff `a`, `b` are joined by a stored entry; the sets have no repetition -/
theorem computeAdjacencyTable_ok {E : IMat} (hg : E.Good) {N : Nat} (hN : E.n = N) :
    ∃ tb, computeAdjacencyTable E N = .ok tb ∧
      (∀ c, tb.containsKey c = true ↔ c < N) ∧
      (∀ a b, b ∈ (tb.nbrs a).toList ↔ E.Adj a b) ∧
      (∀ a, (tb.nbrs a).toList.Nodup) := by
  obtain ⟨tb0, h0, hg0⟩ := cgi_ainit N 0 (HMap.empty N)
  have hinit : CgiAdj N [] tb0 := cgi_adj_init N (fun c => by
    rw [hg0 c, cgi_get?_empty]
    by_cases hc : c < N
    · rw [if_pos (by omega), if_pos hc]
    · rw [if_neg (by omega), if_neg hc])
  obtain ⟨tb, h1, hinv⟩ := cgi_acols hg hN N 0 [] tb0 (by omega) hinit
  refine ⟨tb, ?_, hinv.keys, fun a b => ?_, hinv.nodup⟩
  · rw [computeAdjacencyTable_eq_forIn, h0]
    exact h1
  · rw [hinv.mem a b, cgi_adj_iff hg, List.nil_append, ← hN, cgi_mem_pairs hg, cgi_mem_pairs hg]


/-! ## the edges of the clique tree are edges of the reduced clique graph -/

/-- [S] parent chains compose -/
theorem cgi_anc_trans {t : SuperNodeTree} {a b c : Nat} (h1 : Anc t a b) (h2 : Anc t b c) :
    Anc t a c := by
  induction h1 with
  | refl => exact h2
  | step hl hnp _ ih => exact Anc.step hl hnp (ih h2)

/-- [S] two ancestors of the same clique are comparable -/
theorem cgi_anc_linear {t : SuperNodeTree} {a c x : Nat} (h1 : Anc t a c) (h2 : Anc t a x) :
    Anc t c x ∨ Anc t x c := by
  induction h1 with
  | refl a => exact .inl h2
  | step hl hnp h1' ih =>
    cases h2 with
    | refl => exact .inr (Anc.step hl hnp h1')
    | step _ _ h2' => exact ih h2'

/-- [S] THE CROSSING LEMMA: a vertex shared by a clique below `c` and a clique that is not below
`c` lies in the separator of `c` (running intersection: the path between the two cliques passes
through `c` and its parent) -/
theorem cgi_crossing {t : SuperNodeTree} {ord : Nat → Nat} (h : CTInv t ord) {c : Nat}
    (hl : Live t c) (hnp : t.snodeParent.getD c 0 ≠ noParent) {a b v : Nat}
    (hla : Live t a) (hlb : Live t b) (hac : Anc t a c) (hbc : ¬ Anc t b c)
    (hva : v ∈ cliqueList t a) (hvb : v ∈ cliqueList t b) :
    v ∈ (t.separators.getD c #[]).toList := by
  obtain ⟨x, _, _, hax, hbx, hpa, _⟩ := h.running_intersection hla hva hlb hvb
  rcases cgi_anc_linear hac hax with hcx | hxc
  · cases hcx with
    | refl => exact absurd hbx hbc
    | step _ _ hpx =>
      rw [h.sep_eq_inter hl hnp]
      exact ⟨hpa c hac (Anc.step hl hnp hpx),
        hpa _ (cgi_anc_trans hac (Anc.step hl hnp (Anc.refl _))) hpx⟩
  · exact absurd (cgi_anc_trans hbx hxc) hbc

/-- [S] THE TREE EDGES ARE GRAPH EDGES: for a non-root clique `c` of a clique tree all of whose
cliques are live, `compute_reduced_clique_graph` (on the separators and the full clique sets)
returns the pair `(c, parent c)` -/
theorem cgi_tree_edge (hRT : ReducedTreeEdgeSpec) {t0 : SuperNodeTree} {ord : Nat → Nat}
    (h : CTInv t0 ord) (hall : ∀ c, c < t0.snode.size → Live t0 c)
    {sn1 : Array VSet} (hsz : sn1.size = t0.snode.size)
    (hcl : ∀ c v, v ∈ (sn1.getD c #[]).toList ↔ v ∈ cliqueList t0 c)
    (hnd : ∀ i, i < sn1.size → (sn1.getD i #[]).toList.Nodup)
    {seps' : Array VSet} {rows cols : Array Nat}
    (hrun : computeReducedCliqueGraph t0.separators sn1 = .ok (seps', rows, cols))
    {c : Nat} (hc : c < t0.snode.size) (hnp : t0.snodeParent.getD c 0 ≠ noParent) :
    ∃ k, k < rows.size ∧ rows.getD k 0 = max c (t0.snodeParent.getD c 0) ∧
      cols.getD k 0 = min c (t0.snodeParent.getD c 0) := by
  have hl := hall c hc
  have hlp := h.par_live c hl hnp
  have hp : t0.snodeParent.getD c 0 < t0.snode.size := h.sz_par ▸ hlp.1
  refine hRT t0.separators sn1 seps' rows cols hrun hnd c (t0.snodeParent.getD c 0)
    (by omega) (by omega) (t0.separators.getD c #[])
    (snp_getD_mem_toList _ _ (by rw [h.sz_sep]; exact hc)) (h.sep_nodup c hl) ?_
    (fun a => Anc t0 a c) (Anc.refl c) ?_ ?_
  · intro v
    rw [hcl, hcl]
    exact h.sep_eq_inter hl hnp v
  · intro hpc
    have h1 := h.ord_lt c hl hnp
    rcases h.anc_ord hpc with e | e
    · rw [e] at h1; omega
    · omega
  · intro a b ha hb hac hbc v hva hvb
    rw [hcl] at hva hvb
    exact cgi_crossing h hl hnp (hall a (by omega)) (hall b (by omega)) hac hbc hva hvb

/-- [S] in a clique tree with a single root every live clique is connected to the root through
any edge list that joins every non-root clique to its parent -/
theorem cgi_conn_root {t : SuperNodeTree} {ord : Nat → Nat} (h : CTInv t ord) {r : Nat}
    (huniq : ∀ c, Live t c → t.snodeParent.getD c 0 = noParent → c = r)
    {l : List (Nat × Nat)}
    (hedge : ∀ c, Live t c → t.snodeParent.getD c 0 ≠ noParent →
      Conn l c (t.snodeParent.getD c 0)) :
    ∀ c, Live t c → Conn l c r := by
  obtain ⟨N, hN⟩ := pcl_exists_bound ord t.snodeParent.size
  have key : ∀ k c, Live t c → N ≤ ord c + k → Conn l c r := by
    intro k
    induction k with
    | zero =>
      intro c hl hk
      have := hN c hl.1
      omega
    | succ k ih =>
      intro c hl hk
      by_cases hnp : t.snodeParent.getD c 0 = noParent
      · rw [huniq c hl hnp]; exact Conn.refl _ _
      · have hlt := h.ord_lt c hl hnp
        exact (hedge c hl hnp).trans (ih _ (h.par_live c hl hnp) (by omega))
  intro c hl
  exact key N c hl (by omega)

/-! ## the stored weights are not zero -/

/-- [S] a non-empty sum of copies of the same non-zero integer is not zero -/
theorem cgi_sum_const_ne_zero (f : Nat → Int) (w : Int) (hw : w ≠ 0) :
    ∀ l : List Nat, l ≠ [] → (∀ k ∈ l, f k = w) → (l.map f).sum ≠ 0 := by
  have key : ∀ l : List Nat, (∀ k ∈ l, f k = w) → (l.map f).sum = (l.length : Int) * w := by
    intro l
    induction l with
    | nil => intro _; simp
    | cons a l ih =>
      intro hall
      rw [List.map_cons, List.sum_cons, ih (fun k hk => hall k (by simp [hk])), hall a (by simp)]
      simp only [List.length_cons]
      push_cast
      ring
  intro l hne hall
  rw [key l hall]
  have : (l.length : Int) ≠ 0 := by
    have := List.length_pos_iff.mpr hne
    omega
  exact Int.mul_ne_zero this hw

/-- [S] a stored position of a `Good` matrix is one of the edges -/
theorem cgi_mem_edges {E : IMat} (hg : E.Good) {r c : Nat} (hc : c < E.n)
    (h : (E.entry r c).isSome = true) : (r, c) ∈ E.edges := by
  obtain ⟨v, hv⟩ := Option.isSome_iff_exists.mp h
  obtain ⟨k, hk, h1, h2, _⟩ := (entry_eq_some_iff hg.wfe hg.lower hc v).mp hv
  unfold IMat.edges
  exact List.mem_map.mpr ⟨k, List.mem_range.mpr hk, by rw [h1, h2]⟩


/-! ## `initialise` -/

/-- [S] THE TWO LOOPS OF `initialise` on a tree whose arrays have equal sizes: no panic; the
supernodes become the whole cliques, all parents `INACTIVE_NODE`, no children -/
theorem cgi_loops_ok {t0 : SuperNodeTree} (h : PCInv t0) :
    ∃ sn1 par1 ch1,
      forIn (List.range' 0 (min t0.snode.size t0.separators.size)) t0.snode
        (cgiStep1 t0.separators) = .ok sn1 ∧
      forIn (List.range' 0 t0.snodeParent.size) (t0.snodeParent, t0.snodeChildren) cgiStep2
        = .ok (par1, ch1) ∧
      sn1.size = t0.snode.size ∧
      (∀ c, c < t0.snode.size → sn1.getD c #[] =
        (t0.snode.getD c #[]).extend (t0.separators.getD c #[]).toList) ∧
      (∀ c v, v ∈ (sn1.getD c #[]).toList ↔ v ∈ cliqueList t0 c) ∧
      par1 = Array.replicate t0.snodeParent.size inactiveNode ∧
      ch1 = Array.replicate t0.snodeParent.size #[] := by
  have hmin : min t0.snode.size t0.separators.size = t0.snode.size := by
    rw [h.sz_sep]; exact Nat.min_self _
  obtain ⟨sn1, hl1, hsz1, hg1⟩ := cgi_loop1 t0.separators t0.snode.size 0 t0.snode (by omega)
    (by rw [h.sz_sep]; omega)
  obtain ⟨par1, ch1, hl2, hszp, hszc, hgp, hgc⟩ := cgi_loop2 t0.snodeParent.size 0 t0.snodeParent
    t0.snodeChildren (by omega) (by rw [h.sz_ch, h.sz_par]; omega)
  have hget : ∀ c, c < t0.snode.size → sn1.getD c #[] =
      (t0.snode.getD c #[]).extend (t0.separators.getD c #[]).toList := by
    intro c hc
    rw [hg1 c, if_pos (by omega)]
  refine ⟨sn1, par1, ch1, by rw [hmin]; exact hl1, hl2, hsz1, hget, fun c v => ?_, ?_, ?_⟩
  · by_cases hc : c < t0.snode.size
    · rw [hget c hc, VSet.mem_extend]
      unfold cliqueList
      rw [List.mem_append]
    · unfold cliqueList
      rw [cgi_getD_oob sn1 c #[] (by omega), cgi_getD_oob t0.snode c #[] (by omega),
        cgi_getD_oob t0.separators c #[] (by rw [h.sz_sep]; omega)]
      simp
  · rw [← hszp]
    refine cgi_eq_replicate par1 inactiveNode 0 (fun c hc => ?_)
    rw [hgp c, if_pos (by omega)]
  · have : t0.snodeParent.size = ch1.size := by rw [hszc, h.sz_ch, h.sz_par]
    rw [this]
    refine cgi_eq_replicate ch1 #[] #[] (fun c hc => ?_)
    rw [hgc c, if_pos (by omega)]

/-- [S] **`initialise` ESTABLISHES THE LOOP INVARIANT**: on the tree `t0` of `SuperNodeTree::new`
(filled pattern) with at least two cliques, `initialise` does not panic, does not set `stop`, the
invariant `CGInv` of the merge loop holds for its result, and the result is related to `t0` by
`CGInitRel` (supernodes ↦ whole cliques, tree structure given up) -/
theorem initialise_spec (hT : NewFromTripletsSpec) (hR : ReducedOkSpec)
    (hRT : ReducedTreeEdgeSpec) : InitialiseSpec := by
  intro L t0 hf hok h2
  have hct := hok.ct
  have hpc := hct.toPCInv
  have hpre := hok.preReorder hf
  have hncl := hok.ncl
  have hlive : ∀ c, c < t0.snode.size → Live t0 c := hok.all_live
  obtain ⟨sn1, par1, ch1, hl1, hl2, hsz1, hget1, hcl, hpar1, hch1⟩ := cgi_loops_ok hpc
  -- the new clique sets: non-empty, without repetition, inside `0..n`
  have hne1 : ∀ c, c < t0.snode.size → sn1.getD c #[] ≠ #[] := by
    intro c hc he
    have hso := hok.cover.snode_of _ (snp_getD_mem_toList t0.snode #[] hc)
    have hm : minOf (t0.snode.getD c #[]) ∈ (sn1.getD c #[]).toList := by
      rw [hcl]; exact List.mem_append_left _ hso.rep_mem
    rw [he] at hm
    simp at hm
  have hnd1 : ∀ c, (sn1.getD c #[]).toList.Nodup := by
    intro c
    by_cases hc : c < t0.snode.size
    · rw [hget1 c hc]
      exact VSet.nodup_extend _ _ (hct.sn_nodup c (hlive c hc))
    · rw [cgi_getD_oob sn1 c #[] (by omega)]; simp
  have hlt1 : ∀ c, ∀ v ∈ (sn1.getD c #[]).toList, v < L.n := by
    intro c v hv
    have hc : c < t0.snode.size := by
      by_contra hc
      rw [cgi_getD_oob sn1 c #[] (by omega)] at hv
      simp at hv
    rw [hcl] at hv
    rcases List.mem_append.mp hv with hv | hv
    · exact (hpre.part v).mpr ⟨c, hlive c hc, hv⟩
    · exact hpre.sep_lt c (hlive c hc) v hv
  -- the reduced clique graph, its weights, the edge matrix, the adjacency table
  obtain ⟨seps', rows, cols, hred, hperm, hrc, hrows⟩ := hR t0.separators sn1
  rw [hsz1] at hrows
  obtain ⟨w, hw, hwsz, hwget⟩ := computeWeights_ok rows cols sn1 hrc
    (fun k hk => by rw [hsz1]; exact (hrows k hk).2)
    (fun k hk => by rw [hsz1]; have := hrows k hk; omega)
  obtain ⟨E, hnew, hEm, hEn, hgood, hpos, hval⟩ := hT t0.snode.size rows cols w hrc (by omega) hrows
  obtain ⟨tb, hadj, hkeys, hmem, hnodup⟩ := computeAdjacencyTable_ok hgood hEn
  rw [← hncl] at hnew hadj
  have hcglive : ∀ c, CGLive
      ({ t0 with snode := sn1, snodeParent := par1, snodeChildren := ch1, separators := seps' } :
        SuperNodeTree) c ↔ c < t0.snode.size := by
    intro c
    unfold CGLive
    show (c < sn1.size ∧ sn1.getD c #[] ≠ #[]) ↔ _
    rw [hsz1]
    exact ⟨fun h => h.1, fun h => ⟨h, hne1 c h⟩⟩
  refine ⟨{ stop := false, edges := E, p := Array.replicate E.nzval.size 0, adjacencyTable := tb },
    { t0 with snode := sn1, snodeParent := par1, snodeChildren := ch1, separators := seps' },
    ?_, rfl, ?_, ?_⟩
  · rw [initialise_eq_forIn]
    simp only [hl1, hl2, hred, hw, hnew, hadj, bind, Except.bind, pure, Except.pure]
  · -- the loop invariant
    have hentry : ∀ r c, (E.entry r c).isSome = true → c < r ∧ r < t0.snode.size := by
      intro r c h
      have := cgi_entry_lt hgood h
      omega
    -- the tree edges are stored entries
    have hedge : ∀ c, Live t0 c → t0.snodeParent.getD c 0 ≠ noParent →
        Conn E.edges c (t0.snodeParent.getD c 0) := by
      intro c hl hnp
      have hc : c < t0.snode.size := hpc.sz_par ▸ hl.1
      obtain ⟨k, hk, hk1, hk2⟩ := cgi_tree_edge hRT hct hlive hsz1 hcl
        (fun i _ => hnd1 i) hred hc hnp
      have hs : (E.entry (max c (t0.snodeParent.getD c 0)) (min c (t0.snodeParent.getD c 0))).isSome
          = true := (hpos _ _).mpr ⟨k, hk, hk1, hk2⟩
      have hmemE := cgi_mem_edges hgood (by rw [hEn]; omega) hs
      have hlt := hct.ord_lt c hl hnp
      by_cases hcp : c ≤ t0.snodeParent.getD c 0
      · rw [Nat.max_eq_right hcp, Nat.min_eq_left hcp] at hmemE
        exact (Conn.edge hmemE).symm
      · rw [Nat.max_eq_left (by omega), Nat.min_eq_right (by omega)] at hmemE
        exact Conn.edge hmemE
    have hroot := cgi_conn_root hct (hok.pcinit h2).root_unique hedge
    refine
      { sz := hsz1
        small := hpc.small
        em := hEm
        en := hEn
        good := hgood
        nz := ?_
        edge_live := ?_
        conn := ?_
        adj_key := ?_
        adj_iff := ?_
        adj_nodup := hnodup
        ncl := ?_
        psize := ?_
        sn_nodup := hnd1
        sn_lt := hlt1 }
    · -- no stored weight is zero
      intro k hk
      show E.nzval.getD k 0 ≠ 0
      have hk : k < E.nzval.size := hk
      have hk' : k < E.rowval.size := by have := hgood.wfe.nnz_val; omega
      obtain ⟨hc1, _, _⟩ := colIdx_spec hgood.wfe hk'
      have he : E.entry (E.rowval.getD k 0) (E.colIdx.getD k 0) = some (E.nzval.getD k 0) :=
        (entry_eq_some_iff hgood.wfe hgood.lower hc1 _).mpr ⟨k, hk', rfl, rfl, rfl⟩
      have hs : (E.entry (E.rowval.getD k 0) (E.colIdx.getD k 0)).isSome = true := by
        rw [he]; rfl
      obtain ⟨k0, hk0, hr0, hc0⟩ := (hpos _ _).mp hs
      obtain ⟨hcr, hrN⟩ := hentry _ _ hs
      rw [hval _ _ _ he]
      refine cgi_sum_const_ne_zero _ (edgeMetricVal (sn1.getD (E.rowval.getD k 0) #[])
        (sn1.getD (E.colIdx.getD k 0) #[]))
        (edgeMetricVal_ne_zero (hne1 _ hrN) (hne1 _ (by omega))) _ ?_ ?_
      · intro hnil
        have : k0 ∈ (List.range rows.size).filter
            (fun k' => rows.getD k' 0 == E.rowval.getD k 0 && cols.getD k' 0 == E.colIdx.getD k 0) := by
          rw [List.mem_filter]
          exact ⟨List.mem_range.mpr hk0, by simp [hr0, hc0]⟩
        rw [hnil] at this
        simp at this
      · intro k' hk'
        rw [List.mem_filter] at hk'
        obtain ⟨h1, h3⟩ := hk'
        simp only [Bool.and_eq_true, beq_iff_eq] at h3
        rw [hwget k' (List.mem_range.mp h1), h3.1, h3.2]
    · -- entries join live cliques
      intro r c h
      obtain ⟨h1, h3⟩ := hentry r c h
      exact ⟨(hcglive r).mpr h3, (hcglive c).mpr (by omega)⟩
    · -- the live cliques are connected
      intro a b ha hb
      have ha' := hlive a ((hcglive a).mp ha)
      have hb' := hlive b ((hcglive b).mp hb)
      exact (hroot a ha').trans (hroot b hb').symm
    · intro c
      exact (hkeys c).trans (hcglive c).symm
    · intro a b _
      show b ∈ (tb.nbrs a).toList ↔ E.Adj a b ∧ a ≠ b
      rw [hmem a b]
      exact ⟨fun h => ⟨h, cgi_adj_ne hgood h⟩, fun h => h.1⟩
    · show t0.nCliques = _
      refine hncl.trans ?_
      unfold cgLiveList
      rw [List.filter_eq_self.mpr, List.length_range]
      · exact hsz1.symm
      · intro c hc
        have hc' : c < sn1.size := List.mem_range.mp hc
        rw [decide_eq_true_eq]
        exact (hcglive c).mpr (by omega)
    · show E.nzval.size ≤ (Array.replicate E.nzval.size 0).size
      simp
  · exact
      { size := hsz1
        clique := hcl
        parent := hpar1
        children := hch1
        seps := hperm
        post := rfl
        snodePost := rfl
        nblk := rfl
        ncl := rfl }

/-! ## non-vacuity -/

/-- [S] the columns of the triangle are sorted -/
theorem cgi_tri_sorted : KrEx.tri.Sorted := ⟨by
  intro c hc k h1 h2
  have hc' : c < 4 := hc
  match c, hc' with
  | 0, _ =>
    have h2' : k + 1 < 2 := h2
    have : k = 0 := by omega
    subst this; decide
  | 1, _ =>
    have h1' : 2 ≤ k := h1
    have h2' : k + 1 < 3 := h2
    omega
  | 2, _ =>
    have h1' : 3 ≤ k := h1
    have h2' : k + 1 < 3 := h2
    omega
  | 3, _ =>
    have h1' : 3 ≤ k := h1
    have h2' : k + 1 < 3 := h2
    omega⟩

/-- non-vacuity of `computeAdjacencyTable_ok`: the triangle `1–0`, `2–0`, `2–1` on four cliques -/
example : ∃ tb, computeAdjacencyTable KrEx.tri 4 = .ok tb ∧
    (∀ c, tb.containsKey c = true ↔ c < 4) ∧
    (∀ a b, b ∈ (tb.nbrs a).toList ↔ KrEx.tri.Adj a b) := by
  obtain ⟨tb, h, hk, hm, _⟩ := computeAdjacencyTable_ok
    (⟨KrEx.tri_wfe, KrEx.tri_lower, cgi_tri_sorted⟩ : KrEx.tri.Good) (N := 4) rfl
  exact ⟨tb, h, hk, hm⟩

/-- non-vacuity of `computeWeights_ok` -/
example : ∃ w, computeWeights #[1, 2] #[0, 1] #[#[0, 3], #[1, 3], #[2, 3]] = .ok w ∧ w.size = 2 := by
  obtain ⟨w, h, hs, _⟩ := computeWeights_ok #[1, 2] #[0, 1] #[#[0, 3], #[1, 3], #[2, 3]] rfl
    (by intro k hk; have hk' : k < 2 := hk
        match k, hk' with
        | 0, _ => decide
        | 1, _ => decide)
    (by intro k hk; have hk' : k < 2 := hk
        match k, hk' with
        | 0, _ => decide
        | 1, _ => decide)
  exact ⟨w, h, hs⟩

end Clarabel.Chordal
